#!/usr/bin/env python3
"""Regenerates /verif/MANIFEST.json from the table below (single source of truth for claimed checks)."""
import json, os, subprocess
V = os.path.dirname(os.path.dirname(os.path.abspath(__file__)))
props = [json.loads(l) for l in open(os.path.join(V, "properties.jsonl"))]

CLAIMED = {
 "C08": dict(
  category="model_checking",
  text="TLC evaluates spec/MerkleCases.tla (over spec/Merkle.tla, symbolic hashes) exhaustively for all tree sizes up to N (10 quick / 16 thorough): "
       "generation transcribed from ahtree/htree equals the reference MTH/audit/consistency paths, every honest proof verifies, the RFC 9162 "
       "reference verifiers are sound and the repaired Go verifiers decide exactly like them; every enumerated case (re-labelled positions/sizes, "
       "altered proofs, other/forked leaves and roots, and every claim solvable against the transcribed verifier) is then concretised with SHA-256 "
       "and run on the real ahtree/htree code. spec/AHT.tla (append/reset-size/sync/reopen/kill of the on-disk tree) is model-checked exhaustively "
       "for the design and for the code as transcribed; its counterexamples and simulated behaviours are replayed on real on-disk trees with "
       "the abstract log and the Merkle self-consistency compared after every step.",
  design_ref="DESIGN.md §4 C08",
  note="Concurrent probe: proof generation racing with ResetSize + Append (forced through a wrapped digest log): a proof must verify against the tree before or after. Assumes SHA-256 collision resistance (free term algebra). Bounded: N<=16 leaves, claimed positions up to N+1, AHT behaviours up to 14 steps. "
       "Trusted: the 20-line reference MTH in the harness (shape taken from TLC), TLC itself.",
  technique="TLA+ enumeration + TLC exhaustive evaluation, replay of every case and of AHT state-machine behaviours on the real code"),
}

CLAIMED["C02"] = dict(
  category="model_checking",
  text="spec/Store.tla models the commit pipeline of ImmuStore (one action per critical section; guards = weakest conditions for the invariants). "
       "TLC checks spec/MCStore.tla exhaustively (all interleavings, both durability modes, with/without external allowance): dense ids, chained hashes, "
       "append-only committed history, acknowledged-implies-durable. The real store is then driven with the verif hooks on (2-5 concurrent committers, sync and "
       "async commits, failing preconditions, cancelled contexts, discards, allowance, index flush/compaction, clean close/reopen cycles; configuration class "
       "rotating over synced/unsynced, embedded values, prealloc, header version, IO concurrency, file sizes forcing chunk rotation) and after every "
       "acknowledged commit the whole committed history is re-read through ReadTx+ReadValue, ExportTx and ReadTxHeader; TLC validates every recorded execution "
       "against Store.tla (spec/TraceStore.tla): each hook event must be explained by an action and every re-read must equal what was first committed under that id "
       "and what its committer wrote, with the chain (PrevAlh, BlRoot against a reference Merkle root) intact.",
  design_ref="DESIGN.md §4 C02",
  note="Interleavings of the real store are those the Go scheduler produces in the driver runs (no forced schedules yet); MC bounds MaxTx<=4. "
       "Trusted: hook placement (events emitted under the protecting lock), the tracer's reference Merkle root, TLC.",
  technique="TLC exhaustive model checking of the pipeline + TLC trace validation of hooked real executions")

CLAIMED["C03"] = dict(
  category="model_checking",
  text="Fault enumeration on the real recovery code judged by the specification: workloads (concurrent committers, precommitted backlog, discards, chunk rotation, "
       "index flushes, reopen) run on the real store in Synced mode with hooks that record every physical file operation (create, write at offset, fsync, remove, rename); "
       "for EVERY point between two operations a crash image is materialised (process kill; power loss: only fsynced content / all but the last un-fsynced write per file / "
       "random per-file prefix with torn last write), the real store.Open recovers it and the driver reads back the whole history, checks the chain against a reference "
       "Merkle root, values, dual proofs from acknowledged states, index lookups and a fresh commit. Each outcome is inserted as a Recovered event at the crash position of "
       "the logical hook trace; TLC validates the execution against spec/Store.tla (write-ordering guards: a commit-log entry only after tx record and values are durable; "
       "ack only after the commit log is fsynced) and judges every image with RecoveredVerdict on the spec state at that instant (everything committed survives identically; "
       "the rest is a gap-free chained extension by really precommitted txs; proofs, index, new commits fine). MCStore.tla is model-checked exhaustively. "
       "spec/StoreCrash.tla (physical model: tx log / commit log / value log as buffered files written at offsets, sync() in six steps, discard, kill / power-loss crashes, "
       "restart, OpenWith's recovery transcribed) is model-checked exhaustively (1-2 crashes), two anchor defects must be found by TLC, and behaviours printed by TLC -simulate "
       "are replayed on the real store (harness/cmd/c03 -scripts): the recovered frontier and transactions must be exactly the ones the model's Recover computes. "
       "Index tree: spec/IndexCrash.tla (nodes / history / commit log of embedded/tbtree as position -> generation files, the fsync points of a synced flush, logical-only "
       "rewinds, OpenWith's backwards walk, wiping of discarded entries; kill and power loss keeping any subset of un-fsynced chunks or tearing them, repeated stops, clean "
       "closes) is model-checked exhaustively; two code variants must be rejected by TLC and every rejected behaviour of them plus simulated behaviours of the design are "
       "replayed on the real tree (harness/cmd/c03idx): the recovered tree must be exactly one flushed generation, not older than the last acknowledged synced flush.",
  design_ref="DESIGN.md §4 C03",
  note="Crash model: per-file prefix of un-fsynced writes + torn last write, no reordering inside a file, directory entries durable after SyncDir (what the code assumes). "
       "Repeated crashes: second-level enumeration on sampled first-level images (incl. crash points during the recovery run) and two-crash behaviours of StoreCrash. "
       "Workloads are the ones the driver generates (6 + 1 directed quick / 12 + 1 thorough, ~5-10k images quick) plus 70 / 600 StoreCrash behaviours.",
  technique="physical-operation hooks + exhaustive crash-point enumeration on real recovery, verdicts by TLC trace validation against Store.tla")

CLAIMED["C01"] = dict(
  category="model_checking",
  text="spec/Proofs.tla models headers, Alh/innerHash, the binary-linking tree and dual/linear/linear-advance proof generation and verification symbolically (hashes = free "
       "terms, i.e. collision resistance). TLC evaluates spec/ProofCases.tla exhaustively for all history shapes (any non-decreasing BlTxID lag) up to N txs (4 quick / 5 thorough), "
       "all (trusted, queried) pairs in both directions, the honest response, the response from a history forked at any point, every one-component mixture of both and every single "
       "alteration of every header field and proof term at every position; it proves completeness in the model and computes, per case, the transcribed verifier's verdict and the "
       "semantic truth (new state linked to the trusted one). Every case is then executed on the real code: real stores with those shapes (built via ReplicateTx), real "
       "store.DualProof output, the same mixtures/alterations applied to the real structs, real store.VerifyDualProof in the client flow; accept without truth or reject of an "
       "honest proof is a violation, any difference to the transcription is reported as model drift. Proof-shape soundness of the underlying tree verifiers (incl. the equivocation "
       "attack via re-labelled inclusion proofs, repaired by a fix: commit) is decided by C08's cases. ProofCases also enumerates split-view servers (Proofs!HistPoison: "
       "well-formed linear chain, foreign leaf in the binary-linking tree), replayed with hand-assembled proofs over a real ahtree (the assembly is compared with the real "
       "ImmuStore.DualProof on every unpoisoned shape first). spec/ClientFlow.tla models the Verifiable* response as a whole (header copies, entry, reference, tx entries, "
       "inclusion proof, SQL row + catalog) and the Go client's verifiedGet / VerifiedTxByID / VerifiedSet / StreamVerifiedGet / VerifyRow statement by statement; TLC enumerates "
       "every set of up to K altered fields (K=2 quick, 3 thorough) incl. consistently recomputed digests and swapped answers; harness/cmd/c01c applies them between a real "
       "in-process server and the real pkg/client and compares what the client hands back and the state it moves to with the database.",
  design_ref="DESIGN.md §4 C01",
  note="Bounded: N<=5 txs, one entry per tx, single alterations and one-component mixtures, forks of well-formed histories. Not yet covered: multi-step client sessions, "
       "pkg/client + pkg/database Verifiable* conversions and signatures, malformed-history adversary with proof solving for dual proofs, DualProofV2.",
  technique="symbolic TLA+ model of the proof system, exhaustive TLC case enumeration, replay of every case on real proof generation and verification")

CLAIMED["C05"] = dict(
  category="model_checking",
  text="spec/MVCC.tla models read-write transactions over two indexes (index time, reusable flushed root, lazily taken per-index snapshots as tbtree hands them out, own-write "
       "overlay, read-set of point reads and full index scans, transcription of checkPreconditions incl. the per-snapshot loop). TLC checks Serializable exhaustively for one "
       "read-write tx against write-only committers, a lagging indexer and root flushes (quick: 2 commits/2 reads ~1.4M states; thorough: 3 commits ~18M states), and finds the "
       "counterexample of the early-return variant of the snapshot loop (the defect repaired by a fix: commit), which is kept as a schedule. Schedules (that counterexample + "
       "500/3000 simulated behaviours with two read-write txs) are executed deterministically on the real store in multi-indexing mode (staleness steered through per-index "
       "snapshots that dump the root; tx options with and without SnapshotMustIncludeTxID=0), and free concurrent read-write/write-only transactions run as well; every real read, "
       "write set and commit id is validated by TLC against spec/TraceMVCC.tla: each read of a committed tx must equal the same read on the state produced by all txs with "
       "smaller ids. Predicted values only produce model-drift notes.",
  design_ref="DESIGN.md §4 C05",
  note="Concurrent runs also on a synced store (pre-committed, not yet committed conflicting transactions) and with range fingerprints (MarkPrefixScanned, TraceMVCC kind fp; transactions whose read-set holds fingerprints only). Reads covered: Get (found / not found / own write), full index scans through OngoingTx key readers and range fingerprints; not yet GetWithPrefix, ranges with seek/end/offset/Reset, "
       "MarkPrefixScanned, filters, deletes. Schedules are sequential interleavings of steps of <= 2 read-write txs; true parallelism only in the free-running runs.",
  technique="TLC exhaustive model checking + deterministic replay of TLC schedules + TLC trace validation of real reads/commits")

CLAIMED["C15"] = dict(
  category="exploration",
  text="spec/Codec.tla partitions every SQL type into boundary classes (min/max integers and neighbours, -Inf/-0/+0/denormals/+Inf, empty/NUL-containing/maximal strings and blobs, "
       "timestamps before 1970 and at microsecond precision, UUIDs, booleans, NULL), defines the SQL order on them and on composite keys, and the field-presence combinations of the "
       "structural codecs (TxHeader v0/v1, TxMetadata, KVMetadata, exported txs with/without truncated values, SQL rows with NULLs). TLC enumerates all pairs (and triples for "
       "composite-key transitivity), proves the relation antisymmetric/transitive and writes the expectations; harness/cmd/c15 concretises every class to several values and checks "
       "on the real code Decode(Encode(v)) = v, v < w <=> Enc(v) <bytes Enc(w), v = w <=> Enc(v) = Enc(w) for the key and value codecs, TxHeader/TxMetadata/KVMetadata bytes, "
       "ExportTx -> ReplicateTx between two real stores, the schema converters and through a real SQL engine (index order, index equality, sort spill files).",
  design_ref="DESIGN.md §4 C15, docs/C15.md",
  note="Boundary lengths (0, 1, max-1, max, max+1) of every length-bounded field through every reader incl. a real store commit / read-back / replication; a decoder rejecting its encoder's output is a verdict. Model-based enumeration, not a proof about bit patterns: inside a class values are sampled (4 variants quick / 12 thorough). NaN, sub-second expirations excluded.",
  technique="TLA+ domain partition + order relation, exhaustive pair/triple enumeration by TLC, replay on the real codecs and SQL engine")
CLAIMED["C16"] = dict(
  category="exploration",
  text="spec/Wire.tla describes each binary format as a list of field descriptors (exported tx, TxHeader, TxMetadata, KVMetadata, appendable metadata and file header, PostgreSQL "
       "frontend messages, stream chunks, proof protobuf messages) and TLC enumerates, for 91 small instance shapes, EVERY (field, operator) mutation and every truncation point "
       "(~7.3k) with the post-condition error => no effect. harness/cmd/c16 builds the valid bytes with the real encoders (layout drift is a machinery fault), applies each mutation "
       "and calls the real decoder under recover, a deadline and an allocation cap (allocation-driven decoders in a child process); for ReplicateTx the store state (committed / "
       "precommitted ids and hashes) is compared before and after.",
  design_ref="DESIGN.md §4 C16, docs/C16.md",
  note="Structure-aware mutations of the described formats only: SQL text, purely random bytes, the pgsql startup packet and the document converters are not covered.",
  technique="TLA+ format descriptors, exhaustive mutation enumeration by TLC, replay on the real decoders")

CLAIMED["C06"] = dict(
  category="model_checking",
  text="spec/KVLin.tla is the specification of atomicity for the pkg/database API (Set, multi-key Set, ExecAll, Delete, SetReference, ZAdd with preconditions; Get incl. AtTx/AtRevision, "
       "GetAll, Scan, ZScan, History, Count): every call is Call / internal Lin (applied or evaluated atomically on the abstract versioned map, preconditions on the state "
       "immediately before) / Return. MCKVLin.tla is checked exhaustively (3 clients, 2 keys). 3-6 goroutines call the real database concurrently over <= 8 keys while indexing, "
       "FlushIndex and CompactIndex run; Call/Return events with full results form windows of <= 60 ops cut at quiescent points; spec/TraceKVLin.tla lets TLC place the unlogged "
       "linearization points (depth-first, high-water-mark acceptance; tx ids of writes pin the write order): a window is accepted iff a linearization exists. The abstract state "
       "at every cut comes from TLC, never from the database.",
  design_ref="DESIGN.md §4 C06, docs/C06.md",
  note="Race rounds on a synced store with gated conflicting conditional writes (validated inside another writer's sync window); snap windows with GetAll / Scan overlapping multi-key writers. No forced schedules (free-running goroutines); windows bound the concurrency depth; porcupine deliberately not used. Rejected windows are re-validated alone and classified by TLC.",
  technique="TLC trace validation with silent linearization steps (existence of a linearization per window) + exhaustive MC of the atomic spec")
CLAIMED["C09"] = dict(
  category="exploration",
  text="spec/Corruption.tla lists the fields of the tx record, the commit-log entry and the value bytes, which check authenticates which field on which read path, and a small "
       "Alter;Read machine; TLC computes the full (field x alteration class x read path) matrix (detected / invisible / uncovered candidates) and checks that with all checks in "
       "place every alteration is detected or invisible. harness/cmd/c09 builds real stores per configuration class (plain / compressed / embedded values, several chunks, 2 value "
       "logs, header v0/v1), maps every byte of every committed record and value range to its field with an independent parser, and flips single bits (all field classes; "
       "stratified under a time box in the quick tier) plus multi-bit/pair alterations in copies, running 9 read paths (Open, ReadTx, ReadTxHeader, ReadTxEntry, ReadValue, ExportTx, "
       "TxReader, proofs, index rebuild) under recover + deadline: accept = error or identical content.",
  design_ref="DESIGN.md §4 C09, docs/C09.md",
  note="spec/CorruptionSeq.tla: read SEQUENCES (checked / unchecked reads of the same and other values) x alteration placement x value-cache modes (VLogCacheSize 0 / 1 / 64). Single-bit coverage is exhaustive only where the thorough tier finishes a store class inside its time box (200 s per class; the rest is counted); index and hash-tree files are outside the property's scope.",
  technique="TLA+ field/check matrix evaluated by TLC + bit-flip replay on real stores")
CLAIMED["C10"] = dict(
  category="model_checking",
  text="spec/TBTree.tla: the index as a map key -> versions with a logical time, frozen snapshots, readers as call histories, flush / sync / compaction dumps / reopen; invariants "
       "SnapshotFrozen, SnapshotFresh, FlushKeeps, ReopenKeeps, CompactEqualsStateAtReportedTs, RejectKeeps. TLC checks exhaustive small configurations (writer ops, snapshots + "
       "reader, bulks) and generates behaviours (simulation + directed scripts + counterexamples of the code-as-transcribed variants); harness/cmd/c10 replays every behaviour on "
       "the real on-disk tbtree under 6 configuration classes (minimal node size forcing splits, cache 1.., flush/sync thresholds 1.., cleanup 0/50/100, tiny files) comparing "
       "every read and, after every step, the full projection (all keys, all versions); snapshots are re-read after later inserts/flushes/compactions, with concurrent reader "
       "goroutines on snapshots.",
  design_ref="DESIGN.md §4 C10, docs/C10.md",
  note="Reader matrix: every (Prefix, SeekKey, EndKey) over a prefix-closed probe universe x inclusive flags x order x offset x history, on three small trees, through Read and ReadBetween. The copy-on-write node structure is deliberately not modelled (it is the thing under test); exhaustive only for <= 5-6 ops over 3 keys.",
  technique="TLC model checking of the abstract multi-version map + replay of TLC behaviours on the real tbtree")
CLAIMED["C18"] = dict(
  category="model_checking",
  text="spec/Auth.tla: users with a permission per database, active flag, sessions and tokens (valid, expired, user deactivated, permission changed, logged out, several logins), "
       "database selection, and the policy of the property as invariants over every Call; TLC explores the session histories exhaustively and prints the full matrix "
       "(11.6k rows) used as oracle; a transcription of the Go gate is checked against the policy (its counterexamples are replayed on the real server). harness/cmd/c18 runs an "
       "in-process ImmuServer with all three gRPC services and the real interceptor chain; the RPC list comes from the service descriptors (93 RPCs, a missing request builder is a "
       "fault); the effect of every call is OBSERVED (tx ids, settings, user list, returned data) for every RPC x role x database selection x session state (~10k cells) and all "
       "calls are validated as a trace by spec/TraceAuth.tla.",
  design_ref="DESIGN.md §4 C18, docs/C18.md",
  note="Multi-step flows (Auth.tla modes flow / flowcode): transaction bound to one database while the session selects another, permission changes in between; effects observed per database after every step. Token expiry (minutes granularity) is not driven; some RPCs without observable effect are judged by status only.",
  technique="TLC exhaustive policy/state-machine check + full RPC matrix on the real server + TLC trace validation")

CLAIMED["C07"] = dict(
  category="model_checking",
  text="spec/Replication.tla relates what the primary and each replica precommitted, durably hold and committed under each id (a replica precommits under id n only the "
       "primary's tx n; commits n only after the primary; with synchronous replication the primary commits n only after the required number of replicas durably hold it). TLC "
       "checks spec/MCReplication.tla exhaustively (2 replicas, network that duplicates / reorders / alters exports, replica discards, 0/1/2 sync acks) and finds the counterexample "
       "of the variant in which header alterations cannot be authenticated. harness/cmd/c07 drives a real primary store and 1-2 real replica stores like pkg/replication does "
       "(ExportTx, ReplicateTx, allowance from durable acks, AllowCommitUpto after the primary committed) with duplicated, out-of-order and single-bit-altered deliveries, replica "
       "restarts and discards, header v0/v1, embedded values, integrity-check skipping; the merged hook trace of all stores is validated against Replication.tla "
       "(spec/TraceReplication.tla, deviations collected so that the rest of a run is still examined), every store's own events against Store.tla, and at the end replica and "
       "primary are compared tx by tx and replica dual proofs are verified against primary states.",
  design_ref="DESIGN.md §4 C07",
  note="Two slices. Store level: the replicator loop is emulated by the driver making the same calls. Database level: spec/ReplicationDB.tla + MCReplicationDB.tla (replica state "
       "reports, the primary's validation / ack counting / allowance, answers, divergence, discards, failover by reconfiguration and by re-routing, restart) model-checked "
       "exhaustively (3 nodes, one primary switch), weakened variants must have counterexamples, and harness/cmd/c07db runs the REAL replication.TxReplicator between REAL "
       "database.DB objects in one process (gRPC transport and the ~30 lines of server.exportTx replaced by an in-process stream) under gated schedules (random, TLC-simulated, "
       "TLC counterexamples, directed failover scenarios); the merged trace (store hooks + driver events) is validated against TraceReplicationDB.tla.",
  technique="TLC exhaustive model checking of the replication relation + TLC trace validation of real primary/replica executions")

CLAIMED["C04"] = dict(
  category="model_checking",
  text="spec/Index.tla: the committed log as entry sets, per index (plain, prefixed, mapped injective) an index time and a multi-version map, IndexBulk transcribed from "
       "indexer.indexSince (bulks, mapping, injective tombstones, IncreaseTs), reads with defined results (Get, GetBetween, GetWithPrefix, History with revisions, key readers). "
       "TLC checks IndexAgrees exhaustively on small configurations for the design and finds the counterexamples of the three transcribed code variants (repaired by fix: commits); "
       "simulated behaviours (write histories, maintenance points, reads) are replayed on real stores under index configuration classes (MaxBulkSize 1..8, thresholds, node/cache "
       "sizes, 1-3 indexes with mappers) with real flush/compact/reopen; a concurrent driver logs reads with the indexing progress observed before/after and spec/TraceIndex.tla "
       "accepts iff each read equals the reference value at some index time in between.",
  design_ref="DESIGN.md §4 C04, docs/C04.md",
  note="Store level only (pkg/database Get/Scan/History/Count not driven); exhaustive bounds 2-4 txs x 1-2 entries. Every run ends with a quiescent comparison of every index "
       "(also after reopen); gated runs index transactions while a compaction dump is being written (hook gate on the dump's first file).",
  technique="TLC model checking + replay of TLC behaviours on real stores + TLC trace validation of concurrent reads")
CLAIMED["C11"] = dict(
  category="exploration",
  text="spec/SQLQuery.tla: abstract tables, DML histories, a query fragment (comparisons, ranges, IN, LIKE, IS NULL, AND/OR/NOT, ORDER BY, LIMIT/OFFSET, DISTINCT, GROUP BY with "
       "aggregates, inner/left joins, IN-subquery) with its denotation in the engine's dialect, and the partition identity Q = Q AND P + Q AND NOT P + Q AND P IS NULL as a fact "
       "TLC decides. TLC enumerates (schema variant x history x query) samples covering every operator and plan class; harness/cmd/c11 builds twin tables differing only in their "
       "indexes and runs every query through every access path (forced index, pk scan, non-sargable rewrites, derived tables, hash vs nested-loop joins, hash vs ordered grouping) "
       "inside the writing transaction, after commit and after reopen; all answers must equal the denotation. The reader chains really used are recorded (vacuity check).",
  design_ref="DESIGN.md §4 C11, docs/C11.md",
  note="Model-based test generation: the verdict is only as wide as the enumerated fragment (3 tables incl. one with FLOAT / nullable VARCHAR columns and composite indexes, "
       "cross-type range predicates, multi-column GROUP BY, NULLS FIRST/LAST, joins with non-equality conjuncts and ORDER BY on the inner table).",
  technique="TLA+ denotational query semantics + TLC enumeration, replay through every physical plan on the real engine")
CLAIMED["C12"] = dict(
  category="model_checking",
  text="spec/SQLTx.tla: tables with PK, unique index, NOT NULL, CHECK, max length, auto-increment; sessions with autocommit statements or multi-statement transactions over a "
       "fixed snapshot with own-write overlay and MVCC read-set; statement-level atomicity. TLC checks ConstraintsHold / FailedStatementNoEffect exhaustively (2-3 sessions x 3 "
       "statements, DDL racing) for the design; each transcribed code quirk yields a counterexample that is replayed; simulated behaviours are executed deterministically on the real "
       "sql.Engine (explicit SQLTx sessions) comparing outcome classes, affected rows, every SELECT and the committed table after every commit; free concurrent sessions are "
       "validated by spec/TraceSQLTx.tla. A deviation is attributed by replaying it in the model under each quirk; unexplained deviations are violations.",
  design_ref="DESIGN.md §4 C12, docs/C12.md",
  note="spec/SQLUniq.tla: composite unique indexes (2-3 columns), every changed-column subset by UPDATE / UPSERT towards colliding and free tuples, replayed on the real engine. "
       "spec/SQLCat.tla: the catalog cache protocol across sessions (cold / warm NewTx, DDL commit invalidates, other commits populate under a version check, empty commits), "
       "model-checked and replayed with interleaved transactions on one engine. Multi-table transactions not modelled.",
  technique="TLC model checking + deterministic replay of statement interleavings on the real engine + TLC trace validation")
CLAIMED["C13"] = dict(
  category="model_checking",
  text="Same module as C12 (spec/SQLTx.tla) with savepoints (SAVEPOINT / ROLLBACK TO / RELEASE, nesting), COMMIT / ROLLBACK / session close, read-only sessions; invariants "
       "AllOrNothing, RollbackToUndoesExactlySuffix, OwnWritesVisible, NoDirtyReads, CountsMatchApplied checked exhaustively for the design; behaviours replayed on the real engine "
       "and through the PostgreSQL wire front-end of an in-process server (simple-query protocol); concurrent sessions validated by spec/TraceSQLTx.tla.",
  design_ref="DESIGN.md §4 C13, docs/C13.md",
  note="gRPC session path (NewTx/TxSQLExec) not driven; extended-query wire path not modelled.",
  technique="TLC model checking + deterministic replay on the real engine and the pgsql front-end + TLC trace validation")
CLAIMED["C14"] = dict(
  category="model_checking",
  text="spec/Truncation.tla: value placement by committers before they get their id, chunks, TruncateUptoTx transcribed in steps (back walk, forward walk, discards), concurrent "
       "truncations, ExportTx with its lock as a variable, restart; invariants ReadableFromCut, HeadersIntact, ExportTerminates, NoLockCycle, Idempotent checked exhaustively (up to "
       "5.2M states thorough) for the design and for the code as transcribed; counterexamples and simulated behaviours are replayed as schedules on a real store, forcing the "
       "placement order with the ValuesAppended gate hook; after each schedule and for every cut point: real TruncateUptoTx, ReadTx+ReadValue, Get, ExportTx under a liveness "
       "deadline, headers and proofs, reopen; plus pkg/database level truncation with SQL catalog and a document collection, and free concurrent runs.",
  design_ref="DESIGN.md §4 C14, docs/C14.md",
  note="A real TruncateUptoTx runs as one step in replays (interleavings inside it are explored by TLC and by chance in the free runs only). spec/TruncationDist.tla: the "
       "out-of-order transaction at distance d past the cut with small MaxConcurrency classes (also through ReplicateTx on a replica); database level: refused exports must not leak pooled resources.",
  technique="TLC model checking + gated replay of TLC schedules on the real store")
CLAIMED["C17"] = dict(
  category="model_checking",
  text="spec/ByteLog.tla (abstract byte array) and spec/Appendable.tla (singleapp/multiapp state machine: buffer window, file offset, chunk files possibly longer than the logical "
       "size, rotation, handle cache, DiscardUpto, copy, reopen) with refinement invariants ReadsAgree, AppendReturnsPrevSize, RewindDiscardsSuffix, ReopenSame, DiscardKeepsSuffix; "
       "state graphs explored to their fixpoint for the design and for the code as transcribed (whose counterexamples are replayed); simulated behaviours are stepped through real "
       "single-file and multi-file appendables on disk (tiny files and buffers, compression formats, 1-2 open files, retryable sync, preallocation) comparing size, full read-back "
       "and metadata after every step; concurrent readers during appends are validated by spec/TraceAppendable.tla.",
  design_ref="DESIGN.md §4 C17, docs/C17.md",
  note="fsync failure injection and crash are out of scope here (crash is C03). spec/AppendableScript.tla: directed scripts (rewind below / inside the flushed part, Copy with "
       "unflushed data, SetOffset into the unflushed tail under retryable sync) and simulations seeded with a prefix.",
  technique="TLC model checking of the refinement + replay on real appendables + TLC trace validation of concurrent reads")
CLAIMED["C19"] = dict(
  category="exploration",
  text="spec/Docs.tla: a collection as typed fields, indexes (unique or not) and documents as id -> revisions over missing/null/values; inserts, replace/delete by query, "
       "add/remove field, create/delete index; GetById, Search (AND groups OR-ed, all comparison operators, ordering, paging), Count, Audit with defined results; invariants "
       "Faithful, IndexIndependent, UniqueHolds, AuditComplete checked exhaustively at small constants; simulated behaviours replayed on the real document.Engine and through "
       "pkg/database with twin collections (with/without indexes), four concretisation classes (plain, unicode, numeric edge, newline), proofs verified with "
       "pkg/verification.VerifyDocument (altered documents must not verify), close/reopen.",
  design_ref="DESIGN.md §4 C19, docs/C19.md",
  note="One writer; gRPC layer and paging sessions not driven. Nested fields of depth 1..3 (= maximum) with documents lacking intermediate objects in 11 ways; depth 4 must be refused.",
  technique="TLA+ state machine + TLC enumeration/simulation, replay on the real document engine")

REASONS = {}


def main():
    hooks_commits = []
    try:
        out = subprocess.run(["git", "-C", "/repo", "log", "--format=%h %s"], stdout=subprocess.PIPE, text=True).stdout
        hooks_commits = [l.split()[0] for l in out.splitlines() if l.split(" ", 1)[1].startswith("verif-hook:")]
    except Exception:
        pass
    checks = []
    for p in props:
        c = CLAIMED.get(p["id"])
        if not c:
            continue
        checks.append({
            "property_id": p["id"],
            "quick_cmd": "bin/check %s --tier quick" % p["id"],
            "thorough_cmd": "bin/check %s --tier thorough" % p["id"],
            "evidence_file": "/verif/evidence/%s.json" % p["id"],
            "replay_cmd_template": "bin/check %s --replay {path}" % p["id"],
            "engine": "tlc+go-harness",
            "level_claimed": {"category": c["category"], "text": c["text"], "design_ref": c["design_ref"]},
            "level_note": c["note"],
            "technique": c["technique"],
        })
    na = [{"property_id": p["id"], "reason": REASONS.get(p["id"], "check not built yet (work in progress: will be claimed once its TLA+ module, TLC configuration and conformance harness exist)")}
          for p in props if p["id"] not in CLAIMED]
    m = {"version": 1,
         "setup_cmd": "bin/setup",
         "hooks": {"guard": "verif",
                   "enable": "harness binaries are built with `go build -tags verif` in /verif/harness, whose go.mod replaces github.com/codenotary/immudb => /repo",
                   "baseline_off_cmd": "cd /repo && GOFLAGS=-mod=mod GOPROXY=off go test -vet=off -count=1 -timeout 25m ./...",
                   "source_commits": hooks_commits, "add_only": True},
         "engines": [{"name": "tlc+go-harness", "path": "/verif/bin/check", "serves_properties": sorted(CLAIMED),
                      "kind_free_text": "explicit TLA+ specifications in /verif/spec checked with TLC; Go conformance drivers in /verif/harness replay TLC-generated cases/behaviours on the real code and record real traces that TLC validates against the specifications"}],
         "checks": checks,
         "notes": "Genuine defects found are listed in /verif/known_findings.json (open = recorded, fixed = repaired by a 'fix:' commit in /repo). See DESIGN.md.",
         "not_applicable": na}
    json.dump(m, open(os.path.join(V, "MANIFEST.json"), "w"), indent=1)
    print("MANIFEST: %d claimed, %d not applicable" % (len(checks), len(na)))


if __name__ == "__main__":
    main()
