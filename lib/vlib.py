"""Shared machinery for the /verif checks: scratch dirs, TLC runner, Go harness builder,
evidence writer, known-findings matcher, TLA+ value parser.

Verdict rules (DESIGN.md 1.3):
  exit 0  property held on everything explored (KNOWN-FINDING lines allowed)
  exit 1  VIOLATION property=<id> replay=<path>   (only from real-code behaviour)
  exit 2  machinery fault (TLC parse error, timeout, dead driver, unreproduced counterexample)
"""
import atexit, json, os, random, re, shutil, subprocess, sys, tempfile, time

VERIF = os.path.dirname(os.path.dirname(os.path.abspath(__file__)))
REPO = os.environ.get("VERIF_REPO", "/repo")
SPEC = os.path.join(VERIF, "spec")
HARNESS = os.path.join(VERIF, "harness")
BIN = os.path.join(VERIF, ".bin")
SCRATCH_ROOT = os.environ.get("VERIF_SCRATCH", os.path.join(VERIF, ".scratch"))
EVIDENCE = os.path.join(VERIF, "evidence")
REPLAYS = os.path.join(VERIF, "replays")
FINDINGS = os.path.join(VERIF, "known_findings.json")
NCPU = os.cpu_count() or 4


class MachineryFault(Exception):
    pass


def log(*a):
    print(*a, file=sys.stderr, flush=True)


def seed():
    try:
        return int(os.environ.get("VERIF_SEED", "1"))
    except ValueError:
        return 1


# ---------------------------------------------------------------- scratch
_scratches = []


def scratch(tag):
    os.makedirs(SCRATCH_ROOT, exist_ok=True)
    d = tempfile.mkdtemp(prefix=tag + "-", dir=SCRATCH_ROOT)
    _scratches.append(d)
    return d


def _cleanup():
    if os.environ.get("VERIF_KEEP"):
        return
    for d in _scratches:
        shutil.rmtree(d, ignore_errors=True)


atexit.register(_cleanup)


# ---------------------------------------------------------------- Go harness
def go_env():
    e = dict(os.environ)
    e["GOFLAGS"] = "-mod=mod"
    e["GOPROXY"] = "off"
    e.pop("GOTOOLCHAIN", None)
    e.pop("GOSUMDB", None)
    e.setdefault("GOMAXPROCS", str(NCPU))
    return e


def gen_gomod():
    """harness/go.mod mirrors /repo/go.mod (require + replace) and points immudb at /repo."""
    src = open(os.path.join(REPO, "go.mod")).read()
    out = src.replace("module github.com/codenotary/immudb", "module verifharness", 1)
    out += "\nrequire github.com/codenotary/immudb v0.0.0\n"
    out += "\nreplace github.com/codenotary/immudb => %s\n" % REPO
    p = os.path.join(HARNESS, "go.mod")
    old = open(p).read() if os.path.exists(p) else None
    if old != out:
        open(p, "w").write(out)
    shutil.copyfile(os.path.join(REPO, "go.sum"), os.path.join(HARNESS, "go.sum"))


def go_build(cmd, tags="verif"):
    """Build harness/cmd/<cmd> against /repo's current working tree; returns binary path."""
    gen_gomod()
    os.makedirs(BIN, exist_ok=True)
    out = os.path.join(BIN, cmd)
    t0 = time.time()
    r = subprocess.run(["go", "build", "-tags", tags, "-o", out, "./cmd/" + cmd], cwd=HARNESS,
                       env=go_env(), stdout=subprocess.PIPE, stderr=subprocess.STDOUT, text=True)
    if r.returncode != 0:
        raise MachineryFault("go build %s failed:\n%s" % (cmd, r.stdout[-4000:]))
    log("[build] %s in %.1fs" % (cmd, time.time() - t0))
    return out


def run_harness(binpath, args, stdin=None, timeout=1800, env=None, cwd=None):
    e = go_env()
    if env:
        e.update(env)
    try:
        r = subprocess.run([binpath] + list(args), input=stdin, stdout=subprocess.PIPE, stderr=subprocess.PIPE,
                           text=True, timeout=timeout, env=e, cwd=cwd)
    except subprocess.TimeoutExpired:
        raise MachineryFault("harness %s timed out after %ss" % (os.path.basename(binpath), timeout))
    if r.returncode != 0:
        raise MachineryFault("harness %s %s exited %d:\n%s" % (os.path.basename(binpath), " ".join(args), r.returncode, r.stderr[-4000:]))
    return r.stdout, r.stderr


# ---------------------------------------------------------------- TLC
class TLCResult:
    def __init__(self):
        self.rc = None
        self.out = ""
        self.generated = 0
        self.distinct = 0
        self.depth = 0
        self.violation = None      # name of violated invariant / property / "deadlock" / "assumption"
        self.error = None          # machinery-level error text
        self.coverage = {}         # action -> (distinct, total)
        self.wall = 0.0
        self.postcondition_failed = False

    def ok(self):
        return self.rc == 0 and not self.violation and not self.error


_RE_STATES = re.compile(r"(\d+) states generated, (\d+) distinct states found")
_RE_DEPTH = re.compile(r"The depth of the complete state graph search is (\d+)")
_RE_INV = re.compile(r"Error: Invariant (\S+) is violated")
_RE_PROP = re.compile(r"Error: (?:Action|Temporal) propert(?:y|ies) (\S*) ?(?:is|were) violated")
_RE_COV = re.compile(r"^<(\w+) line \d+, col \d+ to line \d+, col \d+ of module (\w+)>: (\d+):(\d+)", re.M)


def run_tlc(module, cfg, workdir=None, workers=None, timeout=1800, extra=(), env=None, files=(), javaopts=None,
            dfs=False, tag="tlc"):
    """Run TLC on spec/<module>.tla with spec/<cfg> inside a scratch copy of spec/.
    files: iterable of (name, content) written next to the spec (traces, generated constants)."""
    wd = workdir or scratch(tag)
    for f in os.listdir(SPEC):
        if f.endswith(".tla") or f.endswith(".cfg"):
            shutil.copyfile(os.path.join(SPEC, f), os.path.join(wd, f))
    for name, content in files:
        with open(os.path.join(wd, name), "w") as fh:
            fh.write(content)
    meta = os.path.join(wd, "meta-%d" % random.randrange(1 << 30))
    cmd = ["timeout", "-k", "10", str(timeout), "tlc", "-metadir", meta, "-config", cfg,
           "-workers", str(workers or "auto"), "-noGenerateSpecTE"] + list(extra) + [module + ".tla"]
    e = dict(os.environ)
    jo = []
    if dfs:
        jo.append("-Dtlc2.tool.queue.IStateQueue=StateDeque")
    if javaopts:
        jo += list(javaopts)
    if jo:
        e["JAVA_TOOL_OPTIONS"] = " ".join(jo)
    if env:
        e.update(env)
    t0 = time.time()
    r = subprocess.run(cmd, cwd=wd, env=e, stdout=subprocess.PIPE, stderr=subprocess.STDOUT, text=True)
    res = TLCResult()
    res.wall = time.time() - t0
    res.rc = r.returncode
    res.out = r.stdout
    res.workdir = wd
    for m in _RE_STATES.finditer(r.stdout):
        res.generated, res.distinct = int(m.group(1)), int(m.group(2))
    m = _RE_DEPTH.search(r.stdout)
    if m:
        res.depth = int(m.group(1))
    m = _RE_INV.search(r.stdout)
    if m:
        res.violation = m.group(1)
    elif _RE_PROP.search(r.stdout):
        res.violation = _RE_PROP.search(r.stdout).group(1) or "property"
    elif "Error: Deadlock reached" in r.stdout:
        res.violation = "deadlock"
    elif "Assumption line" in r.stdout and "is false" in r.stdout:
        res.violation = "assumption"
    if "Error: Postcondition" in r.stdout or "Error: The postcondition" in r.stdout:
        res.postcondition_failed = True
    for m in _RE_COV.finditer(r.stdout):
        res.coverage[m.group(1)] = (int(m.group(3)), int(m.group(4)))
    if r.returncode == 124 or r.returncode == 137:
        res.error = "timeout after %ss" % timeout
    elif r.returncode != 0 and not res.violation and not res.postcondition_failed:
        # parse / semantic / runtime evaluation errors
        tail = r.stdout[-3000:]
        res.error = "tlc rc=%d: %s" % (r.returncode, tail)
    shutil.rmtree(meta, ignore_errors=True)
    return res


def tlc_must_pass(res, what):
    if res.error:
        raise MachineryFault("%s: %s" % (what, res.error))
    if res.violation or res.postcondition_failed:
        raise MachineryFault("%s: model violation %s (a TLC counterexample alone is never a verdict)\n%s"
                             % (what, res.violation, res.out[-3000:]))
    return res


def printed_json(out, marker="JSON:"):
    """Collect values printed by TLC via PrintT(<<"JSON:", ToJson(x)>>)."""
    vals = []
    rx = re.compile(r'<<"' + re.escape(marker) + r'",\s*(".*")\s*>>\s*$')
    for line in out.splitlines():
        if marker not in line:
            continue
        m = rx.search(line.strip())
        if not m:
            raise MachineryFault("cannot parse TLC JSON line: %r" % line[:300])
        try:
            vals.append(json.loads(json.loads(m.group(1))))
        except Exception as ex:
            raise MachineryFault("cannot parse TLC JSON line: %r (%s)" % (line[:300], ex))
    return vals


def error_trace_last_state(out):
    """Parse the last state of a TLC error trace into {var: value}."""
    blocks = re.split(r"\nState \d+: <[^\n]*>\n", out)
    if len(blocks) < 2:
        return None
    last = blocks[-1]
    last = last.split("\n\n")[0]
    st = {}
    for m in re.finditer(r"/\\ (\w+) = (.*?)(?=\n/\\ \w+ = |\Z)", last, re.S):
        try:
            st[m.group(1)] = parse_tla(m.group(2).strip())
        except Exception:
            st[m.group(1)] = m.group(2).strip()
    return st


# ---------------------------------------------------------------- TLA+ value parser (for TLC's text output)
class _P:
    def __init__(self, s):
        self.s = s
        self.i = 0

    def ws(self):
        while self.i < len(self.s) and self.s[self.i] in " \t\r\n":
            self.i += 1

    def peek(self, t):
        self.ws()
        return self.s.startswith(t, self.i)

    def eat(self, t):
        self.ws()
        if not self.s.startswith(t, self.i):
            raise ValueError("expected %r at %d: %r" % (t, self.i, self.s[self.i:self.i + 40]))
        self.i += len(t)

    def value(self):
        self.ws()
        s = self.s
        c = s[self.i]
        if c == '"':
            j = self.i + 1
            buf = []
            while s[j] != '"':
                if s[j] == "\\":
                    j += 1
                buf.append(s[j])
                j += 1
            self.i = j + 1
            return "".join(buf)
        if s.startswith("<<", self.i):
            self.i += 2
            out = []
            if self.peek(">>"):
                self.eat(">>")
                return out
            while True:
                out.append(self.value())
                if self.peek(","):
                    self.eat(",")
                    continue
                self.eat(">>")
                return out
        if c == "{":
            self.i += 1
            out = []
            if self.peek("}"):
                self.eat("}")
                return {"__set__": out}
            while True:
                out.append(self.value())
                if self.peek(","):
                    self.eat(",")
                    continue
                self.eat("}")
                return {"__set__": out}
        if c == "[":
            self.i += 1
            out = {}
            while True:
                self.ws()
                m = re.match(r"[A-Za-z_][A-Za-z0-9_]*", s[self.i:])
                if m and s[self.i + m.end():].lstrip().startswith("|->"):
                    k = m.group(0)
                    self.i += m.end()
                    self.eat("|->")
                    out[k] = self.value()
                else:  # function shown as (a :> b @@ ...) never appears inside [ ]; treat as error
                    raise ValueError("bad record at %d" % self.i)
                if self.peek(","):
                    self.eat(",")
                    continue
                self.eat("]")
                return out
        if c == "(":
            # function: (k1 :> v1 @@ k2 :> v2)
            self.i += 1
            out = []
            while True:
                k = self.value()
                self.eat(":>")
                v = self.value()
                out.append([k, v])
                if self.peek("@@"):
                    self.eat("@@")
                    continue
                self.eat(")")
                return {"__fun__": out}
        m = re.match(r"-?\d+", s[self.i:])
        if m:
            self.i += m.end()
            return int(m.group(0))
        m = re.match(r"[A-Za-z_][A-Za-z0-9_]*", s[self.i:])
        if m:
            self.i += m.end()
            w = m.group(0)
            if w == "TRUE":
                return True
            if w == "FALSE":
                return False
            return {"__mv__": w}
        raise ValueError("cannot parse at %d: %r" % (self.i, s[self.i:self.i + 40]))


def parse_tla(s):
    p = _P(s)
    v = p.value()
    return v


# ---------------------------------------------------------------- evidence / verdict
class Check:
    """One run of one property's check. Collects coverage, violations, known findings."""

    def __init__(self, pid, tier, level):
        self.pid = pid
        self.tier = tier if tier in ("quick", "thorough") else "quick"
        self.level = level
        self.seed = seed()
        self.t0 = time.time()
        self.cov = {"states": 0, "transitions": 0, "traces_validated_against_impl": 0, "samples": [],
                    "evaluations": 0, "distinct_nontrivial": 0, "rule": ""}
        self.assumptions = []
        self.violations = []   # (signature, text, replay_obj)
        self.known = []
        self.notes = []
        self._findings = json.load(open(FINDINGS)) if os.path.exists(FINDINGS) else {"findings": []}
        fdir = os.path.join(VERIF, "findings")      # per-property files written while a slice is being built
        if os.path.isdir(fdir):
            for f in sorted(os.listdir(fdir)):
                if f.endswith(".json"):
                    self._findings["findings"] += json.load(open(os.path.join(fdir, f))).get("findings", [])

    # -- accounting
    def add_tlc(self, res, name=None):
        self.cov["states"] += res.distinct
        self.cov["transitions"] += res.generated
        self.cov.setdefault("tlc_runs", []).append({"cfg": name, "generated": res.generated, "distinct": res.distinct,
                                                    "depth": res.depth, "wall_s": round(res.wall, 2)})

    def sample(self, x, cap=6):
        if len(self.cov["samples"]) < cap:
            self.cov["samples"].append(x)

    # -- verdicts
    def violation(self, signature, text, replay):
        """signature: canonical id of the failing input/call site/history (matched against known_findings.json)."""
        for f in self._findings.get("findings", []):
            if f.get("property") == self.pid and f.get("status") == "open" and _sig_match(f.get("signature", ""), signature):
                if not any(k[0] == f["signature"] for k in self.known):
                    self.known.append((f["signature"], f.get("what", text)))
                self.cov.setdefault("known_finding_hits", {})
                self.cov["known_finding_hits"][f["signature"]] = self.cov["known_finding_hits"].get(f["signature"], 0) + 1
                return False
        self.violations.append((signature, text, replay))
        return True

    def finish(self):
        os.makedirs(EVIDENCE, exist_ok=True)
        wall = time.time() - self.t0
        ev = {"property_id": self.pid, "tier": self.tier, "seed": self.seed, "level": self.level,
              "coverage": self.cov, "assumptions": self.assumptions, "wall_s": round(wall, 2),
              "violations": len(self.violations)}
        if self.notes:
            ev["coverage"]["notes"] = self.notes
        if self.known:
            ev["coverage"]["known_findings_reproduced"] = [k[0] for k in self.known]
        with open(os.path.join(EVIDENCE, self.pid + ".json"), "w") as fh:
            json.dump(ev, fh, indent=1, default=str)
        for sig, what in self.known:
            print("KNOWN-FINDING: property=%s %s [%s]" % (self.pid, what, sig))
        if self.violations:
            os.makedirs(REPLAYS, exist_ok=True)
            seen = set()
            for sig, text, replay in self.violations:
                if sig in seen:
                    continue
                seen.add(sig)
                p = os.path.join(REPLAYS, "%s-%s-%d.json" % (self.pid, re.sub(r"[^A-Za-z0-9_.-]+", "_", sig)[:80], self.seed))
                with open(p, "w") as fh:
                    json.dump({"property": self.pid, "signature": sig, "what": text, "seed": self.seed, "tier": self.tier,
                               "replay": replay}, fh, indent=1, default=str)
                print("VIOLATION property=%s replay=%s" % (self.pid, p))
                print("  " + text[:600])
            sys.stdout.flush()
            return 1
        print("OK property=%s tier=%s seed=%d wall=%.1fs" % (self.pid, self.tier, self.seed, wall))
        return 0


def model_flag(name, default=False):
    """Switches that select which variant of a transcribed decision is 'the code' (spec/model_flags.json).
    They only affect drift notes and TLC-side expectations, never verdicts."""
    p = os.path.join(SPEC, "model_flags.json")
    if os.path.exists(p):
        return json.load(open(p)).get(name, default)
    return default


def absorb(chk, r, traces=0):
    """Fold a harness Result (vh.Result JSON) into the check: counts, samples, violations."""
    chk.cov["evaluations"] += r.get("evaluations", 0)
    chk.cov["distinct_nontrivial"] += r.get("distinct_nontrivial", 0)
    chk.cov["traces_validated_against_impl"] += r.get("traces", 0) + traces
    for s in r.get("samples") or []:
        chk.sample(s)
    ctr = chk.cov.setdefault("counters", {})
    for k, v in (r.get("counters") or {}).items():
        ctr[k] = ctr.get(k, 0) + v
    for k, v in (r.get("extra") or {}).items():
        chk.cov.setdefault("extra", {})[k] = v
    if r.get("drift"):
        chk.notes.append({"model-drift": r["drift"][:5], "count": (r.get("counters") or {}).get("drift")})
    for v in r.get("violations") or []:
        chk.violation(v["sig"], v["text"], v.get("replay"))


def _sig_match(pattern, sig):
    """A finding's signature is a prefix pattern ('*' suffix) or an exact signature."""
    if pattern.endswith("*"):
        return sig.startswith(pattern[:-1])
    return pattern == sig


REPLAY_NATIVE = {"C05", "C07", "C09", "C10", "C11", "C15", "C16", "C19"}


def main(run, pid, level):
    """Entry point used by checks/<id>.py: run(check, args) may raise MachineryFault -> exit 2."""
    import argparse
    ap = argparse.ArgumentParser()
    ap.add_argument("--tier", default=os.environ.get("VERIF_TIER", "quick"))
    ap.add_argument("--replay", default=None)
    a = ap.parse_args(sys.argv[2:] if len(sys.argv) > 1 and sys.argv[1] == pid else sys.argv[1:])
    want = None
    if a.replay and pid not in REPLAY_NATIVE:
        # generic replay: the file written next to a VIOLATION line records signature, seed and tier; the check is re-executed with
        # that seed and tier and the outcome says whether the same signature is reported again (the checks listed in REPLAY_NATIVE
        # re-execute just the recorded case instead)
        try:
            rf = json.load(open(a.replay))
            want = rf["signature"]
            os.environ["VERIF_SEED"] = str(rf.get("seed", 1))
            a.tier = rf.get("tier", a.tier)
        except Exception as ex:
            log("MACHINERY-FAULT property=%s: cannot read replay file %s: %s" % (pid, a.replay, ex))
            sys.exit(2)
        log("[replay] %s: signature %s, seed %s, tier %s\n  %s" % (a.replay, want, os.environ["VERIF_SEED"], a.tier, str(rf.get("what", ""))[:400]))
        a.replay = None
    chk = Check(pid, a.tier, level)
    try:
        run(chk, a)
    except MachineryFault as ex:
        log("MACHINERY-FAULT property=%s: %s" % (pid, ex))
        sys.exit(2)
    if want is not None:
        again = any(v[0] == want for v in chk.violations) or any(k[0] == want or _sig_match(k[0], want) for k in chk.known)
        print("REPLAY property=%s signature=%s reproduced=%s" % (pid, want, "yes" if again else "no"))
    sys.exit(chk.finish())
