// Package vh holds the small pieces every conformance driver shares: result/violation
// records written as JSON for the Python orchestrator, deterministic byte generation,
// panic capture and deadlines.
package vh

import (
	"crypto/sha256"
	"encoding/binary"
	"encoding/json"
	"fmt"
	"os"
	"runtime/debug"
	"sort"
	"sync"
	"time"
)

// Violation is a real-code behaviour the oracle forbids.
type Violation struct {
	Sig    string      `json:"sig"`  // canonical signature (call site : kind : class)
	Text   string      `json:"text"` // human readable
	Replay interface{} `json:"replay"`
}

// Result is what a driver prints on stdout (one JSON document).
type Result struct {
	mu          sync.Mutex
	Evaluations int                    `json:"evaluations"`
	Distinct    int                    `json:"distinct_nontrivial"`
	Traces      int                    `json:"traces"`
	Violations  []Violation            `json:"violations"`
	Drift       []string               `json:"drift"` // transcription verdict != real verdict (model drift note, not a violation)
	Samples     []interface{}          `json:"samples"`
	Counters    map[string]int         `json:"counters"`
	Extra       map[string]interface{} `json:"extra"`
	sigCount    map[string]int
}

func NewResult() *Result {
	return &Result{Counters: map[string]int{}, Extra: map[string]interface{}{}, sigCount: map[string]int{}}
}

func (r *Result) Count(k string, n int) {
	r.mu.Lock()
	r.Counters[k] += n
	r.mu.Unlock()
}

// Violate records a violation; at most 3 per signature are kept (the count is kept in Counters).
func (r *Result) Violate(sig, text string, replay interface{}) {
	r.mu.Lock()
	defer r.mu.Unlock()
	r.sigCount[sig]++
	r.Counters["violation:"+sig]++
	if r.sigCount[sig] <= 3 {
		r.Violations = append(r.Violations, Violation{Sig: sig, Text: text, Replay: replay})
	}
}

func (r *Result) DriftNote(s string) {
	r.mu.Lock()
	defer r.mu.Unlock()
	if len(r.Drift) < 20 {
		r.Drift = append(r.Drift, s)
	}
	r.Counters["drift"]++
}

func (r *Result) Sample(x interface{}, cap int) {
	r.mu.Lock()
	defer r.mu.Unlock()
	if len(r.Samples) < cap {
		r.Samples = append(r.Samples, x)
	}
}

func (r *Result) Emit() {
	sort.Slice(r.Violations, func(i, j int) bool { return r.Violations[i].Sig < r.Violations[j].Sig })
	enc := json.NewEncoder(os.Stdout)
	if err := enc.Encode(r); err != nil {
		Fatalf("encode result: %v", err)
	}
}

// Fatalf is a machinery fault (exit 3): never a verdict.
func Fatalf(format string, a ...interface{}) {
	fmt.Fprintf(os.Stderr, "harness fault: "+format+"\n", a...)
	os.Exit(3)
}

func Must(err error, what string) {
	if err != nil {
		Fatalf("%s: %v", what, err)
	}
}

// Bytes returns n deterministic pseudo-random bytes for (seed, tag, k).
func Bytes(seed int64, tag string, k int, n int) []byte {
	out := make([]byte, 0, n+32)
	var ctr uint64
	for len(out) < n {
		h := sha256.New()
		var b [24]byte
		binary.BigEndian.PutUint64(b[:], uint64(seed))
		binary.BigEndian.PutUint64(b[8:], uint64(k))
		binary.BigEndian.PutUint64(b[16:], ctr)
		h.Write(b[:])
		h.Write([]byte(tag))
		out = h.Sum(out)
		ctr++
	}
	return out[:n]
}

// Guard runs f, converting a panic into (panicked=true, message+stack) and a deadline miss into hung=true.
func Guard(deadline time.Duration, f func()) (panicked bool, hung bool, msg string) {
	done := make(chan struct{})
	go func() {
		defer func() {
			if x := recover(); x != nil {
				panicked = true
				msg = fmt.Sprintf("%v\n%s", x, debug.Stack())
			}
			close(done)
		}()
		f()
	}()
	select {
	case <-done:
		return
	case <-time.After(deadline):
		return false, true, "deadline exceeded"
	}
}

func ReadJSON(path string, v interface{}) {
	b, err := os.ReadFile(path)
	Must(err, "read "+path)
	Must(json.Unmarshal(b, v), "parse "+path)
}
