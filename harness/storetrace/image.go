package storetrace

import (
	"math/rand"
	"os"
	"path/filepath"
	"strings"
)

// fileState is the content of one file as the crash model sees it.
type fileState struct {
	durable []byte   // content guaranteed on disk (created / fsynced)
	pending []PhysOp // writes since the last successful fsync, in order
	exists  bool
}

// ImageBuilder replays the physical operation log and materialises crash images.
type ImageBuilder struct {
	files map[string]*fileState
	order []string
}

func NewImageBuilder() *ImageBuilder { return &ImageBuilder{files: map[string]*fileState{}} }

// LoadDir takes the files found under dir as the durable starting point (the state a previous crash left behind).
func (ib *ImageBuilder) LoadDir(dir string) error {
	return filepath.Walk(dir, func(p string, info os.FileInfo, err error) error {
		if err != nil || info.IsDir() {
			return err
		}
		rel, err := filepath.Rel(dir, p)
		if err != nil {
			return err
		}
		b, err := os.ReadFile(p)
		if err != nil {
			return err
		}
		ib.files[rel] = &fileState{exists: true, durable: b}
		ib.order = append(ib.order, rel)
		return nil
	})
}

func applyWrite(b []byte, off int64, data []byte) []byte {
	end := int(off) + len(data)
	if end > len(b) {
		nb := make([]byte, end)
		copy(nb, b)
		b = nb
	}
	copy(b[off:], data)
	return b
}

// Apply advances the builder by one operation.
func (ib *ImageBuilder) Apply(op PhysOp) {
	f := ib.files[op.File]
	if f == nil {
		f = &fileState{}
		ib.files[op.File] = f
		ib.order = append(ib.order, op.File)
	}
	switch op.Kind {
	case "create", "put":
		f.exists = true
		f.durable = append([]byte(nil), op.Data...)
		f.pending = nil
	case "write":
		f.pending = append(f.pending, op)
	case "fsync":
		if op.Ok {
			for _, w := range f.pending {
				f.durable = applyWrite(f.durable, w.Off, w.Data)
			}
			f.pending = nil
		}
	case "remove":
		f.exists = false
		f.durable = nil
		f.pending = nil
	}
}

// Clone returns an independent copy of the builder's state.
func (ib *ImageBuilder) Clone() *ImageBuilder {
	c := NewImageBuilder()
	c.order = append([]string(nil), ib.order...)
	for k, f := range ib.files {
		c.files[k] = &fileState{durable: append([]byte(nil), f.durable...), pending: append([]PhysOp(nil), f.pending...), exists: f.exists}
	}
	return c
}

// Mode of a crash image.
//
//	kill:   every write issued so far is in the file (the OS keeps it)
//	power0: only fsynced content
//	powerR: per file a random prefix of the un-fsynced writes, the last applied one possibly torn
//	power1: all un-fsynced writes but the last one of each file
//	powerF: per file all or none of the un-fsynced writes (files lose their tail independently of each other;
//	        the transaction log keeps it more often than not, the other files lose it more often than not)
type Mode string

// Materialise writes the image for the current point into dir and returns a description of the choice.
func (ib *ImageBuilder) Materialise(dir string, mode Mode, rng *rand.Rand) (map[string]interface{}, error) {
	desc := map[string]interface{}{}
	for _, name := range ib.order {
		f := ib.files[name]
		if !f.exists {
			continue
		}
		b := append([]byte(nil), f.durable...)
		n := len(f.pending)
		keep := 0
		torn := -1
		switch mode {
		case "kill":
			keep = n
		case "power0":
			keep = 0
		case "power1":
			if n > 0 {
				keep = n - 1
			}
		case "powerF":
			if n > 0 {
				q := 1 // keep with probability q/4
				if strings.Contains(name, "/tx/") || strings.HasPrefix(name, "tx/") {
					q = 3
				}
				if rng.Intn(4) < q {
					keep = n
				}
			}
		case "powerR":
			if n > 0 {
				keep = rng.Intn(n + 1)
				if keep > 0 && rng.Intn(2) == 0 {
					torn = keep - 1
				}
			}
		}
		for i := 0; i < keep; i++ {
			w := f.pending[i]
			d := w.Data
			if i == torn && len(d) > 1 {
				d = d[:1+rng.Intn(len(d)-1)]
			}
			b = applyWrite(b, w.Off, d)
		}
		if n > 0 {
			desc[name] = []int{keep, n, torn}
		}
		p := filepath.Join(dir, name)
		if err := os.MkdirAll(filepath.Dir(p), 0755); err != nil {
			return nil, err
		}
		if err := os.WriteFile(p, b, 0644); err != nil {
			return nil, err
		}
	}
	return desc, nil
}
