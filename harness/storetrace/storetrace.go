// Package storetrace records executions of the real embedded/store through the verif hooks:
// a logical ndjson trace for spec/TraceStore.tla and a physical operation log from which
// crash images are materialised (spec/StoreCrash.tla, property C03).
package storetrace

import (
	"crypto/sha256"
	"encoding/json"
	"fmt"
	"os"
	"path/filepath"
	"strings"
	"sync"

	"github.com/codenotary/immudb/embedded/store"
	"github.com/codenotary/immudb/embedded/verifhook"
)

// PhysOp is one physical file operation observed in singleapp/multiapp/tbtree.
type PhysOp struct {
	Seq  int    `json:"seq"`
	Kind string `json:"kind"` // create | write | fsync | remove | put
	File string `json:"file"` // path relative to Root
	Off  int64  `json:"off,omitempty"`
	Data []byte `json:"data,omitempty"`
	Ok   bool   `json:"ok,omitempty"`
	// LSeq is the number of logical events emitted before this operation
	LSeq int `json:"lseq"`
}

type Event map[string]interface{}

type storeState struct {
	alh     [][sha256.Size]byte // alh of currently precommitted txs (index id-1)
	pending []Event             // events held back between the Opened hook and the driver's reload report
	holding bool
	openedC uint64
	openedP uint64
}

type Tracer struct {
	mu     sync.Mutex
	Root   string // directory under which all traced stores live
	dict   map[[sha256.Size]byte]int
	Events []Event
	Ops    []PhysOp
	stores map[string]*storeState
	// Gate, when set, is called (without the tracer lock) for gate events and may block.
	Gate func(ev string, path string, args []interface{})
	// MaxActive is logged with Precommit events (store option).
	MaxActive map[string]int
	RecordOps bool
	seq       int
}

var Genesis = sha256.Sum256(nil)

func New(root string) *Tracer {
	t := &Tracer{Root: root, dict: map[[sha256.Size]byte]int{Genesis: 0}, stores: map[string]*storeState{}, MaxActive: map[string]int{}}
	return t
}

// Install makes this tracer the process-wide hook sink.
func (t *Tracer) Install() { verifhook.SetSink(t.sink) }
func Uninstall()           { verifhook.SetSink(nil) }

func (t *Tracer) num(d [sha256.Size]byte) int {
	n, ok := t.dict[d]
	if !ok {
		n = len(t.dict)
		t.dict[d] = n
	}
	return n
}

func (t *Tracer) rel(p string) string {
	r, err := filepath.Rel(t.Root, p)
	if err != nil {
		return p
	}
	return r
}

func (t *Tracer) st(path string) *storeState {
	s := t.stores[path]
	if s == nil {
		s = &storeState{}
		t.stores[path] = s
	}
	return s
}

func (t *Tracer) emit(path string, e Event) {
	e["store"] = t.rel(path)
	s := t.st(path)
	if s.holding {
		s.pending = append(s.pending, e)
		return
	}
	t.Events = append(t.Events, e)
}

// Log appends a driver-level event (Reset, Ack, Observed, State).
func (t *Tracer) Log(path string, e Event) {
	t.mu.Lock()
	defer t.mu.Unlock()
	t.emit(path, e)
}

func (t *Tracer) Num(d [sha256.Size]byte) int {
	t.mu.Lock()
	defer t.mu.Unlock()
	return t.num(d)
}

// RefRoot is the reference Merkle tree hash (RFC 6962) over accumulated hashes.
func RefRoot(alhs [][sha256.Size]byte) [sha256.Size]byte {
	if len(alhs) == 0 {
		return [sha256.Size]byte{}
	}
	if len(alhs) == 1 {
		return sha256.Sum256(append([]byte{0}, alhs[0][:]...))
	}
	k := 1
	for 2*k < len(alhs) {
		k *= 2
	}
	l, r := RefRoot(alhs[:k]), RefRoot(alhs[k:])
	b := append([]byte{1}, l[:]...)
	b = append(b, r[:]...)
	return sha256.Sum256(b)
}

func (t *Tracer) sink(ev string, kv ...interface{}) {
	switch ev {
	case "FCreate", "FWrite", "FSync", "FRemove", "FRename":
		t.phys(ev, kv)
		return
	case "ValuesAppended", "Snap", "Validate", "IndexRead", "Indexed", "Tombstone":
		if g := t.Gate; g != nil {
			p, _ := kv[0].(string)
			g(ev, p, kv[1:])
		}
		return
	}
	path := kv[0].(string)
	t.mu.Lock()
	defer t.mu.Unlock()
	s := t.st(path)
	switch ev {
	case "Precommit":
		id := kv[1].(uint64)
		alh := kv[2].([sha256.Size]byte)
		prev := kv[3].([sha256.Size]byte)
		bl := kv[4].(uint64)
		blRoot := kv[5].([sha256.Size]byte)
		blOk := false
		if int(bl) <= len(s.alh) && int(bl) < int(id) {
			blOk = blRoot == RefRoot(s.alh[:bl])
		}
		if int(id) >= 1 && int(id)-1 <= len(s.alh) {
			s.alh = append(s.alh[:id-1], alh)
		}
		t.emit(path, Event{"ev": "Precommit", "id": id, "alh": t.num(alh), "prev": t.num(prev), "bl": bl, "blOk": blOk,
			"aht": kv[8].(uint64), "maxActive": t.MaxActive[path], "off": kv[6], "size": kv[7]})
	case "VLogsSynced":
		t.emit(path, Event{"ev": ev})
	case "TxLogSynced":
		t.emit(path, Event{"ev": ev, "upto": kv[1]})
	case "CLogFlushed":
		t.emit(path, Event{"ev": ev, "from": kv[1], "to": kv[2]})
	case "CLogSynced":
		t.emit(path, Event{"ev": ev, "upto": kv[1]})
	case "Committed":
		t.emit(path, Event{"ev": ev, "upto": kv[1], "alh": t.num(kv[2].([sha256.Size]byte))})
	case "Discard":
		since := kv[1].(uint64)
		if int(since)-1 <= len(s.alh) {
			s.alh = s.alh[:since-1]
		}
		t.emit(path, Event{"ev": ev, "since": since, "n": kv[2]})
	case "Allow":
		t.emit(path, Event{"ev": ev, "upto": kv[1]})
	case "Closed":
		t.emit(path, Event{"ev": ev})
	case "Opened":
		// hold back this store's events until the driver reports the reloaded precommitted txs
		s.holding = true
		s.openedC = kv[1].(uint64)
		s.openedP = kv[2].(uint64)
	default:
		fmt.Fprintf(os.Stderr, "storetrace: unknown event %s\n", ev)
	}
}

// Opened must be called by the driver right after store.Open returned: it completes the Opened event with
// the precommitted txs the store reloaded from its tx log and releases the events held back meanwhile.
func (t *Tracer) Opened(path string, st *store.ImmuStore, fresh bool) error {
	t.mu.Lock()
	s := t.st(path)
	c, p := s.openedC, s.openedP
	t.mu.Unlock()
	type rl struct {
		alh, prev [sha256.Size]byte
		bl        uint64
	}
	var rls []rl
	var hdrs [][sha256.Size]byte
	for id := uint64(1); id <= p; id++ {
		h, err := st.ReadTxHeader(id, true, false)
		if err != nil {
			return fmt.Errorf("reading tx %d after open: %w", id, err)
		}
		hdrs = append(hdrs, h.Alh())
		if id > c {
			rls = append(rls, rl{h.Alh(), h.PrevAlh, h.BlTxID})
		}
	}
	t.mu.Lock()
	defer t.mu.Unlock()
	s.alh = hdrs
	reloaded := []Event{}
	for _, r := range rls {
		reloaded = append(reloaded, Event{"alh": t.num(r.alh), "prev": t.num(r.prev), "bl": r.bl})
	}
	s.holding = false
	if !fresh {
		t.emit(path, Event{"ev": "Opened", "c": c, "p": p, "reloaded": reloaded})
	}
	pend := s.pending
	s.pending = nil
	for _, e := range pend {
		t.Events = append(t.Events, e)
	}
	return nil
}

// Adopt is the counterpart of Opened for a store that already holds a history the trace knows nothing about (a database
// created elsewhere, or the state found after a crash): the committed history read back becomes the baseline.
func (t *Tracer) Adopt(path string, st *store.ImmuStore) error {
	t.mu.Lock()
	s := t.st(path)
	c, p := s.openedC, s.openedP
	t.mu.Unlock()
	var hdrs [][sha256.Size]byte
	alhs := []int{}
	reloaded := []Event{}
	for id := uint64(1); id <= p; id++ {
		h, err := st.ReadTxHeader(id, true, false)
		if err != nil {
			return fmt.Errorf("reading tx %d: %w", id, err)
		}
		hdrs = append(hdrs, h.Alh())
		t.mu.Lock()
		if id <= c {
			alhs = append(alhs, t.num(h.Alh()))
		} else {
			reloaded = append(reloaded, Event{"alh": t.num(h.Alh()), "prev": t.num(h.PrevAlh), "bl": h.BlTxID})
		}
		t.mu.Unlock()
	}
	t.mu.Lock()
	defer t.mu.Unlock()
	s.alh = hdrs
	s.holding = false
	t.emit(path, Event{"ev": "Adopt", "alhs": alhs, "reloaded": reloaded})
	pend := s.pending
	s.pending = nil
	t.Events = append(t.Events, pend...)
	return nil
}

func (t *Tracer) phys(ev string, kv []interface{}) {
	if !t.RecordOps {
		return
	}
	name := kv[0].(string)
	if !strings.HasPrefix(name, t.Root) {
		return
	}
	op := PhysOp{File: t.rel(name)}
	switch ev {
	case "FCreate":
		op.Kind = "create"
		b, err := os.ReadFile(name)
		if err == nil {
			op.Data = b
		}
	case "FWrite":
		op.Kind = "write"
		op.Off = kv[1].(int64)
		op.Data = append([]byte(nil), kv[2].([]byte)...)
	case "FSync":
		op.Kind = "fsync"
		op.Ok = kv[1].(bool)
	case "FRemove":
		op.Kind = "remove"
	case "FRename":
		op.Kind = "put"
		final := kv[1].(string)
		op.File = t.rel(final)
		b, err := os.ReadFile(final)
		if err == nil {
			op.Data = b
		}
	}
	t.mu.Lock()
	t.seq++
	op.Seq = t.seq
	op.LSeq = len(t.Events)
	t.Ops = append(t.Ops, op)
	t.mu.Unlock()
}

// WriteTrace appends the logical events as ndjson.
func (t *Tracer) WriteTrace(w *os.File) error {
	t.mu.Lock()
	defer t.mu.Unlock()
	enc := json.NewEncoder(w)
	for _, e := range t.Events {
		if err := enc.Encode(e); err != nil {
			return err
		}
	}
	return nil
}

func (t *Tracer) NumEvents() int {
	t.mu.Lock()
	defer t.mu.Unlock()
	return len(t.Events)
}
