// repro.go: `c09 -repro <dir>` runs one minimal, deterministic reproduction per known finding on the
// plain-v1 store (no sampling, no model): which bytes are changed, which call is made, what comes back.
package main

import (
	"bytes"
	"fmt"
	"os"
	"path/filepath"
	"time"

	"github.com/codenotary/immudb/embedded/store"

	"verifharness/vh"
)

type reproResult struct {
	Name     string `json:"name"`
	Change   string `json:"change"`
	Call     string `json:"call"`
	Observed string `json:"observed"`
	Defect   bool   `json:"defect_reproduced"`
}

func firstSpan(lay *layout, field string, tx, entry int) *span {
	for i := range lay.spans {
		s := &lay.spans[i]
		if s.Field == field && s.Tx == tx && (entry < 0 || s.Entry == entry) {
			return s
		}
	}
	vh.Fatalf("repro: no %s in tx %d", field, tx)
	return nil
}

func runRepros(dir string, seed int64) []reproResult {
	c := &classes[0]
	pdir := filepath.Join(dir, "pristine")
	ntx := buildStore(pdir, c, seed)
	lay, err := parseLayout(pdir, c, ntx)
	vh.Must(err, "layout")
	var out []reproResult
	with := func(name, callName string, ps []patch, f func(st *store.ImmuStore) (string, string, bool)) {
		img := filepath.Join(dir, "img-"+name)
		makeImage(pdir, img, ps, false)
		defer os.RemoveAll(img)
		r := reproResult{Name: name, Call: callName}
		for _, p := range ps {
			r.Change += fmt.Sprintf("%s+%d (logical %s offset %d) ^= %#02x; ", p.File, p.FOff, p.Region, p.Off, p.Mask)
		}
		st, err := store.Open(img, storeOpts(c, newCapLogger()))
		if err != nil {
			r.Call, r.Observed = "Open", "error: "+err.Error()
			out = append(out, r)
			return
		}
		panicked, hung, msg := vh.Guard(20*time.Second, func() { r.Call, r.Observed, r.Defect = f(st) })
		if panicked {
			r.Observed, r.Defect = "PANIC: "+panicSite(msg), true
		}
		if hung {
			r.Observed, r.Defect = r.Observed+" HANG (no return within 20 s)", true
		} else {
			st.Close()
		}
		out = append(out, r)
	}

	// 1. one bit of the 'extra' attribute length of tx 2's header metadata: 0x0005 -> 0x0105
	s := firstSpan(lay, "hMdExtraLen", 2, -1)
	with("txmetadata-extra-length", "ReadTx(2)", []patch{lay.mkPatch(s, 0, 0x01)}, func(st *store.ImmuStore) (string, string, bool) {
		err := st.ReadTx(2, false, store.NewTx(maxTxEntries, maxKeyLen))
		return "ReadTx(2)", fmt.Sprintf("returned err=%v", err), false
	})
	// the parser alone
	{
		r := reproResult{Name: "txmetadata-readfrom", Change: "input 01 01 05 78 6d 65 74 61 (extra attribute claiming 261 bytes, 5 present)", Call: "store.NewTxMetadata().ReadFrom(input)"}
		panicked, _, msg := vh.Guard(5*time.Second, func() {
			err := store.NewTxMetadata().ReadFrom([]byte{1, 1, 5, 'x', 'm', 'e', 't', 'a'})
			r.Observed = fmt.Sprintf("returned err=%v", err)
		})
		if panicked {
			r.Observed, r.Defect = "PANIC: "+panicSite(msg), true
		}
		out = append(out, r)
	}
	// 2. vLen of tx 1 entry 0 (an 8-byte value): 8 -> 0 by one bit
	s = firstSpan(lay, "vLen", 1, 0)
	want := lay.txs[0].Entries[0].Value
	with("vlen-zeroed", "ReadTx(1); ReadValue(entry 0)", []patch{lay.mkPatch(s, 3, 0x08)}, func(st *store.ImmuStore) (string, string, bool) {
		tx := store.NewTx(maxTxEntries, maxKeyLen)
		if err := st.ReadTx(1, false, tx); err != nil {
			return "ReadTx(1)", "error: " + err.Error(), false
		}
		v, err := st.ReadValue(tx.Entries()[0])
		return "ReadTx(1); ReadValue(entry 0)", fmt.Sprintf("value=%x err=%v (committed value %x)", v, err, want), err == nil && !bytes.Equal(v, want)
	})
	// 3. vLen of tx 1 entry 0 gets bit 18 set: the value read hits EOF; ExportTx(1) fails, ExportTx(2) never returns
	with("exporttx-lock-leak", "ExportTx(1); ExportTx(2)", []patch{lay.mkPatch(s, 1, 0x04)}, func(st *store.ImmuStore) (string, string, bool) {
		_, err1 := st.ExportTx(1, false, false, store.NewTx(maxTxEntries, maxKeyLen))
		done := make(chan error, 1)
		go func() {
			_, err := st.ExportTx(2, false, false, store.NewTx(maxTxEntries, maxKeyLen))
			done <- err
		}()
		select {
		case err2 := <-done:
			return "ExportTx(1); ExportTx(2)", fmt.Sprintf("ExportTx(1) err=%v; ExportTx(2) err=%v", err1, err2), false
		case <-time.After(5 * time.Second):
			return "ExportTx(1); ExportTx(2)", fmt.Sprintf("ExportTx(1) err=%v; ExportTx(2) still blocked after 5 s (%s)", err1, "s._valBsMux never released"), true
		}
	})
	// 4. commit-log entry of tx 3 := copy of the entry of tx 1
	var ps []patch
	for k := 0; k < 3; k++ {
		ps = append(ps, lay.patchesTo(&lay.spans[lay.txs[2].clogSpan[k]], lay.spanBytes(&lay.spans[lay.txs[0].clogSpan[k]]))...)
	}
	with("commit-log-entry-retargeted", "ReadTx(3)", ps, func(st *store.ImmuStore) (string, string, bool) {
		tx := store.NewTx(maxTxEntries, maxKeyLen)
		if err := st.ReadTx(3, false, tx); err != nil {
			return "ReadTx(3)", "error: " + err.Error(), false
		}
		e, h, err := st.ReadTxEntry(3, []byte("k1a"), false)
		if err != nil {
			return "ReadTx(3); ReadTxEntry(3,k1a)", "error: " + err.Error(), false
		}
		v, err := st.ReadValue(e)
		return "ReadTx(3); ReadTxEntry(3,\"k1a\"); ReadValue", fmt.Sprintf("ReadTx(3) returned the tx with id %d; ReadTxEntry(3) header id %d, value %x err=%v (tx 3 committed %x...)",
			tx.Header().ID, h.ID, v, err, lay.txs[2].Entries[0].Value[:8]), tx.Header().ID != 3
	})
	// 5. several value logs: the value-log id in the top byte of vOff of tx 1 entry 0: 1 -> 5
	{
		c2 := &classes[4]
		p2 := filepath.Join(dir, "pristine-2vlogs")
		n2 := buildStore(p2, c2, seed)
		lay2, err := parseLayout(p2, c2, n2)
		vh.Must(err, "layout 2vlogs")
		c, pdir, lay = c2, p2, lay2
		s = firstSpan(lay, "vOff", 1, 0)
		with("vlogid-out-of-range", "ReadTx(1); ReadValue(entry 0)", []patch{lay.mkPatch(s, 0, 0x04)}, func(st *store.ImmuStore) (string, string, bool) {
			tx := store.NewTx(maxTxEntries, maxKeyLen)
			if err := st.ReadTx(1, false, tx); err != nil {
				return "ReadTx(1)", "error: " + err.Error(), false
			}
			v, err := st.ReadValue(tx.Entries()[0])
			return "ReadTx(1); ReadValue(entry 0)", fmt.Sprintf("value=%x err=%v", v, err), false
		})
	}
	return out
}
