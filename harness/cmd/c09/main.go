// c09: corruption of stored data is detected, never served as valid.
// Builds real stores per configuration class, maps every byte of the committed tx-log records, of the
// commit-log entries and of the referenced value ranges to its field with an independent parser
// (layout.go), flips every single bit (plus the multi-bit / two-field / compound alterations that
// spec/Corruption.tla enumerates) in a copy of the store directory and runs every read path on the copy
// (paths.go).  Accepted: an error, or content identical to the pristine store.  Violation: different
// content without error, a panic, a hang.  The model's expectation per (field class, alteration class,
// read path) is only compared for drift notes; verdicts come from the real behaviour alone.
package main

import (
	"bytes"
	"crypto/sha256"
	"encoding/binary"
	"encoding/hex"
	"encoding/json"
	"flag"
	"fmt"
	"io/fs"
	"math/rand"
	"os"
	"os/exec"
	"path/filepath"
	"runtime/debug"
	"runtime/pprof"
	"sort"
	"strings"
	"sync"
	"sync/atomic"
	"syscall"
	"time"

	"verifharness/vh"
)

// ---- the model's matrix (spec/Corruption.tla, written by TLC)
type mrow struct {
	Cfg   string      `json:"cfg"`
	Pos   string      `json:"pos"`
	Shape string      `json:"shape"`
	Alts  [][2]string `json:"alts"`
	Exp   []string    `json:"exp"`
	By    []string    `json:"by"`
}
type matrix struct {
	Paths     []string `json:"paths"`
	Seed      int      `json:"seed"`
	Singles   []mrow   `json:"singles"`
	Compounds []mrow   `json:"compounds"`
	Pairs     []mrow   `json:"pairs"`
	idx       map[string]*mrow
}

func altKey(alts [][2]string) string {
	ss := make([]string, len(alts))
	for i, a := range alts {
		ss[i] = a[0] + ":" + a[1]
	}
	sort.Strings(ss)
	return strings.Join(ss, "+")
}

func (m *matrix) index() {
	m.idx = map[string]*mrow{}
	for _, rows := range [][]mrow{m.Singles, m.Compounds, m.Pairs} {
		for i := range rows {
			r := &rows[i]
			m.idx[r.Cfg+"|"+r.Pos+"|"+r.Shape+"|"+altKey(r.Alts)] = r
		}
	}
}

// ---- alterations
type patch struct {
	Region string `json:"region"`
	Off    int64  `json:"off"` // logical offset
	Mask   byte   `json:"mask"`
	File   string `json:"file"`
	FOff   int64  `json:"fileOff"`
}

type alteration struct {
	Kind    string      `json:"kind"` // bit | multi | pair | compound | class
	Tx      int         `json:"tx"`
	Alts    [][2]string `json:"alts"` // (field, class) as classified by the harness
	Desc    string      `json:"desc"`
	Patches []patch     `json:"patches"`
	Alloc   int64       `json:"allocEstimate"` // largest length the code will allocate for it
}

// classify the change old -> new of one field instance
func classify(lay *layout, s *span, oldb, newb []byte) string {
	beU := func(b []byte) uint64 {
		var v uint64
		for _, x := range b {
			v = v<<8 | uint64(x)
		}
		return v
	}
	kind := fieldKind[s.Field]
	ti := &lay.txs[s.Tx-1]
	if s.Field == "valCLen" || s.Field == "valComp" {
		e := &ti.Entries[s.Entry]
		return lay.decClass(e, e.VOff, int64(e.VLen), patchMap(s.Region, s.Off, oldb, newb))
	}
	switch {
	case s.Field == "vLen":
		o, n := beU(oldb), beU(newb)
		if n == 0 {
			return "zero"
		}
		if n < o {
			return "down"
		}
		if lay.rangeInside(ti.Entries[s.Entry].VOff, int64(n)) && lay.cfg.Compression == 0 {
			return "upIn"
		}
		return "upOut"
	case s.Field == "vOff":
		o, n := beU(oldb), beU(newb)
		d := o ^ n
		switch {
		case d>>63 != 0:
			return "sign63"
		case d>>56 != 0:
			id := int(n >> 56)
			if id == 0 {
				return "vlogid0"
			}
			if !lay.cfg.Embedded && id <= lay.cfg.IOConc {
				return "vlogidX"
			}
			return "vlogidOOR"
		case d&((1<<55)-1) != 0:
			if lay.cfg.Compression != 0 {
				e := &ti.Entries[s.Entry]
				if e.VLen == 0 {
					return "lowIn"
				}
				if lay.decClass(e, n, int64(e.VLen), nil) == "decEof" {
					return "lowOut"
				}
				return "lowIn"
			}
			if lay.rangeInside(n, int64(ti.Entries[s.Entry].VLen)) {
				return "lowIn"
			}
			return "lowOut"
		default:
			return "masked55"
		}
	case s.Field == "cTxOff":
		n := beU(newb)
		for _, t := range lay.txs {
			if t.ID != s.Tx && uint64(t.Off) == n {
				return "retarget"
			}
		}
		return "bit"
	case kind == kindLen:
		o, n := beU(oldb), beU(newb)
		if n == 0 {
			return "zero"
		}
		if n < o {
			return "down"
		}
		return "up"
	}
	return "bit"
}

// rangeInside: would a read of n bytes at the encoded offset stay inside the value log (no EOF)?
func (l *layout) rangeInside(vOff uint64, n int64) bool {
	id := int(vOff >> 56)
	off := int64(vOff & ((1 << 55) - 1))
	var lf *logFile
	if l.cfg.Embedded {
		lf = l.logs[rTx]
	} else {
		if id < 1 || id > l.cfg.IOConc {
			return false
		}
		lf = l.logs[rVal(id-1)]
	}
	if l.cfg.Compression != 0 {
		c := off / lf.fileSize
		in := off % lf.fileSize
		return int(c) < len(lf.chunks) && in+4 <= int64(len(lf.chunks[c].data))
	}
	return off+n <= lf.size()
}

func (l *layout) fieldName(s *span) string {
	if s.Field == "hMdLen" {
		for _, b := range l.txMdCodes(s.Tx) {
			if b == 1 {
				return "hMdLenX"
			}
		}
	}
	return s.Field
}

func (l *layout) txMdCodes(tx int) []byte {
	var out []byte
	for _, s := range l.spans {
		if s.Tx == tx && s.Field == "hMdCode" {
			out = append(out, byte(s.Val))
		}
	}
	return out
}

func (l *layout) spanBytes(s *span) []byte {
	lf := l.logs[s.Region]
	var b []byte
	var err error
	if s.inChunk {
		b, err = lf.readInChunk(s.Off, s.Len)
	} else {
		b, err = lf.read(s.Off, s.Len)
	}
	vh.Must(err, "read span "+s.Field)
	return append([]byte{}, b...)
}

func (l *layout) mkPatch(s *span, i int, mask byte) patch {
	f, fo, err := l.physOf(s, i)
	vh.Must(err, "physOf "+s.Field)
	return patch{Region: s.Region, Off: s.Off + int64(i), Mask: mask, File: f, FOff: fo}
}

// patchesTo turns "span := newBytes" into byte patches
func (l *layout) patchesTo(s *span, newb []byte) []patch {
	old := l.spanBytes(s)
	var ps []patch
	for i := range old {
		if m := old[i] ^ newb[i]; m != 0 {
			ps = append(ps, l.mkPatch(s, i, m))
		}
	}
	return ps
}

func be(n int, v uint64) []byte {
	b := make([]byte, n)
	for i := n - 1; i >= 0; i-- {
		b[i] = byte(v)
		v >>= 8
	}
	return b
}

// The code under test allocates the length it reads before any check: make([]byte, vLen) in ReadValue/ExportTx,
// the Reader buffer of cTxSize, and make([]byte, clen) in the compressed ReadAt where clen is whatever 4 bytes
// stand at vOff.  An alteration can therefore make every read of the tx allocate (and zero) up to 4 GiB.
// allocEstimate computes the largest such length for an alteration from the parser's view; alterations above the
// tier's threshold are executed only on one representative per field and store, one at a time.
func (l *layout) allocEstimate(ps []patch) int64 {
	pm := map[string]map[int64]byte{}
	for _, p := range ps {
		if pm[p.Region] == nil {
			pm[p.Region] = map[int64]byte{}
		}
		pm[p.Region][p.Off] ^= p.Mask
	}
	readP := func(s *span) uint64 {
		b := l.spanBytes(s)
		var v uint64
		for i := range b {
			v = v<<8 | uint64(b[i]^pm[s.Region][s.Off+int64(i)])
		}
		return v
	}
	var est int64
	up := func(v int64) {
		if v > est {
			est = v
		}
	}
	touched := map[[2]int]bool{}
	for _, p := range ps {
		s := l.spanAt(p.Region, p.Off)
		if s == nil {
			continue
		}
		switch s.Field {
		case "cTxSize":
			up(int64(readP(s)))
		case "vLen", "vOff", "valCLen", "valComp":
			touched[[2]int{s.Tx, s.Entry}] = true
		}
	}
	for te := range touched {
		e := &l.txs[te[0]-1].Entries[te[1]]
		vlen := readP(&l.spans[e.vLenSpan])
		voff := readP(&l.spans[e.vOffSpan])
		up(int64(vlen))
		if l.cfg.Compression != 0 && vlen > 0 {
			_, _, a := l.simCompressedRead(voff, int64(vlen), pm)
			up(a)
		}
	}
	return est
}

// simCompressedRead follows multiapp.ReadAt / singleapp.ReadAt on a compressed value log: every round reads a
// 4-byte length at the current position and allocates it; after a short record the next round continues at
// offset + bytes decompressed so far, i.e. in the middle of compressed data.  Returns the largest length read.
func (l *layout) simCompressedRead(vOff uint64, want int64, pm map[string]map[int64]byte) (out []byte, eof bool, est int64) {
	id := int(vOff >> 56)
	off := int64(vOff & ((1 << 55) - 1))
	if id < 1 || id > l.cfg.IOConc {
		return nil, true, 0
	}
	lf := l.logs[rVal(id-1)]
	for r := int64(0); r < want; {
		p := off + r
		c, in := p/lf.fileSize, p%lf.fileSize
		if int(c) >= len(lf.chunks) {
			return out, true, est
		}
		data := lf.chunks[c].data
		at := func(i int64) byte { return data[i] ^ pm[lf.region][c<<32|i] } // patches of a compressed log carry synthetic offsets
		if in+4 > int64(len(data)) {
			return out, true, est
		}
		clen := int64(at(in))<<24 | int64(at(in+1))<<16 | int64(at(in+2))<<8 | int64(at(in+3))
		if clen > est {
			est = clen
		}
		if in+4+clen > int64(len(data)) {
			return out, true, est
		}
		cb := make([]byte, clen)
		for i := range cb {
			cb[i] = at(in + 4 + int64(i))
		}
		dec, _ := decompressPartial(l.cfg.Compression, cb)
		n := int64(len(dec))
		if n > want-r {
			n = want - r
		}
		if n == 0 {
			return out, true, est
		}
		out = append(out, dec[:n]...)
		r += n
	}
	return out, false, est
}

// decClass names what dereferencing (vOff, vLen) of an entry gives on a compressed value log once the patches are
// applied, by the harness' own decoding: decSame (same bytes), decEof (short: EOF), decDiff (other bytes)
func (l *layout) decClass(e *entryInfo, vOff uint64, vLen int64, pm map[string]map[int64]byte) string {
	out, eof, _ := l.simCompressedRead(vOff, vLen, pm)
	switch {
	case eof:
		return "decEof"
	case bytes.Equal(out, e.Value):
		return "decSame"
	}
	return "decDiff"
}

func patchMap(region string, off int64, oldb, newb []byte) map[string]map[int64]byte {
	pm := map[string]map[int64]byte{region: {}}
	for i := range oldb {
		if m := oldb[i] ^ newb[i]; m != 0 {
			pm[region][off+int64(i)] = m
		}
	}
	return pm
}

// admit decides whether an alteration is executed given its allocation estimate
func (g *gen) admit(field string, est int64) bool {
	thr, lo, hi := int64(128<<20), int64(1<<30), int64(4<<30)
	if g.quick {
		thr, lo, hi = 64<<10, 32<<20, 128<<20
	}
	if est < thr {
		return true
	}
	if est >= lo && est <= hi && !g.hugeDone[field] {
		g.hugeDone[field] = true
		return true
	}
	g.skippedHuge++
	return false
}

type gen struct {
	lay         *layout
	rng         *rand.Rand
	quick       bool
	skippedHuge int
	sampledOut  int
	hugeDone    map[string]bool
	out         []alteration
	// classes realised by single-bit flips, per span index
	single map[int]map[string][]int // span -> class -> bit indexes (bit b of byte i = 8*i + b)
}

func (g *gen) add(kind string, tx int, alts [][2]string, desc string, ps []patch) {
	if len(ps) == 0 {
		return
	}
	est := g.lay.allocEstimate(ps)
	if kind != "bit" && !g.admit(kind, est) {
		return
	}
	g.out = append(g.out, alteration{Kind: kind, Tx: tx, Alts: alts, Desc: desc, Patches: ps, Alloc: est})
}

func (g *gen) flipBit(si, bit int) ([]byte, []patch) {
	s := &g.lay.spans[si]
	nb := g.lay.spanBytes(s)
	nb[bit/8] ^= 1 << uint(bit%8)
	return nb, []patch{g.lay.mkPatch(s, bit/8, 1<<uint(bit%8))}
}

// weight of a bit inside a big-endian field
func weightOf(s *span, bit int) int  { return (s.Len-1-bit/8)*8 + bit%8 }
func bitOfWeight(s *span, w int) int { return (s.Len-1-w/8)*8 + w%8 }

// quick tier: which bits of a field instance are executed (nil = all).  Every instance of every field is
// flipped; inside a field whose bits all fall into one alteration class (digests, 8-byte integers, long byte
// strings, the offset bits of vOff / cTxOff) a seeded sample is taken.  Lengths, version, attribute codes,
// short fields and the non-offset bits of vOff are always exhaustive.
func (g *gen) sampleBits(s *span) map[int]bool {
	if !g.quick {
		return nil
	}
	nbits := s.Len * 8
	pick := map[int]bool{}
	some := func(lo, hi, n int) { // n random weights in [lo, hi] plus both ends
		pick[bitOfWeight(s, lo)], pick[bitOfWeight(s, hi)] = true, true
		for k := 0; k < n-2; k++ {
			pick[bitOfWeight(s, lo+g.rng.Intn(hi-lo+1))] = true
		}
	}
	switch {
	case s.Field == "vOff":
		for w := 55; w < 64; w++ {
			pick[bitOfWeight(s, w)] = true
		}
		some(0, 54, 9)
	case s.Field == "cTxOff":
		some(0, 63, 9)
	case fieldKind[s.Field] == kindDigest:
		some(0, nbits-1, 8)
	case fieldKind[s.Field] == kindInt && s.Len == 8:
		some(0, 63, 8)
	case fieldKind[s.Field] == kindBytes && s.Len > 3:
		some(0, nbits-1, 8)
	default:
		return nil
	}
	return pick
}

// every single bit (quick tier: see sampleBits)
func (g *gen) singles() {
	g.single = map[int]map[string][]int{}
	for si := range g.lay.spans {
		s := &g.lay.spans[si]
		if s.Len == 0 {
			continue
		}
		old := g.lay.spanBytes(s)
		nbits := s.Len * 8
		pick := g.sampleBits(s)
		g.single[si] = map[string][]int{}
		for bit := 0; bit < nbits; bit++ {
			nb := append([]byte{}, old...)
			nb[bit/8] ^= 1 << uint(bit%8)
			cls := classify(g.lay, s, old, nb)
			est := int64(0)
			if s.Field == "vLen" || s.Field == "vOff" || s.Field == "valCLen" || s.Field == "cTxSize" {
				_, ps := g.flipBit(si, bit)
				est = g.lay.allocEstimate(ps)
				if est >= 64<<10 && pick != nil && !pick[bit] {
					g.sampledOut++
					continue
				}
				if !g.admit(s.Field, est) {
					continue
				}
			}
			if est < 64<<10 {
				g.single[si][cls] = append(g.single[si][cls], bit) // small enough to be reused in combinations
			}
			if pick != nil && !pick[bit] {
				g.sampledOut++
				continue
			}
			_, ps := g.flipBit(si, bit)
			g.add("bit", s.Tx, [][2]string{{g.lay.fieldName(s), cls}}, fmt.Sprintf("%s tx %d entry %d byte %d bit %d", s.Field, s.Tx, s.Entry, bit/8, bit%8), ps)
		}
	}
}

// realise (field instance, class) by the smallest change; nil when the class does not apply to the instance
func (g *gen) realise(si int, cls string) ([]byte, bool) {
	s := &g.lay.spans[si]
	old := g.lay.spanBytes(s)
	if bits := g.single[si][cls]; len(bits) > 0 {
		b := bits[g.rng.Intn(len(bits))]
		nb := append([]byte{}, old...)
		nb[b/8] ^= 1 << uint(b%8)
		return nb, true
	}
	v := s.Val
	switch {
	case cls == "zero" && (fieldKind[s.Field] == kindLen) && v != 0:
		return make([]byte, s.Len), true
	case cls == "down" && fieldKind[s.Field] == kindLen && v > 1:
		return be(s.Len, v-1), true
	case cls == "retarget" && s.Field == "cTxOff":
		var others []int64
		for _, t := range g.lay.txs {
			if t.ID != s.Tx {
				others = append(others, t.Off)
			}
		}
		return be(8, uint64(others[g.rng.Intn(len(others))])), true
	case cls == "vlogidX" && s.Field == "vOff" && g.lay.cfg.IOConc > 1 && !g.lay.cfg.Embedded && v>>56 != 0:
		id := v >> 56
		nid := id%uint64(g.lay.cfg.IOConc) + 1
		return be(8, v&^(0xff<<56)|nid<<56), true
	case cls == "bit" && s.Len > 0:
		nb := append([]byte{}, old...)
		for k := 0; k < 2+g.rng.Intn(2); k++ {
			b := g.rng.Intn(s.Len * 8)
			nb[b/8] ^= 1 << uint(b%8)
		}
		if bytes.Equal(nb, old) {
			nb[0] ^= 1
		}
		if classify(g.lay, s, old, nb) != "bit" {
			return nil, false
		}
		return nb, true
	}
	return nil, false
}

func (g *gen) spansOf(field string) []int {
	var out []int
	for si := range g.lay.spans {
		s := &g.lay.spans[si]
		if s.Len > 0 && g.lay.fieldName(s) == field {
			out = append(out, si)
		}
	}
	return out
}

// classes no single bit realises on some instance, and multi-bit changes inside one field
func (g *gen) multis(m *matrix, perField int) {
	want := map[string]bool{}
	for _, r := range m.Singles {
		if r.Cfg == g.lay.cfg.Model {
			want[r.Alts[0][0]+":"+r.Alts[0][1]] = true
		}
	}
	keys := make([]string, 0, len(want))
	for k := range want {
		keys = append(keys, k)
	}
	sort.Strings(keys)
	for _, k := range keys {
		f, cls, _ := strings.Cut(k, ":")
		if f == "eMdCode" && cls == "reorder" {
			g.reorders()
			continue
		}
		sis := g.spansOf(f)
		g.rng.Shuffle(len(sis), func(i, j int) { sis[i], sis[j] = sis[j], sis[i] })
		done := 0
		for _, si := range sis {
			if done >= perField {
				break
			}
			s := &g.lay.spans[si]
			if len(g.single[si][cls]) > 0 && cls != "bit" {
				continue // already covered by a single-bit flip of this instance
			}
			single := g.single[si]
			g.single[si] = map[string][]int{} // force the multi-bit realisation
			nb, ok := g.realise(si, cls)
			g.single[si] = single
			if !ok {
				continue
			}
			got := classify(g.lay, s, g.lay.spanBytes(s), nb)
			if got != cls {
				continue
			}
			g.add("multi", s.Tx, [][2]string{{f, cls}}, fmt.Sprintf("%s tx %d entry %d := %x (several bits, class %s)", s.Field, s.Tx, s.Entry, nb, cls), g.lay.patchesTo(s, nb))
			done++
		}
	}
}

// two payload-free kv attributes swapped: decodes to the same attribute set
func (g *gen) reorders() {
	sp := g.lay.spans
	for i := 0; i+1 < len(sp); i++ {
		a, b := &sp[i], &sp[i+1]
		if a.Field == "eMdCode" && b.Field == "eMdCode" && a.Tx == b.Tx && a.Entry == b.Entry && a.Off+1 == b.Off && a.Val != b.Val {
			ps := []patch{g.lay.mkPatch(a, 0, byte(a.Val^b.Val)), g.lay.mkPatch(b, 0, byte(a.Val^b.Val))}
			g.add("multi", a.Tx, [][2]string{{"eMdCode", "reorder"}}, fmt.Sprintf("kv metadata attributes of tx %d entry %d swapped", a.Tx, a.Entry), ps)
		}
	}
}

// the class combination TLC chose for every field pair, on instances of one tx
func (g *gen) pairs(m *matrix, perPair int) (unrealised int) {
	seen := map[string]bool{}
	for _, r := range m.Pairs {
		if r.Cfg != g.lay.cfg.Model {
			continue
		}
		k := altKey(r.Alts)
		if seen[k] {
			continue
		}
		seen[k] = true
		a1, a2 := r.Alts[0], r.Alts[1]
		if a1[1] == "reorder" || a2[1] == "reorder" {
			continue
		}
		s1, s2 := g.spansOf(a1[0]), g.spansOf(a2[0])
		var cands [][2]int
		for _, x := range s1 {
			for _, y := range s2 {
				if g.lay.spans[x].Tx == g.lay.spans[y].Tx && x != y {
					cands = append(cands, [2]int{x, y})
				}
			}
		}
		g.rng.Shuffle(len(cands), func(i, j int) { cands[i], cands[j] = cands[j], cands[i] })
		done := 0
		for _, c := range cands {
			if done >= perPair {
				break
			}
			n1, ok1 := g.realise(c[0], a1[1])
			n2, ok2 := g.realise(c[1], a2[1])
			if !ok1 || !ok2 {
				continue
			}
			x, y := &g.lay.spans[c[0]], &g.lay.spans[c[1]]
			// a changed vOff/vLen changes the In/Out class of the other locator: classify jointly
			if classify(g.lay, x, g.lay.spanBytes(x), n1) != a1[1] || classify(g.lay, y, g.lay.spanBytes(y), n2) != a2[1] {
				continue
			}
			ps := append(g.lay.patchesTo(x, n1), g.lay.patchesTo(y, n2)...)
			g.add("pair", x.Tx, [][2]string{a1, a2}, fmt.Sprintf("tx %d: %s(entry %d):=%x and %s(entry %d):=%x", x.Tx, x.Field, x.Entry, n1, y.Field, y.Entry, n2), ps)
			done++
		}
		if done == 0 {
			unrealised++
		}
	}
	return
}

// compound alterations: a commit-log entry overwritten by another tx's entry; (vLen, vOff) of another entry
func (g *gen) compounds() {
	lay := g.lay
	n := len(lay.txs)
	for _, t := range []int{n, 1, 2, n - 1} {
		if t < 1 || t > n {
			continue
		}
		j := 1 + g.rng.Intn(n)
		for j == t {
			j = 1 + g.rng.Intn(n)
		}
		var ps []patch
		for k := 0; k < 3; k++ {
			ps = append(ps, lay.patchesTo(&lay.spans[lay.txs[t-1].clogSpan[k]], lay.spanBytes(&lay.spans[lay.txs[j-1].clogSpan[k]]))...)
		}
		g.add("compound", t, [][2]string{{"clogdup", "entry"}}, fmt.Sprintf("commit-log entry of tx %d := entry of tx %d", t, j), ps)
	}
	type ref struct{ t, e int }
	var vals []ref
	for _, t := range lay.txs {
		for e, en := range t.Entries {
			if en.VLen > 0 {
				vals = append(vals, ref{t.ID, e})
			}
		}
	}
	for k := 0; k < 4 && len(vals) > 1; k++ {
		a := vals[g.rng.Intn(len(vals))]
		b := vals[g.rng.Intn(len(vals))]
		ea, eb := &lay.txs[a.t-1].Entries[a.e], &lay.txs[b.t-1].Entries[b.e]
		if bytes.Equal(ea.Value, eb.Value) || eb.VLen >= ea.VLen && false {
			continue
		}
		ps := append(lay.patchesTo(&lay.spans[ea.vLenSpan], be(4, uint64(eb.VLen))), lay.patchesTo(&lay.spans[ea.vOffSpan], be(8, eb.VOff))...)
		g.add("compound", a.t, [][2]string{{"valretarget", "entry"}}, fmt.Sprintf("tx %d entry %d: (vLen,vOff) := those of tx %d entry %d", a.t, a.e, b.t, b.e), ps)
	}
}

// stratify orders the alterations so that every prefix covers the (field, class) cells and the txs as evenly as
// possible: round-robin over the cells, seeded order inside a cell
func stratify(alts []alteration, rng *rand.Rand) {
	groups := map[string][]alteration{}
	var keys []string
	for _, a := range alts {
		k := altKey(a.Alts)
		if _, ok := groups[k]; !ok {
			keys = append(keys, k)
		}
		groups[k] = append(groups[k], a)
	}
	sort.Strings(keys)
	for _, k := range keys {
		g := groups[k]
		rng.Shuffle(len(g), func(i, j int) { g[i], g[j] = g[j], g[i] })
	}
	out := alts[:0]
	for round := 0; len(out) < cap(alts) && round < len(alts)+1; round++ {
		added := false
		for _, k := range keys {
			if round < len(groups[k]) {
				out = append(out, groups[k][round])
				added = true
			}
		}
		if !added {
			break
		}
	}
}

// ---- images: hard links for untouched files, a private patched copy of the altered ones
func makeImage(src, dst string, ps []patch, skipIndex bool) {
	byFile := map[string][]patch{}
	for _, p := range ps {
		byFile[p.File] = append(byFile[p.File], p)
	}
	vh.Must(filepath.WalkDir(src, func(p string, d fs.DirEntry, err error) error {
		if err != nil {
			return err
		}
		rel, _ := filepath.Rel(src, p)
		if skipIndex && d.IsDir() && rel == "index" {
			return filepath.SkipDir
		}
		if d.IsDir() {
			return os.MkdirAll(filepath.Join(dst, rel), 0755)
		}
		if pl, ok := byFile[rel]; ok {
			b, err := os.ReadFile(p)
			if err != nil {
				return err
			}
			for _, x := range pl {
				if x.FOff >= int64(len(b)) {
					return fmt.Errorf("patch beyond %s", rel)
				}
				b[x.FOff] ^= x.Mask
			}
			delete(byFile, rel)
			return os.WriteFile(filepath.Join(dst, rel), b, 0644)
		}
		return os.Link(p, filepath.Join(dst, rel))
	}), "make image")
	if len(byFile) != 0 {
		vh.Fatalf("image: patched files not found: %v", byFile)
	}
}

// per-worker images are kept between alterations: only the altered files are replaced by a patched private copy
// and hard-linked back afterwards (unlink/mkdir of whole trees is slow here)
func applyPatches(src, img string, ps []patch) {
	byFile := map[string][]patch{}
	for _, p := range ps {
		byFile[p.File] = append(byFile[p.File], p)
	}
	for rel, pl := range byFile {
		b, err := os.ReadFile(filepath.Join(src, rel))
		vh.Must(err, "read "+rel)
		for _, x := range pl {
			if x.FOff >= int64(len(b)) {
				vh.Fatalf("patch beyond %s", rel)
			}
			b[x.FOff] ^= x.Mask
		}
		vh.Must(os.Remove(filepath.Join(img, rel)), "unlink "+rel)
		vh.Must(os.WriteFile(filepath.Join(img, rel), b, 0644), "write "+rel)
	}
}

func restorePatches(src, img string, ps []patch) {
	done := map[string]bool{}
	for _, p := range ps {
		if done[p.File] {
			continue
		}
		done[p.File] = true
		vh.Must(os.Remove(filepath.Join(img, p.File)), "unlink patched "+p.File)
		vh.Must(os.Link(filepath.Join(src, p.File), filepath.Join(img, p.File)), "relink "+p.File)
	}
}

func dirDigest(dir string) string { return dirDigestSkip(dir, false) }

func dirDigestSkip(dir string, skipIndex bool) string {
	h := sha256.New()
	vh.Must(filepath.WalkDir(dir, func(p string, d fs.DirEntry, err error) error {
		if err != nil {
			return err
		}
		rel, _ := filepath.Rel(dir, p)
		if d.IsDir() {
			if skipIndex && rel == "index" {
				return filepath.SkipDir
			}
			return nil
		}
		b, err := os.ReadFile(p)
		if err != nil {
			return err
		}
		fmt.Fprintf(h, "%s:%d:", rel, len(b))
		h.Write(b)
		return nil
	}), "digest "+dir)
	return fmt.Sprintf("%x", h.Sum(nil))
}

// ---- judging one path of one alteration against the pristine session
type pathObs struct {
	Kind    string // same | err | degraded | diff | panic | hang | openerr
	Detail  string
	LocDiff bool
	Collat  int // intact-tx reads that failed with an error
	Item    *item
	ErrCls  string
}

var rankKind = map[string]int{"same": 0, "err": 1, "degraded": 2, "diff": 3, "panic": 4, "hang": 5}

var perTxPaths = map[string]bool{pReadTx: true, pHeader: true, pEntry: true, pValue: true, pExport: true}

type storeCtx struct {
	cfg      *cfgClass
	dir      string // pristine directory
	lay      *layout
	pristine map[string]item
	truncExp map[int]string // tx -> hex of the export without values
	selftest bool
	quick    bool
	digest   string // of the pristine directory
}

func (sc *storeCtx) judge(path string, alt *alteration, items []item) pathObs {
	obs := pathObs{Kind: "same"}
	worse := func(k, detail string, it *item) {
		if rankKind[k] > rankKind[obs.Kind] {
			obs.Kind, obs.Detail = k, detail
			cp := *it
			if len(cp.Content) > 400 {
				cp.Content = cp.Content[:400] + "..."
			}
			if len(cp.Panic) > 1500 {
				cp.Panic = cp.Panic[:1500]
			}
			obs.Item = &cp
		}
	}
	for i := range items {
		it := &items[i]
		if it.Path != path {
			continue
		}
		affected := !perTxPaths[path] || it.Tx == alt.Tx
		p, ok := sc.pristine[it.key()]
		switch {
		case it.Hung:
			worse("hang", it.Site, it)
		case it.Panic != "":
			worse("panic", it.Site, it)
		case it.Err != "":
			if affected {
				if obs.ErrCls == "" {
					obs.ErrCls = errClass(it.Err)
				}
				worse("err", errClass(it.Err), it)
			} else {
				obs.Collat++
			}
		case !ok:
			worse("diff", "a read that does not exist on the pristine store returned content: "+it.key(), it)
		case it.Content == p.Content:
			if it.Loc != p.Loc {
				obs.LocDiff = true
			}
		case path == pExport && it.Content == sc.truncExp[it.Tx] && it.Content != "":
			worse("degraded", "exported without values (flagged truncated); header, keys, metadata and value digests identical", it)
		default:
			worse("diff", fmt.Sprintf("%s: pristine %.160q got %.160q", it.key(), p.Content, it.Content), it)
		}
	}
	return obs
}

// ---- executing one alteration
type altResult struct {
	alt *alteration
	obs map[string]pathObs
}

var indexSensitive = map[string]bool{"vLen": true, "vOff": true, "val": true, "valCLen": true, "valComp": true, "valEmb": true, "embLen": true,
	"cTxOff": true, "cTxSize": true, "cAlh": true}

var hugeMu sync.Mutex // alterations that make the code allocate gigabytes run one at a time

type workerImg struct{ a, b string } // a: full copy (hard links); b: the same without the index directory

func (sc *storeCtx) newWorkerImg(scratch string, wk int) *workerImg {
	w := &workerImg{a: filepath.Join(scratch, fmt.Sprintf("w%d-a", wk)), b: filepath.Join(scratch, fmt.Sprintf("w%d-b", wk))}
	makeImage(sc.dir, w.a, nil, false)
	makeImage(sc.dir, w.b, nil, true)
	return w
}

func (sc *storeCtx) run(alt *alteration, w *workerImg, id int, self string) altResult {
	res := altResult{alt: alt, obs: map[string]pathObs{}}
	huge := alt.Alloc >= 16<<20
	if huge {
		hugeMu.Lock()
		defer func() {
			debug.FreeOSMemory()
			hugeMu.Unlock()
		}()
	}
	img := w.a
	applyPatches(sc.dir, img, alt.Patches)
	oit, o := openStore(img, sc.cfg)
	items := []item{oit}
	crashed := false
	if o != nil {
		items = append(items, runPaths(o, sc.lay)...)
		cl := o.close()
		if cl.Hung || cl.Panic != "" {
			cl.Path = pOpen
			cl.Sub = "close"
			items = append(items, cl)
		}
		for _, it := range items {
			if it.Panic != "" {
				crashed = true
			}
		}
	}
	restorePatches(sc.dir, img, alt.Patches)
	res.obs[pOpen] = sc.judge(pOpen, alt, items)
	for _, p := range allPaths[1:8] {
		if o == nil {
			res.obs[p] = pathObs{Kind: "openerr", Detail: errClass(oit.Err)}
			continue
		}
		res.obs[p] = sc.judge(p, alt, items)
	}
	// index rebuild after deleting the index directory; in a child process when the same tx already made a
	// parser panic (the indexer goroutine would take the whole process down)
	if sc.quick && alt.Kind == "bit" && id%6 != 0 && !indexSensitive[alt.Alts[0][0]] {
		// quick tier: fields that the record's Alh covers make the indexer stop on the same readTx error as the
		// ReadTx path; the index rebuild runs for every sixth of those alterations and for all others
		res.obs[pIndex] = pathObs{Kind: "skipped"}
		return res
	}
	img2 := w.b
	applyPatches(sc.dir, img2, alt.Patches)
	var iitems []item
	if crashed {
		iitems = childIndex(img2, sc)
	} else {
		iitems = runIndexRebuild(img2, sc.cfg, sc.lay)
	}
	os.RemoveAll(filepath.Join(img2, "index"))
	restorePatches(sc.dir, img2, alt.Patches)
	res.obs[pIndex] = sc.judge(pIndex, alt, iitems)
	if self != "" {
		// binding self-test: pretend one path served altered content
		o := res.obs[self]
		if o.Kind == "same" || o.Kind == "err" {
			res.obs[self] = pathObs{Kind: "diff", Detail: "SELFTEST: corrupted observation", Item: &item{Path: self}}
		}
	}
	return res
}

func (l *layout) spanAt(region string, off int64) *span {
	for i := range l.spans {
		s := &l.spans[i]
		if s.Region == region && off >= s.Off && off < s.Off+int64(s.Len) {
			return s
		}
	}
	return nil
}

func childIndex(img string, sc *storeCtx) []item {
	tier := "thorough"
	if sc.quick {
		tier = "quick"
	}
	cmd := exec.Command(os.Args[0], "-child-index", img, "-class", sc.cfg.Name, "-pristine", sc.dir, "-tier", tier)
	var out, errb bytes.Buffer
	cmd.Stdout, cmd.Stderr = &out, &errb
	done := make(chan error, 1)
	vh.Must(cmd.Start(), "start child")
	go func() { done <- cmd.Wait() }()
	select {
	case err := <-done:
		if err != nil {
			msg := errb.String()
			if i := strings.Index(msg, "panic:"); i >= 0 {
				msg = msg[i:]
			}
			msg = strings.TrimPrefix(msg, "panic: ")
			if len(msg) > 3000 {
				msg = msg[:3000]
			}
			return []item{{Path: pIndex, Sub: "process", Panic: "process died: " + msg, Site: panicSite(msg)}}
		}
	case <-time.After(90 * time.Second):
		cmd.Process.Kill()
		return []item{{Path: pIndex, Sub: "process", Hung: true, Site: "child process did not finish"}}
	}
	var items []item
	if err := json.Unmarshal(out.Bytes(), &items); err != nil {
		vh.Fatalf("child output: %v: %s", err, out.String())
	}
	return items
}

// prepareStore builds the real store of a class, parses it with the independent parser and records what every read
// path returns on an unaltered image (every read must succeed and return what the workload committed)
func prepareStore(sdir string, c *cfgClass, seed int64, quick bool, res *vh.Result) *storeCtx {
	pdir := filepath.Join(sdir, "pristine")
	vh.Must(os.MkdirAll(sdir, 0755), "mkdir")
	ntx := buildStore(pdir, c, seed)
	lay, err := parseLayout(pdir, c, ntx)
	if err != nil {
		vh.Fatalf("%s: the independent parser does not reproduce the store: %v", c.Name, err)
	}
	digest := dirDigest(pdir)
	sc := &storeCtx{cfg: c, dir: pdir, lay: lay, pristine: map[string]item{}, truncExp: map[int]string{}, quick: quick, digest: digest}

	// pristine session on an unaltered image: every read must succeed
	img := filepath.Join(sdir, "img-pristine")
	makeImage(pdir, img, nil, false)
	oit, o := openStore(img, c)
	if o == nil {
		vh.Fatalf("%s: pristine image does not open: %+v", c.Name, oit)
	}
	items := append([]item{oit}, runPaths(o, lay)...)
	o.close()
	os.RemoveAll(img)
	makeImage(pdir, img, nil, true)
	items = append(items, runIndexRebuild(img, c, lay)...)
	os.RemoveAll(img)
	for _, it := range items {
		if it.Err != "" || it.Panic != "" || it.Hung {
			vh.Fatalf("%s: read of the pristine store failed: %+v", c.Name, it)
		}
		if _, dup := sc.pristine[it.key()]; dup {
			vh.Fatalf("%s: duplicate observation key %s", c.Name, it.key())
		}
		sc.pristine[it.key()] = it
		res.Count("pristine-reads:"+it.Path, 1)
	}
	for k := 1; k <= ntx; k++ {
		full := sc.pristine[fmt.Sprintf("%s|%d|export", pExport, k)].Content
		fb, err := hex.DecodeString(full)
		vh.Must(err, "decode export")
		sc.truncExp[k] = fmt.Sprintf("%x", truncatedExport(fb, &lay.txs[k-1]))
	}
	// the pristine content must be what the workload committed (parser vs. API)
	w := workload(c, seed)
	for k, t := range w {
		for e, en := range t.Entries {
			got := sc.pristine[fmt.Sprintf("%s|%d|via-ReadTx:%d", pValue, k+1, e)].Content
			want := fmt.Sprintf("key=%x value=%x", en.Key, en.Val)
			if got != want || !bytes.Equal(lay.txs[k].Entries[e].Value, en.Val) && len(en.Val) > 0 {
				vh.Fatalf("%s: tx %d entry %d: store returns %s, committed %s", c.Name, k+1, e, got, want)
			}
		}
	}

	return sc
}

// ---- main
func main() {
	casesPath := flag.String("cases", "", "matrix written by TLC from spec/Corruption.tla")
	seed := flag.Int64("seed", 1, "seed")
	dir := flag.String("dir", "", "scratch directory")
	tier := flag.String("tier", "quick", "quick | thorough")
	workers := flag.Int("workers", 8, "parallel workers (max 8)")
	selftest := flag.String("selftest", "", "binding self-test: corrupt the observation of this path")
	only := flag.String("only", "", "run only this configuration class")
	limit := flag.Int("limit", 0, "(development) execute only the first N alterations per class")
	budget := flag.Float64("budget", 0, "seconds per class after which the remaining alterations (stratified order) are not executed; 0 = all")
	child := flag.String("child-index", "", "(internal) run the index rebuild path on this image and print the items")
	class := flag.String("class", "", "(internal)")
	pristineDir := flag.String("pristine", "", "(internal)")
	dump := flag.Bool("dump", false, "print the observed matrix to stderr")
	replayFile := flag.String("replay-file", "", "re-execute the alteration of a replay file written by the check (class, seed, alteration) and report it")
	seqCases := flag.String("seq", "", "read sequences written by TLC from spec/CorruptionSeq.tla: replay them (instead of the single-read matrix)")
	repro := flag.Bool("repro", false, "run the minimal reproductions of the known findings in -dir and print them")
	flag.Parse()

	var rl syscall.Rlimit
	if syscall.Getrlimit(syscall.RLIMIT_NOFILE, &rl) == nil {
		rl.Cur = rl.Max
		syscall.Setrlimit(syscall.RLIMIT_NOFILE, &rl)
	}

	debug.SetMemoryLimit(6 << 30)
	as := syscall.Rlimit{Cur: 24 << 30, Max: 24 << 30}
	syscall.Setrlimit(syscall.RLIMIT_AS, &as)

	if *child != "" {
		for i := range classes {
			if classes[i].Name == *class {
				quickWorkload = *tier != "thorough"
				ntx := len(workload(&classes[i], 1))
				lay, err := parseLayout(*pristineDir, &classes[i], ntx)
				vh.Must(err, "child layout")
				items := runIndexRebuild(*child, &classes[i], lay)
				vh.Must(json.NewEncoder(os.Stdout).Encode(items), "encode")
				return
			}
		}
		vh.Fatalf("unknown class %q", *class)
	}
	if pf := os.Getenv("C09_PROFILE"); pf != "" {
		f, err := os.Create(pf)
		vh.Must(err, "profile")
		pprof.StartCPUProfile(f)
		defer pprof.StopCPUProfile()
	}
	if *repro {
		vh.Must(json.NewEncoder(os.Stdout).Encode(runRepros(*dir, *seed)), "encode")
		return
	}
	if *replayFile != "" {
		runReplay(*replayFile, *dir)
		return
	}
	if *workers > 8 {
		*workers = 8
	}
	quick := *tier != "thorough"
	quickWorkload = quick
	if *seqCases != "" {
		runSeq(*seqCases, *dir, *seed, quick, *workers, *budget, *only)
		return
	}
	var m matrix
	vh.ReadJSON(*casesPath, &m)
	m.index()
	res := vh.NewResult()
	t0 := time.Now()

	type cellAgg struct {
		n    int
		kind map[string]int
		errs map[string]int
		exp  map[string]bool
	}
	cells := map[string]*cellAgg{} // cfg|altkey|path
	var cellMu sync.Mutex
	distinct := map[string]bool{}
	timing := map[string]float64{}
	unrealisedTotal := 0
	var evals, slow atomic.Int64

	for ci := range classes {
		c := &classes[ci]
		if (c.Thorough && quick) || (*only != "" && *only != c.Name) {
			continue
		}
		ts := time.Now()
		sdir := filepath.Join(*dir, c.Name)
		sc := prepareStore(sdir, c, *seed, quick, res)
		pdir, lay, digest := sc.dir, sc.lay, sc.digest

		// alterations
		g := &gen{lay: lay, rng: rand.New(rand.NewSource(*seed*1000 + int64(ci))), quick: quick, hugeDone: map[string]bool{}}
		g.singles()
		nSingles := len(g.out)
		per := 2
		if !quick {
			per = 6
		}
		g.multis(&m, per)
		unrealisedTotal += g.pairs(&m, per/2+0)
		g.compounds()
		stratify(g.out, g.rng)
		res.Count("alterations:"+c.Name+":single-bit", nSingles)
		res.Count("alterations:"+c.Name+":multi-bit/two-field/compound", len(g.out)-nSingles)
		bitsTotal := 0
		for _, s := range lay.spans {
			bitsTotal += s.Len * 8
		}
		res.Count("mapped-bits:"+c.Name, bitsTotal)
		res.Count("huge-allocation-alterations-not-executed:"+c.Name, g.skippedHuge)
		res.Count("bits-sampled-out:"+c.Name, g.sampledOut)
		fmt.Fprintf(os.Stderr, "[c09] %s: %d mapped bits, %d alterations (%d single-bit)\n", c.Name, bitsTotal, len(g.out), nSingles)

		jobs := make(chan int)
		var wg sync.WaitGroup
		var wimgs []*workerImg
		for wk := 0; wk < *workers; wk++ {
			wimg := sc.newWorkerImg(sdir, wk)
			wimgs = append(wimgs, wimg)
			wg.Add(1)
			go func() {
				defer wg.Done()
				for id := range jobs {
					alt := &g.out[id]
					self := ""
					if *selftest != "" && id == 0 {
						self = *selftest
					}
					tAlt := time.Now()
					r := sc.run(alt, wimg, id, self)
					if el := time.Since(tAlt); el > 2*time.Second {
						slow.Add(1)
						if os.Getenv("C09_DEBUG") != "" {
							fmt.Fprintf(os.Stderr, "SLOW %.1fs %s | %s | %v\n", el.Seconds(), alt.Desc, altKey(alt.Alts), kinds(r.obs))
						}
					}
					n := len(lay.txs)
					pos, shape := "inner", "nN"
					if alt.Tx == n {
						pos = "last"
					} else if alt.Tx == 1 {
						pos = "first"
					}
					if len(lay.txs[alt.Tx-1].Entries) == 1 {
						shape = "n1"
					}
					ak := altKey(alt.Alts)
					row := m.idx[c.Model+"|"+pos+"|"+shape+"|"+ak]
					if row == nil {
						res.Count("no-model-cell", 1)
						res.DriftNote(fmt.Sprintf("no model cell for %s %s %s %s", c.Model, pos, shape, ak))
					}
					for pi, p := range allPaths {
						o := r.obs[p]
						if o.Kind == "skipped" {
							res.Count("index-rebuild-sampled-out", 1)
							continue
						}
						evals.Add(1)
						res.Count("path-runs:"+p, 1)
						res.Count("obs:"+p+":"+o.Kind, 1)
						if o.Collat > 0 {
							res.Count("collateral-error:"+p, o.Collat)
						}
						if o.LocDiff {
							res.Count("locator-differs:"+p, 1)
						}
						exp, by := "?", ""
						if row != nil {
							exp, by = row.Exp[pi], row.By[pi]
						}
						cellMu.Lock()
						ck := c.Name + "|" + ak + "|" + p
						ca := cells[ck]
						if ca == nil {
							ca = &cellAgg{kind: map[string]int{}, errs: map[string]int{}, exp: map[string]bool{}}
							cells[ck] = ca
						}
						ca.exp[short(exp)] = true
						ca.n++
						kk := o.Kind
						if o.LocDiff && kk == "same" {
							kk = "same+loc"
						}
						ca.kind[kk]++
						if o.ErrCls != "" {
							ca.errs[o.ErrCls]++
						}
						distinct[c.Model+"|"+ak+"|"+p+"|"+o.Kind] = true
						cellMu.Unlock()

						bad := o.Kind == "diff" || o.Kind == "panic" || o.Kind == "hang"
						if bad {
							var sig string
							switch o.Kind {
							case "panic":
								sig = "panic:" + o.Detail
							case "hang":
								sig = "hang:" + p + ":" + o.Detail
							default:
								sig = "altered-content-served:" + rootCause(alt) + ":" + p + ":" + ak
							}
							text := fmt.Sprintf("%s, %s [%s], path %s: %s: %s (model: %s %s)", c.Name, alt.Desc, ak, p, o.Kind, o.Detail, exp, by)
							res.Violate(sig, text, map[string]interface{}{"class": c.Name, "seed": *seed, "alteration": alt, "path": p, "observation": o.Item, "model": exp})
							if exp == "UNCOVERED" {
								res.Count("candidate-confirmed:"+reasonTag(by), 1)
							} else {
								res.DriftNote(fmt.Sprintf("UNSAFE drift: model says %s (%s) for %s %s on %s, real code: %s", exp, by, c.Model, ak, p, o.Kind))
							}
							continue
						}
						switch {
						case o.Kind == "openerr":
						case exp == "UNCOVERED":
							res.Count("candidate-not-reproduced:"+reasonTag(by)+":"+kk, 1)
						case exp == "detected" && o.Kind == "same", exp == "invisible" && o.Kind == "err":
							res.Count("drift-safe", 1)
							res.DriftNote(fmt.Sprintf("model says %s (%s) for %s %s %s %s on %s, real code: %s %s", exp, by, c.Model, pos, shape, ak, p, kk, o.Detail))
						case exp == "detected" && o.Kind == "degraded":
							res.Count("drift-safe", 1)
							res.DriftNote(fmt.Sprintf("model says detected for %s %s on %s, real code exports without values", c.Model, ak, p))
						}
					}
					if dbg := os.Getenv("C09_DEBUG"); dbg != "" && strings.Contains(altKey(alt.Alts), dbg) {
						fmt.Fprintf(os.Stderr, "DBG %s | %s | %v\n", alt.Desc, altKey(alt.Alts), kinds(r.obs))
					}
					if id%7 == 0 {
						res.Sample(map[string]interface{}{"class": c.Name, "alteration": alt.Desc, "alts": ak, "observed": kinds(r.obs)}, 8)
					}
				}
			}()
		}
		for id := range g.out {
			if *limit > 0 && id >= *limit {
				break
			}
			if *budget > 0 && time.Since(ts).Seconds() > *budget {
				res.Count("alterations-not-executed-time-budget:"+c.Name, len(g.out)-id)
				break
			}
			jobs <- id
			if id%500 == 499 {
				fmt.Fprintf(os.Stderr, "[c09] %s: %d/%d alterations, %.0fs\n", c.Name, id+1, len(g.out), time.Since(ts).Seconds())
			}
		}
		close(jobs)
		wg.Wait()
		if d := dirDigest(pdir); d != digest {
			vh.Fatalf("%s: the pristine directory changed while images were read (hard links are not safe)", c.Name)
		}
		noIdx := dirDigestSkip(pdir, true)
		for _, wi := range wimgs {
			if dirDigest(wi.a) != digest || dirDigestSkip(wi.b, false) != noIdx {
				vh.Fatalf("%s: a worker image differs from the pristine store after its alterations were undone", c.Name)
			}
		}
		os.RemoveAll(sdir)
		timing[c.Name] = time.Since(ts).Seconds()
	}

	// observed matrix, compact: one line per (class, alteration class)
	var lines []string
	byAlt := map[string]map[string]*cellAgg{}
	for k, ca := range cells {
		parts := strings.SplitN(k, "|", 3)
		ak := parts[0] + " " + parts[1]
		if byAlt[ak] == nil {
			byAlt[ak] = map[string]*cellAgg{}
		}
		byAlt[ak][parts[2]] = ca
	}
	pairLines := 0
	for ak, ps := range byAlt {
		if strings.Contains(ak, "+") { // the per-pair cells are only counted (counters); the evidence lists singles and compounds
			pairLines++
			continue
		}
		var sb strings.Builder
		sb.WriteString(ak)
		for _, p := range allPaths {
			ca := ps[p]
			if ca == nil {
				continue
			}
			var ks []string
			for k, n := range ca.kind {
				ks = append(ks, fmt.Sprintf("%s:%d", k, n))
			}
			sort.Strings(ks)
			var es []string
			for e := range ca.exp {
				es = append(es, e)
			}
			sort.Strings(es)
			fmt.Fprintf(&sb, " | %s[%s]=%s", p, strings.Join(es, ""), strings.Join(ks, ","))
		}
		lines = append(lines, sb.String())
	}
	sort.Strings(lines)
	res.Extra["observed_matrix"] = lines
	res.Extra["observed_matrix_pair_rows_not_listed"] = pairLines
	res.Extra["timing_s"] = timing
	res.Extra["late_finishes"] = lateFinishes.Load()
	res.Extra["alterations_slower_than_2s"] = slow.Load()
	res.Extra["unrealised_pairs"] = unrealisedTotal
	res.Extra["harness_wall_s"] = time.Since(t0).Seconds()
	res.Distinct = len(distinct)
	res.Evaluations = int(evals.Load())
	if *dump {
		for _, l := range lines {
			fmt.Fprintln(os.Stderr, l)
		}
		// error classes per cell
		var el []string
		for k, ca := range cells {
			for e, n := range ca.errs {
				el = append(el, fmt.Sprintf("%s => %s x%d", k, e, n))
			}
		}
		sort.Strings(el)
		for _, l := range el {
			fmt.Fprintln(os.Stderr, "ERR", l)
		}
	}
	res.Emit()
}

// rootCause names the alteration family of a served-altered-content violation (part of the signature)
func rootCause(alt *alteration) string {
	for _, a := range alt.Alts {
		if a[0] == "clogdup" || (a[0] == "cTxOff" && a[1] == "retarget") {
			return "commit-log-entry-points-to-another-tx-record"
		}
	}
	for _, a := range alt.Alts {
		if a[0] == "vLen" && a[1] == "zero" {
			return "vLen-zeroed"
		}
	}
	return "other"
}

func short(e string) string {
	switch e {
	case "detected":
		return "D"
	case "invisible":
		return "I"
	case "UNCOVERED":
		return "U"
	}
	return e
}

func kinds(m map[string]pathObs) map[string]string {
	out := map[string]string{}
	for k, v := range m {
		out[k] = v.Kind
	}
	return out
}

func reasonTag(by string) string {
	if i := strings.IndexAny(by, ":("); i > 0 {
		by = by[:i]
	}
	by = strings.ReplaceAll(strings.TrimSpace(by), " ", "-")
	if len(by) > 60 {
		by = by[:60]
	}
	return by
}

var _ = binary.BigEndian

// runReplay re-executes one recorded alteration: the store is rebuilt from (class, seed, tier), the recorded byte
// patches are applied and every read path is judged again
func runReplay(file, dir string) {
	var rf struct {
		Tier   string `json:"tier"`
		Replay struct {
			Class      string     `json:"class"`
			Seed       int64      `json:"seed"`
			Alteration alteration `json:"alteration"`
			Path       string     `json:"path"`
			SeqCase    *seqCase   `json:"seqcase"`
			Patches    []patch    `json:"patches"`
		} `json:"replay"`
	}
	vh.ReadJSON(file, &rf)
	quick := rf.Tier != "thorough"
	quickWorkload = quick
	res := vh.NewResult()
	if cs := rf.Replay.SeqCase; cs != nil {
		for i := range classes {
			c := &classes[i]
			if c.Name != rf.Replay.Class {
				continue
			}
			sdir := filepath.Join(dir, "seq-"+c.Name)
			sc := prepareSeqClass(sdir, c, rf.Replay.Seed, rand.New(rand.NewSource(1)))
			img := filepath.Join(sdir, "w0")
			makeImage(sc.dir, img, nil, false)
			o := sc.runCase(cs, rf.Replay.Patches, img)
			for k, obs := range o.observed {
				res.Evaluations++
				res.Count("seq-obs:"+cs.Seq[k][0]+":"+obs, 1)
				if obs == "ALTERED" {
					res.Violate("altered-content-served:read-sequence:"+cs.Seq[k][0]+":"+relation(cs, o.observed, k),
						fmt.Sprintf("replay of %s, cache %s, sequence %s, step %d: altered content returned as valid", c.Name, cs.Mode, seqString(cs), k+1),
						map[string]interface{}{"class": c.Name, "seed": rf.Replay.Seed, "seqcase": cs, "patches": rf.Replay.Patches, "steps": o.steps})
				}
			}
			res.Distinct = len(o.observed)
			os.RemoveAll(sdir)
			res.Emit()
			return
		}
		vh.Fatalf("replay: unknown class %q", rf.Replay.Class)
	}
	for i := range classes {
		c := &classes[i]
		if c.Name != rf.Replay.Class {
			continue
		}
		sdir := filepath.Join(dir, c.Name)
		sc := prepareStore(sdir, c, rf.Replay.Seed, quick, res)
		sc.quick = false // run the index rebuild path as well
		alt := rf.Replay.Alteration
		for k := range alt.Patches { // recompute the physical location from the logical one (and compare)
			p := &alt.Patches[k]
			f, fo, err := sc.lay.logs[p.Region].phys(p.Off)
			if err != nil || f != p.File || fo != p.FOff {
				vh.Fatalf("replay: patch %d does not map to the same file position (%s+%d vs %s+%d): store differs from the recorded one", k, f, fo, p.File, p.FOff)
			}
		}
		r := sc.run(&alt, sc.newWorkerImg(sdir, 0), 0, "")
		for _, p := range allPaths {
			o := r.obs[p]
			res.Evaluations++
			res.Count("obs:"+p+":"+o.Kind, 1)
			if o.Kind == "diff" || o.Kind == "panic" || o.Kind == "hang" {
				var sig string
				switch o.Kind {
				case "panic":
					sig = "panic:" + o.Detail
				case "hang":
					sig = "hang:" + p + ":" + o.Detail
				default:
					sig = "altered-content-served:" + rootCause(&alt) + ":" + p + ":" + altKey(alt.Alts)
				}
				res.Violate(sig, fmt.Sprintf("replay of %s, %s, path %s: %s: %s", c.Name, alt.Desc, p, o.Kind, o.Detail),
					map[string]interface{}{"class": c.Name, "seed": rf.Replay.Seed, "alteration": alt, "path": p, "observation": o.Item})
			}
		}
		res.Distinct = len(allPaths)
		os.RemoveAll(sdir)
		res.Emit()
		return
	}
	vh.Fatalf("replay: unknown class %q", rf.Replay.Class)
}
