// paths.go: building the real stores and running every read path on a (possibly altered) copy.
package main

import (
	"bytes"
	"context"
	"encoding/binary"
	"encoding/hex"
	"errors"
	"fmt"
	"regexp"
	"runtime"
	"runtime/debug"
	"strings"
	"sync"
	"sync/atomic"
	"time"

	"github.com/codenotary/immudb/embedded/store"

	"verifharness/vh"
)

// configuration classes of real stores; Model names the configuration of spec/Corruption.tla
type cfgClass struct {
	Name        string
	Model       string
	Embedded    bool
	Compression int
	FileSize    int
	Version     int
	IOConc      int
	Thorough    bool // only built in the thorough tier
}

var classes = []cfgClass{
	{Name: "plain-v1", Model: "v1/plain/single", FileSize: 1 << 20, Version: 1, IOConc: 1},
	{Name: "plain-v0", Model: "v0/plain/single", FileSize: 1 << 20, Version: 0, IOConc: 1},
	{Name: "flate-v1", Model: "v1/comp/single", Compression: 1, FileSize: 1 << 20, Version: 1, IOConc: 1},
	{Name: "embedded-v1", Model: "v1/emb/single", Embedded: true, FileSize: 1 << 20, Version: 1, IOConc: 1},
	{Name: "chunks-2vlogs-v1", Model: "v1/plain/multi", FileSize: 160, Version: 1, IOConc: 2},
	{Name: "embedded-chunks-v1", Model: "v1/emb/single", Embedded: true, FileSize: 200, Version: 1, IOConc: 1, Thorough: true},
	{Name: "zlib-chunks-v0", Model: "v0/comp/single", Compression: 4, FileSize: 96, Version: 0, IOConc: 1, Thorough: true},
	{Name: "lzw-2vlogs-v1", Model: "v1/comp/multi", Compression: 3, FileSize: 1 << 20, Version: 1, IOConc: 2, Thorough: true},
}

const (
	maxTxEntries = 8
	maxKeyLen    = 16
	maxValueLen  = 512
)

// logger that remembers whether the indexer reported a failure
type capLogger struct {
	failed atomic.Bool
	mu     sync.Mutex
	last   string
	ch     chan struct{}
	once   sync.Once
}

func newCapLogger() *capLogger { return &capLogger{ch: make(chan struct{})} }
func (l *capLogger) Errorf(f string, a ...interface{}) {
	m := fmt.Sprintf(f, a...)
	if strings.Contains(m, "indexing failed") {
		l.mu.Lock()
		l.last = m
		l.mu.Unlock()
		l.failed.Store(true)
		l.once.Do(func() { close(l.ch) })
	}
}
func (l *capLogger) Warningf(string, ...interface{}) {}
func (l *capLogger) Infof(string, ...interface{})    {}
func (l *capLogger) Debugf(string, ...interface{})   {}
func (l *capLogger) Close() error                    { return nil }

func storeOpts(c *cfgClass, lg *capLogger) *store.Options {
	fixed := time.Unix(1700000000, 0)
	o := store.DefaultOptions().
		WithSynced(false).
		WithEmbeddedValues(c.Embedded).
		WithCompressionFormat(c.Compression).
		WithFileSize(c.FileSize).
		WithWriteTxHeaderVersion(c.Version).
		WithMaxIOConcurrency(c.IOConc).
		WithMaxTxEntries(maxTxEntries).
		WithMaxKeyLen(maxKeyLen).
		WithMaxValueLen(maxValueLen).
		WithMaxConcurrency(2).
		WithMaxActiveTransactions(8).
		WithMaxWaitees(8).
		WithTxLogCacheSize(4).
		WithWriteBufferSize(8192). // the defaults (4 MiB per log, 16 MiB per AHT log) make every Open zero ~70 MiB
		WithAHTOptions(store.DefaultAHTOptions().WithWriteBufferSize(8192).WithSyncThld(64)).
		WithLogger(lg).
		WithTimeFunc(func() time.Time { return fixed })
	o.WithIndexOptions(store.DefaultIndexOptions().WithCacheSize(64).WithMaxActiveSnapshots(4))
	return o
}

// ---- workload: a handful of txs with tx metadata, several entries, an empty value, KV metadata
type wEntry struct {
	Key     string
	Deleted bool
	NonIdx  bool
	Expires int64
	Val     []byte
}
type wTx struct {
	Extra   []byte
	Trunc   uint64
	Entries []wEntry
}

// quickWorkload: the quick tier commits 4 of the 6 txs (set from -tier before any store is built)
var quickWorkload bool

func workload(c *cfgClass, seed int64) []wTx {
	v := func(tag string, n int) []byte { return vh.Bytes(seed, "c09-"+tag, 0, n) }
	rep := bytes.Repeat([]byte("immutable-"), 12) // compressible
	copy(rep, v("rep", 6))
	far := int64(7258118400) // year 2200
	w := []wTx{
		{Entries: []wEntry{{Key: "k1a", Val: v("1a", 8)}, {Key: "k1b", Val: nil}, {Key: "k1c", Val: v("1c", 21)}}},
		{Extra: []byte("xmeta"), Entries: []wEntry{{Key: "k2a", Deleted: true, Val: v("2a", 4)}, {Key: "k2b", Expires: far, NonIdx: true, Val: v("2b", 16)}}},
		{Entries: []wEntry{{Key: "k1a", Val: rep}}},
		{Extra: v("4x", 3), Trunc: 1, Entries: []wEntry{{Key: "k4a", Deleted: true, NonIdx: true, Val: v("4a", 1)}, {Key: "k4b-longer-key", Val: v("4b", 2)}}},
		{Extra: []byte{0x7f}, Entries: []wEntry{{Key: "k5a", Val: v("5a", 64)}}},
		{Entries: []wEntry{{Key: "k6a", Expires: far, Val: v("6a", 32)}, {Key: "k1c", Val: v("6c", 5)}, {Key: "k6d", Val: v("6d", 3)}}},
	}
	if quickWorkload {
		// tx 1 (3 entries, empty value), tx 2 (extra metadata, kv metadata), tx 3 (one entry, rewrites k1a), tx 4 (both tx attributes)
		w = w[:4]
	}
	if c.Version == 0 { // version 0 records cannot carry metadata
		for i := range w {
			w[i].Extra, w[i].Trunc = nil, 0
			for j := range w[i].Entries {
				w[i].Entries[j].Deleted, w[i].Entries[j].NonIdx, w[i].Entries[j].Expires = false, false, 0
			}
		}
	}
	return w
}

func buildStore(dir string, c *cfgClass, seed int64) int {
	lg := newCapLogger()
	st, err := store.Open(dir, storeOpts(c, lg))
	vh.Must(err, "open new store "+c.Name)
	w := workload(c, seed)
	for i, t := range w {
		tx, err := st.NewWriteOnlyTx(context.Background())
		vh.Must(err, "NewWriteOnlyTx")
		if len(t.Extra) > 0 || t.Trunc > 0 {
			md := store.NewTxMetadata()
			if t.Trunc > 0 {
				md.WithTruncatedTxID(t.Trunc)
			}
			if len(t.Extra) > 0 {
				vh.Must(md.WithExtra(t.Extra), "WithExtra")
			}
			tx.WithMetadata(md)
		}
		for _, e := range t.Entries {
			var md *store.KVMetadata
			if e.Deleted || e.NonIdx || e.Expires != 0 {
				md = store.NewKVMetadata()
				vh.Must(md.AsDeleted(e.Deleted), "AsDeleted")
				vh.Must(md.AsNonIndexable(e.NonIdx), "AsNonIndexable")
				if e.Expires != 0 {
					vh.Must(md.ExpiresAt(time.Unix(e.Expires, 0)), "ExpiresAt")
				}
			}
			vh.Must(tx.Set([]byte(e.Key), md, e.Val), "Set")
		}
		hdr, err := tx.Commit(context.Background())
		vh.Must(err, fmt.Sprintf("commit tx %d of %s", i+1, c.Name))
		if int(hdr.ID) != i+1 || hdr.Version != c.Version {
			vh.Fatalf("%s: committed tx %d has id %d version %d", c.Name, i+1, hdr.ID, hdr.Version)
		}
	}
	ctx, cancel := context.WithTimeout(context.Background(), 30*time.Second)
	defer cancel()
	vh.Must(st.WaitForIndexingUpto(ctx, uint64(len(w))), "WaitForIndexingUpto")
	vh.Must(st.FlushIndexes(0, true), "FlushIndexes")
	vh.Must(st.Close(), "close new store")
	return len(w)
}

// ---- one observation
type item struct {
	Path    string `json:"path"`
	Tx      int    `json:"tx"`  // the tx this read is about (0: the whole store)
	Sub     string `json:"sub"` // which read of that path
	Err     string `json:"err,omitempty"`
	Content string `json:"content,omitempty"` // projection of the committed content the call returned
	Loc     string `json:"loc,omitempty"`     // unauthenticated locator fields (vLen, vOff) the call returned
	Panic   string `json:"panic,omitempty"`
	Hung    bool   `json:"hung,omitempty"`
	Site    string `json:"site,omitempty"` // where a hung goroutine is blocked / top repository frame of a panic
}

func (it *item) key() string { return it.Path + "|" + fmt.Sprint(it.Tx) + "|" + it.Sub }

// ---- guarded calls: vh.Guard (recover + deadline d1); a missed deadline is confirmed up to d2 unless the
// goroutine is blocked at a site where a hang was already confirmed twice
var (
	d1 = 150 * time.Millisecond
	d2 = 4 * time.Second
	d3 = 90 * time.Second

	confirmedMu    sync.Mutex
	confirmedSites = map[string]int{}
	lateFinishes   atomic.Int64
)

var reGID = regexp.MustCompile(`^goroutine (\d+) `)

func curGID() string {
	var b [64]byte
	n := runtime.Stack(b[:], false)
	m := reGID.FindSubmatch(b[:n])
	if m == nil {
		return ""
	}
	return string(m[1])
}

var stackBufs = sync.Pool{New: func() interface{} { b := make([]byte, 1<<19); return &b }}

var reFrame = regexp.MustCompile(`^(\S.*)\(.*\)$`)

// blockedSite describes where goroutine gid is blocked: wait state + the first frames.
func blockedSite(gid string) string {
	bp := stackBufs.Get().(*[]byte)
	defer func() { stackBufs.Put(bp) }()
	buf := *bp
	n := runtime.Stack(buf, true)
	for n == len(buf) && len(buf) < 1<<27 { // truncated dump (abandoned stores leave goroutines behind): grow
		nb := make([]byte, 2*len(buf))
		bp, buf = &nb, nb
		n = runtime.Stack(buf, true)
	}
	for _, blk := range strings.Split(string(buf[:n]), "\n\n") {
		if !strings.HasPrefix(blk, "goroutine "+gid+" [") {
			continue
		}
		lines := strings.Split(blk, "\n")
		state := lines[0][strings.Index(lines[0], "[")+1:]
		if i := strings.IndexAny(state, ",]"); i >= 0 {
			state = state[:i]
		}
		var fr []string
		for _, l := range lines[1:] {
			if strings.HasPrefix(l, "\t") || strings.HasPrefix(l, "created by") {
				continue
			}
			if m := reFrame.FindStringSubmatch(l); m != nil {
				f := m[1]
				if strings.HasPrefix(f, "runtime.") || strings.HasPrefix(f, "sync.runtime_") || strings.HasPrefix(f, "internal/") {
					continue
				}
				f = strings.TrimPrefix(f, "github.com/codenotary/immudb/")
				fr = append(fr, f)
				if strings.Contains(f, "embedded/") && len(fr) >= 2 {
					break
				}
				if len(fr) == 4 {
					break
				}
			}
		}
		return state + " @ " + strings.Join(fr, " <- ")
	}
	return "goroutine gone"
}

var rePanicSite = regexp.MustCompile(`(?m)^github\.com/codenotary/immudb/([^\s(]+(?:\([^)]*\))?[^\s(]*)\(`)

func panicSite(msg string) string {
	first := msg
	if i := strings.Index(first, "\n"); i >= 0 {
		first = first[:i]
	}
	first = regexp.MustCompile(`\[[^\]]*\]|\d+`).ReplaceAllString(first, "")
	first = strings.TrimSpace(strings.TrimPrefix(first, "runtime error:"))
	site := "?"
	if m := rePanicSite.FindStringSubmatch(msg); m != nil {
		site = m[1]
	}
	return site + ":" + strings.Join(strings.Fields(first), " ")
}

type callResult struct {
	content, loc string
	err          error
}

// call runs f under vh.Guard and fills the item.
func call(path string, tx int, sub string, f func() callResult) item {
	return callOpt(path, tx, sub, false, f)
}

// callOpt: mayBlock = the call legitimately waits for a background goroutine (only the long deadline applies)
func callOpt(path string, tx int, sub string, mayBlock bool, f func() callResult) item {
	it := item{Path: path, Tx: tx, Sub: sub}
	var r callResult
	var gid string
	returned := false
	done := make(chan struct{})
	ownPanic := ""
	panicked, hung, msg := vh.Guard(d1, func() {
		gid = curGID()
		defer func() {
			// keep the message for the case that vh.Guard has already given up waiting; then let vh.Guard see the panic
			if x := recover(); x != nil {
				ownPanic = fmt.Sprintf("%v\n%s", x, debug.Stack())
				close(done)
				panic(x)
			}
			close(done)
		}()
		r = f()
		returned = true
	})
	if hung {
		// A missed first deadline is only a suspicion.  It becomes a hang when the goroutine sits blocked (mutex,
		// channel, condition) at the same site for d2, or has not finished after d3 in any state (the machine may
		// be heavily loaded: a running goroutine gets the long deadline).  A blocked site where a hang was already
		// confirmed twice on this path is taken as the same hang at once.
		site := blockedSite(gid)
		isBlocked := func(st string) bool {
			return !strings.HasPrefix(st, "running") && !strings.HasPrefix(st, "runnable") && !strings.HasPrefix(st, "syscall") &&
				!strings.HasPrefix(st, "IO wait") && !strings.HasPrefix(st, "sleep") && !strings.HasPrefix(st, "GC ") && st != "goroutine gone"
		}
		confirmedMu.Lock()
		known := !mayBlock && confirmedSites[path+"|"+site] >= 2 && isBlocked(site)
		confirmedMu.Unlock()
		if !known {
			start := time.Now()
			sameSince := start
		wait:
			for {
				select {
				case <-done:
					hung = false
					lateFinishes.Add(1)
					break wait
				case <-time.After(250 * time.Millisecond):
				}
				now := blockedSite(gid)
				if now != site {
					site, sameSince = now, time.Now()
				}
				if !mayBlock && isBlocked(site) && time.Since(sameSince) >= d2 {
					confirmedMu.Lock()
					confirmedSites[path+"|"+site]++
					confirmedMu.Unlock()
					break wait
				}
				if time.Since(start) >= d3 {
					break wait
				}
			}
		}
		if hung {
			it.Hung, it.Site = true, site
			return it
		}
		// finished late: a panic in f was recovered by vh.Guard's goroutine, whose result we can no longer read
		if !returned {
			it.Panic, it.Site = ownPanic, panicSite(ownPanic)
			return it
		}
	}
	if panicked {
		it.Panic, it.Site = msg, panicSite(msg)
		return it
	}
	if r.err != nil {
		it.Err = r.err.Error()
		if it.Err == "" {
			it.Err = "error"
		}
		return it
	}
	it.Content, it.Loc = r.content, r.loc
	return it
}

// ---- projections of what the API returned
func mdHex(md *store.TxMetadata) string {
	if md == nil {
		return ""
	}
	return hex.EncodeToString(md.Bytes())
}

func kvmdHex(md *store.KVMetadata) string {
	if md == nil {
		return ""
	}
	return hex.EncodeToString(md.Bytes())
}

func hdrProj(h *store.TxHeader) string {
	alh := h.Alh()
	return fmt.Sprintf("id=%d ts=%d bl=%d blRoot=%x prevAlh=%x ver=%d md=%s n=%d eh=%x alh=%x",
		h.ID, h.Ts, h.BlTxID, h.BlRoot, h.PrevAlh, h.Version, mdHex(h.Metadata), h.NEntries, h.Eh, alh)
}

func entryProj(e *store.TxEntry) (string, string) {
	hv := e.HVal()
	return fmt.Sprintf("key=%x md=%s hVal=%x", e.Key(), kvmdHex(e.Metadata()), hv), fmt.Sprintf("vLen=%d vOff=%x", e.VLen(), uint64(e.VOff()))
}

func txProj(tx *store.Tx) (string, string) {
	var c, l []string
	c = append(c, hdrProj(tx.Header()))
	for _, e := range tx.Entries() {
		ec, el := entryProj(e)
		c = append(c, ec)
		l = append(l, el)
	}
	return strings.Join(c, ";"), strings.Join(l, ";")
}

// ---- the synchronous read paths on an opened store
const (
	pOpen   = "Open"
	pReadTx = "ReadTx"
	pHeader = "ReadTxHeader"
	pEntry  = "ReadTxEntry"
	pValue  = "ReadValue"
	pExport = "ExportTx"
	pReader = "TxReader"
	pProof  = "Proof"
	pIndex  = "IndexRebuild"
)

var allPaths = []string{pOpen, pReadTx, pHeader, pEntry, pValue, pExport, pReader, pProof, pIndex}

type opened struct {
	st *store.ImmuStore
	lg *capLogger
}

// openStore is the Open path: error, or the committed state the store reports.
func openStore(dir string, c *cfgClass) (item, *opened) {
	lg := newCapLogger()
	var st *store.ImmuStore
	it := call(pOpen, 0, "open", func() callResult {
		s, err := store.Open(dir, storeOpts(c, lg))
		if err != nil {
			return callResult{err: err}
		}
		st = s
		id, alh := s.CommittedAlh()
		pid, palh := s.PrecommittedAlh()
		return callResult{content: fmt.Sprintf("committed=%d alh=%x precommitted=%d palh=%x", id, alh, pid, palh)}
	})
	if st == nil {
		return it, nil
	}
	return it, &opened{st: st, lg: lg}
}

func (o *opened) close() item {
	return call("Close", 0, "close", func() callResult { return callResult{err: o.st.Close()} })
}

// keysOf: the keys of every tx as the independent parser found them in the pristine store
func runPaths(o *opened, lay *layout) []item {
	st := o.st
	n := len(lay.txs)
	var items []item
	stop := false // a hang poisons the instance: skip the rest
	add := func(it item) {
		items = append(items, it)
		if it.Hung {
			stop = true
		}
	}
	holder := func() *store.Tx { return store.NewTx(maxTxEntries, maxKeyLen) }

	// ReadTx + ReadValue on its entries
	for k := 1; k <= n && !stop; k++ {
		tx := holder()
		it := call(pReadTx, k, "tx", func() callResult {
			if err := st.ReadTx(uint64(k), false, tx); err != nil {
				return callResult{err: err}
			}
			c, l := txProj(tx)
			return callResult{content: c, loc: l}
		})
		add(it)
		if it.Err != "" || it.Panic != "" || it.Hung {
			add(item{Path: pValue, Tx: k, Sub: "via-ReadTx", Err: "ReadTx: " + it.Err + it.Site, Panic: it.Panic, Hung: it.Hung, Site: it.Site})
			continue
		}
		for i, e := range tx.Entries() {
			if stop {
				break
			}
			e := e
			add(call(pValue, k, fmt.Sprintf("via-ReadTx:%d", i), func() callResult {
				v, err := st.ReadValue(e)
				if err != nil {
					return callResult{err: err}
				}
				return callResult{content: fmt.Sprintf("key=%x value=%x", e.Key(), v)}
			}))
		}
	}
	// ReadTxHeader
	for k := 1; k <= n && !stop; k++ {
		add(call(pHeader, k, "hdr", func() callResult {
			h, err := st.ReadTxHeader(uint64(k), false, false)
			if err != nil {
				return callResult{err: err}
			}
			return callResult{content: hdrProj(h)}
		}))
	}
	// ReadTxEntry (+ ReadValue on the returned entry)
	for k := 1; k <= n && !stop; k++ {
		for i := range lay.txs[k-1].Entries {
			if stop {
				break
			}
			key := lay.txs[k-1].Entries[i].Key
			var ent *store.TxEntry
			it := call(pEntry, k, fmt.Sprintf("%d", i), func() callResult {
				e, h, err := st.ReadTxEntry(uint64(k), key, false)
				if err != nil {
					return callResult{err: err}
				}
				ent = e
				c, l := entryProj(e)
				return callResult{content: hdrProj(h) + ";" + c, loc: l}
			})
			add(it)
			if ent == nil {
				continue
			}
			add(call(pValue, k, fmt.Sprintf("via-ReadTxEntry:%d", i), func() callResult {
				v, err := st.ReadValue(ent)
				if err != nil {
					return callResult{err: err}
				}
				return callResult{content: fmt.Sprintf("key=%x value=%x", ent.Key(), v)}
			}))
		}
	}
	// TxReader ascending from 1 and descending from n
	for _, desc := range []bool{false, true} {
		if stop {
			break
		}
		name := "asc"
		start := 1
		if desc {
			name, start = "desc", n
		}
		var rd *store.TxReader
		it := call(pReader, 0, name+":new", func() callResult {
			r, err := st.NewTxReader(uint64(start), desc, holder())
			rd = r
			return callResult{err: err}
		})
		if rd == nil {
			add(it)
			continue
		}
		for step := 0; step < n+1 && !stop; step++ {
			exp := start + step
			if desc {
				exp = start - step
			}
			it := call(pReader, exp, fmt.Sprintf("%s:%d", name, step), func() callResult {
				tx, err := rd.Read()
				if errors.Is(err, store.ErrNoMoreEntries) {
					return callResult{content: "no more entries"}
				}
				if err != nil {
					return callResult{err: err}
				}
				c, l := txProj(tx)
				return callResult{content: c, loc: l}
			})
			add(it)
			if it.Err != "" || it.Panic != "" || it.Content == "no more entries" {
				break
			}
		}
	}
	// proofs between tx pairs
	pairs := [][2]int{{1, n}, {1, 2}, {n - 1, n}, {2, n - 1}, {3, n}}
	seenPair := map[[2]int]bool{}
	for _, pr := range pairs {
		if stop || pr[0] < 1 || pr[1] > n || pr[0] >= pr[1] || seenPair[pr] {
			continue
		}
		seenPair[pr] = true
		i, j := pr[0], pr[1]
		add(call(pProof, 0, fmt.Sprintf("dual:%d:%d", i, j), func() callResult {
			hi, err := st.ReadTxHeader(uint64(i), false, false)
			if err != nil {
				return callResult{err: err}
			}
			hj, err := st.ReadTxHeader(uint64(j), false, false)
			if err != nil {
				return callResult{err: err}
			}
			p, err := st.DualProof(hi, hj)
			if err != nil {
				return callResult{err: err}
			}
			s := fmt.Sprintf("src{%s} tgt{%s} incl=%x cons=%x blAlh=%x last=%x", hdrProj(p.SourceTxHeader), hdrProj(p.TargetTxHeader),
				p.InclusionProof, p.ConsistencyProof, p.TargetBlTxAlh, p.LastInclusionProof)
			if p.LinearProof != nil {
				s += fmt.Sprintf(" lin=%d:%d:%x", p.LinearProof.SourceTxID, p.LinearProof.TargetTxID, p.LinearProof.Terms)
			}
			if p.LinearAdvanceProof != nil {
				s += fmt.Sprintf(" adv=%x:%x", p.LinearAdvanceProof.LinearProofTerms, p.LinearAdvanceProof.InclusionProofs)
			}
			return callResult{content: s}
		}))
		if stop {
			break
		}
		add(call(pProof, 0, fmt.Sprintf("linear:%d:%d", i, j), func() callResult {
			p, err := st.LinearProof(uint64(i), uint64(j))
			if err != nil {
				return callResult{err: err}
			}
			return callResult{content: fmt.Sprintf("lin=%d:%d:%x", p.SourceTxID, p.TargetTxID, p.Terms)}
		}))
	}
	// ExportTx last: a failing export may leave the store's value buffer locked
	prevErr := ""
	for k := 1; k <= n && !stop; k++ {
		it := call(pExport, k, "export", func() callResult {
			b, err := st.ExportTx(uint64(k), false, false, holder())
			if err != nil {
				return callResult{err: err}
			}
			return callResult{content: hex.EncodeToString(b)}
		})
		if it.Hung && prevErr != "" {
			it.Site += " after ExportTx error '" + prevErr + "'"
		}
		if it.Err != "" {
			prevErr = errClass(it.Err)
		}
		add(it)
	}
	// once more on tx 1: an export that failed must not leave the store unable to export
	if !stop {
		add(call(pExport, 1, "again", func() callResult {
			b, err := st.ExportTx(1, false, false, holder())
			if err != nil {
				return callResult{err: err}
			}
			return callResult{content: hex.EncodeToString(b)}
		}))
		if l := &items[len(items)-1]; l.Hung && prevErr != "" {
			l.Site += " after ExportTx error '" + prevErr + "'"
		}
	}
	return items
}

var reNum = regexp.MustCompile(`\d+`)

func errClass(e string) string {
	e = reNum.ReplaceAllString(e, "#")
	if len(e) > 90 {
		e = e[:90]
	}
	return e
}

// truncatedExport builds, from a pristine export and the parser's view of the tx, the export ExportTx
// produces when it takes every value for truncated (header, keys, metadata, value digests; flag 1).
func truncatedExport(full []byte, ti *txInfo) []byte {
	hl := int(binary.BigEndian.Uint32(full))
	out := append([]byte{}, full[:4+hl]...)
	for _, e := range ti.Entries {
		var b2 [2]byte
		binary.BigEndian.PutUint16(b2[:], uint16(len(e.Key)))
		out = append(out, b2[:]...)
		out = append(out, e.Key...)
		binary.BigEndian.PutUint16(b2[:], uint16(len(e.Md)))
		out = append(out, b2[:]...)
		out = append(out, e.Md...)
		out = append(out, 0, 0, 0, 32)
		out = append(out, e.HVal[:]...)
	}
	return append(out, 0, 1, 1)
}

// ---- index rebuild: open a copy without the index directory, wait for the indexer, read every key
func runIndexRebuild(dir string, c *cfgClass, lay *layout) []item {
	var items []item
	oit, o := openStore(dir, c)
	oit.Path, oit.Sub = pIndex, "open"
	items = append(items, oit)
	if o == nil {
		return items
	}
	defer o.close()
	n := len(lay.txs)
	st := o.st
	wait := callOpt(pIndex, 0, "wait", true, func() callResult {
		ctx, cancel := context.WithTimeout(context.Background(), 60*time.Second)
		defer cancel()
		go func() {
			select {
			case <-o.lg.ch:
				cancel()
			case <-ctx.Done():
			}
		}()
		err := st.WaitForIndexingUpto(ctx, uint64(n))
		if o.lg.failed.Load() {
			o.lg.mu.Lock()
			defer o.lg.mu.Unlock()
			return callResult{err: fmt.Errorf("indexer stopped: %s", o.lg.last)}
		}
		if err != nil {
			return callResult{err: fmt.Errorf("indexing did not reach tx %d: %w", n, err)}
		}
		return callResult{content: "indexed"}
	})
	items = append(items, wait)
	if wait.Err != "" || wait.Panic != "" || wait.Hung {
		return items
	}
	seen := map[string]bool{}
	for k := n; k >= 1; k-- {
		for i := range lay.txs[k-1].Entries {
			key := lay.txs[k-1].Entries[i].Key
			if seen[string(key)] {
				continue
			}
			seen[string(key)] = true
			it := call(pIndex, k, "get:"+string(key), func() callResult {
				ref, err := st.GetWithFilters(context.Background(), key)
				if errors.Is(err, store.ErrKeyNotFound) {
					// non-indexable entries are absent from the index; after a complete indexing run "absent" is an answer
					return callResult{content: "absent from the index"}
				}
				if err != nil {
					return callResult{err: err}
				}
				hv := ref.HVal()
				c := fmt.Sprintf("tx=%d hc=%d kvmd=%s txmd=%s hVal=%x", ref.Tx(), ref.HC(), kvmdHex(ref.KVMetadata()), mdHex(ref.TxMetadata()), hv)
				l := fmt.Sprintf("vLen=%d vOff=%x", ref.Len(), uint64(ref.VOff()))
				v, err := ref.Resolve()
				if err != nil {
					return callResult{err: fmt.Errorf("Resolve: %w", err)}
				}
				return callResult{content: c + fmt.Sprintf(" value=%x", v), loc: l}
			})
			items = append(items, it)
			if it.Hung {
				return items
			}
			// every indexed version of the key, each value dereferenced
			hit := call(pIndex, 0, "history:"+string(key), func() callResult {
				refs, _, err := st.History(key, 0, false, 100)
				if errors.Is(err, store.ErrKeyNotFound) {
					return callResult{content: "absent from the index"}
				}
				if err != nil {
					return callResult{err: err}
				}
				var cs, ls []string
				for _, ref := range refs {
					hv := ref.HVal()
					v, err := ref.Resolve()
					if errors.Is(err, store.ErrExpiredEntry) {
						v, err = []byte("expired"), nil
					}
					if err != nil {
						return callResult{err: fmt.Errorf("Resolve of the version of tx %d: %w", ref.Tx(), err)}
					}
					cs = append(cs, fmt.Sprintf("tx=%d hc=%d kvmd=%s txmd=%s hVal=%x value=%x", ref.Tx(), ref.HC(), kvmdHex(ref.KVMetadata()), mdHex(ref.TxMetadata()), hv, v))
					ls = append(ls, fmt.Sprintf("vLen=%d vOff=%x", ref.Len(), uint64(ref.VOff())))
				}
				return callResult{content: strings.Join(cs, ";"), loc: strings.Join(ls, ";")}
			})
			items = append(items, hit)
			if hit.Hung {
				return items
			}
		}
	}
	return items
}
