// layout.go: an independent parser of the on-disk format (it shares no code with embedded/store).
// It maps every byte of every committed tx-log record, of every commit-log entry and of every
// referenced value range to a field class, and validates itself against the commit log
// (record boundaries), against its own re-computation of Eh/Alh, and against hVal.
package main

import (
	"bytes"
	"compress/flate"
	"compress/gzip"
	"compress/lzw"
	"compress/zlib"
	"crypto/sha256"
	"encoding/binary"
	"fmt"
	"io"
	"os"
	"path/filepath"
	"sort"
)

// regions (logical byte logs)
const (
	rTx   = "tx"
	rClog = "commit"
)

func rVal(i int) string { return fmt.Sprintf("val_%d", i) }

// chunked log: logical offset -> (file, physical offset)
type chunk struct {
	path string
	base int64 // offset of the first data byte in the file (4 + metadata length)
	data []byte
}

type logFile struct {
	region   string
	ext      string
	fileSize int64
	chunks   []chunk
	// compressed value logs never split a record: a chunk may be longer than fileSize, and the bytes of a record
	// are addressed by (chunk, offset in chunk).  Span offsets in such a log are synthetic: chunk<<32 | in-chunk offset
	compressed bool
}

func (lf *logFile) synth(logical int64) int64 {
	return (logical/lf.fileSize)<<32 | (logical % lf.fileSize)
}

func loadLog(dir, region, ext string, fileSize int) (*logFile, error) {
	lf := &logFile{region: region, ext: ext, fileSize: int64(fileSize)}
	for i := 0; ; i++ {
		p := filepath.Join(dir, region, fmt.Sprintf("%08d.%s", i, ext))
		b, err := os.ReadFile(p)
		if os.IsNotExist(err) {
			break
		}
		if err != nil {
			return nil, err
		}
		if len(b) < 4 {
			return nil, fmt.Errorf("%s: short file", p)
		}
		ml := int64(binary.BigEndian.Uint32(b))
		if 4+ml > int64(len(b)) {
			return nil, fmt.Errorf("%s: bad metadata length", p)
		}
		lf.chunks = append(lf.chunks, chunk{path: p, base: 4 + ml, data: b[4+ml:]})
	}
	if len(lf.chunks) == 0 {
		return nil, fmt.Errorf("%s/%s: no chunk files", dir, region)
	}
	return lf, nil
}

// phys maps a logical offset to (relative file path inside the store dir, physical offset).
func (lf *logFile) phys(off int64) (string, int64, error) {
	c := off / lf.fileSize
	in := off % lf.fileSize
	if lf.compressed {
		c, in = off>>32, off&0xffffffff
	}
	if c < 0 || int(c) >= len(lf.chunks) || in >= int64(len(lf.chunks[c].data)) {
		return "", 0, fmt.Errorf("%s: logical offset %d is outside the files", lf.region, off)
	}
	return filepath.Join(lf.region, fmt.Sprintf("%08d.%s", c, lf.ext)), lf.chunks[c].base + in, nil
}

// read returns n bytes at logical offset off of an uncompressed log (crossing chunk boundaries).
func (lf *logFile) read(off int64, n int) ([]byte, error) {
	out := make([]byte, 0, n)
	for len(out) < n {
		o := off + int64(len(out))
		c := o / lf.fileSize
		in := o % lf.fileSize
		if int(c) >= len(lf.chunks) || in >= int64(len(lf.chunks[c].data)) {
			return nil, io.ErrUnexpectedEOF
		}
		// an uncompressed chunk holds at most fileSize bytes
		avail := lf.chunks[c].data[in:]
		if int64(len(avail)) > lf.fileSize-in {
			avail = avail[:lf.fileSize-in]
		}
		take := n - len(out)
		if take > len(avail) {
			take = len(avail)
		}
		out = append(out, avail[:take]...)
	}
	return out, nil
}

// readInChunk reads n bytes at a synthetic offset (chunk<<32 | in-chunk offset) of a compressed log
func (lf *logFile) readInChunk(off int64, n int) ([]byte, error) {
	c := off >> 32
	in := off & 0xffffffff
	if int(c) >= len(lf.chunks) || in+int64(n) > int64(len(lf.chunks[c].data)) {
		return nil, io.ErrUnexpectedEOF
	}
	return lf.chunks[c].data[in : in+int64(n)], nil
}

func (lf *logFile) size() int64 {
	last := len(lf.chunks) - 1
	return int64(last)*lf.fileSize + int64(len(lf.chunks[last].data))
}

// span: a run of bytes that belongs to one field instance
type span struct {
	Region  string `json:"region"`
	Off     int64  `json:"off"` // logical offset in the region
	Len     int    `json:"len"`
	Field   string `json:"field"`
	Tx      int    `json:"tx"`    // 1-based tx id
	Entry   int    `json:"entry"` // 0-based entry index, -1 for header/clog fields
	Val     uint64 `json:"val"`   // decoded integer value for length/offset/int fields
	inChunk bool   // compressed vlog: bytes are contiguous inside one chunk file
}

type entryInfo struct {
	Key   []byte
	Md    []byte
	VLen  int
	VOff  uint64
	HVal  [32]byte
	Value []byte
	// spans of the locator fields (for compound alterations)
	vLenSpan, vOffSpan int
}

type txInfo struct {
	ID       int
	Off      int64 // logical offset of the record in the tx log
	Size     int
	Version  int
	Md       []byte
	Entries  []entryInfo
	Alh      [32]byte
	clogSpan [3]int // indexes of cTxOff, cTxSize, cAlh spans
}

type layout struct {
	cfg   *cfgClass
	logs  map[string]*logFile
	spans []span
	txs   []txInfo
}

const (
	kindLen    = "len"
	kindOff    = "off"
	kindDigest = "digest"
	kindInt    = "int"
	kindBytes  = "bytes"
)

var fieldKind = map[string]string{
	"id": kindInt, "ts": kindInt, "blTxID": kindInt, "blRoot": kindDigest, "prevAlh": kindDigest, "version": kindInt,
	"hMdLen": kindLen, "hMdCode": kindBytes, "hMdTrunc": kindInt, "hMdExtraLen": kindLen, "hMdExtra": kindBytes, "nentries": kindLen,
	"eMdLen": kindLen, "eMdCode": kindBytes, "eMdExp": kindInt, "kLen": kindLen, "key": kindBytes, "vLen": kindLen, "vOff": kindOff,
	"hVal": kindDigest, "alh": kindDigest,
	"cTxOff": kindOff, "cTxSize": kindLen, "cAlh": kindDigest,
	"val": kindBytes, "valCLen": kindLen, "valComp": kindBytes, "valEmb": kindBytes, "embLen": kindLen,
}

type cursor struct {
	lf  *logFile
	off int64
}

func (c *cursor) take(n int) ([]byte, int64, error) {
	b, err := c.lf.read(c.off, n)
	if err != nil {
		return nil, 0, err
	}
	o := c.off
	c.off += int64(n)
	return b, o, nil
}

func decompress(format int, b []byte) ([]byte, error) {
	var r io.ReadCloser
	var err error
	switch format {
	case 1:
		r = flate.NewReader(bytes.NewReader(b))
	case 2:
		r, err = gzip.NewReader(bytes.NewReader(b))
	case 3:
		r = lzw.NewReader(bytes.NewReader(b), lzw.MSB, 8)
	case 4:
		r, err = zlib.NewReader(bytes.NewReader(b))
	default:
		return nil, fmt.Errorf("unknown compression format %d", format)
	}
	if err != nil {
		return nil, err
	}
	defer r.Close()
	return io.ReadAll(r)
}

// decompressPartial returns whatever the decoder produced before it failed
func decompressPartial(format int, b []byte) ([]byte, error) {
	var r io.ReadCloser
	var err error
	switch format {
	case 1:
		r = flate.NewReader(bytes.NewReader(b))
	case 2:
		r, err = gzip.NewReader(bytes.NewReader(b))
	case 3:
		r = lzw.NewReader(bytes.NewReader(b), lzw.MSB, 8)
	case 4:
		r, err = zlib.NewReader(bytes.NewReader(b))
	}
	if err != nil || r == nil {
		return nil, err
	}
	defer r.Close()
	var buf bytes.Buffer
	_, err = buf.ReadFrom(io.LimitReader(r, 1<<22))
	return buf.Bytes(), err
}

// parseLayout walks the tx log from offset 0 and must reproduce the commit log exactly.
func parseLayout(dir string, cfg *cfgClass, ntx int) (*layout, error) {
	l := &layout{cfg: cfg, logs: map[string]*logFile{}}
	var err error
	if l.logs[rTx], err = loadLog(dir, rTx, "tx", cfg.FileSize); err != nil {
		return nil, err
	}
	if l.logs[rClog], err = loadLog(dir, rClog, "txi", cfg.FileSize); err != nil {
		return nil, err
	}
	if !cfg.Embedded {
		for i := 0; i < cfg.IOConc; i++ {
			if l.logs[rVal(i)], err = loadLog(dir, rVal(i), "val", cfg.FileSize); err != nil {
				return nil, err
			}
			l.logs[rVal(i)].compressed = cfg.Compression != 0
		}
	}
	add := func(region string, off int64, n int, field string, tx, entry int, val uint64) int {
		l.spans = append(l.spans, span{Region: region, Off: off, Len: n, Field: field, Tx: tx, Entry: entry, Val: val})
		return len(l.spans) - 1
	}
	cur := &cursor{lf: l.logs[rTx]}
	clog := l.logs[rClog]
	const clogEntry = 8 + 4 + 32
	if clog.size() != int64(ntx*clogEntry) {
		return nil, fmt.Errorf("commit log holds %d bytes, expected %d entries of %d", clog.size(), ntx, clogEntry)
	}
	u16 := func(field string, tx, e int) (int, error) {
		b, o, err := cur.take(2)
		if err != nil {
			return 0, err
		}
		v := int(binary.BigEndian.Uint16(b))
		add(rTx, o, 2, field, tx, e, uint64(v))
		return v, nil
	}
	for t := 1; t <= ntx; t++ {
		ti := txInfo{ID: t}
		var embOff int64
		var embTotal int
		if cfg.Embedded {
			b, o, err := cur.take(2)
			if err != nil {
				return nil, err
			}
			embTotal = int(binary.BigEndian.Uint16(b))
			add(rTx, o, 2, "embLen", t, -1, uint64(embTotal))
			embOff = cur.off
			cur.off += int64(embTotal)
		}
		ti.Off = cur.off
		// ---- header
		b, o, err := cur.take(8)
		if err != nil {
			return nil, err
		}
		id := binary.BigEndian.Uint64(b)
		add(rTx, o, 8, "id", t, -1, id)
		if int(id) != t {
			return nil, fmt.Errorf("tx %d: record at %d carries id %d", t, o, id)
		}
		b, o, _ = cur.take(8)
		ts := binary.BigEndian.Uint64(b)
		add(rTx, o, 8, "ts", t, -1, ts)
		b, o, _ = cur.take(8)
		blTxID := binary.BigEndian.Uint64(b)
		add(rTx, o, 8, "blTxID", t, -1, blTxID)
		blRoot, o, _ := cur.take(32)
		add(rTx, o, 32, "blRoot", t, -1, 0)
		prevAlh, o, err := cur.take(32)
		if err != nil {
			return nil, err
		}
		add(rTx, o, 32, "prevAlh", t, -1, 0)
		ver, err := u16("version", t, -1)
		if err != nil {
			return nil, err
		}
		ti.Version = ver
		var nentries int
		switch ver {
		case 0:
			if nentries, err = u16("nentries", t, -1); err != nil {
				return nil, err
			}
		case 1:
			mdLen, err := u16("hMdLen", t, -1)
			if err != nil {
				return nil, err
			}
			md, mo, err := cur.take(mdLen)
			if err != nil {
				return nil, err
			}
			ti.Md = md
			for i := 0; i < mdLen; {
				add(rTx, mo+int64(i), 1, "hMdCode", t, -1, uint64(md[i]))
				switch md[i] {
				case 0:
					add(rTx, mo+int64(i)+1, 8, "hMdTrunc", t, -1, binary.BigEndian.Uint64(md[i+1:]))
					i += 9
				case 1:
					el := int(binary.BigEndian.Uint16(md[i+1:]))
					add(rTx, mo+int64(i)+1, 2, "hMdExtraLen", t, -1, uint64(el))
					add(rTx, mo+int64(i)+3, el, "hMdExtra", t, -1, 0)
					i += 3 + el
				default:
					return nil, fmt.Errorf("tx %d: unknown tx metadata attribute %d", t, md[i])
				}
			}
			b, o, err := cur.take(4)
			if err != nil {
				return nil, err
			}
			nentries = int(binary.BigEndian.Uint32(b))
			add(rTx, o, 4, "nentries", t, -1, uint64(nentries))
		default:
			return nil, fmt.Errorf("tx %d: header version %d", t, ver)
		}
		// ---- entries
		digests := make([][32]byte, 0, nentries)
		for e := 0; e < nentries; e++ {
			var ei entryInfo
			mdLen, err := u16("eMdLen", t, e)
			if err != nil {
				return nil, err
			}
			md, mo, err := cur.take(mdLen)
			if err != nil {
				return nil, err
			}
			ei.Md = md
			for i := 0; i < mdLen; {
				add(rTx, mo+int64(i), 1, "eMdCode", t, e, uint64(md[i]))
				switch md[i] {
				case 0, 2:
					i++
				case 1:
					add(rTx, mo+int64(i)+1, 8, "eMdExp", t, e, binary.BigEndian.Uint64(md[i+1:]))
					i += 9
				default:
					return nil, fmt.Errorf("tx %d entry %d: unknown kv metadata attribute %d", t, e, md[i])
				}
			}
			kLen, err := u16("kLen", t, e)
			if err != nil {
				return nil, err
			}
			key, ko, err := cur.take(kLen)
			if err != nil {
				return nil, err
			}
			ei.Key = key
			add(rTx, ko, kLen, "key", t, e, 0)
			b, o, err := cur.take(4)
			if err != nil {
				return nil, err
			}
			ei.VLen = int(binary.BigEndian.Uint32(b))
			ei.vLenSpan = add(rTx, o, 4, "vLen", t, e, uint64(ei.VLen))
			b, o, _ = cur.take(8)
			ei.VOff = binary.BigEndian.Uint64(b)
			ei.vOffSpan = add(rTx, o, 8, "vOff", t, e, ei.VOff)
			hv, o, err := cur.take(32)
			if err != nil {
				return nil, err
			}
			copy(ei.HVal[:], hv)
			add(rTx, o, 32, "hVal", t, e, 0)
			// entry digest as specified (v0: key|hVal, v1: mdLen|md|kLen|key|hVal)
			var db []byte
			if ver == 0 {
				if mdLen != 0 {
					return nil, fmt.Errorf("tx %d entry %d: kv metadata in a version 0 tx", t, e)
				}
				db = append(append(db, key...), hv...)
			} else {
				var l2 [2]byte
				binary.BigEndian.PutUint16(l2[:], uint16(mdLen))
				db = append(db, l2[:]...)
				db = append(db, md...)
				binary.BigEndian.PutUint16(l2[:], uint16(kLen))
				db = append(db, l2[:]...)
				db = append(append(db, key...), hv...)
			}
			digests = append(digests, sha256.Sum256(db))
			// ---- the value
			if ei.VLen > 0 {
				vlogID := int(ei.VOff >> 56)
				voff := int64(ei.VOff & ((1 << 55) - 1))
				switch {
				case cfg.Embedded:
					if vlogID != 0 || voff < embOff || voff+int64(ei.VLen) > embOff+int64(embTotal) {
						return nil, fmt.Errorf("tx %d entry %d: embedded value [%d,+%d) outside the prefix area [%d,+%d)", t, e, voff, ei.VLen, embOff, embTotal)
					}
					v, err := l.logs[rTx].read(voff, ei.VLen)
					if err != nil {
						return nil, err
					}
					ei.Value = v
					add(rTx, voff, ei.VLen, "valEmb", t, e, 0)
				case cfg.Compression == 0:
					lf := l.logs[rVal(vlogID-1)]
					if lf == nil {
						return nil, fmt.Errorf("tx %d entry %d: value log id %d", t, e, vlogID)
					}
					v, err := lf.read(voff, ei.VLen)
					if err != nil {
						return nil, fmt.Errorf("tx %d entry %d: value: %v", t, e, err)
					}
					ei.Value = v
					add(rVal(vlogID-1), voff, ei.VLen, "val", t, e, 0)
				default:
					lf := l.logs[rVal(vlogID-1)]
					if lf == nil {
						return nil, fmt.Errorf("tx %d entry %d: value log id %d", t, e, vlogID)
					}
					sv := lf.synth(voff)
					cl, err := lf.readInChunk(sv, 4)
					if err != nil {
						return nil, err
					}
					clen := int(binary.BigEndian.Uint32(cl))
					cb, err := lf.readInChunk(sv+4, clen)
					if err != nil {
						return nil, err
					}
					v, err := decompress(cfg.Compression, cb)
					if err != nil {
						return nil, fmt.Errorf("tx %d entry %d: decompress: %v", t, e, err)
					}
					if len(v) != ei.VLen {
						return nil, fmt.Errorf("tx %d entry %d: decompressed %d bytes, vLen %d", t, e, len(v), ei.VLen)
					}
					ei.Value = v
					i1 := add(rVal(vlogID-1), sv, 4, "valCLen", t, e, uint64(clen))
					i2 := add(rVal(vlogID-1), sv+4, clen, "valComp", t, e, 0)
					l.spans[i1].inChunk, l.spans[i2].inChunk = true, true
				}
				if sha256.Sum256(ei.Value) != ei.HVal {
					return nil, fmt.Errorf("tx %d entry %d: parser's value does not hash to hVal", t, e)
				}
			} else {
				ei.Value = []byte{}
				if sha256.Sum256(nil) != ei.HVal {
					return nil, fmt.Errorf("tx %d entry %d: empty value, hVal is not sha256 of nothing", t, e)
				}
			}
			ti.Entries = append(ti.Entries, ei)
		}
		alh, ao, err := cur.take(32)
		if err != nil {
			return nil, err
		}
		add(rTx, ao, 32, "alh", t, -1, 0)
		copy(ti.Alh[:], alh)
		ti.Size = int(cur.off - ti.Off)
		// ---- own re-computation of Eh and Alh (validates the field map)
		eh := merkleRoot(digests)
		var inner []byte
		var b8 [8]byte
		binary.BigEndian.PutUint64(b8[:], ts)
		inner = append(inner, b8[:]...)
		inner = append(inner, byte(ver>>8), byte(ver))
		if ver == 0 {
			inner = append(inner, byte(nentries>>8), byte(nentries))
		} else {
			inner = append(inner, byte(len(ti.Md)>>8), byte(len(ti.Md)))
			inner = append(inner, ti.Md...)
			var b4 [4]byte
			binary.BigEndian.PutUint32(b4[:], uint32(nentries))
			inner = append(inner, b4[:]...)
		}
		inner = append(inner, eh[:]...)
		binary.BigEndian.PutUint64(b8[:], blTxID)
		inner = append(inner, b8[:]...)
		inner = append(inner, blRoot...)
		ih := sha256.Sum256(inner)
		var outer []byte
		binary.BigEndian.PutUint64(b8[:], id)
		outer = append(outer, b8[:]...)
		outer = append(outer, prevAlh...)
		outer = append(outer, ih[:]...)
		if sha256.Sum256(outer) != ti.Alh {
			return nil, fmt.Errorf("tx %d: parser's recomputed Alh differs from the stored one (field map wrong)", t)
		}
		if t > 1 && !bytes.Equal(prevAlh, l.txs[t-2].Alh[:]) {
			return nil, fmt.Errorf("tx %d: prevAlh is not the Alh of tx %d", t, t-1)
		}
		// ---- the commit-log entry must give the same boundaries
		ce, err := clog.read(int64(t-1)*clogEntry, clogEntry)
		if err != nil {
			return nil, err
		}
		cOff := binary.BigEndian.Uint64(ce)
		cSize := binary.BigEndian.Uint32(ce[8:])
		if int64(cOff) != ti.Off || int(cSize) != ti.Size {
			return nil, fmt.Errorf("tx %d: parser found record [%d,+%d), commit log says [%d,+%d)", t, ti.Off, ti.Size, cOff, cSize)
		}
		if !bytes.Equal(ce[12:], ti.Alh[:]) {
			return nil, fmt.Errorf("tx %d: commit-log alh differs from the record's", t)
		}
		ti.clogSpan[0] = add(rClog, int64(t-1)*clogEntry, 8, "cTxOff", t, -1, cOff)
		ti.clogSpan[1] = add(rClog, int64(t-1)*clogEntry+8, 4, "cTxSize", t, -1, uint64(cSize))
		ti.clogSpan[2] = add(rClog, int64(t-1)*clogEntry+12, 32, "cAlh", t, -1, 0)
		l.txs = append(l.txs, ti)
	}
	if cur.off != l.logs[rTx].size() {
		return nil, fmt.Errorf("tx log holds %d bytes, parser consumed %d", l.logs[rTx].size(), cur.off)
	}
	// spans must not overlap and, in the tx log and the commit log, must cover every byte
	for _, region := range []string{rTx, rClog} {
		var ss []span
		for _, s := range l.spans {
			if s.Region == region && s.Len > 0 {
				ss = append(ss, s)
			}
		}
		sort.Slice(ss, func(i, j int) bool { return ss[i].Off < ss[j].Off })
		pos := int64(0)
		for _, s := range ss {
			if s.Off != pos {
				return nil, fmt.Errorf("%s: field map has a gap or overlap at %d (next span %s at %d)", region, pos, s.Field, s.Off)
			}
			pos += int64(s.Len)
		}
		if pos != l.logs[region].size() {
			return nil, fmt.Errorf("%s: field map covers %d of %d bytes", region, pos, l.logs[region].size())
		}
	}
	return l, nil
}

// merkleRoot: RFC 6962-style tree as used by htree (leaf prefix 0, node prefix 1), split at the
// largest power of two smaller than n.
func merkleRoot(ds [][32]byte) [32]byte {
	if len(ds) == 0 {
		return sha256.Sum256(nil)
	}
	var rec func(lo, hi int) [32]byte
	rec = func(lo, hi int) [32]byte {
		if lo == hi {
			return sha256.Sum256(append([]byte{0}, ds[lo][:]...))
		}
		n := hi - lo + 1
		k := 1
		for k*2 < n {
			k *= 2
		}
		l := rec(lo, lo+k-1)
		r := rec(lo+k, hi)
		b := append([]byte{1}, l[:]...)
		b = append(b, r[:]...)
		return sha256.Sum256(b)
	}
	return rec(0, len(ds)-1)
}

// physical location of byte i of a span
func (l *layout) physOf(s *span, i int) (string, int64, error) {
	return l.logs[s.Region].phys(s.Off + int64(i))
}
