// seq.go: replays the read SEQUENCES of spec/CorruptionSeq.tla on real stores: one process, a value cache
// (VLogCacheSize 0 / 1 / 64), a tx holder shared by the whole sequence, checked and unchecked reads of two values
// A and B, and the bytes on disk altered in place (while the store is open) before one of the steps.  Every
// CHECKED read must fail or return exactly what it returns on the unaltered store; unchecked reads
// (ExportTx with skipIntegrityCheck) are outside the property and only fill the cache.
package main

import (
	"context"
	"encoding/hex"
	"fmt"
	"math/rand"
	"os"
	"path/filepath"
	"sort"
	"strings"
	"sync"
	"sync/atomic"
	"time"

	"github.com/codenotary/immudb/embedded/store"

	"verifharness/vh"
)

type seqCase struct {
	Seq   [][2]string `json:"seq"`
	Place int         `json:"place"`
	Kind  string      `json:"kind"`
	Mode  string      `json:"mode"`
	Exp   []string    `json:"exp"`
}

type seqFile struct {
	Seed  int       `json:"seed"`
	Cases []seqCase `json:"cases"`
}

var cacheSizes = map[string]int{"off": 0, "small": 1, "large": 64}

const (
	seqTxA = 3 // single-entry tx: k1a rewritten with a 120-byte value
	seqTxB = 5 // single-entry tx: k5a, 64 bytes
)

func storeOptsCache(c *cfgClass, lg *capLogger, vlogCache int) *store.Options {
	return storeOpts(c, lg).WithVLogCacheSize(vlogCache)
}

type seqStep struct {
	Op      string `json:"op"`
	Err     string `json:"err,omitempty"`
	Content string `json:"content,omitempty"`
	Panic   string `json:"panic,omitempty"`
	Hung    bool   `json:"hung,omitempty"`
	Site    string `json:"site,omitempty"`
}

type seqRunner struct {
	st     *store.ImmuStore
	lay    *layout
	holder *store.Tx // shared by every read of the sequence (as a pooled holder would be)
}

func (r *seqRunner) txOf(v string) int {
	if v == "A" {
		return seqTxA
	}
	return seqTxB
}

// do executes one read and projects what it returned
func (r *seqRunner) do(op [2]string) seqStep {
	t := r.txOf(op[1])
	key := r.lay.txs[t-1].Entries[0].Key
	name := op[0] + "(" + op[1] + ")"
	it := call("seq:"+op[0], t, name, func() callResult {
		switch op[0] {
		case "RV":
			if err := r.st.ReadTx(uint64(t), false, r.holder); err != nil {
				return callResult{err: err}
			}
			c, _ := txProj(r.holder)
			v, err := r.st.ReadValue(r.holder.Entries()[0])
			if err != nil {
				return callResult{err: err}
			}
			return callResult{content: c + fmt.Sprintf(" value=%x", v)}
		case "RVE":
			e, h, err := r.st.ReadTxEntry(uint64(t), key, false)
			if err != nil {
				return callResult{err: err}
			}
			c, _ := entryProj(e)
			v, err := r.st.ReadValue(e)
			if err != nil {
				return callResult{err: err}
			}
			return callResult{content: hdrProj(h) + ";" + c + fmt.Sprintf(" value=%x", v)}
		case "EXc", "EXs":
			b, err := r.st.ExportTx(uint64(t), false, op[0] == "EXs", r.holder)
			if err != nil {
				return callResult{err: err}
			}
			return callResult{content: hex.EncodeToString(b)}
		case "GET":
			ref, err := r.st.GetWithFilters(context.Background(), key)
			if err != nil {
				return callResult{err: err}
			}
			hv := ref.HVal()
			v, err := ref.Resolve()
			if err != nil {
				return callResult{err: err}
			}
			return callResult{content: fmt.Sprintf("tx=%d hc=%d kvmd=%s txmd=%s hVal=%x value=%x", ref.Tx(), ref.HC(), kvmdHex(ref.KVMetadata()), mdHex(ref.TxMetadata()), hv, v)}
		}
		return callResult{err: fmt.Errorf("unknown op %s", op[0])}
	})
	return seqStep{Op: name, Err: it.Err, Content: it.Content, Panic: it.Panic, Hung: it.Hung, Site: it.Site}
}

// flipInPlace alters the private copy of a file while the store has it open
func flipInPlace(img string, ps []patch) {
	for _, p := range ps {
		f, err := os.OpenFile(filepath.Join(img, p.File), os.O_RDWR, 0)
		vh.Must(err, "open for in-place flip")
		var b [1]byte
		_, err = f.ReadAt(b[:], p.FOff)
		vh.Must(err, "read byte")
		b[0] ^= p.Mask
		_, err = f.WriteAt(b[:], p.FOff)
		vh.Must(err, "write byte")
		vh.Must(f.Close(), "close")
	}
}

// privatize replaces the hard links of the files that will be altered by unaltered private copies
func privatize(src, img string, ps []patch) {
	done := map[string]bool{}
	for _, p := range ps {
		if done[p.File] {
			continue
		}
		done[p.File] = true
		b, err := os.ReadFile(filepath.Join(src, p.File))
		vh.Must(err, "read "+p.File)
		vh.Must(os.Remove(filepath.Join(img, p.File)), "unlink "+p.File)
		vh.Must(os.WriteFile(filepath.Join(img, p.File), b, 0644), "write "+p.File)
	}
}

type seqClassCtx struct {
	cfg      *cfgClass
	dir      string
	lay      *layout
	pristine map[string]string // op name -> content on the unaltered store
	valPts   [][]patch         // candidate alterations of A's value bytes (each decodes to other bytes)
	recPts   [][]patch         // candidate alterations of a digest-covered byte of tA's record (the key)
}

func prepareSeqClass(sdir string, c *cfgClass, seed int64, rng *rand.Rand) *seqClassCtx {
	was := quickWorkload
	quickWorkload = false // the sequences need the two single-entry txs of the full workload
	defer func() { quickWorkload = was }()
	pdir := filepath.Join(sdir, "pristine")
	vh.Must(os.MkdirAll(sdir, 0755), "mkdir")
	ntx := buildStore(pdir, c, seed)
	lay, err := parseLayout(pdir, c, ntx)
	if err != nil {
		vh.Fatalf("%s (sequences): the independent parser does not reproduce the store: %v", c.Name, err)
	}
	if len(lay.txs[seqTxA-1].Entries) != 1 || len(lay.txs[seqTxB-1].Entries) != 1 {
		vh.Fatalf("sequence replay expects single-entry txs %d and %d", seqTxA, seqTxB)
	}
	sc := &seqClassCtx{cfg: c, dir: pdir, lay: lay, pristine: map[string]string{}}
	// alteration points
	for si := range lay.spans {
		s := &lay.spans[si]
		if s.Tx != seqTxA || s.Len == 0 {
			continue
		}
		switch s.Field {
		case "val", "valEmb", "valComp":
			old := lay.spanBytes(s)
			for bit := 0; bit < s.Len*8; bit++ {
				if s.Field == "valComp" {
					nb := append([]byte{}, old...)
					nb[bit/8] ^= 1 << uint(bit%8)
					if classify(lay, s, old, nb) != "decDiff" {
						continue // padding / end-of-stream bytes decode to the same value; short decodes are EOF
					}
				}
				sc.valPts = append(sc.valPts, []patch{lay.mkPatch(s, bit/8, 1<<uint(bit%8))})
			}
		case "key":
			for bit := 0; bit < s.Len*8; bit++ {
				sc.recPts = append(sc.recPts, []patch{lay.mkPatch(s, bit/8, 1<<uint(bit%8))})
			}
		}
	}
	if len(sc.valPts) == 0 || len(sc.recPts) == 0 {
		vh.Fatalf("%s: no alteration points for the sequences", c.Name)
	}
	rng.Shuffle(len(sc.valPts), func(i, j int) { sc.valPts[i], sc.valPts[j] = sc.valPts[j], sc.valPts[i] })
	rng.Shuffle(len(sc.recPts), func(i, j int) { sc.recPts[i], sc.recPts[j] = sc.recPts[j], sc.recPts[i] })
	// what every read returns on the unaltered store (cache on, each read twice: a hit must equal a miss)
	img := filepath.Join(sdir, "seq-pristine")
	makeImage(pdir, img, nil, false)
	st, err := store.Open(img, storeOptsCache(c, newCapLogger(), 64))
	vh.Must(err, "open pristine image")
	r := &seqRunner{st: st, lay: lay, holder: store.NewTx(maxTxEntries, maxKeyLen)}
	for round := 0; round < 2; round++ {
		for _, v := range []string{"A", "B"} {
			for _, o := range []string{"RV", "RVE", "EXc", "EXs", "GET"} {
				s := r.do([2]string{o, v})
				if s.Err != "" || s.Panic != "" || s.Hung {
					vh.Fatalf("%s: pristine %s failed: %+v", c.Name, s.Op, s)
				}
				if prev, ok := sc.pristine[s.Op]; ok && prev != s.Content {
					vh.Fatalf("%s: pristine %s returns different content on the second (cached) read", c.Name, s.Op)
				}
				sc.pristine[s.Op] = s.Content
			}
		}
	}
	vh.Must(st.Close(), "close pristine image")
	os.RemoveAll(img)
	// (the unchecked export differs from the checked one even on a pristine store: with skipIntegrityCheck the
	// header's Eh is never computed and is exported as zeros; unchecked reads are not judged)
	return sc
}

type seqOutcome struct {
	steps    []seqStep
	observed []string // orig | error | unjudged | ALTERED | panic | hang
}

func (sc *seqClassCtx) runCase(cs *seqCase, ps []patch, img string) seqOutcome {
	privatize(sc.dir, img, ps)
	defer restorePatches(sc.dir, img, ps)
	var out seqOutcome
	st, err := store.Open(img, storeOptsCache(sc.cfg, newCapLogger(), cacheSizes[cs.Mode]))
	vh.Must(err, "open image for a read sequence (nothing is altered yet)")
	r := &seqRunner{st: st, lay: sc.lay, holder: store.NewTx(maxTxEntries, maxKeyLen)}
	abandoned := false
	for i, op := range cs.Seq {
		if i == cs.Place {
			flipInPlace(img, ps)
		}
		s := r.do(op)
		out.steps = append(out.steps, s)
		o := "orig"
		switch {
		case s.Hung:
			o = "hang"
		case s.Panic != "":
			o = "panic"
		case op[0] == "EXs":
			o = "unjudged"
		case s.Err != "":
			o = "error"
		case s.Content != sc.pristine[s.Op]:
			o = "ALTERED"
		}
		out.observed = append(out.observed, o)
		if s.Hung {
			abandoned = true
			break
		}
	}
	if !abandoned {
		call("Close", 0, "close", func() callResult { return callResult{err: st.Close()} })
	}
	return out
}

// relation of step i to the earlier steps (for signatures and vacuity counters)
func relation(cs *seqCase, observed []string, i int) string {
	op := cs.Seq[i]
	rel := "first-read-of-the-value"
	for j := 0; j < i; j++ {
		if cs.Seq[j][1] != op[1] {
			continue
		}
		switch {
		case cs.Seq[j][0] == "EXs" && j >= cs.Place:
			return "checked-after-unchecked"
		case observed[j] == "error":
			rel = "second-read-after-failed-first"
		case rel == "first-read-of-the-value":
			rel = "after-good-read"
		}
	}
	return rel
}

func runSeq(casesPath, dir string, seed int64, quick bool, workers int, budget float64, only string) {
	var sf seqFile
	vh.ReadJSON(casesPath, &sf)
	res := vh.NewResult()
	t0 := time.Now()
	var evals atomic.Int64
	distinct := map[string]bool{}
	var dmu sync.Mutex
	timing := map[string]float64{}
	names := []string{"plain-v1", "flate-v1", "embedded-v1", "chunks-2vlogs-v1"}
	if !quick {
		names = append(names, "embedded-chunks-v1", "zlib-chunks-v0", "lzw-2vlogs-v1", "plain-v0")
	}
	pointsPerCase := 1
	if !quick {
		pointsPerCase = 4
	}
	for ci, name := range names {
		var c *cfgClass
		for i := range classes {
			if classes[i].Name == name {
				c = &classes[i]
			}
		}
		if c == nil || (only != "" && only != name) {
			continue
		}
		ts := time.Now()
		rng := rand.New(rand.NewSource(seed*7919 + int64(ci)))
		sdir := filepath.Join(dir, "seq-"+c.Name)
		sc := prepareSeqClass(sdir, c, seed, rng)
		digest := dirDigest(sc.dir)
		order := rng.Perm(len(sf.Cases))
		// cases with the alteration relations the property is about come first inside the time box
		sort.SliceStable(order, func(a, b int) bool { return len(sf.Cases[order[a]].Seq) < len(sf.Cases[order[b]].Seq) })
		jobs := make(chan [2]int)
		var wg sync.WaitGroup
		var imgs []string
		for wk := 0; wk < workers; wk++ {
			img := filepath.Join(sdir, fmt.Sprintf("w%d", wk))
			makeImage(sc.dir, img, nil, false)
			imgs = append(imgs, img)
			wg.Add(1)
			go func() {
				defer wg.Done()
				for job := range jobs {
					cs := &sf.Cases[job[0]]
					pts := sc.valPts
					if cs.Kind == "rec" {
						pts = sc.recPts
					}
					ps := pts[(job[0]*pointsPerCase+job[1])%len(pts)]
					o := sc.runCase(cs, ps, img)
					res.Count("seq-cases:"+c.Name, 1)
					for i := range o.observed {
						op := cs.Seq[i]
						obs := o.observed[i]
						evals.Add(1)
						rel := relation(cs, o.observed, i)
						res.Count("seq-obs:"+op[0]+":"+obs, 1)
						dmu.Lock()
						distinct[c.Model+"|"+cs.Mode+"|"+cs.Kind+"|"+op[0]+op[1]+"|"+rel+"|"+obs] = true
						dmu.Unlock()
						altered := i >= cs.Place && op[1] == "A"
						if op[0] != "EXs" && altered {
							res.Count("seq-checked-read:"+rel, 1)
							if cs.Mode != "off" {
								res.Count("seq-checked-read-cache-on:"+rel, 1)
							}
							if obs == "orig" && cs.Kind == "val" {
								// the file is altered and a checked read returns the original: only a cache can do that
								if cs.Mode == "off" {
									res.Count("seq-orig-from-altered-file-without-cache", 1)
								} else {
									res.Count("seq-cache-hit-observed", 1)
								}
							}
						}
						replay := map[string]interface{}{"class": c.Name, "seed": seed, "seqcase": cs, "patches": ps, "steps": o.steps, "observed": o.observed}
						switch obs {
						case "ALTERED":
							sig := "altered-content-served:read-sequence:" + op[0] + ":" + rel
							res.Violate(sig, fmt.Sprintf("%s, cache %s, %s of A altered in place before step %d of %s: step %d %s(%s) [%s] returned content that differs from the unaltered store without an error (model expects %s): %s",
								c.Name, cs.Mode, cs.Kind, cs.Place+1, seqString(cs), i+1, op[0], op[1], rel, cs.Exp[i], firstDiff(sc.pristine[o.steps[i].Op], o.steps[i].Content)), replay)
						case "panic", "hang":
							if op[0] == "EXs" {
								res.Count("seq-unchecked-read-"+obs, 1) // outside the property
								continue
							}
							sig := obs + ":" + o.steps[i].Site
							if obs == "hang" {
								sig = "hang:seq:" + op[0] + ":" + o.steps[i].Site
							}
							res.Violate(sig, fmt.Sprintf("%s, cache %s, sequence %s, step %d: %s", c.Name, cs.Mode, seqString(cs), i+1, obs), replay)
						default:
							if obs != cs.Exp[i] {
								res.Count("seq-drift-safe", 1)
								res.DriftNote(fmt.Sprintf("sequence model says %s, real code %s: %s cache %s %s place %d %s step %d", cs.Exp[i], obs, c.Name, cs.Mode, cs.Kind, cs.Place, seqString(cs), i+1))
							}
						}
					}
					if job[0]%97 == 0 {
						res.Sample(map[string]interface{}{"class": c.Name, "sequence": seqString(cs), "cache": cs.Mode, "kind": cs.Kind, "place": cs.Place, "expected": cs.Exp, "observed": o.observed}, 6)
					}
				}
			}()
		}
	feed:
		for n, idx := range order {
			for k := 0; k < pointsPerCase; k++ {
				if budget > 0 && time.Since(ts).Seconds() > budget {
					res.Count("seq-cases-not-executed-time-budget:"+c.Name, (len(order)-n)*pointsPerCase)
					break feed
				}
				jobs <- [2]int{idx, k}
			}
		}
		close(jobs)
		wg.Wait()
		if dirDigest(sc.dir) != digest {
			vh.Fatalf("%s: the pristine directory of the sequence replay changed", c.Name)
		}
		for _, img := range imgs {
			if dirDigest(img) != digest {
				vh.Fatalf("%s: a sequence image differs from the pristine store after its alteration was undone", c.Name)
			}
		}
		os.RemoveAll(sdir)
		timing["seq-"+c.Name] = time.Since(ts).Seconds()
	}
	res.Evaluations = int(evals.Load())
	res.Distinct = len(distinct)
	res.Extra["seq_timing_s"] = timing
	res.Extra["seq_wall_s"] = time.Since(t0).Seconds()
	res.Extra["seq_late_finishes"] = lateFinishes.Load()
	res.Emit()
}

func seqString(cs *seqCase) string {
	var ss []string
	for _, o := range cs.Seq {
		ss = append(ss, o[0]+"("+o[1]+")")
	}
	return strings.Join(ss, ";")
}

// firstDiff shows where two projections start to differ
func firstDiff(a, b string) string {
	i := 0
	for i < len(a) && i < len(b) && a[i] == b[i] {
		i++
	}
	lo := i - 40
	if lo < 0 {
		lo = 0
	}
	cut := func(x string) string {
		hi := i + 40
		if hi > len(x) {
			hi = len(x)
		}
		return x[lo:hi]
	}
	return fmt.Sprintf("first difference at character %d: pristine ...%s... got ...%s...", i, cut(a), cut(b))
}
