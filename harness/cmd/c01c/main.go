// c01c replays the cases of spec/ClientFlow.tla on the real Go client (pkg/client) talking to a real
// in-process immudb server: the alterations TLC enumerated are applied to the real Verifiable* responses
// (between server and client), the client's own VerifiedGet / VerifiedGetAt / VerifiedTxByID decide, and
// the oracle compares what the client handed back and the state it moved to with what the database holds.
package main

import (
	"bytes"
	"context"
	"crypto/sha256"
	"encoding/binary"
	"flag"
	"fmt"
	"io"
	"os"
	"path/filepath"
	"sort"
	"strings"
	"sync"

	"github.com/codenotary/immudb/embedded/htree"
	"github.com/codenotary/immudb/embedded/sql"
	"github.com/codenotary/immudb/embedded/store"
	"github.com/codenotary/immudb/pkg/api/schema"
	ic "github.com/codenotary/immudb/pkg/client"
	"github.com/codenotary/immudb/pkg/database"
	"github.com/codenotary/immudb/pkg/server"
	"github.com/codenotary/immudb/pkg/server/servertest"
	"github.com/codenotary/immudb/pkg/stream"
	"google.golang.org/grpc"
	"google.golang.org/protobuf/proto"

	"verifharness/vh"
)

type tcase struct {
	Op      string   `json:"op"`
	Rel     string   `json:"rel"`
	Muts    []string `json:"muts"`
	Accept  bool     `json:"accept"`
	Harmful bool     `json:"harmful"`
}

type casesFile struct {
	K     int     `json:"K"`
	Cases []tcase `json:"cases"`
}

// memState is the client's trusted state, set by the driver before each case
type memState struct {
	mu sync.Mutex
	st *schema.ImmutableState
}

func (m *memState) GetState(ctx context.Context, db string) (*schema.ImmutableState, error) {
	return proto.Clone(m.st).(*schema.ImmutableState), nil
}
func (m *memState) SetState(db string, state *schema.ImmutableState) error {
	m.st = proto.Clone(state).(*schema.ImmutableState)
	return nil
}
func (m *memState) CacheLock() error         { m.mu.Lock(); return nil }
func (m *memState) CacheUnlock() error       { m.mu.Unlock(); return nil }
func (m *memState) SetServerIdentity(string) {}

// tamper sits between the client and the server
type tamper struct {
	schema.ImmuServiceClient
	muts    map[string]bool
	reqKey  []byte
	proven  uint64
	lastSet *schema.TxHeader // the genuine header of the last VerifiableSet
	stream  bool
}

func flip(b []byte) []byte {
	c := append([]byte{}, b...)
	if len(c) == 0 {
		return []byte{1}
	}
	c[0] ^= 0x5a
	return c
}

func alterHdr(h *schema.TxHeader, pfx string, muts map[string]bool) {
	if muts[pfx+".id"] {
		h.Id += 7
	}
	if muts[pfx+".prev"] {
		h.PrevAlh = flip(h.PrevAlh)
	}
	if muts[pfx+".ts"] {
		h.Ts += 1000
	}
	if muts[pfx+".ver"] {
		h.Version = 1 - h.Version
	}
	if muts[pfx+".nent"] {
		h.Nentries++
	}
	if muts[pfx+".eh"] {
		h.EH = flip(h.EH)
	}
	if muts[pfx+".bl"] {
		h.BlTxId++
	}
	if muts[pfx+".blroot"] {
		h.BlRoot = flip(h.BlRoot)
	}
}

// inclRoot computes the root htree.VerifyInclusion would compute
func inclRoot(p *htree.InclusionProof, digest [sha256.Size]byte) ([]byte, bool) {
	if p == nil || p.Leaf < 0 || p.Leaf >= p.Width {
		return nil, false
	}
	leaf := [1 + sha256.Size]byte{htree.LeafPrefix}
	copy(leaf[1:], digest[:])
	calc := sha256.Sum256(leaf[:])
	i, r := p.Leaf, p.Width-1
	for _, t := range p.Terms {
		b := [1 + 2*sha256.Size]byte{htree.NodePrefix}
		if i%2 == 0 && i != r {
			copy(b[1:], calc[:])
			copy(b[1+sha256.Size:], t[:])
		} else {
			copy(b[1:], t[:])
			copy(b[1+sha256.Size:], calc[:])
		}
		calc = sha256.Sum256(b[:])
		i /= 2
		r /= 2
	}
	return calc[:], true
}

func (t *tamper) alterVTx(vtx *schema.VerifiableTx, ehC func(ver int32) []byte) {
	m := t.muts
	if len(m) == 0 {
		return
	}
	// transaction entries
	if m["te.drop"] && len(vtx.Tx.Entries) > 1 {
		vtx.Tx.Entries = vtx.Tx.Entries[:1]
	}
	if len(vtx.Tx.Entries) > 0 {
		e := vtx.Tx.Entries[0]
		if m["te1.key"] {
			e.Key = append(append([]byte{}, e.Key...), 'X')
		}
		if m["te1.md"] {
			e.Metadata = &schema.KVMetadata{NonIndexable: true}
		}
		if m["te1.hv"] {
			e.HValue = flip(e.HValue)
		}
	}
	alterHdr(vtx.Tx.Header, "txhdr", m)
	dp := vtx.DualProof
	var proven, other []*schema.TxHeader
	switch {
	case dp.SourceTxHeader.Id == dp.TargetTxHeader.Id:
		proven = []*schema.TxHeader{dp.SourceTxHeader, dp.TargetTxHeader}
	case dp.TargetTxHeader.Id == t.proven:
		proven, other = []*schema.TxHeader{dp.TargetTxHeader}, []*schema.TxHeader{dp.SourceTxHeader}
	default:
		proven, other = []*schema.TxHeader{dp.SourceTxHeader}, []*schema.TxHeader{dp.TargetTxHeader}
	}
	for _, h := range proven {
		alterHdr(h, "dpP", m)
	}
	for _, h := range other {
		alterHdr(h, "dpO", m)
	}
	if m["txhdr.ehC"] || m["dpP.ehC"] {
		if c := ehC(vtx.Tx.Header.Version); c != nil {
			if m["txhdr.ehC"] {
				vtx.Tx.Header.EH = c
			}
			if m["dpP.ehC"] {
				for _, h := range proven {
					h.EH = c
				}
			}
		}
	}
	if m["body"] {
		dp.TargetBlTxAlh = flip(dp.TargetBlTxAlh)
	}
}

// swapKey: the key whose honest answer is given instead of the requested one
func (t *tamper) swapKey(k []byte) []byte {
	if string(k) == "r1" {
		return []byte("r2")
	}
	return []byte("k2")
}

func (t *tamper) VerifiableGet(ctx context.Context, in *schema.VerifiableGetRequest, opts ...grpc.CallOption) (*schema.VerifiableEntry, error) {
	if t.muts["swap"] {
		in = proto.Clone(in).(*schema.VerifiableGetRequest)
		in.KeyRequest.Key = t.swapKey(in.KeyRequest.Key)
	}
	ve, err := t.ImmuServiceClient.VerifiableGet(ctx, in, opts...)
	if err != nil || len(t.muts) == 0 {
		return ve, err
	}
	t.alterVEntry(ve)
	return ve, nil
}

func (t *tamper) alterVEntry(ve *schema.VerifiableEntry) {
	m := t.muts
	if ref := ve.Entry.ReferencedBy; ref != nil {
		t.proven = ref.Tx
	} else {
		t.proven = ve.Entry.Tx
	}
	if m["e.key"] {
		ve.Entry.Key = []byte("kX")
	}
	if m["e.val"] {
		ve.Entry.Value = []byte("forged")
	}
	if m["e.md"] {
		ve.Entry.Metadata = &schema.KVMetadata{NonIndexable: true}
	}
	if m["e.tx"] {
		ve.Entry.Tx += 5
	}
	if ref := ve.Entry.ReferencedBy; ref != nil {
		if m["ref.key"] {
			ref.Key = []byte("kX")
		}
		if m["ref.tx"] {
			ref.Tx += 5
		}
		if m["ref.md"] {
			ref.Metadata = &schema.KVMetadata{NonIndexable: true}
		}
		if m["ref.atTx"] {
			ref.AtTx += 2
		}
	}
	if m["incl.leaf"] {
		ve.InclusionProof.Leaf = 1 - ve.InclusionProof.Leaf
	}
	if m["incl.sib"] && len(ve.InclusionProof.Terms) > 0 {
		ve.InclusionProof.Terms[0] = flip(ve.InclusionProof.Terms[0])
	}
	t.alterVTx(ve.VerifiableTx, func(ver int32) []byte {
		// the entries hash the client's own computation yields for the (forged) entry
		dig, err := store.EntrySpecDigestFor(int(ver))
		if err != nil {
			return nil
		}
		var e *store.EntrySpec
		if ref := ve.Entry.ReferencedBy; ref != nil {
			lk := t.reqKey
			if t.stream {
				lk = ref.Key // the streaming client encodes under the key it finds in the response
			}
			e = database.EncodeReference(lk, schema.KVMetadataFromProto(ref.Metadata), ve.Entry.Key, ref.AtTx)
		} else {
			e = database.EncodeEntrySpec(t.reqKey, schema.KVMetadataFromProto(ve.Entry.Metadata), ve.Entry.Value)
		}
		root, ok := inclRoot(schema.InclusionProofFromProto(ve.InclusionProof), dig(e))
		if !ok {
			return nil
		}
		return root
	})
}

// ---- streaming variant: the tampering sits in the stream service factory (between the chunk receiver and the client)
type tamperFactory struct {
	stream.ServiceFactory
	t *tamper
}

type tamperVEntryReceiver struct {
	inner stream.VEntryStreamReceiver
	t     *tamper
}

func (f *tamperFactory) NewVEntryStreamReceiver(mr stream.MsgReceiver) stream.VEntryStreamReceiver {
	return &tamperVEntryReceiver{inner: f.ServiceFactory.NewVEntryStreamReceiver(mr), t: f.t}
}

func (r *tamperVEntryReceiver) Next() ([]byte, []byte, []byte, io.Reader, error) {
	eb, vb, ib, vr, err := r.inner.Next()
	if err != nil || len(r.t.muts) == 0 {
		return eb, vb, ib, vr, err
	}
	ve, err := stream.ParseVerifiableEntry(eb, vb, ib, vr, 4096)
	if err != nil {
		return nil, nil, nil, nil, err
	}
	r.t.alterVEntry(ve)
	val := ve.Entry.Value
	ve.Entry.Value = nil
	eb, _ = proto.Marshal(ve.Entry)
	vb, _ = proto.Marshal(ve.VerifiableTx)
	ib, _ = proto.Marshal(ve.InclusionProof)
	return eb, vb, ib, bytes.NewReader(val), nil
}

func (t *tamper) StreamVerifiableGet(ctx context.Context, in *schema.VerifiableGetRequest, opts ...grpc.CallOption) (schema.ImmuService_StreamVerifiableGetClient, error) {
	if t.muts["swap"] {
		in = proto.Clone(in).(*schema.VerifiableGetRequest)
		in.KeyRequest.Key = t.swapKey(in.KeyRequest.Key)
	}
	return t.ImmuServiceClient.StreamVerifiableGet(ctx, in, opts...)
}

// setIntCol rewrites the value of an INTEGER column inside an encoded row
func setIntCol(row []byte, col uint32, v uint64) []byte {
	out := append([]byte{}, row...)
	if len(out) < 4 {
		return out
	}
	n := int(binary.BigEndian.Uint32(out))
	off := 4
	for i := 0; i < n && off+8 <= len(out); i++ {
		id := binary.BigEndian.Uint32(out[off:])
		l := int(binary.BigEndian.Uint32(out[off+4:]))
		off += 8
		if id == col && l == 8 && off+8 <= len(out) {
			binary.BigEndian.PutUint64(out[off:], v)
		}
		off += l
	}
	return out
}

func (t *tamper) VerifiableSQLGet(ctx context.Context, in *schema.VerifiableSQLGetRequest, opts ...grpc.CallOption) (*schema.VerifiableSQLEntry, error) {
	ve, err := t.ImmuServiceClient.VerifiableSQLGet(ctx, in, opts...)
	if err != nil || len(t.muts) == 0 {
		return ve, err
	}
	m := t.muts
	t.proven = ve.SqlEntry.Tx
	// table t: claim about a, false value 5 (what b holds); table t2: claim about c, false value 2 (what b holds)
	tbl, claimCol, otherCol, falseVal := "t", "(t.a)", "(t.b)", uint64(5)
	if in.SqlGetRequest.Table == "t2" {
		tbl, claimCol, otherCol, falseVal = "t2", "(t2.c)", "(t2.b)", 2
	}
	if m["sql.val"] {
		ve.SqlEntry.Value = setIntCol(ve.SqlEntry.Value, ve.ColIdsByName[claimCol], falseVal)
	}
	if m["sql.tx"] {
		ve.SqlEntry.Tx += 5
	}
	if m["cat.db"] {
		ve.DatabaseId++
	}
	if m["cat.table"] {
		ve.TableId++
	}
	if m["cat.pkcol"] {
		if tbl == "t2" {
			ve.PKIDs[0], ve.PKIDs[1] = ve.PKIDs[1], ve.PKIDs[0]
		} else {
			ve.PKIDs[0] = ve.ColIdsByName["(t.a)"]
		}
	}
	if m["cat.colmap"] {
		ve.ColIdsByName[claimCol] = ve.ColIdsByName[otherCol]
	}
	if m["incl.leaf"] {
		ve.InclusionProof.Leaf = 1 - ve.InclusionProof.Leaf
	}
	t.alterVTx(ve.VerifiableTx, func(ver int32) []byte {
		dig, err := store.EntrySpecDigestFor(int(ver))
		if err != nil {
			return nil
		}
		// the key the client builds: every pk value encoded with the type / length of the column id found in PKIDs
		var pk []byte
		for i, pv := range in.SqlGetRequest.PkValues {
			if i >= len(ve.PKIDs) {
				return nil
			}
			enc, _, err := sql.EncodeRawValueAsKey(schema.RawValue(pv), ve.ColTypesById[ve.PKIDs[i]], int(ve.ColLenById[ve.PKIDs[i]]))
			if err != nil {
				return nil
			}
			pk = append(pk, enc...)
		}
		key := sql.MapKey([]byte{ic.SQLPrefix}, sql.RowPrefix, sql.EncodeID(ve.DatabaseId), sql.EncodeID(ve.TableId), sql.EncodeID(sql.PKIndexID), pk)
		root, ok := inclRoot(schema.InclusionProofFromProto(ve.InclusionProof), dig(&store.EntrySpec{Key: key, Value: ve.SqlEntry.Value}))
		if !ok {
			return nil
		}
		return root
	})
	return ve, nil
}

func (t *tamper) VerifiableTxById(ctx context.Context, in *schema.VerifiableTxRequest, opts ...grpc.CallOption) (*schema.VerifiableTx, error) {
	vtx, err := t.ImmuServiceClient.VerifiableTxById(ctx, in, opts...)
	if err != nil || len(t.muts) == 0 {
		return vtx, err
	}
	t.alterFromEntries(vtx)
	return vtx, nil
}

func (t *tamper) VerifiableSet(ctx context.Context, in *schema.VerifiableSetRequest, opts ...grpc.CallOption) (*schema.VerifiableTx, error) {
	vtx, err := t.ImmuServiceClient.VerifiableSet(ctx, in, opts...)
	if err != nil {
		return vtx, err
	}
	t.lastSet = proto.Clone(vtx.Tx.Header).(*schema.TxHeader)
	t.proven = vtx.Tx.Header.Id
	if len(t.muts) > 0 {
		t.alterFromEntries(vtx)
	}
	return vtx, nil
}

// alterFromEntries: the forger's entries hash is the one recomputed from the (altered) transaction entries
func (t *tamper) alterFromEntries(vtx *schema.VerifiableTx) {
	t.alterVTx(vtx, func(ver int32) (out []byte) {
		defer func() {
			if recover() != nil {
				out = nil
			}
		}()
		c := proto.Clone(vtx.Tx).(*schema.Tx)
		c.Header.Nentries = int32(len(c.Entries))
		tx := schema.TxFromProto(c)
		eh := tx.Header().Eh
		return eh[:]
	})
}

func hdrAlh(h *schema.TxHeader) []byte {
	a := schema.TxHeaderFromProto(h).Alh()
	return a[:]
}

func mutClass(muts []string) string {
	s := append([]string{}, muts...)
	sort.Strings(s)
	return strings.Join(s, "+")
}

func main() {
	casesPath := flag.String("cases", "", "ClientFlow cases (json)")
	dir := flag.String("dir", "", "scratch dir")
	flag.Parse()
	res := vh.NewResult()
	realStdout := os.Stdout
	os.Stdout = os.Stderr // the server prints its banner on stdout
	var cf casesFile
	vh.ReadJSON(*casesPath, &cf)
	os.RemoveAll(*dir)
	vh.Must(os.MkdirAll(*dir, 0755), "mkdir")

	opts := server.DefaultOptions().WithDir(filepath.Join(*dir, "srv")).WithLogfile(filepath.Join(*dir, "srv.log"))
	bs := servertest.NewBufconnServer(opts)
	vh.Must(bs.Start(), "server start")
	defer bs.Stop()
	cl, err := bs.NewAuthenticatedClient(ic.DefaultOptions().WithDir(filepath.Join(*dir, "cl")))
	vh.Must(err, "client")
	ctx := context.Background()
	defer cl.CloseSession(ctx)

	// the history of spec/ClientFlow.tla: tx 3 holds k1 and k2, tx 6 is the reference r1 -> k1, writes start at tx 9
	k1, k2, r1 := []byte("k1"), []byte("k2"), []byte("r1")
	sets := [][]*schema.KeyValue{
		{{Key: []byte("k0"), Value: []byte("a")}},
		{{Key: []byte("k9"), Value: []byte("b")}},
		{{Key: k1, Value: []byte("v3")}, {Key: k2, Value: []byte("w3")}},
		{{Key: []byte("k5"), Value: []byte("c")}},
		{{Key: []byte("k6"), Value: []byte("d")}},
		nil, // tx 6: the reference r1 -> k1
		nil, // tx 7: the reference r2 -> k2
		{{Key: []byte("k8"), Value: []byte("f")}},
	}
	for i, kvs := range sets {
		var h *schema.TxHeader
		var err error
		if kvs == nil && i == 5 {
			h, err = cl.SetReference(ctx, r1, k1)
		} else if kvs == nil {
			h, err = cl.SetReference(ctx, []byte("r2"), k2)
		} else {
			h, err = cl.SetAll(ctx, &schema.SetRequest{KVs: kvs})
		}
		vh.Must(err, "set")
		if h.Id != uint64(i+1) {
			vh.Fatalf("unexpected tx id %d", h.Id)
		}
	}
	// tx 9: table t, tx 10: the row (1, 100, 5), tx 11: one more transaction
	_, err = cl.SQLExec(ctx, "CREATE TABLE t(id INTEGER, a INTEGER, b INTEGER, PRIMARY KEY id)", nil)
	vh.Must(err, "create table")
	_, err = cl.SQLExec(ctx, "INSERT INTO t(id, a, b) VALUES (1, 100, 5)", nil)
	vh.Must(err, "insert")
	if h, err := cl.Set(ctx, []byte("k11"), []byte("g")); err != nil || h.Id != 11 {
		vh.Fatalf("unexpected history after the SQL statements: %v %v", h, err)
	}
	// tx 12: table t2 whose composite primary key (b, a) is not in declaration order, tx 13: the row ('x', 2, 7), tx 14
	_, err = cl.SQLExec(ctx, "CREATE TABLE t2(a VARCHAR[8], b INTEGER, c INTEGER, PRIMARY KEY (b, a))", nil)
	vh.Must(err, "create table t2")
	_, err = cl.SQLExec(ctx, "INSERT INTO t2(a, b, c) VALUES ('x', 2, 7)", nil)
	vh.Must(err, "insert t2")
	if h, err := cl.Set(ctx, []byte("k14"), []byte("h")); err != nil || h.Id != 14 {
		vh.Fatalf("unexpected history after the second table: %v %v", h, err)
	}
	inner := cl.GetServiceClient()
	alhOf := map[uint64][]byte{}
	alh := func(id uint64) []byte {
		if a, ok := alhOf[id]; ok {
			return a
		}
		tx, err := inner.TxById(ctx, &schema.TxRequest{Tx: id})
		if err != nil {
			return nil
		}
		alhOf[id] = hdrAlh(tx.Header)
		return alhOf[id]
	}
	honestTx, err := cl.TxByID(ctx, 3) // decoded the way the client decodes (key prefix trimmed)
	vh.Must(err, "txbyid")
	honestEntry, err := inner.Get(ctx, &schema.KeyRequest{Key: k1})
	vh.Must(err, "get")
	honestRef, err := inner.Get(ctx, &schema.KeyRequest{Key: r1})
	vh.Must(err, "get ref")
	if honestEntry.Tx != 3 || honestRef.ReferencedBy == nil || honestRef.ReferencedBy.Tx != 6 {
		vh.Fatalf("unexpected history: k1@%d r1:%v", honestEntry.Tx, honestRef.ReferencedBy)
	}

	ms := &memState{}
	tm := &tamper{ImmuServiceClient: inner}
	cl.WithStateService(ms)
	cl.WithServiceClient(tm)
	cl.WithStreamServiceFactory(&tamperFactory{ServiceFactory: stream.NewStreamServiceFactory(4096), t: tm})
	dbname := "defaultdb"

	provenOf := map[string]uint64{"get0": 3, "getAt": 3, "txbyid": 3, "getRef": 6, "sget0": 3, "sgetRef": 6, "vrowT": 10, "vrowF": 10, "vrow2T": 13, "vrow2F": 13}
	claim2 := func(c int64) *schema.Row {
		return &schema.Row{Columns: []string{"(t2.c)"}, Values: []*schema.SQLValue{{Value: &schema.SQLValue_N{N: c}}}}
	}
	pk2 := []*schema.SQLValue{{Value: &schema.SQLValue_N{N: 2}}, {Value: &schema.SQLValue_S{S: "x"}}}
	claim := func(a int64) *schema.Row {
		return &schema.Row{Columns: []string{"(t.a)"}, Values: []*schema.SQLValue{{Value: &schema.SQLValue_N{N: a}}}}
	}
	pk1 := []*schema.SQLValue{{Value: &schema.SQLValue_N{N: 1}}}
	seen := map[string]bool{}
	nset := 0
	for _, c := range cf.Cases {
		var T, P uint64
		if c.Op == "set" {
			T = 2
		} else {
			P = provenOf[c.Op]
			if P == 0 {
				vh.Fatalf("unknown op %q", c.Op)
			}
			switch c.Rel {
			case "newer":
				T = P - 1
			case "same":
				T = P
			case "older":
				T = P + 1
			default:
				vh.Fatalf("unknown rel %q", c.Rel)
			}
		}
		ms.st = &schema.ImmutableState{Db: dbname, TxId: T, TxHash: append([]byte{}, alh(T)...)}
		tm.muts = map[string]bool{}
		for _, m := range c.Muts {
			tm.muts[m] = true
		}
		tm.proven, tm.reqKey, tm.lastSet = P, k1, nil
		if c.Op == "getRef" || c.Op == "sgetRef" {
			tm.reqKey = r1
		}
		tm.stream = c.Op == "sget0" || c.Op == "sgetRef"
		var retEntry *schema.Entry
		var retTx *schema.Tx
		var retHdr *schema.TxHeader
		var err error
		panicked, hung, msg := vh.Guard(20e9, func() {
			switch c.Op {
			case "get0":
				retEntry, err = cl.VerifiedGet(ctx, k1)
			case "getAt":
				retEntry, err = cl.VerifiedGetAt(ctx, k1, P)
			case "getRef":
				retEntry, err = cl.VerifiedGet(ctx, r1)
			case "sget0":
				retEntry, err = cl.StreamVerifiedGet(ctx, &schema.VerifiableGetRequest{KeyRequest: &schema.KeyRequest{Key: k1}, ProveSinceTx: T})
			case "sgetRef":
				retEntry, err = cl.StreamVerifiedGet(ctx, &schema.VerifiableGetRequest{KeyRequest: &schema.KeyRequest{Key: r1}, ProveSinceTx: T})
			case "vrowT":
				err = cl.VerifyRow(ctx, claim(100), "t", pk1)
			case "vrowF":
				err = cl.VerifyRow(ctx, claim(5), "t", pk1)
			case "vrow2T":
				err = cl.VerifyRow(ctx, claim2(7), "t2", pk2)
			case "vrow2F":
				err = cl.VerifyRow(ctx, claim2(2), "t2", pk2)
			case "txbyid":
				retTx, err = cl.VerifiedTxByID(ctx, P)
			case "set":
				nset++
				retHdr, err = cl.VerifiedSet(ctx, []byte("ks"), []byte(fmt.Sprintf("vnew%d", nset)))
			}
		})
		if c.Op == "set" {
			if tm.lastSet == nil {
				vh.Fatalf("VerifiedSet did not reach the server: %v", err)
			}
			P = tm.lastSet.Id
		}
		res.Evaluations++
		res.Count("op:"+c.Op, 1)
		key := c.Op + "|" + c.Rel + "|" + mutClass(c.Muts)
		if !seen[key] {
			seen[key] = true
			res.Distinct++
		}
		if hung {
			vh.Fatalf("client call hung: %s %v", c.Op, c.Muts)
		}
		if panicked {
			// a malformed response crashing the client is C16's business; here it is simply not an acceptance
			res.Count("client-panic", 1)
			res.Sample(map[string]interface{}{"panic": strings.SplitN(msg, "\n", 2)[0], "case": c}, 5)
			continue
		}
		accepted := err == nil
		st := ms.st
		replay := map[string]interface{}{"op": c.Op, "rel": c.Rel, "trusted_tx": T, "proven_tx": P, "alterations": c.Muts,
			"how": "harness/cmd/c01c: bufconn server, history of 8 txs (tx 3 = {k1,k2}, tx 6 = reference r1->k1, tx 7 = reference r2->k2; swap = the honest answer for k2 / r2), client state set to the trusted tx, response altered between server and client"}
		if len(c.Muts) == 0 && (c.Op == "vrowF" || c.Op == "vrow2F") {
			if accepted {
				res.Violate("client:"+c.Op+":false-claim-verified-on-honest-response", "VerifyRow accepted a false claim on the honest response", replay)
			}
			continue
		}
		if len(c.Muts) == 0 && !accepted {
			res.Violate("client:"+c.Op+":honest-response-rejected", fmt.Sprintf("%s(%s): honest response rejected: %v", c.Op, c.Rel, err), replay)
			continue
		}
		if !accepted {
			res.Count("rejected", 1)
			if st.TxId != T || !bytes.Equal(st.TxHash, alh(T)) {
				res.Violate("client:"+c.Op+":state-moved-on-rejected-response", fmt.Sprintf("%s(%s) %v rejected (%v) but the trusted state moved to %d", c.Op, c.Rel, c.Muts, err, st.TxId), replay)
			}
			if c.Accept {
				res.DriftNote(fmt.Sprintf("ClientFlow accepts, the client rejects: %s %s %v: %v", c.Op, c.Rel, c.Muts, err))
			}
			continue
		}
		res.Count("accepted", 1)
		if len(c.Muts) > 0 {
			res.Count("accepted-altered", 1)
		}
		// what is wrong with what the client handed back (kinds) and how (text)
		var kinds, harm []string
		bad := func(kind, format string, a ...interface{}) {
			kinds = append(kinds, kind)
			harm = append(harm, fmt.Sprintf(format, a...))
		}
		if want := alh(st.TxId); want == nil || !bytes.Equal(st.TxHash, want) {
			bad("state", "new state (%d,%x) is not in the history", st.TxId, st.TxHash[:4])
		} else if st.TxId < T {
			bad("state", "state went back")
		}
		cmpEntry := func(h *schema.Entry) {
			if !bytes.Equal(retEntry.Key, h.Key) {
				bad("key", "returned key %q, history has %q", retEntry.Key, h.Key)
			}
			if !bytes.Equal(retEntry.Value, h.Value) {
				bad("value", "returned value %q, history has %q", retEntry.Value, h.Value)
			}
			if !proto.Equal(retEntry.Metadata, h.Metadata) {
				bad("metadata", "returned metadata differs from the history")
			}
			if retEntry.Tx != h.Tx {
				bad("tx", "returned tx id %d, history has %d", retEntry.Tx, h.Tx)
			}
			a, b := retEntry.ReferencedBy, h.ReferencedBy
			if (a == nil) != (b == nil) {
				bad("ref", "reference present/absent")
			} else if a != nil {
				if !bytes.Equal(a.Key, b.Key) {
					bad("refkey", "returned reference key %q, history has %q", a.Key, b.Key)
				}
				if a.Tx != b.Tx {
					bad("reftx", "returned reference tx %d, history has %d", a.Tx, b.Tx)
				}
				if a.AtTx != b.AtTx {
					bad("refattx", "returned reference atTx %d, history has %d", a.AtTx, b.AtTx)
				}
				if !proto.Equal(a.Metadata, b.Metadata) {
					bad("refmetadata", "returned reference metadata differs from the history")
				}
			}
		}
		switch c.Op {
		case "get0", "getAt", "sget0":
			cmpEntry(honestEntry)
		case "getRef", "sgetRef":
			cmpEntry(honestRef)
		case "txbyid":
			if !proto.Equal(retTx.Header, honestTx.Header) {
				bad("header", "returned transaction header differs from the history")
			}
			if len(retTx.Entries) != len(honestTx.Entries) {
				bad("entries", "returned transaction has a different number of entries")
			} else {
				for i := range retTx.Entries {
					a, b := retTx.Entries[i], honestTx.Entries[i]
					if !bytes.Equal(a.Key, b.Key) || !bytes.Equal(a.HValue, b.HValue) || !proto.Equal(a.Metadata, b.Metadata) || a.VLen != b.VLen {
						bad("entries", "returned transaction entry %d differs from the history", i)
						break
					}
				}
			}
		case "vrowF":
			bad("claim", "VerifyRow accepted the claim a = 5 for a row that holds a = 100")
		case "vrow2F":
			bad("claim", "VerifyRow accepted the claim c = 2 for a row that holds c = 7")
		case "set":
			if !proto.Equal(retHdr, tm.lastSet) {
				bad("header", "returned transaction header differs from the one committed")
			}
		}
		if len(harm) > 0 {
			sort.Strings(kinds)
			res.Violate("client:"+c.Op+":altered-response-verified:"+strings.Join(kinds, "+"),
				fmt.Sprintf("%s (trusted tx %d, proven tx %d): response altered in %v was accepted as verified: %s", c.Op, T, P, c.Muts, strings.Join(harm, "; ")), replay)
			if !c.Accept || !c.Harmful {
				res.DriftNote(fmt.Sprintf("ClientFlow says accept=%v harmful=%v, the client accepted a harmful response: %s %s %v", c.Accept, c.Harmful, c.Op, c.Rel, c.Muts))
			}
			continue
		}
		if !c.Accept {
			res.DriftNote(fmt.Sprintf("ClientFlow rejects, the client accepts (harmless): %s %s %v", c.Op, c.Rel, c.Muts))
		} else if c.Harmful {
			res.DriftNote(fmt.Sprintf("ClientFlow says harmful, real outcome is not: %s %s %v", c.Op, c.Rel, c.Muts))
		}
	}
	res.Traces = len(cf.Cases)
	os.Stdout = realStdout
	res.Emit()
}
