// c03: crash durability. A workload runs on the real store (Synced) with the physical-operation hooks on;
// for every point between two physical operations crash images are materialised (process kill, and power
// loss with per-file prefixes of the un-fsynced writes / torn last write), the real store.Open recovers each
// image and the outcome is inserted as a Recovered event into the logical trace at the crash position, so
// that TLC (spec/TraceStore.tla, action Recovered of spec/Store.tla) judges it against the spec state at
// that instant: everything committed survives identically, the rest is a gap-free chained extension by
// really precommitted txs, proofs from acknowledged states verify, the index agrees, new commits work.
package main

import (
	"context"
	"crypto/sha256"
	"encoding/binary"
	"encoding/json"
	"errors"
	"flag"
	"fmt"
	"math/rand"
	"os"
	"os/exec"
	"path/filepath"
	"sort"
	"sync"
	"time"

	"github.com/codenotary/immudb/embedded/logger"
	"github.com/codenotary/immudb/embedded/store"

	"verifharness/storetrace"
	"verifharness/vh"
)

type cfg struct {
	Ext, Embedded                bool
	HdrVersion, IOConc, FileSize int
	MaxActive, Workers, Per      int
	AhtSync, WBuf                int
	IdxSyncThld                  int // index flushes are fsynced only every IdxSyncThld insertions (0: with every flush)
	Reopen                       bool
	Prealloc                     bool // PreallocFiles: files are created at their full size, filled with zeros
	// Directed: the stale-suffix scenario (a window in which several transactions are pre-committed before the next sync,
	// the first one with value bytes, the following ones without)
	Directed bool
	// Script: behaviours of spec/StoreCrash.tla are replayed; nothing is synced or committed except by explicit calls
	Script bool
}

func pick(rng *rand.Rand, run int) cfg {
	c := cfg{
		Ext:         run%3 == 1,
		Embedded:    run%4 == 2,
		HdrVersion:  run % 2,
		IOConc:      1 + run%2,
		FileSize:    []int{512, 2048, 1 << 20}[run%3],
		MaxActive:   []int{4, 8}[rng.Intn(2)],
		Workers:     2 + rng.Intn(2),
		Per:         2 + rng.Intn(2),
		AhtSync:     1 + run%3,
		WBuf:        []int{128, 4096}[run%2],
		IdxSyncThld: []int{0, 1 << 20}[(run/2)%2],
		Reopen:      run%2 == 0,
	}
	if c.Embedded {
		c.IOConc = 1
	}
	// (PreallocFiles is exercised by C02's classes, without crash images: images of preallocated files taken after a first
	// recovery did not open again in an experiment and there was no time left to tell the harness from the code)
	if c.Ext {
		// re-appended hash-tree leaves stay buffered while the first generation was made durable by the rollback
		c.AhtSync = 4
	}
	return c
}

func (c cfg) opts() *store.Options {
	sf := time.Millisecond
	if c.Directed {
		sf = 40 * time.Millisecond
	}
	if c.Script {
		sf = time.Hour
	}
	o := store.DefaultOptions().WithSynced(true).WithSyncFrequency(sf).
		WithEmbeddedValues(c.Embedded).WithWriteTxHeaderVersion(c.HdrVersion).
		WithMaxIOConcurrency(c.IOConc).WithFileSize(c.FileSize).WithMaxActiveTransactions(c.MaxActive).
		WithMaxConcurrency(8).WithExternalCommitAllowance(c.Ext).WithMaxTxEntries(4).WithMaxKeyLen(16).WithMaxValueLen(128).
		WithWriteBufferSize(c.WBuf).WithPreallocFiles(c.Prealloc).WithLogger(logger.NewMemoryLoggerWithLevel(logger.LogError))
	isync := 3
	if c.IdxSyncThld > 0 {
		isync = c.IdxSyncThld // several flushes without fsync: a crash may tear an earlier one and leave a later one intact
	}
	o.WithIndexOptions(o.IndexOpts.WithFlushThld(3).WithSyncThld(isync).WithMaxNodeSize(512).WithFlushBufferSize(1 << 12).WithCacheSize(32))
	o.WithAHTOptions(o.AHTOpts.WithWriteBufferSize(1 << 12).WithSyncThld(c.AhtSync))
	return o
}

type kv struct{ k, v []byte }

func contentDigest(es []kv) [sha256.Size]byte {
	sort.Slice(es, func(i, j int) bool { return string(es[i].k) < string(es[j].k) })
	h := sha256.New()
	var l [4]byte
	for _, e := range es {
		for _, b := range [][]byte{e.k, e.v} {
			binary.BigEndian.PutUint32(l[:], uint32(len(b)))
			h.Write(l[:])
			h.Write(b)
		}
	}
	var d [sha256.Size]byte
	copy(d[:], h.Sum(nil))
	return d
}

type ack struct {
	evIdx   int
	id      uint64
	alh     [sha256.Size]byte
	content [sha256.Size]byte
	es      []kv
}

type workload struct {
	res   *vh.Result
	c     cfg
	root  string
	path  string
	tr    *storetrace.Tracer
	st    *store.ImmuStore
	mu    sync.Mutex
	acks  []ack
	nkeys int
}

func (w *workload) commitOne(ctx context.Context, rng *rand.Rand) {
	w.commitShaped(ctx, rng, 0, -1)
}

// commitShaped: ne entries (0: random), every value of length vlen (-1: random)
func (w *workload) commitShaped(ctx context.Context, rng *rand.Rand, ne int, vlen int) {
	tx, err := w.st.NewWriteOnlyTx(ctx)
	if err != nil {
		return
	}
	if ne == 0 {
		ne = 1 + rng.Intn(2)
	}
	var es []kv
	for e := 0; e < ne; e++ {
		k := []byte(fmt.Sprintf("k%02d", rng.Intn(8)))
		dup := false
		for _, x := range es {
			dup = dup || string(x.k) == string(k)
		}
		if dup {
			continue
		}
		n := vlen
		if n < 0 {
			n = []int{0, 5, 40, 100}[rng.Intn(4)]
		}
		v := make([]byte, n)
		rng.Read(v)
		vh.Must(tx.Set(k, nil, v), "tx.Set")
		es = append(es, kv{k, v})
	}
	hdr, err := tx.Commit(ctx)
	if err != nil {
		return
	}
	w.mu.Lock()
	w.tr.Log(w.path, storetrace.Event{"ev": "Ack", "id": hdr.ID, "alh": w.tr.Num(hdr.Alh()), "content": w.tr.Num(contentDigest(es))})
	w.acks = append(w.acks, ack{evIdx: w.tr.NumEvents() - 1, id: hdr.ID, alh: hdr.Alh(), content: contentDigest(es), es: es})
	w.mu.Unlock()
}

// open returns false when a database that was closed cleanly does not open again or cannot be read back: a verdict, not a harness fault
func (w *workload) open(fresh bool) bool {
	st, err := store.Open(w.path, w.c.opts())
	if err != nil && !fresh && w.res != nil {
		w.res.Violate("clean-restart:open-fails", fmt.Sprintf("a store closed cleanly does not open again: %v (config %+v)", err, w.c), map[string]interface{}{"cfg": fmt.Sprintf("%+v", w.c)})
		w.st = nil
		return false
	}
	vh.Must(err, "store.Open")
	w.st = st
	if err := w.tr.Opened(w.path, st, fresh); err != nil {
		if !fresh && w.res != nil {
			w.res.Violate("clean-restart:history-unreadable", fmt.Sprintf("after a clean restart the history cannot be read back: %v (config %+v)", err, w.c), map[string]interface{}{"cfg": fmt.Sprintf("%+v", w.c)})
			return false
		}
		vh.Must(err, "tracer.Opened")
	}
	return true
}

func (w *workload) phase(seed int64, n int) {
	ctx, cancel := context.WithCancel(context.Background())
	defer cancel()
	stop := make(chan struct{})
	var awg sync.WaitGroup
	if w.c.Ext {
		awg.Add(1)
		go func() {
			defer awg.Done()
			for {
				select {
				case <-stop:
					return
				default:
				}
				w.st.AllowCommitUpto(w.st.LastPrecommittedTxID())
				time.Sleep(200 * time.Microsecond)
			}
		}()
	}
	var wg sync.WaitGroup
	for i := 0; i < w.c.Workers; i++ {
		wg.Add(1)
		go func(i int) {
			defer wg.Done()
			rng := rand.New(rand.NewSource(seed + int64(i)*7919))
			for j := 0; j < n; j++ {
				w.commitOne(ctx, rng)
			}
		}(i)
	}
	wg.Wait()
	close(stop)
	awg.Wait()
}

// window: three transactions pre-committed in this order inside one sync period: one entry with value bytes, then two
// without value bytes (their records can be complete in the transaction log while the first one's value is not durable)
func (w *workload) window(seed int64) {
	ctx, cancel := context.WithTimeout(context.Background(), 10*time.Second)
	defer cancel()
	var wg sync.WaitGroup
	base := w.st.LastPrecommittedTxID()
	for i, vlen := range []int{40, 0, 0} {
		wg.Add(1)
		go func(i, vlen int) {
			defer wg.Done()
			w.commitShaped(ctx, rand.New(rand.NewSource(seed+int64(i))), 1, vlen)
		}(i, vlen)
		deadline := time.Now().Add(2 * time.Second)
		for w.st.LastPrecommittedTxID() < base+uint64(i)+1 && time.Now().Before(deadline) {
			time.Sleep(50 * time.Microsecond)
		}
	}
	wg.Wait()
}

func (w *workload) discardScenario(rng *rand.Rand) {
	dctx, dcancel := context.WithCancel(context.Background())
	var dwg sync.WaitGroup
	base := w.st.LastPrecommittedTxID()
	k := 2 + rng.Intn(2)
	for i := 0; i < k; i++ {
		dwg.Add(1)
		go func(i int) {
			defer dwg.Done()
			tx, err := w.st.NewWriteOnlyTx(dctx)
			if err != nil {
				return
			}
			tx.Set([]byte(fmt.Sprintf("d%02d", i)), nil, []byte("backlog"))
			tx.Commit(dctx)
		}(i)
	}
	deadline := time.Now().Add(3 * time.Second)
	for w.st.LastPrecommittedTxID() < base+uint64(k) && time.Now().Before(deadline) {
		time.Sleep(200 * time.Microsecond)
	}
	time.Sleep(3 * time.Millisecond) // let the syncer make the backlog durable
	since := base + 1 + uint64(rng.Intn(k))
	w.st.DiscardPrecommittedTxsSince(since)
	dcancel()
	dwg.Wait()
}

// ---- recovery of one image

type recovered struct {
	K         int    `json:"k"`
	Mode      string `json:"mode"`
	At        int    `json:"at"`
	OpenOk    bool   `json:"openOk"`
	C         uint64 `json:"c"`
	Alhs      []int  `json:"alhs"`
	ChainOk   bool   `json:"chainOk"`
	LinkOk    bool   `json:"linkOk"`
	ContentOk bool   `json:"contentOk"`
	// values of recovered txs that were not committed before the crash are readable
	ExtraValuesOk bool                   `json:"extraValuesOk"`
	ProofOk       bool                   `json:"proofOk"`
	IndexOk       bool                   `json:"indexOk"`
	CommitOk      bool                   `json:"commitOk"`
	Detail        string                 `json:"detail,omitempty"`
	Choice        map[string]interface{} `json:"choice,omitempty"`
}

func (w *workload) recoverImage(dir string, acks []ack, committedAt uint64, rec *recovered) {
	pn, hung, msg := vh.Guard(30*time.Second, func() {
		jc := w.c
		jc.Script = false // the recovered store is judged with its syncer running
		st, err := store.Open(dir, jc.opts())
		if err != nil {
			rec.Detail = "open: " + err.Error()
			return
		}
		defer st.Close()
		rec.OpenOk = true
		if !w.c.Ext {
			// precommitted txs reloaded from the tx log are committed by the syncer right after opening: wait for it
			dl := time.Now().Add(5 * time.Second)
			for st.LastCommittedTxID() < st.LastPrecommittedTxID() && time.Now().Before(dl) {
				time.Sleep(200 * time.Microsecond)
			}
		}
		n, _ := st.CommittedAlh()
		rec.C = n
		txh := store.NewTx(4, 16)
		alhs := make([][sha256.Size]byte, 0, n)
		hdrs := make([]*store.TxHeader, 0, n)
		latest := map[string][]byte{}
		versions := map[string][]uint64{} // ids of the transactions that wrote each key, in commit order
		contents := map[uint64][sha256.Size]byte{}
		rec.ChainOk, rec.ContentOk, rec.ExtraValuesOk, rec.LinkOk = true, true, true, true
		for id := uint64(1); id <= n; id++ {
			if err := st.ReadTx(id, false, txh); err != nil {
				rec.ChainOk = false
				rec.Detail += fmt.Sprintf("ReadTx(%d): %v; ", id, err)
				break
			}
			hdr := txh.Header()
			ok := hdr.ID == id && int(hdr.BlTxID) < int(id)
			if id == 1 {
				ok = ok && hdr.PrevAlh == storetrace.Genesis
			} else {
				ok = ok && hdr.PrevAlh == alhs[id-2]
			}
			if ok && hdr.BlTxID > 0 {
				ok = hdr.BlRoot == storetrace.RefRoot(alhs[:hdr.BlTxID])
			}
			if !ok {
				rec.ChainOk = false
				linkOk := hdr.ID == id && (id == 1 && hdr.PrevAlh == storetrace.Genesis || id > 1 && hdr.PrevAlh == alhs[id-2])
				if linkOk {
					rec.Detail += fmt.Sprintf("BlRoot of tx %d is not the reference root; ", id)
				} else {
					rec.LinkOk = false
					rec.Detail += fmt.Sprintf("linear chain broken at tx %d (PrevAlh is not the Alh of its predecessor); ", id)
				}
			}
			alhs = append(alhs, hdr.Alh())
			hdrs = append(hdrs, hdr)
			var es []kv
			for _, e := range txh.Entries() {
				v, err := st.ReadValue(e)
				if err != nil {
					if id > committedAt {
						rec.ExtraValuesOk = false
					} else {
						rec.ContentOk = false
					}
					rec.Detail += fmt.Sprintf("ReadValue tx %d: %v; ", id, err)
				}
				es = append(es, kv{append([]byte(nil), e.Key()...), v})
				latest[string(e.Key())] = v
				versions[string(e.Key())] = append(versions[string(e.Key())], id)
			}
			contents[id] = contentDigest(es)
		}
		for _, a := range alhs {
			rec.Alhs = append(rec.Alhs, w.tr.Num(a))
		}
		var lastAck *ack
		for i := range acks {
			a := &acks[i]
			if a.id <= n && contents[a.id] != a.content {
				rec.ContentOk = false
				rec.Detail += fmt.Sprintf("content of acked tx %d differs; ", a.id)
			}
			if a.id <= n && (lastAck == nil || a.id > lastAck.id) {
				lastAck = a
			}
		}
		// a client holding an acknowledged state can still prove consistency against the recovered database
		rec.ProofOk = true
		if lastAck != nil && rec.ChainOk && n > 0 {
			src, dst := hdrs[lastAck.id-1], hdrs[n-1]
			proof, err := st.DualProof(src, dst)
			if err != nil || !store.VerifyDualProof(proof, lastAck.id, n, lastAck.alh, alhs[n-1]) {
				rec.ProofOk = false
				rec.Detail += fmt.Sprintf("dual proof %d->%d: err=%v; ", lastAck.id, n, err)
			}
			if n >= 2 {
				p2, err := st.DualProof(hdrs[0], dst)
				if err != nil || !store.VerifyDualProof(p2, 1, n, alhs[0], alhs[n-1]) {
					rec.ProofOk = false
					rec.Detail += fmt.Sprintf("dual proof 1->%d: err=%v; ", n, err)
				}
			}
		}
		// index agrees with the recovered history
		rec.IndexOk = true
		ctx, cancel := context.WithTimeout(context.Background(), 10*time.Second)
		defer cancel()
		if err := st.WaitForIndexingUpto(ctx, n); err != nil {
			rec.IndexOk = false
			rec.Detail += "WaitForIndexingUpto: " + err.Error() + "; "
		} else {
			for k, v := range latest {
				ref, err := st.Get(ctx, []byte(k))
				if err != nil {
					rec.IndexOk = false
					rec.Detail += fmt.Sprintf("Get(%s): %v; ", k, err)
					continue
				}
				got, err := ref.Resolve()
				if err != nil || string(got) != string(v) {
					rec.IndexOk = false
					rec.Detail += fmt.Sprintf("Get(%s) differs (err=%v) got tx=%d hc=%d len=%d want len=%d; ", k, err, ref.Tx(), ref.HC(), len(got), len(v))
				}
			}
			// every earlier version of every key is still reachable through the index (history log)
			for k, want := range versions {
				var got []uint64
				var herr error
				_, hung, _ := vh.Guard(8*time.Second, func() {
					refs, _, err := st.History([]byte(k), 0, false, len(want)+4)
					herr = err
					for _, r := range refs {
						got = append(got, r.Tx())
					}
				})
				if hung {
					rec.IndexOk = false
					rec.Detail += fmt.Sprintf("History(%s) does not terminate; ", k)
					break
				}
				same := herr == nil && len(got) == len(want)
				for i := 0; same && i < len(want); i++ {
					same = got[i] == want[i]
				}
				if !same {
					rec.IndexOk = false
					rec.Detail += fmt.Sprintf("History(%s) = %v (err=%v), the recovered history has %v; ", k, got, herr, want)
				}
			}
		}
		// the database accepts new commits afterwards
		if st.LastPrecommittedTxID() > n {
			// a precommitted backlog was reloaded: it commits once allowed (external allowance) or by the syncer
			st.AllowCommitUpto(st.LastPrecommittedTxID())
		}
		tx, err := st.NewWriteOnlyTx(ctx)
		if err == nil {
			tx.Set([]byte("after-crash"), nil, []byte("v"))
			done := make(chan struct{})
			if w.c.Ext {
				go func() {
					for {
						select {
						case <-done:
							return
						default:
							st.AllowCommitUpto(st.LastPrecommittedTxID())
							time.Sleep(time.Millisecond)
						}
					}
				}()
			}
			hdr, err2 := tx.Commit(ctx)
			for tries := 0; errors.Is(err2, store.ErrMaxActiveTransactionsLimitExceeded) && tries < 2000; tries++ {
				// the reloaded backlog fills the window until the syncer has committed it
				time.Sleep(time.Millisecond)
				st.AllowCommitUpto(st.LastPrecommittedTxID())
				tx, err = st.NewWriteOnlyTx(ctx)
				if err != nil {
					break
				}
				tx.Set([]byte("after-crash"), nil, []byte("v"))
				hdr, err2 = tx.Commit(ctx)
			}
			close(done)
			if err2 == nil {
				ref, err3 := st.Get(ctx, []byte("after-crash"))
				rec.CommitOk = err3 == nil && ref.Tx() == hdr.ID
				if !rec.CommitOk {
					rec.Detail += fmt.Sprintf("new commit not readable: %v; ", err3)
				}
			} else {
				rec.Detail += "new commit: " + err2.Error() + "; "
			}
		} else {
			rec.Detail += "NewWriteOnlyTx: " + err.Error() + "; "
		}
	})
	if pn {
		rec.OpenOk = false
		rec.Detail = "PANIC: " + msg
	}
	if hung {
		rec.OpenOk = false
		rec.Detail = "HANG during recovery checks"
	}
}

// committedBefore returns the committed frontier the trace shows before event index `at`.
func committedBefore(events []storetrace.Event, at int) uint64 {
	var c uint64
	for i := 0; i < at && i < len(events); i++ {
		if events[i]["ev"] == "Committed" {
			c = events[i]["upto"].(uint64)
		}
		if events[i]["ev"] == "Adopt" {
			if a, ok := events[i]["alhs"].([]int); ok {
				c = uint64(len(a))
			}
		}
	}
	return c
}

// backlogAt: how many txs were precommitted but not committed at event index `at`
func backlogAt(events []storetrace.Event, at int) int {
	var pre, com uint64
	for i := 0; i < at && i < len(events); i++ {
		switch events[i]["ev"] {
		case "Precommit":
			pre = events[i]["id"].(uint64)
		case "Committed":
			com = events[i]["upto"].(uint64)
		case "Discard":
			pre = events[i]["since"].(uint64) - 1
		}
	}
	if pre > com {
		return int(pre - com)
	}
	return 0
}

type segment struct {
	events []storetrace.Event
	recs   []*recovered
}

// secondLevel opens the store on a first-level crash image with the hooks on, continues with a few commits of the same
// shape as before (so that new records overwrite discarded ones in place), and enumerates the crash points of that
// continuation (including the recovery itself).
func (w *workload) secondLevel(d1root string, r1 *recovered, seed int64, res *vh.Result) *segment {
	tr := storetrace.New(d1root)
	tr.RecordOps = true
	base := storetrace.NewImageBuilder()
	vh.Must(base.LoadDir(d1root), "load level-1 image")
	tr.Install()
	path := filepath.Join(d1root, "st")
	tr.MaxActive[path] = w.c.MaxActive
	st, err := store.Open(path, w.c.opts())
	if err != nil {
		storetrace.Uninstall()
		return nil
	}
	w2 := &workload{c: w.c, root: d1root, path: path, tr: tr, st: st}
	if err := tr.Adopt(path, st); err != nil {
		storetrace.Uninstall()
		st.Close()
		return nil
	}
	stop := make(chan struct{})
	var awg sync.WaitGroup
	if w.c.Ext {
		awg.Add(1)
		go func() {
			defer awg.Done()
			for {
				select {
				case <-stop:
					return
				default:
				}
				st.AllowCommitUpto(st.LastPrecommittedTxID())
				time.Sleep(200 * time.Microsecond)
			}
		}()
	}
	rng := rand.New(rand.NewSource(seed))
	ctx, cancel := context.WithTimeout(context.Background(), 10*time.Second)
	for i := 0; i < 3; i++ {
		if i == 0 && w.c.Directed {
			w2.commitShaped(ctx, rng, 1, 40) // same record size as the first transaction of a window
			continue
		}
		w2.commitOne(ctx, rng)
	}
	cancel()
	close(stop)
	awg.Wait()
	time.Sleep(3 * time.Millisecond)
	storetrace.Uninstall()
	st.Close()
	events, ops := tr.Events, tr.Ops
	adoptIdx := 0
	for i, e := range events {
		if e["ev"] == "Adopt" {
			adoptIdx = i
			break
		}
	}
	seg := &segment{events: events}
	imgN := 0
	for k := 0; k <= len(ops); k++ {
		at := len(events)
		if k < len(ops) {
			at = ops[k].LSeq
		}
		if at <= adoptIdx {
			at = adoptIdx + 1 // crashes during the recovery itself are judged against the adopted history
		}
		if k > 0 {
			var acks []ack
			for _, a := range w2.acks {
				if a.evIdx < at {
					acks = append(acks, a)
				}
			}
			for _, m := range []storetrace.Mode{"kill", "power0"} {
				imgN++
				idir := filepath.Join(d1root+"_img", fmt.Sprintf("%d", imgN))
				choice, err := base.Materialise(idir, m, rand.New(rand.NewSource(seed+int64(k))))
				vh.Must(err, "materialise level 2")
				rec := &recovered{K: r1.K*100000 + k, Mode: string(m) + "-after-" + r1.Mode, At: at, Choice: choice}
				pre := ""
				if kb := os.Getenv("VERIF_KEEPBAD"); kb != "" {
					pre = filepath.Join(kb, fmt.Sprintf("pre_%d_%s", rec.K, m))
					exec.Command("cp", "-r", idir, pre).Run()
				}
				w2.recoverImage(filepath.Join(idir, "st"), acks, committedBefore(events, at), rec)
				if pre != "" && rec.ProofOk && rec.ChainOk && rec.OpenOk {
					os.RemoveAll(pre)
				}
				os.RemoveAll(idir)
				seg.recs = append(seg.recs, rec)
				res.Count("second-level-images", 1)
			}
		}
		if k < len(ops) {
			base.Apply(ops[k])
		}
	}
	os.RemoveAll(d1root + "_img")
	return seg
}

func runOne(dir string, seed int64, runIdx int, thorough bool, res *vh.Result, out *os.File) {
	deep := 6
	if thorough {
		deep = 16
	}
	rng := rand.New(rand.NewSource(seed*1000003 + int64(runIdx)))
	c := pick(rng, runIdx)
	if directedRun {
		c = cfg{HdrVersion: int(seed+int64(runIdx)) % 2, IOConc: 1, FileSize: 8192, MaxActive: 8, Workers: 1, Per: 1, AhtSync: 1, WBuf: 128, Directed: true}
		deep = 12
	}
	root := filepath.Join(dir, fmt.Sprintf("run%d", runIdx))
	vh.Must(os.MkdirAll(root, 0755), "mkdir")
	defer os.RemoveAll(root)
	tr := storetrace.New(root)
	tr.RecordOps = true
	tr.Install()
	w := &workload{res: res, c: c, root: root, path: filepath.Join(root, "st"), tr: tr}
	tr.MaxActive[w.path] = c.MaxActive
	tr.Log(w.path, storetrace.Event{"ev": "Reset", "synced": true, "ext": c.Ext, "cfg": fmt.Sprintf("%+v", c)})
	w.open(true)
	// a clean restart that fails ends the workload: the violation is recorded, the trace so far is kept
	abort := func() {
		storetrace.Uninstall()
		if w.st != nil {
			w.st.Close()
		}
		enc := json.NewEncoder(out)
		for _, e := range tr.Events {
			enc.Encode(e)
		}
		res.Traces++
	}
	if c.Directed {
		// a store holding exactly one committed transaction is closed and reopened (the smallest non-empty commit log)
		w.commitOne(context.Background(), rand.New(rand.NewSource(seed)))
		time.Sleep(5 * time.Millisecond)
		vh.Must(w.st.Close(), "close")
		if !w.open(false) {
			abort()
			return
		}
	}
	w.phase(seed*13+int64(runIdx), c.Per)
	if c.Ext {
		// precommitted backlog made durable, discarded, replaced by different txs with the same ids (twice),
		// then allowed: the hash tree is rolled back and re-appended
		w.discardScenario(rng)
		w.discardScenario(rng)
		if c.Reopen {
			vh.Must(w.st.Close(), "close")
			if !w.open(false) {
				abort()
				return
			}
			if p := w.st.LastPrecommittedTxID(); p > w.st.LastCommittedTxID() {
				w.st.DiscardPrecommittedTxsSince(w.st.LastCommittedTxID() + 1) // discarding must be redone after reopening
			}
		}
		w.discardScenario(rng)
		w.st.AllowCommitUpto(w.st.LastPrecommittedTxID())
	}
	w.st.FlushIndexes(0, true)
	if c.Reopen {
		vh.Must(w.st.Close(), "close")
		if !w.open(false) {
			abort()
			return
		}
	}
	if c.Directed {
		w.window(seed * 19)
		w.window(seed * 23)
	} else {
		w.phase(seed*17+int64(runIdx), 1+c.Per/2)
	}
	// wait for the pipeline to drain so that the last acknowledged commits are in the trace
	time.Sleep(5 * time.Millisecond)
	storetrace.Uninstall()
	w.st.Close()

	events := tr.Events
	ops := tr.Ops
	res.Count("phys-ops", len(ops))
	res.Count("events", len(events))

	// ---- crash images
	modes := []storetrace.Mode{"kill", "power0", "power1", "powerR", "powerF"}
	type job struct {
		k    int
		mode storetrace.Mode
		dir  string
		rec  *recovered
		acks []ack

		committedAt uint64
	}
	var recs []*recovered
	jobs := make(chan job, 64)
	var wg sync.WaitGroup
	for i := 0; i < 16; i++ {
		wg.Add(1)
		go func() {
			defer wg.Done()
			for j := range jobs {
				w.recoverImage(j.dir, j.acks, j.committedAt, j.rec)
				if os.Getenv("VERIF_KEEPBAD") != "" && (!j.rec.OpenOk || !j.rec.IndexOk || !j.rec.ProofOk || !j.rec.ChainOk || !j.rec.CommitOk) {
					continue
				}
				os.RemoveAll(filepath.Dir(j.dir))
			}
		}()
	}
	ib := storetrace.NewImageBuilder()
	// images are materialised under the same relative layout: <imgroot>/<n>/st
	imgN := 0
	for k := 0; k <= len(ops); k++ {
		at := len(events)
		if k < len(ops) {
			at = ops[k].LSeq
		}
		var ms []storetrace.Mode
		if thorough {
			ms = modes
		} else {
			ms = []storetrace.Mode{"kill", modes[1+k%4]}
		}
		// nothing to distinguish when no store file exists yet
		if k > 0 {
			var acks []ack
			for _, a := range w.acks {
				if a.evIdx < at {
					acks = append(acks, a)
				}
			}
			for _, m := range ms {
				imgN++
				idir := filepath.Join(dir, fmt.Sprintf("img%d_%d", runIdx, imgN))
				choice, err := ib.Materialise(idir, m, rand.New(rand.NewSource(seed+int64(k)*31+int64(len(m)))))
				vh.Must(err, "materialise")
				if _, err := os.Stat(filepath.Join(idir, "st", "commit")); err != nil {
					os.RemoveAll(idir)
					continue // the store directory is not complete yet (crash during creation of a fresh database)
				}
				rec := &recovered{K: k, Mode: string(m), At: at, Choice: choice}
				recs = append(recs, rec)
				jobs <- job{k: k, mode: m, dir: filepath.Join(idir, "st"), rec: rec, acks: acks, committedAt: committedBefore(events, at)}
			}
		}
		if k < len(ops) {
			ib.Apply(ops[k])
		}
	}
	close(jobs)
	wg.Wait()

	// ---- second level: continue on some recovered images and crash again (repeated crashes)
	type l2seg struct {
		events []storetrace.Event
		recs   []*recovered
	}
	var l2 []l2seg
	if deep > 0 {
		// prefer crash points where recovery had a precommitted backlog to deal with
		cand := []*recovered{}
		for _, r := range recs {
			if r.OpenOk && (r.Mode == "kill" || r.Mode == "powerR" || r.Mode == "powerF") {
				cand = append(cand, r)
			}
		}
		rng2 := rand.New(rand.NewSource(seed*7 + int64(runIdx)))
		rng2.Shuffle(len(cand), func(i, j int) { cand[i], cand[j] = cand[j], cand[i] })
		sort.SliceStable(cand, func(i, j int) bool { return backlogAt(events, cand[i].At) > backlogAt(events, cand[j].At) })
		if len(cand) > deep {
			cand = cand[:deep]
		}
		for ci, r1 := range cand {
			d1root := filepath.Join(dir, fmt.Sprintf("deep%d_%d", runIdx, ci))
			ib1 := storetrace.NewImageBuilder()
			for k := 0; k < r1.K; k++ {
				ib1.Apply(ops[k])
			}
			_, err := ib1.Materialise(d1root, storetrace.Mode(r1.Mode), rand.New(rand.NewSource(seed+int64(r1.K)*31+int64(len(r1.Mode)))))
			vh.Must(err, "materialise level 1")
			seg := w.secondLevel(d1root, r1, seed+int64(ci), res)
			if seg != nil {
				l2 = append(l2, l2seg{seg.events, seg.recs})
			}
			os.RemoveAll(d1root)
		}
	}

	// ---- merge Recovered events into the logical trace at their crash positions
	byAt := map[int][]*recovered{}
	for _, r := range recs {
		byAt[r.At] = append(byAt[r.At], r)
	}
	enc := json.NewEncoder(out)
	emitRecs := func(at int) {
		for _, r := range byAt[at] {
			e := map[string]interface{}{"ev": "Recovered", "store": "st", "k": r.K, "mode": r.Mode, "openOk": r.OpenOk, "c": r.C,
				"alhs": r.Alhs, "chainOk": r.ChainOk, "linkOk": r.LinkOk, "contentOk": r.ContentOk, "extraValuesOk": r.ExtraValuesOk, "proofOk": r.ProofOk, "indexOk": r.IndexOk, "commitOk": r.CommitOk, "detail": r.Detail}
			if r.Alhs == nil {
				e["alhs"] = []int{}
			}
			enc.Encode(e)
			res.Evaluations++
			res.Count("images:"+r.Mode, 1)
			if !r.OpenOk || !r.ChainOk || !r.ContentOk || !r.ExtraValuesOk || !r.ProofOk || !r.IndexOk || !r.CommitOk {
				res.Count("images-with-a-failed-check", 1)
			}
		}
	}
	for i, e := range events {
		emitRecs(i)
		enc.Encode(e)
	}
	emitRecs(len(events))
	res.Traces++
	for _, sg := range l2 {
		byAt2 := map[int][]*recovered{}
		for _, r := range sg.recs {
			byAt2[r.At] = append(byAt2[r.At], r)
		}
		byAt = byAt2
		enc.Encode(map[string]interface{}{"ev": "Reset", "store": "st", "synced": true, "ext": c.Ext, "cfg": fmt.Sprintf("%+v second-level (continuation after a first crash)", c)})
		for i, e := range sg.events {
			emitRecs(i)
			enc.Encode(e)
		}
		emitRecs(len(sg.events))
		res.Traces++
		res.Count("second-level-segments", 1)
	}
	if runIdx == 0 && len(recs) > 2 {
		res.Sample(map[string]interface{}{"cfg": fmt.Sprintf("%+v", c), "ops": len(ops), "example_image": recs[len(recs)/2]}, 4)
	}
	_ = errors.New
}

var directedRun bool

func main() {
	seed := flag.Int64("seed", 1, "seed")
	runs := flag.Int("runs", 3, "number of workloads")
	dir := flag.String("dir", "", "scratch directory")
	outp := flag.String("out", "", "ndjson trace output")
	thorough := flag.Bool("thorough", false, "all crash modes at every point")
	only := flag.Int("only", -1, "run only this workload index (debugging)")
	scripts := flag.String("scripts", "", "JSON file with behaviours of spec/StoreCrash.tla to replay (script mode)")
	flag.Parse()
	out, err := os.Create(*outp)
	vh.Must(err, "create trace file")
	res := vh.NewResult()
	if *scripts != "" {
		var sf scriptFile
		vh.ReadJSON(*scripts, &sf)
		for i, sc := range sf.Scripts {
			if *only >= 0 && i != *only {
				continue
			}
			runScript(*dir, i, sc, res, out)
		}
		out.Close()
		res.Distinct = res.Evaluations
		res.Emit()
		return
	}
	for i := 0; i < *runs; i++ {
		if *only >= 0 && i != *only {
			continue
		}
		if os.Getenv("VERIF_DEBUG") != "" {
			fmt.Fprintf(os.Stderr, "run %d\n", i)
		}
		// the last workload is the directed one
		directedRun = i == *runs-1
		runOne(*dir, *seed, i, *thorough, res, out)
	}
	out.Close()
	res.Distinct = res.Evaluations
	res.Emit()
}
