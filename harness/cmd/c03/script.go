package main

// Script mode: behaviours of spec/StoreCrash.tla (printed by TLC under -simulate) are replayed on the real store.
// The store runs with a sync period of one hour, so that nothing is flushed, fsynced or committed except by the calls the
// script makes: "pre" = a commit call left waiting after its precommit, "sync" = ImmuStore.Sync(), "allow" =
// AllowCommitUpto, "discard" = DiscardPrecommittedTxsSince, "restart" = Close + Open, "crash" = the image of the files at
// that instant (inside a sync: after the physical step the behaviour names), "recover" = Open of that image. What the real
// recovery makes of every image goes through the same oracle as every other crash image of this check (Recovered events
// judged by TLC against spec/Store.tla); in addition the recovered frontier is compared with the one StoreCrash predicts.

import (
	"context"
	"crypto/sha256"
	"encoding/json"
	"fmt"
	"math/rand"
	"os"
	"path/filepath"
	"strings"
	"sync"
	"time"

	"github.com/codenotary/immudb/embedded/store"

	"verifharness/storetrace"
	"verifharness/vh"
)

type scriptFile struct {
	Scripts [][][]interface{} `json:"scripts"`
}

func scriptCfg(ext bool, idx int) cfg {
	return cfg{Ext: ext, HdrVersion: idx % 2, IOConc: 1, FileSize: 1 << 20, MaxActive: 8, Workers: 1, Per: 1, AhtSync: 1 + idx%3, WBuf: 1 << 16, Script: true}
}

// stepOf: the physical step of sync() an operation belongs to (0: none of them)
func stepOf(op storetrace.PhysOp) int {
	f := op.File
	switch {
	case strings.Contains(f, "/val_") && op.Kind == "write":
		return 1
	case strings.Contains(f, "/val_") && op.Kind == "fsync":
		return 2
	case strings.Contains(f, "/tx/") && op.Kind == "write":
		return 3
	case strings.Contains(f, "/tx/") && op.Kind == "fsync":
		return 4
	case strings.Contains(f, "/commit/") && op.Kind == "write":
		return 5
	case strings.Contains(f, "/commit/") && op.Kind == "fsync":
		return 6
	}
	return 0
}

type scriptRun struct {
	w        *workload
	res      *vh.Result
	out      *json.Encoder
	root     string
	genAlh   map[int][sha256.Size]byte // alh of the g-th precommit of the script
	gen      int
	cancels  []context.CancelFunc
	wg       sync.WaitGroup
	syncFrom int // first physical operation of the last "sync"
	syncTo   int
	base     *storetrace.ImageBuilder // content of the directory the current segment started from
	segment  int
	script   [][]interface{}
	idx      int
}

func (r *scriptRun) drift(format string, a ...interface{}) {
	r.res.DriftNote(fmt.Sprintf("script %d %s: ", r.idx, mustJSON(r.script)) + fmt.Sprintf(format, a...))
}

func mustJSON(v interface{}) string { b, _ := json.Marshal(v); return string(b) }

func (r *scriptRun) pre(hasValue bool) {
	w := r.w
	want := w.st.LastPrecommittedTxID() + 1
	r.gen++
	g := r.gen
	ctx, cancel := context.WithCancel(context.Background())
	r.cancels = append(r.cancels, cancel)
	key := []byte(fmt.Sprintf("k%02d", g%100))
	var val []byte
	if hasValue {
		val = vh.Bytes(int64(r.idx), "script-value", g, 40)
	}
	r.wg.Add(1)
	go func() {
		defer r.wg.Done()
		tx, err := w.st.NewWriteOnlyTx(ctx)
		if err != nil {
			return
		}
		if tx.Set(key, nil, val) != nil {
			tx.Cancel()
			return
		}
		hdr, err := tx.Commit(ctx)
		if err != nil {
			return
		}
		// Commit waits for "a transaction with my id is committed": after DiscardPrecommittedTxsSince another transaction may
		// have taken the id. The driver does not treat that return as an acknowledgement (discarding is a replica-side
		// operation, no committer waits there); it is counted.
		if now, err := w.st.ReadTxHeader(hdr.ID, false, false); err != nil || now.Alh() != hdr.Alh() {
			r.res.Count("script-commit-returned-for-a-discarded-tx", 1)
			return
		}
		es := []kv{{key, val}}
		w.mu.Lock()
		w.tr.Log(w.path, storetrace.Event{"ev": "Ack", "id": hdr.ID, "alh": w.tr.Num(hdr.Alh()), "content": w.tr.Num(contentDigest(es))})
		w.acks = append(w.acks, ack{evIdx: w.tr.NumEvents() - 1, id: hdr.ID, alh: hdr.Alh(), content: contentDigest(es), es: es})
		w.mu.Unlock()
	}()
	dl := time.Now().Add(10 * time.Second)
	for w.st.LastPrecommittedTxID() < want {
		if time.Now().After(dl) {
			vh.Fatalf("script %d: precommit %d did not happen: %s", r.idx, want, mustJSON(r.script))
		}
		time.Sleep(50 * time.Microsecond)
	}
	hdr, err := w.st.ReadTxHeader(want, true, false)
	if err == nil {
		r.genAlh[g] = hdr.Alh()
	}
}

// settle: let the events of the calls made so far reach the tracer
func settle() { time.Sleep(2 * time.Millisecond) }

func (r *scriptRun) stopCommitters() {
	for _, c := range r.cancels {
		c()
	}
	r.cancels = nil
	r.wg.Wait()
}

// image materialises the crash image for the current point of the current segment
func (r *scriptRun) image(dir string, mode string, pc int) (at int, acks []ack) {
	w := r.w
	settle()
	ops := w.tr.Ops
	k := len(ops)
	if pc > 0 {
		k = r.syncFrom
		for i := r.syncFrom; i < r.syncTo && i < len(ops); i++ {
			if s := stepOf(ops[i]); s != 0 && s > pc {
				break
			}
			k = i + 1
		}
	}
	ib := storetrace.NewImageBuilder()
	if r.base != nil {
		ib = r.base.Clone()
	}
	for i := 0; i < k; i++ {
		ib.Apply(ops[i])
	}
	m := storetrace.Mode("kill")
	if mode == "power" {
		m = "power0"
	}
	_, err := ib.Materialise(dir, m, rand.New(rand.NewSource(1)))
	vh.Must(err, "materialise script image")
	at = w.tr.NumEvents()
	if k < len(ops) {
		at = ops[k].LSeq
	}
	for _, a := range w.acks {
		if a.evIdx < at {
			acks = append(acks, a)
		}
	}
	return at, acks
}

func runScript(dir string, idx int, sc [][]interface{}, res *vh.Result, out *os.File) {
	if len(sc) == 0 || sc[0][0] != "init" {
		vh.Fatalf("script %d does not start with init", idx)
	}
	ext := sc[0][1].(bool)
	c := scriptCfg(ext, idx)
	root := filepath.Join(dir, fmt.Sprintf("script%d_0", idx))
	vh.Must(os.MkdirAll(root, 0755), "mkdir")
	defer func() { os.RemoveAll(filepath.Join(dir, fmt.Sprintf("script%d_*", idx))) }()
	enc := json.NewEncoder(out)
	r := &scriptRun{res: res, out: enc, root: root, genAlh: map[int][sha256.Size]byte{}, script: sc, idx: idx}
	newSegment := func(root string, fresh bool) bool {
		tr := storetrace.New(root)
		tr.RecordOps = true
		tr.Install()
		w := &workload{c: c, root: root, path: filepath.Join(root, "st"), tr: tr}
		tr.MaxActive[w.path] = c.MaxActive
		if fresh {
			tr.Log(w.path, storetrace.Event{"ev": "Reset", "synced": true, "ext": c.Ext, "cfg": fmt.Sprintf("%+v script %d", c, idx)})
			w.open(true)
		} else {
			st, err := store.Open(w.path, c.opts())
			if err != nil {
				storetrace.Uninstall()
				return false
			}
			w.st = st
			if err := tr.Adopt(w.path, st); err != nil {
				storetrace.Uninstall()
				st.Close()
				return false
			}
		}
		r.w = w
		return true
	}
	type seg struct {
		events []storetrace.Event
		recs   map[int][]*recovered
	}
	var segs []seg
	cur := seg{recs: map[int][]*recovered{}}
	closeSegment := func() {
		r.stopCommitters()
		settle()
		storetrace.Uninstall()
		if r.w.st != nil {
			r.w.st.Close()
		}
		cur.events = r.w.tr.Events
		segs = append(segs, cur)
		cur = seg{recs: map[int][]*recovered{}}
	}
	newSegment(root, true)
	var pending *struct {
		dir  string
		mode string
	}
	for i := 1; i < len(sc); i++ {
		op := sc[i]
		switch op[0] {
		case "pre":
			r.pre(op[1].(bool))
		case "allow":
			r.w.st.AllowCommitUpto(uint64(op[1].(float64)))
		case "discard":
			r.w.st.DiscardPrecommittedTxsSince(uint64(op[1].(float64)))
		case "sync":
			settle()
			r.syncFrom = len(r.w.tr.Ops)
			if err := r.w.st.Sync(); err != nil {
				r.drift("Sync: %v", err)
			}
			settle()
			r.syncTo = len(r.w.tr.Ops)
		case "crash", "restart":
			r.segment++
			next := filepath.Join(dir, fmt.Sprintf("script%d_%d", idx, r.segment))
			judge := next + "_judge"
			mode, pc := "restart", 0
			if op[0] == "crash" {
				mode, pc = op[1].(string), int(op[2].(float64))
			}
			var at int
			var acks []ack
			if op[0] == "restart" {
				r.stopCommitters()
				settle()
				vh.Must(r.w.st.Close(), "close")
				r.w.st = nil
				settle()
				// the image is the directory as it is after Close
				ib := storetrace.NewImageBuilder()
				vh.Must(ib.LoadDir(r.w.root), "load dir")
				_, err := ib.Materialise(next, "kill", rand.New(rand.NewSource(1)))
				vh.Must(err, "materialise")
				_, err = ib.Materialise(judge, "kill", rand.New(rand.NewSource(1)))
				vh.Must(err, "materialise")
				at, acks = r.w.tr.NumEvents(), r.w.acks
			} else {
				at, acks = r.image(next, mode, pc)
				r.image(judge, mode, pc)
			}
			rec := &recovered{K: idx*1000 + r.segment, Mode: "script-" + mode, At: at}
			w := r.w
			evs := w.tr.Events
			closeSegment() // uninstalls the tracer: the judged store must not write into this segment's trace
			w.recoverImage(filepath.Join(judge, "st"), acks, committedBefore(evs, at), rec)
			os.RemoveAll(judge)
			last := &segs[len(segs)-1]
			last.recs[at] = append(last.recs[at], rec)
			res.Count("script-images", 1)
			res.Count("script-images:"+mode, 1)
			if pc > 0 {
				res.Count("script-images:inside-sync", 1)
			}
			pending = &struct {
				dir  string
				mode string
			}{next, mode}
		case "recover":
			if pending == nil {
				vh.Fatalf("script %d: recover without crash", idx)
			}
			wantOk := op[1].(bool)
			wantC, wantPre := uint64(op[2].(float64)), uint64(op[3].(float64))
			gens := op[4].([]interface{})
			base := storetrace.NewImageBuilder()
			vh.Must(base.LoadDir(pending.dir), "load image")
			r.base = base
			ok := newSegment(pending.dir, false)
			pending = nil
			res.Count("script-recoveries", 1)
			if !ok {
				if wantOk {
					r.drift("StoreCrash predicts a successful open (c=%d pre=%d), the real store does not open", wantC, wantPre)
				}
				res.Count("script-open-failed", 1)
				r.w = nil
				goto done
			}
			gotC, gotPre := r.w.st.LastCommittedTxID(), r.w.st.LastPrecommittedTxID()
			if !wantOk || gotC != wantC || gotPre != wantPre {
				r.drift("recovered frontier differs from StoreCrash: real committed=%d precommitted=%d, model open=%v committed=%d precommitted=%d", gotC, gotPre, wantOk, wantC, wantPre)
				res.Count("script-frontier-differs", 1)
				closeSegment()
				r.w = nil
				goto done // the rest of the behaviour does not apply to the real state
			}
			res.Count("script-frontier-as-predicted", 1)
			for n := uint64(1); n <= gotPre; n++ {
				hdr, err := r.w.st.ReadTxHeader(n, true, false)
				g := int(gens[n-1].(float64))
				if err != nil || hdr.Alh() != r.genAlh[g] {
					r.drift("recovered tx %d is not precommit #%d of the behaviour (err=%v)", n, g, err)
					res.Count("script-identity-differs", 1)
				}
			}
			if gotPre > gotC {
				res.Count("script-recoveries-with-reloaded-backlog", 1)
			}
		default:
			vh.Fatalf("script %d: unknown op %v", idx, op)
		}
	}
	if r.w != nil {
		closeSegment()
	}
done:
	for si, sg := range segs {
		if si > 0 {
			enc.Encode(map[string]interface{}{"ev": "Reset", "store": "st", "synced": true, "ext": c.Ext, "cfg": fmt.Sprintf("%+v script %d second-level segment %d (continuation after a crash)", c, idx, si)})
		}
		emit := func(at int) {
			for _, rc := range sg.recs[at] {
				e := map[string]interface{}{"ev": "Recovered", "store": "st", "k": rc.K, "mode": rc.Mode, "openOk": rc.OpenOk, "c": rc.C,
					"alhs": rc.Alhs, "chainOk": rc.ChainOk, "linkOk": rc.LinkOk, "contentOk": rc.ContentOk, "extraValuesOk": rc.ExtraValuesOk, "proofOk": rc.ProofOk, "indexOk": rc.IndexOk, "commitOk": rc.CommitOk, "detail": rc.Detail}
				if rc.Alhs == nil {
					e["alhs"] = []int{}
				}
				enc.Encode(e)
				res.Evaluations++
				res.Count("images:"+rc.Mode, 1)
			}
		}
		for i, e := range sg.events {
			emit(i)
			enc.Encode(e)
		}
		emit(len(sg.events))
		for at := range sg.recs {
			if at > len(sg.events) {
				emit(at)
			}
		}
		res.Traces++
	}
	res.Count("scripts", 1)
	matches, _ := filepath.Glob(filepath.Join(dir, fmt.Sprintf("script%d_*", idx)))
	for _, m := range matches {
		os.RemoveAll(m)
	}
}
