package main

import (
	"bytes"
	"context"
	"fmt"
	"sort"
	"strings"
	"time"

	"github.com/codenotary/immudb/pkg/api/schema"
	"google.golang.org/grpc/metadata"
	"google.golang.org/protobuf/proto"
	"google.golang.org/protobuf/reflect/protoreflect"
	"google.golang.org/protobuf/types/known/emptypb"

	"verifharness/vh"
)

// snapshot of everything the property talks about, taken by the administrator before and after every call.
type dbInfo struct {
	loaded   bool
	tx       uint64
	settings string
}
type userInfo struct {
	active  bool
	created string
	perDB   map[string]string // database -> "permission|sql privileges"
}
type snapshot struct {
	dbs   map[string]dbInfo
	sysTx uint64
	users map[string]userInfo
}

// snapshot: the cheap part (transaction id and loaded flag of every known database, transaction id of the system
// database) is read every time; the database list with settings and the user list are persisted by the server in
// the system database, so they are read again only when the system database has advanced (and the assumption is
// re-checked with a full read at the start of every group of cells).
func (w *world) snapshot() *snapshot {
	if w.snapOK != nil {
		return w.snapOK
	}
	s := &snapshot{dbs: map[string]dbInfo{}, users: map[string]userInfo{}}
	st, err := w.obsState(dbSys)
	vh.Must(err, "snapshot systemdb state")
	s.sysTx = st.TxId
	if w.full == nil || w.full.sysTx != s.sysTx || w.forceFull {
		f := w.fullSnapshot(s.sysTx)
		if w.full != nil && w.full.sysTx == s.sysTx && w.forceFull {
			if a, b := f.describe(), w.full.describe(); a != b {
				vh.Fatalf("database list / settings / users changed without a transaction of the system database (observation assumption broken):\n%s\n%s", b, a)
			}
		}
		w.full = f
		w.forceFull = false
	}
	for name, d := range w.full.dbs {
		s.dbs[name] = d
	}
	s.users = w.full.users
	// live part: transaction id and loaded flag
	for name, d := range s.dbs {
		st, err := w.obsState(name)
		if err != nil {
			d.loaded, d.tx = false, 0
		} else {
			d.loaded, d.tx = true, st.TxId
		}
		s.dbs[name] = d
	}
	w.snapOK = s
	return s
}

func (s *snapshot) describe() string {
	var parts []string
	for n, d := range s.dbs {
		parts = append(parts, fmt.Sprintf("db %s %x", n, d.settings))
	}
	for n, u := range s.users {
		parts = append(parts, fmt.Sprintf("user %s %v %s %v", n, u.active, u.created, u.perDB))
	}
	sort.Strings(parts)
	return strings.Join(parts, "; ")
}

func (w *world) fullSnapshot(sysTx uint64) *snapshot {
	w.res.Count("full-snapshots", 1)
	s := &snapshot{dbs: map[string]dbInfo{}, users: map[string]userInfo{}, sysTx: sysTx}
	var l *schema.DatabaseListResponseV2
	vh.Must(w.obsRetry(dbDef, func(ctx context.Context) (e error) {
		l, e = w.srv.DatabaseListV2(ctx, &schema.DatabaseListRequestV2{})
		return
	}), "snapshot DatabaseListV2")
	for _, d := range l.Databases {
		b, _ := proto.MarshalOptions{Deterministic: true}.Marshal(d.Settings)
		s.dbs[d.Name] = dbInfo{loaded: d.Loaded, tx: d.NumTransactions, settings: string(b)}
	}
	var ul *schema.UserList
	vh.Must(w.obsRetry(dbDef, func(ctx context.Context) (e error) { ul, e = w.srv.ListUsers(ctx, &emptypb.Empty{}); return }), "snapshot ListUsers")
	for _, u := range ul.Users {
		ui := userInfo{active: u.Active, created: u.Createdat + "/" + u.Createdby, perDB: map[string]string{}}
		for _, p := range u.Permissions {
			ui.perDB[p.Database] = fmt.Sprintf("%d", p.Permission)
		}
		privs := map[string][]string{}
		for _, p := range u.SqlPrivileges {
			privs[p.Database] = append(privs[p.Database], p.Privilege)
		}
		for db, ps := range privs {
			sort.Strings(ps)
			ui.perDB[db] += "|" + strings.Join(ps, ",")
		}
		s.users[string(u.User)] = ui
	}
	return s
}

type effect struct {
	K  string `json:"k"`
	Db string `json:"db"`
}

type effectSet map[effect]bool

func (s effectSet) list() []effect {
	out := make([]effect, 0, len(s))
	for e := range s {
		out = append(out, e)
	}
	sort.Slice(out, func(i, j int) bool { return out[i].K+out[i].Db < out[j].K+out[j].Db })
	return out
}

// effects measures what a call did: compares the snapshots, classifies the new transactions of the system
// database by the keys they wrote, and looks for sentinel data in the responses.
func (w *world) effects(before, after *snapshot, resps []proto.Message) effectSet {
	out := effectSet{}
	w.lastDetail = nil
	cls := func(name string) string {
		if _, existed := before.dbs[name]; !existed && name != dbSys {
			return "new"
		}
		return classOfDB(name)
	}
	for name, a := range after.dbs {
		b, existed := before.dbs[name]
		switch {
		case !existed:
			out[effect{"lifecycle", "new"}] = true
		default:
			if a.loaded != b.loaded {
				out[effect{"lifecycle", cls(name)}] = true
			}
			if a.settings != b.settings {
				out[effect{"settings", cls(name)}] = true
			}
			if a.loaded && b.loaded && a.tx != b.tx {
				out[effect{"content", cls(name)}] = true
			}
		}
	}
	for name := range before.dbs {
		if _, still := after.dbs[name]; !still {
			out[effect{"lifecycle", classOfDB(name)}] = true
		}
	}
	// user list
	userDiff := false
	changedUser := func(name string, b, a userInfo, existed bool) {
		dbs := map[string]bool{}
		for db, v := range a.perDB {
			if !existed || b.perDB[db] != v {
				dbs[db] = true
			}
		}
		for db := range b.perDB {
			if _, ok := a.perDB[db]; !ok {
				dbs[db] = true
			}
		}
		for db := range dbs {
			userDiff = true
			w.lastDetail = append(w.lastDetail, fmt.Sprintf("user %s on %s: %q -> %q", name, db, b.perDB[db], a.perDB[db]))
			c := classOfDB(db)
			if _, ok := after.dbs[db]; !ok && db != dbSys {
				c = "any"
			}
			out[effect{"users", c}] = true
		}
		if len(dbs) == 0 && (!existed || a.active != b.active || a.created != b.created) {
			userDiff = true
			out[effect{"users", "any"}] = true
		}
	}
	for name, a := range after.users {
		b, existed := before.users[name]
		changedUser(name, b, a, existed)
	}
	for name := range before.users {
		if _, still := after.users[name]; !still {
			userDiff = true
			out[effect{"users", "any"}] = true
		}
	}
	// system database: every new transaction is classified by the keys it wrote
	if after.sysTx < before.sysTx {
		vh.Fatalf("system database went back from tx %d to %d", before.sysTx, after.sysTx)
	}
	for tx := before.sysTx + 1; tx <= after.sysTx; tx++ {
		var t *schema.Tx
		vh.Must(w.obsRetry(dbSys, func(ctx context.Context) (e error) { t, e = w.srv.TxById(ctx, &schema.TxRequest{Tx: tx}); return }), "read systemdb tx")
		for _, e := range t.Entries {
			switch {
			case bytes.HasPrefix(e.Key, []byte{0, 1}): // user record
				if !userDiff {
					out[effect{"users", "any"}] = true
				}
			case bytes.HasPrefix(e.Key, []byte{0, 2}): // database settings record
				name := string(e.Key[2:])
				if _, existed := before.dbs[name]; existed {
					if _, still := after.dbs[name]; still {
						out[effect{"settings", classOfDB(name)}] = true
					}
				}
			default:
				out[effect{"content", "system"}] = true
			}
		}
		if len(t.Entries) == 0 {
			out[effect{"content", "system"}] = true
		}
	}
	// data returned: sentinels of a database in any response message
	var blob []byte
	for _, m := range resps {
		b, err := proto.Marshal(m)
		vh.Must(err, "marshal response")
		blob = append(blob, b...)
		blob = append(blob, 0)
	}
	for c, ss := range w.sent {
		for _, s := range ss {
			if bytes.Contains(blob, s) {
				out[effect{"data", c}] = true
				break
			}
		}
	}
	return out
}

// grantedAuth looks for a session id or a token in the responses and finds out, by using it, what it is good for.
func (w *world) grantedAuth(resps []proto.Message, out effectSet) (sessionIDs, tokens []string) {
	w.lastSessionID, w.lastTxID = "", ""
	for _, m := range resps {
		m.ProtoReflect().Range(func(fd protoreflect.FieldDescriptor, v protoreflect.Value) bool {
			if fd.Kind() != protoreflect.StringKind || fd.IsList() || v.String() == "" {
				return true
			}
			switch string(fd.Name()) {
			case "transactionID":
				w.lastTxID = v.String()
			case "sessionID":
				w.lastSessionID = v.String()
				if sess, err := w.srv.SessManager.GetSession(v.String()); err == nil {
					out[effect{"auth", classOfDB(sess.GetDatabase().GetName())}] = true
					sessionIDs = append(sessionIDs, v.String())
				}
			case "token":
				ctx := metadata.AppendToOutgoingContext(context.Background(), "authorization", v.String())
				var st schema.ImmutableState
				if err := w.userInvoke(ctx, "CurrentState", &emptypb.Empty{}, &st); err == nil {
					out[effect{"auth", classOfDB(st.Db)}] = true
					tokens = append(tokens, v.String())
				} else if err := w.userInvoke(ctx, "ListUsers", &emptypb.Empty{}, &schema.UserList{}); err == nil {
					out[effect{"auth", "none"}] = true
					tokens = append(tokens, v.String())
				}
			}
			return true
		})
	}
	return
}

func (w *world) userInvoke(ctx context.Context, method string, req, resp proto.Message) error {
	c, cancel := context.WithTimeout(ctx, 20*time.Second)
	defer cancel()
	return w.conn.Invoke(c, "/immudb.schema.ImmuService/"+method, req, resp)
}
