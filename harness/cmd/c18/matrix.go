package main

import (
	"context"
	"fmt"
	"math/rand"
	"os"
	"runtime"
	"strings"
	"time"

	"github.com/codenotary/immudb/pkg/api/schema"
	"google.golang.org/grpc/metadata"
	"google.golang.org/grpc/status"
	"google.golang.org/protobuf/encoding/protojson"
	"google.golang.org/protobuf/types/known/emptypb"

	"verifharness/vh"
)

// slot is a session or a token of the test user (a slot of Auth.tla).
type slot struct {
	n     int
	kind  string // session | token
	st    string // none | valid | expired | userDeactivated | permissionChanged | loggedOut
	sel   string // own | other | system | none
	id    string // session id
	token string
}

func (s *slot) ctx() context.Context {
	switch {
	case s == nil || s.st == "none":
		return context.Background()
	case s.kind == "session":
		return metadata.AppendToOutgoingContext(context.Background(), "sessionid", s.id)
	default:
		return metadata.AppendToOutgoingContext(context.Background(), "authorization", s.token)
	}
}

func dbOfClass(c string) string {
	switch c {
	case "own":
		return dbOwn
	case "other":
		return dbOther
	case "system":
		return dbSys
	}
	return ""
}

// cell is one call: user x kind x selection x session state x RPC.
type cell struct {
	w        *world
	u        *testUser
	sl       *slot // nil: no authentication at all
	target   string
	selDB    string // database the session has selected ("" = none)
	targetDB string // database the request names where it can name one
	n        int
}

// group = the cells sharing (user, kind, selection, session state)
type group struct {
	w           *world
	u           *testUser
	kind, state string
	sel         string // requested selection
	sl          *slot
	tokens      []string // tokens granted to the user in this epoch (logged out at the end)
	events      []map[string]interface{}
	needsReset  bool
	staleSig    string
	selRefused  bool
	// flow replay: the effects the specification allows for the current request (instead of the matrix lookup),
	// extra request metadata (the transaction id) and the flow so far
	allowed map[string]bool
	extraMD []string
	flow    interface{}
}

var sessStates = []string{"valid", "expired", "userDeactivated", "permissionChanged", "loggedOut"}

func (w *world) runMatrix(roles, kinds, tokenSels []string) {
	w.res.Extra["rpcs"] = len(w.rpcs)
	for _, role := range roles {
		u := w.users[role]
		if u == nil {
			vh.Fatalf("unknown role %q", role)
		}
		for _, sel := range []string{"own", "other", "system"} {
			w.runGroup(u, "session", sel, "none")
		}
		for _, kind := range kinds {
			sels := []string{"own", "other", "system"}
			if kind == "token" {
				sels = tokenSels
			}
			for _, sel := range sels {
				for _, st := range sessStates {
					w.runGroup(u, kind, sel, st)
				}
			}
		}
	}
}

func (g *group) emit(ev map[string]interface{}) int {
	g.events = append(g.events, ev)
	return g.w.emit(ev)
}

// establish brings the user's session / token into the group's state; false = the state cannot be reached.
func (g *group) establish() bool {
	w, u := g.w, g.u
	g.logoutTokens()
	g.events = nil
	g.needsReset = false
	g.emit(map[string]interface{}{"event": "Reset", "role": u.role, "other": u.curoOr()})
	w.forceFull, w.snapOK = true, nil
	if g.state == "none" {
		g.sl = nil
		return true
	}
	if u.role == "SysAdmin" && (g.state == "userDeactivated" || g.state == "permissionChanged") {
		return false // the built-in administrator can be neither deactivated nor re-permissioned
	}
	if g.kind == "token" && g.state == "expired" {
		return false // token expiry has a granularity of minutes
	}
	sl := &slot{n: 1, kind: g.kind, st: "none", sel: "none"}
	g.sl = sl
	if g.kind == "session" {
		open := func(c string) bool {
			var r schema.OpenSessionResponse
			err := w.userInvoke(context.Background(), "OpenSession", &schema.OpenSessionRequest{Username: []byte(u.name), Password: []byte(u.pw), DatabaseName: dbOfClass(c)}, &r)
			g.emit(map[string]interface{}{"event": "OpenSession", "s": 1, "db": c, "granted": err == nil})
			if err == nil {
				sl.st, sl.sel, sl.id = "valid", c, r.SessionID
			}
			return err == nil
		}
		key := "open-refused|" + u.role + "|" + g.sel
		if w.okNone[key] || !open(g.sel) {
			w.okNone[key] = true // observed once per (role, selection): the password check costs ~60 ms
			g.selRefused = true
			if g.sel == "own" || !open("own") {
				return false
			}
			var r schema.UseDatabaseReply
			err := w.userInvoke(sl.ctx(), "UseDatabase", &schema.Database{DatabaseName: dbOfClass(g.sel)}, &r)
			g.emit(map[string]interface{}{"event": "UseDatabase", "s": 1, "db": g.sel, "granted": err == nil})
			if err == nil {
				sl.sel = g.sel
			}
		}
	} else {
		var r schema.LoginResponse
		err := w.userInvoke(context.Background(), "Login", &schema.LoginRequest{User: []byte(u.name), Password: []byte(u.pw)}, &r)
		g.emit(map[string]interface{}{"event": "Login", "s": 1, "granted": err == nil})
		if err != nil {
			return false
		}
		sl.st, sl.token = "valid", r.Token
		g.tokens = append(g.tokens, r.Token)
		use := func(c string) bool {
			var r schema.UseDatabaseReply
			err := w.userInvoke(sl.ctx(), "UseDatabase", &schema.Database{DatabaseName: dbOfClass(c)}, &r)
			g.emit(map[string]interface{}{"event": "UseDatabase", "s": 1, "db": c, "granted": err == nil})
			if err == nil {
				sl.sel, sl.token = c, r.Token
			}
			return err == nil
		}
		if g.sel != "none" && !use(g.sel) {
			g.selRefused = true
			if g.sel != "own" {
				use("own")
			}
		}
	}
	switch g.state {
	case "valid":
	case "expired":
		deadline := time.Now().Add(10 * time.Second)
		for w.srv.SessManager.SessionPresent(sl.id) {
			if time.Now().After(deadline) {
				buf := make([]byte, 1<<20)
				buf = buf[:runtime.Stack(buf, true)]
				for _, gr := range strings.Split(string(buf), "\n\n") {
					if strings.Contains(gr, "sessions.") {
						fmt.Fprintln(os.Stderr, gr)
					}
				}
				vh.Fatalf("session did not expire within 10 s (timeout %v)", sessionTimeout)
			}
			time.Sleep(10 * time.Millisecond)
		}
		sl.st = "expired"
		g.emit(map[string]interface{}{"event": "Expire", "s": 1})
	case "userDeactivated":
		vh.Must(w.setUserActive(u, false), "deactivate "+u.name)
		sl.st = "userDeactivated"
		g.emit(map[string]interface{}{"event": "Deactivate"})
	case "permissionChanged":
		p := map[string]string{"Admin": "R", "RW": "R", "R": "none", "none": "R"}[u.role]
		vh.Must(w.setUserPermission(u, p), "change permission of "+u.name)
		sl.st = "permissionChanged"
		g.emit(map[string]interface{}{"event": "SetPermission", "db": "own", "p": p})
	case "loggedOut":
		var err error
		if g.kind == "session" {
			err = w.userInvoke(sl.ctx(), "CloseSession", &emptypb.Empty{}, &emptypb.Empty{})
		} else {
			err = w.userInvoke(sl.ctx(), "Logout", &emptypb.Empty{}, &emptypb.Empty{})
			g.tokens = nil
		}
		vh.Must(err, "logout of "+u.name)
		sl.st = "loggedOut"
		g.emit(map[string]interface{}{"event": "Logout", "s": 1})
	}
	w.snapOK = nil
	return true
}

// logoutTokens ends the logins the user made in this epoch (the login list is reference counted).
func (g *group) logoutTokens() {
	for i, t := range g.tokens {
		ctx := metadata.AppendToOutgoingContext(context.Background(), "authorization", t)
		err := g.w.userInvoke(ctx, "Logout", &emptypb.Empty{}, &emptypb.Empty{})
		// drain: should a login have gone unnoticed, the last token keeps logging out until the server says the
		// user is not logged in any more (each Logout takes one reference)
		for n := 0; i == len(g.tokens)-1 && err == nil && n < 16; n++ {
			err = g.w.userInvoke(ctx, "Logout", &emptypb.Empty{}, &emptypb.Empty{})
			if err == nil {
				g.w.res.Count("extra-logouts", 1)
			}
		}
	}
	g.tokens = nil
}

// teardown puts the user back into its initial state.
func (g *group) teardown() {
	w, u := g.w, g.u
	g.logoutTokens()
	if !u.active {
		vh.Must(w.setUserActive(u, true), "reactivate "+u.name)
	}
	if u.cur != u.role {
		vh.Must(w.setUserPermission(u, u.role), "restore permission of "+u.name)
	}
	if g.sl != nil && g.sl.kind == "session" && g.sl.st == "valid" {
		w.userInvoke(g.sl.ctx(), "CloseSession", &emptypb.Empty{}, &emptypb.Empty{})
	}
}

func (w *world) runGroup(u *testUser, kind, sel, state string) {
	g := &group{w: w, u: u, kind: kind, sel: sel, state: state}
	gname := fmt.Sprintf("%s/%s/%s/%s", kind, u.role, sel, state)
	t0 := time.Now()
	defer func() { w.res.Count("ms:group-total", int(time.Since(t0).Milliseconds())) }()
	ok := g.establish()
	w.res.Count("ms:establish", int(time.Since(t0).Milliseconds()))
	if !ok {
		g.teardown()
		w.res.Count("groups-unreachable", 1)
		w.res.Count("cells-unreachable", len(w.rpcs))
		return
	}
	w.res.Count("groups", 1)
	// order of the RPCs: seeded shuffle; with an invalidated token the Login row goes last (a successful Login
	// makes the server honour the user's older tokens again, see Auth.tla LoginEffect)
	order := append([]*rpcCase(nil), w.rpcs...)
	rng := rand.New(rand.NewSource(w.seed*1000003 + int64(len(gname))*7919 + hashString(gname)))
	rng.Shuffle(len(order), func(i, j int) { order[i], order[j] = order[j], order[i] })
	if kind == "token" && state != "valid" {
		var rest, logins []*rpcCase
		for _, r := range order {
			if r.key() == "ImmuService/Login" {
				logins = append(logins, r)
			} else {
				rest = append(rest, r)
			}
		}
		order = append(rest, logins...)
	}
	for _, r := range order {
		if g.needsReset {
			g.teardownSessionOnly()
			if !g.establish() {
				vh.Fatalf("group %s could not be re-established", gname)
			}
		}
		g.runCell(r)
	}
	g.teardown()
}

func (g *group) teardownSessionOnly() {
	if g.sl != nil && g.sl.kind == "session" && g.sl.st == "valid" {
		g.w.userInvoke(g.sl.ctx(), "CloseSession", &emptypb.Empty{}, &emptypb.Empty{})
	}
}

func hashString(s string) int64 {
	var h int64 = 1469598103934665603
	for i := 0; i < len(s); i++ {
		h = (h ^ int64(s[i])) * 1099511628211
	}
	if h < 0 {
		h = -h
	}
	return h
}

// runCell performs one call and judges its observed outcome with the policy TLC wrote.
func (g *group) runCell(r *rpcCase) {
	w, u := g.w, g.u
	c := &cell{w: w, u: u, sl: g.sl, target: g.sel, targetDB: dbOfClass(g.sel), n: w.next()}
	if c.targetDB == "" {
		c.targetDB = dbOwn // token without a selected database: requests that name a database name the user's own
		c.target = "own"
	}
	sv := &slot{kind: "session", st: "none", sel: "none"}
	if g.sl != nil {
		sv = g.sl
	}
	c.selDB = dbOfClass(sv.sel)
	tA := time.Now()
	// administrator-side preparation makes the request valid (something to delete, a database to load ...).  With
	// an invalid session it is the expensive part of a cell that is refused at the door: quick tier skips it there.
	prepared := r.spec.prepare != nil && (fullPrepare || sv.st == "valid" || sv.st == "none")
	if prepared {
		r.spec.prepare(c)
	}
	tB := time.Now()
	before := w.snapshot()
	tC := time.Now()
	ctx := g.sl.ctx()
	if len(g.extraMD) > 0 {
		ctx = metadata.AppendToOutgoingContext(ctx, g.extraMD...)
	}
	if r.spec.pre != nil {
		ctx = r.spec.pre(c, ctx)
	}
	reqs := r.spec.build(c)
	t0 := time.Now()
	resps, err := w.invoke(ctx, r, reqs)
	if d := time.Since(t0); d > 5*time.Second {
		w.res.Count("slow-calls", 1)
	}
	w.snapOK = nil
	tD := time.Now()
	after := w.snapshot()
	effs := w.effects(before, after, resps)
	tE := time.Now()
	w.res.Count("ms:prepare", int(tB.Sub(tA).Milliseconds()))
	w.res.Count("ms:snapshot", int(tC.Sub(tB).Milliseconds()+tE.Sub(tD).Milliseconds()))
	w.res.Count("ms:call", int(tD.Sub(tC).Milliseconds()))
	if d := tD.Sub(tC); d > 200*time.Millisecond {
		w.res.Count("slow-rpc:"+r.key(), int(d.Milliseconds()))
	}
	_, toks := w.grantedAuth(resps, effs)
	if r.key() == "ImmuService/Login" {
		g.tokens = append(g.tokens, toks...) // every Login counts in the server's login list: logged out at the end of the epoch
	}
	ok := err == nil
	code := status.Code(err).String()
	// does the RPC need authentication at all?  measured: it was refused without any (state "none" runs first)
	nk := r.key() + "|" + u.role + "|" + c.target
	if g.state == "none" {
		w.okNone[nk] = ok
	}
	okNone, seen := w.okNone[nk]
	if !seen {
		vh.Fatalf("cell %s: no unauthenticated reference call", nk)
	}
	// (a request that carries credentials authenticates itself: its success is judged by the grant it produces)
	authreq := !okNone && !r.spec.creds
	line := g.emit(map[string]interface{}{"event": "Call", "s": slotNo(g.sl), "kind": sv.kind, "sess": sv.st, "sel": sv.sel, "role": u.role, "cur": u.cur, "curo": u.curoOr(),
		"active": u.active, "rpc": r.key(), "target": c.target, "code": code, "err": errText(err), "ok": ok, "authreq": authreq, "creds": r.spec.creds, "effs": effs.list()})
	w.res.Evaluations++
	w.res.Count("cells", 1)
	w.res.Count("cells:"+sv.st, 1)
	if ok {
		w.res.Count("ok:"+sv.st, 1)
		w.res.Count("ok-rpc:"+r.key(), 1)
	}
	for e := range effs {
		w.res.Count("effect:"+e.K, 1)
	}
	// the thin oracle: look every observed effect up in the matrix
	judge := func(k, db string, creds bool) {
		if g.allowed != nil {
			if g.allowed[k+"|"+db] {
				return
			}
		} else {
			key := pkey(sv.kind, sv.st, sv.sel, u.role, u.cur, u.active, k, db, creds)
			permitted, known := w.policy[key]
			if !known {
				vh.Fatalf("the policy matrix has no row %s (cell %s %s): the specification does not reach a state the server was brought into", key, r.key(), g.state)
			}
			if permitted {
				return
			}
		}
		sig := signature(k, db, sv, r.key())
		if g.staleSig != "" && sv.st != "valid" && !strings.HasPrefix(sig, "systemdb-write") {
			sig = g.staleSig // history replay: a request authorised by a session / token the policy considers dead
		}
		if len(w.badLines) == 0 || w.badLines[len(w.badLines)-1] != line {
			w.badLines = append(w.badLines, line)
		}
		var reqJSON []string
		for _, q := range reqs {
			reqJSON = append(reqJSON, protojson.Format(q))
		}
		w.res.Violate(sig, fmt.Sprintf("%s as user %s (role %s, current permission %s, active %v) with %s %s selecting %s, request aimed at %s: status %s, observed effects %v; the policy forbids %s on %s",
			r.key(), u.name, u.role, u.cur, u.active, sv.kind, sv.st, sv.sel, c.target, code, effs.list(), k, db),
			map[string]interface{}{"line": line, "rpc": r.key(), "role": u.role, "cur": u.cur, "active": u.active, "kind": sv.kind, "session": sv.st,
				"selection": sv.sel, "target": c.target, "status": code, "effects": effs.list(), "forbidden": effect{k, db}, "requests": reqJSON, "detail": w.lastDetail, "epoch": g.events, "flow": g.flow, "curo": u.curoOr()})
	}
	for e := range effs {
		judge(e.K, e.Db, r.spec.creds && e.K == "auth")
	}
	if ok && authreq {
		judge("authok", "none", false)
	}
	if len(w.res.Samples) < 4 && len(effs) > 0 {
		w.res.Sample(map[string]interface{}{"rpc": r.key(), "role": u.role, "kind": sv.kind, "session": sv.st, "selection": sv.sel, "status": code, "effects": effs.list()}, 4)
	}
	if r.spec.restore != nil && (prepared || r.spec.prepare == nil) {
		r.spec.restore(c)
	}
	// is the cell's session still what the next cell expects?
	if g.state == "valid" && g.sl != nil {
		if r.spec.disrupt || !g.stillValid() {
			g.needsReset = true
		}
	}
}

func errText(err error) string {
	if err == nil {
		return ""
	}
	t := err.Error()
	if len(t) > 160 {
		t = t[:160]
	}
	return t
}

func slotNo(s *slot) int {
	if s == nil {
		return 0
	}
	return s.n
}

func (g *group) stillValid() bool {
	sl := g.sl
	if sl.kind == "session" {
		sess, err := g.w.srv.SessManager.GetSession(sl.id)
		return err == nil && classOfDB(sess.GetDatabase().GetName()) == sl.sel && !sess.GetDatabase().IsClosed()
	}
	if sl.sel == "none" {
		return g.w.userInvoke(sl.ctx(), "ListUsers", &emptypb.Empty{}, &schema.UserList{}) == nil
	}
	var st schema.ImmutableState
	return g.w.userInvoke(sl.ctx(), "CurrentState", &emptypb.Empty{}, &st) == nil && classOfDB(st.Db) == sl.sel
}

// signature: what is forbidden : call site.  Specific enough that another defect gets another signature.
func signature(k, db string, sv *slot, rpc string) string {
	what := ""
	switch {
	case (k == "content" || k == "settings" || k == "lifecycle") && db == "system":
		what = "systemdb-write"
	case sv.st != "valid" && k == "authok":
		what = "success-with-invalid-session:" + sv.kind + ":" + sv.st
	case sv.st != "valid":
		what = k + "-with-invalid-session:" + sv.kind + ":" + sv.st
	case k == "content":
		what = "write-without-permission"
	case k == "settings":
		what = "settings-change-without-permission"
	case k == "data":
		what = "data-without-read-permission"
	case k == "users" || k == "lifecycle":
		what = "admin-effect-without-admin-rights:" + k
	case k == "auth":
		what = "grant-without-entitlement"
	default:
		what = k
	}
	return what + ":" + rpc
}
