package main

import (
	"context"
	"encoding/binary"
	"fmt"
	"io"
	"sort"
	"time"

	"github.com/codenotary/immudb/pkg/api/protomodel"
	"github.com/codenotary/immudb/pkg/api/schema"
	"github.com/codenotary/immudb/pkg/stream"
	"google.golang.org/grpc"
	"google.golang.org/grpc/metadata"
	"google.golang.org/protobuf/proto"
	"google.golang.org/protobuf/reflect/protoreflect"
	"google.golang.org/protobuf/reflect/protoregistry"
	"google.golang.org/protobuf/types/known/emptypb"
	"google.golang.org/protobuf/types/known/structpb"

	"verifharness/vh"
)

// rpcCase is one row of the matrix: an RPC of a service descriptor plus a request builder.
type rpcCase struct {
	svc, method, variant string
	full                 string
	unary, cs, ss        bool
	in, out              protoreflect.MessageType
	spec                 *variant
}

func (r *rpcCase) key() string {
	k := r.svc + "/" + r.method
	if r.variant != "" {
		k += "#" + r.variant
	}
	return k
}

// variant is a request builder for an RPC.
type variant struct {
	name    string
	creds   bool                                               // the request carries credentials (OpenSession, Login)
	disrupt bool                                               // the cell's session has to be re-established afterwards
	build   func(c *cell) []proto.Message                      // the request(s)
	prepare func(c *cell)                                      // administrator-side preparation (before the snapshot)
	pre     func(c *cell, ctx context.Context) context.Context // user-side preceding calls (inside the observed window)
	restore func(c *cell)                                      // administrator-side repair (after the snapshot)
}

var services = []*grpc.ServiceDesc{&schema.ImmuService_ServiceDesc, &protomodel.AuthorizationService_ServiceDesc, &protomodel.DocumentService_ServiceDesc}

// enumerateRPCs takes the rows FROM THE SERVICE DESCRIPTORS; an RPC without a request builder is a fault.
func enumerateRPCs() []*rpcCase {
	tbl := builders()
	used := map[string]bool{}
	var out []*rpcCase
	for _, sd := range services {
		d, err := protoregistry.GlobalFiles.FindDescriptorByName(protoreflect.FullName(sd.ServiceName))
		vh.Must(err, "descriptor of "+sd.ServiceName)
		svc := d.(protoreflect.ServiceDescriptor)
		short := string(svc.Name())
		add := func(name string, unary, cs, ss bool) {
			md := svc.Methods().ByName(protoreflect.Name(name))
			if md == nil {
				vh.Fatalf("method %s/%s is in the grpc.ServiceDesc but not in the proto descriptor", short, name)
			}
			in, err := protoregistry.GlobalTypes.FindMessageByName(md.Input().FullName())
			vh.Must(err, "input type of "+name)
			o, err := protoregistry.GlobalTypes.FindMessageByName(md.Output().FullName())
			vh.Must(err, "output type of "+name)
			vs, ok := tbl[short+"/"+name]
			if !ok || len(vs) == 0 {
				vh.Fatalf("RPC %s/%s (%s -> %s) has no request builder in harness/cmd/c18/rpcs.go: add one (an RPC is never silently skipped)",
					short, name, md.Input().FullName(), md.Output().FullName())
			}
			used[short+"/"+name] = true
			for i := range vs {
				out = append(out, &rpcCase{svc: short, method: name, variant: vs[i].name, full: "/" + sd.ServiceName + "/" + name,
					unary: unary, cs: cs, ss: ss, in: in, out: o, spec: &vs[i]})
			}
		}
		for _, m := range sd.Methods {
			add(m.MethodName, true, false, false)
		}
		for _, m := range sd.Streams {
			add(m.StreamName, false, m.ClientStreams, m.ServerStreams)
		}
	}
	for k := range tbl {
		if !used[k] {
			vh.Fatalf("request builder for %s matches no RPC of the service descriptors", k)
		}
	}
	sort.Slice(out, func(i, j int) bool { return out[i].key() < out[j].key() })
	return out
}

// invoke performs the call generically (unary Invoke / NewStream) and returns every response message.
func (w *world) invoke(ctx context.Context, r *rpcCase, reqs []proto.Message) (resps []proto.Message, err error) {
	ctx, cancel := context.WithTimeout(ctx, 20*time.Second)
	defer cancel()
	for _, q := range reqs {
		if q.ProtoReflect().Descriptor().FullName() != r.in.Descriptor().FullName() {
			vh.Fatalf("builder of %s produced a %s, the RPC takes %s", r.key(), q.ProtoReflect().Descriptor().FullName(), r.in.Descriptor().FullName())
		}
	}
	if r.unary {
		out := r.out.New().Interface()
		if err = w.conn.Invoke(ctx, r.full, reqs[0], out); err == nil {
			resps = append(resps, out)
		}
		return resps, err
	}
	st, err := w.conn.NewStream(ctx, &grpc.StreamDesc{StreamName: r.method, ClientStreams: r.cs, ServerStreams: r.ss}, r.full)
	if err != nil {
		return nil, err
	}
	for _, q := range reqs {
		if e := st.SendMsg(q); e != nil {
			break // the status is delivered by RecvMsg
		}
	}
	st.CloseSend()
	for {
		out := r.out.New().Interface()
		e := st.RecvMsg(out)
		if e == io.EOF {
			return resps, nil
		}
		if e != nil {
			return resps, e
		}
		resps = append(resps, out)
	}
}

// ---------------------------------------------------------------- stream chunks

func msgChunk(payload []byte) *schema.Chunk {
	b := make([]byte, 8+len(payload))
	binary.BigEndian.PutUint64(b, uint64(len(payload)))
	copy(b[8:], payload)
	return &schema.Chunk{Content: b}
}

func chunks(payloads ...[]byte) []proto.Message {
	out := make([]proto.Message, len(payloads))
	for i, p := range payloads {
		out[i] = msgChunk(p)
	}
	return out
}

func one(m proto.Message) []proto.Message { return []proto.Message{m} }

func u64(n uint64) []byte {
	b := make([]byte, 8)
	binary.BigEndian.PutUint64(b, n)
	return b
}

// ---------------------------------------------------------------- the table of request builders

const fixKey = "skey-fixture"

func (c *cell) key(tag string) []byte { return []byte(fmt.Sprintf("k-%s-%d", tag, c.n)) }

func docWith(name string) *structpb.Struct {
	s, err := structpb.NewStruct(map[string]interface{}{"name": name})
	vh.Must(err, "structpb")
	return s
}

func queryName(col, name string) *protomodel.Query {
	return &protomodel.Query{CollectionName: col, Expressions: []*protomodel.QueryExpression{{FieldComparisons: []*protomodel.FieldComparison{
		{Field: "name", Operator: protomodel.ComparisonOperator_EQ, Value: structpb.NewStringValue(name)}}}}, Limit: 1}
}

// newTx opens an interactive SQL transaction with the cell's own authentication (part of the observed window).
func newTx(stmt string) func(c *cell, ctx context.Context) context.Context {
	return func(c *cell, ctx context.Context) context.Context {
		var r schema.NewTxResponse
		if err := c.w.conn.Invoke(ctx, "/immudb.schema.ImmuService/NewTx", &schema.NewTxRequest{Mode: schema.TxMode_ReadWrite}, &r); err != nil {
			return ctx
		}
		ctx = metadata.AppendToOutgoingContext(ctx, "transactionid", r.TransactionID)
		if stmt != "" {
			c.w.conn.Invoke(ctx, "/immudb.schema.ImmuService/TxSQLExec", &schema.SQLExecRequest{Sql: fmt.Sprintf(stmt, c.n)}, &emptypb.Empty{})
		}
		return ctx
	}
}

func builders() map[string][]variant {
	empty := func(c *cell) []proto.Message { return one(&emptypb.Empty{}) }
	kv := func(c *cell, tag string) *schema.KeyValue {
		return &schema.KeyValue{Key: c.key(tag), Value: []byte("v")}
	}
	keyReq := func(c *cell) *schema.KeyRequest { return &schema.KeyRequest{Key: []byte(fixKey)} }
	refReq := func(c *cell) *schema.ReferenceRequest {
		return &schema.ReferenceRequest{Key: c.key("ref"), ReferencedKey: []byte(fixKey)}
	}
	zaddReq := func(c *cell) *schema.ZAddRequest {
		return &schema.ZAddRequest{Set: []byte("zset-fixture"), Score: float64(c.n), Key: []byte(fixKey)}
	}
	sqlWrite := "CREATE TABLE IF NOT EXISTS wt(id INTEGER AUTO_INCREMENT, v VARCHAR[32], PRIMARY KEY id); INSERT INTO wt(v) VALUES ('w%d')"
	sqlRead := "SELECT id, v FROM t1"
	// administrator-side helpers -------------------------------------------------------------------------
	unloadTarget := func(c *cell) {
		if c.targetDB != dbSys {
			c.w.adminCall(dbDef, "UnloadDatabase", &schema.UnloadDatabaseRequest{Database: c.targetDB}, &schema.UnloadDatabaseResponse{})
		}
	}
	repairTarget := func(c *cell) { c.w.ensureDatabases() }
	dropNewDBs := func(c *cell) { c.w.dropExtraDatabases() }
	setKey := func(tag string) func(c *cell) {
		return func(c *cell) {
			if c.selDB != dbSys && c.selDB != "" {
				c.w.adminCall(c.selDB, "Set", &schema.SetRequest{KVs: []*schema.KeyValue{{Key: c.key(tag), Value: []byte("v")}}}, &schema.TxHeader{})
			}
		}
	}
	docPrep := func(f func(c *cell)) func(c *cell) {
		return func(c *cell) {
			if c.selDB == "" {
				return
			}
			c.w.ensureDocFixture(c.selDB)
			if f != nil {
				f(c)
			}
		}
	}
	docAdmin := func(c *cell, method string, req, resp proto.Message) {
		c.w.adminInvoke(c.selDB, "/immudb.model.DocumentService/"+method, req, resp)
	}
	fieldName := func(c *cell) string { return fmt.Sprintf("f%d", c.n) }

	t := map[string][]variant{}
	imm := func(name string, vs ...variant) { t["ImmuService/"+name] = vs }
	doc := func(name string, vs ...variant) { t["DocumentService/"+name] = vs }
	aut := func(name string, vs ...variant) { t["AuthorizationService/"+name] = vs }
	b := func(f func(c *cell) []proto.Message) variant { return variant{build: f} }

	// ---- user management
	imm("ListUsers", b(empty))
	imm("CreateUser", b(func(c *cell) []proto.Message {
		return one(&schema.CreateUserRequest{User: []byte(fmt.Sprintf("nu%d", c.n)), Password: []byte(userPw), Permission: 1, Database: c.targetDB})
	}))
	imm("ChangePassword", b(func(c *cell) []proto.Message {
		return one(&schema.ChangePasswordRequest{User: []byte(c.w.victimA), OldPassword: []byte(userPw), NewPassword: []byte(fmt.Sprintf("Newpass!%d", c.n))})
	}))
	imm("ChangePermission", variant{prepare: func(c *cell) {
		// the victim holds an SQL privilege on the OTHER database, so that a side effect there is observable
		c.w.adminCall(dbDef, "ChangeSQLPrivileges", &schema.ChangeSQLPrivilegesRequest{Action: schema.PermissionAction_GRANT, Username: c.w.victim,
			Database: dbOther, Privileges: []string{"SELECT"}}, &schema.ChangeSQLPrivilegesResponse{})
	}, build: func(c *cell) []proto.Message {
		p := uint32(1 + c.n%2)
		if c.targetDB == dbSys {
			p = 1
		}
		return one(&schema.ChangePermissionRequest{Action: schema.PermissionAction_GRANT, Username: c.w.victim, Database: c.targetDB, Permission: p})
	}})
	imm("ChangeSQLPrivileges", b(func(c *cell) []proto.Message {
		a := schema.PermissionAction_GRANT
		if c.n%2 == 0 {
			a = schema.PermissionAction_REVOKE
		}
		return one(&schema.ChangeSQLPrivilegesRequest{Action: a, Username: c.w.victim, Database: c.targetDB, Privileges: []string{"UPDATE"}})
	}))
	imm("SetActiveUser", variant{build: func(c *cell) []proto.Message {
		return one(&schema.SetActiveUserRequest{Username: c.w.victimA, Active: false})
	}, restore: func(c *cell) {
		c.w.adminCall(dbDef, "SetActiveUser", &schema.SetActiveUserRequest{Username: c.w.victimA, Active: true}, &emptypb.Empty{})
	}})
	imm("UpdateAuthConfig", b(func(c *cell) []proto.Message { return one(&schema.AuthConfig{Kind: 1}) }))
	imm("UpdateMTLSConfig", b(func(c *cell) []proto.Message { return one(&schema.MTLSConfig{Enabled: false}) }))

	// ---- sessions, tokens, interactive transactions
	imm("OpenSession", variant{creds: true, build: func(c *cell) []proto.Message {
		return one(&schema.OpenSessionRequest{Username: []byte(c.u.name), Password: []byte(c.u.pw), DatabaseName: c.targetDB})
	}})
	imm("CloseSession", variant{disrupt: true, build: empty})
	imm("KeepAlive", b(empty))
	imm("NewTx", b(func(c *cell) []proto.Message { return one(&schema.NewTxRequest{Mode: schema.TxMode_ReadWrite}) }))
	imm("Commit", variant{build: empty, pre: newTx("CREATE TABLE txt%d(id INTEGER, PRIMARY KEY id)")})
	imm("Rollback", variant{build: empty, pre: newTx("CREATE TABLE txr%d(id INTEGER, PRIMARY KEY id)")})
	imm("TxSQLExec", variant{pre: newTx(""), build: func(c *cell) []proto.Message {
		return one(&schema.SQLExecRequest{Sql: fmt.Sprintf("CREATE TABLE txe%d(id INTEGER, PRIMARY KEY id)", c.n)})
	}}, variant{name: "commit", pre: newTx(""), build: func(c *cell) []proto.Message {
		return one(&schema.SQLExecRequest{Sql: fmt.Sprintf("CREATE TABLE txc%d(id INTEGER, PRIMARY KEY id); COMMIT;", c.n)})
	}})
	imm("TxSQLQuery", variant{pre: newTx(""), build: func(c *cell) []proto.Message { return one(&schema.SQLQueryRequest{Sql: sqlRead}) }})
	imm("Login", variant{creds: true, build: func(c *cell) []proto.Message {
		return one(&schema.LoginRequest{User: []byte(c.u.name), Password: []byte(c.u.pw)})
	}})
	imm("Logout", variant{disrupt: true, build: empty})
	imm("UseDatabase", variant{disrupt: true, build: func(c *cell) []proto.Message { return one(&schema.Database{DatabaseName: c.targetDB}) }})

	// ---- key-value
	imm("Set", b(func(c *cell) []proto.Message { return one(&schema.SetRequest{KVs: []*schema.KeyValue{kv(c, "set")}}) }))
	imm("VerifiableSet", b(func(c *cell) []proto.Message {
		return one(&schema.VerifiableSetRequest{SetRequest: &schema.SetRequest{KVs: []*schema.KeyValue{kv(c, "vset")}}, ProveSinceTx: 1})
	}))
	imm("Get", b(func(c *cell) []proto.Message { return one(keyReq(c)) }))
	imm("VerifiableGet", b(func(c *cell) []proto.Message {
		return one(&schema.VerifiableGetRequest{KeyRequest: keyReq(c), ProveSinceTx: 1})
	}))
	imm("Delete", variant{prepare: setKey("del"), build: func(c *cell) []proto.Message {
		return one(&schema.DeleteKeysRequest{Keys: [][]byte{c.key("del")}})
	}})
	imm("GetAll", b(func(c *cell) []proto.Message { return one(&schema.KeyListRequest{Keys: [][]byte{[]byte(fixKey)}}) }))
	imm("ExecAll", b(func(c *cell) []proto.Message {
		return one(&schema.ExecAllRequest{Operations: []*schema.Op{{Operation: &schema.Op_Kv{Kv: kv(c, "execall")}}}})
	}))
	imm("Scan", b(func(c *cell) []proto.Message { return one(&schema.ScanRequest{Prefix: []byte("skey")}) }))
	imm("Count", b(func(c *cell) []proto.Message { return one(&schema.KeyPrefix{Prefix: []byte("skey")}) }))
	imm("CountAll", b(empty))
	imm("TxById", b(func(c *cell) []proto.Message { return one(&schema.TxRequest{Tx: c.w.fixTx(c.selDB)}) }))
	imm("VerifiableTxById", b(func(c *cell) []proto.Message {
		return one(&schema.VerifiableTxRequest{Tx: c.w.fixTx(c.selDB), ProveSinceTx: 1})
	}))
	imm("TxScan", b(func(c *cell) []proto.Message { return one(&schema.TxScanRequest{InitialTx: 1, Limit: 20}) }))
	imm("History", b(func(c *cell) []proto.Message { return one(&schema.HistoryRequest{Key: []byte(fixKey)}) }))
	imm("ServerInfo", b(func(c *cell) []proto.Message { return one(&schema.ServerInfoRequest{}) }))
	imm("Health", b(empty))
	imm("DatabaseHealth", b(empty))
	imm("CurrentState", b(empty))
	imm("SetReference", b(func(c *cell) []proto.Message { return one(refReq(c)) }))
	imm("VerifiableSetReference", b(func(c *cell) []proto.Message {
		return one(&schema.VerifiableReferenceRequest{ReferenceRequest: refReq(c), ProveSinceTx: 1})
	}))
	imm("ZAdd", b(func(c *cell) []proto.Message { return one(zaddReq(c)) }))
	imm("VerifiableZAdd", b(func(c *cell) []proto.Message {
		return one(&schema.VerifiableZAddRequest{ZAddRequest: zaddReq(c), ProveSinceTx: 1})
	}))
	imm("ZScan", b(func(c *cell) []proto.Message { return one(&schema.ZScanRequest{Set: []byte("zset-fixture")}) }))

	// ---- database life cycle and settings
	imm("CreateDatabase", variant{restore: dropNewDBs, build: func(c *cell) []proto.Message {
		return one(&schema.Database{DatabaseName: fmt.Sprintf("newdb%d", c.n)})
	}})
	imm("CreateDatabaseWith", variant{restore: dropNewDBs, build: func(c *cell) []proto.Message {
		return one(&schema.DatabaseSettings{DatabaseName: fmt.Sprintf("newdb%d", c.n)})
	}})
	imm("CreateDatabaseV2", variant{restore: dropNewDBs, build: func(c *cell) []proto.Message {
		return one(&schema.CreateDatabaseRequest{Name: fmt.Sprintf("newdb%d", c.n), Settings: tinySettings()})
	}})
	imm("LoadDatabase", variant{disrupt: true, prepare: unloadTarget, restore: repairTarget, build: func(c *cell) []proto.Message {
		return one(&schema.LoadDatabaseRequest{Database: c.targetDB})
	}})
	imm("UnloadDatabase", variant{disrupt: true, restore: repairTarget, build: func(c *cell) []proto.Message {
		return one(&schema.UnloadDatabaseRequest{Database: c.targetDB})
	}})
	imm("DeleteDatabase", variant{disrupt: true, prepare: unloadTarget, restore: repairTarget, build: func(c *cell) []proto.Message {
		return one(&schema.DeleteDatabaseRequest{Database: c.targetDB})
	}})
	imm("DatabaseList", b(empty))
	imm("DatabaseListV2", b(func(c *cell) []proto.Message { return one(&schema.DatabaseListRequestV2{}) }))
	imm("UpdateDatabase", b(func(c *cell) []proto.Message { return one(&schema.DatabaseSettings{DatabaseName: c.targetDB}) }))
	imm("UpdateDatabaseV2", b(func(c *cell) []proto.Message {
		return one(&schema.UpdateDatabaseRequest{Database: c.targetDB, Settings: &schema.DatabaseNullableSettings{
			MaxConcurrency: &schema.NullableUint32{Value: uint32(10 + c.n%7)}}})
	}))
	imm("GetDatabaseSettings", b(empty))
	imm("GetDatabaseSettingsV2", b(func(c *cell) []proto.Message { return one(&schema.DatabaseSettingsRequest{}) }))
	imm("FlushIndex", b(func(c *cell) []proto.Message {
		return one(&schema.FlushIndexRequest{CleanupPercentage: 1, Synced: false})
	}))
	imm("CompactIndex", b(empty))
	imm("TruncateDatabase", b(func(c *cell) []proto.Message {
		return one(&schema.TruncateDatabaseRequest{Database: c.targetDB, RetentionPeriod: (48 * time.Hour).Milliseconds()})
	}))

	// ---- SQL
	imm("SQLExec", b(func(c *cell) []proto.Message { return one(&schema.SQLExecRequest{Sql: fmt.Sprintf(sqlWrite, c.n)}) }),
		variant{name: "createuser", build: func(c *cell) []proto.Message {
			return one(&schema.SQLExecRequest{Sql: fmt.Sprintf("CREATE USER squ%d WITH PASSWORD '%s' READ", c.n, userPw)})
		}},
		variant{name: "createdb", restore: dropNewDBs, build: func(c *cell) []proto.Message {
			return one(&schema.SQLExecRequest{Sql: fmt.Sprintf("CREATE DATABASE newdb%d", c.n)})
		}},
		variant{name: "grant", build: func(c *cell) []proto.Message {
			return one(&schema.SQLExecRequest{Sql: fmt.Sprintf("GRANT UPDATE ON DATABASE %s TO USER %s", c.targetDB, c.w.victim)})
		}})
	imm("UnarySQLQuery", b(func(c *cell) []proto.Message { return one(&schema.SQLQueryRequest{Sql: sqlRead}) }))
	imm("SQLQuery", b(func(c *cell) []proto.Message { return one(&schema.SQLQueryRequest{Sql: sqlRead}) }))
	imm("ListTables", b(empty))
	imm("DescribeTable", b(func(c *cell) []proto.Message { return one(&schema.Table{TableName: "t1"}) }))
	imm("VerifiableSQLGet", b(func(c *cell) []proto.Message {
		return one(&schema.VerifiableSQLGetRequest{SqlGetRequest: &schema.SQLGetRequest{Table: "t1",
			PkValues: []*schema.SQLValue{{Value: &schema.SQLValue_N{N: 1}}}}, ProveSinceTx: 1})
	}))

	// ---- streams
	imm("streamGet", b(func(c *cell) []proto.Message { return one(keyReq(c)) }))
	imm("streamSet", b(func(c *cell) []proto.Message { return chunks(c.key("sset"), []byte("v")) }))
	imm("streamVerifiableGet", b(func(c *cell) []proto.Message {
		return one(&schema.VerifiableGetRequest{KeyRequest: keyReq(c), ProveSinceTx: 1})
	}))
	imm("streamVerifiableSet", b(func(c *cell) []proto.Message { return chunks(u64(1), c.key("svset"), []byte("v")) }))
	imm("streamScan", b(func(c *cell) []proto.Message { return one(&schema.ScanRequest{Prefix: []byte("skey")}) }))
	imm("streamZScan", b(func(c *cell) []proto.Message { return one(&schema.ZScanRequest{Set: []byte("zset-fixture")}) }))
	imm("streamHistory", b(func(c *cell) []proto.Message { return one(&schema.HistoryRequest{Key: []byte(fixKey)}) }))
	imm("streamExecAll", b(func(c *cell) []proto.Message {
		return chunks([]byte{stream.TOp_Kv}, c.key("sexec"), []byte("v"))
	}))
	imm("exportTx", b(func(c *cell) []proto.Message { return one(&schema.ExportTxRequest{Tx: c.w.fixTx(c.selDB)}) }))
	imm("streamExportTx", b(func(c *cell) []proto.Message { return one(&schema.ExportTxRequest{Tx: c.w.fixTx(c.selDB)}) }))
	imm("replicateTx", b(func(c *cell) []proto.Message { return chunks(c.w.exportedTx) }))

	// ---- authorization service
	aut("OpenSession", variant{creds: true, build: func(c *cell) []proto.Message {
		return one(&protomodel.OpenSessionRequest{Username: c.u.name, Password: c.u.pw, Database: c.targetDB})
	}})
	aut("KeepAlive", b(func(c *cell) []proto.Message { return one(&protomodel.KeepAliveRequest{}) }))
	aut("CloseSession", variant{disrupt: true, build: func(c *cell) []proto.Message { return one(&protomodel.CloseSessionRequest{}) }})

	// ---- documents
	doc("CreateCollection", b(func(c *cell) []proto.Message {
		return one(&protomodel.CreateCollectionRequest{Name: fmt.Sprintf("col%d", c.n), Fields: []*protomodel.Field{{Name: "name", Type: protomodel.FieldType_STRING}}})
	}))
	doc("GetCollections", variant{prepare: docPrep(nil), build: func(c *cell) []proto.Message { return one(&protomodel.GetCollectionsRequest{}) }})
	doc("GetCollection", variant{prepare: docPrep(nil), build: func(c *cell) []proto.Message { return one(&protomodel.GetCollectionRequest{Name: "c1"}) }})
	doc("UpdateCollection", variant{prepare: docPrep(nil), build: func(c *cell) []proto.Message {
		return one(&protomodel.UpdateCollectionRequest{Name: "c1", DocumentIdFieldName: fmt.Sprintf("docid%d", c.n)})
	}})
	doc("DeleteCollection", variant{prepare: docPrep(func(c *cell) {
		docAdmin(c, "CreateCollection", &protomodel.CreateCollectionRequest{Name: fmt.Sprintf("cdel%d", c.n)}, &protomodel.CreateCollectionResponse{})
	}), build: func(c *cell) []proto.Message {
		return one(&protomodel.DeleteCollectionRequest{Name: fmt.Sprintf("cdel%d", c.n)})
	}})
	doc("AddField", variant{prepare: docPrep(nil), build: func(c *cell) []proto.Message {
		return one(&protomodel.AddFieldRequest{CollectionName: "c1", Field: &protomodel.Field{Name: fieldName(c), Type: protomodel.FieldType_STRING}})
	}})
	doc("RemoveField", variant{prepare: docPrep(func(c *cell) {
		docAdmin(c, "AddField", &protomodel.AddFieldRequest{CollectionName: "c1", Field: &protomodel.Field{Name: fieldName(c), Type: protomodel.FieldType_STRING}}, &protomodel.AddFieldResponse{})
	}), build: func(c *cell) []proto.Message {
		return one(&protomodel.RemoveFieldRequest{CollectionName: "c1", FieldName: fieldName(c)})
	}})
	doc("CreateIndex", variant{prepare: docPrep(func(c *cell) {
		docAdmin(c, "AddField", &protomodel.AddFieldRequest{CollectionName: "c1", Field: &protomodel.Field{Name: fieldName(c), Type: protomodel.FieldType_STRING}}, &protomodel.AddFieldResponse{})
	}), build: func(c *cell) []proto.Message {
		return one(&protomodel.CreateIndexRequest{CollectionName: "c1", Fields: []string{fieldName(c)}})
	}})
	doc("DeleteIndex", variant{prepare: docPrep(func(c *cell) {
		docAdmin(c, "AddField", &protomodel.AddFieldRequest{CollectionName: "c1", Field: &protomodel.Field{Name: fieldName(c), Type: protomodel.FieldType_STRING}}, &protomodel.AddFieldResponse{})
		docAdmin(c, "CreateIndex", &protomodel.CreateIndexRequest{CollectionName: "c1", Fields: []string{fieldName(c)}}, &protomodel.CreateIndexResponse{})
	}), build: func(c *cell) []proto.Message {
		return one(&protomodel.DeleteIndexRequest{CollectionName: "c1", Fields: []string{fieldName(c)}})
	}})
	doc("InsertDocuments", variant{prepare: docPrep(nil), build: func(c *cell) []proto.Message {
		return one(&protomodel.InsertDocumentsRequest{CollectionName: "c1", Documents: []*structpb.Struct{docWith(fmt.Sprintf("ins%d", c.n))}})
	}})
	doc("ReplaceDocuments", variant{prepare: docPrep(func(c *cell) {
		docAdmin(c, "InsertDocuments", &protomodel.InsertDocumentsRequest{CollectionName: "c1", Documents: []*structpb.Struct{docWith(fmt.Sprintf("rep%d", c.n))}}, &protomodel.InsertDocumentsResponse{})
	}), build: func(c *cell) []proto.Message {
		return one(&protomodel.ReplaceDocumentsRequest{Query: queryName("c1", fmt.Sprintf("rep%d", c.n)), Document: docWith(fmt.Sprintf("replaced%d", c.n))})
	}})
	doc("DeleteDocuments", variant{prepare: docPrep(func(c *cell) {
		docAdmin(c, "InsertDocuments", &protomodel.InsertDocumentsRequest{CollectionName: "c1", Documents: []*structpb.Struct{docWith(fmt.Sprintf("deld%d", c.n))}}, &protomodel.InsertDocumentsResponse{})
	}), build: func(c *cell) []proto.Message {
		return one(&protomodel.DeleteDocumentsRequest{Query: queryName("c1", fmt.Sprintf("deld%d", c.n))})
	}})
	doc("SearchDocuments", variant{prepare: docPrep(nil), build: func(c *cell) []proto.Message {
		return one(&protomodel.SearchDocumentsRequest{Query: &protomodel.Query{CollectionName: "c1"}, Page: 1, PageSize: 20})
	}})
	doc("CountDocuments", variant{prepare: docPrep(nil), build: func(c *cell) []proto.Message {
		return one(&protomodel.CountDocumentsRequest{Query: &protomodel.Query{CollectionName: "c1"}})
	}})
	doc("AuditDocument", variant{prepare: docPrep(nil), build: func(c *cell) []proto.Message {
		return one(&protomodel.AuditDocumentRequest{CollectionName: "c1", DocumentId: c.w.docID[c.selDB], Page: 1, PageSize: 10})
	}})
	doc("ProofDocument", variant{prepare: docPrep(nil), build: func(c *cell) []proto.Message {
		return one(&protomodel.ProofDocumentRequest{CollectionName: "c1", DocumentId: c.w.docID[c.selDB]})
	}})
	return t
}
