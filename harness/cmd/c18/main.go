// c18: access-control conformance of the real immudb server (all gRPC services, real interceptor
// chain, in-process over bufconn) against spec/Auth.tla.
//
//	-mode matrix : every RPC of the service descriptors x role x database selection x session state;
//	               the effect of every call is OBSERVED (before/after snapshots of every database, of the
//	               user list and of the system database's new transactions, sentinel data in responses,
//	               sessions/tokens granted) and judged with the matrix TLC wrote (policy mode of Auth.tla).
//	-mode hist   : replays TLC histories (counterexamples of the code model, simulated behaviours) on a
//	               fresh user and compares the acceptance of every session/token with the spec after every step.
//
// Every request is also written to an ndjson trace that TLC validates against spec/TraceAuth.tla.
package main

import (
	"context"
	"encoding/json"
	"flag"
	"fmt"
	"io"
	"net"
	"os"
	"runtime/pprof"
	"strings"
	"time"

	"github.com/codenotary/immudb/embedded/logger"
	"github.com/codenotary/immudb/pkg/server"
	"github.com/codenotary/immudb/pkg/server/sessions"
	"google.golang.org/grpc"
	"google.golang.org/grpc/credentials/insecure"
	"google.golang.org/grpc/test/bufconn"

	"verifharness/vh"
)

var realStdout *os.File
var fullPrepare bool

func main() {
	mode := flag.String("mode", "matrix", "matrix | hist | flow | list")
	policy := flag.String("policy", "", "policy matrix written by TLC (JSON: {rows:[...]})")
	histf := flag.String("hist", "", "histories to replay (JSON)")
	flowf := flag.String("flows", "", "multi-database flows to replay (JSON)")
	tracef := flag.String("trace", "", "ndjson trace output")
	dir := flag.String("dir", "", "scratch directory for the server's data")
	seed := flag.Int64("seed", 1, "seed")
	roles := flag.String("roles", "none,R,RW,Admin,SysAdmin", "roles handled by this process")
	kinds := flag.String("kinds", "session,token", "authentication kinds")
	tokenSels := flag.String("tokensels", "own,other,system,none", "database selections exercised with token authentication")
	flag.BoolVar(&fullPrepare, "fullprepare", false, "run the administrator-side preparation of a request also in cells whose session is invalid")
	flag.Parse()
	if *dir == "" {
		vh.Fatalf("-dir is required")
	}
	// the server prints its banner and the session guard logs to os.Stdout: keep the real stdout for the result
	realStdout = os.Stdout
	devnull, err := os.OpenFile(os.DevNull, os.O_WRONLY, 0)
	vh.Must(err, "open devnull")
	os.Stdout = devnull

	if pf := os.Getenv("C18_PPROF"); pf != "" {
		f, _ := os.Create(pf)
		pprof.StartCPUProfile(f)
		defer pprof.StopCPUProfile()
	}
	res := vh.NewResult()
	w := newWorld(*dir, *seed, res)
	switch *mode {
	case "list":
		for _, r := range w.rpcs {
			fmt.Fprintln(realStdout, r.key())
		}
		return
	case "matrix":
		if *policy == "" || *tracef == "" {
			vh.Fatalf("-policy and -trace are required")
		}
		w.loadPolicy(*policy)
		w.openTrace(*tracef)
		w.setup()
		w.runMatrix(strings.Split(*roles, ","), strings.Split(*kinds, ","), strings.Split(*tokenSels, ","))
	case "flow":
		if *flowf == "" || *tracef == "" {
			vh.Fatalf("-flows and -trace are required")
		}
		w.policy = map[string]bool{}
		w.openTrace(*tracef)
		w.setup()
		w.runFlows(*flowf)
	case "hist":
		if *policy == "" || *tracef == "" || *histf == "" {
			vh.Fatalf("-policy, -hist and -trace are required")
		}
		w.loadPolicy(*policy)
		w.openTrace(*tracef)
		w.setup()
		w.runHistories(*histf)
	default:
		vh.Fatalf("unknown mode %q", *mode)
	}
	w.closeTrace()
	w.stop()
	res.Extra["badLines"] = w.badLines
	res.Extra["traceLines"] = w.traceN
	pprof.StopCPUProfile()
	os.Stdout = realStdout
	res.Emit()
}

// ---------------------------------------------------------------- server

type world struct {
	seed                    int64
	res                     *vh.Result
	srv                     *server.ImmuServer
	conn                    *grpc.ClientConn
	lis                     *bufconn.Listener
	rpcs                    []*rpcCase
	policy                  map[string]bool
	trace                   *os.File
	traceN                  int
	ctr                     int
	adm                     map[string]context.Context // admin sessions per database
	sent                    map[string][][]byte        // database class -> sentinel byte strings
	docID                   map[string]string          // database name -> id of the fixture document
	okNone                  map[string]bool            // rpc key + target -> succeeded without any authentication
	users                   map[string]*testUser
	victim                  string
	victimA                 string
	snapOK                  *snapshot // last snapshot, valid if nothing happened since
	exportedTx              []byte
	full                    *snapshot // last full read of database list, settings and users
	forceFull               bool
	lastDetail              []string
	badLines                []int
	lastSessionID, lastTxID string // ids found in the responses of the last call
}

// the fixture databases; a database that a call managed to delete cannot be created again under the same name
// (the server keeps the deleted entry in its list), so its successor gets a new name
var (
	dbOwn   = "dbown"
	dbOther = "dbother"
	dbGen   = 0
)

const (
	dbSys   = "systemdb"
	dbDef   = "defaultdb"
	adminPw = "immudb"
	userPw  = "Passw0rd!x1"
)

func newWorld(dir string, seed int64, res *vh.Result) *world {
	w := &world{seed: seed, res: res, adm: map[string]context.Context{}, sent: map[string][][]byte{}, docID: map[string]string{},
		okNone: map[string]bool{}, users: map[string]*testUser{}}
	w.lis = bufconn.Listen(1 << 20)
	so := sessions.DefaultOptions().WithMaxSessions(1000000).WithSessionGuardCheckInterval(15 * time.Millisecond).
		WithTimeout(sessionTimeout).WithMaxSessionInactivityTime(sessionTimeout)
	opts := server.DefaultOptions().WithDir(dir).WithAuth(true).WithMetricsServer(false).WithWebServer(false).WithPgsqlServer(false).
		WithListener(w.lis).WithSynced(false).WithSessionOptions(so).WithLogfile("").WithPidfile("")
	w.srv = server.DefaultServer().WithOptions(opts).WithLogger(logger.NewSimpleLogger("c18", io.Discard)).(*server.ImmuServer)
	vh.Must(w.srv.Initialize(), "server.Initialize")
	go w.srv.GrpcServer.Serve(w.lis)
	vh.Must(w.srv.SessManager.StartSessionsGuard(), "StartSessionsGuard")
	conn, err := grpc.Dial("bufnet", grpc.WithContextDialer(func(ctx context.Context, s string) (net.Conn, error) { return w.lis.Dial() }),
		grpc.WithTransportCredentials(insecure.NewCredentials()))
	vh.Must(err, "dial")
	w.conn = conn
	w.rpcs = enumerateRPCs()
	return w
}

const sessionTimeout = 2500 * time.Millisecond

func (w *world) stop() {
	w.conn.Close()
	w.srv.GrpcServer.Stop()
	w.srv.SessManager.StopSessionsGuard()
	w.srv.CloseDatabases()
}

func (w *world) next() int { w.ctr++; return w.ctr }

// ---------------------------------------------------------------- policy (written by TLC) and trace

type policyRow struct {
	Kind, Sess, Sel, Role, Cur, Eff, Db string
	Active, Creds, Permitted            bool
}

func pkey(kind, sess, sel, role, cur string, active bool, eff, db string, creds bool) string {
	return fmt.Sprintf("%s|%s|%s|%s|%s|%v|%s|%s|%v", kind, sess, sel, role, cur, active, eff, db, creds)
}

func (w *world) loadPolicy(path string) {
	var f struct{ Rows []policyRow }
	vh.ReadJSON(path, &f)
	w.policy = map[string]bool{}
	for _, r := range f.Rows {
		w.policy[pkey(r.Kind, r.Sess, r.Sel, r.Role, r.Cur, r.Active, r.Eff, r.Db, r.Creds)] = r.Permitted
	}
	if len(w.policy) < 1000 {
		vh.Fatalf("policy matrix has only %d rows", len(w.policy))
	}
}

func (w *world) openTrace(path string) {
	f, err := os.Create(path)
	vh.Must(err, "create trace")
	w.trace = f
}

func (w *world) closeTrace() { vh.Must(w.trace.Close(), "close trace") }

func (w *world) emit(ev map[string]interface{}) int {
	b, err := json.Marshal(ev)
	vh.Must(err, "marshal event")
	_, err = w.trace.Write(append(b, '\n'))
	vh.Must(err, "write trace")
	w.traceN++
	return w.traceN
}
