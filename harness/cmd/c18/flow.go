package main

import (
	"context"
	"fmt"
	"strings"

	"github.com/codenotary/immudb/pkg/api/protomodel"
	"github.com/codenotary/immudb/pkg/api/schema"
	"google.golang.org/protobuf/proto"
	"google.golang.org/protobuf/types/known/emptypb"
	"google.golang.org/protobuf/types/known/structpb"

	"verifharness/vh"
)

// flows printed by TLC from spec/Auth.tla (Mode = "flow"): multi-step behaviours of a user who holds a permission on
// TWO databases.  Every step is a request; `allowed` is the set of effects the policy permits in the state in which
// the request is made.  The replay performs the requests on the real server, observes per database what changed and
// what was returned, and compares.
type flowStep struct {
	Op       string
	Db       string
	A        string
	Granted  bool
	Allowed  []effect
	Authok   bool
	Pcur     string
	Pcuro    string
	Txdb     string
	Switched bool
}
type flowRec struct {
	Role   string
	Hist   []flowStep
	Origin string
}

// flowRPC maps a request of the model to an RPC of the service descriptors and a request.
func (w *world) flowRPC(st flowStep) *rpcCase {
	mk := func(key string, v variant) *rpcCase {
		base := *w.rpcByKey(key)
		base.variant = "flow"
		base.spec = &v
		return &base
	}
	sqlw := "CREATE TABLE IF NOT EXISTS ft(id INTEGER AUTO_INCREMENT, v VARCHAR[32], PRIMARY KEY id); INSERT INTO ft(v) VALUES ('f%d')"
	switch st.Op {
	case "open":
		return mk("ImmuService/OpenSession", variant{creds: true, build: func(c *cell) []proto.Message {
			return one(&schema.OpenSessionRequest{Username: []byte(c.u.name), Password: []byte(c.u.pw), DatabaseName: dbOfClass(st.Db)})
		}})
	case "use":
		return mk("ImmuService/UseDatabase", variant{build: func(c *cell) []proto.Message { return one(&schema.Database{DatabaseName: dbOfClass(st.Db)}) }})
	case "newtx":
		mode := schema.TxMode_ReadWrite
		if st.A == "ro" {
			mode = schema.TxMode_ReadOnly
		}
		return mk("ImmuService/NewTx", variant{build: func(c *cell) []proto.Message { return one(&schema.NewTxRequest{Mode: mode}) }})
	case "txexec":
		if st.A == "w" {
			return mk("ImmuService/TxSQLExec", variant{build: func(c *cell) []proto.Message { return one(&schema.SQLExecRequest{Sql: fmt.Sprintf(sqlw, c.n)}) }})
		}
		return mk("ImmuService/TxSQLQuery", variant{build: func(c *cell) []proto.Message { return one(&schema.SQLQueryRequest{Sql: "SELECT id, v FROM t1"}) }})
	case "commit":
		return mk("ImmuService/Commit", variant{build: func(c *cell) []proto.Message { return one(&emptypb.Empty{}) }})
	case "rollback":
		return mk("ImmuService/Rollback", variant{build: func(c *cell) []proto.Message { return one(&emptypb.Empty{}) }})
	case "exec":
		switch st.A {
		case "sqlw":
			return mk("ImmuService/SQLExec", variant{build: func(c *cell) []proto.Message { return one(&schema.SQLExecRequest{Sql: fmt.Sprintf(sqlw, c.n)}) }})
		case "sqlr":
			return mk("ImmuService/UnarySQLQuery", variant{build: func(c *cell) []proto.Message { return one(&schema.SQLQueryRequest{Sql: "SELECT id, v FROM t1"}) }})
		case "docw":
			return mk("DocumentService/InsertDocuments", variant{build: func(c *cell) []proto.Message {
				return one(&protomodel.InsertDocumentsRequest{CollectionName: "c1", Documents: []*structpb.Struct{docWith(fmt.Sprintf("flow%d", c.n))}})
			}})
		case "docr":
			return mk("DocumentService/SearchDocuments", variant{build: func(c *cell) []proto.Message {
				return one(&protomodel.SearchDocumentsRequest{Query: &protomodel.Query{CollectionName: "c1"}, Page: 1, PageSize: 20})
			}})
		case "kvw":
			return mk("ImmuService/Set", variant{build: func(c *cell) []proto.Message {
				return one(&schema.SetRequest{KVs: []*schema.KeyValue{{Key: c.key("flow"), Value: []byte("v")}}})
			}})
		case "kvr":
			return mk("ImmuService/Get", variant{build: func(c *cell) []proto.Message { return one(&schema.KeyRequest{Key: []byte(fixKey)}) }})
		}
	}
	vh.Fatalf("flow step %s/%s has no RPC", st.Op, st.A)
	return nil
}

// flowUser returns the fixture user holding pa on dbOwn and pb on dbOther.
func (w *world) flowUser(pa, pb string) *testUser {
	if pa == "SysAdmin" {
		return w.users["SysAdmin"]
	}
	k := "flow/" + pa + "/" + pb
	if u, ok := w.users[k]; ok {
		return u
	}
	name := strings.ToLower("fu" + pa + "x" + pb)
	first, firstDB := pa, dbOwn
	if pa == "none" {
		first, firstDB = pb, dbOther
	}
	u := &testUser{name: name, pw: userPw, role: pa, cur: pa, other: pb, curo: pb, active: true}
	if first == "none" { // no permission anywhere: create with one and revoke it
		w.mustAdmin(dbDef, "CreateUser", &schema.CreateUserRequest{User: []byte(name), Password: []byte(userPw), Permission: 1, Database: dbOwn}, &emptypb.Empty{})
		u.cur = "R"
		vh.Must(w.setUserPermissionOn(u, "own", "none"), "revoke")
	} else {
		w.mustAdmin(dbDef, "CreateUser", &schema.CreateUserRequest{User: []byte(name), Password: []byte(userPw), Permission: permCode[first], Database: firstDB}, &emptypb.Empty{})
		if pa != "none" && pb != "none" {
			u.curo = "none"
			vh.Must(w.setUserPermissionOn(u, "other", pb), "grant on other")
		}
	}
	w.users[k] = u
	return u
}

func (w *world) runFlows(path string) {
	var fs []flowRec
	vh.ReadJSON(path, &fs)
	for fi, f := range fs {
		w.replayFlow(fi, f)
	}
	w.res.Distinct += len(fs)
}

func (w *world) replayFlow(fi int, f flowRec) {
	if len(f.Hist) == 0 {
		return
	}
	pa, pb := f.Hist[0].Pcur, f.Hist[0].Pcuro
	u := w.flowUser(pa, pb)
	pair := pa + "/" + pb
	g := &group{w: w, u: u, kind: "session", state: "flow", flow: f}
	g.emit(map[string]interface{}{"event": "Reset", "role": u.role, "other": u.curoOr()})
	w.forceFull, w.snapOK = true, nil
	w.res.Traces++
	w.res.Count("flows", 1)
	var sl *slot
	txOpen, txDB, switchedExec := false, "", false
	defer func() {
		if sl != nil && sl.st == "valid" {
			w.userInvoke(sl.ctx(), "CloseSession", &emptypb.Empty{}, &emptypb.Empty{})
		}
		if u.role != "SysAdmin" {
			if !u.active {
				vh.Must(w.setUserActive(u, true), "reactivate "+u.name)
			}
			if u.cur != pa {
				vh.Must(w.setUserPermissionOn(u, "own", pa), "restore permission on own")
			}
			if u.curoOr() != pb {
				vh.Must(w.setUserPermissionOn(u, "other", pb), "restore permission on other")
			}
		}
	}()
	for si, st := range f.Hist {
		w.res.Count("flow-op:"+st.Op, 1)
		switch st.Op {
		case "setperm":
			if err := w.setUserPermissionOn(u, st.Db, st.A); err != nil {
				w.res.DriftNote(fmt.Sprintf("flow %d step %d setperm(%s,%s): %v", fi, si, st.Db, st.A, err))
				return
			}
			if sl != nil && sl.st == "valid" {
				sl.st = "permissionChanged"
			}
			txOpen = false
			g.emit(map[string]interface{}{"event": "SetPermission", "db": st.Db, "p": st.A})
			continue
		case "deact":
			vh.Must(w.setUserActive(u, false), "deactivate "+u.name)
			if sl != nil && sl.st == "valid" {
				sl.st = "userDeactivated"
			}
			txOpen = false
			g.emit(map[string]interface{}{"event": "Deactivate"})
			continue
		}
		// a request of the user: judged with the effects the specification allows at this step
		g.allowed = map[string]bool{}
		for _, e := range st.Allowed {
			g.allowed[e.K+"|"+e.Db] = true
		}
		if st.Authok {
			g.allowed["authok|none"] = true
		}
		g.sl = sl
		g.sel = "own"
		if sl != nil && sl.sel != "none" {
			g.sel = sl.sel
		}
		r := w.flowRPC(st)
		nk := r.key() + "|" + u.role + "|" + g.sel
		w.okNone[nk] = false // every request of a flow needs authentication (OpenSession authenticates itself)
		if txOpen && sl != nil && st.Op == "txexec" && classOfDB(txDB) != sl.sel {
			switchedExec = true
			w.res.Count("flow-switch-between-newtx-and-txexec:"+pair, 1)
		}
		before := len(g.events)
		g.runCell(r)
		ev := g.events[len(g.events)-1]
		ok, _ := ev["ok"].(bool)
		_ = before
		switch st.Op {
		case "open":
			// the session id is in the response: find the session the server created (observed, not assumed)
			if ok {
				if id := w.lastSessionID; id != "" {
					if sess, err := w.srv.SessManager.GetSession(id); err == nil {
						sl = &slot{n: 1, kind: "session", st: "valid", sel: classOfDB(sess.GetDatabase().GetName()), id: id}
					}
				}
			}
			g.emit(map[string]interface{}{"event": "OpenSession", "s": 1, "db": st.Db, "granted": sl != nil})
			if sl == nil && ok {
				vh.Fatalf("flow %d: OpenSession succeeded but no session was found", fi)
			}
		case "use":
			if sl != nil && sl.st == "valid" {
				if sess, err := w.srv.SessManager.GetSession(sl.id); err == nil {
					if now := classOfDB(sess.GetDatabase().GetName()); now != sl.sel {
						sl.sel = now
						g.emit(map[string]interface{}{"event": "UseDatabase", "s": 1, "db": now, "granted": true})
					}
				}
			}
		case "newtx":
			if ok && w.lastTxID != "" && sl != nil {
				g.extraMD = []string{"transactionid", w.lastTxID}
				txOpen, txDB = true, dbOfClass(sl.sel)
				w.res.Count("flow-newtx-ok:"+st.A, 1)
			} else {
				w.res.Count("flow-newtx-refused:"+st.A, 1)
			}
		case "commit":
			if ok {
				w.res.Count("flow-commit-ok", 1)
				if switchedExec {
					w.res.Count("flow-commit-ok-after-switch", 1)
				}
			}
			txOpen = false
		case "rollback":
			txOpen = false
		}
	}
}

var _ = context.Background
