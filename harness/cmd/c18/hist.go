package main

import (
	"context"
	"fmt"
	"strings"
	"time"

	"github.com/codenotary/immudb/pkg/api/schema"
	"google.golang.org/protobuf/types/known/emptypb"

	"verifharness/vh"
)

// histories printed by TLC from spec/Auth.tla (counterexamples of the code model, simulated behaviours)
type histStep struct {
	Op     string
	S      int
	Kind   string
	Db     string
	P      string
	After  []string // slot states after the step, as the specification has them
	Cur    string
	Active bool
}
type history struct {
	Role   string
	Hist   []histStep
	Origin string
}

// class of the code model's call -> a concrete RPC of the matrix
var classRPC = map[string]string{
	"kvWrite": "ImmuService/Set", "docWrite": "DocumentService/CreateCollection", "txWrite": "ImmuService/Commit", "read": "ImmuService/Get",
	"public": "ImmuService/Health", "userMgmt": "ImmuService/CreateUser", "dbSettings": "ImmuService/UpdateDatabaseV2", "createDb": "ImmuService/CreateDatabaseV2",
}

func (w *world) runHistories(path string) {
	var hs []history
	vh.ReadJSON(path, &hs)
	for hi, h := range hs {
		w.replayHistory(hi, h)
	}
	w.res.Distinct += len(hs)
}

func (w *world) replayHistory(hi int, h history) {
	// a fresh user per history
	var u *testUser
	if h.Role == "SysAdmin" {
		u = w.users["SysAdmin"]
	} else {
		name := fmt.Sprintf("hu%d", w.next())
		p := permCode[h.Role]
		if h.Role == "none" {
			p = 1
		}
		w.mustAdmin(dbDef, "CreateUser", &schema.CreateUserRequest{User: []byte(name), Password: []byte(userPw), Permission: p, Database: dbOwn}, &emptypb.Empty{})
		u = &testUser{name: name, pw: userPw, role: h.Role, cur: h.Role, active: true}
		if h.Role == "none" {
			vh.Must(w.setUserPermission(u, "none"), "revoke")
		}
	}
	g := &group{w: w, u: u, state: "valid"}
	g.emit(map[string]interface{}{"event": "Reset", "role": u.role, "other": u.curoOr()})
	w.res.Traces++
	slots := map[int]*slot{}
	logins := 0
	ops := []string{}
	defer func() {
		for _, sl := range slots {
			if sl.kind == "token" && sl.token != "" {
				w.userInvoke(sl.ctx(), "Logout", &emptypb.Empty{}, &emptypb.Empty{})
			} else if sl.kind == "session" {
				w.userInvoke(sl.ctx(), "CloseSession", &emptypb.Empty{}, &emptypb.Empty{})
			}
		}
		if u.role != "SysAdmin" && !u.active {
			w.setUserActive(u, true)
		}
	}()
	keepAlive := func(except int) {
		for n, sl := range slots {
			if n != except && sl.kind == "session" && sl.st == "valid" {
				w.userInvoke(sl.ctx(), "KeepAlive", &emptypb.Empty{}, &emptypb.Empty{})
			}
		}
	}
	for si, st := range h.Hist {
		ops = append(ops, strings.TrimSpace(fmt.Sprintf("%s(%d,%s,%s)", st.Op, st.S, st.Db, st.P)))
		w.res.Evaluations++
		w.res.Count("hist-op:"+st.Op, 1)
		diverged := func(what string, err error) {
			// the real server refused a step the specification allows: never a violation, the rest cannot be followed
			w.res.Count("hist-diverged:"+what, 1)
			w.res.DriftNote(fmt.Sprintf("history %d (%s) step %d %s: server refused (%v)", hi, h.Origin, si, what, err))
		}
		switch st.Op {
		case "opensession":
			var r schema.OpenSessionResponse
			err := w.userInvoke(context.Background(), "OpenSession", &schema.OpenSessionRequest{Username: []byte(u.name), Password: []byte(u.pw), DatabaseName: dbOfClass(st.Db)}, &r)
			g.emit(map[string]interface{}{"event": "OpenSession", "s": st.S, "db": st.Db, "granted": err == nil})
			if err != nil {
				diverged("opensession", err)
				return
			}
			slots[st.S] = &slot{n: st.S, kind: "session", st: "valid", sel: st.Db, id: r.SessionID}
		case "login":
			var r schema.LoginResponse
			err := w.userInvoke(context.Background(), "Login", &schema.LoginRequest{User: []byte(u.name), Password: []byte(u.pw)}, &r)
			g.emit(map[string]interface{}{"event": "Login", "s": st.S, "granted": err == nil})
			if err != nil {
				diverged("login", err)
				return
			}
			slots[st.S] = &slot{n: st.S, kind: "token", st: "valid", sel: "none", token: r.Token}
			logins++
		case "usedatabase":
			sl := slots[st.S]
			var r schema.UseDatabaseReply
			err := w.userInvoke(sl.ctx(), "UseDatabase", &schema.Database{DatabaseName: dbOfClass(st.Db)}, &r)
			g.emit(map[string]interface{}{"event": "UseDatabase", "s": st.S, "db": st.Db, "granted": err == nil})
			if err != nil {
				diverged("usedatabase", err)
				return
			}
			sl.sel = st.Db
			if sl.kind == "token" {
				sl.token = r.Token
			}
		case "setpermission":
			if err := w.setUserPermission(u, st.P); err != nil {
				diverged("setpermission", err)
				return
			}
			g.emit(map[string]interface{}{"event": "SetPermission", "db": "own", "p": st.P})
		case "deactivate":
			vh.Must(w.setUserActive(u, false), "deactivate")
			g.emit(map[string]interface{}{"event": "Deactivate"})
		case "activate":
			vh.Must(w.setUserActive(u, true), "activate")
			g.emit(map[string]interface{}{"event": "Activate"})
		case "expire":
			sl := slots[st.S]
			deadline := time.Now().Add(10 * time.Second)
			for w.srv.SessManager.SessionPresent(sl.id) {
				if time.Now().After(deadline) {
					vh.Fatalf("session did not expire")
				}
				keepAlive(st.S)
				time.Sleep(20 * time.Millisecond)
			}
			g.emit(map[string]interface{}{"event": "Expire", "s": st.S})
		case "logout":
			sl := slots[st.S]
			var err error
			if sl.kind == "session" {
				err = w.userInvoke(sl.ctx(), "CloseSession", &emptypb.Empty{}, &emptypb.Empty{})
			} else {
				err = w.userInvoke(sl.ctx(), "Logout", &emptypb.Empty{}, &emptypb.Empty{})
			}
			if err != nil {
				diverged("logout", err)
				return
			}
			g.emit(map[string]interface{}{"event": "Logout", "s": st.S})
		case "call":
			name, ok := classRPC[st.P]
			if !ok {
				continue // histories of the policy model end with an abstract outcome: nothing to execute
			}
			g.kind, g.sel, g.sl = "session", st.Db, nil
			if st.Db == "sel" || st.Db == "-" {
				g.sel = "own"
			}
			if st.S > 0 {
				g.sl = slots[st.S]
				g.kind = g.sl.kind
				if st.Db == "sel" {
					g.sel = g.sl.sel
				}
			}
			if g.sel == "none" || g.sel == "new" {
				g.sel = "own"
			}
			g.state = "hist"
			g.staleSig = ""
			if g.sl != nil && g.sl.st != "valid" {
				multi := "single-login"
				if logins >= 2 {
					multi = "multi-login"
				}
				g.staleSig = fmt.Sprintf("stale-authentication:%s:%s:%s", g.sl.kind, g.sl.st, multi)
			}
			// reference: does the RPC need authentication?
			nk := name + "|" + u.role + "|" + g.sel
			if _, seen := w.okNone[nk]; !seen {
				w.okNone[nk] = name == "ImmuService/Health"
			}
			g.runCell(w.rpcByKey(name))
			continue
		default:
			vh.Fatalf("unknown history op %q", st.Op)
		}
		// the specification's slot states after the step
		for n, sl := range slots {
			if n-1 < len(st.After) {
				sl.st = st.After[n-1]
			}
		}
		u.cur, u.active = st.Cur, st.Active
		if u.role == "SysAdmin" {
			u.cur = "SysAdmin"
		}
		// projection of the real server after EVERY step: which sessions / tokens does it still honour?
		for n := 1; n <= len(st.After); n++ {
			sl := slots[n]
			if sl == nil {
				continue
			}
			var err error
			probe := "ImmuService/KeepAlive"
			if sl.kind == "session" {
				err = w.userInvoke(sl.ctx(), "KeepAlive", &emptypb.Empty{}, &emptypb.Empty{})
			} else {
				probe = "ImmuService/ListUsers"
				err = w.userInvoke(sl.ctx(), "ListUsers", &emptypb.Empty{}, &schema.UserList{})
			}
			accepted := err == nil
			line := g.emit(map[string]interface{}{"event": "Call", "s": n, "kind": sl.kind, "sess": sl.st, "sel": sl.sel, "role": u.role, "cur": u.cur, "curo": u.curoOr(),
				"active": u.active, "rpc": "probe:" + probe, "target": "-", "code": fmt.Sprint(err), "ok": accepted, "authreq": true, "creds": false, "effs": []effect{}})
			w.res.Count("hist-probes", 1)
			if accepted {
				w.res.Count("hist-probes-accepted", 1)
			}
			if sl.st != "valid" && accepted {
				multi := "single-login"
				if logins >= 2 {
					multi = "multi-login"
				}
				sig := fmt.Sprintf("stale-authentication:%s:%s:%s", sl.kind, sl.st, multi)
				w.badLines = append(w.badLines, line)
				w.res.Violate(sig, fmt.Sprintf("user %s (role %s): after %v the %s of slot %d is %s according to the policy but the server still accepts it (%s succeeds)",
					u.name, u.role, ops, sl.kind, n, sl.st, probe),
					map[string]interface{}{"line": line, "history": h.Hist[:si+1], "role": u.role, "slot": n, "kind": sl.kind, "state": sl.st, "origin": h.Origin, "epoch": g.events})
			}
		}
	}
}
