package main

import (
	"context"
	"encoding/base64"
	"encoding/json"
	"fmt"
	"strings"
	"sync"
	"time"

	"github.com/codenotary/immudb/pkg/api/protomodel"
	"github.com/codenotary/immudb/pkg/api/schema"
	"google.golang.org/grpc/metadata"
	"google.golang.org/protobuf/proto"
	"google.golang.org/protobuf/types/known/emptypb"
	"google.golang.org/protobuf/types/known/structpb"

	"verifharness/vh"
)

type testUser struct {
	name, pw string
	role     string // permission the user was created with on dbOwn (SysAdmin: the built-in administrator)
	cur      string // current permission on dbOwn
	active   bool
	other    string // flows: permission the user was created with on dbOther ("" = none)
	curo     string // flows: current permission on dbOther
}

func (u *testUser) curoOr() string {
	if u.role == "SysAdmin" {
		return "SysAdmin"
	}
	if u.curo == "" {
		return "none"
	}
	return u.curo
}

// setUserPermissionOn: the administrator changes the user's permission on one of the two fixture databases.
func (w *world) setUserPermissionOn(u *testUser, class, p string) error {
	db := dbOfClass(class)
	req := &schema.ChangePermissionRequest{Action: schema.PermissionAction_GRANT, Username: u.name, Database: db, Permission: permCode[p]}
	if p == "none" {
		req = &schema.ChangePermissionRequest{Action: schema.PermissionAction_REVOKE, Username: u.name, Database: db, Permission: 1}
	}
	err := w.adminCall(dbDef, "ChangePermission", req, &emptypb.Empty{})
	if err == nil {
		if class == "own" {
			u.cur = p
		} else {
			u.curo = p
		}
	}
	return err
}

var permCode = map[string]uint32{"R": 1, "RW": 2, "Admin": 254}

// fixture bookkeeping
type fixtureState struct {
	mu         sync.Mutex
	fixTxOf    map[string]uint64
	docDone    map[string]bool
	exportedTx []byte
}

var fx = fixtureState{fixTxOf: map[string]uint64{}, docDone: map[string]bool{}}

func (w *world) fixTx(db string) uint64 {
	if t, ok := fx.fixTxOf[db]; ok {
		return t
	}
	return 1
}

// ---------------------------------------------------------------- administrator side (observer and fixture)

func (w *world) openAdmin(db string) context.Context {
	var r schema.OpenSessionResponse
	err := w.conn.Invoke(context.Background(), "/immudb.schema.ImmuService/OpenSession",
		&schema.OpenSessionRequest{Username: []byte("immudb"), Password: []byte(adminPw), DatabaseName: db}, &r)
	vh.Must(err, "administrator session on "+db)
	w.res.Count("admin-sessions-opened", 1)
	ctx := metadata.AppendToOutgoingContext(context.Background(), "sessionid", r.SessionID)
	fx.mu.Lock()
	w.adm[db] = ctx
	fx.mu.Unlock()
	return ctx
}

func (w *world) adminCtx(db string) context.Context {
	fx.mu.Lock()
	ctx, ok := w.adm[db]
	fx.mu.Unlock()
	if ok {
		// the session may have expired (the session timeout is tiny and the machine may be loaded): look before use
		if md, _ := metadata.FromOutgoingContext(ctx); len(md.Get("sessionid")) == 1 && w.srv.SessManager.SessionPresent(md.Get("sessionid")[0]) {
			return ctx
		}
	}
	return w.openAdmin(db)
}

// keepAdminAlive pings the administrator's sessions (the session timeout is tiny so that expiry can be observed).
func (w *world) keepAdminAlive() {
	go func() {
		for {
			time.Sleep(sessionTimeout / 8)
			fx.mu.Lock()
			ctxs := make([]context.Context, 0, len(w.adm))
			for _, c := range w.adm {
				ctxs = append(ctxs, c)
			}
			fx.mu.Unlock()
			for _, c := range ctxs {
				cc, cancel := context.WithTimeout(c, 2*time.Second)
				w.conn.Invoke(cc, "/immudb.schema.ImmuService/KeepAlive", &emptypb.Empty{}, &emptypb.Empty{})
				cancel()
			}
		}
	}()
}

// the administrator's session expired (the machine may be so loaded that the keep-alive pings come too late)
func sessionGone(err error) bool {
	t := err.Error()
	return strings.Contains(t, "session not found") || strings.Contains(t, "no session found") || strings.Contains(t, "please login")
}

// adminInvoke: a unary call by the administrator with a session on db; invalidates the cached snapshot.
func (w *world) adminInvoke(db, full string, req, resp proto.Message) error {
	w.snapOK = nil
	return w.adminRead(db, full, req, resp)
}

// adminRead: same, for calls that change nothing (observation).
func (w *world) adminRead(db, full string, req, resp proto.Message) error {
	for attempt := 0; ; attempt++ {
		ctx, cancel := context.WithTimeout(w.adminCtx(db), 20*time.Second)
		err := w.conn.Invoke(ctx, full, req, resp)
		cancel()
		if err != nil && attempt == 0 && sessionGone(err) {
			w.openAdmin(db)
			continue
		}
		return err
	}
}

// observer calls go straight to the server object (same handlers, no transport): the observer is not under test
// and is called twice per cell.
func (w *world) obsCtx(db string) context.Context {
	md, _ := metadata.FromOutgoingContext(w.adminCtx(db))
	return metadata.NewIncomingContext(context.Background(), md)
}

func (w *world) obsRetry(db string, f func(ctx context.Context) error) error {
	err := f(w.obsCtx(db))
	if err != nil && sessionGone(err) {
		w.openAdmin(db)
		err = f(w.obsCtx(db))
	}
	return err
}

func (w *world) obsState(db string) (*schema.ImmutableState, error) {
	var st *schema.ImmutableState
	err := w.obsRetry(db, func(ctx context.Context) (e error) { st, e = w.srv.CurrentState(ctx, &emptypb.Empty{}); return })
	return st, err
}

func (w *world) adminCall(db, method string, req, resp proto.Message) error {
	return w.adminInvoke(db, "/immudb.schema.ImmuService/"+method, req, resp)
}

func (w *world) mustAdmin(db, method string, req, resp proto.Message) {
	vh.Must(w.adminCall(db, method, req, resp), "fixture "+method+" on "+db)
}

// ---------------------------------------------------------------- fixture

func (w *world) sentinel(tag string) string {
	return fmt.Sprintf("SENT-%s-%x", tag, vh.Bytes(w.seed, "sentinel-"+tag, 0, 8))
}

// tinySettings keeps the cost of (re)opening a database low: the defaults pre-allocate tens of megabytes per open.
func tinySettings() *schema.DatabaseNullableSettings {
	u := func(v uint32) *schema.NullableUint32 { return &schema.NullableUint32{Value: v} }
	return &schema.DatabaseNullableSettings{MaxKeyLen: u(256), MaxValueLen: u(4096), MaxTxEntries: u(64), MaxConcurrency: u(3), MaxIOConcurrency: u(1),
		ReadTxPoolSize: u(2), TxLogCacheSize: u(8), WriteBufferSize: u(1 << 16), FileSize: u(1 << 20),
		AhtSettings: &schema.AHTNullableSettings{SyncThreshold: u(64), WriteBufferSize: u(1 << 16)}, MaxActiveTransactions: u(16), VLogCacheSize: u(8),
		IndexSettings: &schema.IndexNullableSettings{CacheSize: u(64), MaxActiveSnapshots: u(8), FlushBufferSize: u(1 << 16), CommitLogMaxOpenedFiles: u(2), NodesLogMaxOpenedFiles: u(2), HistoryLogMaxOpenedFiles: u(2)}}
}

func classOfDB(name string) string {
	switch name {
	case dbOwn:
		return "own"
	case dbSys:
		return "system"
	default:
		return "other"
	}
}

func (w *world) setup() {
	w.keepAdminAlive()
	w.openAdmin(dbDef)
	w.openAdmin(dbSys)
	for _, db := range []string{dbOwn, dbOther} {
		w.mustAdmin(dbDef, "CreateDatabaseV2", &schema.CreateDatabaseRequest{Name: db, Settings: tinySettings()}, &schema.CreateDatabaseResponse{})
	}
	for _, db := range []string{dbOwn, dbOther, dbDef} {
		w.fixtureContent(db)
	}
	mk := func(name, role string) *testUser {
		p := permCode[role]
		if role == "none" {
			p = 1
		}
		w.mustAdmin(dbDef, "CreateUser", &schema.CreateUserRequest{User: []byte(name), Password: []byte(userPw), Permission: p, Database: dbOwn}, &emptypb.Empty{})
		if role == "none" {
			w.mustAdmin(dbDef, "ChangePermission", &schema.ChangePermissionRequest{Action: schema.PermissionAction_REVOKE, Username: name, Database: dbOwn, Permission: 1}, &emptypb.Empty{})
		}
		return &testUser{name: name, pw: userPw, role: role, cur: role, active: true}
	}
	for _, role := range []string{"none", "R", "RW", "Admin"} {
		w.users[role] = mk("u"+strings.ToLower(role), role)
	}
	w.users["SysAdmin"] = &testUser{name: "immudb", pw: adminPw, role: "SysAdmin", cur: "SysAdmin", active: true}
	// victims of the user-management RPCs: one created by the administrator with permissions on both databases,
	// one created by the database admin (so that an Admin's SetActiveUser / ChangePassword can succeed)
	w.victim = "victim"
	mk(w.victim, "R")
	w.mustAdmin(dbDef, "ChangePermission", &schema.ChangePermissionRequest{Action: schema.PermissionAction_GRANT, Username: w.victim, Database: dbOther, Permission: 1}, &emptypb.Empty{})
	w.victimA = "victima"
	{
		var r schema.OpenSessionResponse
		vh.Must(w.conn.Invoke(context.Background(), "/immudb.schema.ImmuService/OpenSession",
			&schema.OpenSessionRequest{Username: []byte("uadmin"), Password: []byte(userPw), DatabaseName: dbOwn}, &r), "uadmin session")
		ctx := metadata.AppendToOutgoingContext(context.Background(), "sessionid", r.SessionID)
		vh.Must(w.conn.Invoke(ctx, "/immudb.schema.ImmuService/CreateUser",
			&schema.CreateUserRequest{User: []byte(w.victimA), Password: []byte(userPw), Permission: 1, Database: dbOwn}, &emptypb.Empty{}), "victima")
		w.conn.Invoke(ctx, "/immudb.schema.ImmuService/CloseSession", &emptypb.Empty{}, &emptypb.Empty{})
	}
	// system database sentinels: the password hashes stored in the user records
	var ents schema.Entries
	vh.Must(w.adminRead(dbSys, "/immudb.schema.ImmuService/Scan", &schema.ScanRequest{Prefix: []byte{1}}, &ents), "scan systemdb")
	for _, e := range ents.Entries {
		var rec struct {
			HashedPassword []byte `json:"hashedpassword"`
		}
		if json.Unmarshal(e.Value, &rec) == nil && len(rec.HashedPassword) > 0 {
			w.sent["system"] = append(w.sent["system"], rec.HashedPassword, []byte(base64.StdEncoding.EncodeToString(rec.HashedPassword)))
		}
	}
	if len(w.sent["system"]) < 8 {
		vh.Fatalf("could not read the password hashes of the system database (%d entries)", len(ents.Entries))
	}
	// an exported transaction for replicateTx
	r := w.rpcByKey("ImmuService/exportTx")
	resps, err := w.invoke(w.adminCtx(dbOwn), r, one(&schema.ExportTxRequest{Tx: w.fixTx(dbOwn)}))
	vh.Must(err, "export fixture tx")
	for _, m := range resps {
		fx.exportedTx = append(fx.exportedTx, m.(*schema.Chunk).Content...)
	}
	if len(fx.exportedTx) > 8 {
		fx.exportedTx = fx.exportedTx[8:]
	}
	w.exportedTx = fx.exportedTx
	w.snapOK = nil
}

func (w *world) rpcByKey(k string) *rpcCase {
	for _, r := range w.rpcs {
		if r.key() == k {
			return r
		}
	}
	vh.Fatalf("no RPC %s", k)
	return nil
}

// fixtureContent plants key-value, SQL and document data carrying the database's sentinels.
func (w *world) fixtureContent(db string) {
	cls := classOfDB(db)
	sk, sv := w.sentinel("key-"+db), w.sentinel("val-"+db)
	var hdr schema.TxHeader
	w.mustAdmin(db, "Set", &schema.SetRequest{KVs: []*schema.KeyValue{
		{Key: []byte(fixKey), Value: []byte(sv)}, {Key: []byte("skey-" + sk), Value: []byte(sv)}}}, &hdr)
	fx.fixTxOf[db] = hdr.Id
	w.mustAdmin(db, "SetReference", &schema.ReferenceRequest{Key: []byte("ref-fixture"), ReferencedKey: []byte(fixKey)}, &schema.TxHeader{})
	w.mustAdmin(db, "ZAdd", &schema.ZAddRequest{Set: []byte("zset-fixture"), Score: 1, Key: []byte(fixKey)}, &schema.TxHeader{})
	w.mustAdmin(db, "SQLExec", &schema.SQLExecRequest{Sql: fmt.Sprintf(
		"CREATE TABLE t1(id INTEGER, v VARCHAR[64], PRIMARY KEY id); INSERT INTO t1(id, v) VALUES (1, '%s')", sv)}, &schema.SQLExecResult{})
	fx.docDone[db] = false
	w.ensureDocFixture(db)
	have := map[string]bool{}
	for _, s := range w.sent[cls] {
		have[string(s)] = true
	}
	for _, s := range []string{sk, sv} {
		if !have[s] {
			w.sent[cls] = append(w.sent[cls], []byte(s))
		}
	}
}

// ensureDocFixture creates collection c1 with one document.  On the system database this only works through the
// very defect the check reports (document RPCs are exempt from "systemdb is read-only"); failures are ignored there.
func (w *world) ensureDocFixture(db string) {
	if fx.docDone[db] {
		return
	}
	fx.docDone[db] = true
	sv := w.sentinel("val-" + db)
	err := w.adminInvoke(db, "/immudb.model.DocumentService/CreateCollection", &protomodel.CreateCollectionRequest{Name: "c1",
		Fields: []*protomodel.Field{{Name: "name", Type: protomodel.FieldType_STRING}}}, &protomodel.CreateCollectionResponse{})
	if err != nil && db != dbSys {
		vh.Fatalf("fixture collection on %s: %v", db, err)
	}
	d, _ := structpb.NewStruct(map[string]interface{}{"name": sv})
	var ir protomodel.InsertDocumentsResponse
	err = w.adminInvoke(db, "/immudb.model.DocumentService/InsertDocuments", &protomodel.InsertDocumentsRequest{CollectionName: "c1", Documents: []*structpb.Struct{d}}, &ir)
	if err != nil && db != dbSys {
		vh.Fatalf("fixture document on %s: %v", db, err)
	}
	if len(ir.DocumentIds) > 0 {
		w.docID[db] = ir.DocumentIds[0]
	}
}

// ensureDatabases repairs dbOwn / dbOther after a life-cycle RPC succeeded: reload, or (deleted) create a successor
// with the fixture and give every fixture user the permission it had on the deleted one.
func (w *world) ensureDatabases() {
	var l schema.DatabaseListResponseV2
	vh.Must(w.adminRead(dbDef, "/immudb.schema.ImmuService/DatabaseListV2", &schema.DatabaseListRequestV2{}, &l), "DatabaseListV2")
	st := map[string]*schema.DatabaseInfo{}
	for _, d := range l.Databases {
		st[d.Name] = d
	}
	for _, which := range []*string{&dbOwn, &dbOther} {
		db := *which
		d, ok := st[db]
		switch {
		case !ok:
			dbGen++
			old := db
			db = fmt.Sprintf("%sg%d", strings.TrimRight(old, "0123456789g"), dbGen)
			*which = db
			w.mustAdmin(dbDef, "CreateDatabaseV2", &schema.CreateDatabaseRequest{Name: db, Settings: tinySettings()}, &schema.CreateDatabaseResponse{})
			w.fixtureContent(db)
			grant := func(user string, p uint32) {
				w.mustAdmin(dbDef, "ChangePermission", &schema.ChangePermissionRequest{Action: schema.PermissionAction_GRANT, Username: user, Database: db, Permission: p}, &emptypb.Empty{})
			}
			if which == &dbOwn {
				for _, role := range []string{"R", "RW", "Admin"} {
					grant(w.users[role].name, permCode[role])
				}
				grant(w.victim, 1)
				grant(w.victimA, 1)
			} else {
				grant(w.victim, 1)
			}
			w.res.Count("fixture-database-replaced", 1)
		case !d.Loaded:
			w.mustAdmin(dbDef, "LoadDatabase", &schema.LoadDatabaseRequest{Database: db}, &schema.LoadDatabaseResponse{})
			fx.mu.Lock()
			delete(w.adm, db) // the session holds the closed database object
			fx.mu.Unlock()
		}
	}
}

// dropExtraDatabases removes databases created by a call (keeps the server tiny).
func (w *world) dropExtraDatabases() {
	var l schema.DatabaseListResponseV2
	vh.Must(w.adminRead(dbDef, "/immudb.schema.ImmuService/DatabaseListV2", &schema.DatabaseListRequestV2{}, &l), "DatabaseListV2")
	for _, d := range l.Databases {
		if d.Name == dbOwn || d.Name == dbOther || d.Name == dbDef {
			continue
		}
		w.adminCall(dbDef, "UnloadDatabase", &schema.UnloadDatabaseRequest{Database: d.Name}, &schema.UnloadDatabaseResponse{})
		vh.Must(w.adminCall(dbDef, "DeleteDatabase", &schema.DeleteDatabaseRequest{Database: d.Name}, &schema.DeleteDatabaseResponse{}), "drop "+d.Name)
	}
}

// setUserPermission / setUserActive: the administrator changes the test user (management events of the histories).
func (w *world) setUserPermission(u *testUser, p string) error {
	var req *schema.ChangePermissionRequest
	if p == "none" {
		req = &schema.ChangePermissionRequest{Action: schema.PermissionAction_REVOKE, Username: u.name, Database: dbOwn, Permission: 1}
	} else {
		req = &schema.ChangePermissionRequest{Action: schema.PermissionAction_GRANT, Username: u.name, Database: dbOwn, Permission: permCode[p]}
	}
	err := w.adminCall(dbDef, "ChangePermission", req, &emptypb.Empty{})
	if err == nil {
		u.cur = p
	}
	return err
}

func (w *world) setUserActive(u *testUser, active bool) error {
	err := w.adminCall(dbDef, "SetActiveUser", &schema.SetActiveUserRequest{Username: u.name, Active: active}, &emptypb.Empty{})
	if err == nil {
		u.active = active
	}
	return err
}
