// c02: drives the real embedded/store with concurrent committers, maintenance operations, discards and
// clean restarts under every store configuration class, recording the hook trace plus driver-level
// Ack / Observed / State events for validation against spec/Store.tla (spec/TraceStore.tla).
package main

import (
	"context"
	"crypto/sha256"
	"encoding/binary"
	"errors"
	"flag"
	"fmt"
	"math/rand"
	"os"
	"os/exec"
	"path/filepath"
	"runtime"
	"sort"
	"sync"
	"time"

	"github.com/codenotary/immudb/embedded/logger"
	"github.com/codenotary/immudb/embedded/store"

	"verifharness/storetrace"
	"verifharness/vh"
)

type cfg struct {
	Synced, Ext, Embedded, Prealloc bool
	HdrVersion, IOConc, FileSize    int
	MaxActive, Workers, PerWorker   int
	Reopens                         int
	Discard                         bool
	Legacy                          bool // continue on a copy of test/data_v1.1.0 (commit-log entries without Alh)
	VLogCache                       int
	Truncate                        bool
}

func pick(rng *rand.Rand, run int) cfg {
	c := cfg{
		Synced:     run%2 == 0,
		Ext:        run%5 == 3,
		Embedded:   run%3 == 1,
		Prealloc:   run%7 == 5,
		HdrVersion: run % 2,
		IOConc:     1 + run%3,
		FileSize:   []int{512, 1024, 4096, 1 << 20}[rng.Intn(4)],
		MaxActive:  []int{4, 8, 16}[rng.Intn(3)],
		Workers:    2 + rng.Intn(4),
		PerWorker:  3 + rng.Intn(4),
		Reopens:    rng.Intn(3),
	}
	c.Discard = c.Ext
	c.Legacy = run%11 == 7
	if run%4 == 2 {
		c.VLogCache = 8
	}
	c.Truncate = run%3 == 0
	if c.Legacy {
		c.Ext, c.Discard, c.Embedded, c.Prealloc, c.IOConc = run%2 == 1, run%2 == 1, false, false, 1
	}
	if c.Prealloc {
		c.FileSize = 4096
	}
	if c.Embedded {
		c.IOConc = 1
	}
	return c
}

func (c cfg) opts() *store.Options {
	if c.Legacy {
		// an existing database keeps the options it was created with; only behaviour switches are set
		return store.DefaultOptions().WithSynced(c.Synced).WithSyncFrequency(2 * time.Millisecond).WithExternalCommitAllowance(c.Ext).
			WithMaxActiveTransactions(c.MaxActive).WithLogger(logger.NewMemoryLoggerWithLevel(logger.LogError))
	}
	o := store.DefaultOptions().WithSynced(c.Synced).WithSyncFrequency(2 * time.Millisecond).
		WithEmbeddedValues(c.Embedded).WithPreallocFiles(c.Prealloc).WithWriteTxHeaderVersion(c.HdrVersion).
		WithMaxIOConcurrency(c.IOConc).WithFileSize(c.FileSize).WithMaxActiveTransactions(c.MaxActive).
		WithMaxConcurrency(16).WithExternalCommitAllowance(c.Ext).WithMaxTxEntries(8).WithMaxKeyLen(32).WithMaxValueLen(256).
		WithLogger(logger.NewMemoryLoggerWithLevel(logger.LogError))
	wb := []int{256, 4096, 1 << 16}[(c.FileSize+c.MaxActive)%3]
	o.WithWriteBufferSize(wb)
	if c.VLogCache > 0 {
		o.WithVLogCacheSize(c.VLogCache)
	}
	o.WithIndexOptions(o.IndexOpts.WithFlushThld(5).WithMaxNodeSize(512).WithCompactionThld(1).WithFlushBufferSize(1 << 14).WithCacheSize(64))
	o.WithAHTOptions(o.AHTOpts.WithWriteBufferSize(1 << 14).WithSyncThld(1 + c.MaxActive%3))
	return o
}

type kv struct{ k, md, v []byte }

func contentDigest(es []kv) [sha256.Size]byte {
	sort.Slice(es, func(i, j int) bool { return string(es[i].k) < string(es[j].k) })
	h := sha256.New()
	var l [4]byte
	for _, e := range es {
		for _, b := range [][]byte{e.k, e.md, e.v} {
			binary.BigEndian.PutUint32(l[:], uint32(len(b)))
			h.Write(l[:])
			h.Write(b)
		}
	}
	var d [sha256.Size]byte
	copy(d[:], h.Sum(nil))
	return d
}

var repoPath = "/repo"

const unavailable = 999999

type run struct {
	truncatedUpto uint64
	pass          int

	c    cfg
	path string
	tr   *storetrace.Tracer
	st   *store.ImmuStore
	res  *vh.Result
	mu   sync.Mutex
}

// observe re-reads the whole committed history through three read paths.
func (r *run) observe() {
	st := r.st
	r.pass++
	if r.pass%2 == 0 {
		// alternate which read path touches a value first (value caches are filled by the first reader)
		n, _ := st.CommittedAlh()
		txh := store.NewTx(st.MaxTxEntries(), st.MaxKeyLen())
		for id := uint64(1); id <= n; id++ {
			st.ExportTx(id, false, false, txh)
		}
	}
	n, _ := st.CommittedAlh()
	txh := store.NewTx(st.MaxTxEntries(), st.MaxKeyLen())
	alhs := make([][sha256.Size]byte, 0, n)
	for id := uint64(1); id <= n; id++ {
		err := st.ReadTx(id, false, txh)
		if err != nil {
			r.tr.Log(r.path, storetrace.Event{"ev": "Observed", "id": id, "alh": -1, "chainOk": false, "content": -1, "via": "ReadTx", "err": err.Error()})
			return
		}
		hdr := txh.Header()
		alh := hdr.Alh()
		chainOk := hdr.ID == id && int(hdr.BlTxID) < int(id)
		if id == 1 {
			chainOk = chainOk && hdr.PrevAlh == storetrace.Genesis
		} else {
			chainOk = chainOk && hdr.PrevAlh == alhs[id-2]
		}
		if chainOk && hdr.BlTxID > 0 {
			chainOk = hdr.BlRoot == storetrace.RefRoot(alhs[:hdr.BlTxID])
		}
		alhs = append(alhs, alh)
		var es []kv
		valuesMissing := false
		for _, e := range txh.Entries() {
			v, err := st.ReadValue(e)
			if err != nil {
				valuesMissing = true
			}
			var md []byte
			if e.Metadata() != nil {
				md = e.Metadata().Bytes()
			}
			es = append(es, kv{append([]byte(nil), e.Key()...), md, v})
		}
		content := r.tr.Num(contentDigest(es))
		if valuesMissing {
			content = unavailable // accepted by the specification only below the truncation point
		}
		r.tr.Log(r.path, storetrace.Event{"ev": "Observed", "id": id, "alh": r.tr.Num(alh), "chainOk": chainOk, "content": content, "via": "ReadTx"})
		r.res.Evaluations++
		// exported form must be stable (below the truncation point it legitimately switches to digests)
		ex, err := st.ExportTx(id, false, false, txh)
		if err == nil {
			xc := r.tr.Num(sha256.Sum256(ex))
			if id < r.truncatedUpto {
				xc = unavailable
			}
			r.tr.Log(r.path, storetrace.Event{"ev": "Observed", "id": id, "alh": r.tr.Num(alh), "chainOk": true, "content": xc, "via": "ExportTx"})
		} else if id < r.truncatedUpto {
			r.tr.Log(r.path, storetrace.Event{"ev": "Observed", "id": id, "alh": r.tr.Num(alh), "chainOk": true, "content": unavailable, "via": "ExportTx"})
		} else {
			r.tr.Log(r.path, storetrace.Event{"ev": "Observed", "id": id, "alh": -1, "chainOk": false, "content": -1, "via": "ExportTx", "err": err.Error()})
		}
		// header-only path
		h2, err := st.ReadTxHeader(id, false, false)
		if err == nil {
			r.tr.Log(r.path, storetrace.Event{"ev": "Observed", "id": id, "alh": r.tr.Num(h2.Alh()), "chainOk": true, "content": r.tr.Num(h2.Eh), "via": "ReadTxHeader"})
		} else {
			r.tr.Log(r.path, storetrace.Event{"ev": "Observed", "id": id, "alh": -1, "chainOk": false, "content": -1, "via": "ReadTxHeader", "err": err.Error()})
		}
	}
}

func (r *run) state() {
	n, alh := r.st.CommittedAlh()
	r.tr.Log(r.path, storetrace.Event{"ev": "State", "committed": n, "alh": r.tr.Num(alh)})
}

// open returns false when a database that was closed cleanly does not open again or cannot be read back: a verdict, not a harness fault
func (r *run) open(fresh bool) bool {
	st, err := store.Open(r.path, r.c.opts())
	if err != nil && !fresh {
		r.res.Violate("clean-restart:open-fails", fmt.Sprintf("a store closed cleanly does not open again: %v (config %+v)", err, r.c), map[string]interface{}{"cfg": fmt.Sprintf("%+v", r.c)})
		r.st = nil
		return false
	}
	vh.Must(err, "store.Open")
	r.st = st
	if err := r.tr.Opened(r.path, st, fresh); err != nil {
		if !fresh {
			r.res.Violate("clean-restart:history-unreadable", fmt.Sprintf("after a clean restart the history cannot be read back: %v (config %+v)", err, r.c), map[string]interface{}{"cfg": fmt.Sprintf("%+v", r.c)})
			return false
		}
		vh.Must(err, "tracer.Opened")
	}
	return true
}

var keyCounter uint64

func (r *run) worker(ctx context.Context, rng *rand.Rand, w int, n int, wg *sync.WaitGroup, observeEvery bool) {
	defer wg.Done()
	for i := 0; i < n; i++ {
		tx, err := r.st.NewWriteOnlyTx(ctx)
		if err != nil {
			return
		}
		ne := 1 + rng.Intn(3)
		var es []kv
		for e := 0; e < ne; e++ {
			k := []byte(fmt.Sprintf("k%02d", rng.Intn(12)))
			dup := false
			for _, x := range es {
				if string(x.k) == string(k) {
					dup = true
				}
			}
			if dup {
				continue
			}
			v := make([]byte, []int{0, 1, 20, 100, 200}[rng.Intn(5)])
			rng.Read(v)
			var md *store.KVMetadata
			var mdb []byte
			if rng.Intn(5) == 0 {
				md = store.NewKVMetadata()
				md.AsDeleted(true)
				mdb = md.Bytes()
			}
			vh.Must(tx.Set(k, md, v), "tx.Set")
			es = append(es, kv{k, mdb, v})
		}
		mode := rng.Intn(10)
		if mode == 0 {
			// failing precondition: the tx must leave no trace
			tx.AddPrecondition(&store.PreconditionKeyMustExist{Key: []byte("never-written")})
		}
		cctx := ctx
		var cancel context.CancelFunc
		if mode == 1 {
			cctx, cancel = context.WithCancel(ctx)
			cancel() // cancelled before commit
		}
		var hdr *store.TxHeader
		if mode%2 == 0 {
			hdr, err = tx.Commit(cctx)
		} else {
			hdr, err = tx.AsyncCommit(cctx)
		}
		if err != nil {
			if errors.Is(err, store.ErrAlreadyClosed) {
				return
			}
			r.res.Count("commit-error", 1)
			if errors.Is(err, store.ErrMaxActiveTransactionsLimitExceeded) {
				time.Sleep(time.Millisecond)
			}
			continue
		}
		r.tr.Log(r.path, storetrace.Event{"ev": "Ack", "id": hdr.ID, "alh": r.tr.Num(hdr.Alh()), "content": r.tr.Num(contentDigest(es))})
		r.res.Count("acks", 1)
		if observeEvery {
			r.mu.Lock()
			r.observe()
			r.mu.Unlock()
		}
	}
}

func runOne(dir string, seed int64, runIdx int, res *vh.Result, out *os.File) {
	done := make(chan struct{})
	defer close(done)
	go func() { // watchdog: a run that does not finish is a machinery fault with a goroutine dump
		select {
		case <-done:
		case <-time.After(60 * time.Second):
			buf := make([]byte, 1<<22)
			n := runtime.Stack(buf, true)
			fmt.Fprintf(os.Stderr, "WATCHDOG run %d stuck\n%s\n", runIdx, buf[:n])
			os.Exit(4)
		}
	}()
	rng := rand.New(rand.NewSource(seed*1000003 + int64(runIdx)))
	c := pick(rng, runIdx)
	root := filepath.Join(dir, fmt.Sprintf("run%d", runIdx))
	vh.Must(os.MkdirAll(root, 0755), "mkdir")
	defer os.RemoveAll(root)
	tr := storetrace.New(root)
	tr.Install()
	defer storetrace.Uninstall()
	r := &run{c: c, path: filepath.Join(root, "st"), tr: tr, res: res}
	tr.MaxActive[r.path] = c.MaxActive
	tr.Log(r.path, storetrace.Event{"ev": "Reset", "synced": c.Synced, "ext": c.Ext, "cfg": fmt.Sprintf("%+v", c)})
	if c.Legacy {
		vh.Must(exec.Command("cp", "-r", filepath.Join(repoPath, "test/data_v1.1.0/defaultdb"), r.path).Run(), "copy legacy database")
		st, err := store.Open(r.path, c.opts())
		vh.Must(err, "open legacy store")
		r.st = st
		vh.Must(tr.Adopt(r.path, st), "tracer.Adopt")
	} else {
		r.open(true)
		if runIdx%2 == 1 && !c.Ext {
			// the smallest non-empty database: exactly one committed transaction, then a clean restart
			if tx, err := r.st.NewWriteOnlyTx(context.Background()); err == nil {
				tx.Set([]byte("first"), nil, []byte("v"))
				if _, err := tx.Commit(context.Background()); err == nil {
					time.Sleep(5 * time.Millisecond)
					vh.Must(r.st.Close(), "close")
					res.Count("restart-with-exactly-one-committed-tx", 1)
					if !r.open(false) {
						res.Traces++
						vh.Must(tr.WriteTrace(out), "write trace")
						return
					}
				}
			}
		}
	}
	for cycle := 0; cycle <= c.Reopens; cycle++ {
		ctx, cancelAll := context.WithCancel(context.Background())
		var wg sync.WaitGroup
		stop := make(chan struct{})
		var mwg sync.WaitGroup
		mwg.Add(1)
		go func() { // maintenance
			defer mwg.Done()
			mr := rand.New(rand.NewSource(seed + int64(runIdx)*77 + int64(cycle)))
			for {
				select {
				case <-stop:
					return
				default:
				}
				switch mr.Intn(6) {
				case 0:
					r.st.FlushIndexes(0, mr.Intn(2) == 0)
				case 1:
					r.st.CompactIndexes()
				case 4:
					r.st.Sync()
				}
				time.Sleep(time.Duration(200+mr.Intn(800)) * time.Microsecond)
			}
		}()
		if c.Ext {
			// the allowance arrives from its own goroutine (as replication acks do): a committer with preconditions
			// waits for indexing while holding the store mutex, which Sync() needs as well
			mwg.Add(1)
			go func() {
				defer mwg.Done()
				for {
					select {
					case <-stop:
						return
					default:
					}
					r.st.AllowCommitUpto(r.st.LastPrecommittedTxID())
					time.Sleep(300 * time.Microsecond)
				}
			}()
		}
		for w := 0; w < c.Workers; w++ {
			wg.Add(1)
			go r.worker(ctx, rand.New(rand.NewSource(seed*31+int64(runIdx)*131+int64(cycle)*17+int64(w))), w, c.PerWorker, &wg, true)
		}
		wg.Wait()
		if c.Ext {
			r.st.AllowCommitUpto(r.st.LastPrecommittedTxID())
		}
		if c.Discard && cycle == 0 {
			// precommit a backlog whose committers are then cancelled, discard part of it, let the rest commit
			dctx, dcancel := context.WithCancel(context.Background())
			var dwg sync.WaitGroup
			base := r.st.LastPrecommittedTxID()
			k := 2 + rng.Intn(3)
			for w := 0; w < k; w++ {
				dwg.Add(1)
				go func(w int) {
					defer dwg.Done()
					tx, err := r.st.NewWriteOnlyTx(dctx)
					if err != nil {
						return
					}
					tx.Set([]byte(fmt.Sprintf("d%02d", w)), nil, []byte("to-be-discarded"))
					tx.AsyncCommit(dctx) // blocks: commit is not allowed
				}(w)
			}
			deadline := time.Now().Add(3 * time.Second)
			for r.st.LastPrecommittedTxID() < base+uint64(k) && time.Now().Before(deadline) {
				time.Sleep(200 * time.Microsecond)
			}
			since := base + 1 + uint64(rng.Intn(k))
			_, derr := r.st.DiscardPrecommittedTxsSince(since)
			if derr != nil {
				res.Count("discard-error", 1)
			} else {
				res.Count("discards", 1)
			}
			dcancel()
			dwg.Wait()
			r.st.AllowCommitUpto(r.st.LastPrecommittedTxID())
			// discarding committed txs must be refused without effect
			if n, _ := r.st.CommittedAlh(); n > 0 {
				if _, err := r.st.DiscardPrecommittedTxsSince(n); err == nil {
					res.Violate("store.DiscardPrecommittedTxsSince:accepts-committed-id", fmt.Sprintf("discard since committed tx %d succeeded", n), nil)
				}
			}
		}
		close(stop)
		mwg.Wait()
		cancelAll()
		// quiescent point
		if c.Synced {
			// wait until the syncer has committed everything precommitted (nothing is waiting for allowance)
			deadline := time.Now().Add(5 * time.Second)
			for r.st.LastCommittedTxID() < r.st.LastPrecommittedTxID() && !c.Ext && time.Now().Before(deadline) {
				time.Sleep(time.Millisecond)
			}
		}
		r.observe()
		r.state()
		if c.Truncate && cycle == 0 {
			if n, _ := r.st.CommittedAlh(); n >= 4 {
				upto := n/2 + 1
				if err := r.st.TruncateUptoTx(upto); err == nil {
					r.truncatedUpto = upto
					tr.Log(r.path, storetrace.Event{"ev": "Truncated", "n": upto})
					res.Count("truncations", 1)
					r.observe()
				} else {
					res.Count("truncate-error", 1)
				}
			}
		}
		if cycle < c.Reopens {
			vh.Must(r.st.Close(), "store.Close")
			if !r.open(false) {
				res.Traces++
				vh.Must(tr.WriteTrace(out), "write trace")
				return
			}
			r.observe()
			r.state()
		}
	}
	r.st.Close()
	res.Traces++
	vh.Must(tr.WriteTrace(out), "write trace")
	res.Count("events", tr.NumEvents())
	if runIdx < 2 {
		res.Sample(map[string]interface{}{"cfg": fmt.Sprintf("%+v", c), "first_events": tr.Events[:minInt(12, len(tr.Events))]}, 4)
	}
}

func minInt(a, b int) int {
	if a < b {
		return a
	}
	return b
}

func main() {
	seed := flag.Int64("seed", 1, "seed")
	runs := flag.Int("runs", 10, "number of runs (config classes rotate with the run index)")
	dir := flag.String("dir", "", "scratch directory")
	outp := flag.String("out", "", "ndjson trace output")
	flag.StringVar(&repoPath, "repo", "/repo", "repository root (for the legacy database fixture)")
	flag.Parse()
	out, err := os.Create(*outp)
	vh.Must(err, "create trace file")
	res := vh.NewResult()
	for i := 0; i < *runs; i++ {
		runOne(*dir, *seed, i, res, out)
	}
	out.Close()
	res.Distinct = res.Traces
	res.Emit()
}
