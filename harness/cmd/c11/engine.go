package main

import (
	"context"
	"fmt"
	"io"
	"os"
	"reflect"
	"strings"
	"time"
	"unsafe"

	"github.com/codenotary/immudb/embedded/logger"
	"github.com/codenotary/immudb/embedded/sql"
	"github.com/codenotary/immudb/embedded/store"

	"verifharness/vh"
)

// env is one real store + SQL engine (opened the way harness/cmd/c15 and c12 do) and at most one open
// SQL transaction (the "session").
type env struct {
	dir string
	st  *store.ImmuStore
	eng *sql.Engine
	tx  *sql.SQLTx
}

var sqlPrefix = []byte{2}

const guardDeadline = 60 * time.Second

func openEnv(dir string) *env {
	vh.Must(os.MkdirAll(dir, 0o755), "mkdir")
	// small buffers only: a store with default options allocates tens of MB per index and per open
	iopts := store.DefaultIndexOptions().WithCacheSize(64).WithFlushBufferSize(1 << 16).WithMaxActiveSnapshots(16)
	st, err := store.Open(dir, store.DefaultOptions().WithMultiIndexing(true).WithSynced(false).
		WithMaxTxEntries(128).WithMaxConcurrency(4).WithMVCCReadSetLimit(1<<30). // thousands of queries run inside one open transaction
		WithWriteBufferSize(1<<16).WithTxLogCacheSize(16).
		WithMaxKeyLen(256).WithMaxValueLen(1024).WithIndexOptions(iopts).
		WithAHTOptions(store.DefaultAHTOptions().WithWriteBufferSize(1<<16)).
		WithLogger(logger.NewSimpleLoggerWithLevel("c11", io.Discard, logger.LogError)))
	vh.Must(err, "store.Open")
	eng, err := sql.NewEngine(st, sql.DefaultOptions().WithPrefix(sqlPrefix))
	vh.Must(err, "sql.NewEngine")
	return &env{dir: dir, st: st, eng: eng}
}

func (e *env) close() {
	if e.tx != nil && !e.tx.Closed() {
		e.tx.Cancel()
	}
	e.tx = nil
	vh.Must(e.st.Close(), "store.Close")
}

func (e *env) reopen() {
	dir := e.dir
	e.close()
	*e = *openEnv(dir)
}

// exec runs one SQL text (possibly several statements) in the session.
func (e *env) exec(text string) error {
	ctx := context.Background()
	cur := e.tx
	if cur != nil && cur.Closed() {
		cur = nil
	}
	var ntx *sql.SQLTx
	var err error
	pan, hung, msg := vh.Guard(guardDeadline, func() {
		ntx, _, err = e.eng.Exec(ctx, cur, text, nil)
	})
	if pan || hung {
		return fmt.Errorf("panic/hang: %s", msg)
	}
	if err != nil {
		if cur != nil && cur.Closed() {
			e.tx = nil
		}
		return err
	}
	if ntx != nil && !ntx.Closed() {
		e.tx = ntx
	} else {
		e.tx = nil
	}
	return nil
}

// readerChain describes the row readers that serve a resolved query: the type of every reader from
// the outermost one down to the raw index scan, with the index the scan uses.  It only reads type
// names and (through the exported ScanSpecs) the index; it is evidence, not part of the verdict.
func readerChain(rd sql.RowReader) string {
	var parts []string
	v := reflect.ValueOf(rd)
	for depth := 0; depth < 16 && v.IsValid(); depth++ {
		for v.Kind() == reflect.Interface {
			v = v.Elem()
		}
		if !v.IsValid() || v.Kind() != reflect.Ptr || v.IsNil() {
			break
		}
		name := strings.TrimSuffix(strings.TrimPrefix(v.Type().String(), "*sql."), "RowReader")
		name = strings.TrimSuffix(name, "Reader")
		s := v.Elem()
		if s.Kind() != reflect.Struct {
			break
		}
		if name == "raw" {
			idx := "?"
			// the field is unexported: re-derive a readable pointer (used only to call the exported ScanSpecs())
			if rr, ok := reflect.NewAt(v.Type().Elem(), unsafe.Pointer(v.Pointer())).Interface().(sql.RowReader); ok {
				if sp := rr.ScanSpecs(); sp != nil && sp.Index != nil {
					if sp.Index.IsPrimary() {
						idx = "pk"
					} else {
						var cols []string
						for _, c := range sp.Index.Cols() {
							cols = append(cols, c.Name())
						}
						idx = strings.Join(cols, "+")
						if sp.Index.IsUnique() {
							idx = "u:" + idx
						}
					}
					if sp.DescOrder {
						idx += ":desc"
					}
				}
			}
			name = "raw[" + idx + "]"
		}
		if name == "sort" {
			if f := s.FieldByName("topNLimit"); f.IsValid() && f.Kind() == reflect.Int && f.Int() > 0 {
				name = "sort:topN"
			}
		}
		parts = append(parts, name)
		next := s.FieldByName("rowReader")
		if !next.IsValid() {
			next = s.FieldByName("rawReader")
		}
		if !next.IsValid() {
			if e := s.FieldByName("countingRowReader"); e.IsValid() && e.Kind() == reflect.Struct {
				next = e.FieldByName("rawReader")
			}
		}
		if !next.IsValid() {
			break
		}
		v = next
	}
	return strings.Join(parts, ">")
}

type qres struct {
	Cols  []string
	Rows  [][]interface{}
	Chain string
}

// query runs a SELECT inside the session's open transaction (if any) or on a fresh read-only tx.
func (e *env) query(text string) (*qres, error) {
	ctx := context.Background()
	cur := e.tx
	if cur != nil && cur.Closed() {
		cur = nil
	}
	out := &qres{}
	var err error
	pan, hung, msg := vh.Guard(guardDeadline, func() {
		var rd sql.RowReader
		rd, err = e.eng.Query(ctx, cur, text, nil)
		if err != nil {
			return
		}
		defer rd.Close()
		out.Chain = readerChain(rd)
		var cols []sql.ColDescriptor
		cols, err = rd.Columns(ctx)
		if err != nil {
			return
		}
		for _, c := range cols {
			out.Cols = append(out.Cols, c.Column)
		}
		var rows []*sql.Row
		rows, err = sql.ReadAllRows(ctx, rd)
		if err != nil {
			return
		}
		for _, r := range rows {
			o := make([]interface{}, len(r.ValuesByPosition))
			for j, v := range r.ValuesByPosition {
				if v == nil || v.IsNull() {
					o[j] = nil
				} else {
					o[j] = v.RawValue()
				}
			}
			out.Rows = append(out.Rows, o)
		}
	})
	if pan || hung {
		return nil, fmt.Errorf("panic/hang: %s", msg)
	}
	if err != nil {
		return out, err // out.Chain is set when the readers were built and the error came while reading
	}
	return out, nil
}
