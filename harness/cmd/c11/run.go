package main

import (
	"fmt"
	"os"
	"path/filepath"
	"sort"
	"strings"
	"sync"

	"verifharness/vh"
)

var res = vh.NewResult()

type runner struct {
	cf       *casesFile
	seed     int64
	dir      string
	selftestCase *kase
	only     map[string]bool // restrict to these "h/schema" worlds (replay)
	casesOf  map[int][]*kase
	partsOf  map[int][]*part

	mu       sync.Mutex
	distinct map[string]bool // distinct (history, query, form) with a non-empty expected answer
	chains   map[string]int  // reader chain -> executions
	planCls  map[string]int  // plan class (see planClass) -> executions compared
	guardCnt map[string]int  // non-vacuity guards
}

// world = one (history, schema variant) on its own store.
type world struct {
	r       *runner
	h       *history
	sv      int
	sc      *schema
	c       *conc
	e       *env
	script  []string // every statement executed so far (replay)
	t1idx   []index  // indexes that exist right now
	t2idx   []index
	t3idx   []index
	t3InTx  bool // t3 was filled by the open transaction
	state   string
	lastChain string
	anyCell map[string]anyObs // engine-defined cells: (state, query, col) -> first observed value
}

func (w *world) do(sql string) error {
	w.script = append(w.script, sql)
	return w.e.exec(sql)
}

func (w *world) must(sql string) {
	if err := w.do(sql); err != nil {
		vh.Fatalf("world h=%d schema=%q: %s: %v", w.h.ID, w.sc.Name, sql, err)
	}
}

func (w *world) hasUnique() bool {
	for _, ix := range w.t1idx {
		if ix.Unique {
			return true
		}
	}
	return false
}

func (w *world) createIndexes(late bool) {
	for _, ix := range w.sc.T1 {
		if ix.Late == late {
			w.must(renderIndex("t1", ix))
			w.t1idx = append(w.t1idx, ix)
		}
	}
	for _, ix := range w.sc.T2 {
		if ix.Late == late {
			w.must(renderIndex("t2", ix))
			w.t2idx = append(w.t2idx, ix)
		}
	}
	for _, ix := range w.sc.T3 {
		if ix.Late == late {
			w.must(renderIndex("t3", ix))
			w.t3idx = append(w.t3idx, ix)
		}
	}
}

func (w *world) fillT3() {
	var rs []string
	for _, t := range w.h.T3Rows {
		rs = append(rs, fmt.Sprintf("(%s, %s, %s, %s, %s, %s)", w.c.lit("int", t[0]), w.c.lit("flt", t[1]), w.c.lit("int", t[2]),
			w.c.lit("int", t[3]), w.c.lit("str", t[4]), w.c.lit("str", t[5])))
	}
	w.must("INSERT INTO t3 (id, f, g, n, s, u) VALUES " + strings.Join(rs, ", "))
}

func (r *runner) runWorld(h *history, sv int) {
	if !r.buildAndRun(h, sv, false) {
		// the transaction could not be used (a statement was refused, or its effect is not the model's): same
		// history again on a fresh store with every statement auto-committed, so that the other two states still run
		if !r.buildAndRun(h, sv, true) {
			res.Count("world:abandoned", 1)
		}
	}
	res.Count("world", 1)
	res.Count("schema:"+r.cf.Schemas[sv-1].Name, 1)
}

// content reads t1 through the primary index and compares it with the model's table.
func (w *world) content(want [][]int) (bool, [][]int) {
	got, err := w.e.query("SELECT id, a, b, c FROM t1 USE INDEX ON (id)")
	if err != nil {
		vh.Fatalf("world h=%d schema=%q: reading t1: %v", w.h.ID, w.sc.Name, err)
	}
	q := &w.r.cf.Queries[0]
	abs, bad := w.toAbstract(q, got)
	if bad != "" {
		return false, abs
	}
	return bagEq(bagOf(abs), bagOf(want)), abs
}

// dmlDiffers records that the DML history did not produce the model's table.  UPDATE / DELETE choose their rows
// through the same access paths as SELECT, so inside a transaction the two known index defects change what
// gets written; they are recognised by what is wrong with the table.
func (w *world) dmlDiffers(got [][]int, inTx bool) {
	sig := "sql.dml:table-differs-from-model:" + w.h.Stmts[len(w.h.Stmts)-1].K
	if inTx && len(w.t1idx) > 0 {
		removed := map[int]bool{}
		for _, id := range w.h.TxRemoved {
			removed[id] = true
		}
		want := bagOf(w.h.Final)
		resurrected := false
		for _, r := range got {
			if want[key(r)] == 0 && removed[r[0]] {
				resurrected = true
			}
		}
		if resurrected {
			sig = "sqltx:uidx_no_own_removal:dml-in-tx-writes-through-stale-index-entry"
		} else {
			sig = "sqltx:transient_index_key_without_pk:dml-in-tx-misses-rows-sharing-an-index-key"
		}
	}
	res.Violate(sig, fmt.Sprintf("history %d (mutation %d, base %d, split %d) under schema %q: after the statements the table (primary-key scan) is %v, the model says %v",
		w.h.ID, w.h.Mut, w.h.Base, w.h.Split, w.sc.Name, got, w.h.Final),
		map[string]interface{}{"history": w.h.ID, "schema": w.sc.Name, "schema_id": w.sv, "script": append([]string{}, w.script...)})
	res.Count("world:dml-differs", 1)
}

func (r *runner) buildAndRun(h *history, sv int, allAuto bool) bool {
	sc := &r.cf.Schemas[sv-1]
	k := int(r.seed) + h.ID*3 + sv
	w := &world{r: r, h: h, sv: sv, sc: sc, anyCell: map[string]anyObs{},
		c: &conc{null: r.cf.Null, any: r.cf.Any, scale: scales[k%len(scales)], strs: strTables[(k/3)%len(strTables)]}}
	dir := filepath.Join(r.dir, fmt.Sprintf("w%d_%d", h.ID, sv))
	os.RemoveAll(dir)
	w.e = openEnv(dir)
	defer func() {
		w.e.close()
		os.RemoveAll(dir)
	}()
	split := h.Split
	if allAuto {
		split = len(h.Stmts)
	}
	w.must("CREATE TABLE t1 (id INTEGER, a INTEGER, b VARCHAR[16], c BOOLEAN, PRIMARY KEY id)")
	w.must("CREATE TABLE t2 (id INTEGER, x INTEGER, y VARCHAR[16], PRIMARY KEY id)")
	w.must("CREATE TABLE t3 (id INTEGER, f FLOAT, g INTEGER, n INTEGER, s VARCHAR[16], u VARCHAR[16], PRIMARY KEY id)")
	w.createIndexes(false)
	// t3 is static; in every other world that has a transaction it is filled by that transaction (hash / streaming
	// aggregation and index ranges over rows the open transaction wrote), otherwise up front
	t3InTx := split < len(h.Stmts) && (h.ID+sv)%2 == 0
	if !t3InTx {
		w.fillT3()
	}
	if len(h.T2Rows) > 0 {
		var rs []string
		for _, t := range h.T2Rows {
			rs = append(rs, fmt.Sprintf("(%s, %s, %s)", w.c.lit("int", t[0]), w.c.lit("sint", t[1]), w.c.lit("str", t[2])))
		}
		w.must("INSERT INTO t2 (id, x, y) VALUES " + strings.Join(rs, ", "))
	}
	lateDone := false
	for i := 0; i < split; i++ {
		if i == h.Split && h.Split > 0 && !lateDone {
			w.createIndexes(true)
			lateDone = true
		}
		w.must(renderStmt(&h.Stmts[i], w.c))
		if !allAuto {
			res.Count("stmt:"+h.Stmts[i].K+":autocommit", 1)
		}
	}
	if split > 0 && !lateDone {
		w.createIndexes(true)
		lateDone = true
	}
	if split < len(h.Stmts) {
		w.must("BEGIN TRANSACTION")
		if t3InTx {
			w.fillT3()
			w.t3InTx = true
		}
		for i := split; i < len(h.Stmts); i++ {
			sql := renderStmt(&h.Stmts[i], w.c)
			if err := w.do(sql); err != nil {
				// The engine refused a statement of the transaction (and cancelled the transaction).  That is C13's
				// business (own writes inside a transaction), not a query result: recorded under C13's signatures.
				refused := fmt.Sprintf("%s: %v", sql, err)
				sig := "sqltx:dml-refused-in-tx:" + errClass(refused)
				if strings.Contains(refused, "non-transient key to transient") {
					sig = "sqltx:upd_own_inserted_u_fails:c11-history"
				} else if strings.Contains(refused, "key already exists") {
					sig = "sqltx:uidx_no_own_removal:dml-refused"
					if !w.hasUnique() {
						sig = "sqltx:pk_get_sees_own_deleted:c11-history"
					}
				}
				res.Violate(sig, fmt.Sprintf("history %d (mutation %d, base %d) under schema %q: inside the transaction the engine refused %s",
					h.ID, h.Mut, h.Base, sc.Name, refused), map[string]interface{}{"history": h.ID, "schema": sc.Name, "schema_id": sv,
					"script": append([]string{}, w.script...)})
				res.Count("world:tx-refused", 1)
				return false
			}
		}
		if ok, got := w.content(h.Final); !ok {
			w.dmlDiffers(got, true)
			return false
		}
		for i := split; i < len(h.Stmts); i++ {
			res.Count("stmt:"+h.Stmts[i].K+":in-tx", 1)
		}
		w.state = "intx"
		w.runAll()
		w.must("COMMIT")
	}
	if !lateDone {
		w.createIndexes(true)
	}
	if ok, got := w.content(h.Final); !ok {
		w.dmlDiffers(got, false)
		return false
	}
	w.state = "committed"
	w.runAll()
	w.script = append(w.script, "--reopen")
	w.e.reopen()
	w.state = "reopened"
	w.runAll()
	return true
}

func errClass(msg string) string {
	i := strings.LastIndex(msg, ": ")
	s := msg
	if i >= 0 {
		s = msg[i+2:]
	}
	s = strings.Map(func(r rune) rune {
		if r >= 'a' && r <= 'z' || r >= 'A' && r <= 'Z' {
			return r
		}
		return '-'
	}, s)
	if len(s) > 40 {
		s = s[:40]
	}
	return s
}

// forms lists the physical forms of q that can be asked in the current state of the world.
func (w *world) forms(q *query) []form {
	var fs []form
	hasWhere := len(q.Where) > 0
	if len(q.Join) == 0 {
		uses := [][]string{nil, {"id"}}
		idx := w.t1idx
		if q.Tbl == "t3" {
			idx = w.t3idx
		}
		for _, ix := range idx {
			uses = append(uses, ix.Cols)
		}
		for _, u := range uses {
			n := "idx:engine"
			if u != nil {
				n = "idx:forced"
			}
			fs = append(fs, form{name: n + "/where:plain", useT1: u, where: "plain"})
			if hasWhere {
				fs = append(fs, form{name: n + "/where:notnot", useT1: u, where: "notnot"})
			}
		}
		if hasWhere && hasCmp(q.Where[0]) {
			fs = append(fs, form{name: "idx:engine/where:flip", where: "flip"})
		}
		fs = append(fs, form{name: "derived-table", derived: true, where: "plain"})
		return fs
	}
	uses := [][]string{nil}
	for _, ix := range w.t1idx {
		uses = append(uses, ix.Cols)
	}
	for _, u := range uses {
		n := "outer:engine"
		if u != nil {
			n = "outer:forced"
		}
		fs = append(fs, form{name: "join:hash/" + n, useT1: u, where: "plain", joinCond: "hash"})
		fs = append(fs, form{name: "join:nested/" + n, useT1: u, where: "plain", joinCond: "nl"})
	}
	fs = append(fs, form{name: "join:nested-no-range", where: "plain", joinCond: "nlh"})
	fs = append(fs, form{name: "join:hash-flipped", where: "plain", joinCond: "flip"})
	fs = append(fs, form{name: "join:hash-unqualified-inner", where: "plain", joinCond: "unq"})
	fs = append(fs, form{name: "join:derived-inner", where: "plain", joinCond: "flip", derived2: true})
	for _, ix := range w.t2idx {
		fs = append(fs, form{name: "join:nested/inner:forced", useT2: ix.Cols, where: "plain", joinCond: "nl"})
		fs = append(fs, form{name: "join:hash/inner:forced", useT2: ix.Cols, where: "plain", joinCond: "hash"})
	}
	if hasWhere {
		fs = append(fs, form{name: "join:hash/where:notnot", where: "notnot", joinCond: "hash"})
		fs = append(fs, form{name: "join:hash/where:unqualified", where: "loose", joinCond: "hash"})
		fs = append(fs, form{name: "join:nested/where:unqualified", where: "loose", joinCond: "nl"})
	}
	return fs
}

func (w *world) runAll() {
	for _, k := range w.r.casesOf[w.h.ID] {
		q := &w.r.cf.Queries[k.Q-1]
		for _, f := range w.forms(q) {
			w.runCase(k, q, f)
		}
	}
	for _, p := range w.r.partsOf[w.h.ID] {
		w.runPart(p)
	}
}

type anyObs struct {
	val   int
	chain string
}

func key(r []int) string { return fmt.Sprint(r) }

func bagOf(rs [][]int) map[string]int {
	m := map[string]int{}
	for _, r := range rs {
		m[key(r)]++
	}
	return m
}

func bagEq(a, b map[string]int) bool {
	if len(a) != len(b) {
		return false
	}
	for k, v := range a {
		if b[k] != v {
			return false
		}
	}
	return true
}

func bagIncl(small, big map[string]int) bool {
	for k, v := range small {
		if big[k] < v {
			return false
		}
	}
	return true
}

// toAbstract projects the engine's rows back to the abstract domain.
func (w *world) toAbstract(q *query, got *qres) ([][]int, string) {
	ts := resultTypes(q)
	out := make([][]int, 0, len(got.Rows))
	for _, r := range got.Rows {
		if len(r) != len(ts) {
			return nil, fmt.Sprintf("row with %d columns, expected %d", len(r), len(ts))
		}
		o := make([]int, len(r))
		for i, v := range r {
			a, ok := w.c.abs(ts[i], v)
			if !ok {
				return nil, fmt.Sprintf("value %v (%T) in column %d is not a value of the column's domain", v, v, i+1)
			}
			o[i] = a
		}
		out = append(out, o)
	}
	return out, ""
}

// conforms decides whether the abstract answer got is one the denotation allows.  exp is the full result before
// OFFSET / LIMIT, sorted by the ORDER BY keys (ties in any order).
//   - without ORDER BY the result is a bag;
//   - with ORDER BY the sequence of sort keys is fixed and rows with equal keys form a bag;
//   - OFFSET / LIMIT cut a window out of some valid order: the window's key sequence is fixed, its rows are
//     drawn from the full result, and a tie group lying completely inside the window is complete;
//   - LIMIT without ORDER BY: any sub-bag of the right size;
//   - cells the spec marks ANY are engine-defined: they must be the same for every plan and state.
func (w *world) conforms(k *kase, q *query, got [][]int, chain string) string {
	sh := &q.Shape
	exp := k.Rows
	var keyPos []int
	if sh.Kind == "rows" {
		for _, o := range sh.order {
			for i, p := range sh.Proj {
				if p == o.Col {
					keyPos = append(keyPos, i)
				}
			}
		}
	} else if sh.groupOrd != 0 {
		keyPos = []int{0}
	}
	// engine-defined cells (only in the single row of a global aggregate over an empty input)
	hasAny := false
	for _, r := range exp {
		for _, v := range r {
			hasAny = hasAny || v == w.c.any
		}
	}
	if hasAny {
		if len(exp) != 1 || len(got) != 1 {
			return fmt.Sprintf("%d rows, expected %d", len(got), len(exp))
		}
		cp := append([]int{}, got[0]...)
		for j, v := range exp[0] {
			if v != w.c.any {
				continue
			}
			id := fmt.Sprintf("%s/%d/%d", w.state, k.Q, j)
			if first, seen := w.anyCell[id]; seen {
				if cp[j] != first.val {
					return fmt.Sprintf("engine-defined cell (column %d) is %d here and %d through the plan %s", j+1, cp[j], first.val, first.chain)
				}
			} else {
				w.anyCell[id] = anyObs{cp[j], chain}
			}
			cp[j] = v
		}
		got = [][]int{cp}
	}
	keysOf := func(r []int) string {
		ks := make([]int, len(keyPos))
		for i, p := range keyPos {
			ks[i] = r[p]
		}
		return fmt.Sprint(ks)
	}
	limit, offset := -1, 0
	if sh.Kind == "rows" {
		limit = sh.Limit
		if sh.Offset > 0 {
			offset = sh.Offset
		}
	}
	if limit < 0 && offset == 0 {
		if len(got) != len(exp) {
			return fmt.Sprintf("%d rows, expected %d", len(got), len(exp))
		}
		if !bagEq(bagOf(got), bagOf(exp)) {
			return "different rows"
		}
		for i := range exp {
			if keysOf(got[i]) != keysOf(exp[i]) {
				return fmt.Sprintf("row %d is out of order (sort key %s, expected %s)", i+1, keysOf(got[i]), keysOf(exp[i]))
			}
		}
		return ""
	}
	lo := offset
	if lo > len(exp) {
		lo = len(exp)
	}
	hi := len(exp)
	if limit > 0 && lo+limit < hi { // the engine defines LIMIT 0 as "no limit"; the fragment has no LIMIT 0
		hi = lo + limit
	}
	if len(got) != hi-lo {
		return fmt.Sprintf("%d rows, expected %d (offset %d, limit %d of %d)", len(got), hi-lo, offset, limit, len(exp))
	}
	if !bagIncl(bagOf(got), bagOf(exp)) {
		return "rows that are not in the full result"
	}
	if len(keyPos) == 0 {
		return ""
	}
	for i := range got {
		if keysOf(got[i]) != keysOf(exp[lo+i]) {
			return fmt.Sprintf("row %d of the window is out of order (sort key %s, expected %s)", i+1, keysOf(got[i]), keysOf(exp[lo+i]))
		}
	}
	// a tie group completely inside the window must be complete (bag inclusion + equal size => equal bags)
	full := map[string]int{}
	for _, r := range exp {
		full[keysOf(r)]++
	}
	inWin := map[string]int{}
	for _, r := range exp[lo:hi] {
		inWin[keysOf(r)]++
	}
	gotBy := map[string]map[string]int{}
	for _, r := range got {
		ks := keysOf(r)
		if gotBy[ks] == nil {
			gotBy[ks] = map[string]int{}
		}
		gotBy[ks][key(r)]++
	}
	for ks, n := range inWin {
		if n == full[ks] {
			want := map[string]int{}
			for _, r := range exp {
				if keysOf(r) == ks {
					want[key(r)]++
				}
			}
			if !bagEq(want, gotBy[ks]) {
				return "a tie group inside the LIMIT window has different rows"
			}
		}
	}
	return ""
}

func touchyRefusal(err error) bool {
	s := err.Error()
	return strings.Contains(s, "expecting boolean value") || strings.Contains(s, "invalid condition")
}

// planClass abstracts the reader chain: index names become pk / secondary / composite / unique.
func planClass(chain string) string {
	var out []string
	for _, p := range strings.Split(chain, ">") {
		if strings.HasPrefix(p, "raw[") {
			in := strings.TrimSuffix(strings.TrimPrefix(p, "raw["), "]")
			desc := strings.HasSuffix(in, ":desc")
			in = strings.TrimSuffix(in, ":desc")
			cls := "secondary"
			switch {
			case in == "pk":
				cls = "pk"
			case strings.HasPrefix(in, "u:"):
				cls = "unique"
			case strings.Contains(in, "+"):
				cls = "composite"
			}
			if desc {
				cls += ":desc"
			}
			p = "raw[" + cls + "]"
		}
		out = append(out, p)
	}
	return strings.Join(out, ">")
}

func usesSecondary(chain string) bool {
	return strings.Contains(chain, "raw[") && !strings.HasSuffix(chain, "raw[pk]") && !strings.HasSuffix(chain, "raw[pk:desc]")
}

func (w *world) runCase(k *kase, q *query, f form) {
	sql := renderQuery(q, w.c, f)
	exp := k
	if k == w.r.selftestCase {
		cp := *k
		cp.Rows = k.Rows[1:] // corrupted expectation: the binding self-test must see a violation
		exp = &cp
	}
	w.check(sql, q, exp, f, fmt.Sprintf("q%d", k.Q))
}

// pickSelftest chooses the case whose expectation is corrupted by -selftest.
func (r *runner) pickSelftest() {
	for i := range r.cf.Cases {
		k := &r.cf.Cases[i]
		sh := &r.cf.Queries[k.Q-1].Shape
		if !k.Touchy && len(k.Rows) > 1 && sh.Kind == "rows" && sh.Limit < 0 && sh.Offset < 0 {
			r.selftestCase = k
			return
		}
	}
	vh.Fatalf("selftest: no suitable case")
}

// check runs one SQL text and judges the answer; returns the abstract rows (nil when refused / faulty).
func (w *world) check(sql string, q *query, k *kase, f form, what string) [][]int {
	got, err := w.e.query(sql)
	w.lastChain = ""
	if err == nil {
		w.lastChain = got.Chain
	}
	res.Count("executions", 1)
	res.Count("state:"+w.state, 1)
	res.Count("form:"+f.name, 1)
	if err != nil {
		if strings.Contains(err.Error(), "syntax error") {
			vh.Fatalf("cannot render %s: %s: %v", what, sql, err)
		}
		// NOT (NOT (P)) puts a nullable boolean condition under NOT, where the engine refuses UNKNOWN
		if (k.Touchy || f.where == "notnot" && hasBool(q.Where[0])) && touchyRefusal(err) {
			res.Count("touchy:refused", 1)
			return nil
		}
		chain := ""
		if got != nil {
			chain = got.Chain
		}
		w.report("error:"+errClass(err.Error()), chain, f, q, sql, k, nil, fmt.Sprintf("the engine answers with an error: %v", err))
		return nil
	}
	if k.Touchy {
		res.Count("touchy:answered", 1)
	}
	w.r.mu.Lock()
	w.r.chains[got.Chain]++
	w.r.planCls[planClass(got.Chain)]++
	w.guards(q, f, got.Chain)
	if len(k.Rows) > 0 {
		w.r.distinct[fmt.Sprintf("%d/%s/%s/%v/%v", w.h.ID, what, f.name, f.useT1, f.useT2)] = true
	}
	w.r.mu.Unlock()
	res.Sample(map[string]interface{}{"state": w.state, "schema": w.sc.Name, "history": w.h.ID, "sql": sql, "readers": got.Chain,
		"rows": fmt.Sprint(got.Rows)}, 6)
	abs, bad := w.toAbstract(q, got)
	if bad == "" {
		bad = w.conforms(k, q, abs, got.Chain)
	}
	if bad != "" {
		// flake guard: the failure must re-occur
		got2, err2 := w.e.query(sql)
		if err2 == nil {
			abs2, bad2 := w.toAbstract(q, got2)
			if bad2 == "" {
				bad2 = w.conforms(k, q, abs2, got2.Chain)
			}
			if bad2 == "" {
				res.Count("flaky-mismatch", 1)
				return abs2
			}
		}
		w.report(symptomClass(bad), got.Chain, f, q, sql, k, got.Rows, bad)
		return abs
	}
	return abs
}

// guards counts the executions that reach the situations the check must not be vacuous about (called under r.mu).
func (w *world) guards(q *query, f form, chain string) {
	g := w.r.guardCnt
	sh := &q.Shape
	if q.Tbl == "t3" && crossTypeRange(q) && onNextColumn(q) && strings.Contains(chain, "raw[f+g") {
		g["class1:cross-type-range-on-float-leading-column/"+sh.Kind+"-on-next-column/index(f,g)"]++
	}
	if sh.Kind == "group" && len(sh.By) >= 2 {
		switch {
		case strings.Contains(chain, "hashGrouped"):
			g["class2:multi-column-nullable-group-by/hash"]++
			if w.state == "intx" && w.txTouches(q) {
				g["class2:multi-column-nullable-group-by/hash/in-writing-tx"]++
			}
		case strings.Contains(chain, "grouped"):
			g["class2:multi-column-nullable-group-by/streaming"]++
		}
	}
	if orderByInner(q) {
		g["join:order-by-inner-table-column"]++
	}
	if nonEquiOn(q) && (f.joinCond == "hash" || f.joinCond == "flip") && !f.derived2 {
		g["join:hash-join-with-correlated-non-equi-conjunct"]++
	}
	if explicitNulls(q) && !strings.Contains(chain, "sort") && strings.Contains(chain, "raw[") && !strings.Contains(chain, "raw[pk") {
		g["order:explicit-nulls-placement-served-by-index"]++
	}
}

func symptomClass(bad string) string {
	switch {
	case strings.Contains(bad, "out of order"):
		return "order"
	case strings.Contains(bad, "engine-defined"):
		return "engine-defined-cell-differs"
	case strings.Contains(bad, "domain"):
		return "value-outside-domain"
	case strings.Contains(bad, "rows, expected"):
		return "row-count"
	}
	return "rows"
}

func queryClass(q *query) string {
	sh := &q.Shape
	c := sh.Kind
	if q.Tbl == "t3" {
		c = "t3/" + c
	}
	if len(q.Join) > 0 {
		c = q.Join[0].Type + "-join/" + c
	}
	if sh.Kind == "rows" {
		if sh.Distinct {
			c += "+distinct"
		}
		if len(sh.order) > 0 {
			c += "+order"
		}
		if sh.Limit >= 0 || sh.Offset >= 0 {
			c += "+limit"
		}
	} else {
		if len(sh.By) == 0 {
			c = strings.Replace(c, "group", "aggregate", 1)
		}
		if sh.Having {
			c += "+having"
		}
	}
	return c
}

// txWrites: the open transaction has written rows of t1.
func (w *world) txWrites() bool { return w.state == "intx" && w.h.Split < len(w.h.Stmts) }

// diagnose gives the canonical signature of a wrong answer.  Root causes that the evidence identifies get their own
// signature (the first three are those of C13's findings, whose consequences for queries show up here):
//   - inside a transaction that deleted / changed rows, a scan of a secondary index still sees the old entries;
//   - inside a transaction, rows written by it that share a secondary-index key collapse to one (the transient
//     index key has no primary key);
//   - DISTINCT + ORDER BY + LIMIT served by the bounded (top-N) sort: LIMIT is applied before DISTINCT;
//   - hash join with an unqualified inner column in ON: the hash table is keyed by a selector no row has.
// Everything else: query class : symptom : form : plan class : state.
// txTouches: the open transaction has written rows of the table(s) q reads.
func (w *world) txTouches(q *query) bool {
	if q.Tbl == "t3" {
		return w.state == "intx" && w.t3InTx
	}
	return w.txWrites()
}

func orderByInner(q *query) bool {
	for _, o := range q.Shape.order {
		if o.Col == "id2" || o.Col == "x" || o.Col == "y" {
			return len(q.Join) > 0
		}
	}
	return false
}

func nonEquiOn(q *query) bool {
	if len(q.Join) == 0 {
		return false
	}
	for _, on := range q.Join[0].On {
		if on[1] != "=" {
			return true
		}
	}
	return false
}

func explicitNulls(q *query) bool {
	for _, o := range q.Shape.order {
		if o.Nulls != "" {
			return true
		}
	}
	return false
}

func hasILit(p *pred) bool {
	if p == nil {
		return false
	}
	return p.ILit || hasILit(p.L) || hasILit(p.R) || hasILit(p.P)
}

// crossTypeRange: WHERE is f <op> c1 AND f <op> c2 (a range, not an equality) with at least one INTEGER literal.
func crossTypeRange(q *query) bool {
	if len(q.Where) == 0 || q.Where[0].K != "and" {
		return false
	}
	l, r := q.Where[0].L, q.Where[0].R
	return l.K == "cmp" && r.K == "cmp" && l.Col == "f" && r.Col == "f" && l.Op != "=" && r.Op != "=" && (l.ILit || r.ILit)
}

// onNextColumn: the query orders / groups / de-duplicates by g, the column after f in the index (f, g).
func onNextColumn(q *query) bool {
	sh := &q.Shape
	if sh.Kind == "group" {
		return len(sh.By) > 0 && sh.By[0] == "g"
	}
	if len(sh.order) > 0 {
		return sh.order[0].Col == "g"
	}
	return sh.Distinct && sh.Proj[0] == "g"
}

// diagnose gives the canonical signature of a wrong answer.  Root causes that the evidence identifies get their own
// signature (the in-transaction ones are those of C13's findings, whose consequences for queries show up here):
//   - inside a transaction that deleted / changed rows, a scan of a secondary index still sees the old entries;
//   - inside a transaction, rows written by it that share a secondary-index key collapse to one (the transient
//     index key has no primary key);
//   - DISTINCT + ORDER BY + LIMIT served by the bounded (top-N) sort: LIMIT is applied before DISTINCT;
//   - hash join with an unqualified inner column in ON: the hash table is keyed by a selector no row has;
//   - a NULL of a FLOAT column compared with an INTEGER literal is "not comparable" (rows the plan skips do not fail);
//   - ORDER BY a column of the joined table is resolved against the outer table's index and the sort is dropped;
//   - hash join with an ON conjunct that is not an equality and involves the outer row: evaluated for the first outer row only;
//   - NULLS FIRST / NULLS LAST is ignored when an index serves the order.
// Everything else: query class : symptom : form : plan class : state.
func (w *world) diagnose(symptom, chain, otherChain, why string, f form, q *query) string {
	sec := usesSecondary(chain) || usesSecondary(otherChain)
	hashForm := (f.joinCond == "hash" || f.joinCond == "flip") && !f.derived2
	switch {
	case q.Tbl != "t3" && w.txTouches(q) && sec && len(w.h.TxRemoved) > 0:
		return "sqltx:uidx_no_own_removal:in-tx-index-scan:" + queryClass(q)
	case w.txTouches(q) && sec:
		return "sqltx:transient_index_key_without_pk:in-tx-index-scan:" + queryClass(q)
	case strings.Contains(chain, "distinct>projected>sort:topN"):
		return "sql.select:topN-sort-before-distinct:" + symptom + ":" + stateClass(w.state)
	case strings.Contains(why, "values are not comparable") && len(q.Where) > 0 && hasILit(q.Where[0]):
		return "sql.compare:null-float-vs-integer-literal-not-comparable:" + stateClass(w.state)
	case orderByInner(q) && symptom == "order" && !strings.Contains(chain, "sort"):
		return "sql.join:order-by-inner-column-taken-for-outer-index-column:" + stateClass(w.state)
	case nonEquiOn(q) && hashForm && strings.Contains(chain, "joint") && !strings.HasPrefix(symptom, "error"):
		return "sql.join:hash-join-correlated-non-equi-conjunct:" + q.Join[0].Type + ":" + symptom
	case f.joinCond == "unq" && strings.Contains(chain, "joint") && !strings.HasPrefix(symptom, "error"):
		return "sql.join:hash-join-unqualified-inner-column:" + queryClass(q) + ":" + symptom
	case explicitNulls(q) && symptom == "order" && !strings.Contains(chain, "sort"):
		return "sql.select:nulls-first-last-ignored-by-index-order:" + stateClass(w.state)
	}
	return fmt.Sprintf("sql.select:%s:%s:%s:%s:%s", queryClass(q), symptom, f.name, planClass(chain), stateClass(w.state))
}

func (w *world) report(symptom, chain string, f form, q *query, sql string, k *kase, got [][]interface{}, why string) {
	other := ""
	if i := strings.Index(why, "through the plan "); i >= 0 {
		other = why[i+len("through the plan "):]
	}
	sig := w.diagnose(symptom, chain, other, why, f, q)
	text := fmt.Sprintf("history %d (mutation %d, base %d, split %d) schema %q state %s: %s  -- %s; served by %s; expected (abstract, before LIMIT) %v; engine returned %v",
		w.h.ID, w.h.Mut, w.h.Base, w.h.Split, w.sc.Name, w.state, sql, why, chain, k.Rows, got)
	res.Violate(sig, text, map[string]interface{}{
		"history": w.h.ID, "schema": w.sc.Name, "schema_id": w.sv, "state": w.state, "script": append([]string{}, w.script...), "query": sql,
		"expected_abstract": k.Rows, "got": fmt.Sprint(got), "chain": chain, "scale": w.c.scale, "strings": w.c.strs})
}

func stateClass(s string) string {
	if s == "intx" {
		return "in-tx"
	}
	return "committed" // committed and reopened: the same defect shows in both
}

// runPart checks the partition identity on the engine for one (history, predicate): through every index choice,
// Q = (Q AND P) + (Q AND NOT P) + (Q AND (P) IS NULL) as bags, and each part equals the denotation.
func (w *world) runPart(p *part) {
	pr := w.r.cf.Preds[p.P-1]
	base := &w.r.cf.Queries[0] // the plain full-row query over t1 (Shapes[1], no WHERE)
	uses := [][]string{nil, {"id"}}
	for _, ix := range w.t1idx {
		uses = append(uses, ix.Cols)
	}
	for _, u := range uses {
		f := form{name: "partition", useT1: u, where: "plain"}
		mk := func(wh []*pred, rows [][]int, touchy bool) (*query, *kase) {
			q := *base
			q.Where = wh
			return &q, &kase{H: p.H, Q: -p.P, Rows: rows, Touchy: touchy}
		}
		qa, ka := mk(nil, p.All, false)
		qp, kp := mk([]*pred{pr}, p.Pos, p.Touchy)
		qn, kn := mk([]*pred{{K: "not", P: pr}}, p.Neg, p.Touchy)
		qu, ku := mk([]*pred{{K: "pisnull", P: pr}}, p.Nul, p.Touchy)
		chains := ""
		all := w.check(renderQuery(qa, w.c, f), qa, ka, f, fmt.Sprintf("part%d:all", p.P))
		chains += w.lastChain + " "
		pos := w.check(renderQuery(qp, w.c, f), qp, kp, f, fmt.Sprintf("part%d:pos", p.P))
		chains += w.lastChain + " "
		neg := w.check(renderQuery(qn, w.c, f), qn, kn, f, fmt.Sprintf("part%d:neg", p.P))
		chains += w.lastChain + " "
		nul := w.check(renderQuery(qu, w.c, f), qu, ku, f, fmt.Sprintf("part%d:null", p.P))
		chains += w.lastChain
		if all == nil || pos == nil || neg == nil || nul == nil {
			res.Count("partition:skipped-refused", 1)
			continue
		}
		sum := bagOf(pos)
		for k, v := range bagOf(neg) {
			sum[k] += v
		}
		for k, v := range bagOf(nul) {
			sum[k] += v
		}
		res.Count("partition:checked", 1)
		if !bagEq(sum, bagOf(all)) {
			sql := renderQuery(qp, w.c, f)
			sig := "sql.select:partition-identity:" + stateClass(w.state)
			if w.txWrites() && strings.Contains(strings.ReplaceAll(chains, "raw[pk]", ""), "raw[") {
				sig = w.diagnose("partition-identity", "raw[x]", "", "", f, qp)
			}
			res.Violate(sig,
				fmt.Sprintf("history %d schema %q state %s: %s: P, NOT P and P IS NULL do not partition the result: %v + %v + %v vs %v",
					w.h.ID, w.sc.Name, w.state, sql, pos, neg, nul, all),
				map[string]interface{}{"script": append([]string{}, w.script...), "query": sql})
		}
	}
}

func (r *runner) run(workers int) {
	type job struct {
		h  *history
		sv int
	}
	var jobs []job
	for i := range r.cf.Histories {
		h := &r.cf.Histories[i]
		for _, sv := range h.Schemas {
			if r.only != nil && !r.only[fmt.Sprintf("%d/%d", h.ID, sv)] {
				continue
			}
			jobs = append(jobs, job{h, sv})
		}
	}
	ch := make(chan job)
	var wg sync.WaitGroup
	for i := 0; i < workers; i++ {
		wg.Add(1)
		go func() {
			defer wg.Done()
			for j := range ch {
				r.runWorld(j.h, j.sv)
			}
		}()
	}
	for _, j := range jobs {
		ch <- j
	}
	close(ch)
	wg.Wait()

	res.Distinct = len(r.distinct)
	res.Evaluations = res.Counters["executions"]
	for c, n := range r.planCls {
		res.Count("plan:"+c, n)
	}
	for c, n := range r.guardCnt {
		res.Count("guard:"+c, n)
	}
	type cn struct {
		c string
		n int
	}
	var cs []cn
	for c, n := range r.chains {
		cs = append(cs, cn{c, n})
	}
	sort.Slice(cs, func(i, j int) bool { return cs[i].n > cs[j].n || cs[i].n == cs[j].n && cs[i].c < cs[j].c })
	chains := map[string]int{}
	for _, x := range cs {
		chains[x.c] = x.n
	}
	res.Extra["reader_chains"] = chains
	res.Extra["distinct_reader_chains"] = len(cs)
}
