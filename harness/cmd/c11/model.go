package main

import (
	"encoding/json"
	"fmt"
	"strconv"
	"strings"
)

// The JSON document written by spec/SQLQuery.tla.

type pred struct {
	K    string  `json:"k"`
	Col  string  `json:"col"`
	Op   string  `json:"op"`
	V    int     `json:"v"`
	Lo   int     `json:"lo"`
	Hi   int     `json:"hi"`
	Vs   []int   `json:"vs"`
	Neg  bool    `json:"neg"`
	Pre  int     `json:"pre"`
	L    *pred   `json:"l"`
	R    *pred   `json:"r"`
	P    *pred   `json:"p"`
	Scol string  `json:"scol"`
	W    []*pred `json:"w"`
	ILit bool    `json:"ilit"` // constants of a FLOAT comparison written as INTEGER literals
}

type stmt struct {
	K    string  `json:"k"`
	Rows [][]int `json:"rows"`
	Col  string  `json:"col"`
	V    int     `json:"v"`
	W    []*pred `json:"w"`
}

type index struct {
	Cols   []string `json:"cols"`
	Unique bool     `json:"unique"`
	Late   bool     `json:"late"`
}

type schema struct {
	Name string  `json:"name"`
	T1   []index `json:"t1"`
	T2   []index `json:"t2"`
	T3   []index `json:"t3"`
}

type history struct {
	ID        int     `json:"id"`
	Mut       int     `json:"mut"`
	Base      int     `json:"base"`
	SplitKind int     `json:"splitKind"`
	Stmts     []stmt  `json:"stmts"`
	Split     int     `json:"split"`
	T2        int     `json:"t2"`
	T2Rows    [][]int `json:"t2rows"`
	Final     [][]int `json:"final"`
	Committed [][]int `json:"committed"`
	TxRemoved []int   `json:"txRemoved"`
	UniqueOK  bool    `json:"uniqueOK"`
	Schemas   []int   `json:"schemas"`
	T3        int     `json:"t3"`
	T3Rows    [][]int `json:"t3rows"`
}

type ordKey struct {
	Col   string
	Desc  bool
	Nulls string // "", "first", "last"
}

type shape struct {
	Kind     string          `json:"kind"`
	Proj     []string        `json:"proj"`
	Distinct bool            `json:"distinct"`
	RawOrder json.RawMessage `json:"order"`
	Limit    int             `json:"limit"`
	Offset   int             `json:"offset"`
	By       []string        `json:"by"`
	Aggs     [][]string      `json:"aggs"`
	Having   bool            `json:"having"`

	order    []ordKey // rows: ORDER BY keys
	groupOrd int      // group: 0 none, 1 asc, 2 desc on the group column
}

type join struct {
	Type string     `json:"type"`
	On   [][]string `json:"on"`
}

type query struct {
	Tbl   string  `json:"tbl"`
	Join  []join  `json:"join"`
	Where []*pred `json:"where"`
	Shape shape   `json:"shape"`
	Pi    int     `json:"pi"`
	Si    int     `json:"si"`
}

type kase struct {
	H      int     `json:"h"`
	Q      int     `json:"q"`
	Rows   [][]int `json:"rows"`
	Touchy bool    `json:"touchy"`
}

type part struct {
	H      int     `json:"h"`
	P      int     `json:"p"`
	All    [][]int `json:"all"`
	Pos    [][]int `json:"pos"`
	Neg    [][]int `json:"neg"`
	Nul    [][]int `json:"nul"`
	Touchy bool    `json:"touchy"`
}

type casesFile struct {
	Seed      int       `json:"seed"`
	Null      int       `json:"null"`
	Any       int       `json:"any"`
	Schemas   []schema  `json:"schemas"`
	Histories []history `json:"histories"`
	Preds     []*pred   `json:"preds"`
	Queries   []query   `json:"queries"`
	NSingle   int       `json:"nsingle"`
	NJoin     int       `json:"njoin"`
	Cases     []kase    `json:"cases"`
	Parts     []part    `json:"parts"`
}

func (cf *casesFile) fixup() error {
	for i := range cf.Queries {
		sh := &cf.Queries[i].Shape
		switch sh.Kind {
		case "rows":
			var raw [][]interface{}
			if err := json.Unmarshal(sh.RawOrder, &raw); err != nil {
				return fmt.Errorf("query %d order: %v", i+1, err)
			}
			for _, o := range raw {
				sh.order = append(sh.order, ordKey{Col: o[0].(string), Desc: o[1].(bool), Nulls: o[2].(string)})
			}
		case "group":
			if err := json.Unmarshal(sh.RawOrder, &sh.groupOrd); err != nil {
				return fmt.Errorf("query %d order: %v", i+1, err)
			}
		default:
			return fmt.Errorf("query %d: kind %q", i+1, sh.Kind)
		}
	}
	return nil
}

// ---------------------------------------------------------------- concretisation of abstract values

// conc maps the abstract codes of the spec to SQL values and back.  a / x are scaled by an order-preserving
// factor (so that SUM stays linear), b / y go through one of several order- and prefix-preserving string tables.
type conc struct {
	null, any int
	scale     int64
	strs      []string // code 0..3
}

// codes 0..5; in every table 1 is a prefix of 2, 3 of 4, and [2]+[5] = [1]+[4] (('ab','c') vs ('a','bc'))
var strTables = [][]string{
	{"", "a", "ab", "b", "bc", "c"},
	{"", "K", "KL", "L", "LM", "M"},
	{"", "aaaaaaa", "aaaaaaab", "b", "baaaaaaa", "baaaaaaab"}, // [2]+[5] != [1]+[4] here: long keys instead
}
var scales = []int64{1, 7, 1 << 33}

// colType: "int" (id, id2, counts), "sint" (a, x: scaled), "str" (b, y), "bool" (c)
func colType(col string) string {
	switch col {
	case "id", "id2", "g", "n":
		return "int"
	case "a", "x":
		return "sint"
	case "f":
		return "flt"
	case "b", "y", "s", "u":
		return "str"
	case "c":
		return "bool"
	}
	panic("colType " + col)
}

func (c *conc) lit(typ string, v int) string {
	if v == c.null {
		return "NULL"
	}
	switch typ {
	case "int":
		return fmt.Sprint(v)
	case "sint":
		return fmt.Sprint(int64(v) * c.scale)
	case "str":
		return "'" + c.strs[v] + "'"
	case "bool":
		if v == 1 {
			return "TRUE"
		}
		return "FALSE"
	case "flt": // code = 4 x value
		return strconv.FormatFloat(float64(v)/4, 'f', 2, 64)
	case "flt-as-int":
		if v%4 != 0 {
			panic("integer literal for a fractional FLOAT code")
		}
		return fmt.Sprint(v / 4)
	}
	panic("lit " + typ)
}

// abs maps a raw engine value back to the abstract code; ok=false when the value is not in the image.
func (c *conc) abs(typ string, raw interface{}) (int, bool) {
	if raw == nil {
		return c.null, true
	}
	switch typ {
	case "int":
		if v, ok := raw.(int64); ok {
			return int(v), true
		}
	case "sint":
		if v, ok := raw.(int64); ok && v%c.scale == 0 {
			return int(v / c.scale), true
		}
	case "flt":
		if v, ok := raw.(float64); ok && v*4 == float64(int(v*4)) {
			return int(v * 4), true
		}
	case "str":
		if s, ok := raw.(string); ok {
			for i, t := range c.strs {
				if t == s {
					return i, true
				}
			}
		}
	case "bool":
		if b, ok := raw.(bool); ok {
			if b {
				return 1, true
			}
			return 0, true
		}
	}
	return 0, false
}

// ---------------------------------------------------------------- rendering

// names maps an abstract column to its SQL name in the current query form.
type names func(col string) string

func plainNames(col string) string { return col }
func qualNames(col string) string {
	switch col {
	case "id", "a", "b", "c":
		return "t1." + col
	case "id2":
		return "t2.id"
	}
	return "t2." + col
}

// unqualified where possible (id exists in both tables)
func looseNames(col string) string {
	switch col {
	case "id":
		return "t1.id"
	case "id2":
		return "t2.id"
	}
	return col
}

var mirror = map[string]string{"=": "=", "<>": "<>", "<": ">", "<=": ">=", ">": "<", ">=": "<="}

// renderPred renders p; flip writes comparisons as <constant> <op> <column>.
func litType(p *pred) string {
	t := colType(p.Col)
	if p.ILit && t == "flt" {
		return "flt-as-int"
	}
	return t
}

func renderPred(p *pred, c *conc, nm names, flip bool) string {
	switch p.K {
	case "cmp":
		if flip {
			return fmt.Sprintf("%s %s %s", c.lit(litType(p), p.V), mirror[p.Op], nm(p.Col))
		}
		return fmt.Sprintf("%s %s %s", nm(p.Col), p.Op, c.lit(litType(p), p.V))
	case "between":
		return fmt.Sprintf("%s BETWEEN %s AND %s", nm(p.Col), c.lit(litType(p), p.Lo), c.lit(litType(p), p.Hi))
	case "in":
		var vs []string
		for _, v := range p.Vs {
			vs = append(vs, c.lit(litType(p), v))
		}
		not := ""
		if p.Neg {
			not = "NOT "
		}
		return fmt.Sprintf("%s %sIN (%s)", nm(p.Col), not, strings.Join(vs, ", "))
	case "like":
		not := ""
		if p.Neg {
			not = "NOT "
		}
		return fmt.Sprintf("%s %sLIKE '%s%%'", nm(p.Col), not, c.strs[p.Pre])
	case "isnull":
		if p.Neg {
			return nm(p.Col) + " IS NOT NULL"
		}
		return nm(p.Col) + " IS NULL"
	case "bool":
		return nm(p.Col)
	case "and":
		return "(" + renderPred(p.L, c, nm, flip) + " AND " + renderPred(p.R, c, nm, flip) + ")"
	case "or":
		return "(" + renderPred(p.L, c, nm, flip) + " OR " + renderPred(p.R, c, nm, flip) + ")"
	case "not":
		return "NOT (" + renderPred(p.P, c, nm, flip) + ")"
	case "pisnull":
		return "(" + renderPred(p.P, c, nm, flip) + ") IS NULL"
	case "insub":
		not := ""
		if p.Neg {
			not = "NOT "
		}
		w := ""
		if len(p.W) > 0 {
			w = " WHERE " + renderPred(p.W[0], c, plainNames, flip)
		}
		return fmt.Sprintf("%s %sIN (SELECT %s FROM t2%s)", nm(p.Col), not, p.Scol, w)
	}
	panic("renderPred " + p.K)
}

func hasCmp(p *pred) bool {
	if p == nil {
		return false
	}
	if p.K == "cmp" {
		return true
	}
	return hasCmp(p.L) || hasCmp(p.R) || hasCmp(p.P)
}

func hasBool(p *pred) bool {
	if p == nil {
		return false
	}
	if p.K == "bool" {
		return true
	}
	return hasBool(p.L) || hasBool(p.R) || hasBool(p.P)
}

func predKinds(p *pred, into map[string]bool) {
	if p == nil {
		return
	}
	k := p.K
	switch p.K {
	case "cmp":
		k = "cmp" + p.Op
	case "in", "like", "isnull", "insub":
		if p.Neg {
			k = "not-" + k
		}
	}
	into[k] = true
	predKinds(p.L, into)
	predKinds(p.R, into)
	predKinds(p.P, into)
	for _, w := range p.W {
		predKinds(w, into)
	}
}

// form is one physical way of asking the same query.
type form struct {
	name     string   // class of the form (evidence, signatures)
	useT1    []string // USE INDEX ON (...) for t1 (nil = engine's choice)
	useT2    []string // same for t2 (joins)
	where    string   // plain | notnot | flip | loose (joins: unqualified columns)
	derived  bool     // FROM (SELECT * FROM t1) AS t1
	joinCond string   // hash | flip | nl | nlh | unq     (joins)
	derived2 bool     // JOIN (SELECT * FROM t2) AS t2    (joins)
}

func useClause(cols []string) string {
	if cols == nil {
		return ""
	}
	return " USE INDEX ON (" + strings.Join(cols, ", ") + ")"
}

func renderWhere(w []*pred, c *conc, nm names, f form) string {
	if len(w) == 0 {
		return ""
	}
	switch f.where {
	case "notnot":
		return " WHERE NOT (NOT (" + renderPred(w[0], c, nm, false) + "))"
	case "flip":
		return " WHERE " + renderPred(w[0], c, nm, true)
	}
	return " WHERE " + renderPred(w[0], c, nm, false)
}

func renderQuery(q *query, c *conc, f form) string {
	sh := &q.Shape
	var sb strings.Builder
	nm := names(plainNames)
	if len(q.Join) > 0 {
		nm = qualNames
	}
	sb.WriteString("SELECT ")
	if sh.Kind == "rows" {
		if sh.Distinct {
			sb.WriteString("DISTINCT ")
		}
		var cols []string
		for _, p := range sh.Proj {
			cols = append(cols, nm(p))
		}
		sb.WriteString(strings.Join(cols, ", "))
	} else {
		var cols []string
		for _, b := range sh.By {
			cols = append(cols, nm(b))
		}
		for _, a := range sh.Aggs {
			if a[1] == "*" {
				cols = append(cols, a[0]+"(*)")
			} else {
				cols = append(cols, a[0]+"("+nm(a[1])+")")
			}
		}
		sb.WriteString(strings.Join(cols, ", "))
	}
	if f.derived {
		sb.WriteString(" FROM (SELECT * FROM " + q.Tbl + ") AS " + q.Tbl)
	} else {
		sb.WriteString(" FROM " + q.Tbl + useClause(f.useT1))
	}
	wnm := nm
	if len(q.Join) > 0 {
		j := q.Join[0]
		if j.Type == "inner" {
			sb.WriteString(" INNER JOIN ")
		} else {
			sb.WriteString(" LEFT JOIN ")
		}
		if f.derived2 {
			sb.WriteString("(SELECT * FROM t2) AS t2")
		} else {
			sb.WriteString("t2" + useClause(f.useT2))
		}
		var conds []string
		for _, on := range j.On {
			l, op, r := qualNames(on[0]), on[1], qualNames(on[2])
			switch f.joinCond {
			case "hash", "nlh":
				conds = append(conds, l+" "+op+" "+r)
			case "unq":
				conds = append(conds, l+" "+op+" "+looseNames(on[2]))
			default:
				conds = append(conds, r+" "+mirror[op]+" "+l)
			}
		}
		if f.joinCond == "nl" || f.joinCond == "nlh" {
			// a conjunct over the outer row only: the condition is no pure equi-join any more (no hash join);
			// written inner-column-first ("nl") the equality becomes a scan range of the inner table
			conds = append(conds, "t1.id = t1.id")
		}
		sb.WriteString(" ON " + strings.Join(conds, " AND "))
		if f.where == "loose" {
			wnm = looseNames
		}
	}
	sb.WriteString(renderWhere(q.Where, c, wnm, f))
	if sh.Kind == "group" {
		if len(sh.By) > 0 {
			var bs []string
			for _, b := range sh.By {
				bs = append(bs, nm(b))
			}
			sb.WriteString(" GROUP BY " + strings.Join(bs, ", "))
		}
		if sh.Having {
			sb.WriteString(" HAVING COUNT(*) > 1")
		}
		switch sh.groupOrd {
		case 1:
			sb.WriteString(" ORDER BY " + nm(sh.By[0]))
		case 2:
			sb.WriteString(" ORDER BY " + nm(sh.By[0]) + " DESC")
		}
		return sb.String()
	}
	if len(sh.order) > 0 {
		var ks []string
		for _, o := range sh.order {
			k := nm(o.Col)
			if o.Desc {
				k += " DESC"
			}
			switch o.Nulls {
			case "first":
				k += " NULLS FIRST"
			case "last":
				k += " NULLS LAST"
			}
			ks = append(ks, k)
		}
		sb.WriteString(" ORDER BY " + strings.Join(ks, ", "))
	}
	if sh.Limit >= 0 {
		sb.WriteString(fmt.Sprintf(" LIMIT %d", sh.Limit))
	}
	if sh.Offset >= 0 {
		sb.WriteString(fmt.Sprintf(" OFFSET %d", sh.Offset))
	}
	return sb.String()
}

// resultTypes gives the abstract type of every result column.
func resultTypes(q *query) []string {
	sh := &q.Shape
	var ts []string
	if sh.Kind == "rows" {
		for _, p := range sh.Proj {
			ts = append(ts, colType(p))
		}
		return ts
	}
	for _, b := range sh.By {
		ts = append(ts, colType(b))
	}
	for _, a := range sh.Aggs {
		switch {
		case a[0] == "COUNT":
			ts = append(ts, "int")
		default:
			ts = append(ts, colType(a[1]))
		}
	}
	return ts
}

func renderStmt(s *stmt, c *conc) string {
	row := func(r []int) string {
		return fmt.Sprintf("(%s, %s, %s, %s)", c.lit("int", r[0]), c.lit("sint", r[1]), c.lit("str", r[2]), c.lit("bool", r[3]))
	}
	switch s.K {
	case "ins", "upsert", "insdn":
		var rs []string
		for _, r := range s.Rows {
			rs = append(rs, row(r))
		}
		verb, tail := "INSERT", ""
		if s.K == "upsert" {
			verb = "UPSERT"
		}
		if s.K == "insdn" {
			tail = " ON CONFLICT DO NOTHING"
		}
		return verb + " INTO t1 (id, a, b, c) VALUES " + strings.Join(rs, ", ") + tail
	case "upd":
		return fmt.Sprintf("UPDATE t1 SET %s = %s WHERE %s", s.Col, c.lit(colType(s.Col), s.V), renderPred(s.W[0], c, plainNames, false))
	case "del":
		return "DELETE FROM t1 WHERE " + renderPred(s.W[0], c, plainNames, false)
	}
	panic("renderStmt " + s.K)
}

func renderIndex(table string, ix index) string {
	u := ""
	if ix.Unique {
		u = "UNIQUE "
	}
	return fmt.Sprintf("CREATE %sINDEX ON %s(%s)", u, table, strings.Join(ix.Cols, ", "))
}
