// Command c11: conformance driver for property C11 (SQL results do not depend on the physical plan).
//
//	c11 -cases cases.json -seed N -dir D [-workers W] [-selftest] [-only h/schema,...]
//	      replays every (schema variant, DML history, query) triple written by spec/SQLQuery.tla on a real
//	      embedded/sql engine: each query is asked in every physical form the schema offers (forced indexes,
//	      pushed-down / non-sargable / derived-table predicates, hash / nested-loop joins, ...) in three states
//	      (inside the writing transaction, committed, after close + reopen) and every answer is compared with
//	      the denotation computed by TLC.
//	c11 -script f.sql -dir D
//	      runs SQL texts, one per line ("--reopen" = close and reopen), and prints rows and reader chains (repro tool).
package main

import (
	"bufio"
	"flag"
	"fmt"
	"os"
	"path/filepath"
	"strings"

	"verifharness/vh"
)

func runScript(path, dir string) {
	f, err := os.Open(path)
	vh.Must(err, "open script")
	defer f.Close()
	d := filepath.Join(dir, "script")
	os.RemoveAll(d)
	e := openEnv(d)
	sc := bufio.NewScanner(f)
	for sc.Scan() {
		line := strings.TrimSpace(sc.Text())
		if line == "" || strings.HasPrefix(line, "#") {
			continue
		}
		if line == "--reopen" {
			e.reopen()
			fmt.Println("-- reopened")
			continue
		}
		if strings.HasPrefix(strings.ToUpper(line), "SELECT") {
			r, err := e.query(line)
			if err != nil {
				fmt.Printf("%s\n   ERROR %v\n", line, err)
				continue
			}
			fmt.Printf("%s\n   %v  via %s\n", line, r.Rows, r.Chain)
			continue
		}
		if err := e.exec(line); err != nil {
			fmt.Printf("%s\n   ERROR %v\n", line, err)
		} else {
			fmt.Printf("%s\n   ok\n", line)
		}
	}
	e.close()
	os.RemoveAll(d)
}

func main() {
	script := flag.String("script", "", "ad-hoc SQL script, one statement per line (repro tool)")
	cases := flag.String("cases", "", "JSON written by spec/SQLQuery.tla")
	dir := flag.String("dir", "", "scratch directory")
	seed := flag.Int64("seed", 1, "VERIF_SEED")
	workers := flag.Int("workers", 4, "worlds run in parallel")
	selftest := flag.Bool("selftest", false, "corrupt one expected answer (the run must report a violation)")
	only := flag.String("only", "", "comma separated history/schema pairs to run (replay)")
	flag.Parse()
	if *dir == "" {
		vh.Fatalf("-dir is required")
	}
	if *script != "" {
		runScript(*script, *dir)
		return
	}
	var cf casesFile
	vh.ReadJSON(*cases, &cf)
	vh.Must(cf.fixup(), "cases file")
	r := &runner{cf: &cf, seed: *seed, dir: *dir, casesOf: map[int][]*kase{}, partsOf: map[int][]*part{},
		distinct: map[string]bool{}, chains: map[string]int{}, planCls: map[string]int{}, guardCnt: map[string]int{}}
	for i := range cf.Cases {
		k := &cf.Cases[i]
		r.casesOf[k.H] = append(r.casesOf[k.H], k)
		kinds := map[string]bool{}
		q := &cf.Queries[k.Q-1]
		for _, w := range q.Where {
			predKinds(w, kinds)
		}
		for kd := range kinds {
			res.Count("op:"+kd, 1)
		}
		res.Count("query:"+queryClass(q), 1)
	}
	for i := range cf.Parts {
		p := &cf.Parts[i]
		r.partsOf[p.H] = append(r.partsOf[p.H], p)
	}
	if *selftest {
		r.pickSelftest()
	}
	if *only != "" {
		r.only = map[string]bool{}
		for _, s := range strings.Split(*only, ",") {
			r.only[s] = true
		}
	}
	r.run(*workers)
	res.Emit()
}
