// c03idx replays behaviours of spec/IndexCrash.tla on the real index tree (embedded/tbtree):
// inserts, synced / unsynced flushes, stops (process kill, power loss with the per-chunk choice TLC made, also in the
// middle of a flush or of the wiping done by OpenWith), clean closes and re-openings.  Every physical file operation is
// recorded through the verif hooks; a stop materialises the image the model chose (never losing what the real code has
// fsynced), the real tbtree.Open recovers it, and the whole content (latest value, timestamp, history of every key) is
// compared with the reference states of all the generations flushed so far:
//   Sound:   the recovered tree is exactly one flushed generation (or empty) and every read terminates without error
//   Durable: that generation has the last acknowledged synced flush in its lineage
// The generation the model predicted is compared as well (difference = drift note, not a verdict).
package main

import (
	"bytes"
	"encoding/json"
	"errors"
	"flag"
	"fmt"
	"math/rand"
	"os"
	"path/filepath"
	"sort"
	"strings"
	"sync"
	"time"

	"verifharness/vh"

	"github.com/codenotary/immudb/embedded/tbtree"
	"github.com/codenotary/immudb/embedded/verifhook"
)

const cEntry = 100 // tbtree commit-log entry size

type pop struct {
	kind string // create | write | fsync | remove | put
	file string // relative to the current root
	off  int64
	data []byte
	ok   bool
}

type recorder struct {
	mu   sync.Mutex
	root string
	buf  []pop
}

func (r *recorder) sink(ev string, kv ...interface{}) {
	switch ev {
	case "FCreate", "FWrite", "FSync", "FRemove", "FRename":
	default:
		return
	}
	name := kv[0].(string)
	if ev == "FRename" {
		name = kv[1].(string)
	}
	r.mu.Lock()
	root := r.root
	r.mu.Unlock()
	if !strings.HasPrefix(name, root+string(os.PathSeparator)) {
		return
	}
	rel, _ := filepath.Rel(root, name)
	o := pop{file: rel}
	switch ev {
	case "FCreate":
		o.kind = "create"
		o.data, _ = os.ReadFile(name)
	case "FWrite":
		o.kind = "write"
		o.off = kv[1].(int64)
		o.data = append([]byte(nil), kv[2].([]byte)...)
	case "FSync":
		o.kind = "fsync"
		o.ok = kv[1].(bool)
	case "FRemove":
		o.kind = "remove"
	case "FRename":
		o.kind = "put"
		o.data, _ = os.ReadFile(name)
	}
	r.mu.Lock()
	r.buf = append(r.buf, o)
	r.mu.Unlock()
}

func (r *recorder) take() []pop {
	r.mu.Lock()
	defer r.mu.Unlock()
	b := r.buf
	r.buf = nil
	return b
}

func class(file string) string {
	switch {
	case strings.HasPrefix(file, "nodes"):
		return "n"
	case strings.HasPrefix(file, "history"):
		return "h"
	case strings.HasPrefix(file, "commit"):
		return "c"
	}
	return ""
}

type pwrite struct {
	off  int64
	data []byte
	f    string
	p    int // position (1-based) in the model's terms
	tag  int // generation of the content (0 = wiping zeroes)
}

type pfile struct {
	durable []byte
	pending []pwrite
	exists  bool
}

type version struct {
	Ts uint64
	V  []byte
}
type refState map[string][]version // oldest first

func (s refState) clone() refState {
	c := refState{}
	for k, v := range s {
		c[k] = append([]version(nil), v...)
	}
	return c
}

type gen struct {
	pos    int
	lin    []int
	synced bool
	ref    refState
	ts     uint64
}

type mop struct {
	Op     string           `json:"op"`
	Over   bool             `json:"over"`
	Sync   bool             `json:"sync"`
	Kind   string           `json:"kind"`
	At     string           `json:"at"`
	Img    map[string][]int `json:"img"`
	Loaded int              `json:"loaded"`
}

type behaviour struct {
	Ops    []mop  `json:"ops"`
	Origin string `json:"origin"`
}

type runner struct {
	res   *vh.Result
	rec   *recorder
	rng   *rand.Rand
	base  string
	n     int
	opts  func() *tbtree.Options
	files map[string]*pfile
	order []string
	cbase int64 // offset of the first commit-log entry inside its file
	// model-side mirror
	gens  []gen // index g-1
	cl    []int
	cur   map[string]map[int]int
	dur   map[string]map[int]int
	acked int
	// real side
	dir     string
	tb      *tbtree.TBtree
	ref     refState
	ts      uint64
	ctr     int
	lastTag int    // generation tag of the ops in the recorder buffer
	lastPos int    // its position
	lastOp  string // flush | open | other
	trace   []interface{}
	hung    bool // a read that never returns holds the tree's lock: nothing more can be done in this process
}

func applyWrite(b []byte, off int64, data []byte) []byte {
	end := int(off) + len(data)
	if end > len(b) {
		nb := make([]byte, end)
		copy(nb, b)
		b = nb
	}
	copy(b[off:], data)
	return b
}

func (r *runner) file(name string) *pfile {
	f := r.files[name]
	if f == nil {
		f = &pfile{}
		r.files[name] = f
		r.order = append(r.order, name)
	}
	return f
}

// absorb applies the first n buffered operations of the last call to the file model (the rest never happened).
func (r *runner) absorb(ops []pop, n int) {
	if n > len(ops) {
		n = len(ops)
	}
	for _, o := range ops[:n] {
		f := r.file(o.file)
		cl := class(o.file)
		switch o.kind {
		case "create", "put":
			f.exists, f.durable, f.pending = true, append([]byte(nil), o.data...), nil
		case "remove":
			f.exists, f.durable, f.pending = false, nil, nil
		case "write":
			if cl == "c" {
				if r.cbase < 0 {
					r.cbase = o.off
				}
				// split per entry: the model decides per position
				for a := int64(0); a < int64(len(o.data)); {
					pos := int((o.off+a-r.cbase)/cEntry) + 1
					end := (int64(pos))*cEntry + r.cbase - o.off
					if end > int64(len(o.data)) {
						end = int64(len(o.data))
					}
					tag := r.lastTag
					if r.lastOp == "open" {
						tag = 0
					}
					f.pending = append(f.pending, pwrite{off: o.off + a, data: o.data[a:end], f: "c", p: pos, tag: tag})
					r.cur["c"][pos] = tag
					a = end
				}
			} else if cl == "n" || cl == "h" {
				f.pending = append(f.pending, pwrite{off: o.off, data: o.data, f: cl, p: r.lastPos, tag: r.lastTag})
				r.cur[cl][r.lastPos] = r.lastTag
			} else {
				f.pending = append(f.pending, pwrite{off: o.off, data: o.data})
			}
		case "fsync":
			if o.ok {
				for _, w := range f.pending {
					f.durable = applyWrite(f.durable, w.off, w.data)
					if w.f != "" {
						r.dur[w.f][w.p] = r.cur[w.f][w.p]
					}
				}
				f.pending = nil
			}
		}
	}
}

func cut(ops []pop, at string) int {
	firstC, firstCS, firstS := -1, -1, -1
	for i, o := range ops {
		c := class(o.file)
		if o.kind == "fsync" && firstS < 0 {
			firstS = i
		}
		if o.kind == "write" && c == "c" && firstC < 0 {
			firstC = i
		}
		if o.kind == "fsync" && c == "c" && firstCS < 0 && firstC >= 0 {
			firstCS = i
		}
	}
	switch at {
	case "data":
		k := len(ops)
		if firstS >= 0 && firstS < k {
			k = firstS
		}
		if firstC >= 0 && firstC < k {
			k = firstC
		}
		return k
	case "dsync", "wipe":
		if firstC >= 0 {
			return firstC
		}
		return len(ops)
	case "clog", "wsync":
		if firstCS >= 0 {
			return firstCS
		}
		if firstC >= 0 {
			return firstC + 1
		}
		return len(ops)
	case "csync":
		if firstCS >= 0 {
			return firstCS + 1
		}
		return len(ops)
	}
	return len(ops)
}

// materialise writes the image chosen by the model into a new directory and makes it the durable state.
func (r *runner) materialise(kind string, img map[string][]int) (string, map[string]interface{}) {
	r.n++
	dir := filepath.Join(r.base, fmt.Sprintf("img%05d", r.n))
	desc := map[string]interface{}{}
	for _, name := range r.order {
		f := r.files[name]
		if !f.exists {
			continue
		}
		b := append([]byte(nil), f.durable...)
		kept, lost, torn := 0, 0, 0
		for _, w := range f.pending {
			switch {
			case kind == "kill" || w.f == "":
				b = applyWrite(b, w.off, w.data)
				kept++
			default:
				want := 0
				if w.p-1 < len(img[w.f]) {
					want = img[w.f][w.p-1]
				}
				if want == w.tag {
					b = applyWrite(b, w.off, w.data)
					kept++
				} else if want == 0 && r.dur[w.f][w.p] != 0 && len(w.data) > 1 {
					b = applyWrite(b, w.off, w.data[:len(w.data)/2]) // torn: the region holds neither the old nor the new content
					r.cur[w.f][w.p] = 0
					torn++
				} else {
					r.cur[w.f][w.p] = r.dur[w.f][w.p]
					lost++
				}
			}
		}
		if len(f.pending) > 0 {
			desc[name] = []int{kept, lost, torn}
		}
		p := filepath.Join(dir, name)
		vh.Must(os.MkdirAll(filepath.Dir(p), 0755), "mkdir")
		vh.Must(os.WriteFile(p, b, 0644), "write image")
		f.durable, f.pending = b, nil
	}
	for _, c := range []string{"n", "h", "c"} {
		for p, g := range r.cur[c] {
			r.dur[c][p] = g
		}
	}
	return dir, desc
}

func (r *runner) keys() []string {
	ks := make([]string, 0, 16)
	for i := 0; i < 12; i++ {
		ks = append(ks, fmt.Sprintf("k%02d", i))
	}
	return ks
}

// observe reads the whole content of the real tree.
func (r *runner) observe() (refState, uint64, string) {
	got := refState{}
	var ts uint64
	var problem string
	_, hung, msg := vh.Guard(20*time.Second, func() {
		ts = r.tb.Ts()
		for _, k := range r.keys() {
			v, t, hc, err := r.tb.Get([]byte(k))
			if errors.Is(err, tbtree.ErrKeyNotFound) {
				continue
			}
			if err != nil {
				problem = fmt.Sprintf("Get(%s): %v", k, err)
				return
			}
			tvs, hcount, err := r.tb.History([]byte(k), 0, false, 1000)
			if err != nil {
				problem = fmt.Sprintf("History(%s): %v", k, err)
				return
			}
			if hcount != hc || uint64(len(tvs)) != hc {
				problem = fmt.Sprintf("History(%s): %d versions listed, count %d, Get says %d", k, len(tvs), hcount, hc)
				return
			}
			vs := make([]version, 0, len(tvs))
			for _, tv := range tvs {
				vs = append(vs, version{Ts: tv.Ts, V: append([]byte(nil), tv.Value...)})
			}
			if len(vs) == 0 || !bytes.Equal(vs[len(vs)-1].V, v) || vs[len(vs)-1].Ts != t {
				problem = fmt.Sprintf("History(%s) does not end with the value Get returns", k)
				return
			}
			got[k] = vs
		}
	})
	if hung {
		problem = "reading the recovered tree does not terminate"
		r.hung = true
	} else if msg != "" {
		problem = "reading the recovered tree panics: " + msg
	}
	return got, ts, problem
}

func equalState(a, b refState) bool {
	if len(a) != len(b) {
		return false
	}
	for k, va := range a {
		vb, ok := b[k]
		if !ok || len(va) != len(vb) {
			return false
		}
		for i := range va {
			if va[i].Ts != vb[i].Ts || !bytes.Equal(va[i].V, vb[i].V) {
				return false
			}
		}
	}
	return true
}

func (r *runner) reset(i int) {
	r.files, r.order, r.cbase = map[string]*pfile{}, nil, -1
	r.gens, r.cl, r.acked = nil, nil, 0
	r.cur = map[string]map[int]int{"n": {}, "h": {}, "c": {}}
	r.dur = map[string]map[int]int{"n": {}, "h": {}, "c": {}}
	r.ref, r.ts, r.trace = refState{}, 0, nil
	r.n++
	r.dir = filepath.Join(r.base, fmt.Sprintf("run%05d", r.n))
	r.lastOp = "other"
}

func (r *runner) open() error {
	r.rec.mu.Lock()
	r.rec.root = r.dir
	r.rec.mu.Unlock()
	var err error
	r.tb, err = tbtree.Open(r.dir, r.opts())
	return err
}

func (r *runner) insert(over bool) {
	nk := 1 + r.rng.Intn(3)
	existing := make([]string, 0)
	for k := range r.ref {
		existing = append(existing, k)
	}
	sort.Strings(existing)
	kvs := []*tbtree.KVT{}
	used := map[string]bool{}
	r.ts++
	for j := 0; j < nk; j++ {
		var k string
		if over && j == 0 && len(existing) > 0 {
			k = existing[r.rng.Intn(len(existing))]
		} else {
			k = r.keys()[r.rng.Intn(12)]
			if !over {
				// a batch that must not create history: only keys that are not in the tree
				if _, ok := r.ref[k]; ok {
					continue
				}
			}
		}
		if used[k] {
			continue
		}
		used[k] = true
		r.ctr++
		v := []byte(fmt.Sprintf("v%d-%s", r.ctr, strings.Repeat("x", r.rng.Intn(60))))
		kvs = append(kvs, &tbtree.KVT{K: []byte(k), V: v, T: r.ts})
		r.ref[k] = append(r.ref[k], version{Ts: r.ts, V: v})
	}
	if len(kvs) == 0 {
		// every key is taken: rewrite one (the model's `over` is then wrong for this step, which only matters for the prediction)
		k := existing[r.rng.Intn(len(existing))]
		r.ctr++
		v := []byte(fmt.Sprintf("v%d", r.ctr))
		kvs = append(kvs, &tbtree.KVT{K: []byte(k), V: v, T: r.ts})
		r.ref[k] = append(r.ref[k], version{Ts: r.ts, V: v})
	}
	sort.Slice(kvs, func(a, b int) bool { return bytes.Compare(kvs[a].K, kvs[b].K) < 0 })
	vh.Must(r.tb.BulkInsert(kvs), "BulkInsert")
}

func (r *runner) flush(sync bool) {
	r.absorbPending("")
	g := len(r.gens) + 1
	pos := len(r.cl) + 1
	r.lastTag, r.lastPos, r.lastOp = g, pos, "flush"
	_, _, err := r.tb.FlushWith(0, sync)
	vh.Must(err, "FlushWith")
	lin := append(append([]int(nil), r.cl...), g)
	r.gens = append(r.gens, gen{pos: pos, lin: lin, synced: sync, ref: r.ref.clone(), ts: r.ts})
}

// absorbPending folds the operations of the previous call into the file model; `at` cuts an in-flight call short.
func (r *runner) absorbPending(at string) {
	ops := r.rec.take()
	n := len(ops)
	if at != "" && at != "idle" {
		n = cut(ops, at)
	}
	r.absorb(ops, n)
	if r.lastOp == "flush" && (at == "" || at == "idle") {
		// the flush returned
		g := r.lastTag
		if len(r.cl) == 0 || r.cl[len(r.cl)-1] != g {
			r.cl = append(append([]int(nil), r.cl...), g)
		}
		if r.gens[g-1].synced {
			r.acked = g
		}
	}
	r.lastOp = "other"
}

func contains(s []int, x int) bool {
	for _, y := range s {
		if y == x {
			return true
		}
	}
	return false
}

// judge compares the opened tree with the flushed generations.
func (r *runner) judge(b *behaviour, step int, predicted int, how string) bool {
	got, ts, problem := r.observe()
	replay := map[string]interface{}{"behaviour": b, "step": step, "trace": r.trace}
	loaded := -1
	if problem == "" {
		if len(got) == 0 && ts == 0 {
			loaded = 0
		}
		for g := len(r.gens); g >= 1 && loaded < 0; g-- {
			if r.gens[g-1].ts == ts && equalState(r.gens[g-1].ref, got) {
				loaded = g
			}
		}
	}
	r.res.Evaluations++
	r.res.Count("opens:"+how, 1)
	r.trace = append(r.trace, map[string]interface{}{"opened": how, "ts": ts, "loaded": loaded, "predicted": predicted, "problem": problem, "acked": r.acked})
	if loaded < 0 {
		if problem == "" {
			problem = fmt.Sprintf("content (ts=%d, %d keys) equals no flushed generation", ts, len(got))
		}
		r.res.Violate("index-recovery:"+how+":recovered-tree-is-no-flushed-state",
			fmt.Sprintf("after %s the index opens on a tree that is none of the %d flushed generations: %s (model predicted generation %d)", how, len(r.gens), problem, predicted), replay)
		return false
	}
	if r.acked != 0 && (loaded == 0 || !contains(r.gens[loaded-1].lin, r.acked)) {
		r.res.Violate("index-recovery:"+how+":older-than-last-synced-flush",
			fmt.Sprintf("after %s the index opens on generation %d which does not include the acknowledged synced flush %d", how, loaded, r.acked), replay)
		return false
	}
	if predicted >= 0 {
		if predicted == loaded {
			r.res.Count("loaded-as-predicted", 1)
		} else {
			r.res.Count("loaded-differs-from-prediction", 1)
			r.res.DriftNote(fmt.Sprintf("IndexCrash predicted generation %d, real OpenWith loaded %d (%s)", predicted, loaded, how))
		}
	}
	if loaded == 0 {
		r.cl, r.ref, r.ts = nil, refState{}, 0
	} else {
		r.cl, r.ref, r.ts = append([]int(nil), r.gens[loaded-1].lin...), r.gens[loaded-1].ref.clone(), r.gens[loaded-1].ts
	}
	return true
}

func (r *runner) run(i int, b *behaviour) {
	r.reset(i)
	vh.Must(r.open(), "open fresh tree")
	r.absorbPending("")
	how := "fresh"
	down := false
	for step, o := range b.Ops {
		switch o.Op {
		case "insert":
			r.absorbPending("")
			r.insert(o.Over)
		case "flush":
			r.flush(o.Sync)
		case "crash":
			r.absorbPending(o.At)
			r.tb.Close() // the abandoned process; what it writes from here on is not part of any image
			r.rec.take()
			dir, desc := r.materialise(o.Kind, o.Img)
			r.trace = append(r.trace, map[string]interface{}{"crash": o.Kind, "at": o.At, "img": o.Img, "files": desc})
			r.dir = dir
			how = "power-loss"
			if o.Kind == "kill" {
				how = "kill"
			}
			r.res.Count("images:"+how, 1)
			if o.At != "idle" {
				r.res.Count("images:inside-"+o.At, 1)
			}
			down = true
		case "close":
			r.absorbPending("")
			vh.Must(r.tb.Close(), "Close")
			r.absorbPending("")
			how = "clean-restart"
			down = true
		case "open":
			if !down {
				vh.Fatalf("behaviour %d: open while running", i)
			}
			r.lastOp = "open"
			if err := r.open(); err != nil {
				r.res.Violate("index-recovery:"+how+":open-fails", fmt.Sprintf("after %s the index does not open: %v", how, err),
					map[string]interface{}{"behaviour": b, "step": step, "trace": r.trace})
				return
			}
			down = false
			if !r.judge(b, step, o.Loaded, how) {
				if r.hung {
					return
				}
				r.tb.Close()
				r.rec.take()
				return
			}
		}
	}
	// epilogue: one more batch, a clean close (flushes and syncs), a clean re-opening
	if down {
		return
	}
	r.absorbPending("")
	r.insert(r.rng.Intn(2) == 0)
	g := len(r.gens) + 1
	r.lastTag, r.lastPos, r.lastOp = g, len(r.cl)+1, "flush"
	ref := r.ref.clone()
	vh.Must(r.tb.Close(), "Close")
	r.gens = append(r.gens, gen{pos: len(r.cl) + 1, lin: append(append([]int(nil), r.cl...), g), synced: true, ref: ref, ts: r.ts})
	r.absorbPending("")
	r.lastOp = "open"
	if err := r.open(); err != nil {
		r.res.Violate("index-recovery:clean-restart:open-fails", fmt.Sprintf("after a clean close the index does not open: %v", err), map[string]interface{}{"behaviour": b, "trace": r.trace})
		return
	}
	r.judge(b, len(b.Ops), -1, "clean-restart")
	if r.hung {
		return
	}
	r.tb.Close()
	r.rec.take()
	r.res.Traces++
}

func main() {
	bf := flag.String("behaviours", "", "JSON file with behaviours of IndexCrash.tla")
	dir := flag.String("dir", "", "scratch directory")
	seed := flag.Int64("seed", 1, "seed")
	flag.Parse()
	var in struct {
		Behaviours []behaviour `json:"behaviours"`
	}
	vh.ReadJSON(*bf, &in)
	res := vh.NewResult()
	rec := &recorder{}
	verifhook.SetSink(rec.sink)
	r := &runner{res: res, rec: rec, rng: rand.New(rand.NewSource(*seed)), base: *dir}
	for i := range in.Behaviours {
		small := i%3 == 2
		r.opts = func() *tbtree.Options {
			o := tbtree.DefaultOptions().WithSyncThld(1 << 30).WithFlushThld(1 << 30)
			if small {
				o = o.WithMaxNodeSize(512).WithMaxKeySize(16).WithMaxValueSize(128) // deeper trees: several nodes per chunk
			}
			return o
		}
		r.run(i, &in.Behaviours[i])
		if r.hung {
			res.Count("stopped-after-hang-at-behaviour", i)
			break
		}
		if i%20 == 19 {
			os.RemoveAll(*dir)
			os.MkdirAll(*dir, 0755)
		}
	}
	res.Distinct = res.Counters["images:kill"] + res.Counters["images:power-loss"]
	b, _ := json.Marshal(map[string]int{"behaviours": len(in.Behaviours)})
	res.Extra["index-crash"] = json.RawMessage(b)
	res.Emit()
}
