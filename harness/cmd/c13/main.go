// Command c13 replays the behaviours TLC printed from spec/SQLTx.tla through the PostgreSQL wire front-end
// (pkg/pgsql/server) of an in-process immudb server: one TCP connection per model session, simple-query
// protocol spoken with the standard library only.  Compared with the design after every step: statement
// outcome (ok / error / read conflict), every SELECT result inside and outside transactions, and a full scan
// of the table through a separate connection after every step that ends outside a transaction.
// (Affected-row counts and generated keys are not carried by this front-end's CommandComplete tags; they are
// compared by harness/cmd/c12 on the engine API.)
package main

import (
	"encoding/binary"
	"flag"
	"fmt"
	"io"
	"net"
	"os"
	"sort"
	"strings"
	"time"

	"context"

	"github.com/codenotary/immudb/embedded/logger"
	"github.com/codenotary/immudb/pkg/client"
	"github.com/codenotary/immudb/pkg/server"

	"verifharness/vh"
)

type step struct {
	S    int             `json:"s"`
	K    string          `json:"k"`
	Id   int             `json:"id"`
	U    string          `json:"u"`
	V    string          `json:"v"`
	Out  string          `json:"out"`
	Res  [][]interface{} `json:"res"`
	Cnt  int             `json:"cnt"`
	Pk   int             `json:"pk"`
	Tbl  [][]interface{} `json:"tbl"`
	St   string          `json:"st"`
	Must bool            `json:"must"`
	May  bool            `json:"may"`
}
type behaviour struct {
	Origin string `json:"origin"`
	Steps  []step `json:"steps"`
}
type behaviourFile struct {
	UIdx       bool        `json:"uidx"`
	Behaviours []behaviour `json:"behaviours"`
}
type observed struct {
	S   int        `json:"s"`
	K   string     `json:"k"`
	Id  int        `json:"id"`
	U   string     `json:"u"`
	V   string     `json:"v"`
	Out string     `json:"out"`
	Err string     `json:"err,omitempty"`
	Res [][]string `json:"res"`
	Cnt int        `json:"cnt"`
	Pk  int        `json:"pk"`
	Tbl [][]string `json:"tbl"`
	St  string     `json:"st"`
}
type deviation struct {
	B        int        `json:"b"`
	Origin   string     `json:"origin"`
	Step     int        `json:"step"`
	Field    string     `json:"field"`
	Class    string     `json:"class"`
	Kind     string     `json:"kind"`
	Text     string     `json:"text"`
	Expected step       `json:"expected"`
	Observed []observed `json:"observed"`
	SQL      []string   `json:"sql"`
	Wire     bool       `json:"wire"`
}

// ---------------------------------------------------------------- minimal PostgreSQL client (protocol 3.0, simple query)
type pgConn struct {
	c net.Conn
}

func (p *pgConn) send(typ byte, payload []byte) error {
	var buf []byte
	if typ != 0 {
		buf = append(buf, typ)
	}
	l := make([]byte, 4)
	binary.BigEndian.PutUint32(l, uint32(len(payload)+4))
	buf = append(buf, l...)
	buf = append(buf, payload...)
	_, err := p.c.Write(buf)
	return err
}

func (p *pgConn) recv() (byte, []byte, error) {
	p.c.SetReadDeadline(time.Now().Add(30 * time.Second))
	hdr := make([]byte, 5)
	if _, err := io.ReadFull(p.c, hdr); err != nil {
		return 0, nil, err
	}
	n := int(binary.BigEndian.Uint32(hdr[1:])) - 4
	if n < 0 || n > 1<<24 {
		return 0, nil, fmt.Errorf("bad message length %d", n)
	}
	body := make([]byte, n)
	if _, err := io.ReadFull(p.c, body); err != nil {
		return 0, nil, err
	}
	return hdr[0], body, nil
}

func pgError(body []byte) string {
	msg := ""
	for len(body) > 0 && body[0] != 0 {
		f := body[0]
		i := 1
		for i < len(body) && body[i] != 0 {
			i++
		}
		if f == 'M' {
			msg = string(body[1:i])
		}
		if i+1 > len(body) {
			break
		}
		body = body[i+1:]
	}
	return msg
}

func dial(port int) (*pgConn, error) {
	c, err := net.DialTimeout("tcp", fmt.Sprintf("127.0.0.1:%d", port), 10*time.Second)
	if err != nil {
		return nil, err
	}
	p := &pgConn{c: c}
	startup := []byte{0, 3, 0, 0}
	for _, kv := range []string{"user", "immudb", "database", "defaultdb"} {
		startup = append(startup, []byte(kv)...)
		startup = append(startup, 0)
	}
	startup = append(startup, 0)
	if err := p.send(0, startup); err != nil {
		return nil, err
	}
	for {
		t, body, err := p.recv()
		if err != nil {
			return nil, fmt.Errorf("startup: %w", err)
		}
		switch t {
		case 'R':
			code := binary.BigEndian.Uint32(body)
			if code == 3 { // cleartext password
				if err := p.send('p', append([]byte("immudb"), 0)); err != nil {
					return nil, err
				}
			} else if code != 0 {
				return nil, fmt.Errorf("unsupported authentication request %d", code)
			}
		case 'E':
			return nil, fmt.Errorf("startup refused: %s", pgError(body))
		case 'Z':
			return p, nil
		}
	}
}

// query runs one simple query; returns data rows (text), the error message of an ErrorResponse ("" = none).
func (p *pgConn) query(text string) (rows [][]string, errMsg string, err error) {
	if err = p.send('Q', append([]byte(text), 0)); err != nil {
		return
	}
	for {
		t, body, e := p.recv()
		if e != nil {
			return nil, "", e
		}
		switch t {
		case 'D':
			n := int(binary.BigEndian.Uint16(body))
			off := 2
			row := make([]string, n)
			for i := 0; i < n; i++ {
				l := int32(binary.BigEndian.Uint32(body[off:]))
				off += 4
				if l < 0 {
					row[i] = "NULL"
					continue
				}
				row[i] = string(body[off : off+int(l)])
				off += int(l)
			}
			rows = append(rows, row)
		case 'E':
			errMsg = pgError(body)
			if errMsg == "" {
				errMsg = "error"
			}
		case 'Z':
			return
		}
	}
}

// ---------------------------------------------------------------- concretisation (same statements as harness/cmd/c12)
func lit(x string) string {
	if x == "NULL" {
		return "NULL"
	}
	return "'" + x + "'"
}

func sqlOf(st step, t string) (string, bool) {
	switch st.K {
	case "begin":
		return "BEGIN TRANSACTION", false
	case "commit":
		return "COMMIT", false
	case "rollback":
		return "ROLLBACK", false
	case "sp":
		return "SAVEPOINT " + st.U, false
	case "rbto":
		return "ROLLBACK TO SAVEPOINT " + st.U, false
	case "rel":
		return "RELEASE SAVEPOINT " + st.U, false
	case "insA":
		return fmt.Sprintf("INSERT INTO %s(u,v) VALUES (%s,%s)", t, lit(st.U), lit(st.V)), false
	case "insE":
		return fmt.Sprintf("INSERT INTO %s(id,u,v) VALUES (%d,%s,%s)", t, st.Id, lit(st.U), lit(st.V)), false
	case "insN":
		return fmt.Sprintf("INSERT INTO %s(id,u,v) VALUES (%d,%s,%s) ON CONFLICT DO NOTHING", t, st.Id, lit(st.U), lit(st.V)), false
	case "ups":
		return fmt.Sprintf("UPSERT INTO %s(id,u,v) VALUES (%d,%s,%s)", t, st.Id, lit(st.U), lit(st.V)), false
	case "updU":
		return fmt.Sprintf("UPDATE %s SET u=%s WHERE id=%d", t, lit(st.U), st.Id), false
	case "updV":
		return fmt.Sprintf("UPDATE %s SET v=%s WHERE id=%d", t, lit(st.V), st.Id), false
	case "updAllV":
		return fmt.Sprintf("UPDATE %s SET v=%s", t, lit(st.V)), false
	case "del":
		return fmt.Sprintf("DELETE FROM %s WHERE id=%d", t, st.Id), false
	case "delAll":
		return "DELETE FROM " + t, false
	case "selAll":
		return "SELECT id,u,v FROM " + t, true
	case "selPk":
		return fmt.Sprintf("SELECT id,u,v FROM %s WHERE id=%d", t, st.Id), true
	case "selU":
		return fmt.Sprintf("SELECT id FROM %s WHERE u=%s", t, lit(st.U)), true
	}
	vh.Fatalf("unknown statement kind %q", st.K)
	return "", false
}

func norm(rows [][]interface{}) [][]string {
	out := make([][]string, len(rows))
	for i, r := range rows {
		out[i] = make([]string, len(r))
		for j, c := range r {
			switch x := c.(type) {
			case nil:
				out[i][j] = "NULL"
			case float64:
				out[i][j] = fmt.Sprintf("%d", int64(x))
			default:
				out[i][j] = fmt.Sprint(x)
			}
		}
	}
	return out
}

func eqRows(a, b [][]string) bool {
	if len(a) != len(b) {
		return false
	}
	for i := range a {
		if strings.Join(a[i], "\x00") != strings.Join(b[i], "\x00") {
			return false
		}
	}
	return true
}

func sorted(rows [][]string) [][]string {
	out := append([][]string{}, rows...)
	sort.SliceStable(out, func(i, j int) bool {
		if len(out[i][0]) != len(out[j][0]) {
			return len(out[i][0]) < len(out[j][0])
		}
		return out[i][0] < out[j][0]
	})
	return out
}

func main() {
	replay := flag.String("replay", "", "behaviours printed by TLC (JSON)")
	dir := flag.String("dir", "", "scratch directory")
	limit := flag.Int("limit", 40, "replay at most this many behaviours")
	flag.Parse()
	if *replay == "" || *dir == "" {
		vh.Fatalf("-replay and -dir required")
	}
	var bf behaviourFile
	vh.ReadJSON(*replay, &bf)
	res := vh.NewResult()

	vh.Must(os.MkdirAll(*dir, 0o755), "mkdir")
	cwd, _ := os.Getwd()
	vh.Must(os.Chdir(*dir), "chdir") // the server writes its client state file into the working directory
	defer os.Chdir(cwd)
	stdout := os.Stdout // the server prints a banner on stdout; the result document must be the only thing there
	if null, err := os.OpenFile(os.DevNull, os.O_WRONLY, 0); err == nil {
		os.Stdout = null
	}
	opts := server.DefaultOptions().WithDir(*dir + "/data").WithPort(0).WithPgsqlServer(true).WithPgsqlServerPort(0).
		WithMetricsServer(false).WithWebServer(false).WithAddress("127.0.0.1").WithSynced(false)
	srv := server.DefaultServer().WithOptions(opts).WithLogger(logger.NewSimpleLoggerWithLevel("c13", io.Discard, logger.LogError)).(*server.ImmuServer)
	vh.Must(srv.Initialize(), "server.Initialize")
	go srv.Start()
	defer srv.Stop()
	port := srv.PgsqlSrv.GetPort()

	// DDL goes through the gRPC API: the PostgreSQL front-end strips CHECK constraints from statements (compat rewrite)
	cli := client.NewClient().WithOptions(client.DefaultOptions().WithAddress("127.0.0.1").WithPort(srv.Listener.Addr().(*net.TCPAddr).Port).WithDir(*dir))
	vh.Must(cli.OpenSession(context.Background(), []byte("immudb"), []byte("immudb"), "defaultdb"), "grpc session")
	defer cli.CloseSession(context.Background())
	ddl := func(text string) {
		_, err := cli.SQLExec(context.Background(), text, nil)
		vh.Must(err, text)
	}

	var ctl *pgConn
	var err error
	for i := 0; i < 300; i++ { // the server may need a while to come up on a busy machine
		if ctl, err = dial(port); err == nil {
			break
		}
		time.Sleep(100 * time.Millisecond)
	}
	vh.Must(err, "connect to the PostgreSQL front-end")

	conns := map[int]*pgConn{}
	conn := func(s int) *pgConn {
		if c := conns[s]; c != nil {
			return c
		}
		c, err := dial(port)
		vh.Must(err, "session connection")
		conns[s] = c
		return c
	}
	scan := func(t string) [][]string {
		rows, em, err := ctl.query("SELECT id,u,v FROM " + t)
		vh.Must(err, "scan")
		if em != "" {
			vh.Fatalf("scan: %s", em)
		}
		return sorted(rows)
	}

	var devs []deviation
	n := 0
	for bi, b := range bf.Behaviours {
		if n >= *limit {
			break
		}
		n++
		t := fmt.Sprintf("t%d", bi)
		ddl(fmt.Sprintf("CREATE TABLE %s (id INTEGER AUTO_INCREMENT, u VARCHAR[4] NOT NULL, v VARCHAR[2] NOT NULL, CHECK (v <> 'x'), PRIMARY KEY id)", t))
		if bf.UIdx {
			ddl(fmt.Sprintf("CREATE UNIQUE INDEX ON %s(u)", t))
		}
		res.Traces++
		var obs []observed
		var sqls []string
		intx := map[int]bool{}
		for si, st := range b.Steps {
			o := observed{S: st.S, K: st.K, Id: st.Id, U: st.U, V: st.V, Res: [][]string{}, Cnt: st.Cnt, Pk: st.Pk, St: st.St}
			text := "-- close connection"
			if st.K == "close" {
				if c := conns[st.S]; c != nil {
					c.send('X', nil)
					c.c.Close()
					delete(conns, st.S)
				}
				o.Out = "ok"
				time.Sleep(20 * time.Millisecond) // the server cancels the session's transaction when it sees the connection drop
			} else {
				var isQuery bool
				text, isQuery = sqlOf(st, t)
				rows, em, err := conn(st.S).query(text)
				vh.Must(err, "wire")
				switch {
				case em == "":
					o.Out = "ok"
				case strings.Contains(em, "read conflict"):
					o.Out, o.Err = "conflict", em
				default:
					o.Out, o.Err = "err", em
				}
				if isQuery && o.Out == "ok" {
					o.Res = rows
					if o.Res == nil {
						o.Res = [][]string{}
					}
					if st.K == "selU" {
						o.Res = sorted(o.Res)
					}
				}
			}
			sqls = append(sqls, fmt.Sprintf("s%d: %s", st.S, text))
			res.Evaluations++
			res.Count("wire:"+st.K+":"+o.Out, 1)
			// is the session inside a transaction now?  (not visible on the wire: follow the engine's rule)
			switch {
			case st.K == "begin" && o.Out == "ok":
				intx[st.S] = true
			case st.K == "commit" || st.K == "rollback" || st.K == "close" || o.Out != "ok":
				intx[st.S] = false
			}
			if !intx[st.S] || si == len(b.Steps)-1 {
				o.Tbl = scan(t)
			}
			obs = append(obs, o)

			field := ""
			switch {
			case st.Out != o.Out:
				field = "out"
			case o.Out == "ok" && (st.K == "selAll" || st.K == "selPk" || st.K == "selU") && !eqRows(norm(st.Res), o.Res):
				field = "res"
			case o.Tbl != nil && !eqRows(norm(st.Tbl), o.Tbl):
				field = "tbl"
			}
			if field == "" {
				continue
			}
			if st.K == "commit" && field == "out" && (st.Out == "conflict" || o.Out == "conflict") && !(o.Out == "ok" && st.Must) {
				res.Count("drift:commit-outcome", 1)
				break
			}
			d := deviation{B: bi, Origin: b.Origin, Step: si, Field: field, Kind: st.K, Expected: st, Observed: obs, SQL: sqls, Wire: true}
			switch {
			case field == "out" && st.Out == "ok":
				d.Class = "spurious-failure"
				d.Text = fmt.Sprintf("pgwire: %q fails with %q; the design executes it", text, o.Err)
			case field == "out" && o.Out == "ok":
				d.Class = "violating-statement-accepted"
				d.Text = fmt.Sprintf("pgwire: %q succeeds; the design refuses it (%s)", text, st.Out)
			case field == "out":
				d.Class = "outcome"
				d.Text = fmt.Sprintf("pgwire: %q: front-end %s (%s), design %s", text, o.Out, o.Err, st.Out)
			case field == "res":
				d.Class = "query-result"
				d.Text = fmt.Sprintf("pgwire: %q returns %v, design %v", text, o.Res, norm(st.Res))
			case st.Out != "ok":
				d.Class = "failed-statement-effect"
				d.Text = fmt.Sprintf("pgwire: after the failed %q the committed table is %v, design %v", text, o.Tbl, norm(st.Tbl))
			default:
				d.Class = "table"
				d.Text = fmt.Sprintf("pgwire: after %q the committed table is %v, design %v", text, o.Tbl, norm(st.Tbl))
			}
			d.Text = fmt.Sprintf("%s  [history: %s]", d.Text, strings.Join(sqls, "; "))
			devs = append(devs, d)
			break
		}
		// leave no transaction open for the next behaviour
		for s, c := range conns {
			if intx[s] {
				c.query("ROLLBACK")
			}
		}
		if bi < 1 {
			res.Sample(map[string]interface{}{"origin": b.Origin, "pgwire": sqls}, 6)
		}
	}
	res.Distinct += n
	res.Extra["deviations"] = devs
	res.Count("deviations", len(devs))
	os.Stdout = stdout
	res.Emit()
}
