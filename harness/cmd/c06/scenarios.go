// Targeted workloads, judged by TLC exactly like the random windows (same trace format, same specification):
//
//   - race:  a synced store with a long sync period (20-100 ms), so that a writer stays pre-committed (not yet committed, not
//     yet indexed) for a long time.  In every round several clients are started together with CONFLICTING conditional writes
//     on the same key (Delete/Delete, create-if-absent/create-if-absent, compare-and-set/compare-and-set, Delete/create, ...).
//     In every second round the schedule is forced with the `verif` hook: the other writers are held at the store's
//     "ValuesAppended" event (before the commit lock) until the first writer is pre-committed, so that they are validated
//     inside its sync window.  At most one of them may win; the linearizability oracle forbids anything else.
//   - snap:  tight-loop writers rewrite the same 4-6 keys in ONE transaction each time while readers call GetAll over those
//     keys (and Scan): a result must be the state of a single instant, i.e. all entries of one writer transaction.
//
// The driver only counts (vacuity guards); it decides nothing.
package main

import (
	"context"
	"fmt"
	"math/rand"
	"sort"
	"sync"
	"sync/atomic"
	"time"

	"github.com/codenotary/immudb/embedded/verifhook"
	"github.com/codenotary/immudb/pkg/api/schema"
	"github.com/codenotary/immudb/pkg/database"

	"verifharness/vh"
)

type gate struct {
	release chan struct{}
	once    sync.Once
}

func (g *gate) open() { g.once.Do(func() { close(g.release) }) }

type racerKey struct{}

// racer is attached to the context of a racing write; the store hands the context back in its ValuesAppended event.
type racer struct {
	g        *gate // nil: not held
	inWindow bool  // some transaction was pre-committed but not yet committed when this writer went for the commit lock
	seen     bool
}

// raceCtl is the verifhook sink of a race instance.
type raceCtl struct {
	mu       sync.Mutex
	pre, com uint64
	armed    *gate
}

func (rc *raceCtl) arm(g *gate) {
	rc.mu.Lock()
	rc.armed = g
	rc.mu.Unlock()
}

func (rc *raceCtl) sink(ev string, kv ...interface{}) {
	switch ev {
	case "Precommit": // emitted under the commit lock: never block here
		if len(kv) > 1 {
			if id, ok := kv[1].(uint64); ok {
				rc.mu.Lock()
				rc.pre = id
				g := rc.armed
				rc.mu.Unlock()
				if g != nil {
					g.open()
				}
			}
		}
	case "Committed":
		if len(kv) > 1 {
			if id, ok := kv[1].(uint64); ok {
				rc.mu.Lock()
				if id > rc.com {
					rc.com = id
				}
				rc.mu.Unlock()
			}
		}
	case "ValuesAppended": // before the commit lock is taken: the only place where a writer is held
		if len(kv) > 1 {
			if ctx, ok := kv[1].(context.Context); ok && ctx != nil {
				if r, ok := ctx.Value(racerKey{}).(*racer); ok {
					if r.g != nil {
						select {
						case <-r.g.release:
						case <-time.After(20 * time.Second): // never hang the database on a driver mistake
						}
					}
					rc.mu.Lock()
					r.inWindow = rc.pre > rc.com
					r.seen = true
					rc.mu.Unlock()
				}
			}
		}
	}
}

func blankOp() *Op { return &Op{KVs: []KV{}, Keys: []string{}, Pre: []Pre{}, Ops: []XOp{}} }

func setOp(k, v string, pre ...Pre) *Op {
	o := blankOp()
	o.T = "Set"
	o.KVs = []KV{{k, v}}
	o.Pre = append(o.Pre, pre...)
	return o
}

func delOp(k string) *Op {
	o := blankOp()
	o.T = "Del"
	o.Keys = []string{k}
	return o
}

func runRaceEpoch(res *vh.Result, emit func(Event), seed int64, epoch, win0, rounds int, dir string) int {
	rng := rand.New(rand.NewSource(seed*104729 + 7))
	cfg := epochCfg{Kind: "race", Synced: true, SyncMs: []int{20, 50, 100}[rng.Intn(3)], NodeSize: 4096, FlushThld: 100000, RenewMs: 1, BulkSize: 1}
	db := openDB(cfg, dir, epoch)
	rc := &raceCtl{}
	verifhook.SetSink(rc.sink)
	defer verifhook.SetSink(nil)
	emit(Event{Ev: "Reset", Epoch: epoch, W: win0, Clients: 4, Cfg: cfg.String()})

	var seq int64
	var mu sync.Mutex
	var evs []Event
	nval := 0
	val := func(c int) string { nval++; return fmt.Sprintf("c%d-%d", c, nval) }
	call := func(ctx context.Context, c int, op *Op) Res {
		s0 := atomic.AddInt64(&seq, 1)
		r, msg := exec(ctx, db, op)
		s1 := atomic.AddInt64(&seq, 1)
		rr := r
		mu.Lock()
		evs = append(evs, Event{Ev: "Call", C: c, Seq: s0, Op: op, Res: &rr}, Event{Ev: "Ret", C: c, Seq: s1, Res: &rr, Msg: msg})
		mu.Unlock()
		res.Count("op:"+op.T+opMode(op), 1)
		res.Count("res:"+op.T+":"+r.E, 1)
		if msg != "" {
			res.Count("other:"+op.T+":"+trunc(msg), 1)
		}
		return r
	}
	nw := 0
	flush := func() {
		sort.Slice(evs, func(i, j int) bool { return evs[i].Seq < evs[j].Seq })
		for _, e := range evs {
			e.W, e.Epoch = win0+nw, epoch
			emit(e)
		}
		emit(Event{Ev: "Cut", W: win0 + nw, Epoch: epoch})
		res.Evaluations += len(evs) / 2
		evs = evs[:0]
		nw++
	}
	bg := context.Background()
	for round := 0; round < rounds; round++ {
		k := keys[rng.Intn(6)]
		typ := round % 6
		nr := 2 + rng.Intn(2) // racers
		var ops []*Op
		gated := false
		switch typ {
		case 0: // Delete / Delete of an existing key
			call(bg, 1, setOp(k, val(1)))
			for i := 0; i < nr; i++ {
				ops = append(ops, delOp(k))
			}
			gated = round%12 < 6
		case 1: // create-if-absent / create-if-absent
			call(bg, 1, setOp(k, val(1)))
			call(bg, 1, delOp(k))
			for i := 0; i < nr; i++ {
				ops = append(ops, setOp(k, val(2+i), Pre{T: "N", K: k}))
			}
			gated = round%12 < 6
		case 2: // compare-and-set / compare-and-set
			r := call(bg, 1, setOp(k, val(1)))
			for i := 0; i < nr; i++ {
				ops = append(ops, setOp(k, val(2+i), Pre{T: "M", K: k, Tx: r.Tx}))
			}
			gated = round%12 < 6
		case 3: // Delete / create-if-absent / write-if-exists
			call(bg, 1, setOp(k, val(1)))
			k2 := keys[(rng.Intn(5)+1+indexOf(k))%6]
			ops = append(ops, delOp(k), setOp(k, val(2), Pre{T: "N", K: k}), setOp(k2, val(3), Pre{T: "E", K: k}))
			gated = round%12 >= 6
		case 4: // Delete / compare-and-set, Delete again
			r := call(bg, 1, setOp(k, val(1)))
			ops = append(ops, delOp(k), setOp(k, val(2), Pre{T: "M", K: k, Tx: r.Tx}), delOp(k))
			gated = round%12 >= 6
		default: // ExecAll create-if-absent / ExecAll create-if-absent (serialised by the database's own lock) / Set create-if-absent
			call(bg, 1, setOp(k, val(1)))
			call(bg, 1, delOp(k))
			for i := 0; i < 2; i++ {
				o := blankOp()
				o.T = "Exec"
				o.Ops = []XOp{{T: "Kv", K: k, V: val(2 + i)}}
				o.Pre = []Pre{{T: "N", K: k}}
				ops = append(ops, o)
			}
			ops = append(ops, setOp(k, val(4), Pre{T: "N", K: k}))
		}
		var g *gate
		if gated {
			g = &gate{release: make(chan struct{})}
			rc.arm(g)
			res.Count("race:gated-rounds", 1)
		}
		res.Count("race:rounds", 1)
		start := make(chan struct{})
		var wg sync.WaitGroup
		tags := make([]*racer, len(ops))
		results := make([]Res, len(ops))
		for i, op := range ops {
			tags[i] = &racer{}
			if g != nil && i > 0 {
				tags[i].g = g
			}
			wg.Add(1)
			go func(i int, op *Op) {
				defer wg.Done()
				<-start
				results[i] = call(context.WithValue(bg, racerKey{}, tags[i]), 2+i, op)
				if g != nil && i == 0 {
					g.open() // the first writer did not pre-commit (refused): nobody waits for it
				}
			}(i, op)
		}
		close(start)
		done := make(chan struct{})
		go func() { wg.Wait(); close(done) }()
		select {
		case <-done:
		case <-time.After(120 * time.Second):
			vh.Fatalf("race round %d did not finish within 120s", round)
		}
		rc.arm(nil)
		applied, refused := 0, 0
		for i, r := range results {
			switch r.E {
			case "ok":
				applied++
			case "PreconditionFailed", "KeyNotFound", "ReadConflict":
				refused++
			}
			if tags[i].seen && tags[i].inWindow {
				res.Count("race:writers-validated-inside-a-sync-window", 1)
			}
		}
		res.Count("race:applied", applied)
		res.Count("race:refused", refused)
		if typ <= 2 && applied > 1 {
			res.Count("race:diag-rounds-with-more-than-one-winner", 1) // diagnostic only: TLC decides
		}
		// read back: the complete history of the key shows every version that was written
		h := blankOp()
		h.T, h.K = "Hist", k
		call(bg, 1, h)
		gk := blankOp()
		gk.T, gk.K, gk.Mode = "Get", k, "def"
		call(bg, 1, gk)
		if (round+1)%7 == 0 {
			flush()
		}
	}
	if len(evs) > 0 {
		flush()
	}
	audit(res, emit, db, 1, epoch, &seq, nil)
	verifhook.SetSink(nil)
	vh.Must(db.Close(), "close db")
	res.Distinct += nw
	return nw
}

func indexOf(k string) int {
	for i, x := range keys {
		if x == k {
			return i
		}
	}
	return 0
}

func runSnapEpoch(res *vh.Result, emit func(Event), seed int64, epoch, win0, windows int, dir string) int {
	rng := rand.New(rand.NewSource(seed*15485863 + 11))
	cfg := epochCfg{Kind: "snap", Synced: false, SyncMs: 1, NodeSize: []int{1024, 4096}[rng.Intn(2)], FlushThld: []int{10, 100000}[rng.Intn(2)],
		RenewMs: []int{0, 1, 1000}[rng.Intn(3)], Maint: true, BulkSize: 1}
	db := openDB(cfg, dir, epoch)
	emit(Event{Ev: "Reset", Epoch: epoch, W: win0, Clients: 5, Cfg: cfg.String()})
	K := keys[:4+rng.Intn(3)] // the keys every writer transaction rewrites
	var seq, commits int64

	// index flushes keep going (no compaction: this instance must be fully linearizable)
	stop := make(chan struct{})
	var mwg sync.WaitGroup
	var mmu sync.Mutex
	var mevs []Event
	mwg.Add(1)
	go func() {
		defer mwg.Done()
		mr := rand.New(rand.NewSource(seed*31 + 5))
		for {
			select {
			case <-stop:
				return
			default:
			}
			s0 := atomic.AddInt64(&seq, 1)
			err := db.FlushIndex(&schema.FlushIndexRequest{CleanupPercentage: []float32{0, 10}[mr.Intn(2)], Synced: false})
			e := Event{Ev: "Maint", What: "flush", Seq0: s0, Seq: atomic.AddInt64(&seq, 1)}
			if err != nil {
				e.Msg = err.Error()
			}
			mmu.Lock()
			mevs = append(mevs, e)
			mmu.Unlock()
			res.Count("maint:flush", 1)
			time.Sleep(time.Duration(500+mr.Intn(2000)) * time.Microsecond)
		}
	}()

	type cl struct {
		id   int
		rng  *rand.Rand
		nval int
		evs  []Event
	}
	cls := make([]*cl, 5)
	for i := range cls {
		cls[i] = &cl{id: i + 1, rng: rand.New(rand.NewSource(seed*7 + int64(i)*131))}
	}
	for wi := 0; wi < windows; wi++ {
		var wg sync.WaitGroup
		for _, c := range cls {
			c.evs = c.evs[:0]
			wg.Add(1)
			go func(c *cl) {
				defer wg.Done()
				for i := 0; i < 10; i++ {
					op := blankOp()
					writer := c.id <= 2
					switch {
					case writer: // one transaction rewrites all of K; the values carry the writer and its round
						op.T = "Set"
						c.nval++
						for _, k := range K {
							op.KVs = append(op.KVs, KV{k, fmt.Sprintf("c%d-%d", c.id, c.nval)})
						}
					default:
						switch r := c.rng.Intn(20); {
						case r < 13:
							op.T = "GetAll"
							n := 3 + c.rng.Intn(len(K)-2)
							for _, j := range c.rng.Perm(len(K))[:n] {
								op.Keys = append(op.Keys, K[j])
							}
						case r < 18:
							op.T = "Scan"
							op.Prefix = []string{"", "a"}[c.rng.Intn(2)]
							op.Desc = c.rng.Intn(2) == 0
						default:
							op.T, op.K, op.Mode = "Get", K[c.rng.Intn(len(K))], "def"
						}
					}
					c0 := atomic.LoadInt64(&commits)
					s0 := atomic.AddInt64(&seq, 1)
					r, msg := exec(context.Background(), db, op)
					s1 := atomic.AddInt64(&seq, 1)
					if writer && r.E == "ok" {
						atomic.AddInt64(&commits, 1)
					}
					rr := r
					c.evs = append(c.evs, Event{Ev: "Call", C: c.id, Seq: s0, Op: op, Res: &rr}, Event{Ev: "Ret", C: c.id, Seq: s1, Res: &rr, Msg: msg})
					res.Count("op:"+op.T+opMode(op), 1)
					res.Count("res:"+op.T+":"+r.E, 1)
					if msg != "" {
						res.Count("other:"+op.T+":"+trunc(msg), 1)
					}
					if op.T == "GetAll" || op.T == "Scan" {
						res.Count("snap:multi-key-reads", 1)
						if atomic.LoadInt64(&commits) > c0 {
							res.Count("snap:multi-key-reads-overlapping-a-multi-key-commit", 1)
						}
					}
				}
			}(c)
		}
		done := make(chan struct{})
		go func() { wg.Wait(); close(done) }()
		select {
		case <-done:
		case <-time.After(180 * time.Second):
			vh.Fatalf("snap window %d did not finish within 180s", wi)
		}
		var all []Event
		for _, c := range cls {
			all = append(all, c.evs...)
		}
		nops := len(all) / 2
		mmu.Lock()
		all = append(all, mevs...)
		mevs = mevs[:0]
		mmu.Unlock()
		sort.Slice(all, func(i, j int) bool { return all[i].Seq < all[j].Seq })
		for _, e := range all {
			e.W, e.Epoch = win0+wi, epoch
			emit(e)
		}
		emit(Event{Ev: "Cut", W: win0 + wi, Epoch: epoch})
		res.Evaluations += nops
	}
	close(stop)
	mwg.Wait()
	audit(res, emit, db, 1, epoch, &seq, mevs)
	vh.Must(db.Close(), "close db")
	res.Distinct += windows
	return windows
}

var _ database.DB
