// c06: concurrent clients call the real pkg/database.DB (in-process, no server) over a shared set of 8 keys
// and 2 sorted sets while the indexer runs freely and a maintenance goroutine calls FlushIndex / CompactIndex.
// Every call is logged as Call / Ret with a global atomic sequence number taken immediately before the call and
// immediately after the return; arguments and full (projected) results are logged. Histories are cut into
// windows of 40-60 operations with a quiescent point between windows (all clients idle). The ndjson history is
// judged by TLC (spec/TraceKVLin.tla over spec/KVLin.tla): this driver computes no expected value.
//
// The driver is a thin projection: schema.* results -> abstract records (key, value, tx, revision, reference
// fields, error class).  It never reads the database to synchronise the oracle's state.
package main

import (
	"bufio"
	"context"
	"encoding/binary"
	"encoding/json"
	"errors"
	"flag"
	"fmt"
	"math/rand"
	"os"
	"path/filepath"
	"runtime"
	"sort"
	"strings"
	"sync"
	"sync/atomic"
	"time"

	"github.com/codenotary/immudb/embedded/logger"
	"github.com/codenotary/immudb/embedded/store"
	"github.com/codenotary/immudb/embedded/tbtree"
	"github.com/codenotary/immudb/pkg/api/schema"
	"github.com/codenotary/immudb/pkg/database"

	"verifharness/vh"
)

// ---------------------------------------------------------------- abstract records (shared with the spec)

type Pre struct {
	T  string `json:"t"` // E (KeyMustExist) | N (KeyMustNotExist) | M (KeyNotModifiedAfterTx)
	K  string `json:"k"`
	Tx uint64 `json:"tx"`
}

type KV struct {
	K string `json:"k"`
	V string `json:"v"`
}

// XOp is one operation of an ExecAll.
type XOp struct {
	T   string `json:"t"` // Kv | Ref | ZAdd
	K   string `json:"k"`
	V   string `json:"v"`
	Rk  string `json:"rk"`
	Set string `json:"set"`
	Sc  int    `json:"sc"`
	At  uint64 `json:"at"`
	B   bool   `json:"b"`
}

type Op struct {
	T      string   `json:"t"` // Set Del Ref ZAdd Exec Get GetAll Scan ZScan Hist Count
	K      string   `json:"k"`
	Rk     string   `json:"rk"`
	Set    string   `json:"set"`
	Sc     int      `json:"sc"`
	At     uint64   `json:"at"`
	KVs    []KV     `json:"kvs"`
	Keys   []string `json:"keys"`
	Pre    []Pre    `json:"pre"`
	Ops    []XOp    `json:"ops"`
	Mode   string   `json:"mode"` // Get: def attx atrev since nowait
	N      int64    `json:"n"`    // Get: tx / revision / sinceTx
	Prefix string   `json:"prefix"`
	Desc   bool     `json:"desc"`
	Limit  int      `json:"limit"`
	Offset int      `json:"offset"`
}

type Ent struct {
	K    string `json:"k"`
	V    string `json:"v"`
	Tx   uint64 `json:"tx"`
	Rev  uint64 `json:"rev"`
	Rk   string `json:"rk"`   // key of the reference this entry was reached through ("" if none)
	Rtx  uint64 `json:"rtx"`  // tx of the reference entry
	Rrev uint64 `json:"rrev"` // revision of the reference entry
	Rat  uint64 `json:"rat"`  // tx the reference is bound to (0 = unbound)
	Sc   int    `json:"sc"`   // sorted-set score (ZScan)
	Zat  uint64 `json:"zat"`  // sorted-set binding (ZScan)
	D    bool   `json:"d"`    // deleted marker (History)
}

type Res struct {
	E    string `json:"e"` // ok | error class
	Tx   uint64 `json:"tx"`
	Ents []Ent  `json:"ents"`
	N    int    `json:"n"`
}

type Event struct {
	Ev      string `json:"ev"`
	C       int    `json:"c,omitempty"`
	Seq     int64  `json:"seq,omitempty"`
	Op      *Op    `json:"op,omitempty"`
	Res     *Res   `json:"res,omitempty"`
	Msg     string `json:"msg,omitempty"`
	What    string `json:"what,omitempty"` // Maint: flush | compact
	Seq0    int64  `json:"seq0,omitempty"` // Maint: sequence number taken before the maintenance call
	W       int    `json:"w"`
	Epoch   int    `json:"epoch"`
	Clients int    `json:"clients,omitempty"`
	Cfg     string `json:"cfg,omitempty"`
}

var keys = []string{"a0", "a1", "a2", "a3", "b0", "b1", "b2", "b3"}
var sets = []string{"z0", "z1"}

func classify(err error) string {
	switch {
	case err == nil:
		return "ok"
	case errors.Is(err, store.ErrKeyNotFound) || errors.Is(err, tbtree.ErrKeyNotFound):
		return "KeyNotFound"
	case errors.Is(err, store.ErrPreconditionFailed):
		return "PreconditionFailed"
	case errors.Is(err, store.ErrTxReadConflict):
		return "ReadConflict"
	case errors.Is(err, database.ErrFinalKeyCannotBeConvertedIntoReference):
		return "FinalKey"
	case errors.Is(err, database.ErrReferencedKeyCannotBeAReference):
		return "RefToRef"
	case errors.Is(err, store.ErrTxNotFound):
		return "TxNotFound"
	case errors.Is(err, database.ErrInvalidRevision):
		return "InvalidRevision"
	case errors.Is(err, database.ErrKeyResolutionLimitReached):
		return "ResolutionLimit"
	case errors.Is(err, store.ErrNoMoreEntries) || errors.Is(err, tbtree.ErrNoMoreEntries):
		return "NoMoreEntries"
	}
	return "Other"
}

func projEntry(e *schema.Entry) Ent {
	x := Ent{K: string(e.Key), V: string(e.Value), Tx: e.Tx, Rev: e.Revision}
	if e.ReferencedBy != nil {
		x.Rk = string(e.ReferencedBy.Key)
		x.Rtx = e.ReferencedBy.Tx
		x.Rrev = e.ReferencedBy.Revision
		x.Rat = e.ReferencedBy.AtTx
	}
	if e.Metadata != nil && e.Metadata.Deleted {
		x.D = true
	}
	return x
}

// projHist projects a History entry: the API returns the stored bytes without the type byte; a stored reference
// is atTx (8 bytes) followed by the wrapped referenced key (client values always start with 'c').
func projHist(e *schema.Entry) Ent {
	x := Ent{K: string(e.Key), Tx: e.Tx, Rev: e.Revision}
	if e.Metadata != nil && e.Metadata.Deleted {
		x.D = true
		return x
	}
	v := e.Value
	if len(v) > 9 && v[0] == 0 && v[8] == database.SetKeyPrefix {
		x.Rat = binary.BigEndian.Uint64(v[:8])
		x.Rk = string(v[9:])
		return x
	}
	x.V = string(v)
	return x
}

func protoPre(ps []Pre) []*schema.Precondition {
	var out []*schema.Precondition
	for _, p := range ps {
		switch p.T {
		case "E":
			out = append(out, schema.PreconditionKeyMustExist([]byte(p.K)))
		case "N":
			out = append(out, schema.PreconditionKeyMustNotExist([]byte(p.K)))
		case "M":
			out = append(out, schema.PreconditionKeyNotModifiedAfterTX([]byte(p.K), p.Tx))
		}
	}
	return out
}

// exec runs one abstract operation on the real database and projects the result.
func exec(ctx context.Context, db database.DB, op *Op) (Res, string) {
	res := Res{Ents: []Ent{}}
	var err error
	hdr := func(h *schema.TxHeader, e error) {
		err = e
		if e == nil && h != nil {
			res.Tx = h.Id
		}
	}
	switch op.T {
	case "Set":
		req := &schema.SetRequest{Preconditions: protoPre(op.Pre)}
		for _, kv := range op.KVs {
			req.KVs = append(req.KVs, &schema.KeyValue{Key: []byte(kv.K), Value: []byte(kv.V)})
		}
		hdr(db.Set(ctx, req))
	case "Del":
		req := &schema.DeleteKeysRequest{}
		for _, k := range op.Keys {
			req.Keys = append(req.Keys, []byte(k))
		}
		hdr(db.Delete(ctx, req))
	case "Ref":
		hdr(db.SetReference(ctx, &schema.ReferenceRequest{Key: []byte(op.K), ReferencedKey: []byte(op.Rk), AtTx: op.At,
			BoundRef: op.At > 0, Preconditions: protoPre(op.Pre)}))
	case "ZAdd":
		hdr(db.ZAdd(ctx, &schema.ZAddRequest{Set: []byte(op.Set), Score: float64(op.Sc), Key: []byte(op.K), AtTx: op.At, BoundRef: op.At > 0}))
	case "Exec":
		req := &schema.ExecAllRequest{Preconditions: protoPre(op.Pre)}
		for _, x := range op.Ops {
			switch x.T {
			case "Kv":
				req.Operations = append(req.Operations, &schema.Op{Operation: &schema.Op_Kv{Kv: &schema.KeyValue{Key: []byte(x.K), Value: []byte(x.V)}}})
			case "Ref":
				req.Operations = append(req.Operations, &schema.Op{Operation: &schema.Op_Ref{Ref: &schema.ReferenceRequest{
					Key: []byte(x.K), ReferencedKey: []byte(x.Rk), AtTx: x.At, BoundRef: x.B}}})
			case "ZAdd":
				req.Operations = append(req.Operations, &schema.Op{Operation: &schema.Op_ZAdd{ZAdd: &schema.ZAddRequest{
					Set: []byte(x.Set), Score: float64(x.Sc), Key: []byte(x.K), AtTx: x.At, BoundRef: x.B}}})
			}
		}
		hdr(db.ExecAll(ctx, req))
	case "Get":
		req := &schema.KeyRequest{Key: []byte(op.K)}
		switch op.Mode {
		case "attx":
			req.AtTx = uint64(op.N)
		case "atrev":
			req.AtRevision = op.N
		case "since":
			req.SinceTx = uint64(op.N)
		case "nowait":
			req.NoWait = true
		}
		var e *schema.Entry
		e, err = db.Get(ctx, req)
		if err == nil {
			res.Ents = append(res.Ents, projEntry(e))
		} else if op.Mode == "since" && errors.Is(err, database.ErrIllegalArguments) {
			return Res{E: "IllegalArguments", Ents: []Ent{}}, ""
		}
	case "GetAll":
		req := &schema.KeyListRequest{}
		for _, k := range op.Keys {
			req.Keys = append(req.Keys, []byte(k))
		}
		var l *schema.Entries
		l, err = db.GetAll(ctx, req)
		if err == nil {
			for _, e := range l.Entries {
				res.Ents = append(res.Ents, projEntry(e))
			}
		}
	case "Scan":
		var l *schema.Entries
		l, err = db.Scan(ctx, &schema.ScanRequest{Prefix: []byte(op.Prefix), Desc: op.Desc, Limit: uint64(op.Limit)})
		if err == nil {
			for _, e := range l.Entries {
				res.Ents = append(res.Ents, projEntry(e))
			}
		}
	case "ZScan":
		var l *schema.ZEntries
		l, err = db.ZScan(ctx, &schema.ZScanRequest{Set: []byte(op.Set), Desc: op.Desc, Limit: uint64(op.Limit)})
		if err == nil {
			for _, z := range l.Entries {
				x := projEntry(z.Entry)
				if string(z.Key) != x.K || string(z.Set) != op.Set {
					return Res{E: "Other", Ents: []Ent{}}, fmt.Sprintf("ZScan entry key/set mismatch: %q/%q vs %q/%q", z.Key, z.Set, x.K, op.Set)
				}
				x.Sc = int(z.Score)
				x.Zat = z.AtTx
				res.Ents = append(res.Ents, x)
			}
		}
	case "Hist":
		var l *schema.Entries
		l, err = db.History(ctx, &schema.HistoryRequest{Key: []byte(op.K), Offset: uint64(op.Offset), Limit: int32(op.Limit), Desc: op.Desc})
		if err == nil {
			for _, e := range l.Entries {
				res.Ents = append(res.Ents, projHist(e))
			}
		}
	case "Count":
		var c *schema.EntryCount
		c, err = db.Count(ctx, &schema.KeyPrefix{Prefix: []byte(op.Prefix)})
		if err == nil {
			res.N = int(c.Count)
		}
	default:
		vh.Fatalf("unknown op %q", op.T)
	}
	res.E = classify(err)
	msg := ""
	if err != nil {
		res.Tx = 0
		res.Ents = []Ent{}
		res.N = 0
		if res.E == "Other" {
			msg = err.Error()
		}
	}
	return res, msg
}

// ---------------------------------------------------------------- workload

type client struct {
	id     int
	rng    *rand.Rand
	nval   int
	seenTx map[string]uint64 // last tx this client saw for a key (own writes and reads)
	lastTx uint64            // highest tx id this client has seen
	evs    []Event
}

func (c *client) val() string { c.nval++; return fmt.Sprintf("c%d-%d", c.id, c.nval) }
func (c *client) key() string { return keys[c.rng.Intn(len(keys))] }

// plain keys are mostly a0..b1; b2,b3 are mostly used as references so that references live long enough to be read
func (c *client) plainKey() string {
	if c.rng.Intn(10) == 0 {
		return keys[6+c.rng.Intn(2)]
	}
	return keys[c.rng.Intn(6)]
}
func (c *client) refKey() string {
	if c.rng.Intn(4) == 0 {
		return c.key()
	}
	return keys[6+c.rng.Intn(2)]
}

func (c *client) someTx(k string) uint64 {
	switch r := c.rng.Intn(10); {
	case r < 5 && c.seenTx[k] > 0:
		return c.seenTx[k]
	case r < 8 && c.lastTx > 0:
		d := uint64(c.rng.Intn(4))
		if d >= c.lastTx {
			return 1
		}
		return c.lastTx - d
	default:
		return c.lastTx + 1 + uint64(c.rng.Intn(2))
	}
}

func (c *client) pres(k string) []Pre {
	var ps []Pre
	n := 1
	if c.rng.Intn(4) == 0 {
		n = 2
	}
	for i := 0; i < n; i++ {
		pk := k
		if c.rng.Intn(3) == 0 {
			pk = c.key()
		}
		switch c.rng.Intn(3) {
		case 0:
			ps = append(ps, Pre{T: "E", K: pk})
		case 1:
			ps = append(ps, Pre{T: "N", K: pk})
		default:
			tx := c.someTx(pk)
			if tx == 0 {
				tx = 1
			}
			ps = append(ps, Pre{T: "M", K: pk, Tx: tx})
		}
	}
	return ps
}

func (c *client) distinctKeys(n int, pick func() string) []string {
	seen := map[string]bool{}
	var out []string
	for len(out) < n {
		k := pick()
		if !seen[k] {
			seen[k] = true
			out = append(out, k)
		}
	}
	return out
}

func (c *client) gen() *Op {
	op := &Op{KVs: []KV{}, Keys: []string{}, Pre: []Pre{}, Ops: []XOp{}}
	r := c.rng.Intn(100)
	switch {
	case r < 15:
		op.T = "Set"
		op.KVs = []KV{{c.plainKey(), c.val()}}
	case r < 21:
		op.T = "Set"
		for _, k := range c.distinctKeys(2+c.rng.Intn(2), c.plainKey) {
			op.KVs = append(op.KVs, KV{k, c.val()})
		}
		if c.rng.Intn(2) == 0 {
			op.Pre = c.pres(op.KVs[0].K)
		}
	case r < 34:
		op.T = "Set"
		k := c.plainKey()
		op.KVs = []KV{{k, c.val()}}
		op.Pre = c.pres(k)
	case r < 42:
		op.T = "Del"
		n := 1
		if c.rng.Intn(5) == 0 {
			n = 2
		}
		op.Keys = c.distinctKeys(n, c.key)
	case r < 47:
		op.T = "Ref"
		op.K = c.refKey()
		op.Rk = c.plainKey()
		if c.rng.Intn(3) == 0 {
			op.At = c.someTx(op.Rk)
		}
		if c.rng.Intn(4) == 0 {
			op.Pre = c.pres(op.K)
		}
	case r < 51:
		op.T = "ZAdd"
		op.Set = sets[c.rng.Intn(len(sets))]
		op.Sc = c.rng.Intn(4)
		op.K = c.plainKey()
		if c.rng.Intn(3) == 0 {
			op.At = c.someTx(op.K)
		}
	case r < 58:
		op.T = "Exec"
		n := 1 + c.rng.Intn(3)
		ks := c.distinctKeys(n, c.key)
		zseen := map[string]bool{}
		for i := 0; i < n; i++ {
			x := XOp{T: "Kv", K: ks[i]}
			switch q := c.rng.Intn(10); {
			case q < 5:
				x.V = c.val()
			case q < 8:
				x.T = "Ref"
				if i > 0 && c.rng.Intn(2) == 0 {
					x.Rk = ks[c.rng.Intn(i)] // possibly a key set earlier in this same request
				} else {
					x.Rk = c.plainKey()
				}
				switch c.rng.Intn(4) {
				case 0:
					x.B = true // bound to this very transaction
				case 1:
					x.B = true
					x.At = c.someTx(x.Rk)
				}
			default:
				x.T = "ZAdd"
				x.Set = sets[c.rng.Intn(len(sets))]
				x.Sc = c.rng.Intn(4)
				if i > 0 && c.rng.Intn(2) == 0 {
					x.K = ks[c.rng.Intn(i)]
				} else {
					x.K = c.plainKey()
				}
				switch c.rng.Intn(4) {
				case 0:
					x.B = true
				case 1:
					x.B = true
					x.At = c.someTx(x.K)
				}
				id := fmt.Sprintf("%s/%s/%d", x.Set, x.K, x.At)
				if zseen[id] {
					x = XOp{T: "Kv", K: ks[i], V: c.val()}
				}
				zseen[id] = true
			}
			op.Ops = append(op.Ops, x)
		}
		if c.rng.Intn(3) == 0 {
			op.Pre = c.pres(ks[0])
		}
	case r < 75:
		op.T, op.K, op.Mode = "Get", c.key(), "def"
	case r < 78:
		op.T, op.K, op.Mode = "Get", c.key(), "attx"
		op.N = int64(c.someTx(op.K))
		if op.N == 0 {
			op.N = 1
		}
	case r < 82:
		op.T, op.K, op.Mode = "Get", c.key(), "atrev"
		op.N = []int64{1, 2, 3, 6, -1, -2, -4}[c.rng.Intn(7)]
	case r < 85:
		op.T, op.K, op.Mode = "Get", c.key(), "since"
		op.N = int64(c.someTx(op.K))
		if op.N == 0 {
			op.N = 1
		}
	case r < 87:
		op.T, op.K, op.Mode = "Get", c.key(), "nowait"
	case r < 90:
		op.T = "GetAll"
		op.Keys = c.distinctKeys(2+c.rng.Intn(2), c.key)
	case r < 94:
		op.T = "Scan"
		op.Prefix = []string{"", "a", "b"}[c.rng.Intn(3)]
		op.Desc = c.rng.Intn(2) == 0
		op.Limit = []int{0, 0, 1, 2, 3}[c.rng.Intn(5)]
	case r < 96:
		op.T = "ZScan"
		op.Set = sets[c.rng.Intn(len(sets))]
		op.Desc = c.rng.Intn(2) == 0
		op.Limit = []int{0, 0, 1, 2}[c.rng.Intn(4)]
	case r < 99:
		op.T, op.K = "Hist", c.key()
		op.Offset = c.rng.Intn(3)
		op.Desc = c.rng.Intn(2) == 0
		op.Limit = c.rng.Intn(4)
	default:
		op.T = "Count"
		op.Prefix = []string{"", "a", "b"}[c.rng.Intn(3)]
	}
	return op
}

func (c *client) learn(op *Op, res *Res) {
	if res.Tx > c.lastTx {
		c.lastTx = res.Tx
	}
	if res.E == "ok" && res.Tx > 0 {
		for _, kv := range op.KVs {
			c.seenTx[kv.K] = res.Tx
		}
		for _, x := range op.Ops {
			c.seenTx[x.K] = res.Tx
		}
		if op.T == "Ref" {
			c.seenTx[op.K] = res.Tx
		}
	}
	for _, e := range res.Ents {
		if e.Tx > c.lastTx {
			c.lastTx = e.Tx
		}
		if e.Tx > 0 {
			c.seenTx[e.K] = e.Tx
		}
	}
}

type epochCfg struct {
	Synced     bool
	NodeSize   int
	FlushThld  int
	RenewMs    int
	Maint      bool
	Compact    bool
	CompactDly int
	BulkSize   int
	SyncMs     int    // sync frequency (ms) of a synced store
	Kind       string // random | race | snap
}

func (e epochCfg) String() string {
	return fmt.Sprintf("kind=%s synced=%v sync=%dms node=%d flush=%d renew=%dms maint=%v compact=%v cdelay=%dms bulk=%d", e.Kind, e.Synced, e.SyncMs,
		e.NodeSize, e.FlushThld, e.RenewMs, e.Maint, e.Compact, e.CompactDly, e.BulkSize)
}

func main() {
	seed := flag.Int64("seed", 1, "seed")
	windows := flag.Int("windows", 20, "number of windows")
	perEpoch := flag.Int("epoch", 8, "windows per database instance")
	out := flag.String("out", "", "ndjson history")
	dir := flag.String("dir", "", "scratch dir for databases")
	fixClients := flag.Int("clients", 0, "fix the number of clients (0 = 3..6 by epoch)")
	maint := flag.Bool("maint", true, "run the maintenance goroutine (FlushIndex / CompactIndex)")
	compact := flag.Bool("compact", true, "let the maintenance goroutine call CompactIndex")
	minOps := flag.Int("minops", 40, "min ops per window")
	maxOps := flag.Int("maxops", 60, "max ops per window")
	raceRounds := flag.Int("race-rounds", 0, "extra database instance (synced, long sync period): rounds of conflicting conditional writes started together")
	snapWindows := flag.Int("snap-windows", 0, "extra database instance: windows of multi-key readers (GetAll / Scan) against tight-loop multi-key writers")
	repro := flag.String("repro", "", "run a minimal reproduction instead (compaction | refget)")
	flag.Parse()
	if *repro != "" {
		if *dir == "" {
			vh.Fatalf("need -dir")
		}
		runRepro(*repro, *dir)
		return
	}
	if *out == "" || *dir == "" {
		vh.Fatalf("need -out and -dir")
	}
	res := vh.NewResult()
	f, err := os.Create(*out)
	vh.Must(err, "create trace")
	w := bufio.NewWriterSize(f, 1<<20)
	enc := json.NewEncoder(w)
	emit := func(e Event) { vh.Must(enc.Encode(e), "encode event") }

	rng := rand.New(rand.NewSource(*seed*7919 + 17))
	win := 0
	for epoch := 0; win < *windows; epoch++ {
		nw := *perEpoch
		if win+nw > *windows {
			nw = *windows - win
		}
		ncl := 3 + rng.Intn(4)
		if *fixClients > 0 {
			ncl = *fixClients
		}
		cfg := epochCfg{
			Synced:     epoch%4 == 3,
			NodeSize:   []int{1024, 2048, 4096}[rng.Intn(3)],
			FlushThld:  []int{3, 10, 100000}[rng.Intn(3)],
			RenewMs:    []int{0, 1, 1000}[rng.Intn(3)],
			Maint:      *maint && epoch%5 != 4,
			Compact:    *compact && epoch%2 == 0,
			CompactDly: []int{0, 1, 10}[rng.Intn(3)],
			BulkSize:   1,
			SyncMs:     1,
			Kind:       "random",
		}
		runEpoch(res, emit, *seed, epoch, win, nw, ncl, cfg, filepath.Join(*dir, fmt.Sprintf("e%d", epoch)), *minOps, *maxOps)
		win += nw
	}
	epoch := 1000
	if *raceRounds > 0 {
		win += runRaceEpoch(res, emit, *seed, epoch, win, *raceRounds, filepath.Join(*dir, "race"))
		epoch++
	}
	if *snapWindows > 0 {
		win += runSnapEpoch(res, emit, *seed, epoch, win, *snapWindows, filepath.Join(*dir, "snap"))
	}
	vh.Must(w.Flush(), "flush trace")
	vh.Must(f.Close(), "close trace")
	res.Traces = win
	res.Emit()
}

func openDB(cfg epochCfg, dir string, epoch int) database.DB {
	os.RemoveAll(dir)
	vh.Must(os.MkdirAll(dir, 0o755), "mkdir")
	so := store.DefaultOptions().WithSynced(cfg.Synced).WithSyncFrequency(time.Duration(cfg.SyncMs) * time.Millisecond).WithMaxConcurrency(32).
		WithMaxKeyLen(96).WithMaxValueLen(256).WithLogger(logger.NewMemoryLoggerWithLevel(logger.LogError))
	so.WithIndexOptions(so.IndexOpts.WithMaxNodeSize(cfg.NodeSize).WithFlushThld(cfg.FlushThld).WithSyncThld(cfg.FlushThld * 4).WithCompactionThld(1).
		WithRenewSnapRootAfter(time.Duration(cfg.RenewMs) * time.Millisecond).WithDelayDuringCompaction(time.Duration(cfg.CompactDly) * time.Millisecond).
		WithCacheSize(1 << 20).WithFlushBufferSize(1 << 14).WithMaxBulkSize(cfg.BulkSize))
	opts := database.DefaultOptions().WithDBRootPath(dir).WithStoreOptions(so)
	tOpen := time.Now()
	db, err := database.NewDB("db", nil, opts, logger.NewMemoryLoggerWithLevel(logger.LogError))
	vh.Must(err, "NewDB")
	if os.Getenv("C06_DEBUG") != "" {
		fmt.Fprintf(os.Stderr, "epoch %d: NewDB %v (%s)\n", epoch, time.Since(tOpen), cfg)
	}
	return db
}

// audit is the read-everything-back window at the end of a database instance (not counted): no maintenance, one client
// reads the complete history of every key, full scans, both sorted sets.  TLC judges it like any other window: a rejection
// here means the index no longer agrees with the committed log (persistent damage, not a transient stale read).
func audit(res *vh.Result, emit func(Event), db database.DB, cid, epoch int, seq *int64, pendingMaint []Event) {
	var ops []*Op
	blank := func() *Op { return &Op{KVs: []KV{}, Keys: []string{}, Pre: []Pre{}, Ops: []XOp{}} }
	for _, k := range keys {
		o := blank()
		o.T, o.K = "Hist", k
		ops = append(ops, o)
		g := blank()
		g.T, g.K, g.Mode = "Get", k, "def"
		ops = append(ops, g)
	}
	for _, desc := range []bool{false, true} {
		o := blank()
		o.T, o.Desc = "Scan", desc
		ops = append(ops, o)
	}
	for _, z := range sets {
		o := blank()
		o.T, o.Set = "ZScan", z
		ops = append(ops, o)
	}
	o := blank()
	o.T = "Count"
	ops = append(ops, o)
	aw := 100000 + epoch
	for _, e := range pendingMaint {
		e.W, e.Epoch = aw, epoch
		emit(e)
	}
	for _, op := range ops {
		s0 := atomic.AddInt64(seq, 1)
		r, msg := exec(context.Background(), db, op)
		s1 := atomic.AddInt64(seq, 1)
		rr := r
		emit(Event{Ev: "Call", C: cid, Seq: s0, Op: op, Res: &rr, W: aw, Epoch: epoch})
		emit(Event{Ev: "Ret", C: cid, Seq: s1, Res: &rr, Msg: msg, W: aw, Epoch: epoch})
		res.Count("audit:"+op.T+":"+r.E, 1)
	}
	emit(Event{Ev: "Cut", W: aw, Epoch: epoch})
}

func runEpoch(res *vh.Result, emit func(Event), seed int64, epoch, win0, nw, ncl int, cfg epochCfg, dir string, minOps, maxOps int) {
	db := openDB(cfg, dir, epoch)
	dbg := os.Getenv("C06_DEBUG") != ""
	emit(Event{Ev: "Reset", Epoch: epoch, W: win0, Clients: ncl, Cfg: cfg.String()})

	var seq int64
	clients := make([]*client, ncl)
	for i := range clients {
		clients[i] = &client{id: i + 1, rng: rand.New(rand.NewSource(seed*1000003 + int64(epoch)*101 + int64(i))), seenTx: map[string]uint64{}}
	}

	// maintenance runs freely across windows
	stop := make(chan struct{})
	var mwg sync.WaitGroup
	var mmu sync.Mutex
	var mevs []Event
	mlog := func(what string, s0 int64, err error) {
		e := Event{Ev: "Maint", What: what, Seq0: s0, Seq: atomic.AddInt64(&seq, 1)}
		if err != nil {
			e.Msg = err.Error()
		}
		mmu.Lock()
		mevs = append(mevs, e)
		mmu.Unlock()
	}
	if cfg.Maint {
		mwg.Add(1)
		go func() {
			defer mwg.Done()
			mr := rand.New(rand.NewSource(seed*31 + int64(epoch)))
			for {
				select {
				case <-stop:
					return
				default:
				}
				switch r := mr.Intn(10); {
				case r < 6 || !cfg.Compact:
					s0 := atomic.AddInt64(&seq, 1)
					err := db.FlushIndex(&schema.FlushIndexRequest{CleanupPercentage: []float32{0, 10, 100}[mr.Intn(3)], Synced: mr.Intn(2) == 0})
					mlog("flush", s0, err)
					if err != nil {
						res.Count("maint:flush-err", 1)
					} else {
						res.Count("maint:flush", 1)
					}
				default:
					s0 := atomic.AddInt64(&seq, 1)
					err := db.CompactIndex()
					mlog("compact", s0, err)
					switch {
					case err == nil:
						res.Count("maint:compact", 1)
					case errors.Is(err, tbtree.ErrCompactionThresholdNotReached):
						res.Count("maint:compact-thld", 1)
					default:
						res.Count("maint:compact-err", 1)
						res.Sample(map[string]string{"compact-err": err.Error()}, 8)
					}
				}
				time.Sleep(time.Duration(mr.Intn(1500)) * time.Microsecond)
			}
		}()
	}

	mrng := rand.New(rand.NewSource(seed*13 + int64(epoch)))
	for wi := 0; wi < nw; wi++ {
		budget := minOps
		if maxOps > minOps {
			budget += mrng.Intn(maxOps - minOps + 1)
		}
		share := make([]int, ncl)
		for i := 0; i < budget; i++ {
			share[mrng.Intn(ncl)]++
		}
		var wg sync.WaitGroup
		done := make(chan struct{})
		tWin := time.Now()
		for ci, c := range clients {
			c.evs = c.evs[:0]
			wg.Add(1)
			go func(c *client, n int) {
				defer wg.Done()
				for i := 0; i < n; i++ {
					op := c.gen()
					s0 := atomic.AddInt64(&seq, 1)
					r, msg := exec(context.Background(), db, op)
					s1 := atomic.AddInt64(&seq, 1)
					rr := r
					c.evs = append(c.evs, Event{Ev: "Call", C: c.id, Seq: s0, Op: op, Res: &rr}, Event{Ev: "Ret", C: c.id, Seq: s1, Res: &rr, Msg: msg})
					c.learn(op, &r)
					res.Count("op:"+op.T+opMode(op), 1)
					res.Count("res:"+op.T+":"+r.E, 1)
					if msg != "" {
						res.Count("other:"+op.T+":"+trunc(msg), 1)
					}
					if c.rng.Intn(3) == 0 {
						runtime.Gosched()
					}
				}
			}(c, share[ci])
		}
		go func() { wg.Wait(); close(done) }()
		select {
		case <-done:
		case <-time.After(180 * time.Second):
			vh.Fatalf("window %d of epoch %d did not finish within 180s (clients blocked in the database)", win0+wi, epoch)
		}
		if dbg {
			fmt.Fprintf(os.Stderr, "  window %d: %d ops in %v\n", win0+wi, budget, time.Since(tWin))
		}
		// quiescent point: all clients idle; merge by global sequence
		var all []Event
		for _, c := range clients {
			all = append(all, c.evs...)
		}
		nops := len(all) / 2
		mmu.Lock()
		all = append(all, mevs...)
		mevs = mevs[:0]
		mmu.Unlock()
		sort.Slice(all, func(i, j int) bool { return all[i].Seq < all[j].Seq })
		for _, e := range all {
			e.W = win0 + wi
			e.Epoch = epoch
			emit(e)
		}
		emit(Event{Ev: "Cut", W: win0 + wi, Epoch: epoch})
		res.Evaluations += nops
	}
	close(stop)
	mwg.Wait()
	mmu.Lock()
	rest := append([]Event{}, mevs...)
	mmu.Unlock()
	audit(res, emit, db, clients[0].id, epoch, &seq, rest)
	vh.Must(db.Close(), "close db")
	res.Distinct += nw
	os.RemoveAll(dir)
}

func opMode(op *Op) string {
	if op.T == "Get" {
		return ":" + op.Mode
	}
	if len(op.Pre) > 0 {
		return ":pre"
	}
	return ""
}

func trunc(s string) string {
	s = strings.Map(func(r rune) rune {
		if r >= '0' && r <= '9' {
			return '#'
		}
		return r
	}, s)
	if len(s) > 70 {
		s = s[:70]
	}
	return s
}
