// Minimal reproductions of the C06 findings on the real pkg/database.DB (run with: c06 -repro <name> -dir <dir>).
// They print one JSON document {"repro":..., "reproduced":bool, "detail":...} and never decide a verdict of the check.
package main

import (
	"context"
	"encoding/json"
	"fmt"
	"os"
	"path/filepath"
	"strconv"
	"sync"
	"sync/atomic"
	"time"

	"github.com/codenotary/immudb/embedded/logger"
	"github.com/codenotary/immudb/embedded/store"
	"github.com/codenotary/immudb/pkg/api/schema"
	"github.com/codenotary/immudb/pkg/database"

	"verifharness/vh"
)

func openRepro(dir string, delay time.Duration) database.DB {
	os.RemoveAll(dir)
	vh.Must(os.MkdirAll(dir, 0o755), "mkdir")
	so := store.DefaultOptions().WithSynced(false).WithMaxKeyLen(96).WithMaxValueLen(256).WithLogger(logger.NewMemoryLoggerWithLevel(logger.LogError))
	so.WithIndexOptions(so.IndexOpts.WithMaxNodeSize(1024).WithCompactionThld(1).WithDelayDuringCompaction(delay))
	db, err := database.NewDB("db", nil, database.DefaultOptions().WithDBRootPath(dir).WithStoreOptions(so), logger.NewMemoryLoggerWithLevel(logger.LogError))
	vh.Must(err, "NewDB")
	return db
}

// reproCompaction: a Get that starts after a Set returned must see that Set (or a later one).
//  1. write some keys, FlushIndex (so that CompactIndex has something to do), start CompactIndex
//  2. a writer overwrites key "a0" with 1, 2, 3, ... and publishes n after Set(n) has RETURNED
//  3. a reader loads the published n, THEN calls Get("a0") with default options: the value must be >= n.
//
// Observed on the unchanged tree: an older value.  When an index is swapped for its compacted snapshot
// (embedded/store/indexer.go restartIndex) it lacks the transactions indexed during the dump, but the indexer's watcher
// hub still reports them as indexed, so WaitForIndexingUpto returns at once until the re-indexing has caught up.
// (A single client does not see it: its own in-flight Set waits for the new index to reach its transaction.)
func reproCompaction(dir string) map[string]interface{} {
	ctx := context.Background()
	out := map[string]interface{}{"repro": "compaction"}
	for attempt := 1; attempt <= 20; attempt++ {
		db := openRepro(filepath.Join(dir, fmt.Sprintf("r%d", attempt)), time.Millisecond)
		for i := 0; i < 300; i++ {
			_, err := db.Set(ctx, &schema.SetRequest{KVs: []*schema.KeyValue{{Key: []byte(fmt.Sprintf("k%03d", i)), Value: []byte("x")}}})
			vh.Must(err, "Set")
		}
		vh.Must(db.FlushIndex(&schema.FlushIndexRequest{CleanupPercentage: 0, Synced: true}), "FlushIndex")
		done := make(chan error, 1)
		go func() { done <- db.CompactIndex() }()
		var acked, ackedTx int64
		var stop int32
		var wg sync.WaitGroup
		wg.Add(1)
		go func() {
			defer wg.Done()
			for n := int64(1); atomic.LoadInt32(&stop) == 0; n++ {
				h, err := db.Set(ctx, &schema.SetRequest{KVs: []*schema.KeyValue{{Key: []byte("a0"), Value: []byte(strconv.FormatInt(n, 10))}}})
				vh.Must(err, "Set a0")
				atomic.StoreInt64(&ackedTx, int64(h.Id))
				atomic.StoreInt64(&acked, n)
			}
		}()
		var cerr error
		finished := false
		reads, after := 0, 0
		detail := ""
		for after < 3000 && detail == "" {
			if !finished {
				select {
				case cerr = <-done:
					finished = true
				default:
				}
			} else {
				after++
			}
			n, ntx := atomic.LoadInt64(&acked), atomic.LoadInt64(&ackedTx)
			if n == 0 {
				continue
			}
			reads++
			e, err := db.Get(ctx, &schema.KeyRequest{Key: []byte("a0")})
			if err != nil {
				continue
			}
			got, _ := strconv.ParseInt(string(e.Value), 10, 64)
			if got < n {
				// the same stale state seen by a conditional write: a0 WAS modified after tx ntx-1
				_, perr := db.Set(ctx, &schema.SetRequest{KVs: []*schema.KeyValue{{Key: []byte("p"), Value: []byte("y")}},
					Preconditions: []*schema.Precondition{schema.PreconditionKeyNotModifiedAfterTX([]byte("a0"), uint64(ntx-1))}})
				detail = fmt.Sprintf("attempt %d: Set(a0=%d) had returned (tx %d) before Get(a0) was called (read #%d, CompactIndex returned=%v err=%v); "+
					"Get(a0) -> value %q (tx %d, revision %d); then Set(p) with KeyNotModifiedAfterTX(a0,%d) -> err=%v",
					attempt, n, ntx, reads, finished, cerr, e.Value, e.Tx, e.Revision, ntx-1, perr)
			}
		}
		atomic.StoreInt32(&stop, 1)
		wg.Wait()
		if !finished {
			<-done
		}
		db.Close()
		if detail != "" {
			out["reproduced"] = true
			out["detail"] = detail
			return out
		}
		if os.Getenv("C06_DEBUG") != "" {
			fmt.Fprintf(os.Stderr, "attempt %d: sets=%d reads=%d cerr=%v\n", attempt, atomic.LoadInt64(&acked), reads, cerr)
		}
	}
	out["reproduced"] = false
	out["detail"] = "20 attempts: Get always returned the last acknowledged value or a later one"
	return out
}

// reproRefGet: Get through an unbound reference performs two index lookups (reference, then target) at different
// instants.  r -> a ... re-pointed to b ... a overwritten ... r re-pointed to a.  A result (target a, value written AFTER
// r stopped pointing to a, reached through the OLD version of r) never existed.
func reproRefGet(dir string) map[string]interface{} {
	ctx := context.Background()
	out := map[string]interface{}{"repro": "refget"}
	db := openRepro(filepath.Join(dir, "rg"), 0)
	defer db.Close()
	set := func(k, v string) uint64 {
		h, err := db.Set(ctx, &schema.SetRequest{KVs: []*schema.KeyValue{{Key: []byte(k), Value: []byte(v)}}})
		vh.Must(err, "Set")
		return h.Id
	}
	ref := func(k, rk string) uint64 {
		h, err := db.SetReference(ctx, &schema.ReferenceRequest{Key: []byte(k), ReferencedKey: []byte(rk)})
		vh.Must(err, "SetReference")
		return h.Id
	}
	set("a", "a0")
	set("b", "b0")
	ref("r", "a")
	var mu sync.Mutex
	rTx := []uint64{}            // txs at which r was (re)pointed, in order
	valTx := map[string]uint64{} // value of a -> tx
	var stop int32
	var wg sync.WaitGroup
	wg.Add(1)
	go func() {
		defer wg.Done()
		for i := 1; atomic.LoadInt32(&stop) == 0 && i < 4000; i++ {
			t1 := ref("r", "b")
			v := fmt.Sprintf("a%d", i)
			t2 := set("a", v)
			t3 := ref("r", "a")
			mu.Lock()
			rTx = append(rTx, t1, t3)
			valTx[v] = t2
			mu.Unlock()
		}
	}()
	type obs struct {
		k, v    string
		tx, rtx uint64
	}
	var seen []obs
	deadline := time.Now().Add(20 * time.Second)
	for time.Now().Before(deadline) && len(seen) < 400000 {
		e, err := db.Get(ctx, &schema.KeyRequest{Key: []byte("r")})
		if err != nil || e.ReferencedBy == nil {
			continue
		}
		seen = append(seen, obs{string(e.Key), string(e.Value), e.Tx, e.ReferencedBy.Tx})
	}
	atomic.StoreInt32(&stop, 1)
	wg.Wait()
	// r's version written at tx t is current during [t, next re-point).  The entry (key, tx) must have been current at some instant of that interval.
	next := map[uint64]uint64{}
	all := append([]uint64{3}, rTx...)
	for i := 0; i+1 < len(all); i++ {
		next[all[i]] = all[i+1]
	}
	for _, o := range seen {
		nx, ok := next[o.rtx]
		if ok && o.tx > nx {
			out["reproduced"] = true
			out["detail"] = fmt.Sprintf("Get(r) returned target %s=%q written at tx %d through the version of r written at tx %d, which was replaced at tx %d (< %d): "+
				"no committed state contains both", o.k, o.v, o.tx, o.rtx, nx, o.tx)
			out["observations"] = len(seen)
			return out
		}
	}
	out["reproduced"] = false
	out["observations"] = len(seen)
	out["detail"] = "no inconsistent (reference version, target version) pair observed"
	return out
}

func runRepro(name, dir string) {
	var r map[string]interface{}
	switch name {
	case "compaction":
		r = reproCompaction(dir)
	case "refget":
		r = reproRefGet(dir)
	default:
		vh.Fatalf("unknown repro %q", name)
	}
	vh.Must(json.NewEncoder(os.Stdout).Encode(r), "encode")
}
