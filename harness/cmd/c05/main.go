// c05: MVCC. (1) deterministic replay of TLC behaviours of spec/MVCC.tla on the real store (two indexes,
// staleness of the reusable flushed root controlled through per-index snapshots, tx options with and
// without SnapshotMustIncludeTxID = 0): every read result and every commit outcome is compared with the
// specification. (2) free-running concurrent read-write transactions whose reads, writes and commit
// outcomes are logged for spec/TraceMVCC.tla (serializability in commit order).
package main

import (
	"context"
	"encoding/json"
	"errors"
	"flag"
	"fmt"
	"math/rand"
	"os"
	"path/filepath"
	"sync"
	"time"

	"github.com/codenotary/immudb/embedded/logger"
	"github.com/codenotary/immudb/embedded/store"

	"verifharness/vh"
)

type step struct {
	Op     string
	T      int
	K      string
	X      string
	Stale  bool
	Res    json.RawMessage
	Own    bool
	Ok     bool
	Id     int
	Serial bool
}
type behaviour struct{ Ops []step }
type behFile struct{ Behaviours []behaviour }

func openStore(dir string) *store.ImmuStore { return openStoreSynced(dir, 0) }

// syncEvery > 0: a synced store with that sync period (transactions stay pre-committed, not yet committed, for a while)
func openStoreSynced(dir string, syncEvery time.Duration) *store.ImmuStore {
	o := store.DefaultOptions().WithSynced(syncEvery > 0).WithMultiIndexing(true).WithMaxConcurrency(8).WithMaxTxEntries(8).WithMaxKeyLen(16).WithMaxValueLen(64).
		WithWriteBufferSize(1 << 14).WithLogger(logger.NewMemoryLoggerWithLevel(logger.LogError))
	if syncEvery > 0 {
		o.WithSyncFrequency(syncEvery)
	}
	// no spontaneous flushes: the reusable root only moves when the driver asks for it
	o.WithIndexOptions(o.IndexOpts.WithFlushThld(1 << 20).WithSyncThld(1 << 20).WithFlushBufferSize(1 << 14).WithCacheSize(64).WithMaxBulkSize(1))
	o.WithAHTOptions(o.AHTOpts.WithWriteBufferSize(1 << 14))
	st, err := store.Open(dir, o)
	vh.Must(err, "store.Open")
	vh.Must(st.InitIndexing(&store.IndexSpec{SourcePrefix: []byte("a"), TargetPrefix: []byte("a")}), "InitIndexing a")
	vh.Must(st.InitIndexing(&store.IndexSpec{SourcePrefix: []byte("b"), TargetPrefix: []byte("b")}), "InitIndexing b")
	return st
}

func txOpts(stale bool) *store.TxOptions {
	o := store.DefaultTxOptions()
	if stale {
		o.WithSnapshotMustIncludeTxID(func(uint64) uint64 { return 0 }).WithSnapshotRenewalPeriod(0)
	}
	return o
}

func scan(ctx context.Context, tx *store.OngoingTx, x string) ([][2]interface{}, error) {
	r, err := tx.NewKeyReader(store.KeyReaderSpec{Prefix: []byte(x)})
	if err != nil {
		return nil, err
	}
	defer r.Close()
	var out [][2]interface{}
	for {
		k, ref, err := r.Read(ctx)
		if errors.Is(err, store.ErrNoMoreEntries) {
			return out, nil
		}
		if err != nil {
			return nil, err
		}
		out = append(out, [2]interface{}{string(k), ref.Tx()})
	}
}

// replay executes TLC's behaviours as schedules on the real store.  The verdict does not come from the predicted
// values (differences are model-drift notes): the real reads and commit outcomes are written as a trace for
// spec/TraceMVCC.tla, exactly like the free-running runs.
func replay(path, dir string, enc *json.Encoder, res *vh.Result) {
	var bf behFile
	vh.ReadJSON(path, &bf)
	ctx := context.Background()
	for bi, b := range bf.Behaviours {
		d := filepath.Join(dir, fmt.Sprintf("b%d", bi))
		st := openStore(d)
		txs := map[int]*store.OngoingTx{}
		reads := map[int][]interface{}{}
		writes := map[int][]string{}
		committed := uint64(0)
		res.Traces++
		enc.Encode(map[string]interface{}{"ev": "Reset", "behaviour": bi, "schedule": opsOf(b.Ops)})
		drift := func(si int, what string) {
			res.DriftNote(fmt.Sprintf("%s after %v", what, opsOf(b.Ops[:si+1])))
		}
		for si, s := range b.Ops {
			res.Evaluations++
			res.Count("op:"+s.Op, 1)
			switch s.Op {
			case "wocommit":
				tx, err := st.NewWriteOnlyTx(ctx)
				vh.Must(err, "NewWriteOnlyTx")
				vh.Must(tx.Set([]byte(s.K), nil, []byte(fmt.Sprintf("wo-%d", s.Id))), "Set")
				hdr, err := tx.Commit(ctx)
				vh.Must(err, "wo commit")
				committed = hdr.ID
				enc.Encode(map[string]interface{}{"ev": "Commit", "id": hdr.ID, "writes": []string{s.K}, "reads": []interface{}{}})
				vh.Must(st.WaitForIndexingUpto(ctx, committed), "WaitForIndexingUpto")
			case "flush":
				// a snapshot that must include everything indexed dumps the current root of that index only
				snap, err := st.SnapshotMustIncludeTxID(ctx, []byte(s.X), committed)
				vh.Must(err, "SnapshotMustIncludeTxID")
				snap.Close()
			case "begin":
				tx, err := st.NewTx(ctx, txOpts(s.Stale))
				vh.Must(err, "NewTx")
				txs[s.T] = tx
			case "get":
				ref, err := txs[s.T].Get(ctx, []byte(s.K))
				var want int
				json.Unmarshal(s.Res, &want)
				got := -1
				if errors.Is(err, store.ErrKeyNotFound) {
					got = 0
				} else if err == nil {
					got = int(ref.Tx())
				} else {
					vh.Fatalf("Get: %v", err)
				}
				if s.Own {
					if err != nil || ref.Tx() != 0 {
						res.Violate("mvcc:get:own-write-not-visible", fmt.Sprintf("tx does not see its own write of %s (err=%v) in %v", s.K, err, opsOf(b.Ops[:si+1])), map[string]interface{}{"behaviour": b.Ops[:si+1]})
					}
				} else {
					reads[s.T] = append(reads[s.T], map[string]interface{}{"kind": "get", "k": s.K, "e": got})
					if got != want {
						drift(si, fmt.Sprintf("Get(%s) returned the version of tx %d, model predicted %d", s.K, got, want))
					}
				}
			case "scan":
				got, err := scan(ctx, txs[s.T], s.X)
				if err != nil {
					vh.Fatalf("scan: %v", err)
				}
				nonOwn := [][2]interface{}{}
				own := []string{}
				for _, e := range got {
					if e[1].(uint64) == 0 {
						own = append(own, e[0].(string))
					} else {
						nonOwn = append(nonOwn, e)
					}
				}
				for _, k := range own {
					found := false
					for _, w := range writes[s.T] {
						found = found || w == k
					}
					if !found {
						res.Violate("mvcc:scan:phantom-own-entry", fmt.Sprintf("scan returned %s as written by the tx itself, but it was not", k), map[string]interface{}{"behaviour": b.Ops[:si+1]})
					}
				}
				reads[s.T] = append(reads[s.T], map[string]interface{}{"kind": "scan", "x": s.X, "es": nonOwn, "own": writesIn(writes[s.T], s.X)})
				var want [][2]interface{}
				json.Unmarshal(s.Res, &want)
				gb, _ := json.Marshal(got)
				wb, _ := json.Marshal(want)
				if len(got) == 0 {
					gb = []byte("[]")
				}
				if len(want) == 0 {
					wb = []byte("[]")
				}
				if string(gb) != string(wb) {
					drift(si, fmt.Sprintf("scan(%s) returned %s, model predicted %s", s.X, gb, wb))
				}
			case "set":
				vh.Must(txs[s.T].Set([]byte(s.K), nil, []byte(fmt.Sprintf("rw-%d", s.T))), "rw Set")
				writes[s.T] = append(writes[s.T], s.K)
			case "commit":
				hdr, err := txs[s.T].Commit(ctx)
				ok := err == nil
				if err != nil && !errors.Is(err, store.ErrTxReadConflict) {
					res.Violate("mvcc:commit:unexpected-error", fmt.Sprintf("commit returned %v in %v", err, opsOf(b.Ops[:si+1])), map[string]interface{}{"behaviour": b.Ops[:si+1]})
					break
				}
				if ok {
					committed = hdr.ID
					r := reads[s.T]
					if r == nil {
						r = []interface{}{}
					}
					enc.Encode(map[string]interface{}{"ev": "Commit", "id": hdr.ID, "writes": writes[s.T], "reads": r, "stale": true})
					vh.Must(st.WaitForIndexingUpto(ctx, committed), "WaitForIndexingUpto")
					res.Count("rw-committed", 1)
				} else {
					res.Count("rw-conflict", 1)
				}
				if ok != s.Ok {
					drift(si, fmt.Sprintf("commit outcome real=%v model(code as transcribed)=%v", ok, s.Ok))
				}
			default:
				vh.Fatalf("unknown op %q", s.Op)
			}
		}
		for _, tx := range txs {
			if !tx.Closed() {
				tx.Cancel()
			}
		}
		st.Close()
		os.RemoveAll(d)
	}
	res.Distinct += len(bf.Behaviours)
	if len(bf.Behaviours) > 0 {
		res.Sample(map[string]interface{}{"behaviour": opsOf(bf.Behaviours[0].Ops)}, 4)
	}
}

func writesIn(ws []string, x string) []string {
	out := []string{}
	for _, w := range ws {
		if w[:1] == x {
			out = append(out, w)
		}
	}
	return out
}

func opsOf(ops []step) []string {
	out := make([]string, len(ops))
	for i, s := range ops {
		switch s.Op {
		case "wocommit":
			out[i] = fmt.Sprintf("wocommit(%s)=%d", s.K, s.Id)
		case "flush":
			out[i] = "flush(" + s.X + ")"
		case "begin":
			out[i] = fmt.Sprintf("begin(t%d,stale=%v)", s.T, s.Stale)
		case "get":
			out[i] = fmt.Sprintf("get(t%d,%s)=%s", s.T, s.K, s.Res)
		case "scan":
			out[i] = fmt.Sprintf("scan(t%d,%s)=%s", s.T, s.X, s.Res)
		case "set":
			out[i] = fmt.Sprintf("set(t%d,%s)", s.T, s.K)
		case "commit":
			out[i] = fmt.Sprintf("commit(t%d)ok=%v", s.T, s.Ok)
		}
	}
	return out
}

// ---- free-running concurrent transactions, logged for TraceMVCC.tla
func concurrent(enc *json.Encoder, dir string, seed int64, runs int, res *vh.Result) {
	keys := []string{"a1", "a2", "b1"}
	for run := 0; run < runs; run++ {
		d := filepath.Join(dir, fmt.Sprintf("c%d", run))
		// every third run on a synced store: validation happens while other transactions are pre-committed but not yet committed
		var st *store.ImmuStore
		if run%3 == 2 {
			st = openStoreSynced(d, []time.Duration{5 * time.Millisecond, 20 * time.Millisecond}[(run/3)%2])
			res.Count("concurrent-runs-on-a-synced-store", 1)
		} else {
			st = openStore(d)
		}
		ctx := context.Background()
		var mu sync.Mutex
		var events []map[string]interface{}
		logEv := func(e map[string]interface{}) { mu.Lock(); events = append(events, e); mu.Unlock() }
		var wg sync.WaitGroup
		nw := 3 + run%3
		for w := 0; w < nw; w++ {
			wg.Add(1)
			go func(w int) {
				defer wg.Done()
				rng := rand.New(rand.NewSource(seed*7919 + int64(run)*101 + int64(w)))
				for i := 0; i < 6; i++ {
					if rng.Intn(4) == 0 { // write-only committer
						tx, _ := st.NewWriteOnlyTx(ctx)
						k := keys[rng.Intn(3)]
						tx.Set([]byte(k), nil, []byte("wo"))
						hdr, err := tx.Commit(ctx)
						if err == nil {
							logEv(map[string]interface{}{"ev": "Commit", "id": hdr.ID, "writes": []string{k}, "reads": []interface{}{}})
						}
						continue
					}
					stale := rng.Intn(2) == 0
					tx, err := st.NewTx(ctx, txOpts(stale))
					if err != nil {
						continue
					}
					var reads []interface{}
					var writes []string
					wrote := map[string]bool{}
					nops := 2 + rng.Intn(3)
					failed := false
					// every fourth read-write transaction reads through range fingerprints only (MarkPrefixScanned, what the SQL
					// engine uses for scanned ranges): its read-set holds nothing else
					fpOnly := rng.Intn(4) == 0
					for o := 0; o < nops && !failed; o++ {
						k := keys[rng.Intn(3)]
						op := rng.Intn(3)
						if fpOnly && op != 2 {
							op = 3
						}
						switch op {
						case 3:
							x := k[:1]
							if err := tx.MarkPrefixScanned(ctx, store.KeyReaderSpec{Prefix: []byte(x)}); err != nil {
								failed = true
								break
							}
							// the snapshot the fingerprint was taken on is not newer than this
							reads = append(reads, map[string]interface{}{"kind": "fp", "x": x, "hi": st.LastCommittedTxID()})
							res.Count("fingerprint-reads", 1)
							time.Sleep(time.Duration(200+rng.Intn(800)) * time.Microsecond)
						case 0:
							if !wrote[k] {
								ref, err := tx.Get(ctx, []byte(k))
								if errors.Is(err, store.ErrKeyNotFound) {
									reads = append(reads, map[string]interface{}{"kind": "get", "k": k, "e": 0})
								} else if err == nil {
									reads = append(reads, map[string]interface{}{"kind": "get", "k": k, "e": ref.Tx()})
								} else {
									failed = true
								}
							}
						case 1:
							x := k[:1]
							es, err := scan(ctx, tx, x)
							if err != nil {
								failed = true
								break
							}
							var nonOwn [][2]interface{}
							own := []string{}
							for _, e := range es {
								if e[1].(uint64) == 0 {
									own = append(own, e[0].(string))
								} else {
									nonOwn = append(nonOwn, e)
								}
							}
							if nonOwn == nil {
								nonOwn = [][2]interface{}{}
							}
							reads = append(reads, map[string]interface{}{"kind": "scan", "x": x, "es": nonOwn, "own": own})
							_ = own
						case 2:
							if !wrote[k] {
								tx.Set([]byte(k), nil, []byte(fmt.Sprintf("w%d", w)))
								wrote[k] = true
								writes = append(writes, k)
							}
						}
						if rng.Intn(3) == 0 {
							time.Sleep(time.Duration(rng.Intn(300)) * time.Microsecond)
						}
					}
					if failed || len(writes) == 0 {
						tx.Cancel()
						continue
					}
					hdr, err := tx.Commit(ctx)
					if err == nil {
						if reads == nil {
							reads = []interface{}{}
						}
						logEv(map[string]interface{}{"ev": "Commit", "id": hdr.ID, "writes": writes, "reads": reads, "stale": stale})
						res.Count("rw-committed", 1)
						if fpOnly && len(reads) > 0 {
							res.Count("rw-committed-with-fingerprint-reads-only", 1)
						}
					} else if errors.Is(err, store.ErrTxReadConflict) {
						res.Count("rw-conflict", 1)
					} else {
						res.Count("rw-other-error", 1)
					}
				}
			}(w)
		}
		// the reusable flushed roots move at random moments
		stop := make(chan struct{})
		var fwg sync.WaitGroup
		fwg.Add(1)
		go func() {
			defer fwg.Done()
			rng := rand.New(rand.NewSource(seed + int64(run)))
			for {
				select {
				case <-stop:
					return
				default:
				}
				x := []string{"a", "b"}[rng.Intn(2)]
				if snap, err := st.SnapshotMustIncludeTxID(ctx, []byte(x), 0); err == nil {
					snap.Close()
				}
				if rng.Intn(3) == 0 {
					if snap, err := st.SnapshotMustIncludeTxID(ctx, []byte(x), st.LastCommittedTxID()); err == nil {
						snap.Close()
					}
				}
				time.Sleep(time.Duration(100+rng.Intn(900)) * time.Microsecond)
			}
		}()
		wg.Wait()
		close(stop)
		fwg.Wait()
		st.Close()
		os.RemoveAll(d)
		// commits ordered by id; ids must be dense
		n := len(events)
		byID := make([]map[string]interface{}, n+1)
		for _, e := range events {
			id := int(e["id"].(uint64))
			if id < 1 || id > n || byID[id] != nil {
				vh.Fatalf("commit ids are not dense: %d of %d", id, n)
			}
			byID[id] = e
		}
		enc.Encode(map[string]interface{}{"ev": "Reset", "run": run})
		for id := 1; id <= n; id++ {
			enc.Encode(byID[id])
		}
		res.Traces++
		res.Evaluations += n
		if run == 0 && n > 2 {
			res.Sample(map[string]interface{}{"concurrent_run_commits": []interface{}{byID[1], byID[2], byID[n]}}, 4)
		}
	}
}

func main() {
	beh := flag.String("behaviours", "", "JSON file with MVCC.tla behaviours")
	trace := flag.String("trace", "", "output ndjson for the concurrent driver")
	runs := flag.Int("runs", 10, "concurrent runs")
	seed := flag.Int64("seed", 1, "seed")
	dir := flag.String("dir", "", "scratch dir")
	flag.Parse()
	res := vh.NewResult()
	os.RemoveAll(*dir)
	os.MkdirAll(*dir, 0755)
	out, err := os.Create(*trace)
	vh.Must(err, "create trace")
	defer out.Close()
	enc := json.NewEncoder(out)
	if *beh != "" {
		replay(*beh, *dir, enc, res)
	}
	if *runs > 0 {
		concurrent(enc, *dir, *seed, *runs, res)
		res.Distinct += *runs
	}
	res.Emit()
}
