package main

import (
	"crypto/sha256"
	"fmt"
	"os"
	"os/exec"
	"path/filepath"

	"github.com/codenotary/immudb/embedded/ahtree"

	"verifharness/vh"
)

// behaviours printed by TLC from spec/AHT.tla
type ahtStep struct {
	Op     string
	A      int
	Leaves []int // implementation-shaped model (code as transcribed)
	Ideal  []int // abstract persistent log (what the property states)
	Ok     bool  // model: tree is the Merkle tree of its own leaves after the step
}
type ahtBehaviour struct {
	Ops []ahtStep
}
type ahtFile struct {
	SyncThld   int
	Behaviours []ahtBehaviour
}

// refRoot computes MTH over payload digests with the split rule of RFC 6962 (independent of the tree under test).
func refRoot(leaves [][sha256.Size]byte) [sha256.Size]byte {
	if len(leaves) == 1 {
		return leaves[0]
	}
	k := 1
	for 2*k < len(leaves) {
		k *= 2
	}
	l, r := refRoot(leaves[:k]), refRoot(leaves[k:])
	b := append([]byte{ahtree.NodePrefix}, l[:]...)
	b = append(b, r[:]...)
	return sha256.Sum256(b)
}

type ahtCfg struct {
	name               string
	fileSize, wbuf, sl int
	deterministic      bool // real flush timing equals the model without FlushSome
}

func runAHT(path string, seed int64, dir string, res *vh.Result) {
	var af ahtFile
	vh.ReadJSON(path, &af)
	cfgs := []ahtCfg{{"default", 1 << 20, 4096, 100, true}, {"tinyfiles-cache1", 160, 64, 1, false}}
	payload := func(a int) []byte { return vh.Bytes(seed, "payload", a, 32) }
	atomOf := map[string]int{}
	for a := 0; a < 64; a++ {
		atomOf[string(payload(a))] = a
	}
	for bi, b := range af.Behaviours {
		for ci, g := range cfgs {
			p := filepath.Join(dir, fmt.Sprintf("b%d_%d", bi, ci))
			gen := 0
			opts := ahtree.DefaultOptions().WithFileSize(g.fileSize).WithSyncThld(af.SyncThld).WithWriteBufferSize(g.wbuf).
				WithDataCacheSlots(g.sl).WithDigestsCacheSlots(g.sl)
			t, err := ahtree.Open(p, opts)
			vh.Must(err, "ahtree.Open")
			var old []*ahtree.AHtree
			res.Traces++
			stop := false
			for si, st := range b.Ops {
				if stop {
					break
				}
				var opErr error
				switch st.Op {
				case "append":
					_, _, opErr = t.Append(payload(st.A))
				case "sync":
					opErr = t.Sync()
				case "reset":
					opErr = t.ResetSize(uint64(st.A))
				case "flush":
					// the appendable's buffers cannot be flushed through the tree's API: no-op on the real tree
				case "reopen":
					opErr = t.Close()
					if opErr == nil {
						t, opErr = ahtree.Open(p, opts)
					}
				case "kill":
					gen++
					np := fmt.Sprintf("%s.k%d", p, gen)
					vh.Must(exec.Command("cp", "-r", p, np).Run(), "cp")
					old = append(old, t)
					p = np
					t, opErr = ahtree.Open(p, opts)
				default:
					vh.Fatalf("unknown op %q", st.Op)
				}
				res.Evaluations++
				ctx := map[string]interface{}{"behaviour": b.Ops[:si+1], "cfg": g.name, "syncThld": af.SyncThld, "step": si}
				if opErr != nil {
					res.Violate("ahtree."+st.Op+":error", fmt.Sprintf("cfg %s step %d %s(%d): %v", g.name, si, st.Op, st.A, opErr), ctx)
					break
				}
				// project the real state.  DataAt forces a sync of the tree, so it is used only after steps that
				// leave the tree synced anyway; after an append the projection is Size() plus RootAt(k) for all k,
				// which identifies the leaves under the collision-freeness assumption.
				n := int(t.Size())
				if st.Op == "append" || st.Op == "flush" {
					match := func(atoms []int) bool {
						if len(atoms) != n {
							return false
						}
						ds := make([][sha256.Size]byte, n)
						for k, a := range atoms {
							ds[k] = sha256.Sum256(append([]byte{ahtree.LeafPrefix}, payload(a)...))
						}
						for k := 1; k <= n; k++ {
							r, err := t.RootAt(uint64(k))
							if err != nil || r != refRoot(ds[:k]) {
								return false
							}
						}
						return true
					}
					if !match(st.Ideal) {
						if g.deterministic && match(st.Leaves) {
							res.Violate("ahtree:restart-after-reset-size:rolled-back-leaves-reappear", fmt.Sprintf("cfg %s: after %v the tree holds %v, the abstract log holds %v", g.name, opsOf(b.Ops[:si+1]), st.Leaves, st.Ideal), ctx)
						} else if !st.Ok || (hasResetBefore(b.Ops[:si+1]) && hasRestart(b.Ops[:si+1])) {
							res.Violate("ahtree:restart-after-reset-size:stale-digests", fmt.Sprintf("cfg %s: after %v roots disagree with the abstract log %v", g.name, opsOf(b.Ops[:si+1]), st.Ideal), ctx)
						} else if !g.deterministic && hasKill(b.Ops[:si+1]) {
							res.Count("kill-nondeterministic-skipped", 1)
						} else {
							res.Violate("ahtree:"+st.Op+":content-differs-from-abstract-log", fmt.Sprintf("cfg %s: after %v Size()=%d and roots do not match the abstract log %v (code model %v)", g.name, opsOf(b.Ops[:si+1]), n, st.Ideal, st.Leaves), ctx)
						}
						stop = true
					}
					continue
				}
				real := make([]int, n)
				digs := make([][sha256.Size]byte, n)
				for k := 1; k <= n; k++ {
					d, err := t.DataAt(uint64(k))
					if err != nil {
						res.Violate("ahtree.DataAt:error", fmt.Sprintf("cfg %s step %d DataAt(%d): %v", g.name, si, k, err), ctx)
						stop = true
						break
					}
					a, ok := atomOf[string(d)]
					if !ok {
						a = -1
					}
					real[k-1] = a
					digs[k-1] = sha256.Sum256(append([]byte{ahtree.LeafPrefix}, d...))
				}
				if stop {
					break
				}
				// (1) the tree is the Merkle tree of its own leaves, for every size up to Size()
				consistent := true
				for k := 1; k <= n && consistent; k++ {
					r, err := t.RootAt(uint64(k))
					if err != nil || r != refRoot(digs[:k]) {
						consistent = false
						break
					}
					ip, err := t.InclusionProof(uint64(k), uint64(n))
					rn, _ := t.RootAt(uint64(n))
					if err != nil || !ahtree.VerifyInclusion(ip, uint64(k), uint64(n), digs[k-1], rn) {
						consistent = false
					}
				}
				if !consistent {
					if !st.Ok && g.deterministic {
						res.Violate("ahtree:restart-after-reset-size:stale-digests", fmt.Sprintf("cfg %s: after %v the tree reports %d leaves whose roots/proofs are not the Merkle tree of its own payloads (digests of rolled-back leaves survive in the files)", g.name, opsOf(b.Ops[:si+1]), n), ctx)
					} else if hasResetBefore(b.Ops[:si+1]) && hasRestart(b.Ops[:si+1]) {
						res.Violate("ahtree:restart-after-reset-size:stale-digests", fmt.Sprintf("cfg %s: after %v roots/proofs disagree with the tree's own payloads", g.name, opsOf(b.Ops[:si+1])), ctx)
					} else {
						res.Violate("ahtree:"+st.Op+":roots-or-proofs-disagree-with-payloads", fmt.Sprintf("cfg %s: after %v RootAt/InclusionProof disagree with the Merkle tree of DataAt(1..%d)", g.name, opsOf(b.Ops[:si+1]), n), ctx)
					}
					stop = true
					continue
				}
				// (2) refinement: the tree holds the abstract log
				if !eqInts(real, st.Ideal) {
					if g.deterministic && eqInts(real, st.Leaves) {
						// deviation from the abstract log that the transcribed code model predicts: rolled-back leaves come back
						res.Violate("ahtree:restart-after-reset-size:rolled-back-leaves-reappear", fmt.Sprintf("cfg %s: after %v the tree holds %v, the abstract log holds %v", g.name, opsOf(b.Ops[:si+1]), real, st.Ideal), ctx)
					} else if !g.deterministic && hasResetBefore(b.Ops[:si+1]) && hasRestart(b.Ops[:si+1]) && isExtensionOf(real, st.Ideal) {
						res.Violate("ahtree:restart-after-reset-size:rolled-back-leaves-reappear", fmt.Sprintf("cfg %s: after %v the tree holds %v, the abstract log holds %v", g.name, opsOf(b.Ops[:si+1]), real, st.Ideal), ctx)
					} else if !g.deterministic && st.Op == "kill" || (!g.deterministic && hasKill(b.Ops[:si+1])) {
						// flush timing differs from the model in this configuration class: only durability is required
						res.Count("kill-nondeterministic-skipped", 1)
					} else {
						res.Violate("ahtree:"+st.Op+":content-differs-from-abstract-log", fmt.Sprintf("cfg %s: after %v the tree holds %v, abstract log %v, code model %v", g.name, opsOf(b.Ops[:si+1]), real, st.Ideal, st.Leaves), ctx)
					}
					stop = true
					continue
				}
				if g.deterministic && !eqInts(real, st.Leaves) {
					res.DriftNote(fmt.Sprintf("AHT code model predicts %v, real tree holds %v after %v", st.Leaves, real, opsOf(b.Ops[:si+1])))
				}
			}
			t.Close()
			for _, o := range old {
				o.Close()
			}
			matches, _ := filepath.Glob(filepath.Join(dir, fmt.Sprintf("b%d_%d*", bi, ci)))
			for _, m := range matches {
				os.RemoveAll(m)
			}
		}
	}
	res.Distinct += len(af.Behaviours)
	if len(af.Behaviours) > 0 {
		res.Sample(map[string]interface{}{"aht_behaviour": opsOf(af.Behaviours[0].Ops)}, 6)
	}
}

func opsOf(s []ahtStep) []string {
	out := make([]string, len(s))
	for i, x := range s {
		if x.Op == "append" || x.Op == "reset" {
			out[i] = fmt.Sprintf("%s(%d)", x.Op, x.A)
		} else {
			out[i] = x.Op
		}
	}
	return out
}
func hasResetBefore(s []ahtStep) bool {
	for _, x := range s {
		if x.Op == "reset" {
			return true
		}
	}
	return false
}
func hasRestart(s []ahtStep) bool {
	for _, x := range s {
		if x.Op == "reopen" || x.Op == "kill" {
			return true
		}
	}
	return false
}
func hasKill(s []ahtStep) bool {
	for _, x := range s {
		if x.Op == "kill" {
			return true
		}
	}
	return false
}
func eqInts(a, b []int) bool {
	if len(a) != len(b) {
		return false
	}
	for i := range a {
		if a[i] != b[i] {
			return false
		}
	}
	return true
}
func isExtensionOf(a, pre []int) bool { return len(a) >= len(pre) && eqInts(a[:len(pre)], pre) }
