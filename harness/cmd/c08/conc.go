package main

// Concurrent probe (-conc): proof generation racing with ResetSize + re-append of different payloads.  The operations of
// AHT.tla are atomic; for the real tree that means: a proof returned by InclusionProof / ConsistencyProof is the proof of
// ONE of the tree states that existed between the call and its return.  The race is forced: the digest log is opened through
// WithAppFactory and wrapped; at the second digest read of a proof call a goroutine rolls the tree back and re-appends other
// payloads, and the read waits a few milliseconds for it (with the tree lock held by the proof, as it must be, the mutator
// simply runs after the proof; with the lock not covering the walk it runs inside it).

import (
	"crypto/sha256"
	"fmt"
	"os"
	"path/filepath"
	"sync"
	"sync/atomic"
	"time"

	"github.com/codenotary/immudb/embedded/ahtree"
	"github.com/codenotary/immudb/embedded/appendable"
	"github.com/codenotary/immudb/embedded/appendable/multiapp"

	"verifharness/vh"
)

type pausingApp struct {
	appendable.Appendable
	onRead func()
}

func (p *pausingApp) ReadAt(bs []byte, off int64) (int, error) {
	if p.onRead != nil {
		p.onRead()
	}
	return p.Appendable.ReadAt(bs, off)
}

func leafOf(payload []byte) [sha256.Size]byte {
	return sha256.Sum256(append([]byte{ahtree.LeafPrefix}, payload...))
}

func runConc(seed int64, dir string, rounds int, res *vh.Result) {
	os.RemoveAll(dir)
	vh.Must(os.MkdirAll(dir, 0755), "mkdir")
	var armed int32
	var reads int32
	var mutate func()
	var mwg sync.WaitGroup
	wrap := &pausingApp{}
	wrap.onRead = func() {
		if atomic.LoadInt32(&armed) == 0 {
			return
		}
		if atomic.AddInt32(&reads, 1) != 2 {
			return
		}
		done := make(chan struct{})
		mwg.Add(1)
		go func() {
			defer mwg.Done()
			mutate()
			close(done)
		}()
		select {
		case <-done:
		case <-time.After(3 * time.Millisecond):
		}
	}
	opts := ahtree.DefaultOptions().WithDigestsCacheSlots(1).WithDataCacheSlots(1).WithSyncThld(1 << 20).
		WithAppFactory(func(rootPath, subPath string, o *multiapp.Options) (appendable.Appendable, error) {
			a, err := multiapp.Open(filepath.Join(rootPath, subPath), o)
			if err != nil {
				return nil, err
			}
			if subPath == "tree" {
				wrap.Appendable = a
				return wrap, nil
			}
			return a, nil
		})
	t, err := ahtree.Open(filepath.Join(dir, "aht"), opts)
	vh.Must(err, "ahtree.Open")
	defer t.Close()
	const L = 24
	gen := 0
	payload := func(k, g int) []byte { return vh.Bytes(seed, "conc-payload", k*1000+g, 32) }
	cur := make([][sha256.Size]byte, 0, L) // leaf digests of the current tree
	for k := 1; k <= L; k++ {
		_, _, err := t.Append(payload(k, gen))
		vh.Must(err, "append")
		cur = append(cur, leafOf(payload(k, gen)))
	}
	for r := 0; r < rounds; r++ {
		// proof request (i, j) and the roll-back point; the mutation rewrites leaves from `back`+1 on
		j := 8 + (r*7)%(L-7)
		i := 1 + (r*5)%j
		back := (r * 3) % j
		before := append([][sha256.Size]byte(nil), cur...)
		gen++
		g := gen
		after := append([][sha256.Size]byte(nil), cur[:back]...)
		for k := back + 1; k <= L; k++ {
			after = append(after, leafOf(payload(k, g)))
		}
		mutate = func() {
			if err := t.ResetSize(uint64(back)); err != nil {
				return
			}
			for k := back + 1; k <= L; k++ {
				t.Append(payload(k, g))
			}
		}
		atomic.StoreInt32(&reads, 0)
		atomic.StoreInt32(&armed, 1)
		kind := "inclusion"
		var proof [][sha256.Size]byte
		var perr error
		if r%2 == 0 {
			proof, perr = t.InclusionProof(uint64(i), uint64(j))
		} else {
			kind = "consistency"
			proof, perr = t.ConsistencyProof(uint64(i), uint64(j))
		}
		atomic.StoreInt32(&armed, 0)
		fired := atomic.LoadInt32(&reads) >= 2
		if !fired {
			// the walk did not read the digest log twice: run the mutation now so that every round changes the tree
			mutate()
		}
		mwg.Wait()
		cur = after
		res.Evaluations++
		res.Count("conc:"+kind, 1)
		if fired {
			res.Count("conc:mutation-started-inside-the-proof-call", 1)
		}
		if perr != nil {
			res.Count("conc:proof-error", 1)
			continue
		}
		ok := false
		for _, leaves := range [][][sha256.Size]byte{before, after} {
			if kind == "inclusion" {
				ok = ok || ahtree.VerifyInclusion(proof, uint64(i), uint64(j), leaves[i-1], refRoot(leaves[:j]))
			} else {
				ok = ok || ahtree.VerifyConsistency(proof, uint64(i), uint64(j), refRoot(leaves[:i]), refRoot(leaves[:j]))
			}
		}
		if !ok {
			res.Violate("ahtree."+map[string]string{"inclusion": "InclusionProof", "consistency": "ConsistencyProof"}[kind]+":concurrent-with-ResetSize-and-Append:proof-of-no-tree-state",
				fmt.Sprintf("%s proof (%d,%d) generated while the tree was rolled back to %d and re-appended verifies neither against the tree before nor against the tree after", kind, i, j, back),
				map[string]interface{}{"kind": kind, "i": i, "j": j, "rollback_to": back, "leaves": L, "round": r, "how": "harness/cmd/c08 -conc: digest log wrapped through WithAppFactory; mutation started at the second digest read of the proof call"})
		}
	}
	res.Distinct += rounds
	res.Traces++
}
