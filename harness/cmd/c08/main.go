// c08: replays the TLC-enumerated hash-tree cases (spec/MerkleCases.tla) on the real
// embedded/ahtree and embedded/htree code.
package main

import (
	"crypto/sha256"
	"flag"
	"fmt"
	"os"
	"path/filepath"

	"github.com/codenotary/immudb/embedded/ahtree"
	"github.com/codenotary/immudb/embedded/htree"

	"verifharness/vh"
)

type desc [3]int // lo, hi, v  (lo = 0: junk number hi)

type proofRec struct {
	I, J, X, W int
	P          []desc
}

type caseRec struct {
	Cls     string
	P       []desc
	I, J    int
	X, W    int
	Leaf    desc
	Root    desc
	Iroot   desc
	Jroot   desc
	Go      bool
	Rfc     bool
	Szok    bool
	Allowed bool
}

type casesFile struct {
	N          int
	Shape      []int // Shape[k] = split of n = k+2
	Roots      []desc
	InclProofs []proofRec
	ConsProofs []proofRec
	HtProofs   []proofRec
	Incl       []caseRec
	Cons       []caseRec
	Last       []caseRec
	Ht         []caseRec
}

type ctx struct {
	seed  int64
	shape []int
	memo  map[desc][sha256.Size]byte
}

func (c *ctx) payload(atom int) []byte { return vh.Bytes(c.seed, "payload", atom, 32) }

func (c *ctx) atom(k, v int) int {
	if k == v {
		return 1000 + k
	}
	return k
}

// digest evaluates a symbolic descriptor to a real SHA-256 value, following the tree shape TLC printed.
func (c *ctx) digest(d desc) [sha256.Size]byte {
	if h, ok := c.memo[d]; ok {
		return h
	}
	var h [sha256.Size]byte
	switch {
	case d[0] == 0:
		copy(h[:], vh.Bytes(c.seed, "junk", d[1], 32))
	case d[0] == d[1]:
		b := append([]byte{ahtree.LeafPrefix}, c.payload(c.atom(d[0], d[2]))...)
		h = sha256.Sum256(b)
	default:
		k := c.shape[d[1]-d[0]+1-2]
		l := c.digest(desc{d[0], d[0] + k - 1, d[2]})
		r := c.digest(desc{d[0] + k, d[1], d[2]})
		b := make([]byte, 0, 65)
		b = append(b, ahtree.NodePrefix)
		b = append(b, l[:]...)
		b = append(b, r[:]...)
		h = sha256.Sum256(b)
	}
	c.memo[d] = h
	return h
}

func (c *ctx) digests(ds []desc) [][sha256.Size]byte {
	out := make([][sha256.Size]byte, len(ds))
	for i, d := range ds {
		out[i] = c.digest(d)
	}
	return out
}

func eq(a, b [][sha256.Size]byte) bool {
	if len(a) != len(b) {
		return false
	}
	for i := range a {
		if a[i] != b[i] {
			return false
		}
	}
	return true
}

func main() {
	casesPath := flag.String("cases", "", "JSON written by TLC from MerkleCases.tla")
	seed := flag.Int64("seed", 1, "seed")
	dir := flag.String("dir", "", "scratch directory")
	aht := flag.String("aht", "", "JSON file with AHT.tla behaviours (replay mode)")
	conc := flag.Int("conc", 0, "rounds of the concurrent probe (proof generation racing with ResetSize + Append)")
	flag.Parse()

	if *conc > 0 {
		res := vh.NewResult()
		runConc(*seed, *dir, *conc, res)
		res.Emit()
		return
	}

	if *aht != "" {
		res := vh.NewResult()
		runAHT(*aht, *seed, *dir, res)
		res.Emit()
		return
	}

	var cf casesFile
	vh.ReadJSON(*casesPath, &cf)
	res := vh.NewResult()
	c := &ctx{seed: *seed, shape: cf.Shape, memo: map[desc][sha256.Size]byte{}}

	// ---- generation: real trees under several configuration classes
	type cfg struct {
		name                 string
		fileSize, sync, slot int
	}
	cfgs := []cfg{{"default", 1 << 20, 100000, 1000}, {"tiny-files-sync1-cache1", 96, 1, 1}, {"files128-sync3-cache2", 128, 3, 2}}
	for ci, g := range cfgs {
		p := filepath.Join(*dir, fmt.Sprintf("aht%d", ci))
		opts := ahtree.DefaultOptions().WithFileSize(g.fileSize).WithSyncThld(g.sync).WithDataCacheSlots(g.slot).WithDigestsCacheSlots(g.slot)
		t, err := ahtree.Open(p, opts)
		vh.Must(err, "ahtree.Open")
		for n := 1; n <= cf.N; n++ {
			_, _, err := t.Append(c.payload(n))
			vh.Must(err, "ahtree.Append")
			// roots of every earlier size stay what they were (checked again after all appends)
			r, err := t.RootAt(uint64(n))
			vh.Must(err, "RootAt")
			res.Evaluations++
			if r != c.digest(cf.Roots[n-1]) {
				res.Violate("ahtree.RootAt:root-differs-from-reference", fmt.Sprintf("cfg %s: RootAt(%d) right after append differs from the reference MTH", g.name, n), map[string]interface{}{"cfg": g.name, "n": n})
			}
		}
		check := func(phase string) {
			for n := 1; n <= cf.N; n++ {
				r, err := t.RootAt(uint64(n))
				res.Evaluations++
				if err != nil || r != c.digest(cf.Roots[n-1]) {
					res.Violate("ahtree.RootAt:root-differs-from-reference", fmt.Sprintf("cfg %s %s: RootAt(%d) err=%v differs from reference MTH", g.name, phase, n, err), map[string]interface{}{"cfg": g.name, "n": n, "phase": phase})
				}
				d, err := t.DataAt(uint64(n))
				if err != nil || string(d) != string(c.payload(n)) {
					res.Violate("ahtree.DataAt:payload-differs", fmt.Sprintf("cfg %s %s: DataAt(%d) err=%v", g.name, phase, n, err), map[string]interface{}{"cfg": g.name, "n": n, "phase": phase})
				}
			}
			for _, pr := range cf.InclProofs {
				got, err := t.InclusionProof(uint64(pr.I), uint64(pr.J))
				res.Evaluations++
				if err != nil || !eq(got, c.digests(pr.P)) {
					res.Violate("ahtree.InclusionProof:differs-from-reference-path", fmt.Sprintf("cfg %s %s: InclusionProof(%d,%d) err=%v len=%d, reference path %v", g.name, phase, pr.I, pr.J, err, len(got), pr.P), map[string]interface{}{"cfg": g.name, "i": pr.I, "j": pr.J})
				}
			}
			for _, pr := range cf.ConsProofs {
				got, err := t.ConsistencyProof(uint64(pr.I), uint64(pr.J))
				res.Evaluations++
				if err != nil || !eq(got, c.digests(pr.P)) {
					res.Violate("ahtree.ConsistencyProof:differs-from-reference-path", fmt.Sprintf("cfg %s %s: ConsistencyProof(%d,%d) err=%v len=%d, reference %v", g.name, phase, pr.I, pr.J, err, len(got), pr.P), map[string]interface{}{"cfg": g.name, "i": pr.I, "j": pr.J})
				}
			}
		}
		check("live")
		vh.Must(t.Close(), "close")
		t, err = ahtree.Open(p, opts)
		vh.Must(err, "reopen")
		if int(t.Size()) != cf.N {
			res.Violate("ahtree.Open:size-after-reopen", fmt.Sprintf("cfg %s: size %d after reopen, want %d", g.name, t.Size(), cf.N), nil)
		}
		check("reopened")
		vh.Must(t.Close(), "close")
		os.RemoveAll(p)
	}

	// ---- htree generation
	for w := 1; w <= cf.N; w++ {
		ht, err := htree.New(cf.N)
		vh.Must(err, "htree.New")
		ds := make([][sha256.Size]byte, w)
		for k := 1; k <= w; k++ {
			copy(ds[k-1][:], c.payload(k))
		}
		vh.Must(ht.BuildWith(ds), "BuildWith")
		res.Evaluations++
		if ht.Root() != c.digest(desc{1, w, 0}) {
			res.Violate("htree.Root:root-differs-from-reference", fmt.Sprintf("width %d", w), map[string]interface{}{"w": w})
		}
		for _, pr := range cf.HtProofs {
			if pr.W != w {
				continue
			}
			got, err := ht.InclusionProof(pr.X)
			res.Evaluations++
			if err != nil || got.Leaf != pr.X || got.Width != w || !eq(got.Terms, c.digests(pr.P)) {
				res.Violate("htree.InclusionProof:differs-from-reference-path", fmt.Sprintf("InclusionProof(%d) width %d err=%v", pr.X, w, err), map[string]interface{}{"x": pr.X, "w": w})
			}
		}
	}

	// ---- verifiers
	verdict := func(fn string, cs caseRec, got bool) {
		res.Evaluations++
		res.Count("verify:"+fn+":"+cs.Cls, 1)
		if got != cs.Go {
			res.DriftNote(fmt.Sprintf("%s %s: real=%v transcription=%v case=%+v", fn, cs.Cls, got, cs.Go, cs))
		}
		if got && !cs.Allowed {
			res.Violate(fmt.Sprintf("%s:accepts-false-claim:%s:sizes-%s", fn, cs.Cls, map[bool]string{true: "right", false: "wrong"}[cs.Szok]),
				fmt.Sprintf("%s accepted a claim that is not a correct proof for the claimed positions/sizes/leaf/roots: %+v", fn, cs), cs)
		}
		if !got && cs.Cls == "honest" {
			res.Violate(fn+":rejects-honest-proof", fmt.Sprintf("%s rejected an honest proof: %+v", fn, cs), cs)
		}
		if got && cs.Allowed && cs.Cls != "honest" {
			res.Count("accepted-allowed-nonhonest", 1)
		}
	}
	for _, cs := range cf.Incl {
		verdict("ahtree.VerifyInclusion", cs, ahtree.VerifyInclusion(c.digests(cs.P), uint64(cs.I), uint64(cs.J), c.digest(cs.Leaf), c.digest(cs.Root)))
	}
	for _, cs := range cf.Cons {
		var got bool
		pn, hung, msg := vh.Guard(5e9, func() {
			got = ahtree.VerifyConsistency(c.digests(cs.P), uint64(cs.I), uint64(cs.J), c.digest(cs.Iroot), c.digest(cs.Jroot))
		})
		if pn || hung {
			res.Violate("ahtree.VerifyConsistency:panic-or-hang:"+cs.Cls, msg, cs)
			continue
		}
		verdict("ahtree.VerifyConsistency", cs, got)
	}
	for _, cs := range cf.Last {
		verdict("ahtree.VerifyLastInclusion", cs, ahtree.VerifyLastInclusion(c.digests(cs.P), uint64(cs.I), c.digest(cs.Leaf), c.digest(cs.Root)))
	}
	for _, cs := range cf.Ht {
		var leaf [sha256.Size]byte
		if cs.Leaf[0] != cs.Leaf[1] || cs.Leaf[0] == 0 {
			vh.Fatalf("htree case with non-leaf descriptor %v", cs.Leaf)
		}
		copy(leaf[:], c.payload(c.atom(cs.Leaf[0], cs.Leaf[2])))
		verdict("htree.VerifyInclusion", cs, htree.VerifyInclusion(&htree.InclusionProof{Leaf: cs.X, Width: cs.W, Terms: c.digests(cs.P)}, leaf, c.digest(cs.Root)))
	}
	res.Distinct = len(cf.Incl) + len(cf.Cons) + len(cf.Last) + len(cf.Ht) + len(cf.InclProofs) + len(cf.ConsProofs) + len(cf.HtProofs)
	if len(cf.Incl) > 0 {
		res.Sample(cf.Incl[0], 4)
		res.Sample(cf.Incl[len(cf.Incl)/2], 4)
		res.Sample(cf.Cons[len(cf.Cons)/2], 4)
		res.Sample(cf.Ht[len(cf.Ht)/2], 4)
	}
	res.Emit()
}
