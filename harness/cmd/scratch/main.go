package main

import (
	"context"
	"fmt"
	"os"

	"github.com/codenotary/immudb/embedded/logger"
	"github.com/codenotary/immudb/embedded/store"
)

func main() {
	dir, _ := os.MkdirTemp("/verif/.scratch", "scr")
	defer os.RemoveAll(dir)
	lg := logger.NewMemoryLoggerWithLevel(logger.LogError)
	po := store.DefaultOptions().WithSynced(false).WithLogger(lg)
	p, err := store.Open(dir+"/p", po)
	if err != nil {
		panic(err)
	}
	ro := store.DefaultOptions().WithSynced(true).WithExternalCommitAllowance(true).WithLogger(lg)
	r, err := store.Open(dir+"/r", ro)
	if err != nil {
		panic(err)
	}
	ctx := context.Background()
	for i := 0; i < 5; i++ {
		tx, _ := p.NewWriteOnlyTx(ctx)
		tx.Set([]byte(fmt.Sprintf("k%d", i)), nil, []byte("v"))
		tx.Commit(ctx)
	}
	txh := store.NewTx(8, 32)
	rep := func(id uint64) {
		b, err := p.ExportTx(id, true, false, txh)
		if err != nil {
			panic(err)
		}
		_, err = r.ReplicateTx(ctx, b, false, false)
		fmt.Println("replicate", id, err)
	}
	rep(1)
	rep(2)
	r.AllowCommitUpto(1)
	rep(3)
	n, err := r.DiscardPrecommittedTxsSince(2)
	fmt.Println("discard", n, err, "pre", r.LastPrecommittedTxID(), "comm", r.LastCommittedTxID())
	rep(2)
	rep(3)
	rep(4)
	p.Close()
	r.Close()
}
