package main

import (
	"context"
	"fmt"
	"os"
	"time"

	"github.com/codenotary/immudb/embedded/store"
)

func main() {
	dir := os.Args[1]
	o := store.DefaultOptions().WithSynced(true).WithSyncFrequency(time.Millisecond).WithMaxConcurrency(8).WithMaxTxEntries(4).WithMaxKeyLen(16).WithMaxValueLen(128)
	o.WithIndexOptions(o.IndexOpts.WithFlushThld(3).WithSyncThld(3).WithMaxNodeSize(512).WithFlushBufferSize(1 << 12).WithCacheSize(32))
	st, err := store.Open(dir, o)
	if err != nil {
		panic(err)
	}
	fmt.Println("pre", st.LastPrecommittedTxID(), "comm", st.LastCommittedTxID())
	ctx, c := context.WithTimeout(context.Background(), 2*time.Second)
	defer c()
	fmt.Println("wait", st.WaitForIndexingUpto(ctx, st.LastCommittedTxID()))
	st.Close()
}
