package main

import (
	"context"
	"fmt"
	"os"
	"time"

	"github.com/codenotary/immudb/embedded/store"
)

func main() {
	dir, _ := os.MkdirTemp("/verif/.scratch", "scr")
	defer os.RemoveAll(dir)
	o := store.DefaultOptions().WithSynced(false).WithExternalCommitAllowance(true).WithFileSize(1024).WithMaxActiveTransactions(8)
	st, err := store.Open(dir+"/st", o)
	if err != nil {
		panic(err)
	}
	commit := func(ctx context.Context, k string) {
		tx, _ := st.NewWriteOnlyTx(ctx)
		tx.Set([]byte(k), nil, []byte("value-"+k))
		_, err := tx.AsyncCommit(ctx)
		fmt.Println("commit", k, err)
	}
	ctx, cancel := context.WithCancel(context.Background())
	for i := 0; i < 3; i++ {
		go commit(ctx, fmt.Sprintf("a%d", i))
		time.Sleep(20 * time.Millisecond)
	}
	fmt.Println("pre", st.LastPrecommittedTxID(), "comm", st.LastCommittedTxID())
	n, err := st.DiscardPrecommittedTxsSince(2)
	fmt.Println("discard", n, err)
	cancel()
	time.Sleep(20 * time.Millisecond)
	fmt.Println(st.AllowCommitUpto(st.LastPrecommittedTxID()))
	fmt.Println("pre", st.LastPrecommittedTxID(), "comm", st.LastCommittedTxID())
	fmt.Println("close", st.Close())
	st, err = store.Open(dir+"/st", o)
	fmt.Println("open", err)
	if err == nil {
		fmt.Println("pre", st.LastPrecommittedTxID(), "comm", st.LastCommittedTxID())
		st.Close()
	}
}
