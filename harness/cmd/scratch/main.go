// scratch: debugging aid (not part of any check)
package main

import (
	"context"
	"fmt"
	"os"
	"runtime"
	"strings"
	"time"

	"github.com/codenotary/immudb/embedded/logger"
	"github.com/codenotary/immudb/embedded/store"
)

func countIndexers() int {
	buf := make([]byte, 1<<22)
	n := runtime.Stack(buf, true)
	return strings.Count(string(buf[:n]), "(*indexer).doIndexing(")
}

func main() {
	dir, _ := os.MkdirTemp("", "zombie")
	defer os.RemoveAll(dir)
	opts := store.DefaultOptions().WithSynced(false).WithLogger(logger.NewMemoryLoggerWithLevel(logger.LogError))
	opts.WithIndexOptions(opts.IndexOpts.WithCompactionThld(1))
	st, err := store.Open(dir, opts)
	if err != nil {
		panic(err)
	}
	defer st.Close()
	ctx := context.Background()
	stop := make(chan struct{})
	go func() {
		for i := 0; ; i++ {
			select {
			case <-stop:
				return
			default:
			}
			tx, _ := st.NewWriteOnlyTx(ctx)
			tx.Set([]byte(fmt.Sprintf("k%03d", i%50)), nil, []byte(fmt.Sprintf("v%d", i)))
			tx.AsyncCommit(ctx)
		}
	}()
	fmt.Println("indexer goroutines at start:", countIndexers())
	for c := 0; c < 6; c++ {
		time.Sleep(50 * time.Millisecond)
		st.FlushIndexes(100, true)
		err := st.CompactIndexes()
		time.Sleep(50 * time.Millisecond)
		fmt.Printf("after compaction %d (err=%v): indexer goroutines = %d\n", c+1, err, countIndexers())
	}
	close(stop)
}
