package main

import (
	"crypto/sha256"
	"fmt"
	"os"
	"time"

	"github.com/codenotary/immudb/embedded/ahtree"
	"github.com/codenotary/immudb/embedded/logger"
	"github.com/codenotary/immudb/embedded/store"
)

func refRoot(alhs [][sha256.Size]byte) [sha256.Size]byte {
	if len(alhs) == 1 {
		return sha256.Sum256(append([]byte{0}, alhs[0][:]...))
	}
	k := 1
	for 2*k < len(alhs) {
		k *= 2
	}
	l, r := refRoot(alhs[:k]), refRoot(alhs[k:])
	b := append([]byte{1}, l[:]...)
	b = append(b, r[:]...)
	return sha256.Sum256(b)
}

func dump(dir string) {
	t, err := ahtree.Open(dir+"/aht", ahtree.DefaultOptions().WithSyncThld(3).WithReadOnly(true))
	fmt.Println("aht open", err)
	if err != nil {
		return
	}
	var ls [][sha256.Size]byte
	for n := uint64(1); n <= t.Size(); n++ {
		d, _ := t.DataAt(n)
		var a [32]byte
		copy(a[:], d)
		ls = append(ls, a)
		r, _ := t.RootAt(n)
		fmt.Printf("leaf %d %x rootOk=%v\n", n, d[:4], r == refRoot(ls))
	}
	t.Close()
}

func main() {
	dir := os.Args[1]
	dump(dir)
	o := store.DefaultOptions().WithSynced(false).WithEmbeddedValues(true).WithSyncFrequency(time.Millisecond).WithMaxTxEntries(4).WithMaxKeyLen(16).WithMaxValueLen(128).WithLogger(logger.NewSimpleLogger("x", os.Stdout))
	o.WithAHTOptions(o.AHTOpts.WithWriteBufferSize(1 << 12).WithSyncThld(3))
	st, err := store.Open(dir, o)
	if err != nil {
		panic(err)
	}
	fmt.Println("committed", st.LastCommittedTxID(), "pre", st.LastPrecommittedTxID())
	for id := uint64(1); id <= st.LastPrecommittedTxID(); id++ {
		h, _ := st.ReadTxHeader(id, true, false)
		a := h.Alh()
		fmt.Printf("tx %d alh %x\n", id, a[:4])
	}
	st.Close()
	dump(dir)
}
