package main

import (
	"errors"
	"fmt"
	"os"
	"path/filepath"
	"strconv"
	"sync"
	"time"

	"github.com/codenotary/immudb/embedded/store"

	"verifharness/vh"
)

// one step of a behaviour of spec/Truncation.tla together with the abstract state after it
type op struct {
	Op   string `json:"op"`
	W    int    `json:"w"`
	K    int    `json:"k"`
	Lens []int  `json:"lens"`
	Offs []int  `json:"offs"`
	ID   int    `json:"id"`
	T    int    `json:"t"`
	N    int    `json:"n"`
	E    int    `json:"e"`
	Res  string `json:"res"`
	Dist int    `json:"dist"`
	Ctd  int    `json:"ctd"`
	Pre  int    `json:"pre"`
	Del  []int  `json:"del"`
	Sz   []int  `json:"sz"`
}

type schedule struct {
	Ops    []op    `json:"ops"`
	M      int     `json:"m"`
	F      int     `json:"f"`
	Split  bool    `json:"split"`
	Primed bool    `json:"primed"`
	Cut    int     `json:"cut"`
	Cuts   [][]int `json:"cuts"` // cuts[n-1][k-1]: first chunk of log k that exists after a further TruncateUptoTx(n)
	Origin string  `json:"origin"`
	MC     int     `json:"mc"` // MaxConcurrency of the store (0 = 16)
}

type schedFile struct {
	Schedules []schedule `json:"schedules"`
	Unit      int        `json:"unit"`
	Selftest  string     `json:"selftest"` // "value": the driver's copy of one committed value is altered (binding self-test)
}

type placement struct {
	k          int
	lens, offs []int
}

type runner struct {
	w        *world
	sc       schedule
	si       int
	parked   map[int]chan commitResult
	recs     map[int]*txRec
	gateIDs  map[int]string
	place    map[int]placement // by writer
	writerOf map[int]int       // id -> writer
	diverged bool
	findings []finding
}

func (r *runner) fault(format string, a ...interface{}) {
	vh.Fatalf("schedule %d (%s): %s\n%s", r.si, r.sc.Origin, fmt.Sprintf(format, a...), goroutineDump())
}

func (r *runner) loadHandles() {
	w := r.w
	w.handles = make([]*store.TxEntry, w.m)
	if !r.sc.Primed {
		return
	}
	for k := 1; k <= w.m; k++ {
		tx := store.NewTx(w.st.MaxTxEntries(), w.st.MaxKeyLen())
		if err := w.st.ReadTx(uint64(k), false, tx); err != nil {
			r.fault("read priming tx %d: %v", k, err)
		}
		e := tx.Entries()[0]
		if vl, _ := decodeOff(e.VOff()); vl != k {
			r.fault("priming tx %d went to value log %d", k, vl)
		}
		w.handles[k-1] = e
	}
}

// steer makes value log k the front of the store's list of unlocked value logs: reading a value of another
// log takes that log and puts it back at the end of the list.
func (r *runner) steer(k int) {
	w := r.w
	if w.m == 1 {
		return
	}
	for j := 1; j <= w.m; j++ {
		if j != k && w.handles[j-1] != nil {
			w.st.ReadValue(w.handles[j-1]) // the result does not matter (the value may have been truncated)
			w.res.Count("steering-read", 1)
		}
	}
}

func (r *runner) waitResult(wr int) commitResult {
	select {
	case cr := <-r.parked[wr]:
		delete(r.parked, wr)
		dropGate(r.gateIDs[wr])
		return cr
	case <-time.After(stepDeadline):
		r.fault("committer %d did not return", wr)
	}
	return commitResult{}
}

// committed: check id and placement of the tx against the model, remember it for the oracle
func (r *runner) committed(wr int, cr commitResult, wantID int) {
	w := r.w
	if cr.err != nil {
		r.fault("commit of writer %d failed: %v", wr, cr.err)
	}
	w.register(r.recs[wr], cr.hdr)
	if int(cr.hdr.ID) != wantID {
		w.res.DriftNote(fmt.Sprintf("schedule %d: writer %d got id %d, model %d", r.si, wr, cr.hdr.ID, wantID))
		r.diverged = true
		return
	}
	tx := store.NewTx(w.st.MaxTxEntries(), w.st.MaxKeyLen())
	if err := w.st.ReadTx(cr.hdr.ID, false, tx); err != nil {
		r.findings = append(r.findings, finding{sigHeader, fmt.Sprintf("ReadTx(%d) right after commit: %v", cr.hdr.ID, err), nil})
		return
	}
	p := r.place[wr]
	for e, ent := range tx.Entries() {
		vl, off := decodeOff(ent.VOff())
		if vl != p.k || off != int64(p.offs[e]*w.unit) {
			w.res.DriftNote(fmt.Sprintf("schedule %d: tx %d entry %d placed at log %d offset %d, model log %d offset %d units", r.si, cr.hdr.ID, e, vl, off, p.k, p.offs[e]))
			r.diverged = true
		}
	}
	w.res.Count("placement-compared", 1)
}

func (r *runner) compareChunks(what string, del []int) {
	w := r.w
	if r.diverged || len(del) != w.m {
		return
	}
	got := firstChunks(w.chunks())
	for k := 1; k <= w.m; k++ {
		if got[strconv.Itoa(k)] != del[k-1] {
			w.res.DriftNote(fmt.Sprintf("schedule %d %s: value log %d first chunk on disk %d, model %d", r.si, what, k, got[strconv.Itoa(k)], del[k-1]))
		}
	}
	w.res.Count("chunks-compared", 1)
}

func (r *runner) expectFrom(del []int) func(id uint64, e int) (bool, bool) {
	return func(id uint64, e int) (bool, bool) {
		wr, ok := r.writerOf[int(id)]
		if !ok || r.diverged || len(del) != r.w.m {
			return false, false
		}
		p := r.place[wr]
		if e >= len(p.lens) {
			return false, false
		}
		return p.lens[e] == 0 || p.offs[e]/r.w.f >= del[p.k-1], true
	}
}

// run executes the schedule; returns the findings (property violations observed on the real store)
func (r *runner) run(tryCuts bool, selftest string) []finding {
	w, sc := r.w, r.sc
	if err := w.open(); err != nil {
		r.fault("open: %v", err)
	}
	if sc.Primed {
		split := w.split
		if split {
			w.st.SetExternalCommitAllowance(false)
		}
		for k := 1; k <= w.m; k++ {
			rec, ch := w.startCommitter(k, []int{1}, "", false)
			cr := <-ch
			if cr.err != nil {
				r.fault("priming: %v", cr.err)
			}
			w.register(rec, cr.hdr)
			r.place[k] = placement{k, []int{1}, []int{0}}
			r.writerOf[k] = k
		}
		if split {
			w.st.SetExternalCommitAllowance(true)
		}
	}
	r.loadHandles()
	lastDel := make([]int, w.m)
	for oi, o := range sc.Ops {
		if w.hung {
			break
		}
		switch o.Op {
		case "append":
			r.steer(o.K)
			gid := fmt.Sprintf("s%d-%s-w%d", r.si, filepath.Base(w.dir), o.W)
			g := newGate(gid)
			r.gateIDs[o.W] = gid
			r.place[o.W] = placement{o.K, o.Lens, o.Offs}
			aborts := false // a committer whose commit fails under the store mutex carries a failing precondition
			for _, p := range sc.Ops[oi+1:] {
				if p.W == o.W && (p.Op == "abort" || p.Op == "precommit") {
					aborts = p.Op == "abort"
					break
				}
			}
			// a committer that was pre-committed a moment ago gives its tx holder back to the store's pool only after its id
			// became visible: with a small MaxConcurrency the next committer may find the pool empty; nothing was
			// appended in that case (the holder is taken first), so the committer is simply started again
			for dl := time.Now().Add(stepDeadline); ; {
				rec, ch := w.startCommitter(o.W, o.Lens, gid, aborts)
				r.recs[o.W], r.parked[o.W] = rec, ch
				again := false
				select {
				case <-g.arrived:
				case cr := <-ch:
					if errors.Is(cr.err, store.ErrMaxConcurrencyLimitExceeded) && time.Now().Before(dl) {
						again = true
						w.res.Count("append-retried:tx-pool-not-yet-released", 1)
						time.Sleep(500 * time.Microsecond)
						break
					}
					r.fault("committer %d returned before the ValuesAppended gate: %v", o.W, cr.err)
				case <-time.After(stepDeadline):
					r.fault("committer %d did not reach the ValuesAppended gate", o.W)
				}
				if !again {
					break
				}
			}
			w.res.Count("op:append(parked)", 1)
		case "precommit":
			gateMu.Lock()
			g := gates[r.gateIDs[o.W]]
			gateMu.Unlock()
			close(g.release)
			r.writerOf[o.ID] = o.W
			if !w.split {
				r.committed(o.W, r.waitResult(o.W), o.ID)
			} else {
				dl := time.Now().Add(stepDeadline)
				for w.st.LastPrecommittedTxID() < uint64(o.ID) {
					if time.Now().After(dl) {
						r.fault("writer %d was not pre-committed as tx %d", o.W, o.ID)
					}
					time.Sleep(200 * time.Microsecond)
				}
			}
			w.res.Count("op:precommit", 1)
		case "commit":
			if err := w.st.AllowCommitUpto(uint64(o.ID)); err != nil {
				r.fault("AllowCommitUpto(%d): %v", o.ID, err)
			}
			r.committed(o.W, r.waitResult(o.W), o.ID)
			w.res.Count("op:commit", 1)
		case "abort":
			gateMu.Lock()
			g := gates[r.gateIDs[o.W]]
			gateMu.Unlock()
			close(g.release)
			if cr := r.waitResult(o.W); cr.err == nil {
				r.fault("the commit of writer %d was expected to fail (precondition)", o.W)
			}
			w.res.Count("op:abort", 1)
		case "tbegin":
			hung, err := w.truncate(uint64(o.N))
			if hung {
				r.findings = append(r.findings, finding{"ImmuStore.TruncateUptoTx:blocked", fmt.Sprintf("TruncateUptoTx(%d) did not return within %v", o.N, hangDeadline),
					map[string]interface{}{"goroutines": goroutineDump()}})
			} else if err != nil {
				w.res.DriftNote(fmt.Sprintf("schedule %d: TruncateUptoTx(%d) = %v, model: succeeds", r.si, o.N, err))
				r.diverged = true
			} else if got := w.truncs[len(w.truncs)-1].Dist; got != o.Dist && !r.diverged {
				w.res.DriftNote(fmt.Sprintf("schedule %d step %d: farthest early-written tx %d ids past the cut %d, model %d", r.si, oi, got, o.N, o.Dist))
			}
		case "tback", "tsnap", "treadmax", "tfront", "twant":
			// the real call ran as one step at tbegin
		case "tdiscard":
			if o.Res == "done" {
				r.compareChunks(fmt.Sprintf("after TruncateUptoTx (step %d)", oi), o.Del)
			}
		case "xbegin":
			want := ""
			for _, p := range sc.Ops[oi+1:] {
				if p.E == o.E && p.Res != "" && (p.Op == "xend") {
					want = p.Res
					break
				}
			}
			got, msg := w.exportOnce(uint64(o.ID))
			if got == "blocked" {
				r.findings = append(r.findings, finding{sigExpHang, fmt.Sprintf("ExportTx(%d) did not return within %v", o.ID, hangDeadline),
					map[string]interface{}{"goroutines": msg, "tx": o.ID}})
			} else if want != "" && got != want && !r.diverged {
				w.res.DriftNote(fmt.Sprintf("schedule %d step %d: ExportTx(%d) = %s %s, model %s", r.si, oi, o.ID, got, msg, want))
			}
			w.res.Count("export-compared:"+want, 1)
		case "xlock", "xentry", "xend":
		case "restart":
			w.close()
			if w.hung {
				break
			}
			if err := w.open(); err != nil {
				r.findings = append(r.findings, finding{sigReopen, fmt.Sprintf("reopen at step %d: %v", oi, err), nil})
				return r.findings
			}
			r.loadHandles()
			w.res.Count("op:restart", 1)
		default:
			r.fault("unknown op %q", o.Op)
		}
		if len(o.Del) == w.m {
			lastDel = o.Del
		}
		// ids after every step
		if !w.hung && !r.diverged && o.Op != "tbegin" {
			if c, p := int(w.st.LastCommittedTxID()), int(w.st.LastPrecommittedTxID()); c != o.Ctd || p != o.Pre {
				w.res.DriftNote(fmt.Sprintf("schedule %d step %d %s: committed/precommitted %d/%d, model %d/%d", r.si, oi, o.Op, c, p, o.Ctd, o.Pre))
				r.diverged = true
			}
		}
		w.res.Count("steps", 1)
	}
	if len(r.parked) > 0 && !w.hung {
		r.fault("behaviour ends with parked committers")
	}
	if w.hung {
		return r.findings
	}
	if selftest == "value" {
		// binding self-test: alter the driver's copy of one committed value at or after the cut
		for id := w.st.LastCommittedTxID(); id >= 1; id-- {
			if rec := w.txs[id]; rec != nil && id >= w.cut && len(rec.vals) > 0 && len(rec.vals[0]) > 0 {
				rec.vals[0] = append([]byte{}, rec.vals[0]...)
				rec.vals[0][0] ^= 0xff
				break
			}
		}
	}
	r.findings = append(r.findings, w.validate("after-schedule", r.expectFrom(lastDel))...)
	if w.hung {
		return r.findings
	}
	w.close()
	if err := w.open(); err != nil {
		r.findings = append(r.findings, finding{sigReopen, fmt.Sprintf("reopen after the schedule: %v", err), nil})
		return r.findings
	}
	r.findings = append(r.findings, w.validate("after-schedule+reopen", r.expectFrom(lastDel))...)
	last := w.st.LastCommittedTxID()
	w.close()
	if !tryCuts || w.hung {
		return r.findings
	}
	// every cut point on a copy of the final store
	for n := uint64(1); n <= last; n++ {
		cdir := fmt.Sprintf("%s.cut%d", w.dir, n)
		copyDir(w.dir, cdir)
		c := &world{dir: cdir, m: w.m, f: w.f, unit: w.unit, seed: w.seed, cache: w.cache, txs: w.txs, cut: w.cut, res: w.res, split: false, mc: w.mc}
		c.truncs = append(c.truncs, w.truncs...)
		if err := c.open(); err != nil {
			r.findings = append(r.findings, finding{sigReopen, fmt.Sprintf("open copy for cut %d: %v", n, err), nil})
			continue
		}
		hung, err := c.truncate(n)
		var exp func(uint64, int) (bool, bool)
		if int(n) <= len(sc.Cuts) {
			exp = r.expectFrom(sc.Cuts[n-1])
		}
		switch {
		case hung:
			r.findings = append(r.findings, finding{"ImmuStore.TruncateUptoTx:blocked", fmt.Sprintf("cut %d: TruncateUptoTx did not return", n), map[string]interface{}{"goroutines": goroutineDump()}})
		case err != nil:
			w.res.DriftNote(fmt.Sprintf("schedule %d: cut %d: TruncateUptoTx = %v", r.si, n, err))
		default:
			if int(n) <= len(sc.Cuts) && !r.diverged {
				got := firstChunks(c.chunks())
				for k := 1; k <= w.m; k++ {
					if got[strconv.Itoa(k)] != sc.Cuts[n-1][k-1] {
						w.res.DriftNote(fmt.Sprintf("schedule %d cut %d: value log %d first chunk on disk %d, model %d", r.si, n, k, got[strconv.Itoa(k)], sc.Cuts[n-1][k-1]))
					}
				}
			}
			fs := c.validate(fmt.Sprintf("cut %d", n), exp)
			// truncating again at the same point changes nothing
			before := fmt.Sprint(c.chunks())
			if !c.hung {
				c.truncate(n)
				if after := fmt.Sprint(c.chunks()); after != before {
					fs = append(fs, finding{"ImmuStore.TruncateUptoTx:not-idempotent", fmt.Sprintf("cut %d: a second TruncateUptoTx(%d) changed the chunk files %s -> %s", n, n, before, after), nil})
				}
			}
			if !c.hung {
				c.close()
				if err := c.open(); err != nil {
					fs = append(fs, finding{sigReopen, fmt.Sprintf("cut %d: reopen: %v", n, err), nil})
				} else {
					fs = append(fs, c.validate(fmt.Sprintf("cut %d+reopen", n), exp)...)
				}
			}
			for i := range fs {
				if fs[i].extra == nil {
					fs[i].extra = map[string]interface{}{}
				}
				fs[i].extra["cutPoint"] = n
				fs[i].extra["truncations"] = c.truncs
			}
			r.findings = append(r.findings, fs...)
			w.res.Count("cut-points", 1)
		}
		c.close()
		if !c.hung {
			os.RemoveAll(cdir)
		}
	}
	return r.findings
}

func newRunner(si int, sc schedule, seed int64, unit int, dir string, res *vh.Result) *runner {
	w := &world{dir: dir, m: sc.M, f: sc.F, unit: unit, seed: seed, txs: map[uint64]*txRec{}, res: res, split: sc.Split, mc: sc.MC}
	return &runner{w: w, sc: sc, si: si, parked: map[int]chan commitResult{}, recs: map[int]*txRec{}, gateIDs: map[int]string{},
		place: map[int]placement{}, writerOf: map[int]int{}}
}

func runReplay(path string, seed int64, dir string, cutsEvery int, res *vh.Result) {
	var sf schedFile
	vh.ReadJSON(path, &sf)
	if sf.Unit == 0 {
		sf.Unit = 32
	}
	vh.Must(os.MkdirAll(dir, 0o755), "mkdir")
	var mu sync.Mutex
	jobs := make(chan int)
	var wg sync.WaitGroup
	workers := 6
	for i := 0; i < workers; i++ {
		wg.Add(1)
		go func() {
			defer wg.Done()
			for si := range jobs {
				sc := sf.Schedules[si]
				tryCuts := cutsEvery > 0 && si%cutsEvery == 0
				st := ""
				if si == 0 {
					st = sf.Selftest
				}
				r := newRunner(si, sc, seed, sf.Unit, filepath.Join(dir, fmt.Sprintf("s%d", si)), res)
				fs := r.run(tryCuts, st)
				if len(fs) > 0 {
					// flake guard: the schedule is executed once more on a fresh store; only what recurs is reported
					r2 := newRunner(si, sc, seed, sf.Unit, filepath.Join(dir, fmt.Sprintf("s%d.again", si)), res)
					again := map[string]bool{}
					for _, f := range r2.run(tryCuts, st) {
						again[f.sig] = true
					}
					for _, f := range fs {
						if !again[f.sig] {
							res.Count("unreproduced:"+f.sig, 1)
							continue
						}
						rp := map[string]interface{}{"origin": sc.Origin, "m": sc.M, "f": sc.F, "unitBytes": sf.Unit, "split": sc.Split, "primed": sc.Primed, "maxConcurrency": r.w.maxConc(),
							"seed": seed, "schedule": compact(sc.Ops), "truncations": r.w.truncs, "how": "harness/cmd/c14 -mode replay"}
						for k, v := range f.extra {
							rp[k] = v
						}
						res.Violate(f.sig, fmt.Sprintf("schedule %d (%s, %d value logs, chunk = %d values, MaxConcurrency %d): %s", si, sc.Origin, sc.M, sc.F, r.w.maxConc(), f.text), rp)
					}
					if !r2.w.hung {
						os.RemoveAll(r2.w.dir)
					}
				}
				mu.Lock()
				res.Traces++
				res.Distinct++
				mu.Unlock()
				if len(fs) == 0 && !r.w.hung {
					os.RemoveAll(r.w.dir)
				}
				res.Sample(map[string]interface{}{"schedule": si, "origin": sc.Origin, "ops": compact(sc.Ops), "findings": len(fs)}, 3)
			}
		}()
	}
	for si := range sf.Schedules {
		jobs <- si
	}
	close(jobs)
	wg.Wait()
}

// compact renders the steps of a schedule for replay files and samples
func compact(ops []op) []string {
	var out []string
	for _, o := range ops {
		switch o.Op {
		case "append":
			out = append(out, fmt.Sprintf("append(w%d -> log %d, lens %v, offs %v)", o.W, o.K, o.Lens, o.Offs))
		case "precommit":
			out = append(out, fmt.Sprintf("precommit(w%d = tx %d)", o.W, o.ID))
		case "commit":
			out = append(out, fmt.Sprintf("commit(tx %d)", o.ID))
		case "tbegin":
			out = append(out, fmt.Sprintf("TruncateUptoTx(%d)", o.N))
		case "tdiscard":
			out = append(out, fmt.Sprintf("  discard(log %d) -> first chunks %v", o.K, o.Del))
		case "treadmax":
			out = append(out, fmt.Sprintf("  walk bound = %d", o.ID))
		case "xbegin":
			out = append(out, fmt.Sprintf("ExportTx(%d)", o.ID))
		case "xend":
			out = append(out, fmt.Sprintf("  export result: %s", o.Res))
		case "restart", "abort":
			out = append(out, o.Op)
		}
	}
	return out
}
