package main

import "verifharness/vh"

func runDB(seed int64, dir string, runs int, res *vh.Result)   {}
func runFree(seed int64, dir string, runs int, res *vh.Result) {}
