package main

import (
	"bytes"
	"fmt"
	"math/rand"
	"os"
	"path/filepath"
	"runtime"
	"sync"
	"sync/atomic"
	"time"

	"github.com/codenotary/immudb/embedded/store"

	"verifharness/vh"
)

type readObs struct {
	id       uint64
	entry    int
	err      string
	wrong    bool
	cutAtEnd uint64 // largest n of any TruncateUptoTx(n) started before the read returned
	vlog     int
	off      int64
}

// runFree: free-running committers, readers, an exporter and a truncator on one store (no gates); everything
// the readers saw is validated afterwards against the committed values, then the whole store is validated,
// closed, reopened and validated again.
func runFree(seed int64, dir string, runs int, res *vh.Result) {
	vh.Must(os.MkdirAll(dir, 0o755), "mkdir")
	for r := 0; r < runs; r++ {
		rng := rand.New(rand.NewSource(seed*7919 + int64(r)))
		m := []int{2, 3, 1, 2}[r%4]
		f := 2 + rng.Intn(3)
		w := &world{dir: filepath.Join(dir, fmt.Sprintf("r%d", r)), m: m, f: f, unit: 32, seed: seed + int64(r)*1000, txs: map[uint64]*txRec{}, res: res}
		if r%2 == 1 {
			w.cache = 64 // value cache on
		}
		vh.Must(w.open(), "open")
		const writers, perWriter = 4, 14
		var wg, bg sync.WaitGroup
		var stop int32
		var cutStarted uint64
		var ids []uint64
		var idsMu sync.Mutex
		for g := 0; g < writers; g++ {
			wg.Add(1)
			go func(g int) {
				defer wg.Done()
				lr := rand.New(rand.NewSource(seed*31 + int64(r)*17 + int64(g)))
				for t := 0; t < perWriter; t++ {
					n := 1 + lr.Intn(3)
					lens := make([]int, n)
					for i := range lens {
						lens[i] = lr.Intn(4)
					}
					rec, ch := w.startCommitter(1000*(g+1)+t, lens, "", false)
					cr := <-ch
					if cr.err != nil {
						vh.Fatalf("free run: commit: %v", cr.err)
					}
					w.register(rec, cr.hdr)
					idsMu.Lock()
					ids = append(ids, cr.hdr.ID)
					idsMu.Unlock()
					if lr.Intn(3) == 0 {
						time.Sleep(time.Duration(lr.Intn(300)) * time.Microsecond)
					}
				}
			}(g)
		}
		var obs []readObs
		var obsMu sync.Mutex
		for g := 0; g < 2; g++ {
			bg.Add(1)
			go func(g int) {
				defer bg.Done()
				lr := rand.New(rand.NewSource(seed*131 + int64(r)*19 + int64(g)))
				tx := store.NewTx(w.st.MaxTxEntries(), w.st.MaxKeyLen())
				for atomic.LoadInt32(&stop) == 0 {
					idsMu.Lock()
					if len(ids) == 0 {
						idsMu.Unlock()
						runtime.Gosched()
						continue
					}
					id := ids[lr.Intn(len(ids))]
					idsMu.Unlock()
					if err := w.st.ReadTx(id, false, tx); err != nil {
						obsMu.Lock()
						obs = append(obs, readObs{id: id, entry: -1, err: err.Error(), cutAtEnd: atomic.LoadUint64(&cutStarted)})
						obsMu.Unlock()
						continue
					}
					w.mu.Lock()
					rec := w.txs[id]
					w.mu.Unlock()
					for e, ent := range tx.Entries() {
						got, err := w.st.ReadValue(ent)
						o := readObs{id: id, entry: e, cutAtEnd: atomic.LoadUint64(&cutStarted)}
						o.vlog, o.off = decodeOff(ent.VOff())
						if err != nil {
							o.err = err.Error()
						} else if !bytes.Equal(got, rec.vals[e]) {
							o.wrong = true
						}
						if o.err != "" || o.wrong {
							obsMu.Lock()
							obs = append(obs, o)
							obsMu.Unlock()
						}
						res.Count("free:reads", 1)
					}
				}
			}(g)
		}
		// exporter
		bg.Add(1)
		go func() {
			defer bg.Done()
			lr := rand.New(rand.NewSource(seed*977 + int64(r)))
			for atomic.LoadInt32(&stop) == 0 && !w.hung {
				idsMu.Lock()
				if len(ids) == 0 {
					idsMu.Unlock()
					runtime.Gosched()
					continue
				}
				id := ids[lr.Intn(len(ids))]
				idsMu.Unlock()
				if r, msg := w.exportOnce(id); r == "blocked" {
					res.Violate(sigExpHang, fmt.Sprintf("free run: ExportTx(%d) did not return within %v", id, hangDeadline), map[string]interface{}{"goroutines": msg})
				}
				time.Sleep(200 * time.Microsecond)
			}
		}()
		// truncator (one call at a time)
		bg.Add(1)
		go func() {
			defer bg.Done()
			lr := rand.New(rand.NewSource(seed*733 + int64(r)))
			for atomic.LoadInt32(&stop) == 0 && !w.hung {
				last := w.st.LastCommittedTxID()
				if last < 4 {
					runtime.Gosched()
					continue
				}
				n := last - uint64(lr.Intn(int(min64(last-1, 12))))
				for {
					c := atomic.LoadUint64(&cutStarted)
					if n <= c || atomic.CompareAndSwapUint64(&cutStarted, c, n) {
						break
					}
				}
				if hung, _ := w.truncate(n); hung {
					res.Violate("ImmuStore.TruncateUptoTx:blocked", fmt.Sprintf("free run: TruncateUptoTx(%d) did not return", n), map[string]interface{}{"goroutines": goroutineDump()})
					return
				}
				time.Sleep(time.Duration(lr.Intn(400)) * time.Microsecond)
			}
		}()
		wg.Wait()
		// the background goroutines keep going until the truncator ran a few times after the last commit
		for dl := time.Now().Add(stepDeadline); time.Now().Before(dl) && !w.hung; time.Sleep(time.Millisecond) {
			w.mu.Lock()
			n := len(w.truncs)
			w.mu.Unlock()
			if n >= 4 {
				break
			}
		}
		atomic.StoreInt32(&stop, 1)
		bg.Wait()
		if w.hung {
			continue
		}
		rp := func() map[string]interface{} {
			return map[string]interface{}{"valueLogs": m, "chunkValues": f, "unitBytes": 32, "seed": seed, "run": r, "truncations": w.truncs,
				"how": "harness/cmd/c14 -mode free (not deterministic)"}
		}
		// what the readers saw
		for _, o := range obs {
			switch {
			case o.wrong:
				res.Violate(sigWrong, fmt.Sprintf("free run %d: a concurrent reader got bytes for tx %d entry %d that are not the committed value", r, o.id, o.entry), rp())
			case o.entry < 0:
				res.Violate(sigHeader, fmt.Sprintf("free run %d: concurrent ReadTx(%d): %s", r, o.id, o.err), rp())
			case o.id >= o.cutAtEnd:
				sig, detail := w.classify(o.id, o.vlog, o.off)
				if sig == sigCommitted+":chunk-present" {
					sig = "ImmuStore.ReadValue:transient-error-while-truncation-runs"
				}
				res.Violate(sig, fmt.Sprintf("free run %d (%d value logs, chunk = %d values): a concurrent reader got %q for tx %d entry %d although no TruncateUptoTx(n) with n > %d had started (largest n so far %d); %s",
					r, m, f, o.err, o.id, o.entry, o.id, o.cutAtEnd, detail), rp())
			default:
				res.Count("free:old-value-error-seen-by-reader", 1)
			}
		}
		fs := w.validate(fmt.Sprintf("free run %d end", r), nil)
		if !w.hung {
			w.close()
			if err := w.open(); err != nil {
				fs = append(fs, finding{sigReopen, fmt.Sprintf("free run %d: reopen: %v", r, err), nil})
			} else {
				fs = append(fs, w.validate(fmt.Sprintf("free run %d end+reopen", r), nil)...)
				w.close()
			}
		}
		for _, f := range fs {
			x := rp()
			for k, v := range f.extra {
				x[k] = v
			}
			res.Violate(f.sig, fmt.Sprintf("(%d value logs, chunk = %d values) %s", m, w.f, f.text), x)
		}
		res.Count("free:truncations", len(w.truncs))
		res.Traces++
		res.Distinct++
		if len(fs) == 0 && !w.hung {
			os.RemoveAll(w.dir)
		}
	}
}

func min64(a, b uint64) uint64 {
	if a < b {
		return a
	}
	return b
}
