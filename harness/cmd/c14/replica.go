package main

import (
	"context"
	"fmt"
	"os"
	"path/filepath"
	"time"

	"github.com/codenotary/immudb/embedded/store"

	"verifharness/vh"
)

// runReplicaDist: the early-written / late-id layout produced by the replication path instead of the gate.
// A primary commits tx 1 .. 2+d in order (tx 2+d has a 64-byte value, the others 32 bytes).  On the replica
// (one value log, chunk files of 64 bytes, MaxConcurrency mc, MaxActiveTransactions d+2) tx 1 is replicated, then
// ReplicateTx(tx 2+d) is started FIRST: its values are appended (offset 32: chunk 0) and the call waits for its
// predecessor; tx 2 .. 1+d are replicated in order (tx 2 = the cut at offset 96: chunk 1), the waiting call finishes.
// TruncateUptoTx(2) on the replica has to see tx 2+d, d ids after the cut, to keep chunk 0.
func runReplicaDist(seed int64, dir string, res *vh.Result) {
	vh.Must(os.MkdirAll(dir, 0o755), "mkdir")
	for _, mc := range []int{2, 3} {
		for d := 1; d <= 5; d++ {
			ok := false
			for attempt := 0; attempt < 6 && !ok; attempt++ {
				ok = replicaDistOnce(seed, filepath.Join(dir, fmt.Sprintf("mc%d_d%d_a%d", mc, d, attempt)), mc, d, time.Duration(20<<attempt)*time.Millisecond, res)
			}
			if !ok {
				res.Count("replica:layout-not-reached", 1)
			}
		}
	}
	res.Traces++
}

func replicaDistOnce(seed int64, dir string, mc, d int, settle time.Duration, res *vh.Result) bool {
	p := &world{dir: dir + "_p", m: 1, f: 2, unit: 32, seed: seed, txs: map[uint64]*txRec{}, res: res}
	vh.Must(p.open(), "open primary")
	far := uint64(2 + d)
	for id := uint64(1); id <= far; id++ {
		lens := []int{1}
		if id == far {
			lens = []int{2}
		}
		rec, ch := p.startCommitter(int(id), lens, "", false)
		cr := <-ch
		vh.Must(cr.err, "primary commit")
		p.register(rec, cr.hdr)
	}
	exp := make([][]byte, far+1)
	for id := uint64(1); id <= far; id++ {
		tx := store.NewTx(p.st.MaxTxEntries(), p.st.MaxKeyLen())
		bs, err := p.st.ExportTx(id, false, false, tx)
		vh.Must(err, "primary export")
		exp[id] = append([]byte{}, bs...)
	}
	r := &world{dir: dir + "_r", m: 1, f: 2, unit: 32, seed: seed, txs: p.txs, res: res, mc: mc}
	st, err := store.Open(r.dir, r.options().WithMaxActiveTransactions(d+2))
	vh.Must(err, "open replica")
	r.st = st
	ctx := context.Background()
	_, err = st.ReplicateTx(ctx, exp[1], false, false)
	vh.Must(err, "replicate tx 1")
	done := make(chan error, 1)
	go func() { _, e := st.ReplicateTx(ctx, exp[far], false, false); done <- e }()
	time.Sleep(settle) // the layout is verified below; a too short pause only costs another attempt
	for id := uint64(2); id < far; id++ {
		_, err = st.ReplicateTx(ctx, exp[id], false, false)
		vh.Must(err, fmt.Sprintf("replicate tx %d (MaxConcurrency %d)", id, mc))
	}
	select {
	case e := <-done:
		vh.Must(e, "replicate the early-written tx")
	case <-time.After(stepDeadline):
		vh.Fatalf("ReplicateTx(%d) did not return", far)
	}
	p.close()
	os.RemoveAll(p.dir)
	// is the layout the intended one?
	tx := store.NewTx(st.MaxTxEntries(), st.MaxKeyLen())
	vh.Must(st.ReadTx(far, false, tx), "read far tx")
	_, offFar := decodeOff(tx.Entries()[0].VOff())
	vh.Must(st.ReadTx(2, false, tx), "read cut tx")
	_, offCut := decodeOff(tx.Entries()[0].VOff())
	if !(offFar/64 < offCut/64) {
		r.close()
		os.RemoveAll(r.dir)
		return false
	}
	res.Count("replica:early-written-tx-layouts", 1)
	if hung, err := r.truncate(2); hung || err != nil {
		vh.Fatalf("replica: TruncateUptoTx(2): hung=%v err=%v", hung, err)
	}
	fs := r.validate(fmt.Sprintf("replica, tx %d written first, TruncateUptoTx(2)", far), nil)
	if !r.hung {
		r.close()
		if err := r.open(); err != nil {
			fs = append(fs, finding{sigReopen, fmt.Sprintf("replica: reopen: %v", err), nil})
		} else {
			fs = append(fs, r.validate("replica after reopen", nil)...)
			r.close()
		}
	}
	for _, f := range fs {
		x := map[string]interface{}{"valueLogs": 1, "fileSize": 64, "maxConcurrency": mc, "distance": d, "truncations": r.truncs,
			"steps": []string{fmt.Sprintf("primary: tx 1..%d (32-byte values, tx %d 64 bytes), ExportTx each", far, far), "replica: ReplicateTx(tx 1)",
				fmt.Sprintf("replica: ReplicateTx(tx %d) started first (values appended at offset 32, waits for tx %d)", far, far-1),
				fmt.Sprintf("replica: ReplicateTx(tx 2 .. %d) in order", far-1), "replica: TruncateUptoTx(2)"},
			"how": "harness/cmd/c14 -mode race (runReplicaDist)"}
		for k, v := range f.extra {
			x[k] = v
		}
		res.Violate(f.sig, fmt.Sprintf("replica (1 value log, file size 64, MaxConcurrency %d, early-written tx %d ids past the cut): %s", mc, d, f.text), x)
	}
	if len(fs) == 0 {
		os.RemoveAll(r.dir)
	}
	return true
}
