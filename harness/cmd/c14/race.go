package main

import (
	"fmt"
	"os"
	"path/filepath"
	"strings"
	"sync"
	"time"

	"verifharness/vh"
)

// The FRemove hook (multiapp.DiscardUpto, one event per removed chunk file, emitted while the value log is
// locked by TruncateUptoTx) is used as a gate: the first removal in each value log of the armed store waits
// until the driver lets it continue.  That is how two concurrent TruncateUptoTx calls are brought into the
// state "each holds one value log" without relying on timing.
var rg struct {
	mu      sync.Mutex
	root    string
	hit     map[string]bool
	arrived chan string
	release chan struct{}
}

func armRemoveGate(root string) {
	rg.mu.Lock()
	rg.root, rg.hit = root, map[string]bool{}
	rg.arrived, rg.release = make(chan string, 8), make(chan struct{})
	rg.mu.Unlock()
}

func disarmRemoveGate() {
	rg.mu.Lock()
	rg.root = ""
	rg.mu.Unlock()
}

func removeGate(file string) {
	rg.mu.Lock()
	if rg.root == "" || !strings.HasPrefix(file, rg.root+string(os.PathSeparator)) {
		rg.mu.Unlock()
		return
	}
	d := filepath.Base(filepath.Dir(file))
	if !strings.HasPrefix(d, "val_") || rg.hit[d] {
		rg.mu.Unlock()
		return
	}
	rg.hit[d] = true
	arrived, release := rg.arrived, rg.release
	rg.mu.Unlock()
	arrived <- d
	<-release
}

// runRace: two concurrent TruncateUptoTx calls on a store with several value logs must both return
// ("repeated or concurrent truncation is harmless").
func runRace(seed int64, dir string, runs int, res *vh.Result) {
	vh.Must(os.MkdirAll(dir, 0o755), "mkdir")
	for _, m := range []int{2, 3} {
		base := filepath.Join(dir, fmt.Sprintf("base_m%d", m))
		w := &world{dir: base, m: m, f: 2, unit: 32, seed: seed, txs: map[uint64]*txRec{}, res: res}
		vh.Must(w.open(), "open")
		ntx := 5 * m
		for i := 1; i <= ntx; i++ {
			rec, ch := w.startCommitter(i, []int{2}, "", false)
			cr := <-ch
			vh.Must(cr.err, "commit")
			w.register(rec, cr.hdr)
		}
		w.close()
		both := 0
		for a := 0; a < runs*10 && both < runs; a++ {
			d := filepath.Join(dir, fmt.Sprintf("m%d_a%d", m, a))
			copyDir(base, d)
			c := &world{dir: d, m: m, f: 2, unit: 32, seed: seed, txs: w.txs, res: res}
			vh.Must(c.open(), "open copy")
			armRemoveGate(d)
			n1, n2 := uint64(ntx), uint64(ntx-1)
			done := make(chan error, 2)
			go func() { done <- c.st.TruncateUptoTx(n1) }()
			first := <-rg.arrived // call 1 holds one value log and is about to remove its first chunk
			go func() { done <- c.st.TruncateUptoTx(n2) }()
			second := ""
			select {
			case second = <-rg.arrived: // call 2 started with another value log and holds it
			case <-time.After(300 * time.Millisecond): // call 2 waits for the log call 1 holds: no overlap in this attempt
			}
			close(rg.release)
			disarmRemoveGate()
			res.Count("race:attempts", 1)
			returned := 0
			both2 := make(chan struct{})
			errs := make([]error, 0, 2)
			go func() {
				for i := 0; i < 2; i++ {
					errs = append(errs, <-done)
				}
				close(both2)
			}()
			if !stuck(both2) { // blocked = nothing inside the store moves any more (not merely slow)
				returned = 2
				for _, err := range errs {
					if err != nil {
						res.Count("race:error:"+err.Error(), 1)
					}
				}
			}
			if second != "" {
				both++
				res.Count("race:each-call-held-one-log", 1)
			}
			res.Evaluations++
			if returned < 2 {
				c.hung = true
				res.Violate(sigTruncHang, fmt.Sprintf("%d value logs: TruncateUptoTx(%d) and TruncateUptoTx(%d) run concurrently; call 1 holds %s, call 2 holds %s (each locked by fetchVLog and kept until return); %d of 2 calls returned within %v",
					m, n1, n2, first, second, returned, hangDeadline),
					map[string]interface{}{"valueLogs": m, "fileSize": 64, "txs": ntx, "calls": []uint64{n1, n2}, "held": []string{first, second},
						"goroutines": goroutineDump(), "how": "harness/cmd/c14 -mode race (FRemove hook used as gate)"})
				break // the store is stuck: leave it; one reproduction per configuration is enough
			}
			fs := c.validateAfterRace(n1)
			for _, f := range fs {
				res.Violate(f.sig, f.text, f.extra)
			}
			c.close()
			os.RemoveAll(d)
		}
		res.Traces++
		res.Distinct++
	}
}

func (w *world) validateAfterRace(cut uint64) []finding {
	w.cut = cut
	w.truncs = nil
	return w.validate("after two concurrent TruncateUptoTx", nil)
}
