package main

import (
	"fmt"
	"os"
	"path/filepath"
	"time"

	"github.com/codenotary/immudb/embedded/store"

	"verifharness/vh"
)

// runRepro: the two smallest histories in which TruncateUptoTx(n) removes the values of a transaction with id >= n
// (one value log, chunk files of 64 bytes, no priming, no steering).
//
//	A: committer A appends one 64-byte value (chunk 0) and is parked at ValuesAppended
//	   committer B appends one 32-byte value (offset 64, chunk 1) and commits as tx 1
//	   TruncateUptoTx(1): tombstone = offset of tx 1 = 64, forward walk 1..LastCommittedTxID = 1..1, chunk 0 removed
//	   A continues and commits as tx 2  ->  ReadValue(tx 2) = EOF
//	B: same, but A is released before the truncation while commits wait for AllowCommitUpto (external commit
//	   allowance, as on a primary with synchronous replication): tx 2 is pre-committed, LastCommittedTxID is still 1.
func runRepro(seed int64, dir string, res *vh.Result) {
	vh.Must(os.MkdirAll(dir, 0o755), "mkdir")
	for _, variant := range []string{"id-assigned-after-truncation-started", "precommitted-not-committed"} {
		split := variant == "precommitted-not-committed"
		w := &world{dir: filepath.Join(dir, variant), m: 1, f: 2, unit: 32, seed: seed, txs: map[uint64]*txRec{}, res: res, split: split}
		vh.Must(w.open(), "open")
		ga := newGate("repro-A-" + variant)
		recA, chA := w.startCommitter(1, []int{2}, "repro-A-"+variant, false)
		select {
		case <-ga.arrived:
		case <-time.After(stepDeadline):
			vh.Fatalf("repro: committer A did not reach the ValuesAppended gate")
		}
		recB, chB := w.startCommitter(2, []int{1}, "", false)
		if split {
			waitPre(w.st, 1)
			vh.Must(w.st.AllowCommitUpto(1), "allow 1")
		}
		crB := <-chB
		vh.Must(crB.err, "commit B")
		w.register(recB, crB.hdr)
		steps := []string{"A: Set(k, 64 bytes), Commit -> parked at ValuesAppended (values in chunk 0 of the value log, no id yet)",
			"B: Set(k', 32 bytes), Commit = tx 1 (value at offset 64 = chunk 1)"}
		if split {
			close(ga.release)
			waitPre(w.st, 2)
			steps = append(steps, "A released: tx 2 pre-committed, not committed (commit allowance still at 1)")
		}
		hung, err := w.truncate(1)
		if hung || err != nil {
			vh.Fatalf("repro: TruncateUptoTx(1): hung=%v err=%v", hung, err)
		}
		steps = append(steps, fmt.Sprintf("TruncateUptoTx(1) -> first chunk of the value log on disk is now %d", w.truncs[0].MinChunkPost["1"]))
		if split {
			vh.Must(w.st.AllowCommitUpto(2), "allow 2")
		} else {
			close(ga.release)
		}
		crA := <-chA
		vh.Must(crA.err, "commit A")
		w.register(recA, crA.hdr)
		dropGate("repro-A-" + variant)
		steps = append(steps, fmt.Sprintf("A commits as tx %d; ReadTx(%d) + ReadValue(entry 0)", crA.hdr.ID, crA.hdr.ID))
		for _, f := range w.validate("minimal repro", nil) {
			x := map[string]interface{}{"steps": steps, "valueLogs": 1, "fileSize": 64, "how": "harness/cmd/c14 -mode race (runRepro)"}
			for k, v := range f.extra {
				x[k] = v
			}
			res.Violate(f.sig, "minimal repro (1 value log, file size 64): "+f.text, x)
		}
		res.Count("repro:"+variant, 1)
		res.Traces++
		w.close()
		os.RemoveAll(w.dir)
	}
}

// runExportRepro: the history of the repaired ExportTx defect (the two "partially truncated transaction" returns used
// to leave _valBsMux locked): one value log, chunk files of 64 bytes; tx 1 = one 32-byte value (offset 0), tx 2 = two
// 32-byte values (offsets 32 and 64: chunks 0 and 1), tx 3 = one 32-byte value (offset 96); TruncateUptoTx(3) removes
// chunk 0; ExportTx(1) is exported by digest, ExportTx(2) fails with "partially truncated transaction", and the
// following ExportTx(3) must return (all its values).
func runExportRepro(seed int64, dir string, res *vh.Result) {
	w := &world{dir: filepath.Join(dir, "export"), m: 1, f: 2, unit: 32, seed: seed, txs: map[uint64]*txRec{}, res: res}
	vh.Must(w.open(), "open")
	for i, lens := range [][]int{{1}, {1, 1}, {1}} {
		rec, ch := w.startCommitter(i+1, lens, "", false)
		cr := <-ch
		vh.Must(cr.err, "commit")
		w.register(rec, cr.hdr)
	}
	if hung, err := w.truncate(3); hung || err != nil {
		vh.Fatalf("export repro: TruncateUptoTx(3): hung=%v err=%v", hung, err)
	}
	got := []string{}
	for id := uint64(1); id <= 3 && !w.hung; id++ {
		r, msg := w.exportOnce(id)
		got = append(got, r)
		res.Count("export:"+r, 1)
		if r == "blocked" {
			res.Violate(sigExpHang, fmt.Sprintf("1 value log, file size 64, txs [32], [32 32], [32] bytes, TruncateUptoTx(3): exports so far %v; ExportTx(%d) did not return within %v", got, id, hangDeadline),
				map[string]interface{}{"goroutines": msg, "how": "harness/cmd/c14 -mode race (runExportRepro)"})
		}
	}
	if !w.hung && fmt.Sprint(got) != "[digests error values]" {
		res.DriftNote(fmt.Sprintf("export repro: ExportTx(1..3) = %v, expected [digests error values]", got))
	}
	if !w.hung {
		for _, f := range w.validate("export repro", nil) {
			res.Violate(f.sig, "export repro (1 value log, file size 64): "+f.text, f.extra)
		}
		w.close()
		os.RemoveAll(w.dir)
	}
	res.Count("repro:export-after-partially-truncated-tx", 1)
	res.Traces++
}

func waitPre(st *store.ImmuStore, id uint64) {
	dl := time.Now().Add(stepDeadline)
	for st.LastPrecommittedTxID() < id {
		if time.Now().After(dl) {
			vh.Fatalf("repro: tx %d was not pre-committed", id)
		}
		time.Sleep(200 * time.Microsecond)
	}
}
