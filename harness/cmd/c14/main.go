// c14 - conformance driver for property C14 (value-log truncation keeps everything at or after the cut readable).
//
//	-mode replay  schedules printed by TLC from spec/Truncation.tla are executed step by step on a real
//	              embedded/store: the placement order of the values is forced with the ValuesAppended gate
//	              (a committer is parked after its values were appended and before it takes the store mutex)
//	              and the value log a committer gets is steered through the store's own unlocked-list
//	              discipline (a read of a value moves its log to the back of the list).  After every step the
//	              projected real state (ids, placements, chunk files, export results) is compared with the
//	              state TLC printed; the property itself is judged by a model-independent oracle (original
//	              values of every tx with id >= cut).  Afterwards every cut point is tried on a copy.
//	-mode db      pkg/database: SQL table + document collection, truncation through the database truncator
//	              API and pkg/truncator, restart, catalog and collections keep working.
//	-mode free    free-running committers / readers / truncator on one store, reads validated afterwards.
//	-mode race    the minimal histories of the known findings, then two concurrent TruncateUptoTx calls under a
//	              liveness deadline (the FRemove hook is used as a gate).
package main

import (
	"flag"
	"os"
	"path/filepath"

	"verifharness/vh"
)

func main() {
	mode := flag.String("mode", "replay", "replay | db | free | race")
	sched := flag.String("schedules", "", "JSON file with schedules (mode replay)")
	dir := flag.String("dir", "", "scratch directory")
	seed := flag.Int64("seed", 1, "seed")
	runs := flag.Int("runs", 4, "number of runs (free, race, db)")
	rounds := flag.Int("rounds", 30, "mode db: insert rounds before the first truncation")
	cuts := flag.Int("cuts", 1, "mode replay: try every cut point after every k-th schedule (0 = never)")
	flag.Parse()
	if *dir == "" {
		vh.Fatalf("-dir is required")
	}
	vh.Must(os.MkdirAll(*dir, 0o755), "mkdir")
	res := vh.NewResult()
	installSink()
	switch *mode {
	case "replay":
		runReplay(*sched, *seed, filepath.Join(*dir, "replay"), *cuts, res)
	case "db":
		runDB(*seed, filepath.Join(*dir, "db"), *runs, *rounds, res)
	case "free":
		runFree(*seed, filepath.Join(*dir, "free"), *runs, res)
	case "race":
		runRepro(*seed, filepath.Join(*dir, "repro"), res)
		runExportRepro(*seed, filepath.Join(*dir, "repro"), res)
		runReplicaDist(*seed, filepath.Join(*dir, "replica"), res)
		runRace(*seed, filepath.Join(*dir, "race"), *runs, res)
	default:
		vh.Fatalf("unknown mode %q", *mode)
	}
	res.Emit()
}
