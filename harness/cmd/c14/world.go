package main

import (
	"bytes"
	"context"
	"crypto/sha256"
	"errors"
	"fmt"
	"os"
	"os/exec"
	"path/filepath"
	"regexp"
	"runtime"
	"sort"
	"strconv"
	"strings"
	"sync"
	"time"

	"github.com/codenotary/immudb/embedded/logger"
	"github.com/codenotary/immudb/embedded/store"
	"github.com/codenotary/immudb/embedded/verifhook"

	"verifharness/vh"
)

// canonical signatures (call site : what : class)
const (
	// a committer without a committed id when the forward walk read its bound (in flight or only pre-committed)
	sigInFlight = "ImmuStore.TruncateUptoTx:forward-walk-misses-writer-without-committed-id"
	// a tx that was committed before TruncateUptoTx(n) started, id >= n
	sigCommitted = "ImmuStore.TruncateUptoTx:value-of-committed-tx-at-or-after-cut-discarded"
	sigWrong     = "ImmuStore.ReadValue:wrong-value-served-after-truncation"
	sigHeader    = "ImmuStore.TruncateUptoTx:tx-header-or-proof-lost"
	sigExpHang   = "ImmuStore.ExportTx:blocked-after-truncation:_valBsMux"
	sigExpFull   = "ImmuStore.ExportTx:tx-at-or-after-cut-not-exported-in-full"
	sigTruncHang = "ImmuStore.TruncateUptoTx:concurrent-calls-block-each-other:vlog-lock-order"
	sigTruncErr  = "ImmuStore.TruncateUptoTx:error"
	sigReopen    = "store.Open:fails-after-truncation"
)

const hangDeadline = 20 * time.Second // a call still blocked after this is reported as blocked (liveness)
const stepDeadline = 30 * time.Second // waiting for a parked committer to arrive / finish (machinery)

// ---------------------------------------------------------------- gate
type actorKey struct{}

type gate struct {
	arrived chan struct{}
	release chan struct{}
}

var (
	gateMu sync.Mutex
	gates  = map[string]*gate{}
)

func newGate(id string) *gate {
	g := &gate{arrived: make(chan struct{}, 1), release: make(chan struct{})}
	gateMu.Lock()
	gates[id] = g
	gateMu.Unlock()
	return g
}

func dropGate(id string) {
	gateMu.Lock()
	delete(gates, id)
	gateMu.Unlock()
}

// installSink: a committer whose context carries an actor id with a registered gate is parked at
// ValuesAppended (values are in the value log, the store mutex is not yet taken, no id yet).
func installSink() {
	verifhook.SetSink(func(ev string, kv ...interface{}) {
		if ev == "FRemove" && len(kv) >= 1 {
			if f, ok := kv[0].(string); ok {
				removeGate(f)
			}
			return
		}
		if ev != "ValuesAppended" || len(kv) < 2 {
			return
		}
		ctx, ok := kv[1].(context.Context)
		if !ok || ctx == nil {
			return
		}
		id, _ := ctx.Value(actorKey{}).(string)
		if id == "" {
			return
		}
		gateMu.Lock()
		g := gates[id]
		gateMu.Unlock()
		if g == nil {
			return
		}
		g.arrived <- struct{}{}
		<-g.release
	})
}

// blocked runs f and tells whether it is BLOCKED (as opposed to slow: the machine is shared and an fsync can take
// seconds): after hangDeadline the goroutines inside the store are sampled every 5 s; the call counts as blocked only
// when f has not returned and three consecutive samples are identical (nothing inside the store moves any more), or
// after 6 x hangDeadline.
func blocked(f func()) bool {
	done := make(chan struct{})
	go func() {
		defer func() {
			if x := recover(); x != nil {
				vh.Fatalf("panic in a guarded call: %v\n%s", x, goroutineDump())
			}
			close(done)
		}()
		f()
	}()
	return stuck(done)
}

func stuck(done <-chan struct{}) bool {
	select {
	case <-done:
		return false
	case <-time.After(hangDeadline):
	}
	prev, same := storeStacks(), 0
	for i := 0; i < int(5*hangDeadline/(5*time.Second)); i++ {
		select {
		case <-done:
			return false
		case <-time.After(5 * time.Second):
		}
		if cur := storeStacks(); cur == prev {
			if same++; same >= 3 {
				return true
			}
		} else {
			prev, same = cur, 0
		}
	}
	return true
}

var hexArgs = regexp.MustCompile(`0x[0-9a-f]+|\+0x[0-9a-f]+|, \d+ minutes`)

// storeStacks: the stacks of all goroutines that are inside embedded/store or an appendable, without addresses
func storeStacks() string {
	buf := make([]byte, 4<<20)
	n := runtime.Stack(buf, true)
	var keep []string
	for _, g := range strings.Split(string(buf[:n]), "\n\n") {
		if strings.Contains(g, "embedded/store") || strings.Contains(g, "appendable") {
			if strings.Contains(g, "doIndexing") || strings.Contains(g, "stuck(") {
				continue
			}
			keep = append(keep, hexArgs.ReplaceAllString(g, ""))
		}
	}
	sort.Strings(keep)
	return strings.Join(keep, "\n\n")
}

func goroutineDump() string {
	buf := make([]byte, 1<<20)
	n := runtime.Stack(buf, true)
	var keep []string
	for _, g := range strings.Split(string(buf[:n]), "\n\n") {
		if strings.Contains(g, "embedded/store") || strings.Contains(g, "multiapp") {
			if len(g) > 1800 {
				g = g[:1800] + "..."
			}
			keep = append(keep, g)
		}
		if len(keep) >= 8 {
			break
		}
	}
	return strings.Join(keep, "\n\n")
}

// ---------------------------------------------------------------- world
type txRec struct {
	Writer int      `json:"writer"`
	ID     uint64   `json:"id"`
	Keys   []string `json:"keys"`
	vals   [][]byte
	alh    [sha256.Size]byte
	eh     [sha256.Size]byte
}

type truncCall struct {
	N            uint64         `json:"n"`
	CommittedAt  uint64         `json:"committedAtStart"`
	PrecommitAt  uint64         `json:"precommittedAtStart"`
	Dist         int            `json:"farthestEarlyWrittenTx,omitempty"` // largest id-n of a committed tx with a value in a file below n's file
	Err          string         `json:"err,omitempty"`
	MinChunkPost map[string]int `json:"firstChunkAfter"` // per value log (1-based): lowest chunk file that exists afterwards
}

type world struct {
	dir     string
	m, f    int // value logs, chunk size in units
	unit    int // bytes per unit
	seed    int64
	cache   int
	st      *store.ImmuStore
	mu      sync.Mutex
	txs     map[uint64]*txRec
	cut     uint64
	truncs  []truncCall
	handles []*store.TxEntry // per value log: a read-only entry with a non-empty value (steering)
	res     *vh.Result
	hung    bool
	split   bool
	mc      int // MaxConcurrency (and MaxActiveTransactions) of the store; 0 = 16
}

func (w *world) options() *store.Options {
	o := store.DefaultOptions().WithSynced(false).WithEmbeddedValues(false).
		WithMaxConcurrency(w.maxConc()).WithMaxActiveTransactions(w.maxActive()).WithMaxIOConcurrency(w.m).WithFileSize(w.f * w.unit).
		WithMaxTxEntries(8).WithMaxKeyLen(32).WithMaxValueLen(8 * w.unit).WithVLogCacheSize(w.cache).
		WithVLogMaxOpenedFiles(512).WithWriteBufferSize(1 << 12).WithLogger(logger.NewMemoryLoggerWithLevel(logger.LogError))
	o.WithIndexOptions(o.IndexOpts.WithFlushBufferSize(1 << 12).WithCacheSize(32).WithMaxActiveSnapshots(8))
	o.WithAHTOptions(o.AHTOpts.WithWriteBufferSize(1 << 12))
	return o
}

func (w *world) maxConc() int {
	if w.mc > 0 {
		return w.mc
	}
	return 16
}

// maxActive: MaxActiveTransactions bounds the pre-committed, not yet committed transactions; histories with split
// commit keep several of them, the others run with MaxConcurrency + 1
func (w *world) maxActive() int {
	if w.split {
		return 16
	}
	return w.maxConc() + 1
}

// farEarly looks at the store right before TruncateUptoTx(n): is there a committed tx more than MaxConcurrency ids
// past n with a value in a chunk file of n's value log BELOW the file of n's first value (written early, id assigned
// late)?  Returns the largest distance id-n of any committed tx with such a value (0 = none).
func (w *world) farEarly(n uint64) (dist int, beyond bool) {
	st := w.st
	last := st.LastCommittedTxID()
	if n == 0 || n >= last {
		return 0, false
	}
	tx := store.NewTx(st.MaxTxEntries(), st.MaxKeyLen())
	if st.ReadTx(n, false, tx) != nil || len(tx.Entries()) == 0 || tx.Entries()[0].VLen() == 0 {
		return 0, false
	}
	cutLog, cutOff := decodeOff(tx.Entries()[0].VOff())
	cutChunk := cutOff / int64(w.f*w.unit)
	for id := n + 1; id <= last; id++ {
		if st.ReadTx(id, false, tx) != nil {
			continue
		}
		for _, e := range tx.Entries() {
			l, off := decodeOff(e.VOff())
			if e.VLen() > 0 && l == cutLog && off/int64(w.f*w.unit) < cutChunk {
				dist = int(id - n)
				if dist > w.maxConc() {
					beyond = true
				}
			}
		}
	}
	return dist, beyond
}

func (w *world) open() error {
	st, err := store.Open(w.dir, w.options())
	if err != nil {
		return err
	}
	w.st = st
	if w.split {
		st.SetExternalCommitAllowance(true)
	}
	return nil
}

func (w *world) close() {
	if w.st != nil && !w.hung {
		if hung := blocked(func() { w.st.Close() }); hung {
			w.hung = true
		}
	}
	w.st = nil
}

func (w *world) value(writer, e, units int) []byte {
	if units == 0 {
		return nil
	}
	return vh.Bytes(w.seed, "c14v", writer*64+e, units*w.unit)
}

func keyOf(writer, e int) []byte { return []byte(fmt.Sprintf("w%03d-e%d", writer, e)) }

type commitResult struct {
	hdr *store.TxHeader
	err error
}

// startCommitter launches a committer for writer with the given value lengths (units); gated iff g != "".
// abort: the commit carries a precondition that fails under the store mutex (after the values were appended).
func (w *world) startCommitter(writer int, lens []int, gateID string, abort bool) (*txRec, chan commitResult) {
	rec := &txRec{Writer: writer}
	ch := make(chan commitResult, 1)
	ctx := context.Background()
	if gateID != "" {
		ctx = context.WithValue(ctx, actorKey{}, gateID)
	}
	st := w.st
	go func() {
		tx, err := st.NewWriteOnlyTx(ctx)
		if err != nil {
			ch <- commitResult{nil, err}
			return
		}
		for e, l := range lens {
			v := w.value(writer, e+1, l)
			rec.Keys = append(rec.Keys, string(keyOf(writer, e+1)))
			rec.vals = append(rec.vals, v)
			if err = tx.Set(keyOf(writer, e+1), nil, v); err != nil {
				ch <- commitResult{nil, err}
				return
			}
		}
		if len(lens) == 0 {
			tx.WithMetadata(store.NewTxMetadata().WithTruncatedTxID(1))
		}
		if abort {
			if err = tx.AddPrecondition(&store.PreconditionKeyMustExist{Key: []byte("never-written")}); err != nil {
				ch <- commitResult{nil, err}
				return
			}
		}
		hdr, err := tx.AsyncCommit(ctx)
		ch <- commitResult{hdr, err}
	}()
	return rec, ch
}

func (w *world) register(rec *txRec, hdr *store.TxHeader) {
	rec.ID = hdr.ID
	rec.alh = hdr.Alh()
	rec.eh = hdr.Eh
	w.mu.Lock()
	w.txs[hdr.ID] = rec
	w.mu.Unlock()
}

// chunks: per value log the sorted indexes of the chunk files present
func (w *world) chunks() [][]int {
	out := make([][]int, w.m)
	for k := 0; k < w.m; k++ {
		ents, _ := os.ReadDir(filepath.Join(w.dir, fmt.Sprintf("val_%d", k)))
		for _, e := range ents {
			if strings.HasSuffix(e.Name(), ".val") {
				if n, err := strconv.Atoi(strings.TrimSuffix(e.Name(), ".val")); err == nil {
					out[k] = append(out[k], n)
				}
			}
		}
		sort.Ints(out[k])
	}
	return out
}

func firstChunks(ch [][]int) map[string]int {
	m := map[string]int{}
	for k, c := range ch {
		if len(c) > 0 {
			m[strconv.Itoa(k+1)] = c[0]
		} else {
			m[strconv.Itoa(k+1)] = 0
		}
	}
	return m
}

// truncate runs the real TruncateUptoTx(n) under the liveness deadline and records what it removed.
func (w *world) truncate(n uint64) (hung bool, err error) {
	tc := truncCall{N: n, CommittedAt: w.st.LastCommittedTxID(), PrecommitAt: w.st.LastPrecommittedTxID()}
	if d, beyond := w.farEarly(n); d > 0 {
		tc.Dist = d
		w.res.Count(fmt.Sprintf("trunc:early-written-tx-at-distance:%d", d), 1)
		if beyond {
			w.res.Count("trunc:tx-beyond-MaxConcurrency-in-file-below-cut-file", 1)
		}
	}
	hung = blocked(func() { err = w.st.TruncateUptoTx(n) })
	if hung {
		w.hung = true
		tc.Err = "blocked"
	} else if err != nil {
		tc.Err = err.Error()
	}
	tc.MinChunkPost = firstChunks(w.chunks())
	w.mu.Lock()
	w.truncs = append(w.truncs, tc)
	if err == nil && !hung && n > w.cut && n <= tc.CommittedAt {
		w.cut = n
	}
	w.mu.Unlock()
	w.res.Count("op:TruncateUptoTx", 1)
	return hung, err
}

func decodeOff(off int64) (int, int64) { return int(byte(off >> 56)), off & (1<<55 - 1) }

// classify names the defect class of a value of tx id that is gone although id >= cut.
func (w *world) classify(id uint64, vlog int, off int64) (sig string, detail string) {
	chunk := int(off / int64(w.f*w.unit))
	for i, t := range w.truncs {
		if first, ok := t.MinChunkPost[strconv.Itoa(vlog)]; ok && first > chunk {
			switch {
			case id > t.PrecommitAt:
				return sigInFlight + ":id-assigned-after-truncation-started",
					fmt.Sprintf("removed by call #%d TruncateUptoTx(%d) which started at committed=%d precommitted=%d: the values of tx %d were already in value log %d (offset %d, chunk %d) but its id was assigned later", i+1, t.N, t.CommittedAt, t.PrecommitAt, id, vlog, off, chunk)
			case id > t.CommittedAt:
				return sigInFlight + ":precommitted-not-committed",
					fmt.Sprintf("removed by call #%d TruncateUptoTx(%d) which started at committed=%d precommitted=%d: tx %d was pre-committed and not yet committed (offset %d of value log %d, chunk %d)", i+1, t.N, t.CommittedAt, t.PrecommitAt, id, off, vlog, chunk)
			default:
				return sigCommitted, fmt.Sprintf("removed by call #%d TruncateUptoTx(%d): tx %d was committed before the call (committed=%d), value at offset %d of value log %d, chunk %d", i+1, t.N, id, t.CommittedAt, off, vlog, chunk)
			}
		}
	}
	return sigCommitted + ":chunk-present", fmt.Sprintf("tx %d value log %d offset %d: chunk %d is still on disk", id, vlog, off, chunk)
}

type finding struct {
	sig, text string
	extra     map[string]interface{}
}

// exportOnce runs the real ExportTx under the liveness deadline: "values" | "digests" | "error:<msg>" | "blocked"
func (w *world) exportOnce(id uint64) (string, string) {
	var bs []byte
	var err error
	tx := store.NewTx(w.st.MaxTxEntries(), w.st.MaxKeyLen())
	hung := blocked(func() { bs, err = w.st.ExportTx(id, false, false, tx) })
	w.res.Count("op:ExportTx", 1)
	if hung {
		w.hung = true
		return "blocked", goroutineDump()
	}
	if err != nil {
		return "error", err.Error()
	}
	// the last byte of an exported tx tells whether values were replaced by digests
	if len(bs) > 0 && bs[len(bs)-1] == 1 {
		return "digests", ""
	}
	return "values", ""
}

// validate is the oracle of the property, independent of the model: every tx has its header, its hashes
// and proofs; every entry of every tx with id >= cut gives its original value through ReadTx+ReadValue, Get and
// ExportTx; older ones the original value or an explicit error; every call returns.
// readable (optional): what the model expects for (id, entry); disagreement is model drift, not a verdict.
func (w *world) validate(phase string, expectReadable func(id uint64, e int) (bool, bool)) []finding {
	var out []finding
	st := w.st
	last := st.LastCommittedTxID()
	w.mu.Lock()
	cut := w.cut
	w.mu.Unlock()
	add := func(sig, text string, extra map[string]interface{}) {
		if extra == nil {
			extra = map[string]interface{}{}
		}
		extra["phase"] = phase
		out = append(out, finding{sig, phase + ": " + text, extra})
	}
	hdrs := make([]*store.TxHeader, last+1)
	tx := store.NewTx(st.MaxTxEntries(), st.MaxKeyLen())
	if err := st.WaitForIndexingUpto(ctxTimeout(stepDeadline), last); err != nil {
		add("ImmuStore.WaitForIndexingUpto:error-after-truncation", fmt.Sprintf("indexing up to %d: %v", last, err), nil)
	}
	for id := uint64(1); id <= last; id++ {
		rec := w.txs[id]
		if rec == nil {
			vh.Fatalf("%s: committed tx %d is unknown to the driver", phase, id)
		}
		err := st.ReadTx(id, false, tx)
		w.res.Count("op:ReadTx", 1)
		if err != nil {
			add(sigHeader, fmt.Sprintf("ReadTx(%d): %v", id, err), nil)
			continue
		}
		h := tx.Header()
		hdrs[id] = h
		if h.Alh() != rec.alh || h.Eh != rec.eh || h.NEntries != len(rec.Keys) {
			add(sigHeader, fmt.Sprintf("tx %d: header differs from the committed one", id), nil)
		}
		for e, ent := range tx.Entries() {
			orig := rec.vals[e]
			if string(ent.Key()) != rec.Keys[e] || ent.HVal() != sha256.Sum256(orig) || ent.VLen() != len(orig) {
				add(sigHeader, fmt.Sprintf("tx %d entry %d: key/digest/length differ from the committed ones", id, e), nil)
				continue
			}
			vlog, off := decodeOff(ent.VOff())
			// ReadTx + ReadValue
			got, rerr := st.ReadValue(ent)
			w.res.Count("op:ReadValue", 1)
			realReadable := rerr == nil
			if rerr == nil && !bytes.Equal(got, orig) {
				add(sigWrong, fmt.Sprintf("ReadValue(tx %d entry %d) returned %d bytes that are not the committed value", id, e, len(got)), nil)
			}
			if rerr != nil && id >= cut {
				sig, detail := w.classify(id, vlog, off)
				add(sig, fmt.Sprintf("ReadValue(tx %d entry %d) = %v although %d >= cut %d; %s", id, e, rerr, id, cut, detail),
					map[string]interface{}{"tx": id, "entry": e, "cut": cut, "vlog": vlog, "off": off, "err": rerr.Error(), "via": "ReadTx+ReadValue"})
			}
			if rerr != nil && id < cut {
				w.res.Count("old-value:explicit-error", 1)
			} else if id < cut {
				w.res.Count("old-value:still-served", 1)
			}
			if expectReadable != nil {
				if exp, known := expectReadable(id, e); known && exp != realReadable {
					w.res.DriftNote(fmt.Sprintf("%s: tx %d entry %d (vlog %d off %d): model readable=%v real readable=%v (%v)", phase, id, e, vlog, off, exp, realReadable, rerr))
				}
			}
			// Get through the index (every key is written once)
			ref, gerr := st.Get(context.Background(), ent.Key())
			w.res.Count("op:Get", 1)
			if gerr != nil || ref.Tx() != id {
				add("ImmuStore.Get:index-entry-lost-after-truncation", fmt.Sprintf("Get(%s) of tx %d: %v", ent.Key(), id, gerr), nil)
				continue
			}
			gv, verr := ref.Resolve()
			if verr == nil && !bytes.Equal(gv, orig) {
				add(sigWrong, fmt.Sprintf("Get(%s).Resolve() of tx %d returned bytes that are not the committed value", ent.Key(), id), nil)
			}
			if verr != nil && id >= cut && rerr == nil {
				add("ImmuStore.Get:value-at-or-after-cut-unreadable-through-index", fmt.Sprintf("Get(%s).Resolve() of tx %d: %v although ReadValue works", ent.Key(), id, verr), nil)
			}
		}
	}
	// ExportTx of every tx, oldest first (a failing export of an old tx must not block the following ones)
	for id := uint64(1); id <= last && !w.hung; id++ {
		r, msg := w.exportOnce(id)
		w.res.Count("export:"+r, 1)
		switch {
		case r == "blocked":
			add(sigExpHang, fmt.Sprintf("ExportTx(%d) did not return within %v", id, hangDeadline), map[string]interface{}{"goroutines": msg, "tx": id})
		case id >= cut && r != "values":
			ok := true
			rec := w.txs[id]
			tx2 := store.NewTx(st.MaxTxEntries(), st.MaxKeyLen())
			if st.ReadTx(id, false, tx2) == nil {
				for _, ent := range tx2.Entries() {
					if _, e := st.ReadValue(ent); e != nil {
						ok = false // already reported by the value check above
					}
				}
			}
			if ok {
				add(sigExpFull, fmt.Sprintf("ExportTx(%d) = %s %s although %d >= cut %d and all %d values are readable", id, r, msg, id, cut, len(rec.Keys)), nil)
			}
		}
	}
	// proofs between all consecutive txs and from the first to every tx
	for id := uint64(2); id <= last && !w.hung; id++ {
		for _, src := range []uint64{1, id - 1} {
			if hdrs[src] == nil || hdrs[id] == nil {
				continue
			}
			p, err := st.DualProof(hdrs[src], hdrs[id])
			w.res.Count("op:DualProof", 1)
			if err != nil || !store.VerifyDualProof(p, src, id, hdrs[src].Alh(), hdrs[id].Alh()) {
				add(sigHeader, fmt.Sprintf("DualProof(%d,%d): err=%v or proof does not verify", src, id, err), nil)
			}
		}
	}
	w.res.Evaluations += int(last)
	return out
}

func ctxTimeout(d time.Duration) context.Context {
	ctx, cancel := context.WithTimeout(context.Background(), d)
	_ = cancel // released when the deadline passes
	return ctx
}

func copyDir(src, dst string) {
	vh.Must(exec.Command("cp", "-r", src, dst).Run(), "cp -r "+src)
}

var errHung = errors.New("blocked")
