package main

import (
	"context"
	"errors"
	"fmt"
	"os"
	"path/filepath"
	"strings"
	"sync/atomic"
	"time"

	"github.com/codenotary/immudb/embedded/document"
	"github.com/codenotary/immudb/embedded/logger"
	"github.com/codenotary/immudb/embedded/store"
	"github.com/codenotary/immudb/pkg/api/protomodel"
	"github.com/codenotary/immudb/pkg/api/schema"
	"github.com/codenotary/immudb/pkg/database"
	"github.com/codenotary/immudb/pkg/truncator"
	"google.golang.org/protobuf/types/known/structpb"

	"verifharness/vh"
)

// pkg/database level: a database with a SQL table, a document collection and plain keys is truncated through
// the database truncator API (Plan + TruncateUptoTx, which first copies the SQL / document catalog into a new
// transaction) and through pkg/truncator (retention period); after every truncation and after a restart the
// rows / documents / keys written at or after the cut are served, new rows and documents can be added, the
// catalog is loaded, and every transaction can be exported.
type dbWorld struct {
	dir    string
	m      int
	fsize  int
	clock  *int64 // number of ticks
	base   time.Time
	step   time.Duration
	db     database.DB
	res    *vh.Result
	rowTx  map[int]uint64
	docTx  map[int]uint64
	kvTx   map[int]uint64
	next   int
	hung   bool
	run    int
	cut    uint64
	events []string
}

func (d *dbWorld) opts() *database.Options {
	so := store.DefaultOptions().WithSynced(false).WithEmbeddedValues(false).WithMaxConcurrency(8).WithMaxIOConcurrency(d.m).
		WithFileSize(d.fsize).WithMaxValueLen(1 << 12).WithWriteBufferSize(1 << 14).
		WithLogger(logger.NewMemoryLoggerWithLevel(logger.LogError)).
		WithTimeFunc(func() time.Time { return d.base.Add(time.Duration(atomic.AddInt64(d.clock, 1)) * d.step) })
	so.WithIndexOptions(so.IndexOpts.WithFlushBufferSize(1 << 14).WithCacheSize(256))
	so.WithAHTOptions(so.AHTOpts.WithWriteBufferSize(1 << 14))
	return database.DefaultOptions().WithDBRootPath(d.dir).WithStoreOptions(so).WithReadTxPoolSize(4)
}

func (d *dbWorld) viol(sig, text string) {
	d.res.Violate(sig, fmt.Sprintf("database (%d value logs, file size %d): %s", d.m, d.fsize, text),
		map[string]interface{}{"valueLogs": d.m, "fileSize": d.fsize, "events": d.events, "cut": d.cut, "how": "harness/cmd/c14 -mode db"})
}

func pad(s string) string {
	return s + "-" + string(vh.Bytes(7, s, 0, 24)[0]%26+'a') + "padpadpadpadpadpadpadpadpadpad"
}

func (d *dbWorld) insertRound() error {
	i := d.next
	d.next++
	ctx := context.Background()
	_, ctxs, err := d.db.SQLExec(ctx, nil, &schema.SQLExecRequest{Sql: fmt.Sprintf("INSERT INTO t(id, v) VALUES (%d, '%s')", i, pad(fmt.Sprintf("row%d", i)))})
	if err != nil {
		return fmt.Errorf("INSERT row %d: %w", i, err)
	}
	d.rowTx[i] = ctxs[0].TxHeader().ID
	doc, _ := structpb.NewStruct(map[string]interface{}{"name": pad(fmt.Sprintf("doc%d", i)), "n": float64(i)})
	ir, err := d.db.InsertDocuments(ctx, "admin", &protomodel.InsertDocumentsRequest{CollectionName: "c", Documents: []*structpb.Struct{doc}})
	if err != nil {
		return fmt.Errorf("InsertDocuments %d: %w", i, err)
	}
	d.docTx[i] = ir.TransactionId
	h, err := d.db.Set(ctx, &schema.SetRequest{KVs: []*schema.KeyValue{{Key: []byte(fmt.Sprintf("kv%d", i)), Value: []byte(pad(fmt.Sprintf("val%d", i)))}}})
	if err != nil {
		return fmt.Errorf("Set %d: %w", i, err)
	}
	d.kvTx[i] = h.Id
	d.res.Count("db:rounds", 1)
	return nil
}

// check reads everything back; cut = largest n truncated so far
func (d *dbWorld) check(phase string) {
	ctx := context.Background()
	cut := d.cut
	for i := 1; i < d.next; i++ {
		// SQL row through the primary index
		rows, err := d.db.SQLQueryAll(ctx, nil, &schema.SQLQueryRequest{Sql: fmt.Sprintf("SELECT v FROM t WHERE id = %d", i)})
		want := pad(fmt.Sprintf("row%d", i))
		switch {
		case err == nil && len(rows) == 1 && rows[0].ValuesByPosition[0].RawValue() == want:
			d.res.Count("db:row-served", 1)
		case err != nil && d.rowTx[i] < cut:
			d.res.Count("db:old-row-error", 1)
		case d.rowTx[i] >= cut:
			d.viol("database.SQLQuery:row-at-or-after-cut-not-served-after-truncation", fmt.Sprintf("%s: SELECT v FROM t WHERE id = %d (tx %d >= cut %d): rows=%d err=%v", phase, i, d.rowTx[i], cut, len(rows), err))
		case len(rows) == 1:
			d.viol("database.SQLQuery:wrong-row-content-after-truncation", fmt.Sprintf("%s: SELECT of row %d (tx %d, cut %d) returned %v", phase, i, d.rowTx[i], cut, rows[0].ValuesByPosition[0].RawValue()))
		default:
			d.res.Count("db:old-row-silently-absent", 1)
		}
		// document through the secondary index on name
		wantName := pad(fmt.Sprintf("doc%d", i))
		rd, err := d.db.SearchDocuments(ctx, &protomodel.Query{CollectionName: "c", Expressions: []*protomodel.QueryExpression{{FieldComparisons: []*protomodel.FieldComparison{
			{Field: "name", Operator: protomodel.ComparisonOperator_EQ, Value: structpb.NewStringValue(wantName)}}}}, Limit: 1}, 0)
		var got *protomodel.DocumentAtRevision
		if err == nil {
			got, err = rd.Read(ctx)
			rd.Close()
		}
		switch {
		case err == nil && got != nil && got.Document.Fields["name"].GetStringValue() == wantName:
			d.res.Count("db:doc-served", 1)
		case err != nil && !errors.Is(err, document.ErrNoMoreDocuments) && d.docTx[i] < cut:
			d.res.Count("db:old-doc-error", 1)
		case d.docTx[i] >= cut:
			d.viol("database.SearchDocuments:document-at-or-after-cut-not-served-after-truncation", fmt.Sprintf("%s: document %d (tx %d >= cut %d): err=%v", phase, i, d.docTx[i], cut, err))
		case err == nil && got != nil:
			d.viol("database.SearchDocuments:wrong-document-content-after-truncation", fmt.Sprintf("%s: document %d (tx %d, cut %d): %v", phase, i, d.docTx[i], cut, got.Document))
		default:
			d.res.Count("db:old-doc-silently-absent", 1)
		}
		// plain key
		e, err := d.db.Get(ctx, &schema.KeyRequest{Key: []byte(fmt.Sprintf("kv%d", i))})
		switch {
		case err == nil && string(e.Value) == pad(fmt.Sprintf("val%d", i)):
			d.res.Count("db:kv-served", 1)
		case err != nil && d.kvTx[i] < cut:
			d.res.Count("db:old-kv-error", 1)
		default:
			d.viol("database.Get:value-at-or-after-cut-not-served-after-truncation", fmt.Sprintf("%s: Get(kv%d) (tx %d, cut %d): err=%v", phase, i, d.kvTx[i], cut, err))
		}
	}
	// catalog: the table and the collection are there
	if _, err := d.db.GetCollection(ctx, &protomodel.GetCollectionRequest{Name: "c"}); err != nil {
		d.viol("database.GetCollection:collection-lost-after-truncation", fmt.Sprintf("%s: %v", phase, err))
	}
	if rows, err := d.db.SQLQueryAll(ctx, nil, &schema.SQLQueryRequest{Sql: fmt.Sprintf("SELECT COUNT(*) FROM t WHERE id >= %d", d.firstRowAtOrAfter(cut))}); err != nil || len(rows) != 1 {
		d.viol("database.SQLQuery:table-scan-from-cut-fails-after-truncation", fmt.Sprintf("%s: SELECT COUNT(*) over the rows written at or after the cut: %v", phase, err))
	}
	// every tx can be exported (liveness: a failing export of an old tx must not block the next one)
	st, err := d.db.CurrentState()
	if err != nil {
		d.viol("database.CurrentState:error-after-truncation", fmt.Sprintf("%s: %v", phase, err))
		return
	}
	for id := uint64(1); id <= st.TxId && !d.hung; id++ {
		var xerr error
		var bs []byte
		hung := blocked(func() { bs, _, _, xerr = d.db.ExportTxByID(ctx, &schema.ExportTxRequest{Tx: id}) })
		d.res.Count("db:ExportTxByID", 1)
		switch {
		case hung:
			d.hung = true
			d.res.Violate(sigExpHang, fmt.Sprintf("database: %s: ExportTxByID(%d) did not return within %v", phase, id, hangDeadline),
				map[string]interface{}{"goroutines": goroutineDump(), "events": d.events})
		case id >= cut && (xerr != nil || len(bs) == 0 || bs[len(bs)-1] != 0):
			d.viol(sigExpFull, fmt.Sprintf("%s: ExportTxByID(%d) with %d >= cut %d: err=%v (or exported by digest)", phase, id, id, cut, xerr))
		}
	}
	d.res.Evaluations += d.next
}

func (d *dbWorld) firstRowAtOrAfter(cut uint64) int {
	for i := 1; i < d.next; i++ {
		if d.rowTx[i] >= cut {
			return i
		}
	}
	return d.next
}

func (d *dbWorld) reopen(phase string) bool {
	if err := d.db.Close(); err != nil {
		d.viol("database.Close:error-after-truncation", fmt.Sprintf("%s: %v", phase, err))
		return false
	}
	db, err := database.OpenDB("db", nil, d.opts(), logger.NewMemoryLoggerWithLevel(logger.LogError))
	if err != nil {
		d.viol("database.OpenDB:fails-after-truncation", fmt.Sprintf("%s: %v", phase, err))
		return false
	}
	d.db = db
	d.events = append(d.events, "restart")
	d.res.Count("db:restart", 1)
	return true
}

func (d *dbWorld) more(phase string, k int) bool {
	for j := 0; j < k; j++ {
		if err := d.insertRound(); err != nil {
			d.viol("database:write-fails-after-truncation", fmt.Sprintf("%s: %v", phase, err))
			return false
		}
	}
	return true
}

func runDB(seed int64, dir string, runs, rounds int, res *vh.Result) {
	vh.Must(os.MkdirAll(dir, 0o755), "mkdir")
	runRefusedExport(filepath.Join(dir, "refused"), res)
	cfgs := [][2]int{{2, 256}, {1, 192}, {3, 512}, {2, 1 << 16}}
	for r := 0; r < runs && r < len(cfgs); r++ {
		var clock int64
		d := &dbWorld{dir: filepath.Join(dir, fmt.Sprintf("r%d", r)), m: cfgs[r][0], fsize: cfgs[r][1], clock: &clock,
			base: time.Now().Add(-40 * 24 * time.Hour), step: time.Duration(22*24*60/(3*rounds)) * time.Minute, res: res, // the inserts span 22 days
			rowTx: map[int]uint64{}, docTx: map[int]uint64{}, kvTx: map[int]uint64{}, next: 1, run: r}
		vh.Must(os.MkdirAll(d.dir, 0o755), "mkdir")
		db, err := database.NewDB("db", nil, d.opts(), logger.NewMemoryLoggerWithLevel(logger.LogError))
		vh.Must(err, "NewDB")
		d.db = db
		ctx := context.Background()
		_, _, err = db.SQLExec(ctx, nil, &schema.SQLExecRequest{Sql: "CREATE TABLE t(id INTEGER, v VARCHAR[128], PRIMARY KEY id); CREATE INDEX ON t(v);"})
		vh.Must(err, "CREATE TABLE")
		_, err = db.CreateCollection(ctx, "admin", &protomodel.CreateCollectionRequest{Name: "c",
			Fields:  []*protomodel.Field{{Name: "name", Type: protomodel.FieldType_STRING}, {Name: "n", Type: protomodel.FieldType_DOUBLE}},
			Indexes: []*protomodel.Index{{Fields: []string{"name"}}}})
		vh.Must(err, "CreateCollection")
		for i := 0; i < rounds; i++ {
			vh.Must(d.insertRound(), "insert")
		}
		d.check("before truncation")
		// (1) database truncator API: Plan at a point in time, then TruncateUptoTx
		tr := database.NewVlogTruncator(db, logger.NewMemoryLoggerWithLevel(logger.LogError))
		hdr, err := tr.Plan(ctx, d.base.Add(8*24*time.Hour))
		vh.Must(err, "Plan")
		if err := tr.TruncateUptoTx(ctx, hdr.Id); err != nil {
			d.viol("database.Truncator.TruncateUptoTx:error", fmt.Sprintf("TruncateUptoTx(%d): %v", hdr.Id, err))
		}
		d.cut = hdr.Id
		d.events = append(d.events, fmt.Sprintf("Plan(base+8d) -> tx %d; vlogTruncator.TruncateUptoTx(%d)", hdr.Id, hdr.Id))
		res.Count("db:truncations", 1)
		d.check("after truncation 1")
		if !d.more("after truncation 1", 3) || !d.reopen("after truncation 1") {
			continue
		}
		d.check("after truncation 1 + restart")
		if !d.more("after truncation 1 + restart", 3) {
			continue
		}
		// (2) pkg/truncator with a retention period (plans at the beginning of the day now - retention)
		retention := 25 * 24 * time.Hour
		day := time.Now().Add(-retention)
		planAt := time.Date(day.Year(), day.Month(), day.Day(), 0, 0, 0, 0, day.Location())
		want, err := database.NewVlogTruncator(d.db, logger.NewMemoryLoggerWithLevel(logger.LogError)).Plan(ctx, planAt)
		vh.Must(err, "Plan 2")
		t2 := truncator.NewTruncator(d.db, retention, 0, logger.NewMemoryLoggerWithLevel(logger.LogError))
		for rep := 0; rep < 2; rep++ { // the second call repeats the same truncation
			var terr error
			hung := blocked(func() { terr = t2.Truncate(ctx, retention) })
			if hung {
				d.hung = true
				d.viol("truncator.Truncate:blocked", "Truncate did not return")
				break
			}
			if terr != nil {
				d.viol("truncator.Truncate:error", fmt.Sprintf("Truncate(retention 25d), call %d: %v", rep+1, terr))
			}
			if want.Id > d.cut {
				d.cut = want.Id
			}
			d.events = append(d.events, fmt.Sprintf("truncator.Truncate(retention 25d) -> TruncateUptoTx(%d)", want.Id))
			res.Count("db:truncations", 1)
			d.check(fmt.Sprintf("after truncation 2 (call %d)", rep+1))
			if d.hung || !d.more("after truncation 2", 2) {
				break
			}
		}
		if d.hung {
			continue
		}
		if d.reopen("after truncation 2") {
			d.check("after truncation 2 + restart")
			d.more("after truncation 2 + restart", 2)
			d.check("end")
			d.db.Close()
		}
		res.Traces++
		res.Distinct++
		os.RemoveAll(d.dir)
	}
}

// runRefusedExport: resources held after a refused export.  One value log, file size 256, read tx-holder pool of 3.
// tx 1 = one 100-byte value (offset 0), tx 2 = three 100-byte values (offsets 101, 202, 303: chunk files 0, 0, 1),
// tx 3 = one 100-byte value (offset 404: file 1).  Truncation at tx 3 through the database truncator removes file 0, so
// tx 2 is partially truncated and ExportTxByID(2) is legitimately refused.  A replica retrying that export pool size + 2
// times must leave the database able to serve Get, ExportTxByID of the last tx, TxByID and VerifiableTxByID.
func runRefusedExport(dir string, res *vh.Result) {
	const pool = 3
	vh.Must(os.MkdirAll(dir, 0o755), "mkdir")
	so := store.DefaultOptions().WithSynced(false).WithEmbeddedValues(false).WithMaxConcurrency(8).WithMaxIOConcurrency(1).
		WithFileSize(256).WithMaxValueLen(1 << 12).WithWriteBufferSize(1 << 14).WithLogger(logger.NewMemoryLoggerWithLevel(logger.LogError))
	so.WithIndexOptions(so.IndexOpts.WithFlushBufferSize(1 << 14).WithCacheSize(256))
	so.WithAHTOptions(so.AHTOpts.WithWriteBufferSize(1 << 14))
	db, err := database.NewDB("db", nil, database.DefaultOptions().WithDBRootPath(dir).WithStoreOptions(so).WithReadTxPoolSize(pool),
		logger.NewMemoryLoggerWithLevel(logger.LogError))
	vh.Must(err, "NewDB")
	defer db.Close()
	ctx := context.Background()
	val := func(i int) []byte { return vh.Bytes(11, "refused", i, 100) }
	set := func(keys ...int) uint64 {
		var kvs []*schema.KeyValue
		for _, k := range keys {
			kvs = append(kvs, &schema.KeyValue{Key: []byte(fmt.Sprintf("rk%d", k)), Value: val(k)})
		}
		h, err := db.Set(ctx, &schema.SetRequest{KVs: kvs})
		vh.Must(err, "Set")
		return h.Id
	}
	set(1)
	partial := set(2, 3, 4)
	cutTx := set(5)
	if err := database.NewVlogTruncator(db, logger.NewMemoryLoggerWithLevel(logger.LogError)).TruncateUptoTx(ctx, cutTx); err != nil {
		vh.Fatalf("refused export: TruncateUptoTx(%d): %v", cutTx, err)
	}
	steps := []string{"1 value log, file size 256, ReadTxPoolSize 3", "Set(1 x 100 bytes) = tx 1; Set(3 x 100 bytes) = tx 2; Set(1 x 100 bytes) = tx 3",
		fmt.Sprintf("vlogTruncator.TruncateUptoTx(%d)", cutTx)}
	viol := func(sig, text string) {
		res.Violate(sig, "database (refused export): "+text, map[string]interface{}{"steps": steps, "how": "harness/cmd/c14 -mode db (runRefusedExport)"})
	}
	classify := func(what string, err error) {
		if errors.Is(err, database.ErrTxReadPoolExhausted) {
			viol("database.ExportTxByID:refused-export-leaks-tx-holder:read-pool-exhausted", fmt.Sprintf("%s after %d refused ExportTxByID(%d): %v", what, pool+2, partial, err))
		} else {
			viol("database:request-fails-after-refused-export", fmt.Sprintf("%s after %d refused ExportTxByID(%d): %v", what, pool+2, partial, err))
		}
	}
	refused := 0
	for i := 0; i < pool+2; i++ {
		var xerr error
		if blocked(func() { _, _, _, xerr = db.ExportTxByID(ctx, &schema.ExportTxRequest{Tx: partial}) }) {
			viol(sigExpHang, fmt.Sprintf("ExportTxByID(%d), call %d, did not return", partial, i+1))
			return
		}
		switch {
		case xerr == nil:
			res.Count("db:refusal-layout-not-reached", 1) // tx 2 is not partially truncated: the layout differs from the intended one
			return
		case errors.Is(xerr, database.ErrTxReadPoolExhausted):
			viol("database.ExportTxByID:refused-export-leaks-tx-holder:read-pool-exhausted", fmt.Sprintf("call %d of ExportTxByID(%d) (partially truncated tx): %v", i+1, partial, xerr))
			return
		case strings.Contains(xerr.Error(), "partially truncated"):
			refused++
		default:
			res.Count("db:refusal-layout-not-reached", 1)
			return
		}
	}
	steps = append(steps, fmt.Sprintf("ExportTxByID(%d) x %d: refused (partially truncated transaction)", partial, refused))
	res.Count("db:refused-exports", refused)
	st, err := db.CurrentState()
	vh.Must(err, "CurrentState")
	if e, err := db.Get(ctx, &schema.KeyRequest{Key: []byte("rk5")}); err != nil || string(e.Value) != string(val(5)) {
		classify("Get(rk5)", err)
	}
	if bs, _, _, err := db.ExportTxByID(ctx, &schema.ExportTxRequest{Tx: st.TxId}); err != nil || len(bs) == 0 {
		classify(fmt.Sprintf("ExportTxByID(%d)", st.TxId), err)
	}
	if _, err := db.TxByID(ctx, &schema.TxRequest{Tx: cutTx}); err != nil {
		classify(fmt.Sprintf("TxByID(%d)", cutTx), err)
	}
	if _, err := db.VerifiableTxByID(ctx, &schema.VerifiableTxRequest{Tx: st.TxId, ProveSinceTx: cutTx}); err != nil {
		classify(fmt.Sprintf("VerifiableTxByID(%d)", st.TxId), err)
	}
	// and the same number of requests again: every one of them takes and returns a tx holder
	for i := 0; i < pool+2; i++ {
		if _, err := db.TxByID(ctx, &schema.TxRequest{Tx: cutTx}); err != nil {
			classify(fmt.Sprintf("TxByID(%d), request %d", cutTx, i+1), err)
			break
		}
	}
	res.Count("db:requests-after-refused-exports", 1)
	res.Traces++
}
