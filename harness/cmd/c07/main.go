// c07: replication. A real primary store and one or two real replica stores are driven the way
// pkg/replication drives them (ExportTx on the primary, ReplicateTx on the replica, commit allowance from the
// number of replicas that durably hold a tx, AllowCommitUpto on the replicas after the primary committed),
// with duplicated, out-of-order and altered deliveries, replica restarts and discards.  The merged hook trace
// of all stores is validated by TLC against spec/Replication.tla (spec/TraceReplication.tla) and every store's
// own events against spec/Store.tla (spec/TraceStore.tla).
package main

import (
	"context"
	"crypto/sha256"
	"encoding/binary"
	"encoding/json"
	"errors"
	"flag"
	"fmt"
	"math/rand"
	"os"
	"path/filepath"
	"runtime"
	"sort"
	"sync"
	"sync/atomic"
	"time"

	"github.com/codenotary/immudb/embedded/logger"
	"github.com/codenotary/immudb/embedded/store"

	"verifharness/storetrace"
	"verifharness/vh"
)

type cfg struct {
	SyncAcks, NReplicas int
	SkipIntegrity       bool
	HdrVersion          int
	Embedded            bool
	FileSize            int
	Txs, Workers        int
	Faults              bool
	Restart, Discard    bool
}

func pick(rng *rand.Rand, run int) cfg {
	c := cfg{
		NReplicas:     1 + run%2,
		SkipIntegrity: run%5 == 4,
		HdrVersion:    run % 2,
		Embedded:      run%4 == 3,
		FileSize:      []int{1024, 4096, 1 << 20}[run%3],
		Txs:           8 + rng.Intn(8),
		Workers:       2 + rng.Intn(2),
		Faults:        run%3 != 0,
		Restart:       run%4 == 1,
		Discard:       run%2 == 0,
	}
	c.SyncAcks = []int{0, 1, c.NReplicas}[run%3]
	if c.SyncAcks > 0 {
		// a replica following its primary does not discard txs it has acknowledged; arbitrary discards are only
		// exercised with asynchronous replication
		c.Discard = false
	}
	return c
}

func (c cfg) opts(primary bool) *store.Options {
	synced := !primary || c.SyncAcks > 0
	ext := !primary || c.SyncAcks > 0
	o := store.DefaultOptions().WithSynced(synced).WithSyncFrequency(time.Millisecond).
		WithEmbeddedValues(c.Embedded).WithWriteTxHeaderVersion(c.HdrVersion).WithFileSize(c.FileSize).
		WithMaxActiveTransactions(32).WithMaxConcurrency(16).WithExternalCommitAllowance(ext).
		WithMaxTxEntries(8).WithMaxKeyLen(32).WithMaxValueLen(256).WithWriteBufferSize(1 << 14).
		WithLogger(logger.NewMemoryLoggerWithLevel(logger.LogError))
	o.WithIndexOptions(o.IndexOpts.WithFlushBufferSize(1 << 14).WithCacheSize(64))
	o.WithAHTOptions(o.AHTOpts.WithWriteBufferSize(1 << 14))
	return o
}

type replica struct {
	name string
	path string
	st   *store.ImmuStore
	mu   sync.Mutex // serialises restart/discard with the replicator loop
	dur  uint64     // durably precommitted up to (as the replicator learnt from ReplicateTx results)
	// out-of-order deliveries still in flight: while one is, the precommitted id may move under a delivery that is itself rejected,
	// so "a rejected / duplicated delivery has no effect" cannot be judged from the precommitted id
	ahead int32
}

type world struct {
	c    cfg
	tr   *storetrace.Tracer
	p    *store.ImmuStore
	pp   string
	rs   []*replica
	res  *vh.Result
	amu  sync.Mutex
	done bool

	diverged bool
}

// field of the exported bytes an offset falls into (for the signature of an accepted alteration)
func fieldAt(export []byte, off int) string {
	hl := int(binary.BigEndian.Uint32(export))
	if off < 4 {
		return "hdrLen"
	}
	o := off - 4
	if o >= hl {
		return "payload"
	}
	switch {
	case o < 8:
		return "hdr.id"
	case o < 40:
		return "hdr.prevAlh"
	case o < 48:
		return "hdr.ts"
	case o < 50:
		return "hdr.version"
	}
	// tail of the header: Eh | BlTxID | BlRoot are the last 72 bytes
	t := hl - o
	switch {
	case t <= 32:
		return "hdr.blRoot"
	case t <= 40:
		return "hdr.blTxID"
	case t <= 72:
		return "hdr.eh"
	}
	return "hdr.nentries-or-metadata"
}

func (w *world) allowPrimary() {
	if w.c.SyncAcks == 0 {
		return
	}
	w.amu.Lock()
	defer w.amu.Unlock()
	ds := []uint64{}
	for _, r := range w.rs {
		ds = append(ds, r.dur)
	}
	sort.Slice(ds, func(i, j int) bool { return ds[i] > ds[j] })
	if len(ds) >= w.c.SyncAcks {
		n := ds[w.c.SyncAcks-1]
		if n > 0 {
			w.p.AllowCommitUpto(n)
		}
	}
}

func (w *world) replicator(r *replica, rng *rand.Rand, stop chan struct{}, wg *sync.WaitGroup) {
	defer wg.Done()
	ctx := context.Background()
	txh := store.NewTx(8, 32)
	var lastFaultFor uint64
	for {
		select {
		case <-stop:
			return
		default:
		}
		r.mu.Lock()
		next := r.st.LastPrecommittedTxID() + 1
		if next > w.p.LastPrecommittedTxID() {
			// nothing to fetch: keep allowances moving
			pc := w.p.LastCommittedTxID()
			if rp := r.st.LastPrecommittedTxID(); pc > rp {
				pc = rp
			}
			r.st.AllowCommitUpto(pc)
			r.mu.Unlock()
			w.allowPrimary()
			time.Sleep(200 * time.Microsecond)
			continue
		}
		export, err := w.p.ExportTx(next, true, false, txh)
		if err != nil {
			r.mu.Unlock()
			time.Sleep(200 * time.Microsecond)
			continue
		}
		primaryAlh := txh.Header().Alh()
		if w.c.Faults && next != lastFaultFor {
			lastFaultFor = next // at most one injected fault per transaction
			switch rng.Intn(5) {
			case 0: // duplicate of an older tx: no effect
				if next > 1 {
					old := 1 + uint64(rng.Intn(int(next-1)))
					if dup, err := w.p.ExportTx(old, true, false, txh); err == nil {
						concurrent := atomic.LoadInt32(&r.ahead) > 0
						before := r.st.LastPrecommittedTxID()
						_, derr := r.st.ReplicateTx(ctx, dup, w.c.SkipIntegrity, false)
						if derr == nil || (!concurrent && r.st.LastPrecommittedTxID() != before) {
							w.res.Violate("replication:duplicate-delivery-has-an-effect", fmt.Sprintf("replica %s: ReplicateTx of already replicated tx %d returned %v and precommitted moved %d -> %d", r.name, old, derr, before, r.st.LastPrecommittedTxID()), nil)
						}
						w.res.Count("duplicates", 1)
					}
				}
			case 1: // altered delivery
				alt := append([]byte(nil), export...)
				off := rng.Intn(len(alt))
				alt[off] ^= byte(1 << uint(rng.Intn(8)))
				field := fieldAt(export, off)
				concurrent := atomic.LoadInt32(&r.ahead) > 0
				before := r.st.LastPrecommittedTxID()
				var hdr *store.TxHeader
				var aerr error
				pn, hung, msg := vh.Guard(10*time.Second, func() {
					actx, cancel := context.WithTimeout(ctx, 2*time.Second)
					defer cancel()
					hdr, aerr = r.st.ReplicateTx(actx, alt, w.c.SkipIntegrity, false)
				})
				w.res.Count("alterations", 1)
				if pn || hung {
					w.res.Violate("replication:altered-export:panic-or-hang:"+field, msg, map[string]interface{}{"offset": off})
				} else if aerr == nil {
					w.res.Count("alterations-accepted:"+field, 1)
					// the Precommit hook event carries the accumulated hash the replica stored; TLC compares it with the primary's
					w.tr.Log(r.path, storetrace.Event{"ev": "Accepted", "id": hdr.ID, "field": field, "offset": off, "same": hdr.Alh() == primaryAlh})
					if hdr.Alh() != primaryAlh {
						// the replica now holds a tx that is not the primary's: the run ends here (TLC reports it)
						w.amu.Lock()
						w.diverged = true
						w.amu.Unlock()
						r.mu.Unlock()
						return
					} else {
						r.dur = hdr.ID
					}
				} else {
					w.tr.Log(r.path, storetrace.Event{"ev": "Rejected", "id": next, "field": field})
					if !concurrent && r.st.LastPrecommittedTxID() != before {
						w.res.Violate("replication:rejected-export-has-an-effect:"+field, fmt.Sprintf("replica %s: ReplicateTx failed (%v) but precommitted moved %d -> %d", r.name, aerr, before, r.st.LastPrecommittedTxID()), nil)
					}
				}
				r.mu.Unlock()
				continue
			case 2: // out of order: tx next+1 is delivered first and has to wait for its predecessor
				if next+1 <= w.p.LastPrecommittedTxID() {
					if ahead, err := w.p.ExportTx(next+1, true, false, txh); err == nil {
						var owg sync.WaitGroup
						owg.Add(1)
						atomic.AddInt32(&r.ahead, 1)
						go func() {
							defer owg.Done()
							defer atomic.AddInt32(&r.ahead, -1)
							octx, cancel := context.WithTimeout(ctx, 3*time.Second)
							defer cancel()
							if h, err := r.st.ReplicateTx(octx, ahead, w.c.SkipIntegrity, false); err == nil {
								w.amu.Lock()
								if h.ID > r.dur {
									r.dur = h.ID
								}
								w.amu.Unlock()
							}
						}()
						time.Sleep(300 * time.Microsecond)
						defer owg.Wait()
						w.res.Count("out-of-order", 1)
					}
				}
			}
		}
		hdr, err := r.st.ReplicateTx(ctx, export, w.c.SkipIntegrity, false)
		if err == nil {
			w.amu.Lock()
			if hdr.ID > r.dur {
				r.dur = hdr.ID
			}
			w.amu.Unlock()
			w.res.Count("replicated", 1)
		} else if !errors.Is(err, store.ErrTxAlreadyCommitted) {
			w.res.Count(fmt.Sprintf("replicate-error:%s:%+v", err.Error(), w.c), 1)
			time.Sleep(200 * time.Microsecond)
		}
		pc := w.p.LastCommittedTxID()
		if rp := r.st.LastPrecommittedTxID(); pc > rp {
			pc = rp
		}
		r.st.AllowCommitUpto(pc)
		r.mu.Unlock()
		w.allowPrimary()
	}
}

type kv struct{ k, v []byte }

func (w *world) observe(path string, st *store.ImmuStore) ([][sha256.Size]byte, []([]kv)) {
	n, _ := st.CommittedAlh()
	txh := store.NewTx(st.MaxTxEntries(), st.MaxKeyLen())
	alhs := make([][sha256.Size]byte, 0, n)
	var contents []([]kv)
	for id := uint64(1); id <= n; id++ {
		if err := st.ReadTx(id, false, txh); err != nil {
			w.tr.Log(path, storetrace.Event{"ev": "Observed", "id": id, "alh": -1, "chainOk": false, "content": -1, "via": "ReadTx", "err": err.Error()})
			return alhs, contents
		}
		hdr := txh.Header()
		chainOk := hdr.ID == id && int(hdr.BlTxID) < int(id)
		if id == 1 {
			chainOk = chainOk && hdr.PrevAlh == storetrace.Genesis
		} else {
			chainOk = chainOk && hdr.PrevAlh == alhs[id-2]
		}
		if chainOk && hdr.BlTxID > 0 {
			chainOk = hdr.BlRoot == storetrace.RefRoot(alhs[:hdr.BlTxID])
		}
		alhs = append(alhs, hdr.Alh())
		var es []kv
		h := sha256.New()
		for _, e := range txh.Entries() {
			v, err := st.ReadValue(e)
			if err != nil {
				v = []byte("ERR:" + err.Error())
			}
			es = append(es, kv{append([]byte(nil), e.Key()...), v})
			h.Write(e.Key())
			h.Write([]byte{0})
			h.Write(v)
			h.Write([]byte{0})
		}
		var d [sha256.Size]byte
		copy(d[:], h.Sum(nil))
		contents = append(contents, es)
		w.tr.Log(path, storetrace.Event{"ev": "Observed", "id": id, "alh": w.tr.Num(hdr.Alh()), "chainOk": chainOk, "content": w.tr.Num(d), "via": "ReadTx"})
	}
	return alhs, contents
}

func runOne(dir string, seed int64, runIdx int, res *vh.Result, out *os.File) {
	done := make(chan struct{})
	defer close(done)
	go func() {
		select {
		case <-done:
		case <-time.After(90 * time.Second):
			buf := make([]byte, 1<<22)
			n := runtime.Stack(buf, true)
			fmt.Fprintf(os.Stderr, "WATCHDOG run %d stuck\n%s\n", runIdx, buf[:n])
			os.Exit(4)
		}
	}()
	rng := rand.New(rand.NewSource(seed*1000003 + int64(runIdx)))
	c := pick(rng, runIdx)
	root := filepath.Join(dir, fmt.Sprintf("run%d", runIdx))
	vh.Must(os.MkdirAll(root, 0755), "mkdir")
	defer os.RemoveAll(root)
	tr := storetrace.New(root)
	tr.Install()
	defer storetrace.Uninstall()
	w := &world{c: c, tr: tr, res: res, pp: filepath.Join(root, "p")}
	tr.MaxActive[w.pp] = 32
	tr.Log(w.pp, storetrace.Event{"ev": "Reset", "synced": c.SyncAcks > 0, "ext": c.SyncAcks > 0, "syncAcks": c.SyncAcks, "cfg": fmt.Sprintf("%+v", c)})
	var err error
	w.p, err = store.Open(w.pp, c.opts(true))
	vh.Must(err, "open primary")
	vh.Must(tr.Opened(w.pp, w.p, true), "tracer.Opened")
	for i := 0; i < c.NReplicas; i++ {
		r := &replica{name: fmt.Sprintf("r%d", i+1)}
		r.path = filepath.Join(root, r.name)
		tr.MaxActive[r.path] = 32
		tr.Log(r.path, storetrace.Event{"ev": "Reset", "synced": true, "ext": true, "syncAcks": c.SyncAcks})
		r.st, err = store.Open(r.path, c.opts(false))
		vh.Must(err, "open replica")
		vh.Must(tr.Opened(r.path, r.st, true), "tracer.Opened")
		w.rs = append(w.rs, r)
	}
	stop := make(chan struct{})
	var rwg sync.WaitGroup
	for i, r := range w.rs {
		rwg.Add(1)
		go w.replicator(r, rand.New(rand.NewSource(seed*31+int64(runIdx)*7+int64(i))), stop, &rwg)
	}
	// primary workload
	var wg sync.WaitGroup
	per := c.Txs / c.Workers
	for k := 0; k < c.Workers; k++ {
		wg.Add(1)
		go func(k int) {
			defer wg.Done()
			wr := rand.New(rand.NewSource(seed*17 + int64(runIdx)*13 + int64(k)))
			for i := 0; i < per; i++ {
				tx, err := w.p.NewWriteOnlyTx(context.Background())
				if err != nil {
					return
				}
				ne := 1 + wr.Intn(3)
				for e := 0; e < ne; e++ {
					v := make([]byte, []int{0, 3, 60, 200}[wr.Intn(4)])
					wr.Read(v)
					tx.Set([]byte(fmt.Sprintf("k%d-%d", k, wr.Intn(6))), nil, v)
				}
				if wr.Intn(4) == 0 && c.HdrVersion == 1 {
					md := store.NewTxMetadata()
					md.WithExtra([]byte("extra"))
					tx.WithMetadata(md)
				}
				w.amu.Lock()
				dv := w.diverged
				w.amu.Unlock()
				if dv {
					tx.Cancel()
					return
				}
				cctx, cancel := context.WithTimeout(context.Background(), 3*time.Second)
				hdr, err := tx.Commit(cctx)
				cancel()
				if err == nil {
					res.Count("primary-commits", 1)
					_ = hdr
				} else {
					res.Count("primary-commit-error", 1)
				}
			}
		}(k)
	}
	// maintenance on replicas while replication is running
	if c.Restart || c.Discard {
		time.Sleep(3 * time.Millisecond)
		for _, r := range w.rs {
			r.mu.Lock()
			if c.Discard {
				if p, cm := r.st.LastPrecommittedTxID(), r.st.LastCommittedTxID(); p > cm {
					r.st.DiscardPrecommittedTxsSince(cm + 1)
					w.amu.Lock()
					if r.dur > cm {
						r.dur = cm
					}
					w.amu.Unlock()
					res.Count("replica-discards", 1)
				}
			}
			if c.Restart {
				vh.Must(r.st.Close(), "replica close")
				r.st, err = store.Open(r.path, c.opts(false))
				vh.Must(err, "replica reopen")
				vh.Must(tr.Opened(r.path, r.st, false), "tracer.Opened")
				res.Count("replica-restarts", 1)
			}
			r.mu.Unlock()
		}
	}
	wg.Wait()
	// drain: every primary tx replicated and committed everywhere
	deadline := time.Now().Add(20 * time.Second)
	for time.Now().Before(deadline) && !w.diverged {
		ok := w.p.LastCommittedTxID() == w.p.LastPrecommittedTxID()
		for _, r := range w.rs {
			r.mu.Lock()
			ok = ok && r.st.LastCommittedTxID() == w.p.LastCommittedTxID()
			r.mu.Unlock()
		}
		if ok {
			break
		}
		time.Sleep(time.Millisecond)
	}
	close(stop)
	rwg.Wait()
	// final comparison: same ids, headers, entries, values, hashes; proofs of the replica verify against primary states
	palhs, pcont := w.observe(w.pp, w.p)
	for _, r := range w.rs {
		if w.diverged {
			break
		}
		ralhs, rcont := w.observe(r.path, r.st)
		same := len(ralhs) == len(palhs)
		for i := 0; same && i < len(palhs); i++ {
			same = ralhs[i] == palhs[i] && fmt.Sprint(rcont[i]) == fmt.Sprint(pcont[i])
		}
		proofOk := true
		n := uint64(len(ralhs))
		if same && n >= 2 {
			for _, from := range []uint64{1, n / 2, n - 1} {
				if from < 1 {
					continue
				}
				sh, err1 := r.st.ReadTxHeader(from, false, false)
				th, err2 := r.st.ReadTxHeader(n, false, false)
				if err1 != nil || err2 != nil {
					proofOk = false
					break
				}
				dp, err := r.st.DualProof(sh, th)
				if err != nil || !store.VerifyDualProof(dp, from, n, palhs[from-1], palhs[n-1]) {
					proofOk = false
				}
			}
		}
		tr.Log(r.path, storetrace.Event{"ev": "Converged", "same": same, "proofOk": proofOk, "n": n, "pn": len(palhs)})
		res.Evaluations++
	}
	w.p.Close()
	for _, r := range w.rs {
		r.st.Close()
	}
	res.Traces++
	enc := json.NewEncoder(out)
	for _, e := range tr.Events {
		enc.Encode(e)
	}
	res.Count("events", len(tr.Events))
	if runIdx == 0 {
		res.Sample(map[string]interface{}{"cfg": fmt.Sprintf("%+v", c), "events": len(tr.Events)}, 3)
	}
}

func main() {
	seed := flag.Int64("seed", 1, "seed")
	runs := flag.Int("runs", 9, "runs")
	dir := flag.String("dir", "", "scratch directory")
	outp := flag.String("out", "", "ndjson trace output")
	flag.Parse()
	os.RemoveAll(*dir)
	os.MkdirAll(*dir, 0755)
	out, err := os.Create(*outp)
	vh.Must(err, "create trace")
	res := vh.NewResult()
	for i := 0; i < *runs; i++ {
		if os.Getenv("VERIF_DEBUG") != "" {
			fmt.Fprintf(os.Stderr, "run %d\n", i)
		}
		runOne(*dir, *seed, i, res, out)
	}
	out.Close()
	res.Distinct = res.Traces
	res.Emit()
}
