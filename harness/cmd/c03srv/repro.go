package main

import (
	"context"
	"fmt"
	"os"
	"os/exec"
	"path/filepath"
	"strings"
	"time"

	"github.com/codenotary/immudb/embedded/logger"
	"github.com/codenotary/immudb/embedded/store"
	"github.com/codenotary/immudb/embedded/verifhook"

	"verifharness/vh"
)

// reproTsFile is the minimal form of the defect the server schedules run into when a process is killed while a database is
// being closed (UnloadDatabase, eviction, shutdown):
//
//	tbtree.Close writes the TIMESTAMP file (the index's logical time, made durable by fsync + rename) BEFORE it flushes the
//	tree.  A stop between the two leaves an index whose TIMESTAMP says "indexed up to tx n" while the flushed tree does not
//	hold the entries inserted since the previous flush; at the next open the tree's time is raised to the file's value
//	and the indexer resumes at n+1: the keys of the unflushed transactions are missing from the index for ever.
//
// Needs a store whose last indexed transactions had no entry for the index (IncreaseTs), which is the normal case under the
// server: every database has one index per key space (key-value, sorted sets, SQL, documents).
//
// Steps: multi-indexing store with one index on prefix 0x00; tx1 sets "\x00a"; FlushIndexes (an index that was never flushed
// is rebuilt from scratch at open, the file is ignored then); tx2 sets "\x00c" (inserted into the tree in memory); tx3 sets
// "\x01b" (not in the index: the index only moves its time to 3); wait until all are indexed; Close, and at the moment the
// TIMESTAMP file has been renamed into place (hook event FRename) copy the directory = the image a kill at that instant
// leaves; open the copy; wait for the indexing of tx 3; Get("\x00c").
func reproTsFile(dir string, res *vh.Result) {
	opts := func() *store.Options {
		o := store.DefaultOptions().WithSynced(true).WithSyncFrequency(time.Millisecond).WithMultiIndexing(true).
			WithMaxConcurrency(2).WithMaxTxEntries(4).WithMaxKeyLen(16).WithMaxValueLen(64).WithWriteBufferSize(1 << 12).
			WithLogger(logger.NewMemoryLoggerWithLevel(logger.LogError))
		o.WithIndexOptions(o.IndexOpts.WithFlushBufferSize(1 << 12).WithCacheSize(1 << 16))
		o.WithAHTOptions(o.AHTOpts.WithWriteBufferSize(1 << 12))
		return o
	}
	spec := &store.IndexSpec{SourcePrefix: []byte{0}, TargetPrefix: []byte{0}}
	path := filepath.Join(dir, "st")
	img := filepath.Join(dir, "img")
	vh.Must(os.MkdirAll(dir, 0755), "repro: mkdir")
	os.RemoveAll(path)
	os.RemoveAll(img)
	ctx, cancel := context.WithTimeout(context.Background(), 30*time.Second)
	defer cancel()
	st, err := store.Open(path, opts())
	vh.Must(err, "repro: open")
	vh.Must(st.InitIndexing(spec), "repro: InitIndexing")
	for i, k := range []string{"\x00a", "\x00c", "\x01b"} {
		tx, err := st.NewWriteOnlyTx(ctx)
		vh.Must(err, "repro: new tx")
		vh.Must(tx.Set([]byte(k), nil, []byte("v")), "repro: set")
		_, err = tx.Commit(ctx)
		vh.Must(err, "repro: commit")
		if i == 0 {
			vh.Must(st.WaitForIndexingUpto(ctx, 1), "repro: wait for indexing")
			vh.Must(st.FlushIndexes(0, true), "repro: flush indexes")
		}
	}
	vh.Must(st.WaitForIndexingUpto(ctx, 3), "repro: wait for indexing")
	if _, err := st.Get(ctx, []byte("\x00c")); err != nil {
		vh.Fatalf("repro: the key is not readable before the close: %v", err)
	}
	copied := false
	verifhook.SetSink(func(ev string, kv ...interface{}) {
		if ev == "FRename" && !copied && len(kv) > 1 && strings.HasPrefix(kv[1].(string), path) && strings.HasSuffix(kv[1].(string), "TIMESTAMP") {
			// (the hook fires right after the rename: nothing of the flush that follows has been written yet)
			copied = true
			if out, err := exec.Command("cp", "-r", path, img).CombinedOutput(); err != nil {
				vh.Fatalf("repro: copy: %v %s", err, out)
			}
		}
	})
	err = st.Close()
	verifhook.SetSink(nil)
	vh.Must(err, "repro: close")
	res.Evaluations++
	if !copied {
		res.Count("repro:ts-file:not-written-before-flush", 1) // the code no longer writes the file before the flush (or not at all)
		return
	}
	st2, err := store.Open(img, opts())
	vh.Must(err, "repro: open image")
	defer st2.Close()
	vh.Must(st2.InitIndexing(spec), "repro: InitIndexing on the image")
	vh.Must(st2.WaitForIndexingUpto(ctx, 3), "repro: wait for indexing on the image")
	_, err = st2.Get(ctx, []byte("\x00c"))
	if err != nil {
		res.Count("repro:ts-file:reproduced", 1)
		res.Violate("server:recovery:index:timestamp-file-ahead-of-flushed-tree:repro",
			fmt.Sprintf("store killed inside Close right after tbtree wrote its TIMESTAMP file: tx 1 {\\x00a}, index flushed, tx 2 {\\x00c}, tx 3 {\\x01b} committed and indexed (index on prefix 0x00), "+
				"image taken when TIMESTAMP (= 3) was renamed into place and before the tree was flushed; after re-opening, WaitForIndexingUpto(3) returns and Get(\\x00c) = %v", err),
			map[string]interface{}{"how": "harness/cmd/c03srv -repro -dir <scratch>", "steps": []string{
				"store.Open(Synced, MultiIndexing) + InitIndexing(prefix 0x00)", "commit {\\x00a: v}", "WaitForIndexingUpto(1); FlushIndexes(0, true)", "commit {\\x00c: v}", "commit {\\x01b: v}", "WaitForIndexingUpto(3)",
				"Close(); copy the directory at the FRename hook of index_00/TIMESTAMP", "store.Open(copy) + InitIndexing(prefix 0x00) + WaitForIndexingUpto(3)", "Get(\\x00c) -> key not found"}})
		return
	}
	res.Count("repro:ts-file:not-reproduced", 1)
}
