// c03srv: crash durability at the server level (property C03).  A REAL immudb server (pkg/server, default = synced
// options) runs in-process with the verif hooks on; schedules printed by TLC from spec/ServerLifecycle.tla (create / write /
// unload / load / update settings / promote / restart) are replayed through a real client session.  After every step the
// harness compares what the model says about the stores (which are open, which one this step opened, with which effective
// options) with the real server, every acknowledged write is logged as an Ack of the store's trace, and after the run crash
// images of every database directory (process kill, power loss = only fsynced content) are recovered with store.Open and
// judged by TLC (spec/TraceStore.tla + RecoveredVerdict of spec/Store.tla), exactly as harness/cmd/c03 does for a bare store.
package main

import (
	"context"
	"crypto/sha256"
	"encoding/binary"
	"flag"
	"fmt"
	"math/rand"
	"os"
	"path/filepath"
	"runtime/pprof"
	"sort"
	"strings"
	"sync"
	"time"

	"github.com/codenotary/immudb/embedded/store"
	"github.com/codenotary/immudb/pkg/api/schema"
	"github.com/codenotary/immudb/pkg/database"

	"verifharness/storetrace"
	"verifharness/vh"
)

// one step of a behaviour of spec/ServerLifecycle.tla with what has to be observed afterwards
type step struct {
	Op     string             `json:"op"`
	Db     string             `json:"db"`
	Arg    string             `json:"arg"`
	Opened map[string]bool    `json:"opened"`
	Open   map[string]bool    `json:"open"`
	How    map[string]string  `json:"how"`
	Eff    map[string]effOpts `json:"eff"`
	Life   map[string]string  `json:"life"`
}

type schedule struct {
	Id  int    `json:"id"` // number of the schedule in the check's list (several harness processes share the list)
	Cap int    `json:"cap"`
	Ops []step `json:"ops"`
}

type input struct {
	Schedules []schedule `json:"schedules"`
}

type kv struct{ k, v []byte }

func contentDigest(es []kv) [sha256.Size]byte {
	sort.Slice(es, func(i, j int) bool { return string(es[i].k) < string(es[j].k) })
	h := sha256.New()
	var l [4]byte
	for _, e := range es {
		for _, b := range [][]byte{e.k, e.v} {
			binary.BigEndian.PutUint32(l[:], uint32(len(b)))
			h.Write(l[:])
			h.Write(b)
		}
	}
	var d [sha256.Size]byte
	copy(d[:], h.Sum(nil))
	return d
}

type ack struct {
	evIdx   int
	id      uint64
	alh     [sha256.Size]byte
	content [sha256.Size]byte
}

// one incarnation of a database's store
type epoch struct {
	how      string
	fromEv   int // index (global event list) of the first event of this incarnation
	released int // events that were held back between the end of store.Open and tracer.Opened (0 = the window is exact)
	relEnd   int // number of global events right after tracer.Opened
	ioConc   int
	step     int
}

type dbTrack struct {
	name    string
	path    string
	st      *store.ImmuStore
	txh     *store.Tx
	epochs  []epoch
	acks    []ack
	prof    string
	sqlInit bool
}

type run struct {
	idx    int
	sch    schedule
	root   string
	tr     *storetrace.Tracer
	s      *srvCtl
	dbs    map[string]*dbTrack
	order  []string
	res    *vh.Result
	rng    *rand.Rand
	mu     sync.Mutex
	self   bool // binding self-test: one expectation is corrupted on purpose
	nwrite int
	seed   int64
}

func (r *run) track(name, prof string) *dbTrack {
	t := r.dbs[name]
	if t == nil {
		t = &dbTrack{name: name, path: filepath.Join(r.root, name), prof: prof}
		r.dbs[name] = t
		r.order = append(r.order, name)
	}
	return t
}

func (r *run) replay() map[string]interface{} {
	ops := []string{}
	for _, o := range r.sch.Ops {
		s := o.Op + ":" + o.Db
		if o.Arg != "" {
			s += ":" + o.Arg
		}
		ops = append(ops, s)
	}
	return map[string]interface{}{"schedule": r.idx, "maxActiveDatabases": map[bool]interface{}{true: 1, false: "default"}[r.sch.Cap == 1], "ops": ops, "seed": r.seed,
		"how": "harness/cmd/c03srv -schedules <file with this schedule in the format printed by spec/ServerLifecycle.tla> (checks/C03srv.py keeps the file with VERIF_KEEP=1)"}
}

// opened: the store of `name` has just been (re)opened by the server: release its events into the trace and compare its
// effective options with what the model expects
func (r *run) opened(name string, st *store.ImmuStore, how string, want effOpts, stepNo int) {
	t := r.dbs[name]
	if t == nil {
		vh.Fatalf("schedule %d: store of unknown database %s", r.idx, name)
	}
	if st == t.st {
		vh.Fatalf("schedule %d step %d: the model says the store of %s was re-opened but the server still uses the same store object", r.idx, stepNo, name)
	}
	fresh := len(t.epochs) == 0
	before := r.tr.NumEvents()
	vh.Must(r.tr.Opened(t.path, st, fresh), "tracer.Opened "+name)
	after := r.tr.NumEvents()
	ep := epoch{how: how, fromEv: before, relEnd: after, released: after - before, ioConc: st.MaxIOConcurrency(), step: stepNo}
	if !fresh {
		ep.released--
	}
	if fresh {
		ep.fromEv = 0
	}
	t.st = st
	t.txh = store.NewTx(st.MaxTxEntries(), st.MaxKeyLen())
	t.epochs = append(t.epochs, ep)
	r.res.Count("opened:"+how, 1)
	if name == "systemdb" {
		return
	}
	exp := concreteFor(want)
	if r.self && strings.HasPrefix(how, "reloaded") {
		exp.SyncFrequency += time.Millisecond // binding self-test
	}
	if d := diff(exp, actual(st)); len(d) > 0 {
		r.res.Violate("server-lifecycle:store-opened-with-wrong-durability:"+how,
			fmt.Sprintf("database %s (profile %s, opened: %s, step %d of schedule %d): the store runs with options that differ from what the server options and the stored settings require: %s",
				name, want.Prof, how, stepNo, r.idx, strings.Join(d, "; ")), r.replay())
	}
	r.res.Evaluations++
}

// observe compares the model's view after a step with the real server
func (r *run) observe(i int, o step) {
	for _, name := range []string{"defaultdb", "a", "b", "c"} {
		exp, ok := o.Open[name]
		if !ok {
			continue
		}
		if o.Life[name] == "absent" {
			continue
		}
		if got := r.s.isActive(name); got != exp {
			vh.Fatalf("schedule %d step %d (%s %s %s): model drift: ServerLifecycle says the store of %s is open=%v, the database manager says %v",
				r.idx, i, o.Op, o.Db, o.Arg, name, exp, got)
		}
	}
	// stores opened by this step (restart: systemdb and defaultdb are handled by the caller)
	if o.Op == "restart" {
		return
	}
	for _, name := range r.namesOf(o.Opened) {
		if !o.Opened[name] {
			continue
		}
		st, err := r.s.use(name)
		vh.Must(err, "use "+name)
		if r.dbs[name] != nil && r.dbs[name].st == st {
			continue // already registered (the write path registers before writing)
		}
		r.opened(name, st, o.How[name], o.Eff[name], i)
	}
	// stores closed by this step keep their last pointer (it is compared at the next open)
}

func (r *run) namesOf(m map[string]bool) []string {
	var ns []string
	for n := range m {
		ns = append(ns, n)
	}
	sort.Strings(ns)
	return ns
}

func (r *run) useDB(name string) {
	if r.s.cur == name {
		return
	}
	_, err := r.s.cl.UseDatabase(context.Background(), &schema.Database{DatabaseName: name})
	vh.Must(err, "UseDatabase "+name)
	r.s.cur = name
}

// acked: a write was acknowledged with this header: log the Ack with the digest of what the store holds for that tx
func (r *run) acked(t *dbTrack, hdr *schema.TxHeader, mustHold []kv, how, kind string) {
	h := schema.TxHeaderFromProto(hdr)
	r.mu.Lock()
	defer r.mu.Unlock()
	var es []kv
	if err := t.st.ReadTx(h.ID, false, t.txh); err != nil {
		r.res.Violate("server:"+how+":ack:tx-not-readable", fmt.Sprintf("database %s: tx %d acknowledged by %s cannot be read from the store: %v", t.name, h.ID, kind, err), r.replay())
		return
	}
	if t.txh.Header().Alh() != h.Alh() {
		r.res.Violate("server:"+how+":ack:header-differs", fmt.Sprintf("database %s: the header returned for tx %d by %s is not the stored one", t.name, h.ID, kind), r.replay())
	}
	for _, e := range t.txh.Entries() {
		v, err := t.st.ReadValue(e)
		if err != nil {
			r.res.Violate("server:"+how+":ack:value-not-readable", fmt.Sprintf("database %s: value of acknowledged tx %d: %v", t.name, h.ID, err), r.replay())
			return
		}
		es = append(es, kv{append([]byte(nil), e.Key()...), v})
	}
	for _, m := range mustHold {
		found := false
		for _, e := range es {
			found = found || (string(e.k) == string(m.k) && string(e.v) == string(m.v))
		}
		if !found {
			r.res.Violate("server:"+how+":ack:stored-entries-differ", fmt.Sprintf("database %s: tx %d acknowledged by %s does not hold the written entry %q", t.name, h.ID, kind, m.k), r.replay())
		}
	}
	d := contentDigest(es)
	r.tr.Log(t.path, storetrace.Event{"ev": "Ack", "id": h.ID, "alh": r.tr.Num(h.Alh()), "content": r.tr.Num(d)})
	t.acks = append(t.acks, ack{evIdx: r.tr.NumEvents() - 1, id: h.ID, alh: h.Alh(), content: d})
	r.res.Count("acks", 1)
	r.res.Count("acks:"+how, 1)
	r.res.Count("acks:"+how+":"+kind, 1)
	r.res.Count("acks:profile:"+t.prof, 1)
}

func stored(k, v []byte) kv {
	return kv{database.WrapWithPrefix(k, database.SetKeyPrefix), database.WrapWithPrefix(v, database.PlainValuePrefix)}
}

func (r *run) key() []byte { return []byte(fmt.Sprintf("k%02d", r.rng.Intn(8))) }
func (r *run) val() []byte {
	v := make([]byte, []int{1, 5, 40, 150}[r.rng.Intn(4)])
	r.rng.Read(v)
	return v
}

func (r *run) write(i int, o step) {
	t := r.dbs[o.Db]
	how := o.How[o.Db]
	ctx := context.Background()
	r.useDB(o.Db)
	if o.Opened[o.Db] {
		// the write would open the store itself; using the database first gives the same open through the same path and keeps
		// the store's trace exact (no event is emitted between the end of store.Open and tracer.Opened)
		st, err := r.s.use(o.Db)
		vh.Must(err, "use "+o.Db)
		r.opened(o.Db, st, how, o.Eff[o.Db], i)
	}
	r.nwrite++
	cl := r.s.cl
	switch o.Arg {
	case "set":
		k, v := r.key(), r.val()
		hdr, err := cl.Set(ctx, k, v)
		vh.Must(err, "Set")
		r.acked(t, hdr, []kv{stored(k, v)}, how, o.Arg)
	case "setall":
		var kvs []*schema.KeyValue
		var must []kv
		for j := 0; j < 3; j++ {
			k, v := []byte(fmt.Sprintf("m%d_%02d", j, r.rng.Intn(4))), r.val()
			kvs = append(kvs, &schema.KeyValue{Key: k, Value: v})
			must = append(must, stored(k, v))
		}
		hdr, err := cl.SetAll(ctx, &schema.SetRequest{KVs: kvs})
		vh.Must(err, "SetAll")
		r.acked(t, hdr, must, how, o.Arg)
	case "vset":
		k, v := r.key(), r.val()
		hdr, err := cl.VerifiedSet(ctx, k, v)
		vh.Must(err, "VerifiedSet")
		r.acked(t, hdr, []kv{stored(k, v)}, how, o.Arg)
	case "sql":
		if !t.sqlInit {
			rs, err := cl.SQLExec(ctx, "CREATE TABLE IF NOT EXISTS t (id INTEGER AUTO_INCREMENT, v VARCHAR[64], PRIMARY KEY id)", nil)
			vh.Must(err, "SQLExec create table")
			for _, tx := range rs.Txs {
				r.acked(t, tx.Header, nil, how, o.Arg)
			}
			t.sqlInit = true
		}
		rs, err := cl.SQLExec(ctx, "INSERT INTO t (v) VALUES (@v)", map[string]interface{}{"v": fmt.Sprintf("row-%d-%d", r.nwrite, r.rng.Intn(1000))})
		vh.Must(err, "SQLExec insert")
		if len(rs.Txs) == 0 {
			vh.Fatalf("SQLExec returned no transaction")
		}
		for _, tx := range rs.Txs {
			r.acked(t, tx.Header, nil, how, o.Arg)
		}
	case "burst":
		// concurrent writers: several transactions per sync
		type w struct{ k, v []byte }
		ws := []w{}
		for j := 0; j < 3; j++ {
			ws = append(ws, w{[]byte(fmt.Sprintf("b%d_%02d", j, r.rng.Intn(4))), r.val()})
		}
		var wg sync.WaitGroup
		for _, x := range ws {
			wg.Add(1)
			go func(x w) {
				defer wg.Done()
				hdr, err := cl.Set(ctx, x.k, x.v)
				vh.Must(err, "Set (burst)")
				r.acked(t, hdr, []kv{stored(x.k, x.v)}, how, o.Arg)
			}(x)
		}
		wg.Wait()
	default:
		vh.Fatalf("unknown kind of write %q", o.Arg)
	}
}

func (r *run) startServer(first bool, i int, o *step) {
	r.s = startServer(r.root, filepath.Join(filepath.Dir(r.root), "client"), r.sch.Cap)
	how := "startup"
	if first {
		how = "created"
	}
	r.opened("systemdb", r.s.sysStore(), how, effOpts{}, i)
	st, err := r.s.use("defaultdb")
	vh.Must(err, "use defaultdb")
	want := effOpts{Synced: true, Prof: "default", Auto: true}
	if o != nil {
		how, want = o.How["defaultdb"], o.Eff["defaultdb"]
	}
	r.opened("defaultdb", st, how, want, i)
}

func (r *run) execute() {
	ctx := context.Background()
	r.track("systemdb", "default")
	r.track("defaultdb", "default")
	for _, o := range r.sch.Ops {
		if o.Op == "create" {
			r.track(o.Db, o.Arg)
		}
	}
	// the limit on pre-committed transactions is logged with every Precommit event (guard of Store.tla)
	for _, t := range r.dbs {
		r.tr.MaxActive[t.path] = baseOf(t.prof).MaxActiveTransactions
	}
	r.tr.Install()
	r.startServer(true, -1, nil)
	saved := map[string]effOpts{}
	for i, o := range r.sch.Ops {
		cl := r.s.cl
		switch o.Op {
		case "create":
			_, err := cl.CreateDatabaseV2(ctx, o.Db, createSettings(o.Arg))
			vh.Must(err, "CreateDatabaseV2 "+o.Db)
			saved[o.Db] = effOpts{Prof: o.Arg, Auto: true}
		case "write":
			r.write(i, o)
		case "unload":
			_, err := cl.UnloadDatabase(ctx, &schema.UnloadDatabaseRequest{Database: o.Db})
			vh.Must(err, "UnloadDatabase "+o.Db)
			if r.s.cur == o.Db {
				r.s.cur = ""
			}
		case "load":
			_, err := cl.LoadDatabase(ctx, &schema.LoadDatabaseRequest{Database: o.Db})
			vh.Must(err, "LoadDatabase "+o.Db)
		case "update":
			s := saved[o.Db]
			switch o.Arg {
			case "sf":
				s.Sf = (s.Sf + 1) % 3
			case "wb":
				s.Wb = (s.Wb + 1) % 3
			case "ix":
				s.Ix = (s.Ix + 1) % 3
			case "auto":
				s.Auto = !s.Auto
			}
			saved[o.Db] = s
			v := map[string]int{"sf": s.Sf, "wb": s.Wb, "ix": s.Ix, "auto": 0}[o.Arg]
			_, err := cl.UpdateDatabaseV2(ctx, o.Db, updateSettings(s.Prof, o.Arg, v, s.Auto))
			vh.Must(err, "UpdateDatabaseV2 "+o.Db+" "+o.Arg)
		case "promote":
			_, err := cl.UpdateDatabaseV2(ctx, o.Db, &schema.DatabaseNullableSettings{
				ReplicationSettings: &schema.ReplicationNullableSettings{Replica: &schema.NullableBool{Value: false}}})
			vh.Must(err, "UpdateDatabaseV2 (promote) "+o.Db)
		case "restart":
			r.s.stop()
			oo := o
			r.startServer(false, i, &oo)
		default:
			vh.Fatalf("unknown op %q", o.Op)
		}
		r.res.Count("ops:"+o.Op, 1)
		r.observe(i, o)
	}
	time.Sleep(5 * time.Millisecond)
	r.s.stop()
	storetrace.Uninstall()
}

var realStdout *os.File

func main() {
	schedPath := flag.String("schedules", "", "JSON file: behaviours of spec/ServerLifecycle.tla")
	dir := flag.String("dir", "", "scratch directory")
	outp := flag.String("out", "", "ndjson trace output (one segment per database store and schedule)")
	seed := flag.Int64("seed", 1, "seed")
	maxPoints := flag.Int("maxpoints", 0, "crash points per store and schedule (0 = every point)")
	maxPointsDefault := flag.Int("maxpoints-default", 0, "the same for stores with the default limits: systemdb, defaultdb, databases created without settings (0 = every point)")
	workers := flag.Int("workers", 6, "parallel recoveries")
	only := flag.Int("only", -1, "run only this schedule")
	self := flag.Bool("selftest", false, "corrupt one expectation (binding self-test)")
	repro := flag.Bool("repro", false, "run only the minimal reproductions of the findings of this slice")
	flag.Parse()
	if *repro {
		res := vh.NewResult()
		reproTsFile(*dir, res)
		res.Distinct = res.Evaluations
		res.Emit()
		return
	}
	if pf := os.Getenv("VERIF_CPUPROF"); pf != "" {
		f, err := os.Create(pf)
		vh.Must(err, "create profile")
		pprof.StartCPUProfile(f)
		defer pprof.StopCPUProfile()
	}
	realStdout = os.Stdout
	os.Stdout = os.Stderr // the server prints its banner on stdout
	var in input
	vh.ReadJSON(*schedPath, &in)
	out, err := os.Create(*outp)
	vh.Must(err, "create trace file")
	res := vh.NewResult()
	for i, sch := range in.Schedules {
		if *only >= 0 && i != *only {
			continue
		}
		t0 := time.Now()
		root := filepath.Join(*dir, fmt.Sprintf("s%d", i), "data")
		vh.Must(os.MkdirAll(root, 0755), "mkdir")
		r := &run{idx: sch.Id, sch: sch, root: root, tr: storetrace.New(root), dbs: map[string]*dbTrack{}, res: res,
			rng: rand.New(rand.NewSource(*seed*1000003 + int64(i))), self: *self, seed: *seed}
		r.tr.RecordOps = true
		pn, hung, msg := vh.Guard(10*time.Minute, r.execute)
		if pn || hung {
			vh.Fatalf("schedule %d: %s", i, msg)
		}
		t1 := time.Now()
		r.images(filepath.Join(*dir, fmt.Sprintf("s%d", i)), *maxPoints, *maxPointsDefault, *workers, out)
		res.Traces += len(r.order)
		res.Count("schedules", 1)
		if os.Getenv("VERIF_DEBUG") != "" {
			fmt.Fprintf(os.Stderr, "schedule %d: run %.1fs, images %.1fs, %d events, %d physical operations\n", i, t1.Sub(t0).Seconds(), time.Since(t1).Seconds(), len(r.tr.Events), len(r.tr.Ops))
		}
		if i == 0 {
			res.Sample(map[string]interface{}{"schedule": r.replay()["ops"], "events": len(r.tr.Events), "physical_ops": len(r.tr.Ops)}, 2)
		}
		if os.Getenv("VERIF_KEEPBAD") == "" {
			os.RemoveAll(filepath.Join(*dir, fmt.Sprintf("s%d", i)))
		} else {
			os.RemoveAll(root)
		}
	}
	out.Close()
	res.Distinct = res.Evaluations
	os.Stdout = realStdout
	res.Emit()
}
