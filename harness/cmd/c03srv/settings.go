package main

import (
	"fmt"
	"time"

	"github.com/codenotary/immudb/embedded/ahtree"
	"github.com/codenotary/immudb/embedded/store"
	"github.com/codenotary/immudb/embedded/tbtree"
	"github.com/codenotary/immudb/pkg/api/schema"
	"github.com/codenotary/immudb/pkg/server"
)

// effOpts is the abstract record of spec/ServerLifecycle.tla: the options an open store runs with.
type effOpts struct {
	Synced  bool   `json:"synced"`
	Prof    string `json:"prof"`
	Sf      int    `json:"sf"`
	Wb      int    `json:"wb"`
	Ix      int    `json:"ix"`
	Auto    bool   `json:"auto"`
	Replica bool   `json:"replica"`
	Upd     bool   `json:"upd"`
}

// concrete is what the abstract record means for the real store.Options.
type concrete struct {
	Synced                bool
	SyncFrequency         time.Duration
	WriteBufferSize       int
	FileSize              int
	EmbeddedValues        bool
	PreallocFiles         bool
	MaxTxEntries          int
	MaxKeyLen             int
	MaxValueLen           int
	MaxActiveTransactions int
	MaxConcurrency        int
	MaxIOConcurrency      int
	WriteTxHeaderVersion  int
	IdxFlushThld          int
	IdxSyncThld           int
	IdxCacheSize          int
	AhtSyncThld           int
	AhtWriteBufferSize    int
	ExtAllowance          bool
	MultiIndexing         bool
}

// base values per profile (what CreateDatabaseV2 is given; "default" = no settings at all)
func baseOf(prof string) concrete {
	c := concrete{
		Synced:                true,
		SyncFrequency:         store.DefaultSyncFrequency,
		WriteBufferSize:       store.DefaultWriteBufferSize,
		FileSize:              server.DefaultStoreFileSize,
		EmbeddedValues:        store.DefaultEmbeddedValues,
		PreallocFiles:         store.DefaultPreallocFiles,
		MaxTxEntries:          store.DefaultMaxTxEntries,
		MaxKeyLen:             store.DefaultMaxKeyLen,
		MaxValueLen:           server.DefaultMaxValueLen,
		MaxActiveTransactions: store.DefaultMaxActiveTransactions,
		MaxConcurrency:        store.DefaultMaxConcurrency,
		MaxIOConcurrency:      store.DefaultMaxIOConcurrency,
		WriteTxHeaderVersion:  store.DefaultWriteTxHeaderVersion,
		IdxFlushThld:          tbtree.DefaultFlushThld,
		IdxSyncThld:           tbtree.DefaultSyncThld,
		IdxCacheSize:          tbtree.DefaultCacheSize,
		AhtSyncThld:           ahtree.DefaultSyncThld,
		AhtWriteBufferSize:    ahtree.DefaultWriteBufferSize,
		MultiIndexing:         true,
	}
	switch prof {
	case "default":
	case "small", "replica":
		c.SyncFrequency = 5 * time.Millisecond
		c.WriteBufferSize = 1 << 13
		c.FileSize = 1 << 12 // chunks rotate every few transactions
		c.MaxTxEntries = 16
		c.MaxKeyLen = 256
		c.MaxValueLen = 1024
		c.MaxActiveTransactions = 32
		c.MaxConcurrency = 4
		c.MaxIOConcurrency = 2
		c.IdxFlushThld = 4
		c.IdxSyncThld = 8
		c.IdxCacheSize = 1 << 16
		c.AhtSyncThld = 2
		c.AhtWriteBufferSize = 1 << 12
	case "embedded":
		c.SyncFrequency = 3 * time.Millisecond
		c.WriteBufferSize = 1 << 12
		c.FileSize = 1 << 13
		c.EmbeddedValues = true
		c.PreallocFiles = true
		c.MaxTxEntries = 8
		c.MaxKeyLen = 256
		c.MaxValueLen = 512
		c.MaxActiveTransactions = 16
		c.MaxConcurrency = 3
		c.MaxIOConcurrency = 1
		c.WriteTxHeaderVersion = 0
		c.IdxFlushThld = 3
		c.IdxSyncThld = 3
		c.IdxCacheSize = 1 << 16
		c.AhtSyncThld = 1
		c.AhtWriteBufferSize = 1 << 12
	default:
		panic("unknown profile " + prof)
	}
	return c
}

// the alternatives an UpdateDatabaseV2 switches to (value 0 = the base value of the profile)
func sfOf(base concrete, v int) time.Duration {
	return []time.Duration{base.SyncFrequency, 7 * time.Millisecond, 2 * time.Millisecond}[v]
}
func wbOf(base concrete, v int) int { return []int{base.WriteBufferSize, 1 << 15, 1 << 14}[v] }
func ixOf(base concrete, v int) (flush, sync, cache, aht int) {
	switch v {
	case 1:
		return 6, 12, 3 << 15, 3
	case 2:
		return 2, 10, 5 << 14, 5
	}
	return base.IdxFlushThld, base.IdxSyncThld, base.IdxCacheSize, base.AhtSyncThld
}

func concreteFor(e effOpts) concrete {
	b := baseOf(e.Prof)
	c := b
	c.Synced = e.Synced
	c.SyncFrequency = sfOf(b, e.Sf)
	c.WriteBufferSize = wbOf(b, e.Wb)
	c.IdxFlushThld, c.IdxSyncThld, c.IdxCacheSize, c.AhtSyncThld = ixOf(b, e.Ix)
	return c
}

func u32(v int) *schema.NullableUint32 { return &schema.NullableUint32{Value: uint32(v)} }

// createSettings: the explicit settings of a profile (nil for "default")
func createSettings(prof string) *schema.DatabaseNullableSettings {
	if prof == "default" {
		return nil
	}
	c := baseOf(prof)
	s := &schema.DatabaseNullableSettings{
		SyncFrequency:         &schema.NullableMilliseconds{Value: c.SyncFrequency.Milliseconds()},
		WriteBufferSize:       u32(c.WriteBufferSize),
		FileSize:              u32(c.FileSize),
		EmbeddedValues:        &schema.NullableBool{Value: c.EmbeddedValues},
		PreallocFiles:         &schema.NullableBool{Value: c.PreallocFiles},
		MaxTxEntries:          u32(c.MaxTxEntries),
		MaxKeyLen:             u32(c.MaxKeyLen),
		MaxValueLen:           u32(c.MaxValueLen),
		MaxActiveTransactions: u32(c.MaxActiveTransactions),
		MaxConcurrency:        u32(c.MaxConcurrency),
		MaxIOConcurrency:      u32(c.MaxIOConcurrency),
		WriteTxHeaderVersion:  u32(c.WriteTxHeaderVersion),
		TxLogCacheSize:        u32(16),
		ReadTxPoolSize:        u32(4),
		IndexSettings: &schema.IndexNullableSettings{
			FlushThreshold:     u32(c.IdxFlushThld),
			SyncThreshold:      u32(c.IdxSyncThld),
			CacheSize:          u32(c.IdxCacheSize),
			FlushBufferSize:    u32(1 << 12),
			MaxActiveSnapshots: u32(8),
		},
		AhtSettings: &schema.AHTNullableSettings{
			SyncThreshold:   u32(c.AhtSyncThld),
			WriteBufferSize: u32(c.AhtWriteBufferSize),
		},
	}
	if prof == "replica" {
		s.ReplicationSettings = &schema.ReplicationNullableSettings{Replica: &schema.NullableBool{Value: true}}
	}
	return s
}

// updateSettings: the request changing one abstract field of the stored settings to value v
func updateSettings(prof, field string, v int, auto bool) *schema.DatabaseNullableSettings {
	b := baseOf(prof)
	switch field {
	case "sf":
		return &schema.DatabaseNullableSettings{SyncFrequency: &schema.NullableMilliseconds{Value: sfOf(b, v).Milliseconds()}}
	case "wb":
		return &schema.DatabaseNullableSettings{WriteBufferSize: u32(wbOf(b, v))}
	case "ix":
		f, s, c, a := ixOf(b, v)
		return &schema.DatabaseNullableSettings{
			IndexSettings: &schema.IndexNullableSettings{FlushThreshold: u32(f), SyncThreshold: u32(s), CacheSize: u32(c)},
			AhtSettings:   &schema.AHTNullableSettings{SyncThreshold: u32(a)},
		}
	case "auto":
		return &schema.DatabaseNullableSettings{Autoload: &schema.NullableBool{Value: auto}}
	}
	panic("unknown field " + field)
}

// actual reads the effective options of a running store
func actual(st *store.ImmuStore) concrete {
	o := storeOpts(st)
	return concrete{
		Synced:                st.Synced() && o.Synced,
		SyncFrequency:         o.SyncFrequency,
		WriteBufferSize:       o.WriteBufferSize,
		FileSize:              o.FileSize,
		EmbeddedValues:        o.EmbeddedValues,
		PreallocFiles:         o.PreallocFiles,
		MaxTxEntries:          st.MaxTxEntries(),
		MaxKeyLen:             st.MaxKeyLen(),
		MaxValueLen:           st.MaxValueLen(),
		MaxActiveTransactions: st.MaxActiveTransactions(),
		MaxConcurrency:        st.MaxConcurrency(),
		MaxIOConcurrency:      st.MaxIOConcurrency(),
		WriteTxHeaderVersion:  o.WriteTxHeaderVersion,
		IdxFlushThld:          o.IndexOpts.FlushThld,
		IdxSyncThld:           o.IndexOpts.SyncThld,
		IdxCacheSize:          o.IndexOpts.CacheSize,
		AhtSyncThld:           o.AHTOpts.SyncThld,
		AhtWriteBufferSize:    o.AHTOpts.WriteBufferSize,
		ExtAllowance:          o.UseExternalCommitAllowance,
		MultiIndexing:         st.MultiIndexingEnabled(),
	}
}

func diff(want, got concrete) []string {
	var d []string
	add := func(name string, w, g interface{}) {
		if fmt.Sprint(w) != fmt.Sprint(g) {
			d = append(d, fmt.Sprintf("%s: expected %v, store has %v", name, w, g))
		}
	}
	add("Synced", want.Synced, got.Synced)
	add("SyncFrequency", want.SyncFrequency, got.SyncFrequency)
	add("WriteBufferSize", want.WriteBufferSize, got.WriteBufferSize)
	add("FileSize", want.FileSize, got.FileSize)
	add("EmbeddedValues", want.EmbeddedValues, got.EmbeddedValues)
	add("PreallocFiles", want.PreallocFiles, got.PreallocFiles)
	add("MaxTxEntries", want.MaxTxEntries, got.MaxTxEntries)
	add("MaxKeyLen", want.MaxKeyLen, got.MaxKeyLen)
	add("MaxValueLen", want.MaxValueLen, got.MaxValueLen)
	add("MaxActiveTransactions", want.MaxActiveTransactions, got.MaxActiveTransactions)
	add("MaxConcurrency", want.MaxConcurrency, got.MaxConcurrency)
	add("MaxIOConcurrency", want.MaxIOConcurrency, got.MaxIOConcurrency)
	add("WriteTxHeaderVersion", want.WriteTxHeaderVersion, got.WriteTxHeaderVersion)
	add("IndexOpts.FlushThld", want.IdxFlushThld, got.IdxFlushThld)
	add("IndexOpts.SyncThld", want.IdxSyncThld, got.IdxSyncThld)
	add("IndexOpts.CacheSize", want.IdxCacheSize, got.IdxCacheSize)
	add("AHTOpts.SyncThld", want.AhtSyncThld, got.AhtSyncThld)
	add("AHTOpts.WriteBufferSize", want.AhtWriteBufferSize, got.AhtWriteBufferSize)
	add("UseExternalCommitAllowance", want.ExtAllowance, got.ExtAllowance)
	add("MultiIndexing", want.MultiIndexing, got.MultiIndexing)
	return d
}
