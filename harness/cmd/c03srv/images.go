package main

import (
	"context"
	"crypto/sha256"
	"encoding/json"
	"errors"
	"fmt"
	"math/rand"
	"os"
	"path/filepath"
	"sort"
	"strings"
	"sync"
	"time"

	"github.com/codenotary/immudb/embedded/logger"
	"github.com/codenotary/immudb/embedded/store"
	"github.com/codenotary/immudb/pkg/database"

	"verifharness/storetrace"
	"verifharness/vh"
)

type recovered struct {
	K             int    `json:"k"`
	Mode          string `json:"mode"`
	At            int    `json:"-"`
	How           string `json:"how"`
	OpenOk        bool   `json:"openOk"`
	C             uint64 `json:"c"`
	Alhs          []int  `json:"alhs"`
	ChainOk       bool   `json:"chainOk"`
	LinkOk        bool   `json:"linkOk"`
	ContentOk     bool   `json:"contentOk"`
	ExtraValuesOk bool   `json:"extraValuesOk"`
	ProofOk       bool   `json:"proofOk"`
	IndexOk       bool   `json:"indexOk"`
	CommitOk      bool   `json:"commitOk"`
	Detail        string `json:"detail"`
	// Cause: set when a failed check could be traced to a specific on-disk state
	Cause string `json:"cause,omitempty"`
}

// recoveryOptions: everything permanent is stored with the files (file size, limits, embedded values, prealloc); the number
// of value logs is not, it is taken from the running store
func recoveryOptions(ioConc int) *store.Options {
	o := store.DefaultOptions().WithSynced(true).WithSyncFrequency(time.Millisecond).WithMultiIndexing(true).
		WithMaxIOConcurrency(ioConc).WithMaxConcurrency(1).WithMaxActiveTransactions(64).WithWriteBufferSize(1 << 14).
		WithTxLogCacheSize(8).WithVLogCacheSize(0).WithMaxWaitees(16).WithLogger(logger.NewMemoryLoggerWithLevel(logger.LogError))
	o.WithIndexOptions(o.IndexOpts.WithFlushBufferSize(1 << 12).WithCacheSize(1 << 18).WithMaxActiveSnapshots(4))
	o.WithAHTOptions(o.AHTOpts.WithWriteBufferSize(1 << 14))
	return o
}

type holders struct {
	mu sync.Mutex
	m  map[[2]int][]*store.Tx
}

func (h *holders) get(n, k int) *store.Tx {
	h.mu.Lock()
	defer h.mu.Unlock()
	l := h.m[[2]int{n, k}]
	if len(l) > 0 {
		t := l[len(l)-1]
		h.m[[2]int{n, k}] = l[:len(l)-1]
		return t
	}
	return store.NewTx(n, k)
}

func (h *holders) put(n, k int, t *store.Tx) {
	h.mu.Lock()
	h.m[[2]int{n, k}] = append(h.m[[2]int{n, k}], t)
	h.mu.Unlock()
}

var txHolders = &holders{m: map[[2]int][]*store.Tx{}}

// withIndex: open the index of the key-value entries and compare it with the recovered history (costly for databases with the
// default limits: every store.Open / indexer allocates buffers of MaxTxEntries x MaxKeyLen bytes)
func recoverImage(tr *storetrace.Tracer, dir string, ioConc int, acks []ack, committedAt uint64, withIndex bool, rec *recovered) {
	pn, hung, msg := vh.Guard(120*time.Second, func() {
		st, err := store.Open(dir, recoveryOptions(ioConc))
		if err != nil {
			rec.Detail = "open: " + err.Error()
			return
		}
		defer st.Close()
		rec.OpenOk = true
		rec.IndexOk = true
		if withIndex {
			if err := st.InitIndexing(&store.IndexSpec{SourcePrefix: []byte{database.SetKeyPrefix}, TargetPrefix: []byte{database.SetKeyPrefix}}); err != nil {
				rec.IndexOk = false
				rec.Detail += "InitIndexing: " + err.Error() + "; "
			}
		}
		// precommitted txs reloaded from the tx log are committed by the syncer right after opening: wait for it
		dl := time.Now().Add(5 * time.Second)
		for st.LastCommittedTxID() < st.LastPrecommittedTxID() && time.Now().Before(dl) {
			time.Sleep(200 * time.Microsecond)
		}
		n, _ := st.CommittedAlh()
		rec.C = n
		ne, kl := st.MaxTxEntries(), st.MaxKeyLen()
		txh := txHolders.get(ne, kl)
		defer txHolders.put(ne, kl, txh)
		alhs := make([][sha256.Size]byte, 0, n)
		hdrs := make([]*store.TxHeader, 0, n)
		latest := map[string][]byte{}
		contents := map[uint64][sha256.Size]byte{}
		rec.ChainOk, rec.ContentOk, rec.ExtraValuesOk, rec.LinkOk = true, true, true, true
		for id := uint64(1); id <= n; id++ {
			if err := st.ReadTx(id, false, txh); err != nil {
				rec.ChainOk = false
				rec.Detail += fmt.Sprintf("ReadTx(%d): %v; ", id, err)
				break
			}
			hdr := txh.Header()
			ok := hdr.ID == id && int(hdr.BlTxID) < int(id)
			if id == 1 {
				ok = ok && hdr.PrevAlh == storetrace.Genesis
			} else {
				ok = ok && hdr.PrevAlh == alhs[id-2]
			}
			if ok && hdr.BlTxID > 0 {
				ok = hdr.BlRoot == storetrace.RefRoot(alhs[:hdr.BlTxID])
			}
			if !ok {
				rec.ChainOk = false
				linkOk := hdr.ID == id && (id == 1 && hdr.PrevAlh == storetrace.Genesis || id > 1 && hdr.PrevAlh == alhs[id-2])
				if linkOk {
					rec.Detail += fmt.Sprintf("BlRoot of tx %d is not the reference root; ", id)
				} else {
					rec.LinkOk = false
					rec.Detail += fmt.Sprintf("linear chain broken at tx %d (PrevAlh is not the Alh of its predecessor); ", id)
				}
			}
			alhs = append(alhs, hdr.Alh())
			hdrs = append(hdrs, hdr)
			var es []kv
			for _, e := range txh.Entries() {
				v, err := st.ReadValue(e)
				if err != nil {
					if id > committedAt {
						rec.ExtraValuesOk = false
					} else {
						rec.ContentOk = false
					}
					rec.Detail += fmt.Sprintf("ReadValue tx %d: %v; ", id, err)
				}
				k := append([]byte(nil), e.Key()...)
				es = append(es, kv{k, v})
				if len(k) > 0 && k[0] == database.SetKeyPrefix && err == nil && (e.Metadata() == nil || !e.Metadata().Deleted()) {
					latest[string(k)] = v
				}
			}
			contents[id] = contentDigest(es)
		}
		for _, a := range alhs {
			rec.Alhs = append(rec.Alhs, tr.Num(a))
		}
		var lastAck *ack
		for i := range acks {
			a := &acks[i]
			if a.id <= n && contents[a.id] != a.content {
				rec.ContentOk = false
				rec.Detail += fmt.Sprintf("content of acked tx %d differs; ", a.id)
			}
			if a.id <= n && (lastAck == nil || a.id > lastAck.id) {
				lastAck = a
			}
		}
		// a client holding an acknowledged state can still prove consistency against the recovered database
		rec.ProofOk = true
		if lastAck != nil && rec.ChainOk && n > 0 && int(n) == len(hdrs) {
			src, dst := hdrs[lastAck.id-1], hdrs[n-1]
			proof, err := st.DualProof(src, dst)
			if err != nil || !store.VerifyDualProof(proof, lastAck.id, n, lastAck.alh, alhs[n-1]) {
				rec.ProofOk = false
				rec.Detail += fmt.Sprintf("dual proof %d->%d: err=%v; ", lastAck.id, n, err)
			}
		}
		ctx, cancel := context.WithTimeout(context.Background(), 20*time.Second)
		defer cancel()
		if rec.IndexOk && withIndex {
			if err := st.WaitForIndexingUpto(ctx, n); err != nil {
				rec.IndexOk = false
				rec.Detail += "WaitForIndexingUpto: " + err.Error() + "; "
			} else if rec.ChainOk {
				for k, v := range latest {
					ref, err := st.Get(ctx, []byte(k))
					if err != nil {
						rec.IndexOk = false
						rec.Detail += fmt.Sprintf("Get(%q): %v; ", k, err)
						continue
					}
					got, err := ref.Resolve()
					if err != nil || string(got) != string(v) {
						rec.IndexOk = false
						rec.Detail += fmt.Sprintf("Get(%q) differs (err=%v) got tx=%d len=%d want len=%d; ", k, err, ref.Tx(), len(got), len(v))
					}
				}
				if !rec.IndexOk {
					// diagnosis only: is the index merely late although WaitForIndexingUpto returned?
					time.Sleep(200 * time.Millisecond)
					late := true
					for k, v := range latest {
						ref, err := st.Get(ctx, []byte(k))
						if err != nil {
							late = false
							break
						}
						if got, err := ref.Resolve(); err != nil || string(got) != string(v) {
							late = false
							break
						}
					}
					rec.Detail += fmt.Sprintf("(200 ms later the index agrees: %v; committed %d precommitted %d) ", late, st.LastCommittedTxID(), st.LastPrecommittedTxID())
				}
			}
		}
		// the database accepts new commits afterwards
		key := database.WrapWithPrefix([]byte("after-crash"), database.SetKeyPrefix)
		var hdr *store.TxHeader
		var err2 error
		for tries := 0; tries < 2000; tries++ {
			tx, err := st.NewWriteOnlyTx(ctx)
			if err != nil {
				err2 = err
				break
			}
			tx.Set(key, nil, []byte{0, 'v'})
			hdr, err2 = tx.Commit(ctx)
			if !errors.Is(err2, store.ErrMaxActiveTransactionsLimitExceeded) {
				break
			}
			time.Sleep(time.Millisecond)
		}
		if err2 == nil && withIndex {
			ref, err3 := st.Get(ctx, key)
			rec.CommitOk = err3 == nil && ref.Tx() == hdr.ID
			if !rec.CommitOk {
				rec.Detail += fmt.Sprintf("new commit not readable: %v; ", err3)
			}
		} else if err2 == nil {
			err3 := st.ReadTx(hdr.ID, false, txh)
			rec.CommitOk = err3 == nil && hdr.ID == n+1
			if !rec.CommitOk {
				rec.Detail += fmt.Sprintf("new commit (tx %d after %d) not readable: %v; ", hdr.ID, n, err3)
			}
		} else {
			rec.Detail += "new commit: " + err2.Error() + "; "
		}
	})
	if pn {
		rec.OpenOk = false
		rec.Detail = "PANIC: " + msg
	}
	if hung {
		rec.OpenOk = false
		rec.Detail = "HANG during recovery checks"
	}
	if len(rec.Detail) > 600 {
		rec.Detail = rec.Detail[:600]
	}
}

// indexAgreesWithoutTsFile: diagnosis of a recovered index that lacks committed entries although it reports to be up to date.
// The same image is recovered once more after removing the TIMESTAMP file of the key-value index (tbtree raises the time of
// the recovered tree to the value in that file): if the index then agrees with the history, the file was ahead of the
// flushed tree.
func indexAgreesWithoutTsFile(dir string, ioConc int) (agrees bool) {
	removed := false
	ents, _ := os.ReadDir(filepath.Join(dir, "index_00"))
	for _, e := range ents {
		if strings.HasPrefix(e.Name(), "TIMESTAMP") {
			os.Remove(filepath.Join(dir, "index_00", e.Name()))
			removed = true
		}
	}
	if !removed {
		return false
	}
	vh.Guard(60*time.Second, func() {
		st, err := store.Open(dir, recoveryOptions(ioConc))
		if err != nil {
			return
		}
		defer st.Close()
		if err := st.InitIndexing(&store.IndexSpec{SourcePrefix: []byte{database.SetKeyPrefix}, TargetPrefix: []byte{database.SetKeyPrefix}}); err != nil {
			return
		}
		dl := time.Now().Add(5 * time.Second)
		for st.LastCommittedTxID() < st.LastPrecommittedTxID() && time.Now().Before(dl) {
			time.Sleep(200 * time.Microsecond)
		}
		n, _ := st.CommittedAlh()
		ne, kl := st.MaxTxEntries(), st.MaxKeyLen()
		txh := txHolders.get(ne, kl)
		defer txHolders.put(ne, kl, txh)
		latest := map[string][]byte{}
		for id := uint64(1); id <= n; id++ {
			if err := st.ReadTx(id, false, txh); err != nil {
				return
			}
			for _, e := range txh.Entries() {
				k := append([]byte(nil), e.Key()...)
				v, err := st.ReadValue(e)
				if len(k) > 0 && k[0] == database.SetKeyPrefix && err == nil && (e.Metadata() == nil || !e.Metadata().Deleted()) {
					latest[string(k)] = v
				}
			}
		}
		ctx, cancel := context.WithTimeout(context.Background(), 20*time.Second)
		defer cancel()
		if err := st.WaitForIndexingUpto(ctx, n); err != nil {
			return
		}
		for k, v := range latest {
			ref, err := st.Get(ctx, []byte(k))
			if err != nil {
				return
			}
			if got, err := ref.Resolve(); err != nil || string(got) != string(v) {
				return
			}
		}
		agrees = true
	})
	return agrees
}

func evUint(e storetrace.Event, k string) uint64 {
	switch v := e[k].(type) {
	case uint64:
		return v
	case int:
		return uint64(v)
	}
	return 0
}

// images: crash images of every database directory of this run + the per-store traces
func (r *run) images(sdir string, maxPoints, maxPointsDefault, workers int, out *os.File) {
	events, ops := r.tr.Events, r.tr.Ops
	r.res.Count("events", len(events))
	r.res.Count("phys-ops", len(ops))
	type job struct {
		dir  string
		io   int
		acks []ack
		cAt  uint64
		idx  bool
		rec  *recovered
		snap *storetrace.ImageBuilder // the image can be materialised again (diagnosis of a failed index check)
		mode storetrace.Mode
		name string
		k    int
	}
	jobs := make(chan job, 64)
	var wg sync.WaitGroup
	for i := 0; i < workers; i++ {
		wg.Add(1)
		go func() {
			defer wg.Done()
			for j := range jobs {
				recoverImage(r.tr, j.dir, j.io, j.acks, j.cAt, j.idx, j.rec)
				if j.rec.OpenOk && j.rec.ChainOk && !j.rec.IndexOk && j.idx {
					d2 := filepath.Dir(j.dir) + "_diag"
					if _, err := j.snap.Materialise(d2, j.mode, rand.New(rand.NewSource(r.seed+int64(j.k)))); err == nil {
						if indexAgreesWithoutTsFile(filepath.Join(d2, j.name), j.io) {
							j.rec.Cause = "timestamp-file-ahead-of-flushed-tree"
							r.res.Count("diagnosed:timestamp-file-ahead-of-flushed-tree", 1)
						}
					}
					os.RemoveAll(d2)
				}
				if os.Getenv("VERIF_KEEPBAD") != "" && (!j.rec.OpenOk || !j.rec.ContentOk || !j.rec.ChainOk || !j.rec.IndexOk || !j.rec.ProofOk || !j.rec.CommitOk || !j.rec.ExtraValuesOk) {
				fmt.Fprintf(os.Stderr, "kept image %s: %s k=%d %s\n", j.dir, j.rec.Mode, j.rec.K, j.rec.Detail)
					continue
				}
				os.RemoveAll(filepath.Dir(j.dir))
			}
		}()
	}
	type segOut struct {
		t    *dbTrack
		evs  []int // global indices of this store's events
		recs []*recovered
	}
	var segs []*segOut
	imgN := 0
	for _, name := range r.order {
		t := r.dbs[name]
		so := &segOut{t: t}
		segs = append(segs, so)
		for i, e := range events {
			if e["store"] == name {
				so.evs = append(so.evs, i)
			}
		}
		if len(t.epochs) == 0 {
			continue
		}
		// windows in which the store's trace is not exact: events were held back between the end of store.Open and
		// tracer.Opened (systemdb at start-up: the server writes before the harness can look)
		type win struct{ from, to int }
		var amb []win
		for _, ep := range t.epochs {
			if ep.released > 0 {
				from := 0
				for _, gi := range so.evs {
					if gi < ep.fromEv && events[gi]["ev"] == "Closed" {
						from = gi
					}
				}
				amb = append(amb, win{from, ep.relEnd})
			}
		}
		// crash points start after the first acknowledged write (systemdb has none: after its first exact window)
		start := len(events) + 1
		if len(t.acks) > 0 {
			start = t.acks[0].evIdx + 1
		} else if name == "systemdb" {
			start = t.epochs[0].relEnd
		}
		var sops []storetrace.PhysOp
		for _, op := range ops {
			if strings.HasPrefix(op.File, name+"/") {
				sops = append(sops, op)
			}
		}
		r.res.Count("phys-ops:"+t.prof, len(sops))
		// eligible points: k = number of this store's operations already applied
		type point struct {
			k, at int
			must  bool
		}
		var pts []point
		ackSeen := 0
		for k := 1; k <= len(sops); k++ {
			at := len(events)
			if k < len(sops) {
				at = sops[k].LSeq
			}
			if at < start {
				continue
			}
			skip := false
			for _, w := range amb {
				skip = skip || (at > w.from && at <= w.to)
			}
			if skip {
				r.res.Count("points-skipped-inexact-window", 1)
				continue
			}
			must := false
			for ackSeen < len(t.acks) && t.acks[ackSeen].evIdx < at {
				ackSeen++
				must = true // the first point after an acknowledgement
			}
			pts = append(pts, point{k, at, must || k == len(sops)})
		}
		r.res.Count("crash-points-eligible", len(pts))
		limit := maxPoints
		if t.prof == "default" {
			limit = maxPointsDefault // recoveries of databases with the default limits are several times more expensive
		}
		if limit > 0 && len(pts) > limit {
			keep := map[int]bool{}
			var rest []int
			for i, p := range pts {
				if p.must {
					keep[i] = true
				} else {
					rest = append(rest, i)
				}
			}
			rng := rand.New(rand.NewSource(r.seed*31 + int64(r.idx)*7 + int64(len(name))))
			rng.Shuffle(len(rest), func(i, j int) { rest[i], rest[j] = rest[j], rest[i] })
			for _, i := range rest {
				if len(keep) >= limit {
					break
				}
				keep[i] = true
			}
			var np []point
			for i, p := range pts {
				if keep[i] {
					np = append(np, p)
				}
			}
			pts = np
		}
		ib := storetrace.NewImageBuilder()
		applied := 0
		for _, p := range pts {
			for applied < p.k {
				ib.Apply(sops[applied])
				applied++
			}
			snap := ib.Clone()
			// incarnation of the store at this point
			ep := t.epochs[0]
			for _, e := range t.epochs {
				if e.fromEv < p.at {
					ep = e
				}
			}
			var acks []ack
			for _, a := range t.acks {
				if a.evIdx < p.at {
					acks = append(acks, a)
				}
			}
			var cAt uint64
			for _, gi := range so.evs {
				if gi >= p.at {
					break
				}
				if events[gi]["ev"] == "Committed" {
					cAt = evUint(events[gi], "upto")
				}
			}
			for _, m := range []storetrace.Mode{"kill", "power0"} {
				imgN++
				idir := filepath.Join(sdir, fmt.Sprintf("img%d", imgN))
				_, err := ib.Materialise(idir, m, rand.New(rand.NewSource(r.seed+int64(p.k))))
				vh.Must(err, "materialise")
				if _, err := os.Stat(filepath.Join(idir, name, "commit")); err != nil {
					os.RemoveAll(idir)
					continue
				}
				rec := &recovered{K: p.k, Mode: string(m), At: p.at, How: ep.how}
				so.recs = append(so.recs, rec)
				jobs <- job{dir: filepath.Join(idir, name), io: ep.ioConc, acks: acks, cAt: cAt, idx: t.prof != "default" || p.k%4 == 0, rec: rec, snap: snap, mode: m, name: name, k: p.k}
			}
		}
	}
	close(jobs)
	wg.Wait()

	// ---- per-store traces: Reset, the store's events (with the way the store had been opened), Acks, Recovered events
	enc := json.NewEncoder(out)
	for _, so := range segs {
		t := so.t
		if len(t.epochs) == 0 {
			continue
		}
		byAt := map[int][]*recovered{}
		var ats []int
		for _, rc := range so.recs {
			if _, ok := byAt[rc.At]; !ok {
				ats = append(ats, rc.At)
			}
			byAt[rc.At] = append(byAt[rc.At], rc)
		}
		sort.Ints(ats)
		emit := func(rc *recovered) {
			e := map[string]interface{}{"ev": "Recovered", "store": t.name, "sched": r.idx, "k": rc.K, "mode": rc.Mode, "how": rc.How, "openOk": rc.OpenOk, "c": rc.C,
				"alhs": rc.Alhs, "chainOk": rc.ChainOk, "linkOk": rc.LinkOk, "contentOk": rc.ContentOk, "extraValuesOk": rc.ExtraValuesOk,
				"proofOk": rc.ProofOk, "indexOk": rc.IndexOk, "commitOk": rc.CommitOk, "detail": rc.Detail}
			if rc.Cause != "" {
				e["cause"] = rc.Cause
			}
			if rc.Alhs == nil {
				e["alhs"] = []int{}
			}
			enc.Encode(e)
			r.res.Evaluations++
			r.res.Count("images:"+rc.Mode, 1)
			r.res.Count("images:how:"+rc.How, 1)
			r.res.Count("images:profile:"+t.prof, 1)
			if !rc.OpenOk || !rc.ChainOk || !rc.ContentOk || !rc.ExtraValuesOk || !rc.ProofOk || !rc.IndexOk || !rc.CommitOk {
				r.res.Count("images-with-a-failed-check", 1)
			}
		}
		enc.Encode(map[string]interface{}{"ev": "Reset", "store": t.name, "sched": r.idx, "synced": true, "ext": false,
			"cfg": fmt.Sprintf("server schedule %d (MaxActiveDatabases %s) database %s profile %s", r.idx, map[bool]string{true: "1", false: "default"}[r.sch.Cap == 1], t.name, t.prof)})
		ai := 0
		for _, gi := range so.evs {
			for ai < len(ats) && ats[ai] <= gi {
				for _, rc := range byAt[ats[ai]] {
					emit(rc)
				}
				ai++
			}
			how := t.epochs[0].how
			for _, ep := range t.epochs {
				if ep.fromEv <= gi {
					how = ep.how
				}
			}
			e := map[string]interface{}{"how": how, "sched": r.idx}
			for k, v := range events[gi] {
				e[k] = v
			}
			enc.Encode(e)
		}
		for ; ai < len(ats); ai++ {
			for _, rc := range byAt[ats[ai]] {
				emit(rc)
			}
		}
	}
}
