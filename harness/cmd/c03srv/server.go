package main

import (
	"context"
	"fmt"
	"os"
	"path/filepath"
	"reflect"
	"unsafe"

	"github.com/codenotary/immudb/embedded/logger"
	"github.com/codenotary/immudb/embedded/store"
	"github.com/codenotary/immudb/pkg/client"
	"github.com/codenotary/immudb/pkg/database"
	"github.com/codenotary/immudb/pkg/server"
	"github.com/codenotary/immudb/pkg/server/servertest"

	"verifharness/vh"
)

// field gives access to an unexported struct field (v must be addressable).
func field(v reflect.Value, name string) reflect.Value {
	f := v.FieldByName(name)
	if !f.IsValid() {
		vh.Fatalf("reflection: %s has no field %q (the harness has to follow a refactoring)", v.Type(), name)
	}
	return reflect.NewAt(f.Type(), unsafe.Pointer(f.UnsafeAddr())).Elem()
}

// storeOf reaches the store inside a database.DB (the unexported field `st` of pkg/database.db), as harness/cmd/c07db does.
func storeOf(d database.DB) *store.ImmuStore {
	return field(reflect.ValueOf(d).Elem(), "st").Interface().(*store.ImmuStore)
}

// storeOpts: the options object the store was opened with
func storeOpts(st *store.ImmuStore) *store.Options {
	return field(reflect.ValueOf(st).Elem(), "opts").Interface().(*store.Options)
}

type srvCtl struct {
	bs   *servertest.BufconnServer
	srv  *server.ImmuServer
	mgr  *database.DBManager
	cl   client.ImmuClient
	cur  string // database selected in the client session
	root string
	cdir string
}

func startServer(root, clientDir string, cap int) *srvCtl {
	// default options: synced
	opts := server.DefaultOptions().WithDir(root)
	if cap > 0 {
		opts = opts.WithMaxActiveDatabases(cap)
	}
	bs := servertest.NewBufconnServer(opts)
	bs.Server.Srv.WithLogger(logger.NewMemoryLoggerWithLevel(logger.LogError))
	vh.Must(bs.Start(), "server start")
	s := &srvCtl{bs: bs, srv: bs.Server.Srv, root: root, cdir: clientDir}
	sv := reflect.ValueOf(s.srv).Elem()
	dl := field(sv, "dbList").Interface().(database.DatabaseList)
	s.mgr = field(reflect.ValueOf(dl).Elem(), "m").Interface().(*database.DBManager)
	vh.Must(os.MkdirAll(clientDir, 0755), "mkdir client dir")
	cl, err := bs.NewAuthenticatedClient(client.DefaultOptions().WithDir(clientDir))
	vh.Must(err, "client session")
	s.cl = cl
	s.cur = "defaultdb"
	return s
}

func (s *srvCtl) sysStore() *store.ImmuStore {
	d := field(reflect.ValueOf(s.srv).Elem(), "sysDB").Interface().(database.DB)
	return storeOf(d)
}

// isActive: the database's store is open in the manager (no side effect on the life cycle)
func (s *srvCtl) isActive(name string) bool {
	idx := s.mgr.GetIndexByName(name)
	return idx >= 0 && !s.mgr.IsClosed(idx) && s.mgr.IsActive(idx)
}

// use = DBManager.Get + Release: what every API call on the database does first; opens the store when it is not open
func (s *srvCtl) use(name string) (*store.ImmuStore, error) {
	idx := s.mgr.GetIndexByName(name)
	if idx < 0 {
		return nil, fmt.Errorf("database %s is not known to the manager", name)
	}
	d, err := s.mgr.Get(idx)
	if err != nil {
		return nil, err
	}
	defer s.mgr.Release(idx)
	return storeOf(d), nil
}

func (s *srvCtl) stop() {
	s.cl.CloseSession(context.Background())
	vh.Must(s.bs.Stop(), "server stop")
	if s.srv.Listener != nil {
		s.srv.Listener.Close()
	}
}

func (s *srvCtl) path(name string) string { return filepath.Join(s.root, name) }
