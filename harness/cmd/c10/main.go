// c10: replays behaviours of spec/TBTree.tla (printed by TLC under -simulate, or counterexamples of the
// "code as pinned" model) on the real embedded/tbtree on disk, under configuration classes that force deep
// trees, splits, cache misses, threshold driven flushes, cleanups and file discards.
//
// The oracle is thin: every expected read result and the abstract state after every step come from TLC's
// output.  The harness concretises abstract keys/values to bytes, executes the step, projects the real result
// back to the abstract domain and compares.  Which state a snapshot froze is the implementation's decision:
// TLC printed the expected result for every admissible state, the harness selects by the real Snapshot.Ts().
package main

import (
	"bytes"
	"encoding/json"
	"errors"
	"flag"
	"fmt"
	"io"
	"os"
	"path/filepath"
	"runtime"
	"sort"
	"strings"
	"sync"
	"sync/atomic"
	"time"

	"github.com/codenotary/immudb/embedded/logger"
	"github.com/codenotary/immudb/embedded/tbtree"

	"verifharness/vh"
)

// ---------------------------------------------------------------- behaviours as printed by TLC

type aKey []int       // abstract key: sequence of symbols
type aState [][][]int // per key (in the order of Behaviour.Keys): versions [v, t], oldest first
type ver struct{ V, T int }

type resRec struct {
	R   string `json:"r"`
	Cls string `json:"cls"`
	K   aKey   `json:"k"`
	V   int    `json:"v"`
	T   int    `json:"t"`
	Hc  int    `json:"hc"`
	Tvs []ver  `json:"tvs"`
	Mid bool   `json:"mid"`
}

type expEntry struct {
	Ts  int    `json:"ts"`
	Res resRec `json:"res"`
}

type specRec struct {
	Kind   string `json:"kind"`
	Seek   aKey   `json:"seek"`
	End    aKey   `json:"end"`
	Prefix aKey   `json:"prefix"`
	Iseek  bool   `json:"iseek"`
	Iend   bool   `json:"iend"`
	Desc   bool   `json:"desc"`
	Off    int    `json:"off"`
	Key    aKey   `json:"key"`
	Lim    int    `json:"lim"`
}

type step struct {
	Op   string `json:"op"`
	Ok   *bool  `json:"ok"`
	Why  string `json:"why"`
	Kvts []struct {
		K aKey `json:"k"`
		V int  `json:"v"`
		T int  `json:"t"`
	} `json:"kvts"`
	To    int  `json:"to"`
	S     int  `json:"s"`
	Must  int  `json:"must"`
	Renew bool `json:"renew"`
	Cands []struct {
		Ts int    `json:"ts"`
		St aState `json:"st"`
	} `json:"cands"`
	Rd   int     `json:"rd"`
	Spec specRec `json:"spec"`
	Call struct {
		Op string `json:"op"`
		I  int    `json:"i"`
		F  int    `json:"f"`
	} `json:"call"`
	Tg      int        `json:"tg"`
	K       aKey       `json:"k"`
	I       int        `json:"i"`
	F       int        `json:"f"`
	Off     int        `json:"off"`
	Lim     int        `json:"lim"`
	Desc    bool       `json:"desc"`
	P       aKey       `json:"p"`
	Neq     aKey       `json:"neq"`
	Cleanup int        `json:"cleanup"`
	Synced  bool       `json:"synced"`
	At      int        `json:"at"`
	From    int        `json:"from"`
	Exp     []expEntry `json:"exp"`
	Ts      int        `json:"ts"`
	St      aState     `json:"st"`
	// reader matrix
	Probes []aKey            `json:"probes"`
	Cases  []json.RawMessage `json:"cases"`
	Pages  []json.RawMessage `json:"pages"`
}

func (s *step) ok() bool { return s.Ok == nil || *s.Ok }

type behaviour struct {
	Keys   []aKey            `json:"keys"`
	Ops    []step            `json:"ops"`
	Raw    []json.RawMessage `json:"-"`
	Origin string            `json:"origin"`
}

type inputFile struct {
	Behaviours []json.RawMessage `json:"behaviours"`
}

// ---------------------------------------------------------------- configuration classes

type class struct {
	name        string
	symLen      int
	block       func(sym int) []byte // bytes of one symbol (all blocks of a class have the same length, ordered like the symbols)
	maxVal      int
	valSize     func(v int) int
	maxNode     int // 0: the minimum the options accept for (maxKey, maxVal)
	cache       int
	flushThld   int
	syncThld    int
	cleanup     float32
	maxBuffered int
	fileSize    int
	flushBuf    int
	renew       time.Duration
	bg          bool // concurrent reader goroutines on every snapshot while the writer proceeds
	// opened files per log (nodes, history, commit).  With files this small a log has hundreds of files; a small
	// limit makes BulkInsert itself fail at random (it descends into several children concurrently and the
	// opened-files cache of multiapp loses a handle between Put and Get: see probe), so replay never evicts.
	maxOpen int
}

func requiredNodeSize(mk, mv int) int {
	a, b := 2*(29+mk), 31+mk+mv
	if a < b {
		return b
	}
	return a
}

func fill(n int, b byte, last byte) []byte {
	x := bytes.Repeat([]byte{b}, n)
	x[n-1] = last
	return x
}

func classes() []class {
	return []class{
		{name: "default", symLen: 1, block: func(s int) []byte { return []byte{byte('a' + s - 1)} }, maxVal: 512,
			valSize: func(v int) int { return 1 + (v*7)%40 }, maxNode: tbtree.DefaultMaxNodeSize, cache: tbtree.DefaultCacheSize,
			flushThld: tbtree.DefaultFlushThld, syncThld: tbtree.DefaultSyncThld, maxBuffered: tbtree.DefaultMaxBufferedDataSize,
			fileSize: tbtree.DefaultFileSize, flushBuf: tbtree.DefaultFlushBufferSize, renew: 0, bg: true, maxOpen: 10},
		// every insert flushes and fsyncs, nothing is ever cached, one entry per leaf, two children per inner node,
		// files of 64 bytes; symbols at the byte boundaries (a key may equal prefix+0xFF.., the greatest prefixed key)
		{name: "deep-thld1-cache1", symLen: 4, block: func(s int) []byte {
			return [][]byte{{0, 0, 0, 0}, {0x7f, 0, 0xff, 1}, {0xff, 0xff, 0xff, 0xff}}[s-1]
		}, maxVal: 8, valSize: func(v int) int { return 1 + (v*5)%8 }, cache: 1, flushThld: 1, syncThld: 1, cleanup: 0,
			maxBuffered: 1, fileSize: 64, flushBuf: 32, renew: 0, bg: false, maxOpen: 4000},
		{name: "deep-cleanup50", symLen: 3, block: func(s int) []byte { return []byte{'k', byte('0' + s), 'x'} }, maxVal: 12,
			valSize: func(v int) int { return []int{12, 1, 7, 12, 3}[v%5] }, cache: 150, flushThld: 2, syncThld: 3, cleanup: 50,
			maxBuffered: 64, fileSize: 100, flushBuf: 50, renew: time.Nanosecond, bg: true, maxOpen: 4000},
		// long keys that differ only in the last byte of a block, cleanup 100 on every threshold flush
		{name: "deep-cleanup100", symLen: 8, block: func(s int) []byte { return fill(8, 'p', byte('0'+s)) }, maxVal: 4,
			valSize: func(v int) int { return 1 + v%4 }, cache: 1, flushThld: 3, syncThld: 3, cleanup: 100,
			maxBuffered: 1 << 20, fileSize: 128, flushBuf: 4096, renew: 0, bg: true, maxOpen: 4000},
		// keys and values at the maximum sizes, no threshold flush: deep mutated trees in memory, flushed only explicitly
		{name: "boundary-noflush", symLen: 16, block: func(s int) []byte { return fill(16, 0xfe, byte(0xfd+s-1)) }, maxVal: 64,
			valSize: func(v int) int { return []int{64, 64, 1, 33}[v%4] }, cache: 200, flushThld: 100000, syncThld: 100000,
			cleanup: 0, maxBuffered: 1 << 20, fileSize: 256, flushBuf: 128, renew: 50 * time.Microsecond, bg: false, maxOpen: 4000},
		// the first deep class again, with concurrent readers (file handles never evicted, see the probe below)
		{name: "deep-thld1-concurrent", symLen: 4, block: func(s int) []byte {
			return [][]byte{{0, 0, 0, 0}, {0x7f, 0, 0xff, 1}, {0xff, 0xff, 0xff, 0xff}}[s-1]
		}, maxVal: 8, valSize: func(v int) int { return 1 + (v*5)%8 }, cache: 90, flushThld: 1, syncThld: 1000, cleanup: 30,
			maxBuffered: 1, fileSize: 64, flushBuf: 32, renew: 0, bg: true, maxOpen: 4000},
	}
}

func (c *class) maxKey() int { return 2 * c.symLen }

func (c *class) opts() *tbtree.Options {
	mn := c.maxNode
	if mn == 0 {
		mn = requiredNodeSize(c.maxKey(), c.maxVal)
	}
	return tbtree.DefaultOptions().
		WithLogger(logger.NewSimpleLoggerWithLevel("c10", io.Discard, logger.LogError)).
		WithMaxKeySize(c.maxKey()).WithMaxValueSize(c.maxVal).WithMaxNodeSize(mn).
		WithCacheSize(c.cache).WithFlushThld(c.flushThld).WithSyncThld(c.syncThld).
		WithCleanupPercentage(c.cleanup).WithMaxBufferedDataSize(c.maxBuffered).
		WithFileSize(c.fileSize).WithFlushBufferSize(c.flushBuf).WithRenewSnapRootAfter(c.renew).
		WithNodesLogMaxOpenedFiles(c.maxOpen).WithHistoryLogMaxOpenedFiles(c.maxOpen).WithCommitLogMaxOpenedFiles(c.maxOpen).
		WithCompactionThld(1).WithDelayDuringCompaction(0).WithMaxActiveSnapshots(100)
}

// ---------------------------------------------------------------- concretisation

type conc struct {
	c      *class
	seed   int64
	keyOf  map[string]aKey // bytes -> abstract key (every string of up to 2 symbols)
	valOf  map[string]int
	keySeq []aKey
}

func newConc(c *class, seed int64, keys []aKey) *conc {
	k := &conc{c: c, seed: seed, keyOf: map[string]aKey{}, valOf: map[string]int{}, keySeq: keys}
	for a := 1; a <= 3; a++ {
		k.keyOf[string(k.key(aKey{a}))] = aKey{a}
		for b := 1; b <= 3; b++ {
			k.keyOf[string(k.key(aKey{a, b}))] = aKey{a, b}
		}
	}
	for v := 1; v < 250; v++ {
		k.valOf[string(k.val(v))] = v
	}
	return k
}

func (k *conc) key(a aKey) []byte {
	if len(a) == 0 {
		return nil
	}
	var b []byte
	for _, s := range a {
		b = append(b, k.c.block(s)...)
	}
	return b
}

func (k *conc) val(v int) []byte {
	n := k.c.valSize(v)
	if n < 1 {
		n = 1
	}
	if n > k.c.maxVal {
		n = k.c.maxVal
	}
	return append([]byte{byte(v)}, vh.Bytes(k.seed, "c10val", v, n-1)...)
}

func (k *conc) absKey(b []byte) aKey {
	if a, ok := k.keyOf[string(b)]; ok {
		return a
	}
	return aKey{-1}
}

func (k *conc) absVal(b []byte) int {
	if v, ok := k.valOf[string(b)]; ok {
		return v
	}
	return -1
}

// ---------------------------------------------------------------- projection of real results

func errClass(err error) string {
	switch {
	case err == nil:
		return "ok"
	case errors.Is(err, tbtree.ErrKeyNotFound):
		return "notfound"
	case errors.Is(err, tbtree.ErrNoMoreEntries):
		return "nomore"
	case errors.Is(err, tbtree.ErrOffsetOutOfRange):
		return "outofrange"
	case errors.Is(err, tbtree.ErrIllegalArguments):
		return "illegal"
	}
	return "error"
}

func (k *conc) entry(key, value []byte, ts, hc uint64, err error) resRec {
	if err != nil {
		return resRec{R: errClass(err), Cls: err.Error()}
	}
	return resRec{R: "ok", K: k.absKey(key), V: k.absVal(value), T: int(ts), Hc: int(int64(hc))}
}

func (k *conc) tvs(list []tbtree.TimedValue, hc uint64, err error) resRec {
	if err != nil {
		return resRec{R: errClass(err), Cls: err.Error()}
	}
	r := resRec{R: "ok", Hc: int(int64(hc))}
	for _, tv := range list {
		r.Tvs = append(r.Tvs, ver{k.absVal(tv.Value), int(tv.Ts)})
	}
	return r
}

func eqKey(a, b aKey) bool {
	if len(a) != len(b) {
		return false
	}
	for i := range a {
		if a[i] != b[i] {
			return false
		}
	}
	return true
}

// compare an expected result with the projected real one; returns "" or the class of the difference
func diff(exp, got resRec, withKey, withHc bool) string {
	if exp.R != got.R {
		return "got-" + got.R
	}
	if exp.R != "ok" {
		return ""
	}
	if exp.Tvs != nil || got.Tvs != nil {
		if len(exp.Tvs) != len(got.Tvs) {
			return "got-wrong-number-of-versions"
		}
		for i := range exp.Tvs {
			if exp.Tvs[i] != got.Tvs[i] {
				return "got-wrong-version"
			}
		}
		if withHc && exp.Hc != got.Hc {
			return "got-wrong-hc"
		}
		return ""
	}
	if withKey && !eqKey(exp.K, got.K) {
		return "got-wrong-key"
	}
	if exp.V != got.V || exp.T != got.T {
		return "got-wrong-version"
	}
	if exp.Hc != got.Hc {
		return "got-wrong-hc"
	}
	return ""
}

// the tree/snapshot read API
type readAPI interface {
	Get(key []byte) ([]byte, uint64, uint64, error)
	GetBetween(key []byte, initialTs, finalTs uint64) ([]byte, uint64, uint64, error)
	History(key []byte, offset uint64, descOrder bool, limit int) ([]tbtree.TimedValue, uint64, error)
	GetWithPrefix(prefix []byte, neq []byte) ([]byte, []byte, uint64, uint64, error)
	Ts() uint64
}

// full projection through Get + History of every key of the universe
func (k *conc) project(api readAPI) (int, aState, string) {
	st := make(aState, len(k.keySeq))
	for i, a := range k.keySeq {
		st[i] = [][]int{}
		key := k.key(a)
		v, ts, hc, err := api.Get(key)
		if errors.Is(err, tbtree.ErrKeyNotFound) {
			if _, _, herr := api.History(key, 0, false, 100); !errors.Is(herr, tbtree.ErrKeyNotFound) {
				return 0, nil, fmt.Sprintf("Get(%v) = key not found but History = %v", a, herr)
			}
			continue
		}
		if err != nil {
			return 0, nil, fmt.Sprintf("Get(%v): %v", a, err)
		}
		tvs, hcount, err := api.History(key, 0, false, 100)
		if err != nil {
			return 0, nil, fmt.Sprintf("History(%v): %v", a, err)
		}
		for _, tv := range tvs {
			st[i] = append(st[i], []int{k.absVal(tv.Value), int(tv.Ts)})
		}
		n := len(tvs)
		if n == 0 || int(hc) != n || int(hcount) != n || int(tvs[n-1].Ts) != int(ts) || !bytes.Equal(tvs[n-1].Value, v) {
			return 0, nil, fmt.Sprintf("Get(%v) = (v%d, ts %d, hc %d) disagrees with History = %v (hCount %d)", a, k.absVal(v), ts, hc, st[i], hcount)
		}
	}
	return int(api.Ts()), st, ""
}

// full projection through a reader with IncludeHistory over the whole key space (finds keys outside the universe too)
func (k *conc) scan(s *tbtree.Snapshot, desc bool) (aState, string) {
	r, err := s.NewReader(tbtree.ReaderSpec{IncludeHistory: true, DescOrder: desc})
	if err != nil {
		return nil, "NewReader: " + err.Error()
	}
	defer r.Close()
	st := make(aState, len(k.keySeq))
	for i := range st {
		st[i] = [][]int{}
	}
	idx := map[string]int{}
	for i, a := range k.keySeq {
		idx[fmt.Sprint(a)] = i
	}
	for n := 0; n < 10000; n++ {
		key, v, ts, _, err := r.Read()
		if errors.Is(err, tbtree.ErrNoMoreEntries) {
			if desc {
				for i := range st {
					for a, b := 0, len(st[i])-1; a < b; a, b = a+1, b-1 {
						st[i][a], st[i][b] = st[i][b], st[i][a]
					}
				}
			}
			return st, ""
		}
		if err != nil {
			return nil, "Read: " + err.Error()
		}
		i, ok := idx[fmt.Sprint(k.absKey(key))]
		if !ok {
			return nil, fmt.Sprintf("reader returned a key that was never inserted: %x", key)
		}
		st[i] = append(st[i], []int{k.absVal(v), int(ts)})
	}
	return nil, "reader does not terminate"
}

func eqState(a, b aState) bool {
	if len(a) != len(b) {
		return false
	}
	for i := range a {
		if len(a[i]) != len(b[i]) {
			return false
		}
		for j := range a[i] {
			if a[i][j][0] != b[i][j][0] || a[i][j][1] != b[i][j][1] {
				return false
			}
		}
	}
	return true
}

// ---------------------------------------------------------------- one run = one behaviour on one class

type tsState struct {
	ts int
	st aState
}

type violation struct {
	sig, text string
	step      int
	bg        bool
	cont      bool // a read-only step returned something else: the tree is not affected, the behaviour goes on
}

type snapH struct {
	s      *tbtree.Snapshot
	ts     int
	frozen aState
	stop   chan struct{}
	done   chan struct{}
	bgErr  atomic.Pointer[string]
	bgIter int64
}

type readerH struct {
	snap     int
	spec     specRec
	r        *tbtree.Reader
	hr       *tbtree.HistoryReader
	resetMid bool
	dead     bool // diverged from the model (after a reported finding): not compared any more
}

type run struct {
	k       *conc
	cl      *class
	path    string
	t       *tbtree.TBtree
	snaps   map[int]*snapH
	readers map[int]*readerH
	b       *behaviour
	earlier []tsState // abstract states (with ts) of the steps before the current one, and the empty state
	cnt     map[string]int
	bgConc  bool
}

func (r *run) count(k string) { r.cnt[k]++ }

func (r *run) open() error {
	t, err := tbtree.Open(r.path, r.cl.opts())
	r.t = t
	return err
}

// background reader on a snapshot: re-reads everything while the writer proceeds and compares with the frozen copy
func (r *run) startBG(h *snapH) {
	h.stop, h.done = make(chan struct{}), make(chan struct{})
	go func() {
		defer close(h.done)
		defer func() {
			if x := recover(); x != nil {
				msg := fmt.Sprintf("panic in a concurrent reader: %v", x)
				h.bgErr.Store(&msg)
			}
		}()
		for {
			select {
			case <-h.stop:
				return
			default:
			}
			if msg := r.checkSnapshot(h, h.bgIter%2 == 1); msg != "" {
				h.bgErr.Store(&msg)
				return
			}
			atomic.AddInt64(&h.bgIter, 1)
			time.Sleep(200 * time.Microsecond)
		}
	}()
}

func (r *run) stopBG(h *snapH) {
	if h.stop != nil {
		close(h.stop)
		<-h.done
		h.stop = nil
	}
}

// every result of a snapshot is a function of its frozen copy
func (r *run) checkSnapshot(h *snapH, desc bool) string {
	ts, st, msg := r.k.project(h.s)
	if msg != "" {
		return msg
	}
	if ts != h.ts {
		return fmt.Sprintf("Ts() changed from %d to %d", h.ts, ts)
	}
	if !eqState(st, h.frozen) {
		return fmt.Sprintf("Get/History give %v, frozen state is %v", st, h.frozen)
	}
	sc, msg := r.k.scan(h.s, desc)
	if msg != "" {
		return msg
	}
	if !eqState(sc, h.frozen) {
		return fmt.Sprintf("full reader scan (desc=%v) gives %v, frozen state is %v", desc, sc, h.frozen)
	}
	return ""
}

func (r *run) api(tg int) (readAPI, string) {
	if tg == 0 {
		return r.t, "TBtree"
	}
	return r.snaps[tg].s, "Snapshot"
}

func (r *run) expFor(tg int, exp []expEntry) *resRec {
	if tg == 0 {
		if len(exp) == 1 {
			return &exp[0].Res
		}
		return nil
	}
	for i := range exp {
		if exp[i].Ts == r.snaps[tg].ts {
			return &exp[i].Res
		}
	}
	return nil
}

// foreign: the value returned belongs to a version of another key
func (r *run) foreign(exp, got resRec, key aKey) bool {
	if got.R != "ok" || got.V <= 0 {
		return false
	}
	for _, o := range r.b.Ops {
		for _, kv := range o.Kvts {
			if kv.V == got.V {
				if key != nil {
					return !eqKey(kv.K, key)
				}
				return !eqKey(kv.K, got.K)
			}
		}
	}
	return false
}

func clsOf(e resRec) string {
	if e.R == "notfound" && e.Cls != "" {
		return e.R + "-" + e.Cls
	}
	return e.R
}

func (r *run) exec(si int) *violation {
	st := &r.b.Ops[si]
	k := r.k
	viol := func(sig, text string) *violation { return &violation{sig: sig, text: text, step: si} }
	r.count("op:" + st.Op)
	stateChecked := false

	switch st.Op {
	case "bulk":
		kvts := make([]*tbtree.KVT, len(st.Kvts))
		for i, e := range st.Kvts {
			kvts[i] = &tbtree.KVT{K: k.key(e.K), V: k.val(e.V), T: uint64(e.T)}
		}
		err := r.t.BulkInsert(kvts)
		if st.ok() && err != nil {
			return viol("BulkInsert:got-error:expected-ok", fmt.Sprintf("BulkInsert(%v) failed: %v", st.Kvts, err))
		}
		if !st.ok() {
			r.count("rejected:bulk-" + st.Why)
			if err == nil {
				return viol("BulkInsert:got-ok:expected-rejected-"+st.Why, fmt.Sprintf("BulkInsert(%v) was accepted", st.Kvts))
			}
			if v := r.compareTree(si, "BulkInsert:rejected-"+st.Why); v != nil {
				return v
			}
			stateChecked = true
		}
	case "incts":
		err := r.t.IncreaseTs(uint64(st.To))
		if st.ok() != (err == nil) {
			return viol(fmt.Sprintf("IncreaseTs:got-%s:expected-ok-%v", errClass(err), st.ok()), fmt.Sprintf("IncreaseTs(%d) with ts %d: %v", st.To, r.b.Ops[si].Ts, err))
		}
	case "snap":
		var s *tbtree.Snapshot
		var err error
		if st.Renew {
			s, err = r.t.SnapshotMustIncludeTsWithRenewalPeriod(uint64(st.Must), time.Nanosecond)
		} else {
			s, err = r.t.SnapshotMustIncludeTs(uint64(st.Must))
		}
		if !st.ok() {
			r.count("rejected:snap-future-ts")
			if err == nil {
				s.Close()
				return viol("SnapshotMustIncludeTs:got-ok:expected-rejected-future-ts", fmt.Sprintf("snapshot including ts %d granted at ts %d", st.Must, st.Ts))
			}
			break
		}
		if err != nil {
			return viol("SnapshotMustIncludeTs:got-error:expected-ok", fmt.Sprintf("SnapshotMustIncludeTs(%d): %v", st.Must, err))
		}
		h := &snapH{s: s, ts: int(s.Ts())}
		r.snaps[st.S] = h
		found := false
		for _, c := range st.Cands {
			if c.Ts == h.ts {
				h.frozen, found = c.St, true
			}
		}
		if h.ts < st.Must {
			return viol("SnapshotMustIncludeTs:snapshot-older-than-requested-ts", fmt.Sprintf("asked to include ts %d, snapshot has ts %d", st.Must, h.ts))
		}
		if !found {
			return viol("SnapshotMustIncludeTs:snapshot-ts-is-not-a-state-of-the-tree", fmt.Sprintf("snapshot ts %d, states of the tree since ts %d: %v", h.ts, st.Must, st.Cands))
		}
		if h.ts == st.Ts {
			r.count("snapshot:current-state")
		} else {
			r.count("snapshot:stale-state")
		}
		if msg := r.checkSnapshot(h, false); msg != "" {
			return viol("Snapshot:content-differs-from-state-at-its-ts:at-creation", fmt.Sprintf("snapshot %d (ts %d): %s", st.S, h.ts, msg))
		}
		if r.bgConc {
			r.startBG(h)
		}
	case "closesnap":
		h := r.snaps[st.S]
		if !st.ok() {
			r.count("rejected:closesnap-readers-open")
			if err := h.s.Close(); err == nil {
				return viol("Snapshot.Close:got-ok:expected-rejected-readers-open", "snapshot closed while readers are open")
			}
			break
		}
		r.stopBG(h)
		r.count("bg-iterations:" + bucket(h.bgIter))
		if e := h.bgErr.Load(); e != nil {
			return &violation{sig: "Snapshot:concurrent-read-differs-from-frozen-state", text: *e, step: si, bg: true}
		}
		if err := h.s.Close(); err != nil {
			return viol("Snapshot.Close:got-error:expected-ok", err.Error())
		}
		delete(r.snaps, st.S)
	case "newreader":
		h := r.snaps[st.S]
		rh := &readerH{snap: st.S, spec: st.Spec}
		var err error
		if st.Spec.Kind == "pages" {
			rh.hr, err = h.s.NewHistoryReader(&tbtree.HistoryReaderSpec{Key: k.key(st.Spec.Key), Offset: uint64(st.Spec.Off), DescOrder: st.Spec.Desc, ReadLimit: st.Spec.Lim})
		} else {
			rh.r, err = h.s.NewReader(tbtree.ReaderSpec{SeekKey: k.key(st.Spec.Seek), EndKey: k.key(st.Spec.End), Prefix: k.key(st.Spec.Prefix),
				InclusiveSeek: st.Spec.Iseek, InclusiveEnd: st.Spec.Iend, IncludeHistory: st.Spec.Kind == "hist", DescOrder: st.Spec.Desc, Offset: uint64(st.Spec.Off)})
		}
		if err != nil {
			return viol("Snapshot.NewReader:got-error:expected-ok", fmt.Sprintf("%+v: %v", st.Spec, err))
		}
		r.readers[st.Rd] = rh
		r.count("reader:" + st.Spec.Kind)
	case "rread":
		rh := r.readers[st.Rd]
		if rh.dead {
			r.count("skipped:reader-diverged")
			break
		}
		exp := r.expFor(rh.snap, st.Exp)
		if exp == nil {
			vh.Fatalf("no expected result for snapshot ts %d in %+v", r.snaps[rh.snap].ts, st.Exp)
		}
		var got resRec
		name := "Reader.Read"
		switch {
		case rh.hr != nil:
			name = "HistoryReader.Read"
			tvs, err := rh.hr.Read()
			got = k.tvs(tvs, 0, err)
		case st.Call.Op == "between":
			name = "Reader.ReadBetween"
			key, v, ts, hc, err := rh.r.ReadBetween(uint64(st.Call.I), uint64(st.Call.F))
			got = k.entry(key, v, ts, hc, err)
		default:
			key, v, ts, hc, err := rh.r.Read()
			got = k.entry(key, v, ts, hc, err)
		}
		r.count("result:" + name + ":" + clsOf(*exp))
		if d := diff(*exp, got, true, false); d != "" {
			rh.dead = true
			sig := fmt.Sprintf("%s:%s:expected-%s:%s", name, d, clsOf(*exp), rh.spec.Kind)
			if rh.resetMid {
				sig = name + ":after-reset-in-the-middle-of-a-key-history:" + d
			} else if r.foreign(*exp, got, nil) {
				sig = name + ":got-value-of-another-key:expected-" + clsOf(*exp)
			}
			v := viol(sig, fmt.Sprintf("reader %d %+v on snapshot ts %d, call %+v: expected %+v, got %+v", st.Rd, rh.spec, r.snaps[rh.snap].ts, st.Call, *exp, got))
			v.cont = true
			return v
		}
	case "rreset":
		rh := r.readers[st.Rd]
		if err := rh.r.Reset(); err != nil {
			return viol("Reader.Reset:got-error:expected-ok", err.Error())
		}
		if exp := r.expFor(rh.snap, st.Exp); exp != nil && exp.Mid {
			rh.resetMid = true
			r.count("reader:reset-mid-history")
		} else {
			rh.resetMid = false
		}
	case "rclose":
		rh := r.readers[st.Rd]
		var err error
		if rh.hr != nil {
			err = rh.hr.Close()
		} else {
			err = rh.r.Close()
		}
		if err != nil {
			return viol("Reader.Close:got-error:expected-ok", err.Error())
		}
		delete(r.readers, st.Rd)
	case "get", "between", "history", "prefix":
		api, recv := r.api(st.Tg)
		exp := r.expFor(st.Tg, st.Exp)
		if exp == nil {
			vh.Fatalf("no expected result for target %d in %+v", st.Tg, st.Exp)
		}
		var got resRec
		var name string
		withKey := false
		var askKey aKey
		switch st.Op {
		case "get":
			name, askKey = "Get", st.K
			v, ts, hc, err := api.Get(k.key(st.K))
			got = k.entry(k.key(st.K), v, ts, hc, err)
		case "between":
			name, askKey = "GetBetween", st.K
			v, ts, hc, err := api.GetBetween(k.key(st.K), uint64(st.I), uint64(st.F))
			got = k.entry(k.key(st.K), v, ts, hc, err)
		case "history":
			name = "History"
			tvs, hc, err := api.History(k.key(st.K), uint64(st.Off), st.Desc, st.Lim)
			got = k.tvs(tvs, hc, err)
		case "prefix":
			name, withKey = "GetWithPrefix", true
			key, v, ts, hc, err := api.GetWithPrefix(k.key(st.P), k.key(st.Neq))
			got = k.entry(key, v, ts, hc, err)
		}
		r.count("result:" + name + ":" + clsOf(*exp))
		if d := diff(*exp, got, withKey, true); d != "" {
			sig := fmt.Sprintf("%s:%s:expected-%s:%s", name, d, clsOf(*exp), recv)
			if r.foreign(*exp, got, askKey) {
				sig = fmt.Sprintf("%s:got-value-of-another-key:expected-%s:%s", name, clsOf(*exp), recv)
			}
			v := viol(sig, fmt.Sprintf("%s.%s %s: expected %+v, got %+v", recv, name, describe(st), *exp, got))
			v.cont = true
			return v
		}
	case "flush":
		if _, _, err := r.t.FlushWith(float32(st.Cleanup), st.Synced); err != nil {
			return viol("FlushWith:got-error:expected-ok", fmt.Sprintf("FlushWith(%d, %v): %v", st.Cleanup, st.Synced, err))
		}
	case "sync":
		if err := r.t.Sync(); err != nil {
			return viol("Sync:got-error:expected-ok", err.Error())
		}
	case "compact":
		// Compact refuses to work before anything was flushed (compaction threshold, here 1): make sure something was
		if n, err := r.t.SnapshotCount(); err == nil && n == 0 {
			if _, _, err := r.t.Flush(); err != nil {
				return viol("Flush:got-error:expected-ok", err.Error())
			}
		}
		ts, err := r.t.Compact()
		if !st.ok() {
			r.count("rejected:compact-target-exists")
			if err == nil {
				return viol("Compact:got-ok:expected-rejected-target-exists", fmt.Sprintf("second compaction at ts %d succeeded", st.At))
			}
			break
		}
		if err != nil {
			return viol("Compact:got-error:expected-ok", fmt.Sprintf("Compact at ts %d: %v", st.At, err))
		}
		if int(ts) != st.At {
			// a compaction may report an older state of the tree; the model (sequential calls) expects the current one
			r.count("divergence:compact-reports-older-ts")
			return &violation{sig: "divergence", step: si}
		}
	case "reopen":
		if !st.ok() {
			r.count("rejected:close-snapshots-open")
			if err := r.t.Close(); err == nil {
				return viol("Close:got-ok:expected-rejected-snapshots-open", "tree closed while snapshots are open")
			}
			break
		}
		if err := r.t.Close(); err != nil {
			return viol("Close:got-error:expected-ok", err.Error())
		}
		if err := r.open(); err != nil {
			return viol("Open:got-error:expected-ok", err.Error())
		}
		if st.From != 0 {
			r.count("reopen:loads-compaction-dump")
		}
	case "matrix":
		if v := r.matrix(si); v != nil {
			return v
		}
	default:
		vh.Fatalf("unknown op %q", st.Op)
	}

	return r.afterStep(si, stateChecked)
}

// after every step: the whole tree (all keys, all versions, ts) against the abstract state ...
func (r *run) afterStep(si int, stateChecked bool) *violation {
	st := &r.b.Ops[si]
	viol := func(sig, text string) *violation { return &violation{sig: sig, text: text, step: si} }
	if !stateChecked {
		if v := r.compareTree(si, opName(st)); v != nil {
			return v
		}
	}
	// ... and every open snapshot against its frozen copy
	for id, h := range r.snaps {
		if h.frozen == nil {
			continue
		}
		if e := h.bgErr.Load(); e != nil {
			return &violation{sig: "Snapshot:concurrent-read-differs-from-frozen-state", text: fmt.Sprintf("snapshot %d (ts %d) after %s: %s", id, h.ts, opName(st), *e), step: si, bg: true}
		}
		if msg := r.checkSnapshot(h, si%2 == 0); msg != "" {
			return viol("Snapshot:content-differs-from-state-at-its-ts:after-"+st.Op, fmt.Sprintf("snapshot %d (ts %d) after %s: %s", id, h.ts, opName(st), msg))
		}
		r.count("snapshot-reread")
	}
	return nil
}

// ---------------------------------------------------------------- reader matrix

type mcase struct {
	p, s, e           int
	iseek, iend, desc bool
	off               int
	hist              bool
	out               [][2]int
}

func parseCase(raw json.RawMessage) mcase {
	var f []json.RawMessage
	vh.Must(json.Unmarshal(raw, &f), "matrix case")
	if len(f) != 9 {
		vh.Fatalf("matrix case with %d fields", len(f))
	}
	var c mcase
	for i, dst := range []interface{}{&c.p, &c.s, &c.e, &c.iseek, &c.iend, &c.desc, &c.off, &c.hist, &c.out} {
		vh.Must(json.Unmarshal(f[i], dst), "matrix case field")
	}
	return c
}

func hasPrefix(k, p aKey) bool { return len(p) <= len(k) && eqKey(k[:len(p)], p) }

// every reader specification TLC enumerated, on the snapshot the script took: the reader must return exactly the
// listed (key, version) sequence and then "no more entries"
func (r *run) matrix(si int) *violation {
	st := &r.b.Ops[si]
	h := r.snaps[st.S]
	k := r.k
	stored := map[string]bool{}
	for i, a := range k.keySeq {
		if len(h.frozen[i]) > 0 {
			stored[fmt.Sprint(a)] = true
		}
	}
	is := func(a aKey) bool { return stored[fmt.Sprint(a)] }
	var first *violation
	bad := 0
	for _, raw := range st.Cases {
		c := parseCase(raw)
		P, S, E := st.Probes[c.p-1], st.Probes[c.s-1], st.Probes[c.e-1]
		// classes of boundary combinations (vacuity guard of the check)
		r.count("matrix:cases")
		if len(P) > 0 && eqKey(S, P) {
			r.count("matrix:seek==prefix")
			if is(P) && !c.iseek {
				r.count("matrix:seek==prefix==stored-key,exclusive")
			}
		}
		if len(P) > 0 && eqKey(E, P) {
			r.count("matrix:end==prefix")
			if is(P) && !c.iend {
				r.count("matrix:end==prefix==stored-key,exclusive")
			}
		}
		if len(P) > 0 && is(P) {
			r.count("matrix:stored-key==prefix")
		}
		if len(S) < len(P) && len(S) > 0 && hasPrefix(P, S) {
			r.count("matrix:seek-proper-prefix-of-prefix")
		}
		if len(P) < len(S) && len(P) > 0 && hasPrefix(S, P) {
			r.count("matrix:prefix-proper-prefix-of-seek")
		}
		if is(S) && !c.iseek {
			r.count("matrix:exclusive-seek-on-stored-key")
		}
		if is(S) && c.iseek {
			r.count("matrix:inclusive-seek-on-stored-key")
		}
		if is(E) && !c.iend {
			r.count("matrix:exclusive-end-on-stored-key")
		}
		if is(E) && c.iend {
			r.count("matrix:inclusive-end-on-stored-key")
		}
		if len(S) == 0 {
			r.count("matrix:empty-seek")
		}
		if len(P) == 0 {
			r.count("matrix:empty-prefix")
		}
		if c.off > 0 {
			r.count("matrix:offset")
		}
		if c.hist {
			r.count("matrix:include-history")
		}
		if len(c.out) == 0 {
			r.count("matrix:empty-result")
		}
		rd, err := h.s.NewReader(tbtree.ReaderSpec{SeekKey: k.key(S), EndKey: k.key(E), Prefix: k.key(P), InclusiveSeek: c.iseek,
			InclusiveEnd: c.iend, IncludeHistory: c.hist, DescOrder: c.desc, Offset: uint64(c.off)})
		if err != nil {
			return &violation{sig: "Snapshot.NewReader:got-error:expected-ok", text: err.Error(), step: si}
		}
		// a plain reader is driven a second time through ReadBetween(0, 0): by the model (BetweenAgrees) the same sequence
		var rd2 *tbtree.Reader
		if !c.hist {
			rd2, err = h.s.NewReader(tbtree.ReaderSpec{SeekKey: k.key(S), EndKey: k.key(E), Prefix: k.key(P), InclusiveSeek: c.iseek,
				InclusiveEnd: c.iend, DescOrder: c.desc, Offset: uint64(c.off)})
			if err != nil {
				return &violation{sig: "Snapshot.NewReader:got-error:expected-ok", text: err.Error(), step: si}
			}
		}
		var got [][2]int
		d := ""
		for n := 0; n <= len(c.out) && d == ""; n++ {
			key, v, ts, hc, err := rd.Read()
			var exp resRec
			if n < len(c.out) {
				ki, x := c.out[n][0]-1, c.out[n][1]
				exp = resRec{R: "ok", K: k.keySeq[ki], V: h.frozen[ki][x-1][0], T: h.frozen[ki][x-1][1], Hc: x}
			} else {
				exp = resRec{R: "nomore"}
			}
			g := k.entry(key, v, ts, hc, err)
			if g.R == "ok" {
				got = append(got, [2]int{indexOf(k.keySeq, g.K) + 1, g.Hc})
			}
			if d = diff(exp, g, true, false); d != "" {
				d = fmt.Sprintf("%s:expected-%s", d, exp.R)
			} else if rd2 != nil {
				key, v, ts, hc, err := rd2.ReadBetween(0, 0)
				if d = diff(exp, k.entry(key, v, ts, hc, err), true, false); d != "" {
					d = fmt.Sprintf("ReadBetween-%s:expected-%s", d, exp.R)
				}
			}
		}
		rd.Close()
		if rd2 != nil {
			rd2.Close()
			r.count("matrix:read-between-cases")
		}
		if d != "" {
			bad++
			r.count("matrix:mismatch")
			if first == nil {
				order, kind := "asc", "plain"
				if c.desc {
					order = "desc"
				}
				if c.hist {
					kind = "hist"
				}
				rel := "seek-other"
				switch {
				case len(S) == 0:
					rel = "seek-empty"
				case eqKey(S, P):
					rel = "seek==prefix"
				case hasPrefix(P, S):
					rel = "seek-prefix-of-prefix"
				case hasPrefix(S, P):
					rel = "prefix-prefix-of-seek"
				}
				first = &violation{sig: fmt.Sprintf("Reader.Read:matrix:%s:%s-%s:%s", d, order, kind, rel), step: si, cont: true,
					text: fmt.Sprintf("reader {Prefix %v, SeekKey %v (inclusive %v), EndKey %v (inclusive %v), desc %v, offset %d, history %v} on stored keys %v: expected (key index, version) %v then no more entries, got %v",
						P, S, c.iseek, E, c.iend, c.desc, c.off, c.hist, keysOf(stored), c.out, got)}
			}
		}
	}
	for _, raw := range st.Pages {
		var f []json.RawMessage
		vh.Must(json.Unmarshal(raw, &f), "page case")
		var ki, off, lim int
		var desc bool
		var pages [][]int
		var end string
		for i, dst := range []interface{}{&ki, &off, &desc, &lim, &pages, &end} {
			vh.Must(json.Unmarshal(f[i], dst), "page case field")
		}
		key := st.Probes[ki-1]
		r.count("matrix:history-reader-cases")
		hr, err := h.s.NewHistoryReader(&tbtree.HistoryReaderSpec{Key: k.key(key), Offset: uint64(off), DescOrder: desc, ReadLimit: lim})
		if err != nil {
			return &violation{sig: "Snapshot.NewHistoryReader:got-error:expected-ok", text: err.Error(), step: si}
		}
		d := ""
		fi := indexOf(k.keySeq, key)
		for n := 0; n <= len(pages) && d == ""; n++ {
			tvs, err := hr.Read()
			g := k.tvs(tvs, 0, err)
			exp := resRec{R: end}
			if n < len(pages) {
				exp = resRec{R: "ok", Tvs: []ver{}}
				for _, x := range pages[n] {
					exp.Tvs = append(exp.Tvs, ver{h.frozen[fi][x-1][0], h.frozen[fi][x-1][1]})
				}
			}
			if d = diff(exp, g, false, false); d != "" {
				d = fmt.Sprintf("%s:expected-%s:page-%d", d, exp.R, n+1)
			}
		}
		hr.Close()
		if d != "" {
			bad++
			r.count("matrix:mismatch")
			if first == nil {
				first = &violation{sig: "HistoryReader.Read:matrix:" + d, step: si, cont: true,
					text: fmt.Sprintf("history reader {Key %v, Offset %d, desc %v, ReadLimit %d}: expected pages %v then %s", key, off, desc, lim, pages, end)}
			}
		}
	}
	if first != nil {
		first.text = fmt.Sprintf("%d reader specifications of the matrix fail; first: %s", bad, first.text)
	}
	return first
}

func indexOf(seq []aKey, a aKey) int {
	for i, x := range seq {
		if eqKey(x, a) {
			return i
		}
	}
	return -1
}

func keysOf(m map[string]bool) []string {
	var out []string
	for k := range m {
		out = append(out, k)
	}
	sort.Strings(out)
	return out
}

func opName(st *step) string {
	switch st.Op {
	case "bulk":
		return "BulkInsert"
	case "incts":
		return "IncreaseTs"
	case "snap":
		return "SnapshotMustIncludeTs"
	case "flush":
		return "FlushWith"
	case "sync":
		return "Sync"
	case "compact":
		return "Compact"
	case "reopen":
		if st.From != 0 {
			return "Close+Open-after-compaction"
		}
		return "Close+Open"
	}
	return "read-only-step"
}

func describe(st *step) string {
	switch st.Op {
	case "get":
		return fmt.Sprintf("(%v)", st.K)
	case "between":
		return fmt.Sprintf("(%v, %d, %d)", st.K, st.I, st.F)
	case "history":
		return fmt.Sprintf("(%v, offset %d, desc %v, limit %d)", st.K, st.Off, st.Desc, st.Lim)
	case "prefix":
		return fmt.Sprintf("(prefix %v, neq %v)", st.P, st.Neq)
	}
	return ""
}

func bucket(n int64) string {
	switch {
	case n == 0:
		return "0"
	case n < 10:
		return "1-9"
	case n < 100:
		return "10-99"
	}
	return "100+"
}

// the real tree, projected twice (Get/History per key; full scans in both directions through a reader on the
// current root), against the abstract state after step si
func (r *run) compareTree(si int, what string) *violation {
	st := &r.b.Ops[si]
	ts, got, msg := r.k.project(r.t)
	if msg == "" && (ts != st.Ts || !eqState(got, st.St)) {
		msg = fmt.Sprintf("tree is (ts %d) %v, the model says (ts %d) %v", ts, got, st.Ts, st.St)
	}
	if msg == "" {
		ss, err := r.t.SyncSnapshot()
		if err != nil {
			return &violation{sig: "SyncSnapshot:got-error:expected-ok", text: err.Error(), step: si}
		}
		for _, desc := range []bool{false, true} {
			sc, m := r.k.scan(ss, desc)
			if m == "" && !eqState(sc, st.St) {
				m = fmt.Sprintf("full reader scan (desc=%v) of the current root gives %v, the model says %v", desc, sc, st.St)
			}
			if m != "" {
				msg = m
				got = sc
				ts = int(ss.Ts())
				break
			}
		}
		ss.Close()
	}
	if msg == "" {
		return nil
	}
	cls := "content-differs-from-the-model"
	if got != nil {
		for _, e := range r.earlier {
			if e.ts == ts && eqState(e.st, got) && !(e.ts == st.Ts && eqState(e.st, st.St)) {
				cls = "tree-is-an-earlier-state"
			}
		}
	}
	return &violation{sig: what + ":" + cls, text: fmt.Sprintf("after %s: %s", what, msg), step: si}
}

func (r *run) cleanup() {
	for _, rh := range r.readers {
		if rh.hr != nil {
			rh.hr.Close()
		} else if rh.r != nil {
			rh.r.Close()
		}
	}
	for _, h := range r.snaps {
		r.stopBG(h)
		h.s.Close()
	}
	if r.t != nil {
		r.t.Close()
	}
	os.RemoveAll(r.path)
}

func runOne(b *behaviour, cl *class, seed int64, dir string, bg bool) ([]*violation, map[string]int, int) {
	r := &run{k: newConc(cl, seed, b.Keys), cl: cl, path: dir, snaps: map[int]*snapH{}, readers: map[int]*readerH{}, b: b,
		cnt: map[string]int{}, bgConc: bg && cl.bg}
	defer r.cleanup()
	os.RemoveAll(dir)
	if err := r.open(); err != nil {
		vh.Fatalf("open %s (%s): %v", dir, cl.name, err)
	}
	empty := make(aState, len(b.Keys))
	for i := range empty {
		empty[i] = [][]int{}
	}
	r.earlier = []tsState{{0, empty}}
	steps := 0
	var vs []*violation
	for si := range b.Ops {
		var v *violation
		panicked, hung, msg := vh.Guard(60*time.Second, func() { v = r.exec(si) })
		if hung {
			return append(vs, &violation{sig: opName(&b.Ops[si]) + ":hangs", text: "no return after 60 s", step: si}), r.cnt, steps
		}
		if panicked {
			return append(vs, &violation{sig: opName(&b.Ops[si]) + ":panics", text: msg, step: si}), r.cnt, steps
		}
		steps++
		if v != nil {
			vs = append(vs, v)
			if !v.cont {
				return vs, r.cnt, steps
			}
			// the whole-tree and snapshot comparison of this step was skipped by the early return: do it now
			if v2 := r.afterStep(si, false); v2 != nil {
				return append(vs, v2), r.cnt, steps
			}
		}
		r.earlier = append(r.earlier, tsState{b.Ops[si].Ts, b.Ops[si].St})
	}
	return vs, r.cnt, steps
}

// an error "key not found" that is not tbtree.ErrKeyNotFound comes out of the opened-files cache of a log
func classify(v *violation) string {
	if strings.Contains(v.text, "key not found") && !strings.Contains(v.text, "tbtree: key not found") {
		return "read-fails-with-cache-key-not-found:opened-files-cache-eviction-race"
	}
	if v.bg && strings.HasSuffix(v.text, "EOF") {
		return "snapshot-read-fails-with-EOF:cleanup-flush-discards-node-files-under-a-reader-in-flight"
	}
	return v.sig
}

// probe 2: a snapshot taken on a flushed root shares its node objects with the tree.  A synced flush with cleanup
// rewrites those nodes in place (new offsets) and then discards the old node-log files; the protection of open
// snapshots reads snap.root.minOffset(), which the rewrite has just raised.  A reader that fetched an old offset (or is
// descending through old on-disk inner nodes) before the rewrite and reads after the discard gets io.EOF.
// Many reader goroutines on few processors make such stalls frequent.
func probeDiscard(seed int64, dir string, res *vh.Result) {
	path := filepath.Join(dir, "probe2")
	os.RemoveAll(path)
	opts := tbtree.DefaultOptions().WithLogger(logger.NewSimpleLoggerWithLevel("c10", io.Discard, logger.LogError)).
		WithMaxKeySize(8).WithMaxValueSize(8).WithMaxNodeSize(74).WithCacheSize(1).WithFileSize(100).WithFlushBufferSize(50).
		WithNodesLogMaxOpenedFiles(4000).WithHistoryLogMaxOpenedFiles(4000).WithCommitLogMaxOpenedFiles(4000).
		WithFlushThld(1000).WithSyncThld(1000)
	t, err := tbtree.Open(path, opts)
	vh.Must(err, "probe2 open")
	key := func(i int) []byte { return []byte(fmt.Sprintf("key%05d", i)) }
	val := vh.Bytes(seed, "probe2", 0, 6)
	for i := 0; i < 40; i++ {
		vh.Must(t.Insert(key(i), val), "probe2 insert")
	}
	_, _, err = t.FlushWith(0, true)
	vh.Must(err, "probe2 flush")
	s, err := t.SnapshotMustIncludeTs(t.Ts())
	vh.Must(err, "probe2 snapshot")
	old := runtime.GOMAXPROCS(3)
	defer runtime.GOMAXPROCS(old)
	var bad, reads int64
	var first atomic.Pointer[string]
	stop := make(chan struct{})
	var wg sync.WaitGroup
	for g := 0; g < 200; g++ {
		wg.Add(1)
		go func(g int) {
			defer wg.Done()
			for n := 0; ; n++ {
				select {
				case <-stop:
					return
				default:
				}
				k := key((n*7 + g) % 40)
				v, _, _, err := s.Get(k)
				atomic.AddInt64(&reads, 1)
				if err != nil || !bytes.Equal(v, val) {
					m := fmt.Sprintf("Snapshot.Get(%s) = %x, %v", k, v, err)
					first.CompareAndSwap(nil, &m)
					atomic.AddInt64(&bad, 1)
				}
			}
		}(g)
	}
	deadline := time.Now().Add(6 * time.Second)
	flushes := 0
	var ferr error
	for time.Now().Before(deadline) && atomic.LoadInt64(&bad) == 0 && ferr == nil {
		_, _, ferr = t.FlushWith(100, true)
		flushes++
	}
	close(stop)
	wg.Wait()
	after := 0 // the failures are transient: once the writer rests every key is readable again
	for i := 0; i < 40; i++ {
		if v, _, _, err := s.Get(key(i)); err != nil || !bytes.Equal(v, val) {
			after++
		}
	}
	res.Count("probe2:failed-reads-after-the-writer-stopped", after)
	res.Count("probe2:cleanup-flushes", flushes)
	res.Count("probe2:concurrent-reads", int(reads))
	res.Count("probe2:failed-reads", int(bad))
	if m := first.Load(); m != nil {
		vv := &violation{sig: "Snapshot.Get:wrong-result-while-cleanup-flushes-run", text: *m, bg: true}
		res.Violate(classify(vv), fmt.Sprintf("[probe: 40 keys, node files of 100 bytes, snapshot on the flushed root, 200 reader goroutines on 3 processors, writer calls FlushWith(100, true)] after %d flushes %d of %d reads failed (%d of 40 keys still unreadable once the writer stopped); first: %s", flushes, bad, reads, after, *m),
			map[string]interface{}{"probe": "cleanup-discard-under-readers", "seed": seed})
	} else if ferr != nil {
		vh.Fatalf("probe2 flush: %v", ferr)
	}
	s.Close()
	t.Close()
	os.RemoveAll(path)
}

// probe: many files per log, few opened files allowed, several goroutines reading one snapshot while the writer
// keeps inserting.  Every read must return what was inserted (the snapshot's frozen state).
func probe(seed int64, dir string, res *vh.Result) {
	cl := classes()[1]
	cl.maxOpen = 1
	k := newConc(&cl, seed, nil)
	path := filepath.Join(dir, "probe")
	os.RemoveAll(path)
	t, err := tbtree.Open(path, cl.opts())
	vh.Must(err, "probe open")
	keys := []aKey{{1}, {1, 1}, {1, 2}, {1, 3}, {2}, {2, 1}, {2, 2}, {2, 3}, {3}}
	want := map[string][]int{}
	v := 0
	for round := 0; round < 3; round++ {
		for _, a := range keys {
			v++
			vh.Must(t.Insert(k.key(a), k.val(v)), "probe insert")
			want[fmt.Sprint(a)] = append(want[fmt.Sprint(a)], v)
		}
	}
	s, err := t.SnapshotMustIncludeTs(t.Ts())
	vh.Must(err, "probe snapshot")
	var bad, reads int64
	var first atomic.Pointer[string]
	stop := make(chan struct{})
	var wg sync.WaitGroup
	for g := 0; g < 6; g++ {
		wg.Add(1)
		go func(g int) {
			defer wg.Done()
			for n := 0; ; n++ {
				select {
				case <-stop:
					return
				default:
				}
				a := keys[(n*7+g)%len(keys)]
				tvs, _, err := s.History(k.key(a), 0, false, 10)
				atomic.AddInt64(&reads, 1)
				msg := ""
				if err != nil {
					msg = fmt.Sprintf("Snapshot.History(%v): %v", a, err)
				} else {
					w := want[fmt.Sprint(a)]
					if len(tvs) != len(w) {
						msg = fmt.Sprintf("Snapshot.History(%v): %d versions, inserted %d", a, len(tvs), len(w))
					} else {
						for i := range w {
							if k.absVal(tvs[i].Value) != w[i] {
								msg = fmt.Sprintf("Snapshot.History(%v): version %d is value %d, inserted %d", a, i, k.absVal(tvs[i].Value), w[i])
							}
						}
					}
				}
				if msg != "" {
					atomic.AddInt64(&bad, 1)
					first.CompareAndSwap(nil, &msg)
				}
			}
		}(g)
	}
	deadline := time.Now().Add(400 * time.Millisecond)
	var werr error
	for time.Now().Before(deadline) && atomic.LoadInt64(&bad) == 0 && werr == nil {
		v++
		if v > 240 {
			v = 200
		}
		werr = t.Insert(k.key(keys[v%len(keys)]), k.val(v))
	}
	close(stop)
	wg.Wait()
	res.Count("probe:concurrent-reads", int(reads))
	res.Count("probe:failed-reads", int(bad))
	if m := first.Load(); m != nil {
		vv := &violation{sig: "Snapshot.History:wrong-result-under-concurrent-readers", text: *m}
		res.Violate(classify(vv), fmt.Sprintf("[probe: 27 versions in files of 64 bytes, 1 opened file per log, 6 reader goroutines on one snapshot] %s (%d of %d reads failed)", *m, bad, reads),
			map[string]interface{}{"probe": "concurrent-readers", "seed": seed, "class": cl.name, "maxOpenedFiles": 1})
	} else if werr != nil {
		vv := &violation{sig: "Insert:got-error:expected-ok:under-concurrent-readers", text: werr.Error()}
		res.Violate(classify(vv), "[probe] writer failed while 6 goroutines read a snapshot: "+werr.Error(), map[string]interface{}{"probe": "concurrent-readers", "seed": seed})
	}
	s.Close()
	t.Close()
	os.RemoveAll(path)
}

// ---------------------------------------------------------------- main

func main() {
	in := flag.String("in", "", "behaviours (JSON)")
	seed := flag.Int64("seed", 1, "seed")
	dir := flag.String("dir", "", "scratch directory")
	only := flag.String("classes", "", "comma separated class names (default: all)")
	workers := flag.Int("workers", 0, "parallel runs")
	nobg := flag.Bool("nobg", false, "no concurrent reader goroutines on snapshots")
	doProbe := flag.Bool("probe", false, "run the concurrent-readers probe")
	flag.Parse()
	if *in == "" || *dir == "" {
		vh.Fatalf("usage: c10 -in behaviours.json -dir scratch")
	}
	var f inputFile
	vh.ReadJSON(*in, &f)
	bs := make([]*behaviour, len(f.Behaviours))
	for i, raw := range f.Behaviours {
		b := &behaviour{}
		vh.Must(json.Unmarshal(raw, b), "parse behaviour")
		var r struct {
			Ops []json.RawMessage `json:"ops"`
		}
		vh.Must(json.Unmarshal(raw, &r), "parse behaviour ops")
		b.Raw = r.Ops
		bs[i] = b
	}
	cls := classes()
	if *only != "" {
		var sel []class
		for _, c := range cls {
			if strings.Contains(","+*only+",", ","+c.name+",") {
				sel = append(sel, c)
			}
		}
		cls = sel
	}
	if len(cls) == 0 {
		vh.Fatalf("no configuration class selected")
	}
	w := *workers
	if w <= 0 {
		w = runtime.NumCPU() / 2
		if w < 2 {
			w = 2
		}
	}

	res := vh.NewResult()
	type job struct{ bi, ci int }
	jobs := make(chan job)
	var wg sync.WaitGroup
	var mu sync.Mutex
	var steps, runs int64
	perClass := map[string][2]int{}
	for wi := 0; wi < w; wi++ {
		wg.Add(1)
		go func(wi int) {
			defer wg.Done()
			for j := range jobs {
				b, cl := bs[j.bi], &cls[j.ci]
				d := filepath.Join(*dir, fmt.Sprintf("w%d", wi))
				vs, cnt, n := runOne(b, cl, *seed, d, !*nobg)
				var keep []*violation
				diverged := false
				for _, v := range vs {
					if v.sig == "divergence" {
						diverged = true
						continue
					}
					v.sig = classify(v)
					keep = append(keep, v)
				}
				if len(keep) > 0 {
					// flake guard: a violation counts only if the same behaviour fails the same way once more (with
					// concurrent readers the schedule differs from run to run: up to three more attempts)
					tries := 1
					if cl.bg && !*nobg {
						tries = 3
					}
					seen := map[string]bool{}
					for i := 0; i < tries; i++ {
						vs2, _, _ := runOne(b, cl, *seed, d, !*nobg)
						for _, v2 := range vs2 {
							seen[fmt.Sprintf("%s@%d", classify(v2), v2.step)] = true
							if cl.bg && !*nobg {
								seen[classify(v2)+"@any"] = true
							}
						}
					}
					var again []*violation
					for _, v := range keep {
						if seen[fmt.Sprintf("%s@%d", v.sig, v.step)] || seen[v.sig+"@any"] {
							again = append(again, v)
						} else {
							res.Count("flaky-violation-not-reproduced", 1)
							res.DriftNote(fmt.Sprintf("not reproduced on re-run: %s at step %d (%s): %s", v.sig, v.step+1, cl.name, v.text))
						}
					}
					keep = again
				}
				if diverged {
					res.Count("stopped-at-divergence:"+cl.name, 1)
				}
				mu.Lock()
				steps += int64(n)
				runs++
				pc := perClass[cl.name]
				perClass[cl.name] = [2]int{pc[0] + 1, pc[1] + n}
				mu.Unlock()
				for k, c := range cnt {
					res.Count(k, c)
				}
				res.Count("runs:"+cl.name, 1)
				res.Count("steps:"+cl.name, n)
				stopped := false
				for _, v := range keep {
					stopped = stopped || !v.cont
					res.Violate(v.sig, fmt.Sprintf("[%s] step %d (%s): %s", cl.name, v.step+1, b.Ops[v.step].Op, v.text),
						map[string]interface{}{"class": cl.name, "seed": *seed, "origin": b.Origin, "keys": b.Keys, "failing_step": v.step + 1,
							"ops": b.Raw[:v.step+1]})
				}
				if stopped {
					res.Count("stopped-at-violation:"+cl.name, 1)
				}
			}
		}(wi)
	}
	for bi := range bs {
		for ci := range cls {
			jobs <- job{bi, ci}
		}
	}
	close(jobs)
	wg.Wait()

	if *doProbe {
		probe(*seed, *dir, res)
		probeDiscard(*seed, *dir, res)
	}
	res.Evaluations = int(steps)
	res.Traces = int(runs)
	res.Distinct = len(bs)
	names := make([]string, 0, len(perClass))
	for n := range perClass {
		names = append(names, n)
	}
	sort.Strings(names)
	pc := map[string]interface{}{}
	for _, n := range names {
		pc[n] = map[string]int{"behaviours": perClass[n][0], "steps": perClass[n][1]}
	}
	res.Extra["c10_per_class"] = pc
	if len(bs) > 0 {
		var ops []string
		for _, o := range bs[0].Ops {
			ops = append(ops, o.Op)
		}
		res.Sample(map[string]interface{}{"tbtree_behaviour": ops}, 6)
	}
	res.Emit()
}
