// x01: replays behaviours of spec/Watchers.tla on the real embedded/watchers.WatchersHub: every WaitFor call runs in its own
// goroutine; after each step the hub's Status() and the set of returned calls (with their results) must match the specification.
package main

import (
	"context"
	"errors"
	"flag"
	"fmt"
	"sync"
	"time"

	"github.com/codenotary/immudb/embedded/watchers"

	"verifharness/vh"
)

type step struct {
	Op      string
	W, T    int
	Res     string
	Done    uint64
	Waiting int
}
type behaviour struct{ Ops []step }
type file struct {
	MaxWaiting int
	Behaviours []behaviour
}

func main() {
	path := flag.String("behaviours", "", "JSON with Watchers.tla behaviours")
	flag.Parse()
	var f file
	vh.ReadJSON(*path, &f)
	res := vh.NewResult()
	for _, b := range f.Behaviours {
		hub := watchers.New(0, f.MaxWaiting)
		var mu sync.Mutex
		results := map[int]string{} // last result per waiter ("" = parked)
		cancels := map[int]context.CancelFunc{}
		res.Traces++
		opsSoFar := []string{}
		fail := func(sig, text string) {
			res.Violate(sig, fmt.Sprintf("%s after %v", text, opsSoFar), map[string]interface{}{"behaviour": b.Ops[:len(opsSoFar)]})
		}
		expected := map[int]string{}
		isClosed := false
	steps:
		for _, s := range b.Ops {
			opsSoFar = append(opsSoFar, fmt.Sprintf("%s(w%d,t%d)", s.Op, s.W, s.T))
			res.Evaluations++
			res.Count("op:"+s.Op, 1)
			switch s.Op {
			case "wait":
				ctx, cancel := context.WithCancel(context.Background())
				cancels[s.W] = cancel
				mu.Lock()
				results[s.W] = ""
				mu.Unlock()
				w := s.W
				started := make(chan struct{})
				go func() {
					close(started)
					err := hub.WaitFor(ctx, uint64(s.T))
					r := "ok"
					switch {
					case errors.Is(err, watchers.ErrMaxWaitessLimitExceeded):
						r = "limit"
					case errors.Is(err, watchers.ErrAlreadyClosed):
						r = "closed"
					case errors.Is(err, context.Canceled):
						r = "cancelled"
					case err != nil:
						r = "error:" + err.Error()
					}
					mu.Lock()
					results[w] = r
					mu.Unlock()
				}()
				<-started
				if s.Res == "none" {
					expected[w] = ""
				} else {
					expected[w] = s.Res
				}
			case "done":
				if err := hub.DoneUpto(uint64(s.T)); err != nil {
					fail("watchers.DoneUpto:error", err.Error())
					break steps
				}
				for w := range expected {
					// the specification says which parked waiters are released by this step: recomputed below from Waiting/Done
					_ = w
				}
			case "recede":
				if err := hub.RecedeTo(uint64(s.T)); err != nil {
					fail("watchers.RecedeTo:error", err.Error())
					break steps
				}
			case "cancel":
				cancels[s.W]()
				expected[s.W] = "cancelled"
			case "close":
				hub.Close()
				isClosed = true
			}
			// parked waiters whose point is now reached / hub closed are expected to return
			for w, e := range expected {
				if e != "" {
					continue
				}
				_ = w
			}
			// compare with the specification: number of parked waiters and doneUpto (Status fails once closed)
			deadline := time.Now().Add(2 * time.Second)
			for {
				done, waiting, err := hub.Status()
				mu.Lock()
				parked := 0
				for _, r := range results {
					if r == "" {
						parked++
					}
				}
				mu.Unlock()
				okStatus := (isClosed && errors.Is(err, watchers.ErrAlreadyClosed)) || (!isClosed && err == nil && done == s.Done && waiting == s.Waiting)
				if okStatus && parked == s.Waiting {
					break
				}
				if time.Now().After(deadline) {
					fail("watchers:state-differs-from-specification", fmt.Sprintf("Status() = (doneUpto %d, waiting %d, err %v), %d calls still parked; specification: doneUpto %d, waiting %d", done, waiting, err, parked, s.Done, s.Waiting))
					break steps
				}
				time.Sleep(200 * time.Microsecond)
			}
			// the result of the call/cancel of this step
			if s.Op == "wait" && s.Res != "none" || s.Op == "cancel" {
				mu.Lock()
				got := results[s.W]
				mu.Unlock()
				if got != s.Res {
					fail("watchers.WaitFor:result-differs", fmt.Sprintf("waiter %d got %q, specification %q", s.W, got, s.Res))
					break steps
				}
			}
		}
		hub.Close()
		for _, c := range cancels {
			c()
		}
	}
	res.Distinct = len(f.Behaviours)
	if len(f.Behaviours) > 0 {
		res.Sample(f.Behaviours[0], 2)
	}
	res.Emit()
}
