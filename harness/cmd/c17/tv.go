package main

import (
	"bufio"
	"encoding/json"
	"fmt"
	"io"
	"os"
	"path/filepath"
	"runtime"
	"sort"
	"sync"
	"sync/atomic"
	"time"

	"github.com/codenotary/immudb/embedded/appendable"

	"verifharness/vh"
)

// One recorded event of a concurrent execution. seq is drawn from one atomic counter: before the call for
// *call events, after the return for *ret events, so the order of the file is a real-time order.
type tvEvent struct {
	Seq int64  `json:"-"`
	E   string `json:"e"`
	ID  int    `json:"id"`
	Off int64  `json:"off"`
	N   int    `json:"n"`
	Bs  []int  `json:"bs"`
	Got []int  `json:"got"`
	EOF bool   `json:"eof"`
	Err string `json:"err,omitempty"`
	Cfg string `json:"cfg,omitempty"`
}

// runTV: a writer appends / flushes / syncs (chunks rotate, handles are evicted) while readers call ReadAt and
// Size; every call and return is recorded; TLC (spec/TraceAppendable.tla) decides whether each observation equals
// the byte array at some moment between its call and its return.
func runTV(out string, seed int64, dir string, runs, ops int, corrupt bool, res *vh.Result) {
	f, err := os.Create(out)
	vh.Must(err, "create trace")
	w := bufio.NewWriter(f)
	enc := json.NewEncoder(w)
	total := 0
	corrupted := false
	for r := 0; r < runs; r++ {
		rnd := vh.Bytes(seed, "c17-tv", r, 4096)
		ri := 0
		next := func(n int) int { ri++; return int(rnd[ri%len(rnd)]) % n }
		c := &cfg{Multi: r%4 != 3, F: []int{4, 6, 8, 16}[next(4)], W: []int{2, 3, 5, 8}[next(4)], MaxOpen: 1 + next(2)}
		switch next(3) {
		case 1:
			c.Retry, c.Auto = true, true
		case 2:
			c.Retry, c.Auto = true, false
		}
		c.Name = fmt.Sprintf("tv-%d multi=%v F=%d W=%d maxOpen=%d retry=%v auto=%v", r, c.Multi, c.F, c.W, c.MaxOpen, c.Retry, c.Auto)
		s := &sess{c: c, res: res, meta: []byte("tv"), kind: "singleapp"}
		if c.Multi {
			s.kind = "multiapp"
		}
		for i := 0; i < 256; i++ {
			s.perm[i] = byte(i)
			s.inv[i] = i
		}
		s.path = filepath.Join(dir, fmt.Sprintf("tv%d", r))
		app, err := s.open(s.path, false)
		vh.Must(err, "open")
		evs := tvRun(app, c, ops, rnd[64:])
		vh.Guard(120*time.Second, func() { app.Close() })
		os.RemoveAll(s.path)
		res.Traces++
		vh.Must(enc.Encode(tvEvent{E: "reset", Cfg: c.Name}), "encode")
		for i := range evs {
			if corrupt && !corrupted && evs[i].E == "rret" && len(evs[i].Got) > 0 {
				evs[i].Got[0] = evs[i].Got[0]%200 + 3 // binding self-test: TLC must reject this trace
				corrupted = true
			}
			vh.Must(enc.Encode(evs[i]), "encode")
			switch evs[i].E {
			case "rret":
				res.Count("tv:reads", 1)
				if evs[i].EOF {
					res.Count("tv:reads-eof", 1)
				}
			case "wret":
				res.Count("tv:appends", 1)
			case "rerr", "werr":
				res.Count("tv:errors", 1)
			}
		}
		total += len(evs) + 1
		if r == 0 {
			k := len(evs)
			if k > 12 {
				k = 12
			}
			res.Sample(map[string]interface{}{"concurrent_trace_cfg": c.Name, "first_events": evs[:k]}, 8)
		}
	}
	vh.Must(w.Flush(), "flush")
	vh.Must(f.Close(), "close")
	res.Evaluations += total
	res.Extra["tv_events"] = total
}

func tvRun(app appendable.Appendable, c *cfg, ops int, rnd []byte) []tvEvent {
	var clock, epoch, sizeHint int64
	var done int32
	var nextID int64
	tick := func() int64 { return atomic.AddInt64(&clock, 1) }
	var mu sync.Mutex
	var all []tvEvent
	var wg sync.WaitGroup
	const readers = 3
	for g := 0; g < readers; g++ {
		wg.Add(1)
		go func(g int) {
			defer wg.Done()
			var evs []tvEvent
			defer func() {
				if x := recover(); x != nil { // a panic of the real code is an observation TLC cannot explain
					evs = append(evs, tvEvent{Seq: tick(), E: "rerr", ID: -1, Err: fmt.Sprintf("panic: %v", x)})
					mu.Lock()
					all = append(all, evs...)
					mu.Unlock()
				}
			}()
			seen := int64(-1)
			burst := 0
			k := g * 7
			for atomic.LoadInt32(&done) == 0 {
				if e := atomic.LoadInt64(&epoch); e != seen {
					seen, burst = e, 0
				}
				if burst >= 3 {
					runtime.Gosched()
					continue
				}
				burst++
				k++
				id := int(atomic.AddInt64(&nextID, 1))
				hint := atomic.LoadInt64(&sizeHint)
				if k%5 == 0 {
					evs = append(evs, tvEvent{Seq: tick(), E: "scall", ID: id})
					sz, err := app.Size()
					ev := tvEvent{E: "sret", ID: id, Off: sz}
					if err != nil {
						ev.E, ev.Err = "rerr", err.Error()
					}
					ev.Seq = tick()
					evs = append(evs, ev)
					continue
				}
				off := (int64(rnd[(k*3)%len(rnd)]) * 7) % (hint + 4)
				if k%3 == 0 && hint > 6 {
					off = hint - int64(rnd[(k*3+1)%len(rnd)])%6 // near the end, where appends land
				}
				n := 1 + int(rnd[(k*3+2)%len(rnd)])%9
				buf := make([]byte, n)
				evs = append(evs, tvEvent{Seq: tick(), E: "rcall", ID: id, Off: off, N: n})
				got, err := app.ReadAt(buf, off)
				ev := tvEvent{E: "rret", ID: id, Off: off, N: n, Got: []int{}}
				for _, b := range buf[:got] {
					ev.Got = append(ev.Got, int(b))
				}
				if err == io.EOF {
					ev.EOF = true
				} else if err != nil {
					ev.E, ev.Err = "rerr", err.Error()
				}
				ev.Seq = tick()
				evs = append(evs, ev)
			}
			mu.Lock()
			all = append(all, evs...)
			mu.Unlock()
		}(g)
	}
	// writer
	var wevs []tvEvent
	buffered := 0
	atom := 0
	writerOp := func(i int) {
		atomic.AddInt64(&epoch, 1)
		x := int(rnd[(i*2)%len(rnd)]) % 10
		switch {
		case x < 7:
			n := 1 + int(rnd[(i*2+1)%len(rnd)])%7
			if c.Retry && !c.Auto {
				if n > c.W {
					n = c.W
				}
				if buffered+n > c.W {
					if err := app.Sync(); err != nil {
						wevs = append(wevs, tvEvent{Seq: tick(), E: "werr", Err: err.Error()})
					}
					buffered = 0
				}
				buffered += n
			}
			bs := make([]byte, n)
			ev := tvEvent{E: "wcall", Bs: make([]int, n)}
			for j := range bs {
				bs[j] = byte(atom%251 + 1)
				ev.Bs[j] = int(bs[j])
				atom++
			}
			ev.Seq = tick()
			wevs = append(wevs, ev)
			off, wn, err := app.Append(bs)
			rv := tvEvent{E: "wret", Off: off, N: wn}
			if err != nil {
				rv.E, rv.Err = "werr", err.Error()
			}
			rv.Seq = tick()
			wevs = append(wevs, rv)
			atomic.AddInt64(&sizeHint, int64(n))
		case x < 9:
			if err := app.Flush(); err != nil {
				wevs = append(wevs, tvEvent{Seq: tick(), E: "werr", Err: err.Error()})
			}
		default:
			if err := app.Sync(); err != nil {
				wevs = append(wevs, tvEvent{Seq: tick(), E: "werr", Err: err.Error()})
			}
			buffered = 0
		}
	}
	writer := func() {
		defer func() {
			if x := recover(); x != nil {
				wevs = append(wevs, tvEvent{Seq: tick(), E: "werr", Err: fmt.Sprintf("panic: %v", x)})
			}
		}()
		for i := 0; i < ops; i++ {
			writerOp(i)
		}
	}
	writer()
	atomic.StoreInt32(&done, 1)
	wg.Wait()
	all = append(all, wevs...)
	sort.Slice(all, func(i, j int) bool { return all[i].Seq < all[j].Seq })
	return all
}
