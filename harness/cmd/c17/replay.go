package main

import (
	"bytes"
	"fmt"
	"io"
	"os"
	"path/filepath"
	"time"

	"github.com/codenotary/immudb/embedded/appendable"
	"github.com/codenotary/immudb/embedded/appendable/multiapp"
	"github.com/codenotary/immudb/embedded/appendable/singleapp"

	"verifharness/vh"
)

// ---- what TLC prints (spec/Appendable.tla, Log / Emit) ----

type dev struct { // a read on which the transcribed code deviates from the byte array, and what it returns
	Off, N int
	Bs     []int
	Eof    bool
	Cls    string // "unclamped": clamping the file part at fileOffset repairs it; "stale-chunk": a stale chunk file is read
}
type step struct {
	Op    string
	A, B  int
	Ret   int   // transcribed code: offset returned by Append
	Ideal []int // the byte array after the step (atoms; 0 = preallocated zero)
	Disc  int   // DiscardUpto high-water mark
	Isize int   // transcribed code: Size() after the step
	Meta  int   // 1 = the metadata given at creation
	Devs  []dev
}
type behaviour struct {
	Ops    []step
	Origin string
	idx    int
}
type cfg struct {
	Name     string
	Multi    bool
	F, W     int
	MaxOpen  int
	Retry    bool
	Auto     bool
	Pre      int
	RB       int
	Comp     []int // compression formats to replay in entry mode in addition to the byte mode
	AltOpts  bool  // re-open with different metadata / file size options (the stored ones must win)
	Variants []string
}
type input struct {
	Cfg        cfg
	Behaviours []behaviour
}

// canonical signatures of the known deviations (findings/C17.json)
const (
	sigReadStale  = "singleapp.readAt:file-part-not-clamped-at-fileOffset:stale-or-preallocated-bytes-instead-of-buffered-bytes"
	sigReadPast   = "singleapp.readAt:file-part-not-clamped-at-fileOffset:bytes-past-size-instead-of-EOF"
	sigStaleChunk = "multiapp.ReadAt:chunk-files-kept-after-SetOffset-rewind:bytes-past-size-instead-of-EOF"
	sigCompOff    = "multiapp.Append:compressed-entry-overflows-chunk:returned-offset-below-previous-size"
)

func sigReopen(kind string) string {
	return kind + ".Open:size-taken-from-files-after-SetOffset-rewind:rolled-back-bytes-reappear"
}
func sigCopy(kind string) string {
	return kind + ".Copy:file-suffix-kept-after-SetOffset-rewind:rolled-back-bytes-reappear"
}

type sess struct {
	c        *cfg
	comp     int
	kind     string
	path     string
	app      appendable.Appendable
	res      *vh.Result
	perm     [256]byte
	inv      [256]int
	meta     []byte
	reopens  int
	variant  string
	selfFlip bool
}

func (s *sess) open(path string, alt bool) (appendable.Appendable, error) {
	meta := s.meta
	if alt {
		meta = []byte("other-metadata")
	}
	if s.c.Multi {
		fs := s.c.F
		if alt {
			fs = s.c.F + 1 // must be ignored: the file size is taken from the stored metadata
		}
		o := multiapp.DefaultOptions().WithFileSize(fs).WithWriteBufferSize(s.c.W).WithMaxOpenedFiles(s.c.MaxOpen).
			WithRetryableSync(s.c.Retry).WithAutoSync(s.c.Auto).WithPrealloc(s.c.Pre > 0).WithCompressionFormat(s.comp).
			WithMetadata(meta).WithFileExt("aof")
		return multiapp.Open(path, o)
	}
	o := singleapp.DefaultOptions().WithWriteBuffer(make([]byte, s.c.W)).WithRetryableSync(s.c.Retry).WithAutoSync(s.c.Auto).
		WithPreallocSize(s.c.Pre).WithCompressionFormat(s.comp).WithMetadata(meta)
	return singleapp.Open(path, o)
}

func (s *sess) bytesOf(atoms []int) []byte {
	out := make([]byte, len(atoms))
	for i, a := range atoms {
		out[i] = s.perm[a]
	}
	return out
}
func (s *sess) atomsOf(bs []byte) []int {
	out := make([]int, len(bs))
	for i, b := range bs {
		out[i] = s.inv[b]
	}
	return out
}
func atomRange(first, n int) []int {
	out := make([]int, n)
	for i := range out {
		out[i] = first + i
	}
	return out
}
func eqInts(a, b []int) bool {
	if len(a) != len(b) {
		return false
	}
	for i := range a {
		if a[i] != b[i] {
			return false
		}
	}
	return true
}
func hasPrefix(a, pre []int) bool { return len(a) >= len(pre) && eqInts(a[:len(pre)], pre) }
func minI(a, b int) int {
	if a < b {
		return a
	}
	return b
}

// the byte array's answer to ReadAt(off, n)
func absRead(ideal []int, off, n int) ([]int, bool) {
	if off >= len(ideal) {
		return []int{}, true
	}
	return ideal[off:minI(off+n, len(ideal))], off+n > len(ideal)
}

type opDesc struct {
	Op   string `json:"op"`
	A, B int
}

func opsOf(ops []step) []opDesc {
	out := make([]opDesc, len(ops))
	for i, o := range ops {
		out[i] = opDesc{o.Op, o.A, o.B}
	}
	return out
}
func (s *sess) ctx(b *behaviour, si int, extra map[string]interface{}) map[string]interface{} {
	m := map[string]interface{}{"cfg": s.c, "compression": s.comp, "variant": s.variant, "origin": b.Origin, "behaviour": b.idx,
		"ops": opsOf(b.Ops[:si+1]), "ideal": b.Ops[si].Ideal, "step": si}
	for k, v := range extra {
		m[k] = v
	}
	return m
}
func show(ops []step) string {
	out := ""
	for i, o := range ops {
		if i > 0 {
			out += " "
		}
		switch o.Op {
		case "append":
			out += fmt.Sprintf("append(%d)", o.A)
		case "read":
			out += fmt.Sprintf("read(%d,%d)", o.A, o.B)
		case "setoffset", "discard":
			out += fmt.Sprintf("%s(%d)", o.Op, o.A)
		default:
			out += o.Op
		}
	}
	return out
}

// rewound: some SetOffset so far has moved the end backwards
func rewound(ops []step, pre int) bool {
	l := pre
	for _, o := range ops {
		if o.Op == "setoffset" && o.A < l {
			return true
		}
		l = len(o.Ideal)
	}
	return false
}

func runReplay(path string, seed int64, dir string, selfFlip bool, res *vh.Result) {
	var in input
	vh.ReadJSON(path, &in)
	c := &in.Cfg
	if len(c.Variants) == 0 {
		c.Variants = []string{"probe", "quiet"}
	}
	base := &sess{c: c, res: res, meta: []byte(fmt.Sprintf("meta-%d", seed))}
	base.kind = "singleapp"
	if c.Multi {
		base.kind = "multiapp"
	}
	// atoms -> bytes: a seed-dependent permutation of 1..255; atom 0 is the zero byte of preallocated files
	rnd := vh.Bytes(seed, "c17-perm", 0, 4*256)
	for i := 0; i < 256; i++ {
		base.perm[i] = byte(i)
	}
	for i := 255; i > 1; i-- {
		j := 1 + int(uint32(rnd[4*i])<<16|uint32(rnd[4*i+1])<<8|uint32(rnd[4*i+2]))%i
		base.perm[i], base.perm[j] = base.perm[j], base.perm[i]
	}
	for i := 0; i < 256; i++ {
		base.inv[base.perm[i]] = i
	}
	flipped := false
	for bi := range in.Behaviours {
		b := &in.Behaviours[bi]
		b.idx = bi
		if selfFlip && !flipped {
			// binding self-test: corrupt one expected byte of the last step that has one
			for si := len(b.Ops) - 1; si >= 0; si-- {
				if len(b.Ops[si].Ideal) > b.Ops[si].Disc {
					id := append([]int{}, b.Ops[si].Ideal...)
					id[len(id)-1] = id[len(id)-1]%200 + 7
					b.Ops[si].Ideal = id
					flipped = true
					break
				}
			}
		}
		for vi, v := range c.Variants {
			s := *base
			s.variant = v
			s.path = filepath.Join(dir, fmt.Sprintf("b%d_%d", bi, vi))
			s.replayBytes(b)
			cleanup(dir, fmt.Sprintf("b%d_%d", bi, vi))
		}
		for _, cf := range c.Comp {
			if c.Retry && !c.Auto {
				continue // a compressed entry does not fit the tiny buffer without auto-sync (ErrBufferFull)
			}
			s := *base
			s.comp = cf
			s.variant = fmt.Sprintf("entries-comp%d", cf)
			s.path = filepath.Join(dir, fmt.Sprintf("b%d_c%d", bi, cf))
			s.replayEntries(b)
			cleanup(dir, fmt.Sprintf("b%d_c%d", bi, cf))
		}
	}
	res.Distinct += len(in.Behaviours)
	if len(in.Behaviours) > 0 {
		res.Sample(map[string]interface{}{"cfg": c.Name, "behaviour": show(in.Behaviours[0].Ops),
			"final_byte_array": in.Behaviours[0].Ops[len(in.Behaviours[0].Ops)-1].Ideal}, 8)
	}
}

func cleanup(dir, prefix string) {
	ms, _ := filepath.Glob(filepath.Join(dir, prefix+"*"))
	for _, m := range ms {
		os.RemoveAll(m)
	}
}

// the whole step (operation + projection) runs under one vh.Guard (see stepGuard); single calls are plain
func (s *sess) guard(b *behaviour, si int, what string, f func() error) (err error, ok bool) {
	return f(), true
}

// stepGuard runs one step; a panic or a hang of the real code is a violation of its own. Returns false = stop.
func (s *sess) stepGuard(b *behaviour, si int, body func() bool) bool {
	cont := false
	p, h, msg := vh.Guard(120*time.Second, func() { cont = body() })
	if p || h {
		s.res.Violate(s.kind+"."+b.Ops[si].Op+":panic-or-hang", fmt.Sprintf("cfg %s: %s during %s: %s", s.c.Name, b.Ops[si].Op, show(b.Ops[:si+1]), msg), s.ctx(b, si, nil))
		if h {
			s.app = nil // abandoned with the stuck goroutine
		}
		return false
	}
	return cont
}

// finalClose closes the appendable at the end of a behaviour; a panic or hang there (e.g. the flush of a corrupted
// buffer window) is a violation, not a crash of the harness
func (s *sess) finalClose(b *behaviour) {
	if s.app == nil {
		return
	}
	app := s.app
	p, h, msg := vh.Guard(120*time.Second, func() { app.Close() })
	if p || h {
		s.res.Violate(s.kind+".Close:panic-or-hang", fmt.Sprintf("cfg %s: Close after %s: %s", s.c.Name, show(b.Ops), msg),
			s.ctx(b, len(b.Ops)-1, nil))
	}
}

// ---- byte mode (no compression): the appendable must be the byte array ----

func (s *sess) replayBytes(b *behaviour) {
	var err error
	s.app, err = s.open(s.path, false)
	vh.Must(err, "open "+s.path)
	defer s.finalClose(b)
	s.res.Traces++
	c := s.c
	prev := make([]int, c.Pre)
	if sz, _ := s.app.Size(); int(sz) != c.Pre {
		s.res.Violate(s.kind+".Open:initial-size", fmt.Sprintf("cfg %s: new appendable has size %d, expected %d", c.Name, sz, c.Pre), nil)
		return
	}
	for si := range b.Ops {
		if !s.stepGuard(b, si, func() bool { return s.byteStep(b, si, &prev) }) {
			return
		}
	}
}

// byteStep executes step si and compares the projected real state with the byte array; false = stop the behaviour
func (s *sess) byteStep(b *behaviour, si int, prevp *[]int) bool {
	c := s.c
	prev := *prevp
	st := &b.Ops[si]
	s.res.Evaluations++
	s.res.Count("op:"+st.Op, 1)
	rew := rewound(b.Ops[:si+1], c.Pre)
	devs := map[[2]int]*dev{}
	for i := range st.Devs {
		devs[[2]int{st.Devs[i].Off, st.Devs[i].N}] = &st.Devs[i]
	}
	fail := func(what string, e error) bool {
		s.res.Violate(s.kind+"."+what+":error", fmt.Sprintf("cfg %s: %s after %s: %v", c.Name, what, show(b.Ops[:si+1]), e), s.ctx(b, si, nil))
		return false
	}
	var opErr error
	switch st.Op {
	case "append":
		off, n, err := s.app.Append(s.bytesOf(atomRange(st.B, st.A)))
		opErr = err
		if err == nil && (int(off) != len(prev) || n != st.A) {
			s.res.Violate(s.kind+".Append:returned-offset-differs-from-previous-size",
				fmt.Sprintf("cfg %s: after %s Append returned (off %d, n %d), previous size %d, %d bytes given", c.Name, show(b.Ops[:si+1]), off, n, len(prev), st.A),
				s.ctx(b, si, map[string]interface{}{"off": off, "n": n}))
			return false
		}
	case "read":
		if !s.readCheck(b, si, st.A, st.B, devs, rew) {
			return false
		}
	case "setoffset":
		if st.B == 1 {
			// vacuity guard: the spec says this rewind lands in the unflushed tail while flushed-unsynced bytes are buffered
			s.res.Count("setoffset:into-unflushed-tail-with-flushed-unsynced-buffered:"+b.Origin, 1)
		}
		opErr = s.app.SetOffset(int64(st.A))
	case "flush":
		opErr = s.app.Flush()
	case "sync":
		opErr = s.app.Sync()
	case "discard":
		opErr = s.app.DiscardUpto(int64(st.A))
	case "switchro":
		opErr = s.app.SwitchToReadOnlyMode()
	case "reopen":
		if opErr = s.app.Close(); opErr == nil {
			s.app = nil
			s.reopens++
			s.app, opErr = s.open(s.path, c.AltOpts && s.reopens%2 == 1)
		}
	case "copy":
		if !s.copyCheck(b, si, rew) {
			return false
		}
	default:
		vh.Fatalf("unknown op %q", st.Op)
	}
	if opErr != nil {
		return fail(st.Op, opErr)
	}
	// projection after the step: Size / Offset / metadata
	sz, err := s.app.Size()
	if err != nil {
		return fail("Size", err)
	}
	if off := s.app.Offset(); off != sz {
		s.res.Violate(s.kind+".Offset:differs-from-Size", fmt.Sprintf("cfg %s: after %s Size()=%d Offset()=%d", c.Name, show(b.Ops[:si+1]), sz, off), s.ctx(b, si, nil))
		return false
	}
	L := len(st.Ideal)
	if int(sz) != L {
		x := map[string]interface{}{"size": sz, "expected": L, "transcribed_code_size": st.Isize}
		switch {
		case st.Op == "reopen" && rew && c.Pre == 0 && int(sz) > L:
			got, _ := s.content(st.Disc, int(sz))
			s.res.Violate(sigReopen(s.kind), fmt.Sprintf("cfg %s: after %s Size()=%d and the appendable holds %v, the byte array is %v (size %d)", c.Name, show(b.Ops[:si+1]), sz, got, st.Ideal[st.Disc:], L), s.ctx(b, si, x))
			if int(sz) != st.Isize {
				s.res.DriftNote(fmt.Sprintf("reopen after rewind: transcribed code predicts size %d, real %d after %s", st.Isize, sz, show(b.Ops[:si+1])))
			}
		case st.Op == "reopen" && c.Pre > 0 && int(sz) > len(prev):
			// preallocated files: the size after re-opening is what the files hold; everything below the old end must be unchanged
			got, _ := s.content(st.Disc, len(prev))
			if eqInts(got, prev[st.Disc:]) {
				s.res.DriftNote(fmt.Sprintf("preallocated reopen: transcribed code predicts size %d, real %d after %s", st.Isize, sz, show(b.Ops[:si+1])))
			} else {
				s.res.Violate(s.kind+".Open:bytes-below-old-size-changed", fmt.Sprintf("cfg %s: after %s bytes below the old size are %v, were %v", c.Name, show(b.Ops[:si+1]), got, prev[st.Disc:]), s.ctx(b, si, x))
			}
		default:
			s.res.Violate(s.kind+"."+st.Op+":size-differs-from-byte-array", fmt.Sprintf("cfg %s: after %s Size()=%d, the byte array has %d bytes (transcribed code: %d)", c.Name, show(b.Ops[:si+1]), sz, L, st.Isize), s.ctx(b, si, x))
		}
		return false
	}
	if st.Isize != L {
		s.res.DriftNote(fmt.Sprintf("transcribed code predicts size %d, real code and byte array %d after %s", st.Isize, L, show(b.Ops[:si+1])))
	}
	if md := s.app.Metadata(); !bytes.Equal(md, s.meta) {
		s.res.Violate(s.kind+".Metadata:differs-from-creation", fmt.Sprintf("cfg %s: after %s Metadata()=%q, created with %q", c.Name, show(b.Ops[:si+1]), md, s.meta), s.ctx(b, si, nil))
		return false
	}
	if s.app.CompressionFormat() != s.comp {
		s.res.Violate(s.kind+".CompressionFormat:differs-from-creation", fmt.Sprintf("cfg %s: after %s CompressionFormat()=%d", c.Name, show(b.Ops[:si+1]), s.app.CompressionFormat()), s.ctx(b, si, nil))
		return false
	}
	// read-back over the read domain of the spec (disc <= off <= L+RB, off+n <= L+RB+1): every pair while the domain
	// is small, otherwise per offset the lengths at which the arithmetic changes (1, 2, up to / across the chunk end,
	// up to / across the end of the array, the longest)
	if s.variant == "probe" || si == len(b.Ops)-1 {
		top := L + c.RB + 1
		for off := st.Disc; off < top; off++ {
			var ns []int
			if top-st.Disc <= 14 {
				for n := 1; off+n <= top; n++ {
					ns = append(ns, n)
				}
			} else {
				seen := map[int]bool{}
				for _, n := range []int{1, 2, c.F - off%c.F, c.F - off%c.F + 1, L - off, L - off + 1, top - off} {
					if n >= 1 && off+n <= top && !seen[n] {
						seen[n] = true
						ns = append(ns, n)
					}
				}
			}
			for _, n := range ns {
				if !s.readCheck(b, si, off, n, devs, rew) {
					return false
				}
			}
		}
	}
	// appendable.Reader (buffered sequential reads through ReadAt) delivers the array from the discard mark to its end;
	// only where the transcription predicts no deviating read (a Reader fills its buffer with reads that reach past the end)
	if (s.variant == "probe" || si == len(b.Ops)-1) && len(st.Devs) == 0 {
		if !s.readerCheck(b, si) {
			return false
		}
	}
	*prevp = st.Ideal
	return true
}

func (s *sess) readerCheck(b *behaviour, si int) bool {
	st := &b.Ops[si]
	want := st.Ideal[st.Disc:]
	r := appendable.NewReaderFrom(s.app, int64(st.Disc), 1+si%5)
	got := []int{}
	var rerr error
	for k := 1; len(got) <= len(want)+8; k = k%4 + 1 {
		var n int
		buf := make([]byte, k)
		if k == 1 {
			var c byte
			if c, rerr = r.ReadByte(); rerr == nil {
				buf[0], n = c, 1
			}
		} else {
			n, rerr = r.Read(buf)
		}
		got = append(got, s.atomsOf(buf[:n])...)
		if rerr != nil {
			break
		}
	}
	s.res.Count("reader-scans", 1)
	if rerr == io.EOF && eqInts(got, want) && r.ReadCount() == int64(len(want)) {
		return true
	}
	s.res.Violate("appendable.Reader:sequential-read-differs-from-byte-array",
		fmt.Sprintf("cfg %s: after %s a Reader (buffer %d) from offset %d delivers %v err=%v count=%d, the byte array holds %v", s.c.Name, show(b.Ops[:si+1]), 1+si%5, st.Disc, got, rerr, r.ReadCount(), want),
		s.ctx(b, si, map[string]interface{}{"got": got}))
	return false
}

// content reads [from, to) with one ReadAt
func (s *sess) content(from, to int) ([]int, error) {
	if to <= from {
		return []int{}, nil
	}
	buf := make([]byte, to-from)
	k, err := s.app.ReadAt(buf, int64(from))
	if err == io.EOF {
		err = nil
	}
	return s.atomsOf(buf[:k]), err
}

// readCheck performs ReadAt(off, n) and compares with the byte array; false = stop this behaviour
func (s *sess) readCheck(b *behaviour, si, off, n int, devs map[[2]int]*dev, rew bool) bool {
	st := &b.Ops[si]
	c := s.c
	buf := make([]byte, n)
	var k int
	err, ok := s.guard(b, si, "ReadAt", func() (e error) { k, e = s.app.ReadAt(buf, int64(off)); return })
	if !ok {
		return false
	}
	s.res.Count("reads", 1)
	exp, expEOF := absRead(st.Ideal, off, n)
	if err != nil && err != io.EOF {
		s.res.Violate(s.kind+".ReadAt:error", fmt.Sprintf("cfg %s: after %s ReadAt(off %d, %d bytes): %v", c.Name, show(b.Ops[:si+1]), off, n, err), s.ctx(b, si, map[string]interface{}{"off": off, "n": n}))
		return false
	}
	got, gotEOF := s.atomsOf(buf[:k]), err == io.EOF
	d := devs[[2]int{off, n}]
	if eqInts(got, exp) && gotEOF == expEOF {
		if d != nil && d.Cls == "stale-chunk" && c.Multi {
			// which stale handles are open (and with which limit) depends on the eviction order the spec leaves open
			s.res.Count("stale-chunk-prediction-depends-on-eviction-order", 1)
		} else if d != nil {
			s.res.Count("predicted-deviation-not-observed", 1)
			s.res.DriftNote(fmt.Sprintf("transcribed code predicts ReadAt(%d,%d)=%v eof=%v (%s), real code agrees with the byte array after %s", off, n, d.Bs, d.Eof, d.Cls, show(b.Ops[:si+1])))
		}
		return true
	}
	x := map[string]interface{}{"off": off, "n": n, "got": got, "got_eof": gotEOF, "expected": exp, "expected_eof": expEOF}
	if d != nil {
		x["transcribed_code"] = d
	}
	text := fmt.Sprintf("cfg %s (%s): after %s ReadAt(off %d, %d bytes) = %v eof=%v, the byte array %v gives %v eof=%v", c.Name, s.variant, show(b.Ops[:si+1]), off, n, got, gotEOF, st.Ideal, exp, expEOF)
	predicted := d != nil && eqInts(d.Bs, got) && d.Eof == gotEOF
	switch {
	case predicted && d.Cls == "unclamped" && (rew || c.Pre > 0):
		// bytes physically present past fileOffset (stale after a rewind / zeros of a preallocated file) are served
		if hasPrefix(got, exp) {
			s.res.Violate(sigReadPast, text, s.ctx(b, si, x))
		} else {
			s.res.Violate(sigReadStale, text, s.ctx(b, si, x))
		}
		return true // reads do not change the state: the behaviour goes on
	case predicted && d.Cls == "stale-chunk" && rew && c.Multi:
		s.res.Violate(sigStaleChunk, text, s.ctx(b, si, x))
		return true
	case c.Multi && rew:
		// which stale handles are open depends on the eviction order, which the spec leaves open: the part of the
		// result inside the byte array must be right (or the predicted unclamped one), what follows it comes from stale chunks
		w := len(st.Ideal) - off
		if w < 0 {
			w = 0
		}
		inside := got[:minI(len(got), w)]
		insideOK := len(inside) == minI(w, n) && eqInts(inside, exp[:len(inside)])
		if !insideOK && w > 0 {
			if dw := devs[[2]int{off, minI(w, n)}]; dw != nil && dw.Cls == "unclamped" && hasPrefix(got, dw.Bs) {
				insideOK = true
			}
		}
		if insideOK && (len(got) > w || (expEOF && !gotEOF)) {
			s.res.Count("stale-chunk-classified-by-shape", 1)
			s.res.Violate(sigStaleChunk, text, s.ctx(b, si, x))
			return true
		}
	}
	s.res.Violate(s.kind+".ReadAt:result-differs-from-byte-array", text, s.ctx(b, si, x))
	return false
}

// copyCheck: Copy(dst), open the copy, it must show the same byte array
func (s *sess) copyCheck(b *behaviour, si int, rew bool) bool {
	st := &b.Ops[si]
	c := s.c
	dst := s.path + fmt.Sprintf(".copy%d", si)
	err, ok := s.guard(b, si, "Copy", func() error { return s.app.Copy(dst) })
	if !ok {
		return false
	}
	if err != nil {
		s.res.Violate(s.kind+".Copy:error", fmt.Sprintf("cfg %s: Copy after %s: %v", c.Name, show(b.Ops[:si+1]), err), s.ctx(b, si, nil))
		return false
	}
	cp := *s
	cp.path = dst
	cp.app, err = cp.open(dst, false)
	if err != nil {
		s.res.Violate(s.kind+".Copy:copy-cannot-be-opened", fmt.Sprintf("cfg %s: after %s: %v", c.Name, show(b.Ops[:si+1]), err), s.ctx(b, si, nil))
		return false
	}
	defer func() { cp.app.Close(); os.RemoveAll(dst) }()
	sz, _ := cp.app.Size()
	L := len(st.Ideal)
	got, rerr := cp.content(st.Disc, minI(int(sz), L+64))
	x := map[string]interface{}{"copy_size": sz, "copy_content": got, "transcribed_code_copy_size": st.A}
	text := fmt.Sprintf("cfg %s: after %s the opened copy has size %d and holds %v, the byte array is %v", c.Name, show(b.Ops[:si+1]), sz, got, st.Ideal[st.Disc:])
	good := rerr == nil && hasPrefix(got, st.Ideal[st.Disc:]) && (int(sz) == L || (c.Pre > 0 && int(sz) >= L)) && bytes.Equal(cp.app.Metadata(), s.meta)
	if good {
		return true
	}
	if rew && c.Pre == 0 && int(sz) > L && hasPrefix(got, st.Ideal[st.Disc:]) {
		s.res.Violate(sigCopy(s.kind), text, s.ctx(b, si, x))
		return true // the source is unaffected
	}
	s.res.Violate(s.kind+".Copy:copy-differs-from-byte-array", text, s.ctx(b, si, x))
	return false
}

// ---- entry mode (compressed formats): Append returns the handle of an entry, ReadAt at that handle returns it ----

type entry struct {
	abs   int // offset in the byte array of the spec
	atoms []int
	real  int64
}

func (s *sess) replayEntries(b *behaviour) {
	var err error
	s.app, err = s.open(s.path, false)
	vh.Must(err, "open "+s.path)
	defer s.finalClose(b)
	s.res.Traces++
	c := s.c
	var live []entry
	prevLen := c.Pre
	disc := 0
	readOnly := false
	lastSize, _ := s.app.Size()
	step := func(si int) bool {
		st := &b.Ops[si]
		rew := rewound(b.Ops[:si+1], c.Pre)
		s.res.Evaluations++
		s.res.Count("entry-op:"+st.Op, 1)
		var opErr error
		ok := true
		mutated := false
		boundary := func(p int) (int64, bool) { // real offset of the byte-array position p, if it is an entry boundary
			if p == prevLen {
				return lastSize, true
			}
			for _, e := range live {
				if e.abs == p {
					return e.real, true
				}
			}
			return 0, false
		}
		switch st.Op {
		case "append":
			var off int64
			atoms := atomRange(st.B, st.A)
			opErr, ok = s.guard(b, si, "Append", func() (e error) { off, _, e = s.app.Append(s.bytesOf(atoms)); return })
			if ok && opErr == nil {
				if off != lastSize {
					x := map[string]interface{}{"off": off, "previous_size": lastSize}
					text := fmt.Sprintf("cfg %s compression %d: after %s Append returned offset %d, Size() before was %d", c.Name, s.comp, show(b.Ops[:si+1]), off, lastSize)
					if c.Multi && off < lastSize && off%int64(c.F) == 0 {
						s.res.Violate(sigCompOff, text, s.ctx(b, si, x))
					} else {
						s.res.Violate(s.kind+".Append:returned-offset-differs-from-previous-size", text, s.ctx(b, si, x))
						return false
					}
				}
				live = append(live, entry{abs: prevLen, atoms: atoms, real: off})
				mutated = true
			}
		case "read":
			// a read of the spec is mapped to the entry that starts there (if any); all entries are read below anyway
		case "setoffset":
			if st.A == prevLen {
				break
			}
			ro, isB := boundary(st.A)
			if !isB {
				s.res.Count("entry-mode:rewind-inside-entry-skipped", 1)
				return false
			}
			opErr, ok = s.guard(b, si, "SetOffset", func() error { return s.app.SetOffset(ro) })
			keep := live[:0]
			for _, e := range live {
				if e.abs < st.A {
					keep = append(keep, e)
				}
			}
			live = keep
			mutated = true
		case "flush":
			opErr, ok = s.guard(b, si, "Flush", func() error { return s.app.Flush() })
		case "sync":
			opErr, ok = s.guard(b, si, "Sync", func() error { return s.app.Sync() })
		case "discard":
			if ro, isB := boundary(st.A); isB {
				opErr, ok = s.guard(b, si, "DiscardUpto", func() error { return s.app.DiscardUpto(ro) })
				disc = st.A
			}
		case "switchro":
			opErr, ok = s.guard(b, si, "SwitchToReadOnlyMode", func() error { return s.app.SwitchToReadOnlyMode() })
		case "reopen":
			opErr, ok = s.guard(b, si, "Close", func() error { return s.app.Close() })
			if ok && opErr == nil {
				s.app = nil
				opErr, ok = s.guard(b, si, "Open", func() (e error) { s.app, e = s.open(s.path, false); return })
			}
		case "copy":
			// covered in byte mode
		}
		if !ok {
			return false
		}
		if opErr != nil {
			s.res.Violate(s.kind+"."+st.Op+":error", fmt.Sprintf("cfg %s compression %d: %s after %s: %v", c.Name, s.comp, st.Op, show(b.Ops[:si+1]), opErr), s.ctx(b, si, nil))
			return false
		}
		sz, err := s.app.Size()
		if err != nil {
			s.res.Violate(s.kind+".Size:error", fmt.Sprintf("cfg %s: %v", c.Name, err), s.ctx(b, si, nil))
			return false
		}
		if !mutated && sz != lastSize {
			text := fmt.Sprintf("cfg %s compression %d: after %s Size()=%d, before the step %d", c.Name, s.comp, show(b.Ops[:si+1]), sz, lastSize)
			switch {
			case st.Op == "reopen" && rew && c.Pre == 0 && sz > lastSize:
				s.res.Violate(sigReopen(s.kind), text, s.ctx(b, si, nil))
				return false
			case st.Op == "reopen" && c.Pre > 0:
				// preallocated: the size is whatever the files hold (with compressed entries overflowing their chunk it
				// may even be smaller); the entries must still be readable at their handles (checked below)
			default:
				s.res.Violate(s.kind+"."+st.Op+":size-changed", text, s.ctx(b, si, nil))
				return false
			}
		}
		lastSize = sz
		prevLen = len(st.Ideal)
		switch st.Op {
		case "switchro":
			readOnly = true
		case "reopen":
			readOnly = false
		}
		// Known finding B (file part of a read not clamped at fileOffset) makes a compressed read that straddles
		// fileOffset take stale/preallocated bytes as the entry's length prefix (allocations of up to 4 GiB): where its
		// precondition holds, entries are read back from the file only. Buffered reads after rewinds are byte mode's job.
		if (rew || c.Pre > 0) && !readOnly {
			if s.app.Flush() == nil && s.app.Sync() == nil {
				s.res.Count("entry-mode:flushed-before-reads-after-rewind-or-prealloc", 1)
			}
		}
		// every live entry at or after the discard mark is readable at its handle, with exact and with longer buffers
		for _, e := range live {
			if e.abs < disc {
				continue
			}
			// (a buffer longer than the entry is only meaningful for the single-file appendable: the multi-file one goes
			// on reading at off+n, which is no entry handle in a compressed appendable)
			extras := []int{0, -1}
			if !c.Multi {
				extras = []int{0, 2, -1}
			}
			for _, extra := range extras {
				n := len(e.atoms) + extra
				if n <= 0 {
					continue
				}
				buf := make([]byte, n)
				var k int
				rerr, ok := s.guard(b, si, "ReadAt", func() (e2 error) { k, e2 = s.app.ReadAt(buf, e.real); return })
				if !ok {
					return false
				}
				s.res.Count("entry-reads", 1)
				want := e.atoms[:minI(n, len(e.atoms))]
				got := s.atomsOf(buf[:k])
				wantEOF := n > len(e.atoms)
				if (rerr == nil || rerr == io.EOF) && eqInts(got, want) && (rerr == io.EOF) == wantEOF {
					continue
				}
				text := fmt.Sprintf("cfg %s compression %d: after %s ReadAt(entry at %d, %d bytes) = %v err=%v, entry is %v", c.Name, s.comp, show(b.Ops[:si+1]), e.real, n, got, rerr, e.atoms)
				x := map[string]interface{}{"entry_offset": e.real, "n": n, "got": got, "err": fmt.Sprint(rerr), "entry": e.atoms}
				if rew || c.Pre > 0 {
					// diagnosis of the known unclamped file read: it needs bytes of the entry still in the write buffer
					// while the file holds other bytes at that place; once everything is flushed the entry reads back
					if s.app.Flush() == nil && s.app.Sync() == nil {
						buf2 := make([]byte, n)
						k2, e2 := s.app.ReadAt(buf2, e.real)
						if (e2 == nil || e2 == io.EOF) && eqInts(s.atomsOf(buf2[:k2]), want) && (e2 == io.EOF) == wantEOF {
							s.res.Violate(sigReadStale, text, s.ctx(b, si, x))
							return false
						}
					}
				}
				s.res.Violate(s.kind+".ReadAt:entry-differs", text, s.ctx(b, si, x))
				return false
			}
		}
		return true
	}
	for si := range b.Ops {
		si := si
		if !s.stepGuard(b, si, func() bool { return step(si) }) {
			return
		}
	}
}
