// c17: binds spec/Appendable.tla to the real embedded/appendable/singleapp and multiapp code.
//
//	-replay f.json   behaviours printed by TLC (simulation, counterexamples) are executed step by step on real
//	                 appendables on disk; after every step the projected real state (Size/Offset, every ReadAt over
//	                 the read domain of the spec incl. reads across chunk boundaries and past the end, metadata) is
//	                 compared with the abstract byte array TLC printed for that step.
//	-tv out.ndjson   concurrent readers during appends/flushes/syncs/rotations; the call/return history is written
//	                 as ndjson and judged by TLC (spec/TraceAppendable.tla).
package main

import (
	"flag"
	"os"

	"verifharness/vh"
)

func main() {
	replay := flag.String("replay", "", "behaviours file (JSON)")
	tv := flag.String("tv", "", "write concurrent-reader traces (ndjson) to this file")
	tvRuns := flag.Int("tvruns", 8, "number of concurrent runs")
	tvOps := flag.Int("tvops", 60, "writer operations per concurrent run")
	seed := flag.Int64("seed", 1, "seed")
	dir := flag.String("dir", "", "scratch directory for the appendables")
	selftest := flag.String("selftest", "", "corrupt: 'ideal' flips one expected byte, 'got' flips one observed byte in the trace")
	flag.Parse()
	if *dir == "" {
		vh.Fatalf("-dir required")
	}
	vh.Must(os.MkdirAll(*dir, 0o755), "mkdir")
	res := vh.NewResult()
	switch {
	case *replay != "":
		runReplay(*replay, *seed, *dir, *selftest == "ideal", res)
	case *tv != "":
		runTV(*tv, *seed, *dir, *tvRuns, *tvOps, *selftest == "got", res)
	default:
		vh.Fatalf("nothing to do")
	}
	res.Emit()
}
