package main

import (
	"bytes"
	"context"
	"errors"
	"fmt"
	"os"
	"sync"
	"time"

	"github.com/codenotary/immudb/embedded/logger"
	"github.com/codenotary/immudb/embedded/store"
	"github.com/codenotary/immudb/embedded/tbtree"

	"verifharness/vh"
)

// Cfg is one index configuration class.
type Cfg struct {
	Name        string `json:"name"`
	Bulk        int    `json:"bulk"`
	Adaptive    bool   `json:"adaptive"`
	PrepMs      int    `json:"prepMs"`
	FlushThld   int    `json:"flushThld"`
	SyncThld    int    `json:"syncThld"`
	MinNode     bool   `json:"minNode"`
	CacheSize   int    `json:"cacheSize"`
	MaxBuffered int    `json:"maxBuffered"`
	Block       int    `json:"block"` // bytes per abstract key character
	Multi       bool   `json:"multi"`
	IdMappers   bool   `json:"idMappers"` // identity indexes get explicit (copying) key mappers
	FileSize    int    `json:"fileSize"`
	BigValues   bool   `json:"bigValues"`
}

func (c Cfg) String() string {
	return fmt.Sprintf("bulk=%d adaptive=%v prep=%dms flush=%d sync=%d minNode=%v cache=%d maxBuf=%d block=%d multi=%v idMappers=%v fileSize=%d big=%v",
		c.Bulk, c.Adaptive, c.PrepMs, c.FlushThld, c.SyncThld, c.MinNode, c.CacheSize, c.MaxBuffered, c.Block, c.Multi, c.IdMappers, c.FileSize, c.BigValues)
}

// pickCfg derives the configuration class from the class index (all dimensions rotate at co-prime periods).
func pickCfg(i int, bulk int, layout string) Cfg {
	c := Cfg{
		Bulk:        bulk,
		Adaptive:    i%3 == 1,
		PrepMs:      []int{40, 150}[i%2],
		FlushThld:   []int{1, 2, 5, 100000}[i%4],
		SyncThld:    []int{1, 3, 100000}[i%3],
		MinNode:     i%2 == 0,
		CacheSize:   []int{1, 64, 1 << 20}[i%3], // the size is a weight in bytes: 1 and 64 cache nothing, 1 MiB caches every node
		MaxBuffered: []int{1, 200, 1 << 20}[i%3],
		Block:       []int{1, 8, 40, 100}[i%4], // the index directory is named after the hex of the target prefix (NAME_MAX)
		Multi:       layout != "P" || i%2 == 0,
		IdMappers:   i%5 == 4,
		FileSize:    []int{1 << 12, 1 << 20}[i%2],
		BigValues:   i%5 == 2,
	}
	if c.SyncThld < c.FlushThld {
		c.SyncThld = c.FlushThld // tbtree requires FlushThld <= SyncThld
	}
	c.Name = fmt.Sprintf("c%d-b%d", i, bulk)
	return c
}

const maxAbstractKeyLen = 5 // mapped key of a 3-character source key

type world struct {
	cfg     Cfg
	idx     []IndexDef
	c       *conc
	path    string
	st      *store.ImmuStore
	running []bool
	n       int // committed txs
	nodeSz  int
	cmu     sync.Mutex
	counts  map[string]int
}

func (w *world) count(k string) {
	w.cmu.Lock()
	w.counts[k]++
	w.cmu.Unlock()
}

var nodeSizeCache = map[int]int{}

func newWorld(cfg Cfg, idx []IndexDef, seed int64, path string) *world {
	w := &world{cfg: cfg, idx: idx, c: newConc(seed, cfg.Block), path: path, running: make([]bool, len(idx)), counts: map[string]int{}}
	return w
}

func (w *world) opts() *store.Options {
	c := w.cfg
	o := store.DefaultOptions().WithSynced(false).WithMultiIndexing(c.Multi).WithMaxKeyLen(maxAbstractKeyLen * c.Block).
		WithMaxValueLen(8192).WithMaxTxEntries(8).WithFileSize(c.FileSize).WithMaxConcurrency(16).WithMaxActiveTransactions(64).
		WithLogger(logger.NewMemoryLoggerWithLevel(logger.LogError))
	if os.Getenv("VERIF_C04_DEBUG") != "" {
		o.WithLogger(logger.NewSimpleLoggerWithLevel("c04", os.Stderr, logger.LogWarn))
	}
	io := o.IndexOpts.WithMaxBulkSize(c.Bulk).WithAdaptiveBulkSize(c.Adaptive).WithBulkPreparationTimeout(time.Duration(c.PrepMs) * time.Millisecond).
		WithFlushThld(c.FlushThld).WithSyncThld(c.SyncThld).WithCacheSize(c.CacheSize).WithMaxBufferedDataSize(c.MaxBuffered).
		WithFlushBufferSize(1 << 12).WithCompactionThld(1).WithRenewSnapRootAfter(0).WithMaxActiveSnapshots(32)
	if w.nodeSz > 0 {
		io.WithMaxNodeSize(w.nodeSz)
	}
	o.WithIndexOptions(io)
	return o
}

// minimal node size accepted for this key length: found by probing the real option validation
func (w *world) findMinNode() {
	if !w.cfg.MinNode {
		return
	}
	if n, ok := nodeSizeCache[w.cfg.Block]; ok {
		w.nodeSz = n
		return
	}
	lo, hi := 64, 4096 // hi is the default and always valid for these key lengths
	probe := func(n int) bool {
		w.nodeSz = n
		p := w.path + ".probe"
		defer os.RemoveAll(p)
		st, err := store.Open(p, w.opts().WithMultiIndexing(false))
		if err != nil {
			return false
		}
		st.Close()
		return true
	}
	for lo < hi {
		mid := (lo + hi) / 2
		if probe(mid) {
			hi = mid
		} else {
			lo = mid + 1
		}
	}
	w.nodeSz = hi
	nodeSizeCache[w.cfg.Block] = hi
}

func (w *world) open() error {
	st, err := store.Open(w.path, w.opts())
	if err != nil {
		return err
	}
	w.st = st
	return nil
}

func cp(b []byte) []byte { return append([]byte(nil), b...) }

func (w *world) spec(x int) *store.IndexSpec {
	d := w.idx[x-1]
	sp := &store.IndexSpec{SourcePrefix: w.c.key(d.Src), TargetPrefix: w.c.key(d.Tgt), InjectiveMapping: d.Inj}
	if d.Mapped {
		tgt := w.c.key(d.Tgt)
		sp.TargetEntryMapper = func(key, value []byte) ([]byte, error) {
			out := append(cp(tgt), w.c.blockOf(4+valClass(value))...)
			return append(out, key...), nil
		}
		if w.cfg.IdMappers {
			sp.SourceEntryMapper = func(key, value []byte) ([]byte, error) { return cp(key), nil }
		}
	} else if w.cfg.IdMappers {
		sp.SourceEntryMapper = func(key, value []byte) ([]byte, error) { return cp(key), nil }
		sp.TargetEntryMapper = func(key, value []byte) ([]byte, error) { return cp(key), nil }
	}
	return sp
}

func (w *world) ctx() (context.Context, context.CancelFunc) {
	return context.WithTimeout(context.Background(), deadline)
}

// start initialises index x (InitIndexing); a store without multi-indexing has its only index initialised by Open.
func (w *world) start(x int) error {
	err := w.st.InitIndexing(w.spec(x))
	if err != nil && !(errors.Is(err, store.ErrIndexAlreadyInitialized) && !w.cfg.Multi) {
		return err
	}
	w.running[x-1] = true
	return nil
}

func (w *world) stop(x int) error {
	w.running[x-1] = false
	return w.st.CloseIndexing(w.c.key(w.idx[x-1].Tgt))
}

func (w *world) waitIndexed(n int) error {
	ctx, cancel := w.ctx()
	defer cancel()
	return w.st.WaitForIndexingUpto(ctx, uint64(n))
}

func (w *world) commit(tx ATx) (vids []int, xmd int, err error) {
	ctx, cancel := w.ctx()
	defer cancel()
	otx, err := w.st.NewWriteOnlyTx(ctx)
	if err != nil {
		return nil, 0, err
	}
	id := w.n + 1
	has, _ := tx.Md.(bool)
	xid, xb := w.c.xmd(id, has)
	if has {
		md := store.NewTxMetadata()
		if err := md.WithExtra(xb); err != nil {
			return nil, 0, err
		}
		otx.WithMetadata(md)
	}
	for pos, e := range tx.Es {
		var md *store.KVMetadata
		switch e.Kind {
		case "val":
		case "del":
			md = store.NewKVMetadata()
			md.AsDeleted(true)
		case "past":
			md = store.NewKVMetadata()
			md.ExpiresAt(farPast)
		case "fut":
			md = store.NewKVMetadata()
			md.ExpiresAt(farFuture)
		case "nix":
			md = store.NewKVMetadata()
			md.AsNonIndexable(true)
		default:
			vh.Fatalf("unknown entry kind %q", e.Kind)
		}
		val := w.c.valueBytes(id, pos, e.V, w.cfg.BigValues)
		if err := otx.Set(w.c.key(e.K), md, val); err != nil {
			return nil, 0, fmt.Errorf("Set: %w", err)
		}
		v := w.c.vid(val)
		vids = append(vids, v)
		w.c.txVid[fmt.Sprintf("%d/%v", id, e.K)] = v
	}
	hdr, err := otx.AsyncCommit(ctx)
	if err != nil {
		return nil, 0, err
	}
	if int(hdr.ID) != id {
		vh.Fatalf("driver expected tx id %d, store assigned %d", id, hdr.ID)
	}
	w.c.txXmd[id] = xid
	w.n = id
	return vids, xid, nil
}

func (w *world) reopen() error {
	if err := w.st.Close(); err != nil {
		return fmt.Errorf("Close: %w", err)
	}
	if err := w.open(); err != nil {
		return fmt.Errorf("Open: %w", err)
	}
	for x := range w.idx {
		if w.running[x] {
			if err := w.start(x + 1); err != nil {
				return fmt.Errorf("InitIndexing(%d): %w", x+1, err)
			}
		} else if !w.cfg.Multi {
			// the single index of a store without multi-indexing is started by Open: stop it again
			if err := w.st.CloseIndexing(nil); err != nil {
				return err
			}
		}
	}
	return nil
}

func (w *world) compact() error {
	err := w.st.CompactIndexes()
	if err != nil && !errors.Is(err, tbtree.ErrCompactionThresholdNotReached) {
		return err
	}
	return nil
}

// ---- reads ----

func filtersOf(flt []string) []store.FilterFn {
	var out []store.FilterFn
	for _, f := range flt {
		switch f {
		case "D":
			out = append(out, store.IgnoreDeleted)
		case "E":
			out = append(out, store.IgnoreExpired)
		}
	}
	return out
}

func errStatus(err error) string {
	switch {
	case errors.Is(err, store.ErrNoMoreEntries):
		return "nomore"
	case errors.Is(err, store.ErrOffsetOutOfRange):
		return "oor"
	case errors.Is(err, store.ErrKeyNotFound): // includes ErrExpiredEntry
		return "nf"
	}
	return "err:" + err.Error()
}

// project maps a real value reference to the abstract domain; every observable part of it is checked.
func (w *world) project(key []byte, vr store.ValueRef) PItem {
	it := PItem{K: w.c.abs(key), Tx: int(vr.Tx()), Hc: int(vr.HC()), Exp: "no"}
	md := vr.KVMetadata()
	if md != nil {
		it.Del = md.Deleted()
		if md.IsExpirable() {
			t, _ := md.ExpirationTime()
			if t.Before(time.Now()) {
				it.Exp = "past"
			} else {
				it.Exp = "fut"
			}
		}
		if md.NonIndexable() {
			it.Exp += "+nix"
		}
	}
	if tm := vr.TxMetadata(); tm != nil {
		it.Xmd = w.c.xmdID(tm.Extra())
	}
	vid, vbytes, ok := w.c.lookup(vr.HVal())
	switch {
	case !ok:
		it.Vid = -1
	case int(vr.Len()) != len(vbytes):
		it.Vid = -2
	default:
		it.Vid = vid
		val, err := vr.Resolve()
		if it.Exp == "past" {
			if !errors.Is(err, store.ErrExpiredEntry) {
				it.Vid = -3
			}
		} else if err != nil || !bytes.Equal(val, vbytes) {
			it.Vid = -4
		}
	}
	return it
}

func (w *world) snapshot(x, n int) (*store.Snapshot, error) {
	ctx, cancel := w.ctx()
	defer cancel()
	return w.st.SnapshotMustIncludeTxID(ctx, w.c.key(w.idx[x-1].Tgt), uint64(n))
}

var dumpQuery = AQuery{Op: "dump", Via: "snap", Flt: []string{}, K: AKey{}, P: AKey{}, Neq: AKey{}, Seek: AKey{}, End: AKey{}}

// settledSnapshot returns a snapshot of index x whose index time is at least n: it polls the snapshot itself, not
// only WaitForIndexingUpto (after a restart of the index the reported progress can be ahead of the index).
func (w *world) settledSnapshot(x, n int) (*store.Snapshot, error) {
	var last error
	for end := time.Now().Add(2 * deadline); time.Now().Before(end); time.Sleep(3 * time.Millisecond) {
		snap, err := w.snapshot(x, n)
		if err == nil {
			if int(snap.Ts()) >= n {
				return snap, nil
			}
			last = fmt.Errorf("snapshot at index time %d", snap.Ts())
			snap.Close()
		} else {
			last = err
		}
	}
	return nil, fmt.Errorf("index %d did not reach index time %d: %w", x, n, last)
}

// exec runs one query against index x; snap (if non-nil) is used for snapshot reads, otherwise one is taken
// that includes transaction n.
func (w *world) exec(x, n int, q AQuery, snap *store.Snapshot) (res PRes, snapTs int) {
	ctx, cancel := w.ctx()
	defer cancel()
	w.count("op:" + q.Op + ":" + q.Via)
	needSnap := q.Via == "snap" || q.Op == "scan" || q.Op == "scanb" || q.Op == "dump"
	if needSnap && snap == nil {
		s, err := w.snapshot(x, n)
		if err != nil {
			return PRes{St: "err:snapshot:" + err.Error()}, -1
		}
		defer s.Close()
		snap = s
	}
	snapTs = -1
	if needSnap {
		snapTs = int(snap.Ts())
	}
	one := func(key []byte, vr store.ValueRef, err error) PRes {
		if err != nil {
			return PRes{St: errStatus(err), Items: []PItem{}}
		}
		return PRes{St: "ok", Items: []PItem{w.project(key, vr)}}
	}
	switch q.Op {
	case "get":
		k := w.c.key(q.K)
		if q.Via == "snap" {
			vr, err := snap.GetWithFilters(ctx, k, filtersOf(q.Flt)...)
			return one(k, vr, err), snapTs
		}
		if len(q.Flt) == 2 {
			vr, err := w.st.Get(ctx, k)
			return one(k, vr, err), snapTs
		}
		vr, err := w.st.GetWithFilters(ctx, k, filtersOf(q.Flt)...)
		return one(k, vr, err), snapTs
	case "between":
		k := w.c.key(q.K)
		if q.Via == "snap" {
			vr, err := snap.GetBetween(ctx, k, uint64(q.I), uint64(q.F))
			return one(k, vr, err), snapTs
		}
		vr, err := w.st.GetBetween(ctx, k, uint64(q.I), uint64(q.F))
		return one(k, vr, err), snapTs
	case "prefix":
		if q.Via == "snap" {
			k, vr, err := snap.GetWithPrefix(ctx, w.c.key(q.P), w.c.key(q.Neq))
			return one(k, vr, err), snapTs
		}
		k, vr, err := w.st.GetWithPrefix(ctx, w.c.key(q.P), w.c.key(q.Neq))
		return one(k, vr, err), snapTs
	case "history":
		k := w.c.key(q.K)
		var vrs []store.ValueRef
		var err error
		if q.Via == "snap" {
			vrs, _, err = snap.History(k, uint64(q.Off), q.Desc, q.Lim)
		} else {
			vrs, _, err = w.st.History(k, uint64(q.Off), q.Desc, q.Lim)
		}
		if err != nil {
			return PRes{St: errStatus(err), Items: []PItem{}}, snapTs
		}
		out := PRes{St: "ok", Items: []PItem{}}
		for _, vr := range vrs {
			out.Items = append(out.Items, w.project(k, vr))
		}
		return out, snapTs
	case "scan", "scanb":
		r, err := snap.NewKeyReader(store.KeyReaderSpec{SeekKey: w.c.key(q.Seek), EndKey: w.c.key(q.End), Prefix: w.c.key(q.P),
			InclusiveSeek: q.Iseek, InclusiveEnd: q.Iend, DescOrder: q.Desc, Filters: filtersOf(q.Flt), Offset: uint64(q.Off)})
		if err != nil {
			return PRes{St: "err:NewKeyReader:" + err.Error()}, snapTs
		}
		defer r.Close()
		out := PRes{St: "ok", Items: []PItem{}}
		for len(out.Items) < 1000 {
			var k []byte
			var vr store.ValueRef
			if q.Op == "scan" {
				k, vr, err = r.Read(ctx)
			} else {
				k, vr, err = r.ReadBetween(ctx, uint64(q.I), uint64(q.F))
			}
			if errors.Is(err, store.ErrNoMoreEntries) {
				return out, snapTs
			}
			if err != nil {
				return PRes{St: "err:Read:" + err.Error()}, snapTs
			}
			out.Items = append(out.Items, w.project(k, vr))
		}
		return PRes{St: "err:reader does not terminate"}, snapTs
	case "dump":
		r, err := snap.NewKeyReader(store.KeyReaderSpec{Prefix: w.c.key(w.idx[x-1].Tgt)})
		if err != nil {
			return PRes{St: "err:NewKeyReader:" + err.Error()}, snapTs
		}
		defer r.Close()
		out := PRes{St: "ok", Items: []PItem{}}
		for len(out.Items) < 1000 {
			k, _, err := r.Read(ctx)
			if errors.Is(err, store.ErrNoMoreEntries) {
				return out, snapTs
			}
			if err != nil {
				return PRes{St: "err:Read:" + err.Error()}, snapTs
			}
			// the whole history of the key as of the snapshot (the snapshot numbers revisions differently, see the
			// "history" operation; here versions are identified by position)
			tvs, hc, err := snap.History(k, 0, false, 1000)
			if err != nil {
				return PRes{St: "err:History:" + err.Error()}, snapTs
			}
			row := PItem{K: w.c.abs(k), Vs: []PItem{}}
			for i, vr := range tvs {
				it := w.project(k, vr)
				it.Hc = i + 1
				row.Vs = append(row.Vs, it)
			}
			if int(hc) != len(tvs) {
				row.Vs = append(row.Vs, PItem{K: AKey{-9}, Hc: int(hc)})
			}
			out.Items = append(out.Items, row)
		}
		return PRes{St: "err:reader does not terminate"}, snapTs
	}
	vh.Fatalf("unknown query op %q", q.Op)
	return PRes{}, -1
}

// expected converts a result printed by TLC (versions as pointers into the log) to the observable domain.
func (w *world) expected(r ARes) PRes {
	var conv func(its []AItem) []PItem
	conv = func(its []AItem) []PItem {
		out := []PItem{}
		for _, it := range its {
			if it.Vs != nil {
				out = append(out, PItem{K: it.K, Vs: conv(it.Vs)})
				continue
			}
			vid, ok := w.c.txVid[fmt.Sprintf("%d/%v", it.Ptx, it.Pk)]
			if !ok {
				vh.Fatalf("expected item points to unknown log entry tx %d key %v", it.Ptx, it.Pk)
			}
			p := PItem{K: it.K, Tx: it.Tx, Hc: it.Hc, Vid: vid, Del: it.Del, Exp: it.Exp}
			if it.Xmd {
				p.Xmd = w.c.txXmd[it.Ptx]
			}
			out = append(out, p)
		}
		return out
	}
	return PRes{St: r.St, Items: conv(r.Items)}
}
