package main

import (
	"flag"
	"os"

	"verifharness/vh"
)

func main() {
	mode := flag.String("mode", "rp", "rp | tv | repro")
	in := flag.String("in", "", "behaviours (JSON) for -mode rp")
	seed := flag.Int64("seed", 1, "seed")
	dir := flag.String("dir", "", "scratch directory")
	out := flag.String("out", "", "ndjson trace output for -mode tv")
	layout := flag.String("layout", "PI", "index layout for -mode tv / repro")
	runs := flag.Int("runs", 4, "number of runs for -mode tv")
	gated := flag.Int("gated", 1, "number of runs with transactions indexed during the compaction dump for -mode tv")
	classes := flag.Int("classes", 2, "configuration classes per behaviour for -mode rp")
	flag.Parse()
	if *dir == "" {
		vh.Fatalf("-dir is required")
	}
	vh.Must(os.MkdirAll(*dir, 0755), "mkdir")
	res := vh.NewResult()
	switch *mode {
	case "rp":
		runRP(*in, *seed, *dir, *classes, res)
	case "tv":
		runTV(*layout, *seed, *runs, *gated, *dir, *out, res)
	case "dbg":
		debugBetween(*in, *seed, *dir)
		return
	case "repro":
		runRepro(*dir, res)
	default:
		vh.Fatalf("unknown mode %q", *mode)
	}
	res.Emit()
}
