// c04: conformance of the real embedded/store indexers and read paths with spec/Index.tla.
//
//	-mode rp     replays behaviours printed by TLC (spec/Index.tla, realisable schedule) on a real store
//	-mode tv     runs seeded concurrent workloads with free-running indexers and writes an ndjson trace
//	             for spec/TraceIndex.tla
//	-mode repro  the minimal programs of the findings
//
// This file: the abstract domain shared with the specification and its concretisation to bytes.
package main

import (
	"bytes"
	"crypto/sha256"
	"encoding/json"
	"fmt"
	"sync"
	"time"

	"verifharness/vh"
)

// ---- abstract values as TLC prints them (ToJson) ----

type AKey []int

func (k AKey) String() string { return fmt.Sprint([]int(k)) }
func (k AKey) MarshalJSON() ([]byte, error) {
	if k == nil {
		return []byte("[]"), nil
	}
	return json.Marshal([]int(k))
}

type AEntry struct {
	K    AKey   `json:"k"`
	Kind string `json:"kind"` // val | del | past | fut | nix
	V    int    `json:"v"`
	Vid  int    `json:"vid"` // dictionary number of the value bytes (filled by the driver)
}
type ATx struct {
	Es []AEntry `json:"es"`
	Md any      `json:"md"` // replay input: bool; trace output: dictionary number of the tx metadata (0 = none)
}

// AItem is one version as the specification describes it (pointer to the log entry holding the content).
type AItem struct {
	K    AKey    `json:"k"`
	Tx   int     `json:"tx"`
	Hc   int     `json:"hc"`
	Ptx  int     `json:"ptx"`
	Pk   AKey    `json:"pk"`
	Del  bool    `json:"del"`
	Tomb bool    `json:"tomb"`
	Exp  string  `json:"exp"`
	Xmd  bool    `json:"xmd"`
	Vs   []AItem `json:"vs"` // dump rows only
}
type AQuery struct {
	Op    string   `json:"op"`
	Via   string   `json:"via"`
	K     AKey     `json:"k"`
	I     int      `json:"i"`
	F     int      `json:"f"`
	P     AKey     `json:"p"`
	Neq   AKey     `json:"neq"`
	Off   int      `json:"off"`
	Desc  bool     `json:"desc"`
	Lim   int      `json:"lim"`
	Seek  AKey     `json:"seek"`
	End   AKey     `json:"end"`
	Iseek bool     `json:"iseek"`
	Iend  bool     `json:"iend"`
	Flt   []string `json:"flt"`
}
type ARes struct {
	St    string  `json:"st"`
	Items []AItem `json:"items"`
}
type ARead struct {
	Q AQuery `json:"q"`
	R ARes   `json:"r"`
}
type AStep struct {
	Op    string  `json:"op"`
	X     int     `json:"x"`
	Tx    ATx     `json:"tx"`
	Bulks []int   `json:"bulks"`
	N     int     `json:"n"`
	Reads []ARead `json:"reads"`
}
type IndexDef struct {
	Src    AKey `json:"src"`
	Tgt    AKey `json:"tgt"`
	Mapped bool `json:"mapped"`
	Inj    bool `json:"inj"`
	SrcIdx int  `json:"srcIdx"`
}
type Behaviour struct {
	Steps   []AStep    `json:"steps"`
	Indexes []IndexDef `json:"indexes"`
	MaxBulk int        `json:"maxBulk"`
	Run     []bool     `json:"run"`   // which indexes are initialised at the end of the behaviour
	Final   []ARes     `json:"final"` // what every index must hold once it has applied the whole log (RDump of the reference)
	Origin  string     `json:"origin"`
}
type BehaviourFile struct {
	Layout     string      `json:"layout"`
	Behaviours []Behaviour `json:"behaviours"`
}

// layouts of spec/MCIndex.tla (cross-checked against what TLC prints)
func layoutIndexes(name string) []IndexDef {
	idn := func(p AKey) IndexDef { return IndexDef{Src: p, Tgt: p} }
	inj := func(p, t AKey, s int) IndexDef { return IndexDef{Src: p, Tgt: t, Mapped: true, Inj: true, SrcIdx: s} }
	switch name {
	case "P":
		return []IndexDef{idn(AKey{})}
	case "PI":
		return []IndexDef{idn(AKey{1}), inj(AKey{1}, AKey{3}, 1)}
	case "PPI":
		return []IndexDef{idn(AKey{1}), idn(AKey{2}), inj(AKey{1}, AKey{3}, 1)}
	}
	vh.Fatalf("unknown layout %q", name)
	return nil
}

func sameIndexes(a, b []IndexDef) bool {
	if len(a) != len(b) {
		return false
	}
	for i := range a {
		if !eqKey(a[i].Src, b[i].Src) || !eqKey(a[i].Tgt, b[i].Tgt) || a[i].Mapped != b[i].Mapped || a[i].Inj != b[i].Inj || a[i].SrcIdx != b[i].SrcIdx {
			return false
		}
	}
	return true
}

func eqKey(a, b AKey) bool {
	if len(a) != len(b) {
		return false
	}
	for i := range a {
		if a[i] != b[i] {
			return false
		}
	}
	return true
}

func hasPrefixA(k, p AKey) bool { return len(k) >= len(p) && eqKey(k[:len(p)], p) }

// ---- observed (projected) values: what the real store returned, in the abstract domain ----

type PItem struct {
	K   AKey    `json:"k"`
	Tx  int     `json:"tx"`
	Hc  int     `json:"hc"`
	Vid int     `json:"vid"` // dictionary number of the value (by digest, length and resolved bytes); <0: unknown/inconsistent
	Del bool    `json:"del"`
	Exp string  `json:"exp"`
	Xmd int     `json:"xmd"` // dictionary number of the tx metadata, 0 = none
	Vs  []PItem `json:"vs,omitempty"`
}

// MarshalJSON keeps exactly the fields spec/TraceIndex.tla compares (a dump row has k and vs only).
func (p PItem) MarshalJSON() ([]byte, error) {
	if p.Vs != nil {
		return json.Marshal(struct {
			K  AKey    `json:"k"`
			Vs []PItem `json:"vs"`
		}{p.K, p.Vs})
	}
	return json.Marshal(struct {
		K   AKey   `json:"k"`
		Tx  int    `json:"tx"`
		Hc  int    `json:"hc"`
		Vid int    `json:"vid"`
		Del bool   `json:"del"`
		Exp string `json:"exp"`
		Xmd int    `json:"xmd"`
	}{p.K, p.Tx, p.Hc, p.Vid, p.Del, p.Exp, p.Xmd})
}

type PRes struct {
	St    string  `json:"st"`
	Items []PItem `json:"items"`
}

// MarshalJSON never prints null (the trace reader of TLC does not accept it)
func (r PRes) MarshalJSON() ([]byte, error) {
	items := r.Items
	if items == nil {
		items = []PItem{}
	}
	return json.Marshal(struct {
		St    string  `json:"st"`
		Items []PItem `json:"items"`
	}{r.St, items})
}

func eqItems(a, b []PItem) bool {
	if len(a) != len(b) {
		return false
	}
	for i := range a {
		x, y := a[i], b[i]
		if !eqKey(x.K, y.K) || (x.Vs == nil) != (y.Vs == nil) {
			return false
		}
		if x.Vs != nil {
			if !eqItems(x.Vs, y.Vs) {
				return false
			}
			continue
		}
		if x.Tx != y.Tx || x.Hc != y.Hc || x.Vid != y.Vid || x.Del != y.Del || x.Exp != y.Exp || x.Xmd != y.Xmd {
			return false
		}
	}
	return true
}
func eqRes(a, b PRes) bool { return a.St == b.St && eqItems(a.Items, b.Items) }

// ---- concretisation ----

// conc maps abstract characters to fixed-length byte blocks (order and prefix relation are preserved) and
// keeps the dictionaries of committed values and tx metadata.
type conc struct {
	mu     sync.RWMutex
	seed   int64
	block  int // bytes per abstract character
	values [][]byte
	vidOf  map[[sha256.Size]byte]int
	xmds   [][]byte
	// per committed tx (index tx-1)
	txVid map[string]int // "tx/key" -> vid
	txXmd map[int]int    // tx -> xmd id
}

func newConc(seed int64, block int) *conc {
	c := &conc{seed: seed, block: block, vidOf: map[[sha256.Size]byte]int{}, txVid: map[string]int{}, txXmd: map[int]int{}}
	c.values = [][]byte{{}} // vid 0: the empty value
	c.vidOf[sha256.Sum256(nil)] = 0
	c.xmds = [][]byte{nil}
	return c
}

func (c *conc) blockOf(ch int) []byte {
	b := bytes.Repeat([]byte{'k'}, c.block)
	b[c.block-1] = byte('0' + ch)
	return b
}

func (c *conc) key(k AKey) []byte {
	if len(k) == 0 {
		return nil
	}
	out := make([]byte, 0, len(k)*c.block)
	for _, ch := range k {
		out = append(out, c.blockOf(ch)...)
	}
	return out
}

// abs is the inverse of key; bytes that are not a concatenation of blocks decode to negative characters.
func (c *conc) abs(b []byte) AKey {
	out := AKey{}
	for len(b) > 0 {
		n := c.block
		if n > len(b) {
			n = len(b)
		}
		blk := b[:n]
		b = b[n:]
		ch := -1
		if n == c.block && bytes.Equal(blk[:n-1], bytes.Repeat([]byte{'k'}, n-1)) && blk[n-1] >= '0' && blk[n-1] <= '9' {
			ch = int(blk[n-1] - '0')
		}
		out = append(out, ch)
	}
	return out
}

var valSizes = []int{0, 3, 40, 300, 5000}

// valueBytes: v = 0 is the empty value; otherwise the first byte carries v (the key mapper reads it back).
func (c *conc) valueBytes(tx, pos, v int, big bool) []byte {
	if v == 0 {
		return nil
	}
	n := valSizes[(tx*7+pos*3+v)%(len(valSizes)-1)]
	if big && (tx+pos)%4 == 0 {
		n = valSizes[len(valSizes)-1]
	}
	out := append([]byte{byte('A' + v)}, vh.Bytes(c.seed, "val", tx*64+pos, n)...)
	return out
}

func valClass(value []byte) int {
	if len(value) == 0 {
		return 0
	}
	return int(value[0] - 'A')
}

func (c *conc) vid(value []byte) int {
	c.mu.Lock()
	defer c.mu.Unlock()
	h := sha256.Sum256(value)
	if id, ok := c.vidOf[h]; ok {
		return id
	}
	c.values = append(c.values, append([]byte(nil), value...))
	c.vidOf[h] = len(c.values) - 1
	return len(c.values) - 1
}

// lookup returns the dictionary number and the bytes of the value with digest h
func (c *conc) lookup(h [sha256.Size]byte) (int, []byte, bool) {
	c.mu.RLock()
	defer c.mu.RUnlock()
	id, ok := c.vidOf[h]
	if !ok {
		return 0, nil, false
	}
	return id, c.values[id], true
}

func (c *conc) xmd(tx int, has bool) (int, []byte) {
	if !has {
		return 0, nil
	}
	c.mu.Lock()
	defer c.mu.Unlock()
	b := append([]byte("xmd-"), vh.Bytes(c.seed, "xmd", tx, 5)...)
	c.xmds = append(c.xmds, b)
	return len(c.xmds) - 1, b
}

func (c *conc) xmdID(b []byte) int {
	if b == nil {
		return 0
	}
	c.mu.RLock()
	defer c.mu.RUnlock()
	for i, x := range c.xmds {
		if i > 0 && bytes.Equal(x, b) {
			return i
		}
	}
	return -1
}

var (
	farPast   = time.Unix(1_000_000_000, 0)             // 2001
	farFuture = time.Unix(7_000_000_000, 0)             // 2191
	deadline  = 15 * time.Second                        // for every wait on the real store
	_         = fmt.Sprintf
)
