package main

import (
	"context"
	"regexp"
	"encoding/json"
	"fmt"
	"math/rand"
	"os"
	"path/filepath"
	"sort"
	"strings"
	"sync"
	"sync/atomic"
	"time"

	"github.com/codenotary/immudb/embedded/store"
	"github.com/codenotary/immudb/embedded/verifhook"

	"verifharness/vh"
)

// trace validation driver: concurrent writers, free-running indexers, maintenance, readers.  Every read is
// logged with the index progress known before the call (lo: the waited-for transaction / the snapshot's index
// time) and an upper bound observed after it (hi: the last committed transaction / the snapshot's index time).

var tvKeys = []AKey{{1}, {1, 1}, {1, 2}, {1, 1, 1}, {1, 1, 2}, {1, 2, 1}, {1, 2, 2}, {2}, {2, 1}, {2, 2}, {2, 1, 1}, {2, 2, 2}}

type tvEvent map[string]interface{}

type tvRun struct {
	w       *world
	mu      sync.Mutex // protects the dictionaries of w.c and the event lists
	commits map[int]ATx
	reads   []tvEvent
	known   []atomic.Int64 // per index: a lower bound of its index time
	res     *vh.Result
	rng     *rand.Rand
}

func (r *tvRun) commitTV(rng *rand.Rand, writer, seq int) error {
	w := r.w
	ctx, cancel := w.ctx()
	defer cancel()
	otx, err := w.st.NewWriteOnlyTx(ctx)
	if err != nil {
		return err
	}
	ne := 1 + rng.Intn(3)
	perm := rng.Perm(len(tvKeys))[:ne]
	sort.Ints(perm)
	tx := ATx{}
	var xb []byte
	xid := 0
	if rng.Intn(4) == 0 {
		xid, xb = w.c.xmd(writer*1000+seq, true)
	}
	if xb != nil {
		md := store.NewTxMetadata()
		md.WithExtra(xb)
		otx.WithMetadata(md)
	}
	tx.Md = xid
	for pos, ki := range perm {
		kind := []string{"val", "val", "val", "val", "del", "past", "fut", "nix"}[rng.Intn(8)]
		v := 1 + rng.Intn(2)
		if kind == "del" || rng.Intn(6) == 0 {
			v = 0
		}
		var md *store.KVMetadata
		switch kind {
		case "del":
			md = store.NewKVMetadata()
			md.AsDeleted(true)
		case "past":
			md = store.NewKVMetadata()
			md.ExpiresAt(farPast)
		case "fut":
			md = store.NewKVMetadata()
			md.ExpiresAt(farFuture)
		case "nix":
			md = store.NewKVMetadata()
			md.AsNonIndexable(true)
		}
		val := w.c.valueBytes(writer*1000+seq, pos, v, w.cfg.BigValues)
		if err := otx.Set(w.c.key(tvKeys[ki]), md, val); err != nil {
			return err
		}
		vid := w.c.vid(val)
		tx.Es = append(tx.Es, AEntry{K: tvKeys[ki], Kind: kind, V: v, Vid: vid})
	}
	hdr, err := otx.AsyncCommit(ctx)
	if err != nil {
		return err
	}
	r.mu.Lock()
	r.commits[int(hdr.ID)] = tx
	r.mu.Unlock()
	r.res.Count("tv:commits", 1)
	return nil
}

func randKey(rng *rand.Rand, d IndexDef, allowEmpty bool) AKey {
	if allowEmpty && rng.Intn(4) == 0 {
		return AKey{}
	}
	var src []AKey
	for _, k := range tvKeys {
		if hasPrefixA(k, d.Src) {
			src = append(src, k)
		}
	}
	k := src[rng.Intn(len(src))]
	if rng.Intn(12) == 0 {
		return append(append(AKey{}, d.Tgt...), 9)
	}
	if d.Mapped {
		out := append(append(AKey{}, d.Tgt...), 4+rng.Intn(3))
		return append(out, k...)
	}
	return k
}

func randQuery(rng *rand.Rand, d IndexDef, n int) AQuery {
	q := AQuery{Op: []string{"get", "between", "prefix", "history", "scan", "scanb", "dump"}[rng.Intn(7)], Via: []string{"store", "snap"}[rng.Intn(2)],
		K: randKey(rng, d, false), I: 1 + rng.Intn(n+1), F: 1 + rng.Intn(n+1), Off: rng.Intn(3), Desc: rng.Intn(2) == 0, Lim: 1 + rng.Intn(3),
		Seek: randKey(rng, d, true), End: randKey(rng, d, true), Iseek: rng.Intn(2) == 0, Iend: rng.Intn(2) == 0, Neq: AKey{}, Flt: []string{}}
	if q.I > q.F {
		q.I, q.F = q.F, q.I
	}
	pk := randKey(rng, d, false)
	q.P = pk[:len(d.Tgt)+rng.Intn(len(pk)-len(d.Tgt)+1)]
	if rng.Intn(2) == 0 {
		q.Flt = append(q.Flt, "D")
	}
	if rng.Intn(2) == 0 {
		q.Flt = append(q.Flt, "E")
	}
	if q.Op == "prefix" {
		// the neq argument is used the way the SQL engine uses it: empty (TraceIndex evaluates the contract only
		// where all its readings coincide)
		q.Flt = []string{"D", "E"}
	}
	if q.Op == "scan" || q.Op == "scanb" || q.Op == "dump" {
		q.Via = "snap"
	}
	if q.Op == "history" {
		q.Via = "store" // the snapshot-level History is covered (and classified) by the replay
	}
	return q
}

func (r *tvRun) readOnce(rng *rand.Rand) {
	w := r.w
	var xs []int
	r.mu.Lock()
	for x := range w.idx {
		if w.running[x] {
			xs = append(xs, x+1)
		}
	}
	r.mu.Unlock()
	if len(xs) == 0 {
		return
	}
	x := xs[rng.Intn(len(xs))]
	d := w.idx[x-1]
	committed := int(w.st.LastCommittedTxID())
	q := randQuery(rng, d, committed)
	lo := int(r.known[x-1].Load())
	waited := 0
	if rng.Intn(2) == 0 && committed > 0 {
		waited = 1 + rng.Intn(committed)
		if err := w.waitIndexed(waited); err != nil {
			r.res.Count("tv:wait-error", 1)
			return
		}
		if waited > lo {
			lo = waited
		}
	}
	var got PRes
	hi := 0
	if q.Via == "snap" {
		snap, err := w.snapshot(x, waited)
		if err != nil {
			r.res.Count("tv:snapshot-error", 1)
			return
		}
		ts := int(snap.Ts())
		got, _ = w.exec(x, waited, q, snap)
		snap.Close()
		// what the snapshot holds is the index at time ts, and it must include the waited-for transaction
		// (otherwise the range is empty and the read is rejected)
		hi = ts
		lo = ts
		if waited > ts {
			lo = waited
		}
	} else {
		got, _ = w.exec(x, waited, q, nil)
		hi = int(w.st.LastCommittedTxID())
	}
	if strings.HasPrefix(got.St, "err:") {
		// an error is not a value: the property is about what successful lookups return (counted, reported in the evidence)
		r.res.Count("tv:read-error:"+lastWords(got.St), 1)
		return
	}
	for {
		old := r.known[x-1].Load()
		if int64(lo) <= old || r.known[x-1].CompareAndSwap(old, int64(lo)) {
			break
		}
	}
	r.mu.Lock()
	r.reads = append(r.reads, tvEvent{"ev": "Read", "x": x, "lo": lo, "hi": hi, "waited": waited, "q": q, "r": got, "final": ""})
	r.mu.Unlock()
	r.res.Count("tv:read:"+q.Op+":"+q.Via, 1)
	r.res.Evaluations++
}

// finalState logs what every initialised index holds once its snapshot is at index time >= last.
func (r *tvRun) finalState(tag string, last int, layout string, cfg Cfg, seed int64, run int) bool {
	w := r.w
	for x := 1; x <= len(w.idx); x++ {
		if !w.running[x-1] {
			continue
		}
		snap, err := w.settledSnapshot(x, last)
		if err != nil {
			sig := "indexer.indexSince:indexing-does-not-catch-up"
			if cfg.Bulk > 1 {
				sig = "indexer.indexSince:MaxBulkSize>1:indexing-does-not-catch-up"
			}
			r.res.Violate(sig, fmt.Sprintf("layout %s %s (%s): %v", layout, cfg, tag, err), map[string]interface{}{"layout": layout, "cfg": cfg, "seed": seed, "run": run})
			return false
		}
		ts := int(snap.Ts())
		got, _ := w.exec(x, last, dumpQuery, snap)
		snap.Close()
		r.reads = append(r.reads, tvEvent{"ev": "Read", "x": x, "lo": ts, "hi": ts, "waited": last, "q": dumpQuery, "r": got, "final": tag})
		r.res.Count("tv:read:dump:final-"+tag, 1)
		r.res.Evaluations++
	}
	return true
}

func (r *tvRun) writeTrace(out *os.File, hdr tvEvent, committed int) {
	enc := json.NewEncoder(out)
	enc.Encode(hdr)
	for id := 1; id <= committed; id++ {
		tx, ok := r.commits[id]
		if !ok {
			vh.Fatalf("tv: committed tx %d was not acknowledged to any writer", id)
		}
		enc.Encode(tvEvent{"ev": "Commit", "id": id, "tx": tx})
	}
	for _, e := range r.reads {
		enc.Encode(e)
	}
	r.res.Traces++
	r.res.Count("tv:events", 1+committed+len(r.reads))
	for k, v := range r.w.counts {
		r.res.Count("tv:"+k, v)
	}
}

// dumpGate blocks the compaction at the moment the first file of the dump folder (nodes<ts>/00000000.n) is created:
// the snapshot to dump has been taken, the tree is unlocked.  The driver then commits transactions and waits until
// they are indexed (into the tree being compacted) before it lets the dump go on.
type dumpGate struct {
	armed   atomic.Bool
	root    string
	hit     chan string
	release chan struct{}
}

var dumpFileRe = regexp.MustCompile(`/nodes\d{16}/0+\.n$`)

func (g *dumpGate) sink(ev string, kv ...interface{}) {
	if ev != "FCreate" || !g.armed.Load() || len(kv) == 0 {
		return
	}
	name, _ := kv[0].(string)
	if !strings.HasPrefix(name, g.root) || !dumpFileRe.MatchString(name) {
		return
	}
	g.hit <- name
	<-g.release
}

// runTVGated: compactions during which transactions are indexed ON PURPOSE, then Close+Open; the final state of every
// index is compared with the committed log.  Returns false if no transaction was indexed during a dump (vacuous).
func runTVGated(layout string, seed int64, run int, dir string, out *os.File, res *vh.Result) bool {
	done := make(chan struct{})
	defer close(done)
	go func() {
		select {
		case <-done:
		case <-time.After(150 * time.Second):
			vh.Fatalf("gated tv run %d stuck", run)
		}
	}()
	rng := rand.New(rand.NewSource(seed*104729 + int64(run)))
	cfg := pickCfg(run*7+int(seed)+2, []int{1, 3, 2, 8}[(run+int(seed))%4], layout)
	cfg.PrepMs = 2
	cfg.CacheSize = []int{1 << 20, 64}[run%2]
	idx := layoutIndexes(layout)
	path := filepath.Join(dir, fmt.Sprintf("tvg%d", run))
	os.RemoveAll(path)
	defer os.RemoveAll(path)
	w := newWorld(cfg, idx, seed, path)
	w.findMinNode()
	vh.Must(w.open(), "store.Open")
	r := &tvRun{w: w, commits: map[int]ATx{}, known: make([]atomic.Int64, len(idx)), res: res, rng: rng}
	for x := 1; x <= len(idx); x++ {
		vh.Must(w.start(x), "InitIndexing")
	}
	seq := 0
	commitN := func(n int) {
		for i := 0; i < n; i++ {
			if err := r.commitTV(rng, 900+run, seq); err != nil {
				vh.Fatalf("gated tv commit: %v", err)
			}
			seq++
		}
	}
	stuck := func(what string, err error) bool {
		res.Violate("indexer.indexSince:indexing-does-not-catch-up", fmt.Sprintf("layout %s %s: %s: %v", layout, cfg, what, err),
			map[string]interface{}{"layout": layout, "cfg": cfg, "seed": seed, "run": run, "gated": true})
		w.st.Close()
		return true
	}
	commitN(8 + rng.Intn(6))
	if err := w.waitIndexed(int(w.st.LastCommittedTxID())); err != nil {
		return stuck("before the compaction", err)
	}
	g := &dumpGate{root: path, hit: make(chan string), release: make(chan struct{})}
	verifhook.SetSink(g.sink)
	defer verifhook.SetSink(nil)
	during, compactions := 0, 0
	rounds := 1 + (run+int(seed))%2
	for round := 0; round < rounds; round++ {
		vh.Must(w.st.FlushIndexes(0, true), "FlushIndexes") // a flushed snapshot must exist for the compaction to run
		g.armed.Store(true)
		cdone := make(chan error, 1)
		go func() { cdone <- w.st.CompactIndexes() }()
	gate:
		for {
			select {
			case <-g.hit:
				n := 2 + rng.Intn(3)
				commitN(n)
				if err := w.waitIndexed(int(w.st.LastCommittedTxID())); err != nil {
					g.armed.Store(false)
					g.release <- struct{}{}
					<-cdone
					return stuck("transactions committed while a compaction dump is being written", err)
				}
				during += n
				res.Count("tv:gated:dump-gates", 1)
				g.release <- struct{}{}
			case err := <-cdone:
				if err == nil {
					compactions++
					res.Count("tv:compact", 1)
				} else {
					res.Count("tv:compact-not-done:"+lastWords(err.Error()), 1)
				}
				break gate
			case <-time.After(60 * time.Second):
				vh.Fatalf("gated tv run %d: compaction neither reaches the gate nor returns", run)
			}
		}
		g.armed.Store(false)
		for i := 0; i < 4; i++ {
			r.readOnce(rng) // reads right after the restart of the indexes
		}
		commitN(1 + rng.Intn(3))
	}
	verifhook.SetSink(nil)
	res.Count("tv:gated:txs-indexed-during-dump", during)
	if during == 0 || compactions == 0 {
		w.st.Close()
		res.Count("tv:gated:vacuous", 1)
		return false
	}
	committed := int(w.st.LastCommittedTxID())
	if !r.finalState("quiescent", committed, layout, cfg, seed, run) {
		w.st.Close()
		return true
	}
	vh.Must(w.reopen(), "Close+Open")
	if !r.finalState("after-reopen", committed, layout, cfg, seed, run) {
		w.st.Close()
		return true
	}
	// the index goes on after the restart: more transactions, final state again
	commitN(2 + rng.Intn(3))
	committed = int(w.st.LastCommittedTxID())
	ok := r.finalState("quiescent", committed, layout, cfg, seed, run)
	w.st.Close()
	if !ok {
		return true
	}
	r.writeTrace(out, tvEvent{"ev": "Reset", "run": 1000 + run, "layout": layout, "cfg": cfg.String(), "bulk": cfg.Bulk, "compactions": compactions,
		"gated": true, "during": during}, committed)
	res.Count("tv:gated:runs", 1)
	return true
}

func runTVOne(layout string, seed int64, run int, dir string, out *os.File, res *vh.Result) {
	done := make(chan struct{})
	defer close(done)
	go func() {
		select {
		case <-done:
		case <-time.After(120 * time.Second):
			vh.Fatalf("tv run %d stuck", run)
		}
	}()
	rng := rand.New(rand.NewSource(seed*7919 + int64(run)))
	bulk := []int{1, 2, 3, 4, 8}[(run+int(seed))%5]
	cfg := pickCfg(run*3+int(seed), bulk, layout)
	cfg.PrepMs = []int{1, 5, 20}[run%3] // short: partial bulks happen while writers are active
	idx := layoutIndexes(layout)
	path := filepath.Join(dir, fmt.Sprintf("tv%d", run))
	os.RemoveAll(path)
	defer os.RemoveAll(path)
	w := newWorld(cfg, idx, seed, path)
	w.findMinNode()
	vh.Must(w.open(), "store.Open")
	r := &tvRun{w: w, commits: map[int]ATx{}, known: make([]atomic.Int64, len(idx)), res: res, rng: rng}
	late := -1
	if len(idx) > 1 && run%2 == 1 {
		late = len(idx) // the mapped index is created while the store already holds transactions
	}
	for x := 1; x <= len(idx); x++ {
		if x != late {
			vh.Must(w.start(x), "InitIndexing")
		}
	}
	total := 24 + rng.Intn(17) // <= 40 transactions per run
	compactions := run%2 == 0  // every other run compacts the indexes while the writers are active
	var ncompact atomic.Int64
	phases := 2
	committed := 0
	for ph := 0; ph < phases; ph++ {
		budget := total / phases
		var wg, rg sync.WaitGroup
		stop := make(chan struct{})
		var left atomic.Int64
		left.Store(int64(budget))
		writers := 2 + rng.Intn(3)
		for wi := 0; wi < writers; wi++ {
			wg.Add(1)
			go func(wi int, wr *rand.Rand) {
				defer wg.Done()
				for seq := 0; left.Add(-1) >= 0; seq++ {
					if err := r.commitTV(wr, ph*10+wi, seq); err != nil {
						vh.Fatalf("tv commit: %v", err)
					}
					if wr.Intn(3) == 0 {
						time.Sleep(time.Duration(wr.Intn(3000)) * time.Microsecond)
					}
				}
			}(wi, rand.New(rand.NewSource(rng.Int63())))
		}
		for ri := 0; ri < 3; ri++ {
			rg.Add(1)
			go func(rr *rand.Rand) {
				defer rg.Done()
				for {
					select {
					case <-stop:
						return
					default:
					}
					r.readOnce(rr)
					time.Sleep(time.Duration(rr.Intn(1500)) * time.Microsecond)
				}
			}(rand.New(rand.NewSource(rng.Int63())))
		}
		rg.Add(1)
		go func(mr *rand.Rand) { // maintenance
			defer rg.Done()
			for {
				select {
				case <-stop:
					return
				default:
				}
				op := mr.Intn(4)
				if op == 1 && !compactions {
					op = 0
				}
				switch op {
				case 0:
					w.st.FlushIndexes(float32(mr.Intn(101)), mr.Intn(2) == 0)
					res.Count("tv:flush", 1)
				case 1:
					if err := w.st.CompactIndexes(); err == nil {
						res.Count("tv:compact", 1)
						ncompact.Add(1)
					} else {
						res.Count("tv:compact-not-done", 1)
					}
				}
				time.Sleep(time.Duration(500+mr.Intn(2500)) * time.Microsecond)
			}
		}(rand.New(rand.NewSource(rng.Int63())))
		if late > 0 && ph == 0 {
			for int(w.st.LastCommittedTxID()) < budget/2 {
				time.Sleep(200 * time.Microsecond)
			}
			r.mu.Lock()
			err := w.start(late)
			r.mu.Unlock()
			vh.Must(err, "InitIndexing (late)")
			res.Count("tv:late-index", 1)
		}
		wg.Wait()
		committed = int(w.st.LastCommittedTxID())
		if err := w.waitIndexed(committed); err != nil {
			sig := "indexer.indexSince:indexing-does-not-catch-up"
			if cfg.Bulk > 1 {
				sig = "indexer.indexSince:MaxBulkSize>1:indexing-does-not-catch-up"
			}
			res.Violate(sig, fmt.Sprintf("layout %s %s: indexing did not reach tx %d within %s: %v", layout, cfg, committed, deadline, err),
				map[string]interface{}{"layout": layout, "cfg": cfg, "seed": seed, "run": run})
			close(stop)
			rg.Wait()
			w.st.Close()
			return
		}
		for i := 0; i < 6; i++ {
			r.readOnce(rng) // quiescent reads: lo = hi = committed for snapshot reads
		}
		close(stop)
		rg.Wait()
		// final quiescent comparison: writers and maintenance have stopped; every index really is at the last
		// committed transaction (its snapshot says so); everything it holds is logged; once more after Close+Open
		if !r.finalState("quiescent", committed, layout, cfg, seed, run) {
			w.st.Close()
			return
		}
		vh.Must(w.reopen(), "Close+Open")
		res.Count("tv:reopen", 1)
		if !r.finalState("after-reopen", committed, layout, cfg, seed, run) {
			w.st.Close()
			return
		}
	}
	w.st.Close()
	// the trace: the committed log in id order (what the writers were acknowledged), then the reads
	r.writeTrace(out, tvEvent{"ev": "Reset", "run": run, "layout": layout, "cfg": cfg.String(), "bulk": cfg.Bulk, "compactions": int(ncompact.Load()),
		"gated": false, "during": 0}, committed)
	if run < 2 {
		res.Sample(map[string]interface{}{"tv_layout": layout, "cfg": cfg.String(), "txs": committed, "reads": len(r.reads), "first_read": r.reads[0]}, 6)
	}
}

func runTV(layout string, seed int64, runs, gated int, dir, outp string, res *vh.Result) {
	out, err := os.Create(outp)
	vh.Must(err, "create trace")
	defer out.Close()
	for i := 0; i < runs; i++ {
		runTVOne(layout, seed, i, dir, out, res)
	}
	for i, attempt := 0, 0; i < gated; attempt++ {
		if attempt >= gated+6 {
			vh.Fatalf("no transaction could be indexed during a compaction dump in %d attempts", attempt)
		}
		if runTVGated(layout, seed, attempt, dir, out, res) {
			i++
		}
	}
	res.Distinct += runs + gated
	_ = context.Background
}
