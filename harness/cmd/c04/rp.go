package main

import (
	"context"
	"encoding/json"
	"errors"
	"fmt"
	"os"
	"path/filepath"
	"strings"

	"verifharness/vh"
)

// deviation: a read of the real store that differs from the value the specification defines
type deviation struct {
	Step   int    `json:"step"`
	X      int    `json:"index"`
	Kind   string `json:"indexKind"`
	Op     string `json:"op"`
	Class  string `json:"class"`
	Query  AQuery `json:"query"`
	Exp    PRes   `json:"expected"`
	Got    PRes   `json:"got"`
	SnapTs int    `json:"snapshotTs"`
	N      int    `json:"indexTime"`
	QIdx   int    `json:"queryNo"`
	Err    string `json:"error,omitempty"`
}

func indexKind(d IndexDef) string {
	if d.Inj {
		return "injective"
	}
	if d.Mapped {
		return "mapped"
	}
	return "identity"
}

// classOf names what differs (observations only)
func classOf(exp, got PRes, expA ARes) string {
	if strings.HasPrefix(got.St, "err:") {
		return "error"
	}
	if exp.St != got.St {
		if exp.St == "ok" && got.St == "nf" {
			return "missing"
		}
		if exp.St == "nf" && got.St == "ok" {
			return "stale-live"
		}
		return "status-" + exp.St + "-vs-" + got.St
	}
	var walk func(e, g []PItem, ea []AItem) string
	walk = func(e, g []PItem, ea []AItem) string {
		has := func(l []PItem, k AKey) bool {
			for _, x := range l {
				if eqKey(x.K, k) {
					return true
				}
			}
			return false
		}
		for _, x := range g {
			if !has(e, x.K) {
				return "extra-key"
			}
		}
		for _, x := range e {
			if !has(g, x.K) {
				return "missing-key"
			}
		}
		if len(e) != len(g) {
			return "item-count"
		}
		for i := range e {
			if !eqKey(e[i].K, g[i].K) {
				return "order"
			}
			if e[i].Vs != nil && len(e[i].Vs) != len(g[i].Vs) {
				if len(g[i].Vs) > len(e[i].Vs) {
					return "extra-version"
				}
				return "missing-version"
			}
		}
		for i := range e {
			if e[i].Vs != nil {
				if c := walk(e[i].Vs, g[i].Vs, ea[i].Vs); c != "" {
					return c
				}
				continue
			}
			x, y := e[i], g[i]
			switch {
			case x.Tx != y.Tx:
				return "wrong-tx"
			case x.Hc != y.Hc:
				return "wrong-revision"
			case x.Del != y.Del && ea[i].Tomb && x.Vid == y.Vid:
				return "tombstone-not-marked-deleted"
			case x.Vid != y.Vid:
				return "wrong-value"
			case x.Del != y.Del:
				return "wrong-deleted-flag"
			case x.Exp != y.Exp:
				return "wrong-expiry"
			case x.Xmd != y.Xmd:
				return "wrong-tx-metadata"
			}
		}
		return ""
	}
	if c := walk(exp.Items, got.Items, expA.Items); c != "" {
		return c
	}
	return "differs"
}

// replayOnce executes the behaviour on a fresh real store and returns every deviating read (per read step the
// dump comes first: if the content differs the other reads of the step are consequences and are skipped).
// A step that fails (error from the store) ends the replay.
func replayOnce(b Behaviour, cfg Cfg, seed int64, dir string, res *vh.Result, count bool) (devs []deviation, fault string) {
	path := filepath.Join(dir, "st")
	os.RemoveAll(path)
	defer os.RemoveAll(path)
	w := newWorld(cfg, b.Indexes, seed, path)
	w.findMinNode()
	if err := w.open(); err != nil {
		return nil, "store.Open: " + err.Error()
	}
	defer func() {
		if w.st != nil {
			w.st.Close()
		}
	}()
	if !cfg.Multi {
		// the only index is started by Open; the model starts with it stopped
		if err := w.st.CloseIndexing(nil); err != nil {
			return nil, "CloseIndexing: " + err.Error()
		}
	}
	stepErr := func(si int, st AStep, what string, err error) []deviation {
		x := st.X
		kind := "store"
		if x > 0 {
			kind = indexKind(b.Indexes[x-1])
		}
		class := "error"
		if strings.HasPrefix(what, "WaitForIndexingUpto") && errors.Is(err, context.DeadlineExceeded) {
			class = "indexing-does-not-catch-up"
		}
		return []deviation{{Step: si, X: x, Kind: kind, Op: st.Op, Class: class, Err: what + ": " + err.Error(), N: st.N}}
	}
	for si, st := range b.Steps {
		if count {
			res.Count("step:"+st.Op, 1)
			res.Evaluations++
		}
		switch st.Op {
		case "commit":
			if _, _, err := w.commit(st.Tx); err != nil {
				return append(devs, stepErr(si, st, "commit", err)...), ""
			}
		case "live":
			if err := w.waitIndexed(st.N); err != nil {
				return append(devs, stepErr(si, st, "WaitForIndexingUpto after commit", err)...), ""
			}
		case "start":
			if err := w.start(st.X); err != nil {
				return append(devs, stepErr(si, st, "InitIndexing", err)...), ""
			}
			if err := w.waitIndexed(st.N); err != nil {
				return append(devs, stepErr(si, st, "WaitForIndexingUpto after InitIndexing", err)...), ""
			}
			if count {
				for _, k := range st.Bulks {
					res.Count(fmt.Sprintf("model-bulk:%d", k), 1)
				}
			}
		case "stop":
			if err := w.stop(st.X); err != nil {
				return append(devs, stepErr(si, st, "CloseIndexing", err)...), ""
			}
		case "flush":
			if err := w.st.FlushIndexes(float32((si*37)%101), si%2 == 0); err != nil {
				return append(devs, stepErr(si, st, "FlushIndexes", err)...), ""
			}
		case "compact":
			// a compaction that is refused or fails leaves the index as it is: the reads that follow are still checked
			if err := w.compact(); err != nil && count {
				res.Count("compact-error:"+lastWords(err.Error()), 1)
			}
		case "reopen":
			if err := w.reopen(); err != nil {
				return append(devs, stepErr(si, st, "Close+Open", err)...), ""
			}
		case "read":
			if err := w.waitIndexed(st.N); err != nil {
				return append(devs, stepErr(si, st, "WaitForIndexingUpto", err)...), ""
			}
			snap, err := w.snapshot(st.X, st.N)
			if err != nil {
				return append(devs, stepErr(si, st, "SnapshotMustIncludeTxID", err)...), ""
			}
			for qi, rd := range st.Reads {
				exp := w.expected(rd.R)
				if os.Getenv("VERIF_C04_CORRUPT") == "1" && rd.Q.Op == "get" && exp.St == "ok" && si%2 == 0 {
					exp.Items[0].Tx++ // binding self-test: one corrupted expected value must be noticed
				}
				got, sts := w.exec(st.X, st.N, rd.Q, snap)
				if count {
					res.Count("read:"+rd.Q.Op, 1)
					res.Count("read-result:"+exp.St, 1)
					res.Evaluations++
				}
				if !eqRes(exp, got) {
					devs = append(devs, deviation{Step: si, X: st.X, Kind: indexKind(b.Indexes[st.X-1]), Op: rd.Q.Op, Class: classOf(exp, got, rd.R),
						Query: rd.Q, Exp: exp, Got: got, SnapTs: sts, N: st.N, QIdx: qi})
					if rd.Q.Op == "dump" {
						break
					}
				}
			}
			snap.Close()
		default:
			vh.Fatalf("unknown step %q", st.Op)
		}
	}
	// final comparison: every index, once it has applied the whole log, holds what the reference holds; again after
	// Close+Open
	if b.Final != nil {
		for x := range b.Indexes {
			if !w.running[x] {
				if err := w.start(x + 1); err != nil {
					return append(devs, deviation{Step: len(b.Steps), X: x + 1, Kind: indexKind(b.Indexes[x]), Op: "final", Class: "error", Err: "InitIndexing: " + err.Error()}), ""
				}
			}
		}
		for _, op := range []string{"final", "final-after-reopen"} {
			if op == "final-after-reopen" {
				if err := w.reopen(); err != nil {
					return append(devs, deviation{Step: len(b.Steps), Kind: "store", Op: op, Class: "error", Err: "Close+Open: " + err.Error()}), ""
				}
			}
			for x := range b.Indexes {
				d := deviation{Step: len(b.Steps), X: x + 1, Kind: indexKind(b.Indexes[x]), Op: op, Query: dumpQuery, N: w.n}
				snap, err := w.settledSnapshot(x+1, w.n)
				if err != nil {
					d.Class, d.Err = "indexing-does-not-catch-up", err.Error()
					return append(devs, d), ""
				}
				exp := w.expected(b.Final[x])
				got, _ := w.exec(x+1, w.n, dumpQuery, snap)
				snap.Close()
				if count {
					res.Count("read:"+op, 1)
					res.Evaluations++
				}
				if !eqRes(exp, got) {
					d.Class, d.Exp, d.Got = classOf(exp, got, b.Final[x]), exp, got
					devs = append(devs, d)
				}
			}
		}
	}
	for k, v := range w.counts {
		if count {
			res.Count(k, v)
		}
	}
	return devs, ""
}

func lastWords(s string) string {
	if i := strings.Index(s, "tbtree: "); i >= 0 {
		s = s[i:]
	}
	if i := strings.Index(s, ": while"); i >= 0 {
		s = s[:i]
	}
	if len(s) > 60 {
		s = s[:60]
	}
	return s
}

func sameRead(a, b deviation) bool { return a.Step == b.Step && a.X == b.X && a.QIdx == b.QIdx && a.Op == b.Op }

func hasMultiBulk(b Behaviour, upto int) bool {
	for i, st := range b.Steps {
		if i > upto {
			break
		}
		for _, k := range st.Bulks {
			if k > 1 {
				return true
			}
		}
	}
	return false
}

// signature of a deviation: configuration class that triggers it (decided by re-running the same behaviour
// with MaxBulkSize = 1), index kind, operation and what differs.
func signature(d deviation, bulkOnly bool) string {
	if bulkOnly {
		return fmt.Sprintf("indexer.indexSince:MaxBulkSize>1:%s-index:reads-differ-from-committed-log", d.Kind)
	}
	if d.Class == "indexing-does-not-catch-up" {
		return "indexer.indexSince:indexing-does-not-catch-up"
	}
	if (d.Op == "between" || d.Op == "scanb") && foreignVersion(d.Got.Items) {
		return "tbtree.lastUpdateBetween:" + d.Op + ":version-of-another-key-below-first-version"
	}
	if d.Op == "history" && d.Query.Via == "snap" && d.Class == "wrong-revision" {
		return "store.Snapshot.History:revision-numbers-ignore-order-and-offset"
	}
	if d.Op == "final" && d.Class != "error" {
		return fmt.Sprintf("%s-index:final-state:differs-from-committed-log", d.Kind)
	}
	if d.Op == "final-after-reopen" && d.Class != "error" {
		return fmt.Sprintf("%s-index:final-state:differs-from-committed-log:after-reopen", d.Kind)
	}
	op := d.Op
	if op == "dump" {
		op = "content"
	}
	return fmt.Sprintf("%s-index:%s:%s", d.Kind, op, d.Class)
}

func runRP(in string, seed int64, dir string, classes int, res *vh.Result) {
	var bf BehaviourFile
	vh.ReadJSON(in, &bf)
	want := layoutIndexes(bf.Layout)
	for bi, b := range bf.Behaviours {
		if !sameIndexes(b.Indexes, want) {
			vh.Fatalf("behaviour %d: index layout printed by TLC differs from the driver's table for layout %s", bi, bf.Layout)
		}
		for ci := 0; ci < classes; ci++ {
			cfg := pickCfg(bi*classes+ci+int(seed), b.MaxBulk, bf.Layout)
			if ov := os.Getenv("VERIF_C04_CFG"); ov != "" { // debugging aid: override fields of the configuration class
				vh.Must(json.Unmarshal([]byte(ov), &cfg), "VERIF_C04_CFG")
			}
			res.Count("cfg:bulk="+fmt.Sprint(cfg.Bulk), 1)
			res.Count("cfg:"+fmt.Sprintf("block=%d", cfg.Block), 1)
			res.Traces++
			devs, fault := replayOnce(b, cfg, seed, dir, res, true)
			if fault != "" {
				vh.Fatalf("behaviour %d cfg %s: %s", bi, cfg, fault)
			}
			if len(devs) == 0 {
				continue
			}
			// flake guard + classification: same behaviour again, and with bulk size 1
			devs2, _ := replayOnce(b, cfg, seed, dir, res, false)
			if len(devs2) == 0 || !sameRead(devs[0], devs2[0]) {
				res.Count("deviation-not-reproduced", 1)
				res.DriftNote(fmt.Sprintf("deviation in behaviour %d cfg %s did not re-occur: %+v", bi, cfg, devs[0]))
				continue
			}
			report := func(d deviation, c Cfg, bulkOnly bool) {
				sig := signature(d, bulkOnly)
				if d.Step >= len(b.Steps) {
					d.Step = len(b.Steps) - 1 // final comparison: after all steps
				}
				text := fmt.Sprintf("layout %s, %s: after steps %s the %s index %d answers %s %s with %s; the committed log defines %s",
					bf.Layout, c, stepsText(b.Steps[:d.Step+1]), d.Kind, d.X, d.Op, queryText(d.Query), resText(d.Got), resText(d.Exp))
				if d.Err != "" {
					text = fmt.Sprintf("layout %s, %s: step %d (%s) fails after %s: %s", bf.Layout, c, d.Step, d.Op, stepsText(b.Steps[:d.Step]), d.Err)
				}
				res.Violate(sig, text, map[string]interface{}{"layout": bf.Layout, "cfg": c, "seed": seed, "behaviour": b, "deviation": d,
					"passes_with_MaxBulkSize_1": bulkOnly, "origin": b.Origin})
			}
			d := devs2[0]
			if cfg.Bulk == 1 {
				report(d, cfg, false)
				continue
			}
			// does the deviation depend on the bulk size?  Same behaviour, same class, MaxBulkSize = 1
			c1 := cfg
			c1.Bulk = 1
			d1, _ := replayOnce(b, c1, seed, dir, res, false)
			var same *deviation
			earlier := false
			for i, o := range d1 {
				if sameRead(o, d) {
					same = &d1[i]
				} else if o.Step < d.Step {
					earlier = true
				}
			}
			switch {
			case len(d1) == 0 || (same == nil && !earlier):
				report(d, cfg, true)
			default:
				// bulks of one transaction deviate as well: that deviation is reported on its own ...
				report(d1[0], c1, false)
				// ... and this one too if the bulk size changes what the read returns
				if same == nil || !eqRes(same.Got, d.Got) {
					report(d, cfg, true)
				}
			}
		}
	}
	res.Distinct += len(bf.Behaviours)
	if len(bf.Behaviours) > 0 {
		res.Sample(map[string]interface{}{"layout": bf.Layout, "maxBulk": bf.Behaviours[0].MaxBulk, "steps": stepsText(bf.Behaviours[0].Steps)}, 6)
	}
}

// a version numbered 0 (or below): revisions start at 1, so this is not a version of the key at all
func foreignVersion(its []PItem) bool {
	for _, it := range its {
		if it.Vs == nil && it.Hc <= 0 {
			return true
		}
	}
	return false
}

func stepsText(ss []AStep) string {
	var out []string
	for _, s := range ss {
		switch s.Op {
		case "commit":
			var es []string
			for _, e := range s.Tx.Es {
				es = append(es, fmt.Sprintf("%v=%s%d", e.K, e.Kind, e.V))
			}
			out = append(out, "commit{"+strings.Join(es, ",")+"}")
		case "start":
			out = append(out, fmt.Sprintf("start(%d)bulks%v", s.X, s.Bulks))
		case "live", "stop", "flush", "compact":
			out = append(out, fmt.Sprintf("%s(%d)", s.Op, s.X))
		case "read":
			out = append(out, fmt.Sprintf("read(%d)", s.X))
		default:
			out = append(out, s.Op)
		}
	}
	return strings.Join(out, " ")
}

func queryText(q AQuery) string {
	switch q.Op {
	case "get":
		return fmt.Sprintf("(%s key=%v filters=%v)", q.Via, q.K, q.Flt)
	case "between":
		return fmt.Sprintf("(%s key=%v %d..%d)", q.Via, q.K, q.I, q.F)
	case "prefix":
		return fmt.Sprintf("(%s prefix=%v neq=%v)", q.Via, q.P, q.Neq)
	case "history":
		return fmt.Sprintf("(%s key=%v offset=%d desc=%v limit=%d)", q.Via, q.K, q.Off, q.Desc, q.Lim)
	case "scan", "scanb":
		return fmt.Sprintf("(prefix=%v seek=%v/%v end=%v/%v desc=%v offset=%d filters=%v txs=%d..%d)", q.P, q.Seek, q.Iseek, q.End, q.Iend, q.Desc, q.Off, q.Flt, q.I, q.F)
	}
	return ""
}

func resText(r PRes) string {
	var f func(its []PItem) string
	f = func(its []PItem) string {
		var out []string
		for _, it := range its {
			if it.Vs != nil {
				out = append(out, fmt.Sprintf("%v:[%s]", it.K, f(it.Vs)))
			} else {
				s := fmt.Sprintf("%v@tx%d/rev%d/val%d", it.K, it.Tx, it.Hc, it.Vid)
				if it.Del {
					s += "/deleted"
				}
				if it.Exp != "no" {
					s += "/" + it.Exp
				}
				out = append(out, s)
			}
		}
		return strings.Join(out, " ")
	}
	return r.St + "{" + f(r.Items) + "}"
}
