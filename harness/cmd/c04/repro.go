package main

import (
	"context"
	"fmt"
	"path/filepath"
	"time"

	"github.com/codenotary/immudb/embedded/logger"
	"github.com/codenotary/immudb/embedded/store"

	"verifharness/vh"
)

// minimal programs for the findings (plain API calls, no model involved)
func runRepro(dir string, res *vh.Result) {
	ctx := context.Background()
	// (1) default index, MaxBulkSize 4, 40 distinct keys committed before the index is opened
	{
		p := filepath.Join(dir, "repro1")
		o := store.DefaultOptions().WithMultiIndexing(true).WithLogger(logger.NewMemoryLoggerWithLevel(logger.LogError))
		o.WithIndexOptions(o.IndexOpts.WithMaxBulkSize(4))
		st, err := store.Open(p, o)
		vh.Must(err, "open")
		for i := 0; i < 40; i++ {
			tx, _ := st.NewWriteOnlyTx(ctx)
			tx.Set([]byte(fmt.Sprintf("key%02d", i)), nil, []byte(fmt.Sprintf("value%02d", i)))
			_, err := tx.AsyncCommit(ctx)
			vh.Must(err, "commit")
		}
		vh.Must(st.InitIndexing(&store.IndexSpec{}), "InitIndexing")
		c, cancel := context.WithTimeout(ctx, 20*time.Second)
		err = st.WaitForIndexingUpto(c, 40)
		cancel()
		missing := 0
		for i := 0; i < 40; i++ {
			if _, err := st.Get(ctx, []byte(fmt.Sprintf("key%02d", i))); err != nil {
				missing++
			}
		}
		res.Extra["repro1_missing_keys_of_40_bulk4"] = missing
		res.Extra["repro1_wait_error"] = fmt.Sprint(err)
		st.Close()
	}
	quiet := func() *store.Options {
		return store.DefaultOptions().WithMultiIndexing(true).WithLogger(logger.NewMemoryLoggerWithLevel(logger.LogError))
	}
	set := func(st *store.ImmuStore, kvs ...string) {
		tx, _ := st.NewWriteOnlyTx(ctx)
		for i := 0; i < len(kvs); i += 2 {
			vh.Must(tx.Set([]byte(kvs[i]), nil, []byte(kvs[i+1])), "set")
		}
		_, err := tx.AsyncCommit(ctx)
		vh.Must(err, "commit")
	}
	wait := func(st *store.ImmuStore, n uint64) error {
		c, cancel := context.WithTimeout(ctx, 10*time.Second)
		defer cancel()
		return st.WaitForIndexingUpto(c, n)
	}
	// (2) GetBetween below the first version of a key whose history was flushed in one block: another key's version
	{
		st, err := store.Open(filepath.Join(dir, "repro2"), quiet())
		vh.Must(err, "open")
		vh.Must(st.InitIndexing(&store.IndexSpec{}), "InitIndexing")
		set(st, "a", "a1") // tx1
		set(st, "a", "a2") // tx2
		set(st, "b", "b3") // tx3
		set(st, "b", "b4") // tx4
		set(st, "b", "b5") // tx5
		vh.Must(wait(st, 5), "wait")
		vh.Must(st.FlushIndexes(0, true), "flush")
		vr, err := st.GetBetween(ctx, []byte("b"), 1, 2) // b did not exist at tx 2
		if err != nil {
			res.Extra["repro2_GetBetween_b_1_2"] = err.Error()
		} else {
			v, _ := vr.Resolve()
			res.Extra["repro2_GetBetween_b_1_2"] = fmt.Sprintf("tx=%d hc=%d value=%q", vr.Tx(), vr.HC(), v)
		}
		st.Close()
	}
	// (3) injective mapped index: the previous entry carries metadata (expires in 2191) -> its old mapped key stays live
	{
		st, err := store.Open(filepath.Join(dir, "repro3"), quiet())
		vh.Must(err, "open")
		vh.Must(st.InitIndexing(&store.IndexSpec{SourcePrefix: []byte("p"), TargetPrefix: []byte("p")}), "InitIndexing p")
		vh.Must(st.InitIndexing(&store.IndexSpec{SourcePrefix: []byte("p"), TargetPrefix: []byte("s"), InjectiveMapping: true,
			TargetEntryMapper: func(k, v []byte) ([]byte, error) { return append(append([]byte("s"), v...), k...), nil }}), "InitIndexing s")
		tx, _ := st.NewWriteOnlyTx(ctx)
		md := store.NewKVMetadata()
		md.ExpiresAt(farFuture)
		tx.Set([]byte("pk"), md, []byte("v1"))
		_, err = tx.AsyncCommit(ctx)
		vh.Must(err, "commit")
		set(st, "pk", "v2")
		vh.Must(wait(st, 2), "wait")
		_, err = st.Get(ctx, []byte("sv1pk"))
		res.Extra["repro3_Get_old_mapped_key_after_update"] = fmt.Sprint(err)
		st.Close()
	}
	// (4) Snapshot.History: ascending order, three versions
	{
		st, err := store.Open(filepath.Join(dir, "repro4"), quiet())
		vh.Must(err, "open")
		vh.Must(st.InitIndexing(&store.IndexSpec{}), "InitIndexing")
		set(st, "k", "1")
		set(st, "k", "2")
		set(st, "k", "3")
		vh.Must(wait(st, 3), "wait")
		snap, err := st.SnapshotMustIncludeTxID(ctx, nil, 3)
		vh.Must(err, "snapshot")
		vrs, _, err := snap.History([]byte("k"), 0, false, 10)
		vh.Must(err, "history")
		out := ""
		for _, vr := range vrs {
			out += fmt.Sprintf("tx%d:rev%d ", vr.Tx(), vr.HC())
		}
		res.Extra["repro4_Snapshot_History_asc"] = out
		snap.Close()
		st.Close()
	}
	res.Evaluations += 4
}

// debugBetween replays a behaviour file up to (excluding) its last step and prints GetBetween for every key/bound.
func debugBetween(in string, seed int64, dir string) {
	var bf BehaviourFile
	vh.ReadJSON(in, &bf)
	b := bf.Behaviours[0]
	b.Steps = b.Steps[:len(b.Steps)-1]
	cfg := pickCfg(int(seed), 1, bf.Layout)
	res := vh.NewResult()
	path := filepath.Join(dir, "dbg")
	w := newWorld(cfg, b.Indexes, seed, path)
	vh.Must(w.open(), "open")
	for _, st := range b.Steps {
		switch st.Op {
		case "commit":
			_, _, err := w.commit(st.Tx)
			vh.Must(err, "commit")
		case "start":
			vh.Must(w.start(st.X), "start")
			vh.Must(w.waitIndexed(st.N), "wait")
		case "stop":
			vh.Must(w.stop(st.X), "stop")
		case "flush":
			vh.Must(w.st.FlushIndexes(0, true), "flush")
		case "reopen":
			vh.Must(w.reopen(), "reopen")
		case "live":
			vh.Must(w.waitIndexed(st.N), "wait")
		}
	}
	_ = res
	for _, k := range []AKey{{1}, {1, 1}, {1, 2}} {
		for f := 1; f <= w.n; f++ {
			vr, err := w.st.GetBetween(context.Background(), w.c.key(k), 1, uint64(f))
			if err != nil {
				fmt.Printf("GetBetween(%v,1,%d) -> %v\n", k, f, err)
			} else {
				fmt.Printf("GetBetween(%v,1,%d) -> tx %d hc %d\n", k, f, vr.Tx(), vr.HC())
			}
		}
	}
	w.st.Close()
}
