package main

import (
	"bytes"
	"context"
	"crypto/sha256"
	"encoding/binary"
	"fmt"
	"path/filepath"
	"time"

	"github.com/codenotary/immudb/embedded/store"

	"verifharness/vh"
)

func openStore(dir, name string) *store.ImmuStore {
	opts := store.DefaultOptions().WithSynced(false).WithMaxConcurrency(1).WithMaxIOConcurrency(1)
	st, err := store.Open(filepath.Join(dir, name), opts)
	vh.Must(err, "store.Open "+name)
	return st
}

type expTx struct {
	rec    exportRec
	keys   [][]byte
	vals   [][]byte
	mds    []*store.KVMetadata
	hdr    *store.TxHeader
	bytes  []byte
	truncB []byte // hand-made truncated form (values replaced by their digests, flag 1)
}

// truncatedForm rewrites a valid export so that every value is replaced by its SHA-256 digest and the
// trailing flag says "truncated" - the form ExportTx produces after the value log was truncated.
func truncatedForm(exp []byte, nentries int) []byte {
	var out bytes.Buffer
	i := 0
	hl := int(binary.BigEndian.Uint32(exp))
	out.Write(exp[:4+hl])
	i = 4 + hl
	for e := 0; e < nentries; e++ {
		kl := int(binary.BigEndian.Uint16(exp[i:]))
		ml := int(binary.BigEndian.Uint16(exp[i+2+kl:]))
		voff := i + 2 + kl + 2 + ml
		vl := int(binary.BigEndian.Uint32(exp[voff:]))
		out.Write(exp[i:voff])
		d := sha256.Sum256(exp[voff+4 : voff+4+vl])
		var l [4]byte
		binary.BigEndian.PutUint32(l[:], sha256.Size)
		out.Write(l[:])
		out.Write(d[:])
		i = voff + 4 + vl
	}
	if !bytes.Equal(exp[i:], []byte{0, 1, 0}) {
		vh.Fatalf("export does not end with the truncation flag record: % x", exp[i:])
	}
	out.Write([]byte{0, 1, 1})
	return out.Bytes()
}

func expSig(r exportRec) string {
	s := fmt.Sprintf("entries=%d,extra=%s,truncated=%v", len(r.Entries), r.Extra, r.Truncated)
	for _, e := range r.Entries {
		s += fmt.Sprintf(";k=%s,v=%s,%s", e.Klen, e.Vlen, kvSig(e.Md))
	}
	return s
}

// commitShape commits one transaction of the given shape on st and exports it.  A refusal, a failure to read the
// committed transaction back for the export, or a call that does not return is a verdict (nil is returned).
func commitShape(ctx context.Context, st *store.ImmuStore, holder *store.Tx, rec exportRec, k int) *expTx {
	t := &expTx{rec: rec}
	cls := fmt.Sprintf("extra=%s,entries=%d", rec.Extra, len(rec.Entries))
	var otx *store.OngoingTx
	if !step("store.NewWriteOnlyTx", "encode", "tx", cls, 30*time.Second, rec, func() error { x, err := st.NewWriteOnlyTx(ctx); otx = x; return err }) {
		return nil
	}
	if rec.Extra != "absent" {
		otx.WithMetadata(mkTxMd(txmdRec{Trunc: "absent", Extra: rec.Extra}, k))
	}
	for i, e := range rec.Entries {
		var key []byte
		if e.Klen == "1" {
			key = []byte{byte(i + 1)}
		} else {
			key = append([]byte{byte(i + 1)}, vh.Bytes(seed, "key", k*8+i, 5+int(vh.Bytes(seed, "keylen", k*8+i, 1)[0])%200)...)
		}
		var val []byte
		switch e.Vlen {
		case "one":
			val = vh.Bytes(seed, "val", k*8+i, 1)
		case "mid":
			val = vh.Bytes(seed, "val", k*8+i, 2+int(vh.Bytes(seed, "vallen", k*8+i, 2)[1])*8)
		}
		var md *store.KVMetadata
		if e.Md.Deleted || e.Md.NonIndexable || e.Md.Expires != "absent" {
			md = mkKvMd(e.Md, k)
		}
		if !step("store.OngoingTx.Set", "encode", "tx.entry", fmt.Sprintf("k=%s,v=%s,%s", e.Klen, e.Vlen, kvSig(e.Md)), 30*time.Second, rec, func() error { return otx.Set(key, md, val) }) {
			otx.Cancel()
			return nil
		}
		t.keys, t.vals, t.mds = append(t.keys, key), append(t.vals, val), append(t.mds, md)
	}
	if !step("store.Commit", "encode", "tx", cls, 60*time.Second, rec, func() error {
		cctx, cancel := context.WithTimeout(ctx, 40*time.Second)
		defer cancel()
		h, err := otx.Commit(cctx)
		t.hdr = h
		return err
	}) {
		return nil
	}
	if !step("store.ExportTx", "decode", "tx", cls, 30*time.Second, rec, func() error {
		b, err := st.ExportTx(t.hdr.ID, false, false, holder)
		t.bytes = append([]byte{}, b...)
		return err
	}) {
		return nil
	}
	res.Count("export", 1)
	return t
}

// replicateAndCompare feeds exp to st.ReplicateTx and compares what st then holds with the primary's tx.
func replicateAndCompare(ctx context.Context, st *store.ImmuStore, who string, t *expTx, exp []byte, truncated bool) bool {
	rec := t.rec
	var hdr *store.TxHeader
	var rerr error
	if !guard("store.ReplicateTx:"+who, func() { hdr, rerr = st.ReplicateTx(ctx, exp, false, false) }) {
		return false
	}
	res.Evaluations++
	res.Count("replicate:"+who, 1)
	form := map[bool]string{false: "full", true: "truncated"}[truncated]
	if rerr != nil {
		res.Violate(fmt.Sprintf("store.ReplicateTx:%s:refuses-valid-export:%s", who, form),
			fmt.Sprintf("%s: ReplicateTx of the %s export of tx %d (%s) failed: %v", who, form, t.hdr.ID, expSig(rec), rerr), map[string]interface{}{"shape": rec, "export": fmt.Sprintf("%x", clip(exp))})
		return false
	}
	if hdr.Alh() != t.hdr.Alh() || !hdrEqual(hdr, t.hdr) {
		res.Violate(fmt.Sprintf("store.ReplicateTx:%s:header-differs:%s", who, form), fmt.Sprintf("%s: replicated header %+v differs from the primary's %+v", who, hdr, t.hdr), rec)
		return false
	}
	rtx := store.NewTx(st.MaxTxEntries(), st.MaxKeyLen())
	if err := st.ReadTx(hdr.ID, false, rtx); err != nil {
		res.Violate(fmt.Sprintf("store.ReadTx:%s:after-replication:%s", who, form), err.Error(), rec)
		return false
	}
	es := rtx.Entries()
	if len(es) != len(t.keys) {
		res.Violate(fmt.Sprintf("store.ReplicateTx:%s:entry-count-differs:%s", who, form), fmt.Sprintf("%d entries, want %d", len(es), len(t.keys)), rec)
		return false
	}
	for i, e := range es {
		if !bytes.Equal(e.Key(), t.keys[i]) || !kvMdEqual(e.Metadata(), t.mds[i]) || e.HVal() != sha256.Sum256(t.vals[i]) {
			res.Violate(fmt.Sprintf("store.ReplicateTx:%s:entry-differs:%s:%s", who, form, kvSig(rec.Entries[i].Md)),
				fmt.Sprintf("%s entry %d of tx %d: key %x md %x hval %x; want key %x md %x", who, i, hdr.ID, clip(e.Key()), mdBytes(e.Metadata()), e.HVal(), clip(t.keys[i]), mdBytes(t.mds[i])), rec)
			return false
		}
		if !truncated {
			if e.VLen() != len(t.vals[i]) {
				res.Violate(fmt.Sprintf("store.ReplicateTx:%s:value-length-differs:%s", who, form), fmt.Sprintf("vLen %d want %d", e.VLen(), len(t.vals[i])), rec)
				return false
			}
			v, err := st.ReadValue(e)
			if err != nil || !bytes.Equal(v, t.vals[i]) {
				res.Violate(fmt.Sprintf("store.ReadValue:%s:value-differs:%s:v=%s", who, form, rec.Entries[i].Vlen), fmt.Sprintf("%s entry %d of tx %d: value err=%v len %d want %d", who, i, hdr.ID, err, len(v), len(t.vals[i])), rec)
				return false
			}
		}
	}
	return true
}

func runExports(cf *casesFile, dir string) {
	ctx, cancel := context.WithTimeout(context.Background(), 10*time.Minute)
	defer cancel()
	p := openStore(dir, "primary")
	a := openStore(dir, "replicaA")
	b := openStore(dir, "replicaB")
	defer closeAll(p, a, b)

	holder := store.NewTx(p.MaxTxEntries(), p.MaxKeyLen())
	chainBroken := false // replica B can only continue while every earlier tx went through
	for k, rec := range cf.Exports {
		note("export", expSig(rec))
		t := commitShape(ctx, p, holder, rec, k)
		if t == nil {
			// the primary holds (or refused) a transaction the replicas cannot receive: their chains end here
			res.Count("export-chain-ended", 1)
			break
		}
		replicateAndCompare(ctx, a, "replica", t, t.bytes, false)
		if k%97 == 0 {
			res.Sample(map[string]interface{}{"export": rec, "bytes": fmt.Sprintf("%x", clip(t.bytes)), "len": len(t.bytes)}, 12)
		}
		if chainBroken {
			res.Count("truncated-chain-skipped", 1)
			continue
		}
		// replica B receives the truncated form (values replaced by digests, flag 1) where the shape says so
		expB := t.bytes
		if rec.Truncated {
			expB = truncatedForm(t.bytes, len(rec.Entries))
			res.Count("export-truncated-form", 1)
		}
		if !replicateAndCompare(ctx, b, "replica-fed-truncated-form", t, expB, rec.Truncated) {
			chainBroken = true
			continue
		}
		if rec.Truncated {
			// informational: can a replica that holds the transaction without values export it again?
			// (ExportTx refusing is an error return, not a codec defect: counted, not judged)
			var exp2 []byte
			var eerr error
			if guard("store.ExportTx:re-export-of-truncated-tx", func() { exp2, eerr = b.ExportTx(t.hdr.ID, false, false, holder) }) {
				if eerr != nil {
					res.Count("re-export-of-truncated-tx:refused", 1)
				} else if bytes.Equal(exp2, expB) {
					res.Count("re-export-of-truncated-tx:identical", 1)
				} else {
					res.Count("re-export-of-truncated-tx:differs", 1)
				}
			}
		}
	}
	runRealTruncation(ctx, cf, dir)
}

// runRealTruncation makes the REAL encoder produce the truncated form: a primary with tiny value-log
// files commits the truncated shapes, then filler, then TruncateUptoTx removes the value-log chunks.
// Every transaction ExportTx then emits with the flag set must equal the form derived from its full
// export, and must replicate.  ExportTx refusing ("partially truncated") ends the phase (not judged here).
func runRealTruncation(ctx context.Context, cf *casesFile, dir string) {
	opts := store.DefaultOptions().WithSynced(false).WithMaxConcurrency(1).WithMaxIOConcurrency(1).WithFileSize(1 << 10).WithVLogCacheSize(0)
	pt, err := store.Open(filepath.Join(dir, "primaryT"), opts)
	vh.Must(err, "open primaryT")
	rt := openStore(dir, "replicaT")
	defer closeAll(pt, rt)
	holder := store.NewTx(pt.MaxTxEntries(), pt.MaxKeyLen())
	var txs []*expTx
	for k, rec := range cf.Exports {
		if rec.Truncated {
			t := commitShape(ctx, pt, holder, rec, k)
			if t == nil {
				return
			}
			txs = append(txs, t)
		}
	}
	var last uint64
	for f := 0; f < 3; f++ { // filler: pushes the shapes' values into chunks that lie entirely before the cut
		ok := step("store.Commit", "encode", "tx", "filler-3000-bytes", 60*time.Second, nil, func() error {
			otx, err := pt.NewWriteOnlyTx(ctx)
			if err != nil {
				return err
			}
			if err := otx.Set([]byte(fmt.Sprintf("filler%d", f)), nil, vh.Bytes(seed, "filler", f, 3000)); err != nil {
				return err
			}
			h, err := otx.Commit(ctx)
			if err == nil {
				last = h.ID
			}
			return err
		})
		if !ok {
			return
		}
	}
	var terr error
	if !guard("store.TruncateUptoTx", func() { terr = pt.TruncateUptoTx(last) }) || terr != nil {
		res.Count("real-truncation:truncate-failed", 1)
		return
	}
	for _, t := range txs {
		var exp []byte
		var eerr error
		p, h, _ := vh.Guard(10*time.Second, func() { exp, eerr = pt.ExportTx(t.hdr.ID, false, false, holder) })
		if p || h || eerr != nil {
			res.Count("real-truncation:export-refused-or-stuck", 1)
			return // later transactions cannot be replicated without this one
		}
		exp = append([]byte{}, exp...)
		flagged := exp[len(exp)-1] == 1
		if !flagged {
			res.Count("real-truncation:exported-with-values", 1)
			if !replicateAndCompare(ctx, rt, "replica-of-truncated-primary", t, exp, false) {
				return
			}
			continue
		}
		res.Count("real-truncation:exported-truncated", 1)
		res.Evaluations++
		if want := truncatedForm(t.bytes, len(t.rec.Entries)); !bytes.Equal(exp, want) {
			res.Violate("store.ExportTx:truncated-form-differs", fmt.Sprintf("tx %d (%s): the truncated export differs from the full export with values replaced by digests", t.hdr.ID, expSig(t.rec)), t.rec)
		}
		if !replicateAndCompare(ctx, rt, "replica-of-truncated-primary", t, exp, true) {
			return
		}
	}
}

// closeAll closes stores without trusting Close to return (a store whose indexer met an unreadable
// transaction may not).
func closeAll(sts ...*store.ImmuStore) {
	for _, st := range sts {
		st := st
		vh.Guard(20*time.Second, func() { st.Close() })
	}
}

func mdBytes(md *store.KVMetadata) []byte {
	if md == nil {
		return nil
	}
	return md.Bytes()
}
