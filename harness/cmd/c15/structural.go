package main

import (
	"bytes"
	"crypto/sha256"
	"fmt"
	"math"
	"time"

	"github.com/google/uuid"

	"github.com/codenotary/immudb/embedded/sql"
	"github.com/codenotary/immudb/embedded/store"
	"github.com/codenotary/immudb/pkg/api/schema"

	"verifharness/vh"
)

// apiRoundTrip: pkg/api/schema converters (pure functions) for one value.
func apiRoundTrip(t, cls string, raw interface{}, tv sql.TypedValue, fail func(codec, law, text string)) {
	if t != "UUID" { // AsSQLValue has no UUID case (UUIDs travel as strings)
		sv, err := schema.AsSQLValue(raw)
		res.Evaluations++
		if err != nil {
			fail("schema.AsSQLValue", "refuses-valid-value", fmt.Sprintf("%s: %v", show(t, raw), err))
		} else if back := schema.RawValue(sv); !rawEqual(t, back, raw) {
			fail("schema.RawValue", "roundtrip", fmt.Sprintf("AsSQLValue/RawValue of %s gives %s", show(t, raw), show(t, back)))
		}
	}
	if raw != nil {
		rv := schema.TypedValueToRowValue(tv)
		res.Evaluations++
		back := schema.RawValue(rv)
		if t == "UUID" {
			s, _ := back.(string)
			u, err := uuid.Parse(s)
			if err != nil || u != raw.(uuid.UUID) {
				fail("schema.TypedValueToRowValue", "roundtrip", fmt.Sprintf("UUID %v travels as %q", raw, s))
			}
		} else if !rawEqual(t, back, raw) {
			fail("schema.TypedValueToRowValue", "roundtrip", fmt.Sprintf("TypedValueToRowValue/RawValue of %s gives %s", show(t, raw), show(t, back)))
		}
	}
}

// ---------------------------------------------------------------- TxMetadata

func mkTxMd(m txmdRec, k int) *store.TxMetadata {
	if m.Trunc == "nil" {
		return nil
	}
	md := store.NewTxMetadata()
	switch m.Trunc {
	case "one":
		md.WithTruncatedTxID(1)
	case "mid":
		md.WithTruncatedTxID(1 + uint64(vh.Bytes(seed, "trunc", k, 1)[0])<<24)
	case "max":
		md.WithTruncatedTxID(math.MaxUint64)
	}
	var n int
	switch m.Extra {
	case "len1":
		n = 1
	case "mid":
		n = 2 + int(vh.Bytes(seed, "extralen", k, 1)[0])%253
	case "len255":
		n = 255
	case "len256":
		n = 256
	}
	if n > 0 {
		step("store.TxMetadata.WithExtra", "encode", "txmd.extra", m.Extra, 10*time.Second, m, func() error { return md.WithExtra(vh.Bytes(seed, "extra", k, n)) })
	}
	return md
}

func txMdEqual(a, b *store.TxMetadata) bool {
	ae, be := a == nil || a.IsEmpty(), b == nil || b.IsEmpty()
	if ae || be {
		return ae && be
	}
	if a.HasTruncatedTxID() != b.HasTruncatedTxID() {
		return false
	}
	x, _ := a.GetTruncatedTxID()
	y, _ := b.GetTruncatedTxID()
	return x == y && bytes.Equal(a.Extra(), b.Extra()) && bytes.Equal(a.Bytes(), b.Bytes())
}

func runTxMd(cf *casesFile) {
	for k, m := range cf.Txmd {
		md := mkTxMd(m, k)
		sig := fmt.Sprintf("trunc=%s,extra=%s", m.Trunc, m.Extra)
		guard("store.TxMetadata:"+sig, func() {
			bs := md.Bytes()
			back := store.NewTxMetadata()
			err := back.ReadFrom(bs)
			res.Evaluations++
			res.Count("txmd", 1)
			note("txmd", sig)
			if err != nil || !txMdEqual(md, back) {
				res.Violate("store.TxMetadata.ReadFrom:roundtrip:"+sig, fmt.Sprintf("TxMetadata %s: Bytes()=%x.. ReadFrom err=%v", sig, clip(bs), err), m)
			}
			p := schema.TxMetadataFromProto(schema.TxMetadataToProto(md))
			res.Evaluations++
			if !txMdEqual(md, p) {
				res.Violate("schema.TxMetadataFromProto:roundtrip:"+sig, fmt.Sprintf("TxMetadata %s changes through TxMetadataToProto/FromProto", sig), m)
			}
		})
	}
}

// ---------------------------------------------------------------- KVMetadata

func expTime(cls string, k int) (time.Time, bool) {
	switch cls {
	case "before1970":
		return time.Unix(-86400*365, 0), true
	case "epoch":
		return time.Unix(0, 0), true
	case "mid":
		return time.Unix(1_600_000_000+int64(vh.Bytes(seed, "exp", k, 1)[0]), 0), true
	case "far":
		return time.Unix(253402300799, 0), true // 9999-12-31T23:59:59Z
	}
	return time.Time{}, false
}

func mkKvMd(m kvmdRec, k int) *store.KVMetadata {
	md := store.NewKVMetadata()
	vh.Must(md.AsDeleted(m.Deleted), "AsDeleted")
	if t, ok := expTime(m.Expires, k); ok {
		vh.Must(md.ExpiresAt(t), "ExpiresAt")
	}
	vh.Must(md.AsNonIndexable(m.NonIndexable), "AsNonIndexable")
	return md
}

func kvMdEqual(a, b *store.KVMetadata) bool {
	ae := a == nil || len(a.Bytes()) == 0
	be := b == nil || len(b.Bytes()) == 0
	if ae || be {
		return ae && be
	}
	if a.Deleted() != b.Deleted() || a.NonIndexable() != b.NonIndexable() || a.IsExpirable() != b.IsExpirable() {
		return false
	}
	if a.IsExpirable() {
		x, _ := a.ExpirationTime()
		y, _ := b.ExpirationTime()
		if !x.Equal(y) {
			return false
		}
	}
	return bytes.Equal(a.Bytes(), b.Bytes())
}

func kvSig(m kvmdRec) string {
	return fmt.Sprintf("deleted=%v,expires=%s,nonIndexable=%v", m.Deleted, m.Expires, m.NonIndexable)
}

func runKvMd(cf *casesFile) {
	// the byte-level decoder of KVMetadata is not exported: bytes are exercised through
	// ExportTx/ReplicateTx (runExports); here the protocol conversion.
	for k, m := range cf.Kvmd {
		md := mkKvMd(m, k)
		guard("schema.KVMetadata:"+kvSig(m), func() {
			p := schema.KVMetadataFromProto(schema.KVMetadataToProto(md))
			res.Evaluations++
			res.Count("kvmd", 1)
			note("kvmd", kvSig(m))
			if !kvMdEqual(md, p) {
				res.Violate("schema.KVMetadataFromProto:roundtrip:"+kvSig(m), fmt.Sprintf("KVMetadata %s changes through KVMetadataToProto/FromProto (bytes %x -> %x)", kvSig(m), md.Bytes(), p.Bytes()), m)
			}
		})
	}
}

// ---------------------------------------------------------------- TxHeader

func mkHdr(h hdrRec, k int) *store.TxHeader {
	hdr := &store.TxHeader{Version: h.H.Ver, Metadata: mkTxMd(h.H.Md, k)}
	switch h.H.Id {
	case "1":
		hdr.ID = 1
	case "mid":
		hdr.ID = 2 + uint64(vh.Bytes(seed, "id", k, 2)[0])<<16 + uint64(vh.Bytes(seed, "id", k, 2)[1])
	case "max":
		hdr.ID = math.MaxUint64
	}
	if h.H.Bl == "id-1" {
		hdr.BlTxID = hdr.ID - 1
	}
	switch h.H.Ts {
	case "negative":
		hdr.Ts = -1 - int64(vh.Bytes(seed, "ts", k, 1)[0])
	case "now":
		hdr.Ts = 1_700_000_000 + int64(vh.Bytes(seed, "ts", k, 1)[0])
	}
	switch h.H.Nentries {
	case "1":
		hdr.NEntries = 1
	case "2":
		hdr.NEntries = 2
	case "65535":
		hdr.NEntries = 65535
	case "65536":
		hdr.NEntries = 65536
	case "maxint32":
		hdr.NEntries = math.MaxInt32
	}
	copy(hdr.PrevAlh[:], vh.Bytes(seed, "prevalh", k, sha256.Size))
	copy(hdr.Eh[:], vh.Bytes(seed, "eh", k, sha256.Size))
	if hdr.BlTxID > 0 {
		copy(hdr.BlRoot[:], vh.Bytes(seed, "blroot", k, sha256.Size))
	}
	return hdr
}

func hdrEqual(a, b *store.TxHeader) bool {
	return a.ID == b.ID && a.Ts == b.Ts && a.BlTxID == b.BlTxID && a.BlRoot == b.BlRoot && a.PrevAlh == b.PrevAlh &&
		a.Version == b.Version && a.NEntries == b.NEntries && a.Eh == b.Eh && txMdEqual(a.Metadata, b.Metadata)
}

func runHdrs(cf *casesFile) {
	for k, h := range cf.Hdrs {
		hdr := mkHdr(h, k)
		mdSig := fmt.Sprintf("trunc=%s,extra=%s", h.H.Md.Trunc, h.H.Md.Extra)
		sig := fmt.Sprintf("v%d:%s:nentries=%s", h.H.Ver, mdSig, h.H.Nentries)
		guard("store.TxHeader:"+sig, func() {
			bs, err := hdr.Bytes()
			res.Evaluations++
			res.Count("hdr:"+h.Expect, 1)
			note("hdr", sig, h.H.Id, h.H.Bl, h.H.Ts)
			if h.Expect == "encode-error" {
				if err == nil {
					res.Violate("store.TxHeader.Bytes:accepts-metadata-in-v0:"+mdSig, fmt.Sprintf("version 0 header with metadata (%s) was serialized (%d bytes): the metadata is silently dropped", mdSig, len(bs)), h)
				}
				return
			}
			if err != nil {
				res.Violate("store.TxHeader.Bytes:refuses-valid-header:"+sig, fmt.Sprintf("%+v: %v", h.H, err), h)
				return
			}
			back := &store.TxHeader{}
			err = back.ReadFrom(bs)
			if err != nil || !hdrEqual(hdr, back) {
				res.Violate("store.TxHeader.ReadFrom:roundtrip:"+sig, fmt.Sprintf("header %+v: ReadFrom(Bytes()) err=%v got %+v", h.H, err, back), h)
				return
			}
			if back.Alh() != hdr.Alh() {
				res.Violate("store.TxHeader.Alh:roundtrip:"+sig, "Alh changes through Bytes/ReadFrom", h)
			}
			// protocol conversion keeps every field (and therefore Alh)
			if hdr.NEntries <= math.MaxInt32 {
				p := schema.TxHeaderFromProto(schema.TxHeaderToProto(hdr))
				res.Evaluations++
				if !hdrEqual(hdr, p) || p.Alh() != hdr.Alh() {
					res.Violate("schema.TxHeaderFromProto:roundtrip:"+sig, fmt.Sprintf("header %+v changes through TxHeaderToProto/FromProto", h.H), h)
				}
			}
		})
		if k%400 == 0 {
			res.Sample(map[string]interface{}{"txheader": h.H, "expect": h.Expect}, 12)
		}
	}
}
