package main

import (
	"bytes"
	"context"
	"errors"
	"fmt"
	"os"
	"path/filepath"
	"strings"
	"time"

	"google.golang.org/protobuf/types/known/structpb"

	"github.com/codenotary/immudb/embedded/document"
	"github.com/codenotary/immudb/embedded/sql"
	"github.com/codenotary/immudb/embedded/store"
	"github.com/codenotary/immudb/pkg/api/protomodel"

	"verifharness/vh"
)

// Boundary lengths (Codec.tla: Bounds).  Every length-bounded field is taken through 0, 1, max-1, max, max+1.
// expect "refuse": the constructor / Set / Commit / INSERT must return an error.
// expect "roundtrip": everything that accepted the value must be followed by decoders that read it:
//   pure   Bytes -> ReadFrom (TxMetadata, TxHeader carrying it)
//   store  Commit -> ReadTxHeader -> ReadTx -> ReadValue -> index (WaitForIndexingUpto, Get, Resolve) -> ExportTx -> ReplicateTx -> ReadTx on the replica
//   sql    INSERT -> SELECT by primary key -> SELECT through the index
//   doc    InsertDocument -> GetDocuments through the index
// A refusal of an in-domain length, a decoder rejecting what was accepted, or a call that does not return are
// verdicts with the field and the length class in the signature.

const maxExtraLen = 256 // embedded/store/tx_metadata.go: maxExtraLen
const maxDocFieldLen = 512 // embedded/document/type_conversions.go: maxDocumentFieldLen
const entriesLimit = 32

func lenOf(cls string, max int) int {
	switch cls {
	case "0":
		return 0
	case "1":
		return 1
	case "max-1":
		return max - 1
	case "max":
		return max
	case "max+1":
		return max + 1
	}
	vh.Fatalf("unknown length class %q", cls)
	return 0
}

func runBounds(cf *casesFile, dir string) {
	byField := map[string][]boundRec{}
	var order []string
	for _, b := range cf.Bounds {
		if _, ok := byField[b.Field]; !ok {
			order = append(order, b.Field)
		}
		byField[b.Field] = append(byField[b.Field], b)
	}
	// deterministic order of fields and classes
	sortStrings(order)
	rank := map[string]int{"0": 0, "1": 1, "max-1": 2, "max": 3, "max+1": 4}
	for _, f := range order {
		bs := byField[f]
		for i := range bs {
			for j := i + 1; j < len(bs); j++ {
				if rank[bs[j].Len] < rank[bs[i].Len] {
					bs[i], bs[j] = bs[j], bs[i]
				}
			}
		}
		note("bounds", f)
		switch {
		case strings.HasPrefix(f, "txmd.") || strings.HasPrefix(f, "store."):
			boundsStore(f, bs, dir)
		case strings.HasPrefix(f, "sql."):
			boundsSQL(f, bs, dir)
		case strings.HasPrefix(f, "doc."):
			boundsDoc(f, bs, dir)
		default:
			vh.Fatalf("no binding for bounded field %q (Codec.tla and cmd/c15 disagree)", f)
		}
	}
}

func sortStrings(a []string) {
	for i := range a {
		for j := i + 1; j < len(a); j++ {
			if a[j] < a[i] {
				a[i], a[j] = a[j], a[i]
			}
		}
	}
}

func verdictRefuse(codec, field, cls string, accepted bool, replay interface{}) {
	if accepted {
		res.Violate(fmt.Sprintf("%s:accepts-over-length:%s:%s", codec, field, cls), fmt.Sprintf("%s accepted %s of length class %s, which is outside the declared bounds", codec, field, cls), replay)
	} else {
		res.Count("boundary-refused:"+field+":"+cls, 1)
	}
}

// ---------------------------------------------------------------- store level

type storePair struct {
	dir  string
	p, r *store.ImmuStore
}

var pairSeq int

func openPair(dir string) *storePair {
	pairSeq++
	d := filepath.Join(dir, fmt.Sprintf("bounds-%d", pairSeq))
	vh.Must(os.MkdirAll(d, 0755), "mkdir")
	opts := func() *store.Options {
		return store.DefaultOptions().WithSynced(false).WithMaxConcurrency(1).WithMaxIOConcurrency(1).WithMaxTxEntries(entriesLimit)
	}
	p, err := store.Open(filepath.Join(d, "p"), opts())
	vh.Must(err, "open bounds primary")
	r, err := store.Open(filepath.Join(d, "r"), opts())
	vh.Must(err, "open bounds replica")
	return &storePair{d, p, r}
}

func (sp *storePair) drop() {
	closeAll(sp.p, sp.r)
	os.RemoveAll(sp.dir)
}

func boundsStore(field string, bs []boundRec, dir string) {
	ctx := context.Background()
	sp := openPair(dir)
	defer func() { sp.drop() }()
	for k, b := range bs {
		cls := b.Len
		replay := map[string]interface{}{"field": field, "length": cls, "expect": b.Expect}
		note("bound", field, cls)
		var md *store.TxMetadata
		key := []byte(fmt.Sprintf("key-%s-%d", field, k))
		val := vh.Bytes(seed, "bval", k, 3)
		nEntries := 1
		max := 0
		refusedEarly := false
		switch field {
		case "txmd.extra", "txmd.extra+truncatedTxID":
			max = maxExtraLen
			n := lenOf(cls, max)
			md = store.NewTxMetadata()
			if field == "txmd.extra+truncatedTxID" {
				md.WithTruncatedTxID(1)
			}
			err := md.WithExtra(vh.Bytes(seed, "bextra", k, n))
			res.Evaluations++
			if b.Expect == "refuse" {
				verdictRefuse("store.TxMetadata.WithExtra", field, cls, err == nil, replay)
				if err != nil {
					refusedEarly = true
				}
			} else if err != nil {
				res.Violate(fmt.Sprintf("store.TxMetadata.WithExtra:refuses-valid-value:%s:%s", field, cls), err.Error(), replay)
				continue
			}
			if !refusedEarly {
				// pure codecs: the metadata record alone and inside a version-1 header
				ok := step("store.TxMetadata.ReadFrom", "decode", field, cls, 20*time.Second, replay, func() error {
					back := store.NewTxMetadata()
					if err := back.ReadFrom(md.Bytes()); err != nil {
						return err
					}
					if !txMdEqual(md, back) {
						return errors.New("decodes to a different value")
					}
					return nil
				})
				ok = step("store.TxHeader.ReadFrom", "decode", field, cls, 20*time.Second, replay, func() error {
					h := &store.TxHeader{ID: 2, Ts: 1, Version: 1, NEntries: 1, BlTxID: 1, Metadata: md}
					bs, err := h.Bytes()
					if err != nil {
						return fmt.Errorf("TxHeader.Bytes: %w", err)
					}
					back := &store.TxHeader{}
					if err := back.ReadFrom(bs); err != nil {
						return err
					}
					if !hdrEqual(h, back) {
						return errors.New("decodes to a different header")
					}
					return nil
				}) && ok
				if ok && b.Expect == "roundtrip" {
					res.Count("boundary-ok:pure:"+field+":"+cls, 1)
				}
			}
		case "store.key":
			max = sp.p.MaxKeyLen()
			key = vh.Bytes(seed, "bkey", k, lenOf(cls, max))
		case "store.value":
			max = sp.p.MaxValueLen()
			val = vh.Bytes(seed, "bvalue", k, lenOf(cls, max))
		case "store.entries":
			max = sp.p.MaxTxEntries()
			nEntries = lenOf(cls, max)
		default:
			vh.Fatalf("no store binding for %q", field)
		}
		if refusedEarly {
			continue
		}
		// ---- commit on a real store
		var keys [][]byte
		var hdr *store.TxHeader
		var cerr error
		p, h, msg := vh.Guard(90*time.Second, func() {
			cctx, cancel := context.WithTimeout(ctx, 60*time.Second)
			defer cancel()
			otx, err := sp.p.NewWriteOnlyTx(cctx)
			if err != nil {
				cerr = err
				return
			}
			if md != nil {
				otx.WithMetadata(md)
			}
			for i := 0; i < nEntries; i++ {
				kk := key
				if nEntries > 1 {
					kk = []byte(fmt.Sprintf("%s-%03d", key, i))
				}
				if err := otx.Set(kk, nil, val); err != nil {
					cerr = err
					otx.Cancel()
					return
				}
				keys = append(keys, kk)
			}
			hdr, cerr = otx.Commit(cctx)
		})
		res.Evaluations++
		res.Count("boundary-commit:"+field, 1)
		switch {
		case p:
			res.Violate(fmt.Sprintf("store.Commit:panic:%s:%s", field, cls), strings.SplitN(msg, "\n", 2)[0], replay)
			sp.drop()
			sp = openPair(dir)
			continue
		case h || errors.Is(cerr, context.DeadlineExceeded):
			res.Violate(fmt.Sprintf("store.Commit:roundtrip:commit-or-read-back-hangs:%s:%s", field, cls),
				fmt.Sprintf("committing a transaction with %s of length class %s does not return (%v)", field, cls, cerr), replay)
			sp.drop()
			sp = openPair(dir)
			continue
		}
		if b.Expect == "refuse" {
			verdictRefuse("store.Commit", field, cls, cerr == nil, replay)
			if cerr != nil {
				continue
			}
		} else if cerr != nil {
			res.Violate(fmt.Sprintf("store.Commit:refuses-valid-value:%s:%s", field, cls), fmt.Sprintf("a transaction with %s of length class %s is refused: %v", field, cls, cerr), replay)
			continue
		}
		// ---- everything that reads the committed transaction
		ok := true
		rd := func(fn string, f func() error) {
			if ok && !step("store."+fn, "decode", field, cls, 60*time.Second, replay, f) {
				ok = false
			}
		}
		rd("ReadTxHeader", func() error {
			h, err := sp.p.ReadTxHeader(hdr.ID, false, false)
			if err == nil && (h.Alh() != hdr.Alh() || !txMdEqual(h.Metadata, hdr.Metadata) || !txMdEqual(h.Metadata, md)) {
				return errors.New("the header read back differs from the committed one")
			}
			return err
		})
		rtx := store.NewTx(sp.p.MaxTxEntries(), sp.p.MaxKeyLen())
		rd("ReadTx", func() error {
			if err := sp.p.ReadTx(hdr.ID, false, rtx); err != nil {
				return err
			}
			if len(rtx.Entries()) != len(keys) {
				return fmt.Errorf("%d entries read back, %d committed", len(rtx.Entries()), len(keys))
			}
			for i, e := range rtx.Entries() {
				if !bytes.Equal(e.Key(), keys[i]) || e.VLen() != len(val) {
					return fmt.Errorf("entry %d read back differs (key %d bytes, value %d bytes)", i, len(e.Key()), e.VLen())
				}
			}
			return nil
		})
		rd("ReadValue", func() error {
			for _, e := range rtx.Entries() {
				v, err := sp.p.ReadValue(e)
				if err != nil {
					return err
				}
				if !bytes.Equal(v, val) {
					return errors.New("value read back differs")
				}
			}
			return nil
		})
		rd("WaitForIndexingUpto+Get", func() error {
			cctx, cancel := context.WithTimeout(ctx, 40*time.Second)
			defer cancel()
			if err := sp.p.WaitForIndexingUpto(cctx, hdr.ID); err != nil {
				return err
			}
			for _, kk := range []([]byte){keys[0], keys[len(keys)-1]} {
				vr, err := sp.p.Get(cctx, kk)
				if err != nil {
					return err
				}
				v, err := vr.Resolve()
				if err != nil {
					return err
				}
				if vr.Tx() != hdr.ID || !bytes.Equal(v, val) {
					return errors.New("the index returns a different entry")
				}
			}
			return nil
		})
		var exp []byte
		rd("ExportTx", func() error {
			b, err := sp.p.ExportTx(hdr.ID, false, false, store.NewTx(sp.p.MaxTxEntries(), sp.p.MaxKeyLen()))
			exp = append([]byte{}, b...)
			return err
		})
		rd("ReplicateTx", func() error {
			cctx, cancel := context.WithTimeout(ctx, 40*time.Second)
			defer cancel()
			h, err := sp.r.ReplicateTx(cctx, exp, false, true)
			if err != nil {
				return err
			}
			if h.Alh() != hdr.Alh() {
				return errors.New("the replica computes a different Alh")
			}
			r2 := store.NewTx(sp.r.MaxTxEntries(), sp.r.MaxKeyLen())
			if err := sp.r.ReadTx(h.ID, false, r2); err != nil {
				return fmt.Errorf("ReadTx on the replica: %w", err)
			}
			return nil
		})
		if ok && b.Expect == "roundtrip" {
			res.Count("boundary-ok:store:"+field+":"+cls, 1)
		}
		if !ok {
			// the pair may hold a transaction its readers or its replica cannot digest: start afresh
			sp.drop()
			sp = openPair(dir)
		}
		if cls == "max" {
			res.Sample(map[string]interface{}{"boundary": field, "length": cls, "max": max, "txID": hdr.ID, "roundtrip": ok}, 14)
		}
	}
}

// ---------------------------------------------------------------- SQL level

func boundsSQL(field string, bs []boundRec, dir string) {
	ctx := context.Background()
	pairSeq++
	st, err := store.Open(filepath.Join(dir, fmt.Sprintf("bounds-sql-%d", pairSeq)), store.DefaultOptions().WithSynced(false).WithMultiIndexing(true))
	vh.Must(err, "open sql bounds store")
	defer closeAll(st)
	e, err := sql.NewEngine(st, sql.DefaultOptions().WithPrefix([]byte("sql")))
	vh.Must(err, "sql.NewEngine")
	t := "VARCHAR"
	if strings.Contains(field, "blob") {
		t = "BLOB"
	}
	indexed := strings.HasSuffix(field, ".indexed")
	max := 64
	if indexed {
		max = 256
	}
	if !step("sql.engine", "encode", field, "create-table", 60*time.Second, nil, func() error {
		if err := execAll(ctx, e, fmt.Sprintf("CREATE TABLE b (id INTEGER, v %s[%d], PRIMARY KEY id)", t, max), nil); err != nil {
			return err
		}
		if indexed {
			return execAll(ctx, e, "CREATE INDEX ON b (v)", nil)
		}
		return nil
	}) {
		return
	}
	for k, b := range bs {
		cls := b.Len
		n := lenOf(cls, max)
		raw := bytes.Repeat([]byte{'a' + byte(k)}, n)
		var v interface{} = raw
		if t == "VARCHAR" {
			v = string(raw)
		}
		replay := map[string]interface{}{"field": field, "length": cls, "declared": max}
		note("bound", field, cls)
		var ierr error
		p, h, msg := vh.Guard(90*time.Second, func() {
			cctx, cancel := context.WithTimeout(ctx, 60*time.Second)
			defer cancel()
			_, _, ierr = e.Exec(cctx, nil, "INSERT INTO b (id, v) VALUES (@id, @v)", map[string]interface{}{"id": int64(k + 1), "v": v})
		})
		res.Evaluations++
		res.Count("boundary-commit:"+field, 1)
		if p || h || errors.Is(ierr, context.DeadlineExceeded) {
			res.Violate(fmt.Sprintf("sql.engine:roundtrip:commit-or-read-back-hangs:%s:%s", field, cls), fmt.Sprintf("INSERT of a %s of length class %s panics or does not return: %v %s", t, cls, ierr, strings.SplitN(msg, "\n", 2)[0]), replay)
			return
		}
		if b.Expect == "refuse" {
			verdictRefuse("sql.engine.INSERT", field, cls, ierr == nil, replay)
			if ierr != nil {
				continue
			}
		} else if ierr != nil {
			res.Violate(fmt.Sprintf("sql.engine.INSERT:refuses-valid-value:%s:%s", field, cls), ierr.Error(), replay)
			continue
		}
		read := func(q string, params map[string]interface{}, wantType string, want interface{}) error {
			rd, err := e.Query(ctx, nil, q, params)
			if err != nil {
				return err
			}
			defer rd.Close()
			row, err := rd.Read(ctx)
			if err != nil {
				return err
			}
			if !rawEqual(wantType, row.ValuesByPosition[0].RawValue(), want) {
				return fmt.Errorf("read back %s", show(wantType, row.ValuesByPosition[0].RawValue()))
			}
			return nil
		}
		ok := step("sql.engine.SELECT-by-pk", "decode", field, cls, 60*time.Second, replay, func() error {
			return read("SELECT v FROM b WHERE id = @id", map[string]interface{}{"id": int64(k + 1)}, t, v)
		})
		if indexed && ok {
			ok = step("sql.engine.SELECT-through-index", "decode", field, cls, 60*time.Second, replay, func() error {
				return read("SELECT id FROM b USE INDEX ON (v) WHERE v = @v", map[string]interface{}{"v": v}, "INTEGER", int64(k+1))
			})
		}
		if ok && b.Expect == "roundtrip" {
			res.Count("boundary-ok:sql:"+field+":"+cls, 1)
		}
	}
}

// ---------------------------------------------------------------- document level

func boundsDoc(field string, bs []boundRec, dir string) {
	ctx := context.Background()
	pairSeq++
	st, err := store.Open(filepath.Join(dir, fmt.Sprintf("bounds-doc-%d", pairSeq)), store.DefaultOptions().WithSynced(false).WithMultiIndexing(true))
	vh.Must(err, "open doc bounds store")
	defer closeAll(st)
	e, err := document.NewEngine(st, document.DefaultOptions())
	vh.Must(err, "document.NewEngine")
	if !step("document.CreateCollection", "encode", field, "create", 60*time.Second, nil, func() error {
		return e.CreateCollection(ctx, "admin", "bcoll", "", []*protomodel.Field{{Name: "s", Type: protomodel.FieldType_STRING}, {Name: "n", Type: protomodel.FieldType_INTEGER}},
			[]*protomodel.Index{{Fields: []string{"s"}}})
	}) {
		return
	}
	for k, b := range bs {
		cls := b.Len
		s := strings.Repeat(string(rune('a'+k)), lenOf(cls, maxDocFieldLen))
		replay := map[string]interface{}{"field": field, "length": cls, "max": maxDocFieldLen}
		note("bound", field, cls)
		var ierr error
		p, h, msg := vh.Guard(90*time.Second, func() {
			cctx, cancel := context.WithTimeout(ctx, 60*time.Second)
			defer cancel()
			_, _, ierr = e.InsertDocument(cctx, "admin", "bcoll", &structpb.Struct{Fields: map[string]*structpb.Value{"s": structpb.NewStringValue(s), "n": structpb.NewNumberValue(float64(k))}})
		})
		res.Evaluations++
		res.Count("boundary-commit:"+field, 1)
		if p || h || errors.Is(ierr, context.DeadlineExceeded) {
			res.Violate(fmt.Sprintf("document.InsertDocument:roundtrip:commit-or-read-back-hangs:%s:%s", field, cls), fmt.Sprintf("inserting a document whose indexed string field has length class %s panics or does not return: %v %s", cls, ierr, strings.SplitN(msg, "\n", 2)[0]), replay)
			return
		}
		if b.Expect == "refuse" {
			verdictRefuse("document.InsertDocument", field, cls, ierr == nil, replay)
			if ierr != nil {
				continue
			}
		} else if ierr != nil {
			res.Violate(fmt.Sprintf("document.InsertDocument:refuses-valid-value:%s:%s", field, cls), ierr.Error(), replay)
			continue
		}
		ok := step("document.GetDocuments", "decode", field, cls, 60*time.Second, replay, func() error {
			rd, err := e.GetDocuments(ctx, &protomodel.Query{CollectionName: "bcoll", Expressions: []*protomodel.QueryExpression{{FieldComparisons: []*protomodel.FieldComparison{
				{Field: "s", Operator: protomodel.ComparisonOperator_EQ, Value: structpb.NewStringValue(s)}}}}}, 0)
			if err != nil {
				return err
			}
			defer rd.Close()
			d, err := rd.Read(ctx)
			if err != nil {
				return err
			}
			if got := d.Document.Fields["s"].GetStringValue(); got != s {
				return fmt.Errorf("read back a string of %d bytes, stored %d", len(got), len(s))
			}
			return nil
		})
		if ok && b.Expect == "roundtrip" {
			res.Count("boundary-ok:doc:"+field+":"+cls, 1)
		}
	}
}
