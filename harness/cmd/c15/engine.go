package main

import (
	"context"
	"errors"
	"fmt"
	"path/filepath"
	"strings"
	"time"

	"github.com/google/uuid"

	"github.com/codenotary/immudb/embedded/sql"
	"github.com/codenotary/immudb/embedded/store"

	"verifharness/vh"
)

// Engine mode: the same abstract values go through a real SQL engine.
//  - rows: one table with a column per type; every NULL / lo / hi presence pattern enumerated by TLC is
//    inserted and read back (row value codec with NULLs);
//  - index order: one table per type with an index on the value column; all values of the type are
//    inserted and read back through the index (ORDER BY v, ascending and descending): the sequence of
//    values must follow the SQL order printed by TLC; an equality predicate served by the index must
//    find exactly the SQL-equal values.

func param(t string, raw interface{}) interface{} {
	if u, ok := raw.(uuid.UUID); ok {
		return u.String()
	}
	return raw
}

func sqlTypeDecl(t string, maxLen int) string {
	switch t {
	case "VARCHAR", "BLOB":
		return fmt.Sprintf("%s[%d]", t, maxLen)
	}
	return t
}

func execAll(ctx context.Context, e *sql.Engine, stmt string, params map[string]interface{}) error {
	_, _, err := e.Exec(ctx, nil, stmt, params)
	return err
}

func runEngine(cf *casesFile, dir string) {
	ctx, cancel := context.WithTimeout(context.Background(), 10*time.Minute)
	defer cancel()
	st, err := store.Open(filepath.Join(dir, "sqlstore"), store.DefaultOptions().WithSynced(false).WithMultiIndexing(true))
	vh.Must(err, "open sqlstore")
	defer closeAll(st)
	e, err := sql.NewEngine(st, sql.DefaultOptions().WithPrefix([]byte("sql")))
	vh.Must(err, "sql.NewEngine")

	guardFor(10*time.Minute, "sql.engine:rows", func() { runRows(ctx, e, cf) })
	guardFor(10*time.Minute, "sql.engine:index-order", func() { runIndexOrder(ctx, e, cf) })
}

func rowRep(t, which string) interface{} {
	c := newConc(0)
	pick := func(cls string, k int, n int) interface{} { return c.members(t, cls, n)[k-1] }
	switch which {
	case "NULL":
		return nil
	case "lo":
		switch t {
		case "INTEGER":
			return pick("min", 1, 1)
		case "FLOAT":
			return pick("-inf", 1, 1)
		case "TIMESTAMP":
			return pick("farpast", 1, 2)
		case "UUID":
			return pick("zero", 1, 1)
		case "BOOLEAN":
			return false
		case "VARCHAR":
			return ""
		case "BLOB":
			return []byte{}
		}
	case "hi":
		switch t {
		case "INTEGER":
			return pick("max", 1, 1)
		case "FLOAT":
			return pick("+max", 1, 1)
		case "TIMESTAMP":
			return pick("farfuture", 2, 2)
		case "UUID":
			return pick("max", 1, 1)
		case "BOOLEAN":
			return true
		case "VARCHAR":
			return strings.Repeat("\x7f", 256)
		case "BLOB":
			b := make([]byte, 256)
			for i := range b {
				b[i] = 0xff
			}
			return b
		}
	}
	vh.Fatalf("rowRep %s %s", t, which)
	return nil
}

func runRows(ctx context.Context, e *sql.Engine, cf *casesFile) {
	var cols, names, ph []string
	for i, t := range cf.RowTypes {
		n := fmt.Sprintf("c%d", i)
		cols = append(cols, n+" "+sqlTypeDecl(t, 256))
		names = append(names, n)
		ph = append(ph, "@"+n)
	}
	if !step("sql.engine", "encode", "rows-table", "create", 60*time.Second, nil, func() error {
		return execAll(ctx, e, "CREATE TABLE rowst (id INTEGER, "+strings.Join(cols, ", ")+", PRIMARY KEY id)", nil)
	}) {
		return
	}
	ins := "INSERT INTO rowst (id, " + strings.Join(names, ", ") + ") VALUES (@id, " + strings.Join(ph, ", ") + ")"
	const batch = 150
	for lo := 0; lo < len(cf.Rows); lo += batch {
		var tx *sql.SQLTx
		if !step("sql.engine", "encode", "rows-table", "begin", 60*time.Second, nil, func() error { x, _, err := e.Exec(ctx, nil, "BEGIN TRANSACTION", nil); tx = x; return err }) {
			return
		}
		for k := lo; k < lo+batch && k < len(cf.Rows); k++ {
			params := map[string]interface{}{"id": int64(k + 1)}
			for i, t := range cf.RowTypes {
				params[fmt.Sprintf("c%d", i)] = param(t, rowRep(t, cf.Rows[k].Cols[i]))
			}
			ntx, _, err := e.Exec(ctx, tx, ins, params)
			if err != nil {
				res.Violate("sql.engine:row-insert-refused", fmt.Sprintf("row pattern %v: %v", cf.Rows[k].Cols, err), cf.Rows[k])
				continue
			}
			tx = ntx
		}
		if !step("sql.engine", "encode", "rows-table", "commit", 120*time.Second, nil, func() error { _, _, err := e.Exec(ctx, tx, "COMMIT", nil); return err }) {
			return
		}
	}
	readBack := func(query, law string) {
		var rd sql.RowReader
		if !step("sql.engine", "decode", "rows-table", law, 60*time.Second, nil, func() error { x, err := e.Query(ctx, nil, query, nil); rd = x; return err }) {
			return
		}
		defer rd.Close()
		seen := 0
		for {
			row, err := rd.Read(ctx)
			if errors.Is(err, sql.ErrNoMoreRows) {
				break
			}
			if err != nil {
				res.Violate("sql.engine:roundtrip:decoder-rejects-encoder-output:rows-table:"+law, fmt.Sprintf("%s: reading back the inserted rows fails after %d rows: %v", query, seen, err), nil)
				return
			}
			id := int(row.ValuesByPosition[0].RawValue().(int64))
			rec := cf.Rows[id-1]
			seen++
			res.Evaluations++
			res.Count(law, 1)
			note(law, strings.Join(rec.Cols, ","))
			for i, t := range cf.RowTypes {
				want := rowRep(t, rec.Cols[i])
				got := row.ValuesByPosition[i+1].RawValue()
				if !rawEqual(t, got, want) {
					cls := rec.Cols[i]
					if (t == "VARCHAR" || t == "BLOB") && cls == "lo" {
						cls = "empty"
					}
					res.Violate(fmt.Sprintf("sql.engine:%s:%s:%s", law, t, cls),
						fmt.Sprintf("%s: row %d pattern %v: column %d (%s) stored %s, read back %s", query, id, rec.Cols, i, t, show(t, want), show(t, got)), rec)
				}
			}
			if seen%500 == 1 {
				res.Sample(map[string]interface{}{"row": rec.Cols}, 12)
			}
		}
		if seen != len(cf.Rows) {
			res.Violate("sql.engine:"+law+":row-count", fmt.Sprintf("%d rows read back, %d inserted", seen, len(cf.Rows)), nil)
		}
	}
	sel := "SELECT id, " + strings.Join(names, ", ") + " FROM rowst"
	readBack(sel, "row-roundtrip")
	// more rows than the default sort buffer (1024) ordered by a column without index: the rows travel
	// through the sort spill files (EncodeNullableValue / DecodeNullableValue)
	readBack(sel+" ORDER BY c1", "row-roundtrip-through-sort-files")
}

type idxVal struct {
	raw  interface{}
	cls  string
	rank [2]int // (rank, k) for scalars; index in the sorted list for strings
}

func runIndexOrder(ctx context.Context, e *sql.Engine, cf *casesFile) {
	type tbl struct {
		t     string
		vals  []idxVal
		pairs [][3]int
		decl  string
	}
	var tbls []tbl
	for _, s := range cf.Scalars {
		mem := membersOf(s.Vals)
		c := newConc(0)
		tb := tbl{t: s.T, pairs: s.Pairs, decl: s.T}
		for _, av := range s.Vals {
			tb.vals = append(tb.vals, idxVal{raw: c.scalar(s.T, av, mem), cls: av.C})
		}
		tbls = append(tbls, tb)
	}
	sv := strVariants(cf.Strings.MaxLen, 1)[0]
	for _, t := range []string{"VARCHAR", "BLOB"} {
		tb := tbl{t: t, pairs: cf.Strings.Pairs, decl: sqlTypeDecl(t, sv.maxLen)}
		for _, v := range cf.Strings.Vals[:cf.Strings.Nvalid] {
			tb.vals = append(tb.vals, idxVal{raw: sv.raw(t, v), cls: strCls(v)})
		}
		tbls = append(tbls, tb)
	}
	for _, tb := range tbls {
		name := "ix_" + strings.ToLower(tb.t)
		if !step("sql.engine", "encode", tb.t, "create-table-and-index", 60*time.Second, nil, func() error {
			if err := execAll(ctx, e, fmt.Sprintf("CREATE TABLE %s (id INTEGER, v %s, PRIMARY KEY id)", name, tb.decl), nil); err != nil {
				return err
			}
			return execAll(ctx, e, fmt.Sprintf("CREATE INDEX ON %s (v)", name), nil)
		}) {
			continue
		}
		n := len(tb.vals)
		rel := make([][]int, n)
		for i := range rel {
			rel[i] = make([]int, n)
		}
		for _, p := range tb.pairs {
			rel[p[0]-1][p[1]-1] = p[2]
		}
		bad := make([]bool, n) // the value's own key round trip is broken (reported by the pure mode)
		for i, v := range tb.vals {
			ml := fixedMaxLen(tb.t)
			if ml == 0 {
				ml = sv.maxLen
			}
			guard("sql.key:"+tb.t, func() {
				enc, _, err := sql.EncodeRawValueAsKey(v.raw, sqlType(tb.t), ml)
				if err != nil {
					bad[i] = true
					return
				}
				dv, _, err := sql.DecodeValueFromKey(enc, sqlType(tb.t), ml)
				bad[i] = err != nil || !rawEqual(tb.t, dv.RawValue(), v.raw)
			})
		}
		var tx *sql.SQLTx
		if !step("sql.engine", "encode", tb.t, "begin", 60*time.Second, nil, func() error { x, _, err := e.Exec(ctx, nil, "BEGIN TRANSACTION", nil); tx = x; return err }) {
			continue
		}
		inserted := make([]bool, n)
		// insertion order is a seeded permutation so that the index, not the insertion order, sorts
		perm := permutation(n, seed)
		for _, i := range perm {
			ntx, _, err := e.Exec(ctx, tx, fmt.Sprintf("INSERT INTO %s (id, v) VALUES (@id, @v)", name), map[string]interface{}{"id": int64(i + 1), "v": param(tb.t, tb.vals[i].raw)})
			if err != nil {
				res.Violate(fmt.Sprintf("sql.engine:index-insert-refused:%s:%s", tb.t, tb.vals[i].cls), fmt.Sprintf("%s: insert of %s failed: %v", tb.t, show(tb.t, tb.vals[i].raw), err), nil)
				continue
			}
			tx = ntx
			inserted[i] = true
		}
		if !step("sql.engine", "encode", tb.t, "commit", 120*time.Second, nil, func() error { _, _, err := e.Exec(ctx, tx, "COMMIT", nil); return err }) {
			continue
		}

		for _, dir := range []string{"ASC", "DESC"} {
			var rd sql.RowReader
			if !step("sql.engine", "decode", tb.t, "index-scan-"+dir, 60*time.Second, nil, func() error {
				x, err := e.Query(ctx, nil, fmt.Sprintf("SELECT id, v FROM %s USE INDEX ON (v) ORDER BY v %s", name, dir), nil)
				rd = x
				return err
			}) {
				continue
			}
			var ids []int
			for {
				row, err := rd.Read(ctx)
				if errors.Is(err, sql.ErrNoMoreRows) {
					break
				}
				if err != nil {
					res.Violate("sql.engine:roundtrip:decoder-rejects-encoder-output:"+tb.t+":index-scan-"+dir, fmt.Sprintf("%s: reading the inserted values back through the index fails after %d rows: %v", tb.t, len(ids), err), nil)
					break
				}
				id := int(row.ValuesByPosition[0].RawValue().(int64)) - 1
				ids = append(ids, id)
				got := row.ValuesByPosition[1].RawValue()
				res.Evaluations++
				if !rawEqual(tb.t, got, tb.vals[id].raw) {
					res.Violate(fmt.Sprintf("sql.engine:indexed-row-roundtrip:%s:%s", tb.t, tb.vals[id].cls), fmt.Sprintf("%s: stored %s, read back %s", tb.t, show(tb.t, tb.vals[id].raw), show(tb.t, got)), nil)
				}
			}
			rd.Close()
			res.Count("index-scan:"+tb.t+":"+dir, len(ids))
			want := 0
			for _, ok := range inserted {
				if ok {
					want++
				}
			}
			if len(ids) != want {
				res.Violate("sql.engine:index-scan-count:"+tb.t, fmt.Sprintf("%s %s: %d rows through the index, %d inserted", tb.t, dir, len(ids), want), nil)
			}
			sign := 1
			if dir == "DESC" {
				sign = -1
			}
			for q := 1; q < len(ids); q++ {
				a, b := ids[q-1], ids[q]
				res.Evaluations++
				if rel[a][b]*sign > 0 {
					sig := fmt.Sprintf("sql.engine:index-order:%s:%s", tb.t, pairName(tb.vals[a].cls, tb.vals[b].cls))
					if bad[a] {
						sig = fmt.Sprintf("sql.engine:index-order:%s:key-roundtrip-broken:%s", tb.t, tb.vals[a].cls)
					} else if bad[b] {
						sig = fmt.Sprintf("sql.engine:index-order:%s:key-roundtrip-broken:%s", tb.t, tb.vals[b].cls)
					}
					res.Violate(sig,
						fmt.Sprintf("%s ORDER BY v %s through the index returns %s before %s (SQL relation %d)", tb.t, dir, show(tb.t, tb.vals[a].raw), show(tb.t, tb.vals[b].raw), rel[a][b]), nil)
				}
			}
		}
		// equality served by the index
		for i, v := range tb.vals {
			if v.raw == nil || !inserted[i] {
				continue
			}
			want := 0
			for j := range tb.vals {
				if inserted[j] && tb.vals[j].raw != nil && rel[i][j] == 0 {
					want++
				}
			}
			rd, err := e.Query(ctx, nil, fmt.Sprintf("SELECT id FROM %s USE INDEX ON (v) WHERE v = @v", name), map[string]interface{}{"v": param(tb.t, v.raw)})
			if err != nil {
				res.Violate(fmt.Sprintf("sql.engine:index-equality-error:%s:%s", tb.t, v.cls), err.Error(), nil)
				continue
			}
			got := 0
			for {
				_, err := rd.Read(ctx)
				if errors.Is(err, sql.ErrNoMoreRows) {
					break
				}
				if err != nil {
					res.Violate(fmt.Sprintf("sql.engine:index-equality-error:%s:%s", tb.t, v.cls), err.Error(), nil)
					break
				}
				got++
			}
			rd.Close()
			res.Evaluations++
			res.Count("index-eq:"+tb.t, 1)
			if got != want {
				res.Violate(fmt.Sprintf("sql.engine:index-equality:%s:%s", tb.t, v.cls),
					fmt.Sprintf("%s: WHERE v = %s through the index finds %d rows, %d rows hold an SQL-equal value", tb.t, show(tb.t, v.raw), got, want), nil)
			}
		}
	}
}

func permutation(n int, seed int64) []int {
	p := make([]int, n)
	for i := range p {
		p[i] = i
	}
	for i := n - 1; i > 0; i-- {
		b := vh.Bytes(seed, "perm", i, 4)
		j := int(uint32(b[0])<<24|uint32(b[1])<<16|uint32(b[2])<<8|uint32(b[3])) % (i + 1)
		p[i], p[j] = p[j], p[i]
	}
	return p
}
