// c15: replays the TLC-enumerated codec cases (spec/Codec.tla) on the real encoders/decoders:
// embedded/sql key and value codecs, embedded/store TxHeader / TxMetadata / KVMetadata,
// ExportTx -> ReplicateTx framing via real stores, pkg/api/schema converters, and (engine mode)
// a real SQL engine with one indexed column per type.
//
// The oracle is thin: TLC prints the abstract values and the expected relation of every pair/triple;
// this program only maps an abstract value to concrete Go values (several per class: representatives
// plus seed-random members), runs the real functions and compares.
package main

import (
	"bytes"
	"context"
	"errors"
	"flag"
	"fmt"
	"math"
	"math/rand"
	"sort"
	"strings"
	"time"

	"github.com/google/uuid"

	"github.com/codenotary/immudb/embedded/sql"

	"verifharness/vh"
)

// ---------------------------------------------------------------- case file (written by TLC)

type absVal struct {
	C string // class
	R int    // rank
	K int    // member index inside a sampled class
}

type scalarRec struct {
	T     string
	Vals  []absVal
	Pairs [][3]int
}

type strVal struct {
	Null  bool
	S     []int
	Valid bool
}

type stringsRec struct {
	MaxLen int
	Vals   []strVal
	Nvalid int
	Pairs  [][3]int
}

type compositeRec struct {
	Cols    []string
	Colvals [][]map[string]interface{} // absVal or strVal, decoded per column type
	Tuples  [][]int
	Pairs   [][3]int
	Triples [][6]int
}

type txmdRec struct{ Trunc, Extra string }
type kvmdRec struct {
	Deleted      bool
	Expires      string
	NonIndexable bool
}
type hdrRec struct {
	H struct {
		Ver      int
		Md       txmdRec
		Nentries string
		Id       string
		Bl       string
		Ts       string
	}
	Expect string
}
type expEntry struct {
	Klen, Vlen string
	Md         kvmdRec
}
type exportRec struct {
	Entries   []expEntry
	Extra     string
	Truncated bool
}
type rowRec struct{ Cols []string }

type boundRec struct{ Field, Len, Expect string }

type casesFile struct {
	Bounds     []boundRec
	MaxLen     int
	Scalars    []scalarRec
	Strings    stringsRec
	Composites []compositeRec
	Txmd       []txmdRec
	Kvmd       []kvmdRec
	Hdrs       []hdrRec
	Exports    []exportRec
	RowTypes   []string
	Rows       []rowRec
}

// ---------------------------------------------------------------- globals

var (
	res      *vh.Result
	seed     int64
	selftest bool
	distinct = map[string]struct{}{}
)

func note(kind string, parts ...interface{}) {
	distinct[kind+"|"+fmt.Sprint(parts...)] = struct{}{}
}

func sqlType(t string) sql.SQLValueType {
	switch t {
	case "INTEGER":
		return sql.IntegerType
	case "FLOAT":
		return sql.Float64Type
	case "TIMESTAMP":
		return sql.TimestampType
	case "UUID":
		return sql.UUIDType
	case "BOOLEAN":
		return sql.BooleanType
	case "VARCHAR":
		return sql.VarcharType
	case "BLOB":
		return sql.BLOBType
	}
	vh.Fatalf("unknown type %s", t)
	return ""
}

func fixedMaxLen(t string) int {
	switch t {
	case "INTEGER", "FLOAT", "TIMESTAMP":
		return 8
	case "UUID":
		return 16
	case "BOOLEAN":
		return 1
	}
	return 0
}

// ---------------------------------------------------------------- concretisation of scalar classes

// sortedMembers draws n members with gen and returns them in increasing order (less), all distinct.
func sortedU64(rng *rand.Rand, n int, lo, hi uint64) []uint64 {
	for {
		out := make([]uint64, n)
		for i := range out {
			out[i] = lo + uint64(rng.Int63n(int64(hi-lo)))
		}
		sort.Slice(out, func(i, j int) bool { return out[i] < out[j] })
		ok := true
		for i := 1; i < n; i++ {
			if out[i] == out[i-1] {
				ok = false
			}
		}
		if ok {
			return out
		}
	}
}

// concretiser returns the concrete raw value of abstract value (class, k) for one variant.
// variant 0 uses fixed representatives, variants > 0 use the seeded rng.
type concretiser struct {
	variant int
	rng     *rand.Rand
	memo    map[string][]interface{}
}

func newConc(variant int) *concretiser {
	return &concretiser{variant: variant, rng: rand.New(rand.NewSource(seed*1000003 + int64(variant))), memo: map[string][]interface{}{}}
}

func (c *concretiser) members(t, cls string, n int) []interface{} {
	key := t + "/" + cls
	if m, ok := c.memo[key]; ok {
		return m
	}
	m := c.gen(t, cls, n)
	if len(m) != n {
		vh.Fatalf("concretiser: %s has %d members, want %d", key, len(m), n)
	}
	c.memo[key] = m
	return m
}

func ival(xs ...int64) []interface{} {
	out := make([]interface{}, len(xs))
	for i, x := range xs {
		out[i] = x
	}
	return out
}
func fval(xs ...float64) []interface{} {
	out := make([]interface{}, len(xs))
	for i, x := range xs {
		out[i] = x
	}
	return out
}

// ts builds a microsecond-precision UTC time from unix microseconds.
func tsMicro(us int64) time.Time {
	sec := us / 1e6
	rem := us % 1e6
	if rem < 0 {
		rem += 1e6
		sec--
	}
	return time.Unix(sec, rem*1e3).UTC()
}

func (c *concretiser) gen(t, cls string, n int) []interface{} {
	r := c.rng
	fixed := c.variant == 0
	switch t {
	case "INTEGER":
		switch cls {
		case "min":
			return ival(math.MinInt64)
		case "min+1":
			return ival(math.MinInt64 + 1)
		case "neg":
			if fixed {
				return ival(-1<<62, -1<<32, -256)
			}
			u := sortedU64(r, n, 3, math.MaxInt64-1) // -(u) in [min+2, -3]
			return ival(-int64(u[2]), -int64(u[1]), -int64(u[0]))
		case "-2":
			return ival(-2)
		case "-1":
			return ival(-1)
		case "0":
			return ival(0)
		case "1":
			return ival(1)
		case "2":
			return ival(2)
		case "pos":
			if fixed {
				return ival(255, 1<<32, 1<<62)
			}
			u := sortedU64(r, n, 3, math.MaxInt64-1)
			return ival(int64(u[0]), int64(u[1]), int64(u[2]))
		case "max-1":
			return ival(math.MaxInt64 - 1)
		case "max":
			return ival(math.MaxInt64)
		}
	case "FLOAT":
		fb := math.Float64frombits
		const minNormalBits = 0x0010000000000000
		const maxDenBits = 0x000FFFFFFFFFFFFF
		oneBits := math.Float64bits(1)
		maxBits := math.Float64bits(math.MaxFloat64)
		neg := func(xs []uint64) []interface{} { // positive bit patterns ascending -> negative floats ascending
			out := make([]interface{}, len(xs))
			for i, x := range xs {
				out[len(xs)-1-i] = -fb(x)
			}
			return out
		}
		pos := func(xs []uint64) []interface{} {
			out := make([]interface{}, len(xs))
			for i, x := range xs {
				out[i] = fb(x)
			}
			return out
		}
		pick := func(lo, hi uint64, reps []uint64) []uint64 { // members in the open bit interval (lo, hi)
			if fixed {
				return reps
			}
			return sortedU64(r, n, lo+1, hi)
		}
		switch cls {
		case "-inf":
			return fval(math.Inf(-1))
		case "-max":
			return fval(-math.MaxFloat64)
		case "neg":
			return neg(pick(oneBits, maxBits, []uint64{math.Float64bits(1.5), math.Float64bits(1e10), math.Float64bits(1e300)}))
		case "-1":
			return fval(-1)
		case "negfrac":
			return neg(pick(minNormalBits, oneBits, []uint64{math.Float64bits(1e-300), math.Float64bits(0.5)}))
		case "-minnormal":
			return fval(-fb(minNormalBits))
		case "-maxdenormal":
			return fval(-fb(maxDenBits))
		case "negdenormal":
			return neg(pick(1, maxDenBits, []uint64{2, 1 << 51}))
		case "-mindenormal":
			return fval(-fb(1))
		case "-0":
			return fval(math.Copysign(0, -1))
		case "+0":
			return fval(0)
		case "+mindenormal":
			return fval(fb(1))
		case "posdenormal":
			return pos(pick(1, maxDenBits, []uint64{2, 1 << 51}))
		case "+maxdenormal":
			return fval(fb(maxDenBits))
		case "+minnormal":
			return fval(fb(minNormalBits))
		case "posfrac":
			return pos(pick(minNormalBits, oneBits, []uint64{math.Float64bits(1e-300), math.Float64bits(0.5)}))
		case "+1":
			return fval(1)
		case "pos":
			return pos(pick(oneBits, maxBits, []uint64{math.Float64bits(1.5), math.Float64bits(1e10), math.Float64bits(1e300)}))
		case "+max":
			return fval(math.MaxFloat64)
		case "+inf":
			return fval(math.Inf(1))
		}
	case "TIMESTAMP":
		// microseconds since the epoch; the int64-nanosecond range is [minNs/1000 rounded up, maxNs/1000]
		const minNsUs = math.MinInt64/1000 + 1
		const maxNsUs = math.MaxInt64 / 1000
		yr := func(y int) int64 { return time.Date(y, 1, 1, 0, 0, 0, 0, time.UTC).Unix() * 1e6 }
		tsv := func(xs ...int64) []interface{} {
			out := make([]interface{}, len(xs))
			for i, x := range xs {
				out[i] = tsMicro(x)
			}
			return out
		}
		rnd := func(lo, hi int64, reps []int64) []interface{} {
			if fixed {
				return tsv(reps...)
			}
			u := sortedU64(r, n, 0, uint64(hi-lo))
			xs := make([]int64, n)
			for i := range u {
				xs[i] = lo + int64(u[i])
			}
			return tsv(xs...)
		}
		switch cls {
		case "farpast":
			return rnd(yr(1), yr(1677), []int64{yr(1000), yr(1600) + 123456})
		case "minns":
			return tsv(minNsUs)
		case "pre1970":
			return rnd(minNsUs+1, -1000001, []int64{yr(1700) + 1, yr(1900) + 999999, yr(1969) + 500000})
		case "epoch-1s":
			return tsv(-1000000)
		case "epoch-1us":
			return tsv(-1)
		case "epoch":
			return tsv(0)
		case "epoch+1us":
			return tsv(1)
		case "epoch+1s":
			return tsv(1000000)
		case "post1970us":
			return rnd(1000001, maxNsUs-1, []int64{yr(2001) + 1, yr(2024) + 123456, yr(2200) + 999999})
		case "maxns":
			return tsv(maxNsUs)
		case "farfuture":
			return rnd(yr(2263), yr(9999), []int64{yr(3000), yr(9000) + 654321})
		}
	case "UUID":
		mk := func(hi, lo uint64) uuid.UUID {
			var u uuid.UUID
			for i := 0; i < 8; i++ {
				u[i] = byte(hi >> (56 - 8*i))
				u[8+i] = byte(lo >> (56 - 8*i))
			}
			return u
		}
		uv := func(us ...uuid.UUID) []interface{} {
			out := make([]interface{}, len(us))
			for i, u := range us {
				out[i] = u
			}
			return out
		}
		rnd := func(lo, hi uint64, reps []uint64) []interface{} {
			his := reps
			if !fixed {
				his = sortedU64(r, n, lo+1, hi)
			}
			out := make([]uuid.UUID, len(his))
			for i, h := range his {
				l := uint64(0x0123456789abcdef)
				if !fixed {
					l = r.Uint64()
				}
				out[i] = mk(h, l)
			}
			return uv(out...)
		}
		switch cls {
		case "zero":
			return uv(mk(0, 0))
		case "one":
			return uv(mk(0, 1))
		case "low":
			return rnd(0, 0x7fffffffffffffff, []uint64{1, 0x0100000000000000, 0x7f00000000000000})
		case "7fff":
			return uv(mk(0x7fffffffffffffff, math.MaxUint64))
		case "8000":
			return uv(mk(0x8000000000000000, 0))
		case "high":
			return rnd(0x8000000000000000, 0xfffffffffffffffe, []uint64{0x8000000000000001, 0xc000000000000000, 0xff00000000000000})
		case "max-1":
			return uv(mk(math.MaxUint64, math.MaxUint64-1))
		case "max":
			return uv(mk(math.MaxUint64, math.MaxUint64))
		}
	case "BOOLEAN":
		switch cls {
		case "false":
			return []interface{}{false}
		case "true":
			return []interface{}{true}
		}
	}
	vh.Fatalf("concretiser: unknown class %s/%s (Codec.tla and cmd/c15 disagree)", t, cls)
	return nil
}

func (c *concretiser) scalar(t string, v absVal, members map[string]int) interface{} {
	if v.C == "NULL" {
		return nil
	}
	return c.members(t, v.C, members[v.C])[v.K-1]
}

// symbol map and repetition of one string variant
type strVariant struct {
	name   string
	syms   [3]byte
	rep    int
	maxLen int
}

func (sv strVariant) bytes(v strVal) []byte {
	out := make([]byte, 0, len(v.S)*sv.rep)
	for _, s := range v.S {
		for i := 0; i < sv.rep; i++ {
			out = append(out, sv.syms[s])
		}
	}
	return out
}

func (sv strVariant) raw(t string, v strVal) interface{} {
	if v.Null {
		return nil
	}
	b := sv.bytes(v)
	if t == "VARCHAR" {
		return string(b)
	}
	return b
}

// ---------------------------------------------------------------- helpers around the real codecs

func rawEqual(t string, a, b interface{}) bool {
	if a == nil || b == nil {
		return a == nil && b == nil
	}
	switch t {
	case "FLOAT":
		x, ok1 := a.(float64)
		y, ok2 := b.(float64)
		return ok1 && ok2 && math.Float64bits(x) == math.Float64bits(y)
	case "TIMESTAMP":
		x, ok1 := a.(time.Time)
		y, ok2 := b.(time.Time)
		return ok1 && ok2 && x.Equal(y)
	case "BLOB":
		x, ok1 := a.([]byte)
		y, ok2 := b.([]byte)
		return ok1 && ok2 && bytes.Equal(x, y)
	case "UUID":
		x, ok1 := a.(uuid.UUID)
		y, ok2 := b.(uuid.UUID)
		return ok1 && ok2 && x == y
	}
	return a == b
}

func show(t string, raw interface{}) string {
	switch x := raw.(type) {
	case nil:
		return "NULL"
	case float64:
		return fmt.Sprintf("%g(bits %016x)", x, math.Float64bits(x))
	case time.Time:
		return x.Format(time.RFC3339Nano)
	case []byte:
		if len(x) > 24 {
			return fmt.Sprintf("x'%x..'(len %d)", x[:24], len(x))
		}
		return fmt.Sprintf("x'%x'", x)
	case string:
		if len(x) > 24 {
			return fmt.Sprintf("%q..(len %d)", x[:24], len(x))
		}
		return fmt.Sprintf("%q", x)
	}
	return fmt.Sprint(raw)
}

// typed builds the engine's TypedValue for a raw value (Timestamp has no public constructor:
// it is obtained by decoding the row-value encoding, whose round trip is checked separately).
func typed(t string, raw interface{}) (sql.TypedValue, error) {
	if raw == nil {
		return sql.NewNull(sqlType(t)), nil
	}
	switch t {
	case "INTEGER":
		return sql.NewInteger(raw.(int64)), nil
	case "FLOAT":
		return sql.NewFloat64(raw.(float64)), nil
	case "UUID":
		return sql.NewUUID(raw.(uuid.UUID)), nil
	case "BOOLEAN":
		return sql.NewBool(raw.(bool)), nil
	case "VARCHAR":
		return sql.NewVarchar(raw.(string)), nil
	case "BLOB":
		return sql.NewBlob(raw.([]byte)), nil
	case "TIMESTAMP":
		enc, err := sql.EncodeRawValue(raw, sql.TimestampType, 0, false)
		if err != nil {
			return nil, err
		}
		tv, _, err := sql.DecodeValue(enc, sql.TimestampType)
		return tv, err
	}
	return nil, fmt.Errorf("unknown type %s", t)
}

type encoded struct {
	raw    interface{}
	cls    string
	key    []byte // key encoding, nil if it failed
	keyErr error
	rtOK   bool // every round trip of this value succeeded
	tv     sql.TypedValue
}

// step runs one call of the real code on an in-domain input.  Whatever goes wrong there is a verdict about the
// real code, never a harness fault:
//   kind "encode": the constructor / encoder / commit refuses a value of the domain  -> <codec>:refuses-valid-value:<field>:<class>
//   kind "decode": a decoder / read-back rejects what the encoder or commit accepted  -> <codec>:roundtrip:decoder-rejects-encoder-output:<field>:<class>
//   missed deadline (or the context deadline of the call)                             -> <codec>:roundtrip:commit-or-read-back-hangs:<field>:<class>
func step(codec, kind, field, cls string, d time.Duration, replay interface{}, f func() error) bool {
	var err error
	p, h, msg := vh.Guard(d, func() { err = f() })
	res.Evaluations++
	what := fmt.Sprintf("%s on %s (%s)", codec, field, cls)
	switch {
	case p:
		res.Violate(fmt.Sprintf("%s:panic:%s:%s", codec, field, cls), what+" panics: "+strings.SplitN(msg, "\n", 2)[0], replay)
	case h || errors.Is(err, context.DeadlineExceeded):
		res.Violate(fmt.Sprintf("%s:roundtrip:commit-or-read-back-hangs:%s:%s", codec, field, cls), fmt.Sprintf("%s does not return within %s (%v)", what, d, err), replay)
	case err != nil && kind == "encode":
		res.Violate(fmt.Sprintf("%s:refuses-valid-value:%s:%s", codec, field, cls), what+" is refused: "+err.Error(), replay)
	case err != nil:
		res.Violate(fmt.Sprintf("%s:roundtrip:decoder-rejects-encoder-output:%s:%s", codec, field, cls), what+": what was accepted when written cannot be read back: "+err.Error(), replay)
	default:
		return true
	}
	return false
}

func guard(what string, f func()) bool { return guardFor(60*time.Second, what, f) }

func guardFor(d time.Duration, what string, f func()) bool {
	p, h, msg := vh.Guard(d, f)
	if p || h {
		res.Violate(what+":panic-or-hang", msg, nil)
		return false
	}
	return true
}

// roundTrips runs every single-value law on one concrete value and returns its encodings.
func roundTrips(t string, cls string, raw interface{}, maxLen int, valid bool) *encoded {
	e := &encoded{raw: raw, cls: cls, rtOK: true}
	st := sqlType(t)
	fail := func(codec, law, text string) {
		e.rtOK = false
		res.Violate(fmt.Sprintf("%s:%s:%s:%s", codec, t, law, cls), text, map[string]interface{}{"type": t, "class": cls, "value": show(t, raw), "maxLen": maxLen})
	}
	ok := guard("sql.codec:"+t+":"+cls, func() {
		// ---- key codec
		enc, n, err := sql.EncodeRawValueAsKey(raw, st, maxLen)
		res.Evaluations++
		res.Count("key-encode:"+t, 1)
		e.key, e.keyErr = enc, err
		if !valid {
			if err == nil {
				fail("sql.EncodeRawValueAsKey", "accepts-over-length", fmt.Sprintf("value %s longer than the declared length %d was encoded as a key (n=%d)", show(t, raw), maxLen, n))
			}
			e.rtOK = false
			e.key = nil
			return
		}
		if err != nil {
			fail("sql.EncodeRawValueAsKey", "refuses-valid-value", fmt.Sprintf("%s: %v", show(t, raw), err))
			e.key = nil
		} else {
			dv, consumed, derr := sql.DecodeValueFromKey(enc, st, maxLen)
			res.Evaluations++
			switch {
			case derr != nil:
				fail("sql.DecodeValueFromKey", "roundtrip", fmt.Sprintf("decode of key(%s) failed: %v", show(t, raw), derr))
			case consumed != len(enc):
				fail("sql.DecodeValueFromKey", "roundtrip", fmt.Sprintf("key(%s): consumed %d of %d bytes", show(t, raw), consumed, len(enc)))
			case !rawEqual(t, dv.RawValue(), raw):
				fail("sql.DecodeValueFromKey", "roundtrip", fmt.Sprintf("key round trip of %s gives %s (key %x)", show(t, raw), show(t, dv.RawValue()), clip(enc)))
			}
			// a key followed by other bytes (next column) must decode the same way
			if derr == nil && e.rtOK {
				dv2, c2, err2 := sql.DecodeValueFromKey(append(append([]byte{}, enc...), 0xAA, 0x55), st, maxLen)
				if err2 != nil || c2 != len(enc) || !rawEqual(t, dv2.RawValue(), raw) {
					fail("sql.DecodeValueFromKey", "roundtrip-with-suffix", fmt.Sprintf("key(%s) followed by other bytes: consumed %d err %v", show(t, raw), c2, err2))
				}
			}
		}
		// ---- row value codec (NOT NULL form) and nullable form (sort spill files)
		if raw != nil {
			venc, err := sql.EncodeRawValue(raw, st, maxLen, false)
			res.Evaluations++
			res.Count("value-encode:"+t, 1)
			if err != nil {
				fail("sql.EncodeRawValue", "refuses-valid-value", fmt.Sprintf("%s: %v", show(t, raw), err))
			} else {
				dv, consumed, derr := sql.DecodeValue(venc, st)
				if derr != nil || consumed != len(venc) || !rawEqual(t, dv.RawValue(), raw) {
					got := "error"
					if derr == nil {
						got = show(t, dv.RawValue())
					}
					fail("sql.DecodeValue", "roundtrip", fmt.Sprintf("value round trip of %s gives %s (err %v, consumed %d/%d)", show(t, raw), got, derr, consumed, len(venc)))
				}
			}
		}
		nenc, err := sql.EncodeRawValue(raw, st, maxLen, true)
		res.Evaluations++
		if err != nil {
			fail("sql.EncodeRawValue(nullable)", "refuses-valid-value", fmt.Sprintf("%s: %v", show(t, raw), err))
		} else {
			dv, consumed, derr := sql.DecodeNullableValue(nenc, st)
			if derr != nil || consumed != len(nenc) || !rawEqual(t, dv.RawValue(), raw) {
				got := "error"
				if derr == nil {
					got = show(t, dv.RawValue())
				}
				law := "roundtrip"
				if derr == nil && dv.IsNull() && raw != nil {
					law = "roundtrip-becomes-NULL"
				}
				// the nullable codec is a separate function: it does not taint the key laws of this value
				res.Violate(fmt.Sprintf("sql.DecodeNullableValue:%s:%s:%s", t, law, cls),
					fmt.Sprintf("EncodeRawValue(nullable)/DecodeNullableValue round trip of %s gives %s (err %v)", show(t, raw), got, derr),
					map[string]interface{}{"type": t, "class": cls, "value": show(t, raw)})
			}
		}
		// ---- typed value and its API conversions
		tv, err := typed(t, raw)
		if err != nil {
			fail("sql.TypedValue", "construct", err.Error())
			return
		}
		e.tv = tv
		if !rawEqual(t, tv.RawValue(), raw) {
			fail("sql.TypedValue", "roundtrip", fmt.Sprintf("typed value of %s has raw value %s", show(t, raw), show(t, tv.RawValue())))
		}
		k2, _, err2 := sql.EncodeValueAsKey(tv, st, maxLen)
		if (err2 == nil) != (e.keyErr == nil) || !bytes.Equal(k2, enc) {
			fail("sql.EncodeValueAsKey", "differs-from-raw-encoding", show(t, raw))
		}
		apiRoundTrip(t, cls, raw, tv, fail)
	})
	if !ok {
		e.rtOK = false
	}
	return e
}

func clip(b []byte) []byte {
	if len(b) > 40 {
		return b[:40]
	}
	return b
}

func cmp3(x int) int {
	if x < 0 {
		return -1
	}
	if x > 0 {
		return 1
	}
	return 0
}

func pairName(a, b string) string {
	if a > b {
		a, b = b, a
	}
	return a + "|" + b
}

// pairLaws checks Order / Equality / SQLCmp for one pair.
func pairLaws(t string, a, b *encoded, rel int, variant string) {
	if !a.rtOK || !b.rtOK || a.key == nil || b.key == nil {
		res.Count("pair-skipped-roundtrip-failed:"+t, 1)
		return
	}
	res.Evaluations++
	res.Count("pair:"+t, 1)
	got := cmp3(bytes.Compare(a.key, b.key))
	if got != rel {
		law := "order"
		if rel == 0 {
			law = "equal-values-encode-differently"
		} else if got == 0 {
			law = "distinct-values-encode-identically"
		}
		res.Violate(fmt.Sprintf("sql.EncodeRawValueAsKey:%s:%s:%s", t, law, pairName(a.cls, b.cls)),
			fmt.Sprintf("%s: SQL relation of %s and %s is %d but the key encodings compare %d (%x vs %x) [%s]", t, show(t, a.raw), show(t, b.raw), rel, got, clip(a.key), clip(b.key), variant),
			map[string]interface{}{"type": t, "a": show(t, a.raw), "b": show(t, b.raw), "expected": rel, "bytes": got, "variant": variant})
	}
	if a.tv != nil && b.tv != nil {
		var c int
		var err error
		if guard("sql.Compare:"+t, func() { c, err = a.tv.Compare(b.tv) }) {
			if err != nil || cmp3(c) != rel {
				res.Violate(fmt.Sprintf("sql.TypedValue.Compare:%s:disagrees-with-sql-order:%s", t, pairName(a.cls, b.cls)),
					fmt.Sprintf("%s: Compare(%s, %s) = %d, %v; the specified SQL order says %d", t, show(t, a.raw), show(t, b.raw), c, err, rel),
					map[string]interface{}{"type": t, "a": show(t, a.raw), "b": show(t, b.raw), "expected": rel, "got": c})
			}
		}
	}
}

// ---------------------------------------------------------------- main

func main() {
	casesPath := flag.String("cases", "", "JSON written by TLC from Codec.tla")
	flag.Int64Var(&seed, "seed", 1, "seed")
	dir := flag.String("dir", "", "scratch directory")
	variants := flag.Int("variants", 4, "number of concretisations per class (0 = representatives, others random)")
	mode := flag.String("mode", "all", "all | pure | store | bounds | engine")
	flag.BoolVar(&selftest, "selftest", false, "corrupt one expected relation (binding self-test)")
	flag.Parse()

	var cf casesFile
	vh.ReadJSON(*casesPath, &cf)
	res = vh.NewResult()

	if selftest {
		// INTEGER pair (-1, 0): claim it is '>' instead of '<'
		for si := range cf.Scalars {
			s := &cf.Scalars[si]
			if s.T != "INTEGER" {
				continue
			}
			for pi, p := range s.Pairs {
				if s.Vals[p[0]-1].C == "-1" && s.Vals[p[1]-1].C == "0" {
					s.Pairs[pi][2] = 1
				}
			}
		}
	}

	if *mode == "all" || *mode == "pure" {
		runScalars(&cf, *variants)
		runStrings(&cf, *variants)
		runComposites(&cf, *variants)
		runTxMd(&cf)
		runKvMd(&cf)
		runHdrs(&cf)
	}
	if *mode == "all" || *mode == "store" {
		runExports(&cf, *dir)
	}
	if *mode == "all" || *mode == "bounds" {
		runBounds(&cf, *dir)
	}
	if *mode == "all" || *mode == "engine" {
		runEngine(&cf, *dir)
	}

	res.Distinct = len(distinct)
	res.Emit()
}

func membersOf(vals []absVal) map[string]int {
	m := map[string]int{}
	for _, v := range vals {
		if v.K > m[v.C] {
			m[v.C] = v.K
		}
	}
	return m
}

func runScalars(cf *casesFile, variants int) {
	for _, s := range cf.Scalars {
		mem := membersOf(s.Vals)
		for v := 0; v < variants; v++ {
			c := newConc(v)
			encs := make([]*encoded, len(s.Vals))
			for i, av := range s.Vals {
				raw := c.scalar(s.T, av, mem)
				encs[i] = roundTrips(s.T, av.C, raw, fixedMaxLen(s.T), true)
				note("scalar", s.T, show(s.T, raw))
			}
			for _, p := range s.Pairs {
				pairLaws(s.T, encs[p[0]-1], encs[p[1]-1], p[2], fmt.Sprintf("variant %d", v))
			}
			if v == 0 {
				res.Sample(map[string]interface{}{"type": s.T, "value": show(s.T, encs[len(encs)/2].raw), "key": fmt.Sprintf("%x", encs[len(encs)/2].key)}, 12)
			}
		}
	}
}

func strVariants(maxLen int, variants int) []strVariant {
	rng := rand.New(rand.NewSource(seed*7919 + 17))
	out := []strVariant{
		{"ascii-x1", [3]byte{0x00, 'a', 0x7f}, 1, maxLen},
		{"bytes-x1", [3]byte{0x00, 0x80, 0xff}, 1, maxLen},
	}
	reps := []int{3, 1024 / maxLen} // the largest makes the declared length sql.MaxKeyLen when maxLen divides 1024
	for i := 0; len(out) < variants+1; i++ {
		mid := byte(1 + rng.Intn(0xfe))
		out = append(out, strVariant{fmt.Sprintf("rnd%02x-x%d", mid, reps[i%len(reps)]), [3]byte{0x00, mid, 0xff}, reps[i%len(reps)], maxLen * reps[i%len(reps)]})
	}
	return out
}

func strCls(v strVal) string {
	if v.Null {
		return "NULL"
	}
	if len(v.S) == 0 {
		return "empty"
	}
	var sb strings.Builder
	for _, s := range v.S {
		sb.WriteByte("0m9"[s]) // 0 = NUL, m = middle byte, 9 = highest byte
	}
	return sb.String()
}

func runStrings(cf *casesFile, variants int) {
	st := cf.Strings
	for _, t := range []string{"VARCHAR", "BLOB"} {
		for _, sv := range strVariants(st.MaxLen, variants) {
			encs := make([]*encoded, len(st.Vals))
			for i, v := range st.Vals {
				encs[i] = roundTrips(t, strCls(v), sv.raw(t, v), sv.maxLen, v.Valid)
				note("string", t, sv.name, strCls(v))
			}
			for _, p := range st.Pairs {
				pairLaws(t, encs[p[0]-1], encs[p[1]-1], p[2], sv.name)
			}
		}
	}
	res.Count("string-values", len(st.Vals))
}

// ---------------------------------------------------------------- composite keys

func runComposites(cf *casesFile, variants int) {
	svs := strVariants(cf.Strings.MaxLen, variants)
	for _, ck := range cf.Composites {
		name := strings.Join(ck.Cols, ",")
		for v := 0; v < variants; v++ {
			c := newConc(v)
			sv := svs[v%len(svs)]
			// concrete column values
			colRaw := make([][]interface{}, len(ck.Cols))
			colCls := make([][]string, len(ck.Cols))
			colMax := make([]int, len(ck.Cols))
			for j, t := range ck.Cols {
				colMax[j] = fixedMaxLen(t)
				if t == "VARCHAR" || t == "BLOB" {
					colMax[j] = sv.maxLen
				}
				mem := map[string]int{}
				for _, m := range ck.Colvals[j] {
					if cls, ok := m["c"].(string); ok {
						if k := int(m["k"].(float64)); k > mem[cls] {
							mem[cls] = k
						}
					}
				}
				for _, m := range ck.Colvals[j] {
					if t == "VARCHAR" || t == "BLOB" {
						sval := strVal{Null: m["null"].(bool), Valid: true}
						for _, x := range m["s"].([]interface{}) {
							sval.S = append(sval.S, int(x.(float64)))
						}
						colRaw[j] = append(colRaw[j], sv.raw(t, sval))
						colCls[j] = append(colCls[j], strCls(sval))
					} else {
						av := absVal{C: m["c"].(string), R: int(m["r"].(float64)), K: int(m["k"].(float64))}
						// sampled classes keep the declared number of members of the full type
						full := map[string]int{"neg": 3, "pos": 3}
						if n, ok := full[av.C]; ok && mem[av.C] < n {
							mem[av.C] = n
						}
						colRaw[j] = append(colRaw[j], c.scalar(t, av, mem))
						colCls[j] = append(colCls[j], av.C)
					}
				}
			}
			type tup struct {
				key []byte
				tvs sql.Tuple
				txt string
				ok  bool
			}
			tups := make([]tup, len(ck.Tuples))
			for ti, idx := range ck.Tuples {
				encs := [][]byte{sql.EncodeID(7), sql.EncodeID(3)}
				tp := tup{ok: true}
				var parts []string
				for j, t := range ck.Cols {
					raw := colRaw[j][idx[j]-1]
					parts = append(parts, show(t, raw))
					var enc []byte
					var err error
					if !guard("sql.EncodeRawValueAsKey:"+t, func() { enc, _, err = sql.EncodeRawValueAsKey(raw, sqlType(t), colMax[j]) }) || err != nil {
						tp.ok = false
						res.Violate("sql.EncodeRawValueAsKey:"+t+":refuses-valid-value:"+colCls[j][idx[j]-1], fmt.Sprintf("%s: %v", show(t, raw), err), nil)
						continue
					}
					encs = append(encs, enc)
					tv, err := typed(t, raw)
					if err != nil {
						tp.ok = false
						continue
					}
					tp.tvs = append(tp.tvs, tv)
				}
				tp.key = sql.MapKey([]byte{2}, sql.MappedPrefix, encs...)
				tp.txt = "(" + strings.Join(parts, ", ") + ")"
				tups[ti] = tp
				note("tuple", name, v, tp.txt)
			}
			check := func(a, b, rel int, what string) {
				ta, tb := tups[a-1], tups[b-1]
				if !ta.ok || !tb.ok {
					return
				}
				res.Evaluations++
				res.Count("composite-"+what, 1)
				got := cmp3(bytes.Compare(ta.key, tb.key))
				if got != rel {
					// attribute to the first column where the tuples differ
					col := 0
					for j := range ck.Cols {
						if ck.Tuples[a-1][j] != ck.Tuples[b-1][j] {
							col = j
							break
						}
					}
					res.Violate(fmt.Sprintf("sql.compositeKey:%s:order:col%d:%s", name, col+1, pairName(colCls[col][ck.Tuples[a-1][col]-1], colCls[col][ck.Tuples[b-1][col]-1])),
						fmt.Sprintf("composite key (%s): SQL relation of %s and %s is %d, keys compare %d", name, ta.txt, tb.txt, rel, got),
						map[string]interface{}{"cols": ck.Cols, "a": ta.txt, "b": tb.txt, "expected": rel, "bytes": got})
				}
				var c int
				var err error
				if guard("sql.Tuple.Compare", func() { c, _, err = ta.tvs.Compare(tb.tvs) }) && (err != nil || cmp3(c) != rel) {
					res.Violate(fmt.Sprintf("sql.Tuple.Compare:%s:disagrees-with-sql-order", name),
						fmt.Sprintf("Tuple.Compare(%s, %s) = %d, %v; specified: %d", ta.txt, tb.txt, c, err, rel), nil)
				}
			}
			for _, p := range ck.Pairs {
				check(p[0], p[1], p[2], "pair")
			}
			for _, t := range ck.Triples {
				check(t[0], t[1], t[3], "triple")
				check(t[1], t[2], t[4], "triple")
				check(t[0], t[2], t[5], "triple")
			}
			if v == 0 && len(tups) > 0 {
				res.Sample(map[string]interface{}{"composite": name, "tuple": tups[len(tups)/2].txt, "key": fmt.Sprintf("%x", clip(tups[len(tups)/2].key))}, 12)
			}
		}
	}
}
