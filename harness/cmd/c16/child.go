package main

import (
	"bufio"
	"bytes"
	"encoding/json"
	"fmt"
	"os"
	"os/exec"
	"regexp"
	"strconv"
	"runtime/debug"
	"strings"
	"sync"
	"syscall"

	"verifharness/vh"
)

// Decoders whose allocations are driven by length fields of the input (appendable metadata, singleapp file
// header, stream messages) run in a child process with an address-space limit: a multi-gigabyte allocation
// then kills the child (reported as runaway allocation) instead of the harness or the machine, and a decoder
// that spins is killed with its process.

type task struct {
	Idx     int
	Kind    string
	In      []byte
	Keys    []string
	ValLens []int
	Dir     string
}

type stageOut struct {
	Entry   string
	Stage   string
	Variant string
	O       outcome
}

type wireStage struct {
	Entry, Stage, Variant, Kind, Msg string
	Alloc                            uint64
}

type taskOut struct {
	Idx    int
	Stages []wireStage
}

type childJob struct {
	s     *shape
	tasks []task
	outs  map[int][]stageOut
}

var childJobs []*childJob

// runChildJobs runs the queued jobs on a small pool of child processes and judges them in queue order.
func runChildJobs() {
	sem := make(chan struct{}, 4)
	var wg sync.WaitGroup
	for _, j := range childJobs {
		wg.Add(1)
		sem <- struct{}{}
		go func(j *childJob) {
			defer wg.Done()
			j.outs = runInChild(j.tasks)
			<-sem
		}(j)
	}
	wg.Wait()
	for _, j := range childJobs {
		judgeTasks(j.s, j.tasks, j.outs)
	}
}

var reBlock = regexp.MustCompile(`cannot allocate (\d+)-byte block`)

const childLimit = 3 << 30

func decodeTask(t task) []stageOut {
	switch t.Kind {
	case "appmd":
		return decodeAppMd(t)
	case "appfile":
		return decodeAppFile(t)
	case "stream":
		return decodeStream(t)
	}
	vh.Fatalf("unknown task kind %q", t.Kind)
	return nil
}

// childMain: tasks as JSON lines on stdin, one taskOut line per finished task on stdout.
func childMain() {
	lim := syscall.Rlimit{Cur: childLimit, Max: childLimit}
	if err := syscall.Setrlimit(syscall.RLIMIT_AS, &lim); err != nil {
		vh.Fatalf("setrlimit: %v", err)
	}
	in := bufio.NewReaderSize(os.Stdin, 1<<20)
	w := bufio.NewWriter(os.Stdout)
	dec := json.NewDecoder(in)
	for {
		var t task
		if err := dec.Decode(&t); err != nil {
			break
		}
		to := taskOut{Idx: t.Idx}
		stuck := false
		for _, s := range decodeTask(t) {
			to.Stages = append(to.Stages, wireStage{s.Entry, s.Stage, s.Variant, s.O.kind, s.O.msg, s.O.alloc})
			if s.O.kind == "hang" {
				stuck = true
			}
		}
		for _, st := range to.Stages {
			if st.Alloc > 32<<20 {
				debug.FreeOSMemory()
				break
			}
		}
		b, _ := json.Marshal(to)
		w.Write(b)
		w.WriteByte('\n')
		w.Flush()
		if stuck {
			os.Exit(0) // the spinning goroutine dies with the process; the parent restarts after this task
		}
	}
}

// runInChild returns the stage outcomes of every task; a task that kills the child is classified from the
// child's last words.
func runInChild(tasks []task) map[int][]stageOut {
	out := map[int][]stageOut{}
	self, err := os.Executable()
	vh.Must(err, "os.Executable")
	rest := tasks
	for len(rest) > 0 {
		var stdin bytes.Buffer
		enc := json.NewEncoder(&stdin)
		for _, t := range rest {
			enc.Encode(t)
		}
		cmd := exec.Command(self, "-child", "-seed", fmt.Sprint(seed))
		cmd.Env = append(os.Environ(), "GOMAXPROCS=2")
		cmd.Stdin = &stdin
		var stdout, stderr bytes.Buffer
		cmd.Stdout, cmd.Stderr = &stdout, &stderr
		runErr := cmd.Run()
		res.Count("child-process-runs", 1)
		done := 0
		sc := bufio.NewScanner(&stdout)
		sc.Buffer(make([]byte, 1<<20), 1<<26)
		for sc.Scan() {
			var to taskOut
			if json.Unmarshal(sc.Bytes(), &to) != nil {
				break
			}
			var st []stageOut
			for _, w := range to.Stages {
				st = append(st, stageOut{w.Entry, w.Stage, w.Variant, outcome{w.Kind, w.Msg, w.Alloc}})
			}
			out[to.Idx] = st
			done++
		}
		if done >= len(rest) {
			break
		}
		// the child stopped early: on purpose after reporting a hang, or killed by the task after the last line
		if done > 0 {
			if st := out[rest[done-1].Idx]; len(st) > 0 && st[len(st)-1].O.kind == "hang" {
				// a missed deadline on a busy machine is not yet a hang: the task runs once more, alone, with a
				// deadline of two minutes, and only that outcome counts
				os.Setenv("C16_CHILD_DEADLINE", "120s")
				if st2, _, ok := runOne(self, rest[done-1]); ok {
					out[rest[done-1].Idx] = st2
				}
				os.Unsetenv("C16_CHILD_DEADLINE")
				res.Count("hang-rechecked-alone", 1)
				rest = rest[done:]
				continue
			}
		}
		culprit := rest[done]
		words := stderr.String()
		entry := map[string]string{"appmd": "appendable.NewMetadata", "appfile": "singleapp.Open", "stream": "stream.msgReceiver.ReadFully"}[culprit.Kind]
		memoryWords := func(w string) bool {
			return strings.Contains(w, "out of memory") || strings.Contains(w, "cannot allocate memory") ||
				strings.Contains(w, "pthread_create failed") || strings.Contains(w, "failed to create new OS thread")
		}
		if !memoryWords(words) {
			vh.Fatalf("decoder child died for a reason that is not memory exhaustion (%v): %s", runErr, clipStr(words, 1500))
		}
		// The child ran out of address space while working on this task.  If the runtime names a single block of
		// more than the per-call cap, the task asked for it.  Otherwise memory left over from earlier tasks (or a
		// thread stack) may have tipped it over: run the task alone in a fresh child and believe only that.
		if m := reBlock.FindStringSubmatch(words); m != nil {
			if n, _ := strconv.ParseUint(m[1], 10, 64); n > allocCap {
				out[culprit.Idx] = []stageOut{{Entry: entry, O: outcome{"runaway-allocation", fmt.Sprintf("the decoder asked for a single block of %d bytes", n), n}}}
				rest = rest[done+1:]
				continue
			}
		}
		if st, w2, ok := runOne(self, culprit); ok {
			out[culprit.Idx] = st
			rest = rest[done+1:]
			continue
		} else if !memoryWords(w2) {
			vh.Fatalf("decoder child died for a reason that is not memory exhaustion: %s", clipStr(w2, 1500))
		} else {
			words = w2
		}
		out[culprit.Idx] = []stageOut{{Entry: entry, O: outcome{"runaway-allocation", "the decoder process hit its 3 GiB address-space limit: " + firstLine(words), childLimit}}}
		rest = rest[done+1:]
	}
	return out
}

// runOne runs a single task in its own child; ok = the child survived and reported.
func runOne(self string, t task) ([]stageOut, string, bool) {
	var stdin, stdout, stderr bytes.Buffer
	json.NewEncoder(&stdin).Encode(t)
	cmd := exec.Command(self, "-child", "-seed", fmt.Sprint(seed))
	cmd.Env = append(os.Environ(), "GOMAXPROCS=2")
	cmd.Stdin, cmd.Stdout, cmd.Stderr = &stdin, &stdout, &stderr
	cmd.Run()
	var to taskOut
	if json.Unmarshal(bytes.TrimSpace(stdout.Bytes()), &to) != nil || to.Idx != t.Idx {
		return nil, stderr.String(), false
	}
	var st []stageOut
	for _, w := range to.Stages {
		st = append(st, stageOut{w.Entry, w.Stage, w.Variant, outcome{w.Kind, w.Msg, w.Alloc}})
	}
	return st, "", true
}

func clipStr(s string, n int) string {
	if len(s) > n {
		return s[:n]
	}
	return s
}

func firstLine(s string) string {
	for _, l := range strings.Split(s, "\n") {
		if strings.TrimSpace(l) != "" {
			return l
		}
	}
	return ""
}

// judgeTasks folds the child's outcomes into verdicts, stage by stage.
func judgeTasks(s *shape, tasks []task, outs map[int][]stageOut) {
	for _, t := range tasks {
		m := s.Muts[t.Idx]
		st, ok := outs[t.Idx]
		if !ok {
			vh.Fatalf("no outcome for task %d of %s", t.Idx, s.Fmt)
		}
		failed := map[string]bool{}
		for _, so := range st {
			if failed[so.Entry+so.Variant] {
				continue
			}
			variantTag = so.Variant
			if !judge(so.Entry, s, m, t.In, so.O, so.Stage) {
				failed[so.Entry+so.Variant] = true
			}
			variantTag = ""
		}
	}
}
