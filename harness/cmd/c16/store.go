package main

import (
	"context"
	"crypto/sha256"
	"encoding/binary"
	"encoding/json"
	"fmt"
	"os"
	"path/filepath"
	"time"

	"github.com/codenotary/immudb/embedded/store"

	"verifharness/vh"
)

// ---------------------------------------------------------------- TxMetadata

type txMdP struct {
	Trunc    bool
	ExtraLen int
}

func buildTxMd(p txMdP, k int) *store.TxMetadata {
	md := store.NewTxMetadata()
	if p.Trunc {
		md.WithTruncatedTxID(0x0102030405060708)
	}
	if p.ExtraLen > 0 {
		vh.Must(md.WithExtra(vh.Bytes(seed, "extra", k, p.ExtraLen)), "WithExtra")
	}
	return md
}

func runTxMetadata(s *shape) {
	var p txMdP
	vh.Must(json.Unmarshal(s.P, &p), "shape params")
	valid := buildTxMd(p, 0).Bytes()
	bindLayout(s, valid)
	for _, m := range s.Muts {
		in := apply(valid, m)
		md := store.NewTxMetadata()
		o := call(func() error { return md.ReadFrom(in) })
		if !judge("store.TxMetadata.ReadFrom", s, m, in, o, "") || o.kind != "value" {
			continue
		}
		// a value that was accepted must be usable: re-encoding and the accessors must not crash
		var back []byte
		o2 := call(func() error {
			back = md.Bytes()
			_ = md.Extra()
			_, _ = md.GetTruncatedTxID()
			return nil
		})
		if judge("store.TxMetadata.ReadFrom", s, m, in, o2, "Bytes") && m.Op == "none" && string(back) != string(valid) {
			res.Violate("store.TxMetadata.ReadFrom:valid-encoding-decodes-differently", fmt.Sprintf("%x -> %x", valid, back), nil)
		}
	}
	// declared limit: an extra attribute longer than maxExtraLen (256) that is otherwise consistent
	if p.ExtraLen > 0 && !p.Trunc {
		for _, n := range []int{257, 265} {
			in := append([]byte{1, byte(n >> 8), byte(n)}, vh.Bytes(seed, "long-extra", n, n)...)
			m := mut{Op: "grow", Field: "extraLen", How: fmt.Sprintf("limit+%d-consistent", n-256), Expect: "error-or-value"}
			md := store.NewTxMetadata()
			o := call(func() error { return md.ReadFrom(in) })
			if judge("store.TxMetadata.ReadFrom", s, m, in, o, "") && o.kind == "value" {
				o2 := call(func() error { _ = md.Bytes(); return nil })
				judge("store.TxMetadata.ReadFrom", s, m, in, o2, "Bytes")
			}
		}
	}
}

// ---------------------------------------------------------------- TxHeader

type txHdrP struct {
	Ver      int
	Trunc    bool
	ExtraLen int
	Nentries int
}

func runTxHeader(s *shape) {
	var p txHdrP
	vh.Must(json.Unmarshal(s.P, &p), "shape params")
	hdr := &store.TxHeader{ID: 5, Ts: 1_700_000_000, Version: p.Ver, NEntries: p.Nentries, BlTxID: 4}
	if p.Ver == 1 && (p.Trunc || p.ExtraLen > 0) {
		hdr.Metadata = buildTxMd(txMdP{p.Trunc, p.ExtraLen}, 1)
	}
	copy(hdr.PrevAlh[:], vh.Bytes(seed, "prevalh", 0, 32))
	copy(hdr.Eh[:], vh.Bytes(seed, "eh", 0, 32))
	copy(hdr.BlRoot[:], vh.Bytes(seed, "blroot", 0, 32))
	valid, err := hdr.Bytes()
	vh.Must(err, "TxHeader.Bytes")
	bindLayout(s, valid)
	for _, m := range s.Muts {
		in := apply(valid, m)
		h := &store.TxHeader{}
		o := call(func() error { return h.ReadFrom(in) })
		if !judge("store.TxHeader.ReadFrom", s, m, in, o, "") || o.kind != "value" {
			continue
		}
		var back []byte
		o2 := call(func() error {
			b, err := h.Bytes()
			back = b
			_ = h.Alh()
			return err
		})
		if judge("store.TxHeader.ReadFrom", s, m, in, o2, "Bytes+Alh") && m.Op == "none" && string(back) != string(valid) {
			res.Violate("store.TxHeader.ReadFrom:valid-encoding-decodes-differently", fmt.Sprintf("%x -> %x", valid, back), nil)
		}
		if m.Op != "none" && len(in) < len(valid) && o2.kind == "value" && len(back) > len(in) {
			// a header that was cut short was accepted: the missing bytes were taken as zeros (counted, not judged)
			res.Count("TxHeader:short-input-accepted-zero-filled", 1)
		}
	}
}

// ---------------------------------------------------------------- exported transactions on real stores

type expP struct {
	Ver      int
	ExtraLen int
	Entries  [][3]json.RawMessage // [klen, [deleted, expires, nonIndexable], vlen]
}

type kvP struct {
	Deleted, Expires, NonIndexable bool
}

type stState struct {
	c, p       uint64
	calh, palh [sha256.Size]byte
}

func snapshot(st *store.ImmuStore) stState {
	var s stState
	s.c, s.calh = st.CommittedAlh()
	s.p, s.palh = st.PrecommittedAlh()
	return s
}

func mkKv(p kvP) *store.KVMetadata {
	if !p.Deleted && !p.Expires && !p.NonIndexable {
		return nil
	}
	md := store.NewKVMetadata()
	vh.Must(md.AsDeleted(p.Deleted), "AsDeleted")
	if p.Expires {
		vh.Must(md.ExpiresAt(time.Unix(253402300799, 0)), "ExpiresAt")
	}
	vh.Must(md.AsNonIndexable(p.NonIndexable), "AsNonIndexable")
	return md
}

type expTx struct {
	s     *shape
	hdr   *store.TxHeader
	valid []byte
	mdOff int // KVMetadata shapes: offset of the entry metadata inside the export
}

type lineage struct {
	name    string
	opts    func() *store.Options
	primary *store.ImmuStore
	txs     []*expTx
}

func storeOpts(ver int) func() *store.Options {
	return func() *store.Options {
		return store.DefaultOptions().WithSynced(false).WithMaxConcurrency(1).WithMaxIOConcurrency(1).WithWriteTxHeaderVersion(ver)
	}
}

var replicaSeq int

// newReplica opens a fresh store and replicates the valid exports of the first n transactions of the lineage.
func newReplica(dir string, l *lineage, n int) *store.ImmuStore {
	replicaSeq++
	p := filepath.Join(dir, fmt.Sprintf("replica-%s-%d", l.name, replicaSeq))
	st, err := store.Open(p, l.opts())
	vh.Must(err, "open replica")
	replicaPath[st] = p
	for i := 0; i < n; i++ {
		_, err := st.ReplicateTx(context.Background(), l.txs[i].valid, false, false)
		vh.Must(err, fmt.Sprintf("replicate valid tx %d while preparing a replica", i+1))
	}
	res.Count("replica-built", 1)
	return st
}

var replicaPath = map[*store.ImmuStore]string{}

func dropReplica(st *store.ImmuStore) {
	st.Close()
	os.RemoveAll(replicaPath[st])
	delete(replicaPath, st)
}

func runExports(shapes []*shape, dir string) {
	ctx := context.Background()
	lins := map[string]*lineage{}
	get := func(name string, ver int) *lineage {
		if l, ok := lins[name]; ok {
			return l
		}
		l := &lineage{name: name, opts: storeOpts(ver)}
		st, err := store.Open(filepath.Join(dir, "primary-"+name), l.opts())
		vh.Must(err, "open primary")
		l.primary = st
		lins[name] = l
		return l
	}
	// ---- commit one transaction per shape on the primary of its lineage, export it with the real encoder
	for k, s := range shapes {
		var l *lineage
		t := &expTx{s: s}
		var extraLen int
		type ent struct {
			key, val []byte
			md       *store.KVMetadata
		}
		var ents []ent
		if s.Fmt == "ExportedTx" {
			var p expP
			vh.Must(json.Unmarshal(s.P, &p), "shape params")
			l = get(fmt.Sprintf("v%d", p.Ver), p.Ver)
			extraLen = p.ExtraLen
			for i, e := range p.Entries {
				var klen, vlen int
				var kv [3]bool
				vh.Must(json.Unmarshal(e[0], &klen), "klen")
				vh.Must(json.Unmarshal(e[1], &kv), "kvmd")
				vh.Must(json.Unmarshal(e[2], &vlen), "vlen")
				ents = append(ents, ent{vh.Bytes(seed, "key", k*8+i, klen), vh.Bytes(seed, "val", k*8+i, vlen), mkKv(kvP{kv[0], kv[1], kv[2]})})
			}
		} else { // KVMetadata: one entry carrying that metadata
			var p kvP
			vh.Must(json.Unmarshal(s.P, &p), "shape params")
			if s.Total == 0 {
				continue // empty metadata is "no metadata": nothing to mutate
			}
			l = get("kv", 1)
			extraLen = -1
			ents = append(ents, ent{vh.Bytes(seed, "key", k*8, 3), vh.Bytes(seed, "val", k*8, 4), mkKv(p)})
		}
		otx, err := l.primary.NewWriteOnlyTx(ctx)
		vh.Must(err, "NewWriteOnlyTx")
		if extraLen > 0 {
			otx.WithMetadata(buildTxMd(txMdP{false, extraLen}, k))
		}
		for _, e := range ents {
			vh.Must(otx.Set(e.key, e.md, e.val), "Set")
		}
		t.hdr, err = otx.Commit(ctx)
		vh.Must(err, "Commit")
		holder := store.NewTx(l.primary.MaxTxEntries(), l.primary.MaxKeyLen())
		exp, err := l.primary.ExportTx(t.hdr.ID, false, false, holder)
		vh.Must(err, "ExportTx")
		t.valid = append([]byte{}, exp...)
		if s.Fmt == "ExportedTx" {
			bindLayout(s, t.valid)
		} else {
			hl := int(binary.BigEndian.Uint32(t.valid))
			t.mdOff = 4 + hl + 2 + 3 + 2
			if int(binary.BigEndian.Uint16(t.valid[t.mdOff-2:])) != s.Total {
				vh.Fatalf("KVMetadata %s: the real export carries %d metadata bytes, Wire.tla says %d", s.P, binary.BigEndian.Uint16(t.valid[t.mdOff-2:]), s.Total)
			}
			bindLayout(s, t.valid[t.mdOff:t.mdOff+s.Total])
		}
		l.txs = append(l.txs, t)
	}

	// ---- per lineage, per transaction: every mutation against a replica that holds the preceding transactions
	first := true
	for _, name := range []string{"v0", "v1", "kv"} {
		l := lins[name]
		if l == nil {
			continue
		}
		for n, t := range l.txs {
			rep := newReplica(dir, l, n)
			entry := "store.ReplicateTx"
			muts := append([]mut{}, t.s.Muts...)
			// the untouched encoding goes last: after all refused mutants the replica must still take it
			for i, m := range muts {
				if m.Op == "none" {
					muts[i], muts[len(muts)-1] = muts[len(muts)-1], muts[i]
				}
			}
			for _, m := range muts {
				var in []byte
				if t.s.Fmt == "ExportedTx" {
					in = apply(t.valid, m)
				} else {
					md := apply(t.valid[t.mdOff:t.mdOff+t.s.Total], m)
					in = append([]byte{}, t.valid[:t.mdOff-2]...)
					in = append(in, byte(len(md)>>8), byte(len(md)))
					in = append(in, md...)
					in = append(in, t.valid[t.mdOff+t.s.Total:]...)
				}
				before := snapshot(rep)
				var hdr *store.TxHeader
				o := call(func() error {
					cctx, cancel := context.WithTimeout(ctx, 8*time.Second)
					defer cancel()
					h, err := rep.ReplicateTx(cctx, in, false, false)
					hdr = h
					return err
				})
				if selftest && first && m.Op == "none" {
					// binding self-test: claim the call failed; the state comparison below must notice the effect
					o = outcome{kind: "error", msg: "selftest: pretend the valid export was refused"}
					m.Expect = "error-or-value"
					first = false
				}
				ok := judge(entry, t.s, m, in, o, "")
				if o.kind == "panic" || o.kind == "hang" {
					// a panic while parsing leaves the store alone: keep the replica if its state is readable and
					// unchanged, rebuild it otherwise (a lock left behind would show as a stuck snapshot)
					var after stState
					p, h, _ := vh.Guard(2*time.Second, func() { after = snapshot(rep) })
					if o.kind == "hang" || p || h || after != before {
						if !p && !h && o.kind == "panic" && after != before {
							res.Violate("store.ReplicateTx:partial-effect-before-panic:"+fmt.Sprintf("%s.%s:%s", t.s.Fmt, m.Field, mutName(m)),
								fmt.Sprintf("ReplicateTx panicked after changing the store: precommitted %d->%d", before.p, after.p), nil)
						}
						dropReplica(rep)
						rep = newReplica(dir, l, n)
					}
					continue
				}
				after := snapshot(rep)
				where := fmt.Sprintf("%s.%s:%s", t.s.Fmt, m.Field, mutName(m))
				replay := map[string]interface{}{"format": t.s.Fmt, "shape": t.s.P, "mutation": m, "input": fmt.Sprintf("%x", in), "precedingTxs": n}
				switch o.kind {
				case "error", "runaway-allocation":
					if after != before {
						res.Violate("store.ReplicateTx:partial-effect:"+where,
							fmt.Sprintf("ReplicateTx returned an error (%s) but the store changed: committed %d->%d precommitted %d->%d (%s)", o.msg, before.c, after.c, before.p, after.p, where), replay)
						dropReplica(rep)
						rep = newReplica(dir, l, n)
					}
				case "value":
					if after.p != before.p+1 || hdr == nil || hdr.ID != before.p+1 {
						res.Violate("store.ReplicateTx:accepted-without-exactly-one-tx:"+where,
							fmt.Sprintf("ReplicateTx succeeded but precommitted went %d->%d (header %v)", before.p, after.p, hdr), replay)
					} else if ok && m.Op == "none" && hdr.Alh() != t.hdr.Alh() {
						res.Violate("store.ReplicateTx:valid-export-gives-different-alh", where, replay)
					}
					if m.Op != "none" {
						if hdr != nil && hdr.Alh() != t.hdr.Alh() {
							res.Count("accepted-mutant-with-different-alh", 1) // a different but well-formed transaction
						}
						dropReplica(rep)
						rep = newReplica(dir, l, n)
					}
				}
			}
			dropReplica(rep)
		}
		l.primary.Close()
	}
}

func timeFar() time.Time { return time.Unix(253402300799, 0) }
