// c16: applies the TLC-enumerated structure-aware mutations (spec/Wire.tla) to valid encodings produced
// by the REAL encoders and feeds them to the real decoders under recover + deadline + allocation accounting.
//
// accept   = the decoder returns an error, or a value that is usable without a crash; for store.ReplicateTx
//            additionally: error => the store state (committed / precommitted tx and both accumulated hashes)
//            is unchanged, value => exactly one more transaction;
// violation = panic, hang, runaway allocation, unusable value, partial effect.
package main

import (
	"encoding/json"
	"flag"
	"fmt"
	"math"
	"os"
	"regexp"
	"runtime"
	"runtime/debug"
	"strings"
	"time"

	"verifharness/vh"
)

const (
	maxV    = -1
	unknown = -2
)

type fieldL struct {
	N    string
	Role string
	Off  int
	Sz   int
	V    int
	Grp  string
	Elem int
}

type mut struct {
	Op     string
	At     int
	W      int
	Val    int
	To     int
	Cat    int
	Cw     int
	Cval   int
	Field  string
	How    string
	Expect string
}

type shape struct {
	Fmt    string
	P      json.RawMessage
	Total  int
	Layout []fieldL
	Muts   []mut
}

type proofMut struct{ Msg, Field, Kind, Op string }

type casesFile struct {
	Shapes []shape
	Proofs []proofMut
}

var (
	res      *vh.Result
	seed     int64
	selftest bool
	allocCap = uint64(256 << 20)
	deadline = 20 * time.Second
	distinct = map[string]struct{}{}
	variantTag string // e.g. the chunking of a stream input: part of the replay, not of the signature
)

// ---------------------------------------------------------------- mutation application / layout binding

func putBE(b []byte, off, w, val int) {
	for i := 0; i < w; i++ {
		if val == maxV {
			b[off+i] = 0xff
		} else {
			shift := uint(8 * (w - 1 - i))
			if shift >= 63 {
				b[off+i] = 0
			} else {
				b[off+i] = byte(uint64(val) >> shift)
			}
		}
	}
}

func apply(valid []byte, m mut) []byte {
	b := append([]byte{}, valid...)
	switch m.Op {
	case "none":
	case "trunc":
		b = b[:m.At]
	case "set":
		putBE(b, m.At, m.W, m.Val)
	case "drop", "dup":
		if m.Cw > 0 {
			putBE(b, m.Cat, m.Cw, m.Cval)
		}
		if m.Op == "drop" {
			b = append(b[:m.At:m.At], b[m.To:]...)
		} else {
			out := append([]byte{}, b[:m.To]...)
			out = append(out, b[m.At:m.To]...)
			b = append(out, b[m.To:]...)
		}
	default:
		vh.Fatalf("unknown mutation op %q", m.Op)
	}
	return b
}

// bindLayout checks that the layout TLC printed describes the bytes the real encoder produced.
func bindLayout(s *shape, valid []byte) {
	if len(valid) != s.Total {
		vh.Fatalf("%s %s: the real encoding has %d bytes, Wire.tla says %d (format description drifted)\n% x", s.Fmt, s.P, len(valid), s.Total, valid)
	}
	for _, f := range s.Layout {
		if f.V == unknown || f.Sz == 0 || f.Sz > 8 {
			continue
		}
		var got uint64
		allOnes := true
		for i := 0; i < f.Sz; i++ {
			got = got<<8 | uint64(valid[f.Off+i])
			if valid[f.Off+i] != 0xff {
				allOnes = false
			}
		}
		if (f.V == maxV && !allOnes) || (f.V >= 0 && got != uint64(f.V)) {
			vh.Fatalf("%s %s: field %s at offset %d holds %d, Wire.tla says %d (format description drifted)\n% x", s.Fmt, s.P, f.N, f.Off, got, f.V, valid)
		}
	}
	res.Count("layout-bound:"+s.Fmt, 1)
}

// ---------------------------------------------------------------- guarded call

var (
	reFrame = regexp.MustCompile(`(?m)^(github\.com/codenotary/immudb/[^\s(]+(?:\([^)]*\))?[^\s(]*)\(`)
)

// panicClass reduces a panic message to a stable class.
func panicClass(msg string) string {
	first := strings.SplitN(msg, "\n", 2)[0]
	switch {
	case strings.Contains(first, "slice bounds out of range"):
		return "slice-bounds-out-of-range"
	case strings.Contains(first, "index out of range"):
		return "index-out-of-range"
	case strings.Contains(first, "makeslice"):
		return "makeslice-len-out-of-range"
	case strings.Contains(first, "nil pointer"):
		return "nil-pointer-dereference"
	case strings.Contains(first, "nil map"):
		return "nil-map"
	}
	return "other"
}

// panicSite is the innermost immudb function on the panicking stack.
func panicSite(msg string) string {
	idx := strings.Index(msg, "panic(")
	tail := msg
	if idx >= 0 {
		tail = msg[idx:]
	}
	for _, m := range reFrame.FindAllStringSubmatch(tail, -1) {
		fn := m[1]
		fn = strings.TrimPrefix(fn, "github.com/codenotary/immudb/")
		fn = fn[strings.LastIndex(fn, "/")+1:]
		return fn
	}
	return "?"
}

type outcome struct {
	kind  string // error | value | panic | hang | runaway-allocation
	msg   string
	alloc uint64
}

// call runs f (which returns the decoder's error) under recover, a deadline and allocation accounting.
func call(f func() error) outcome {
	var ms0, ms1 runtime.MemStats
	runtime.ReadMemStats(&ms0)
	var err error
	p, h, msg := vh.Guard(deadline, func() { err = f() })
	runtime.ReadMemStats(&ms1)
	alloc := ms1.TotalAlloc - ms0.TotalAlloc
	switch {
	case h && alloc > allocCap:
		// the deadline passed while the call was busy obtaining memory: that is the allocation's fault
		return outcome{"runaway-allocation", fmt.Sprintf("%d bytes allocated by one call (which then missed the deadline)", alloc), alloc}
	case h:
		return outcome{"hang", msg, alloc}
	case p:
		return outcome{"panic", msg, alloc}
	case alloc > allocCap:
		return outcome{"runaway-allocation", fmt.Sprintf("%d bytes allocated by one call", alloc), alloc}
	case err != nil:
		return outcome{"error", err.Error(), alloc}
	}
	return outcome{"value", "", alloc}
}

func mutName(m mut) string {
	if m.Op == "trunc" {
		return "trunc-" + m.How
	}
	return m.Op + "-" + m.How
}

// judge records the verdict of one decoder call.  entry: real entry point; stage: "" or the name of the
// follow-up use of an accepted value.
func judge(entry string, s *shape, m mut, in []byte, o outcome, stage string) bool {
	res.Evaluations++
	res.Count(s.Fmt+":"+o.kind, 1)
	res.Count("op:"+m.Op+":"+o.kind, 1)
	distinct[fmt.Sprintf("%s|%s|%s|%x", entry, stage, variantTag, in)] = struct{}{}
	replay := map[string]interface{}{"entry": entry, "format": s.Fmt, "shape": s.P, "mutation": m, "input": fmt.Sprintf("%x", clipN(in, 600)), "inputLen": len(in), "variant": variantTag}
	where := fmt.Sprintf("%s.%s:%s", s.Fmt, m.Field, mutName(m))
	if res.Evaluations%613 == 1 {
		res.Sample(map[string]interface{}{"entry": entry, "format": s.Fmt, "shape": s.P, "field": m.Field, "operator": mutName(m), "value": m.Val,
			"input": fmt.Sprintf("%x", clipN(in, 120)), "inputLen": len(in), "outcome": o.kind}, 12)
	}
	if stage != "" {
		entry = entry + "+" + stage
	}
	switch o.kind {
	case "panic":
		res.Violate(fmt.Sprintf("%s:panic:%s:%s:%s", entry, panicClass(o.msg), panicSite(o.msg), where),
			fmt.Sprintf("%s panics (%s) on a %s with %s of field %s (input %x)", entry, strings.SplitN(o.msg, "\n", 2)[0], s.Fmt, mutName(m), m.Field, clipN(in, 80)), replay)
		return false
	case "hang":
		res.Violate(fmt.Sprintf("%s:hang:%s", entry, where), fmt.Sprintf("%s does not return within the deadline on a %s with %s of field %s", entry, s.Fmt, mutName(m), m.Field), replay)
		return false
	case "runaway-allocation":
		res.Violate(fmt.Sprintf("%s:runaway-allocation:%s", entry, where), fmt.Sprintf("%s allocates %d MiB for a %d-byte input (%s with %s of field %s)", entry, o.alloc>>20, len(in), s.Fmt, mutName(m), m.Field), replay)
		return false
	}
	if m.Expect == "value" && o.kind != "value" {
		res.Violate(fmt.Sprintf("%s:rejects-valid-encoding:%s", entry, s.Fmt), fmt.Sprintf("%s rejects the untouched encoding produced by the real encoder: %s (%x)", entry, o.msg, clipN(in, 80)), replay)
		return false
	}
	if m.Op != "none" && o.kind == "value" {
		res.Count("accepted-mutant:"+s.Fmt, 1)
	}
	return true
}

func clipN(b []byte, n int) []byte {
	if len(b) > n {
		return b[:n]
	}
	return b
}

// ---------------------------------------------------------------- main

func main() {
	casesPath := flag.String("cases", "", "JSON written by TLC from Wire.tla")
	flag.Int64Var(&seed, "seed", 1, "seed")
	dir := flag.String("dir", "", "scratch directory")
	only := flag.String("only", "", "comma separated formats (default all)")
	child := flag.Bool("child", false, "internal: decode tasks from stdin under an address-space limit")
	flag.BoolVar(&selftest, "selftest", false, "binding self-test: expect the valid export to be refused without effect")
	flag.Parse()
	debug.SetMemoryLimit(3 << 30)
	if *child {
		res = vh.NewResult()
		deadline = 15 * time.Second // a stuck decoder ends the child anyway; be generous under load
		if d, err := time.ParseDuration(os.Getenv("C16_CHILD_DEADLINE")); err == nil {
			deadline = d
		}
		debug.SetMemoryLimit(math.MaxInt64) // the address-space limit is the guard here; a soft limit only makes the GC thrash
		childMain()
		return
	}

	var cf casesFile
	vh.ReadJSON(*casesPath, &cf)
	res = vh.NewResult()
	want := map[string]bool{}
	for _, f := range strings.Split(*only, ",") {
		if f != "" {
			want[f] = true
		}
	}
	sel := func(f string) bool { return len(want) == 0 || want[f] }

	var exports []*shape
	for i := range cf.Shapes {
		s := &cf.Shapes[i]
		if !sel(s.Fmt) {
			continue
		}
		switch s.Fmt {
		case "TxMetadata":
			runTxMetadata(s)
		case "TxHeader":
			runTxHeader(s)
		case "ExportedTx", "KVMetadata":
			exports = append(exports, s)
		case "AppMetadata":
			runAppMetadata(s)
		case "AppFile":
			runAppFile(s, *dir)
		case "PgParse", "PgBind", "PgDescribe", "PgExecute", "PgPassword", "PgQuery":
			runPgMessage(s)
		case "PgFrame":
			runPgFrame(s)
		case "Stream":
			runStream(s)
		default:
			vh.Fatalf("no decoder bound to format %q", s.Fmt)
		}
	}
	runChildJobs()
	if len(exports) > 0 {
		runExports(exports, *dir)
	}
	if sel("Proofs") {
		runProofs(cf.Proofs, *dir)
	}
	res.Distinct = len(distinct)
	res.Emit()
}
