package main

import (
	"encoding/json"
	"fmt"
	"io"
	"net"
	"os"
	"path/filepath"
	"time"

	"github.com/codenotary/immudb/embedded/appendable"
	"github.com/codenotary/immudb/embedded/appendable/singleapp"
	"github.com/codenotary/immudb/pkg/api/schema"
	pgserver "github.com/codenotary/immudb/pkg/pgsql/server"
	fm "github.com/codenotary/immudb/pkg/pgsql/server/fmessages"
	"github.com/codenotary/immudb/pkg/pgsql/server/pgmeta"
	"github.com/codenotary/immudb/pkg/stream"

	"verifharness/vh"
)

// ---------------------------------------------------------------- appendable metadata

type appMdP struct{ Pairs [][2]int }

func appKey(i, n int) string { return string(vh.Bytes(seed, "appkey", i, n)) }

// buildAppMd uses the real encoder; it iterates a Go map, so the pair order is random: encode until the
// pairs come out in the order of the layout (the format has no canonical order).
func buildAppMd(keys []string, vals [][]byte, total int, s *shape) []byte {
	for try := 0; try < 5000; try++ {
		m := appendable.NewMetadata(nil)
		for i := range keys {
			m.Put(keys[i], vals[i])
		}
		b := m.Bytes()
		if len(b) != total {
			vh.Fatalf("%s %s: real encoding has %d bytes, Wire.tla says %d", s.Fmt, s.P, len(b), total)
		}
		off := 8
		ok := true
		for i := range keys {
			if string(b[off+4:off+4+len(keys[i])]) != keys[i] {
				ok = false
				break
			}
			off += 4 + len(keys[i]) + 4 + len(vals[i])
		}
		if ok {
			return b
		}
	}
	vh.Fatalf("could not obtain the pair order of the layout from the real encoder")
	return nil
}

func runAppMetadata(s *shape) {
	var p appMdP
	vh.Must(json.Unmarshal(s.P, &p), "shape params")
	var keys []string
	var vals [][]byte
	for i, kv := range p.Pairs {
		keys = append(keys, appKey(i, kv[0]))
		vals = append(vals, vh.Bytes(seed, "appval", i, kv[1]))
	}
	valid := buildAppMd(keys, vals, s.Total, s)
	bindLayout(s, valid)
	var tasks []task
	for k, m := range s.Muts {
		var vl []int
		for _, v := range vals {
			vl = append(vl, len(v))
		}
		tasks = append(tasks, task{Idx: k, Kind: "appmd", In: apply(valid, m), Keys: keys, ValLens: vl})
	}
	childJobs = append(childJobs, &childJob{s: s, tasks: tasks})
}

// decodeAppMd runs in the child process (address-space limit): the decoder and the typed accessors readers use.
func decodeAppMd(t task) []stageOut {
	var md *appendable.Metadata
	o := call(func() error { md = appendable.NewMetadata(t.In); return nil })
	out := []stageOut{{Entry: "appendable.NewMetadata", O: o}}
	if o.kind != "value" {
		return out
	}
	// readers fetch what writers stored with the typed accessors: an item written with PutInt (8 bytes)
	// is read with GetInt, one written with PutBool (1 byte) with GetBool
	o2 := call(func() error {
		for i, k := range t.Keys {
			md.Get(k)
			switch t.ValLens[i] {
			case 8:
				md.GetInt(k)
			case 1:
				md.GetBool(k)
			}
		}
		_ = md.Bytes()
		return nil
	})
	return append(out, stageOut{Entry: "appendable.NewMetadata", Stage: "GetInt/GetBool", O: o2})
}

// ---------------------------------------------------------------- singleapp file header

type appFileP struct{ Wrapped, Payload int }

func runAppFile(s *shape, dir string) {
	var p appFileP
	vh.Must(json.Unmarshal(s.P, &p), "shape params")
	order := []string{"PREALLOC_SIZE", "COMPRESSION_FORMAT", "COMPRESSION_LEVEL", "WRAPPED_METADATA"}
	wrapped := vh.Bytes(seed, "wrapped", 0, p.Wrapped)
	payload := vh.Bytes(seed, "payload", 0, p.Payload)
	var valid []byte
	path := filepath.Join(dir, "appfile.val")
	for try := 0; ; try++ {
		if try > 3000 {
			vh.Fatalf("could not obtain the metadata order of the layout from singleapp.Open")
		}
		os.Remove(path)
		a, err := singleapp.Open(path, singleapp.DefaultOptions().WithMetadata(wrapped))
		vh.Must(err, "singleapp.Open (create)")
		if len(payload) > 0 {
			_, _, err = a.Append(payload)
			vh.Must(err, "Append")
		}
		vh.Must(a.Close(), "Close")
		b, err := os.ReadFile(path)
		vh.Must(err, "read file")
		off := 4 + 8
		ok := len(b) == s.Total
		for _, k := range order {
			if !ok || off+4+len(k) > len(b) || string(b[off+4:off+4+len(k)]) != k {
				ok = false
				break
			}
			vl := 8
			if k == "WRAPPED_METADATA" {
				vl = p.Wrapped
			}
			off += 4 + len(k) + 4 + vl
		}
		if len(b) != s.Total {
			vh.Fatalf("AppFile %s: singleapp wrote %d bytes, Wire.tla says %d", s.P, len(b), s.Total)
		}
		if ok {
			valid = b
			break
		}
	}
	bindLayout(s, valid)
	var tasks []task
	for k, m := range s.Muts {
		tasks = append(tasks, task{Idx: k, Kind: "appfile", In: apply(valid, m), Dir: dir})
	}
	childJobs = append(childJobs, &childJob{s: s, tasks: tasks})
}

func decodeAppFile(t task) []stageOut {
	fp := filepath.Join(t.Dir, fmt.Sprintf("appfile-%d.val", t.Idx))
	vh.Must(os.WriteFile(fp, t.In, 0644), "write mutated file")
	defer os.Remove(fp)
	var a *singleapp.AppendableFile
	o := call(func() error {
		x, err := singleapp.Open(fp, singleapp.DefaultOptions().WithReadOnly(true))
		a = x
		return err
	})
	out := []stageOut{{Entry: "singleapp.Open", O: o}}
	if o.kind == "value" {
		o2 := call(func() error {
			_ = a.Metadata()
			sz, _ := a.Size()
			if sz > 0 && sz < 1<<20 {
				buf := make([]byte, sz)
				a.ReadAt(buf, 0)
			}
			return nil
		})
		out = append(out, stageOut{Entry: "singleapp.Open", Stage: "Metadata/Size/ReadAt", O: o2})
	}
	if a != nil {
		call(func() error { return a.Close() })
	}
	return out
}

// ---------------------------------------------------------------- PostgreSQL frontend messages

func cstr(tag string, k, n int) []byte {
	b := vh.Bytes(seed, tag, k, n)
	for i := range b {
		b[i] = 'a' + b[i]%26
	}
	return append(b, 0)
}

func be16(v int) []byte { return []byte{byte(v >> 8), byte(v)} }
func be32(v int) []byte { return []byte{byte(v >> 24), byte(v >> 16), byte(v >> 8), byte(v)} }

func runPgMessage(s *shape) {
	var p map[string]json.RawMessage
	vh.Must(json.Unmarshal(s.P, &p), "shape params")
	geti := func(k string) int {
		var v int
		vh.Must(json.Unmarshal(p[k], &v), "param "+k)
		return v
	}
	// The frontend encoders live in client libraries, not in immudb: the valid bytes are assembled here
	// from the protocol definition and bound to the layout; the real parser must accept them.
	var valid []byte
	var entry string
	var parse func(b []byte) error
	switch s.Fmt {
	case "PgParse":
		entry = "fmessages.ParseParseMsg"
		valid = append(cstr("name", 0, geti("nameLen")), cstr("query", 0, geti("queryLen"))...)
		valid = append(valid, be16(geti("ntypes"))...)
		for i := 0; i < geti("ntypes"); i++ {
			valid = append(valid, be32(23)...)
		}
		parse = func(b []byte) error { _, err := fm.ParseParseMsg(b); return err }
	case "PgBind":
		entry = "fmessages.ParseBindMsg"
		valid = append(cstr("portal", 0, geti("portalLen")), cstr("stmt", 0, geti("stmtLen"))...)
		valid = append(valid, be16(geti("nfmt"))...)
		for i := 0; i < geti("nfmt"); i++ {
			valid = append(valid, be16(i%2)...)
		}
		var params []int
		vh.Must(json.Unmarshal(p["params"], &params), "params")
		valid = append(valid, be16(len(params))...)
		for i, pl := range params {
			if pl < 0 {
				valid = append(valid, 0xff, 0xff, 0xff, 0xff)
				continue
			}
			valid = append(valid, be32(pl)...)
			valid = append(valid, vh.Bytes(seed, "pval", i, pl)...)
		}
		valid = append(valid, be16(geti("nres"))...)
		for i := 0; i < geti("nres"); i++ {
			valid = append(valid, be16(0)...)
		}
		parse = func(b []byte) error { _, err := fm.ParseBindMsg(b); return err }
	case "PgDescribe":
		entry = "fmessages.ParseDescribeMsg"
		valid = append([]byte{byte(geti("kind"))}, cstr("name", 0, geti("nameLen"))...)
		parse = func(b []byte) error { _, err := fm.ParseDescribeMsg(b); return err }
	case "PgExecute":
		entry = "fmessages.ParseExecuteMsg"
		valid = append(cstr("portal", 0, geti("portalLen")), be32(100)...)
		parse = func(b []byte) error { _, err := fm.ParseExecuteMsg(b); return err }
	case "PgPassword":
		entry = "fmessages.ParsePasswordMsg"
		valid = cstr("password", 0, geti("len"))
		parse = func(b []byte) error { _, err := fm.ParsePasswordMsg(b); return err }
	case "PgQuery":
		entry = "fmessages.ParseQueryMsg"
		valid = cstr("query", 0, geti("len"))
		parse = func(b []byte) error { _, err := fm.ParseQueryMsg(b); return err }
	}
	bindLayout(s, valid)
	// PgBind with two format codes is only well-formed when there are two parameters
	skipNone := s.Fmt == "PgBind" && geti("nfmt") == 2 && string(p["params"]) == "[]"
	for _, m := range s.Muts {
		if m.Op == "none" && skipNone {
			m.Expect = "error-or-value"
		}
		in := apply(valid, m)
		o := call(func() error { return parse(in) })
		judge(entry, s, m, in, o, "")
	}
}

// whole frames through the connection reader
func runPgFrame(s *shape) {
	var p struct{ Type, PayloadLen int }
	vh.Must(json.Unmarshal(s.P, &p), "shape params")
	valid := append([]byte{byte(p.Type)}, be32(p.PayloadLen+4)...)
	valid = append(valid, cstr("payload", 0, p.PayloadLen)[:p.PayloadLen]...)
	bindLayout(s, valid)
	for _, m := range s.Muts {
		if m.Field == "type" && m.Op == "set" {
			_, known := pgmeta.MTypes[byte(m.Val)]
			if known != (m.How == "other-valid") {
				vh.Fatalf("Wire.tla's set of frame types differs from pgmeta.MTypes at %d (%s)", m.Val, m.How)
			}
		}
		in := apply(valid, m)
		o := call(func() error {
			c1, c2 := net.Pipe()
			defer c1.Close()
			go func() {
				c2.SetWriteDeadline(time.Now().Add(5 * time.Second))
				c2.Write(in)
				c2.Close() // end of stream: a reader waiting for more bytes gets EOF
			}()
			c1.SetReadDeadline(time.Now().Add(5 * time.Second))
			_, err := pgserver.NewMessageReader(c1).ReadRawMessage()
			return err
		})
		judge("pgsql/server.messageReader.ReadRawMessage", s, m, in, o, "")
	}
}

// ---------------------------------------------------------------- stream chunks

type chunkStream struct {
	chunks [][]byte
	i      int
}

func (c *chunkStream) Recv() (*schema.Chunk, error) {
	if c.i >= len(c.chunks) {
		return nil, io.EOF
	}
	c.i++
	return &schema.Chunk{Content: c.chunks[c.i-1]}, nil
}

func chunked(b []byte, size int) *chunkStream {
	cs := &chunkStream{}
	if size <= 0 || size >= len(b) {
		cs.chunks = [][]byte{b}
		return cs
	}
	for len(b) > 0 {
		n := size
		if n > len(b) {
			n = len(b)
		}
		cs.chunks = append(cs.chunks, b[:n])
		b = b[n:]
	}
	return cs
}

func runStream(s *shape) {
	var p struct{ Lens []int }
	vh.Must(json.Unmarshal(s.P, &p), "shape params")
	// valid bytes through the real sender side framing: u64 length + content per message
	var valid []byte
	for i, l := range p.Lens {
		valid = append(valid, 0, 0, 0, 0)
		valid = append(valid, be32(l)...)
		c := vh.Bytes(seed, "msg", i, l)
		if l == 1 {
			c[0] = stream.TOp_Kv
		}
		valid = append(valid, c...)
	}
	bindLayout(s, valid)
	var tasks []task
	for k, m := range s.Muts {
		tasks = append(tasks, task{Idx: k, Kind: "stream", In: apply(valid, m)})
	}
	childJobs = append(childJobs, &childJob{s: s, tasks: tasks})
}

func decodeStream(t task) []stageOut {
	var out []stageOut
	in := t.In
	for _, cs := range []int{0, 11} {
		o := call(func() error {
			_, _, err := stream.NewMsgReceiver(chunked(in, cs)).ReadFully()
			if err == io.EOF {
				return nil
			}
			return err
		})
		out = append(out, stageOut{Entry: "stream.msgReceiver.ReadFully", Variant: tagIf(cs), O: o})
		o = call(func() error {
			kvr := stream.NewKvStreamReceiver(stream.NewMsgReceiver(chunked(in, cs)), 16)
			for n := 0; n < 64; n++ {
				_, vr, err := kvr.Next()
				if err != nil {
					if err == io.EOF {
						return nil
					}
					return err
				}
				if _, err := stream.ReadValue(vr, 16); err != nil {
					if err == io.EOF {
						return nil
					}
					return err
				}
			}
			return nil
		})
		out = append(out, stageOut{Entry: "stream.kvStreamReceiver.Next", Variant: tagIf(cs), O: o})
		o = call(func() error {
			ear := stream.NewExecAllStreamReceiver(stream.NewMsgReceiver(chunked(in, cs)), 16)
			for n := 0; n < 64; n++ {
				op, err := ear.Next()
				if err != nil {
					if err == io.EOF {
						return nil
					}
					return err
				}
				if kv, ok := op.(*stream.Op_KeyValue); ok {
					if _, err := stream.ReadValue(kv.KeyValue.Value.Content, 16); err != nil && err != io.EOF {
						return err
					}
				}
			}
			return nil
		})
		out = append(out, stageOut{Entry: "stream.execAllStreamReceiver.Next", Variant: tagIf(cs), O: o})
	}
	return out
}

func tagIf(cs int) string {
	if cs == 0 {
		return ""
	}
	return fmt.Sprintf("chunks-of-%d", cs)
}
