package main

import (
	"context"
	"fmt"
	"path/filepath"
	"reflect"

	"github.com/golang/protobuf/proto"

	"github.com/codenotary/immudb/embedded/htree"
	"github.com/codenotary/immudb/embedded/store"
	"github.com/codenotary/immudb/pkg/api/schema"

	"verifharness/vh"
)

// Proof messages: a valid message is produced by the real code (a store with a few transactions, the real
// *ToProto converters), one field is mutated structurally as enumerated by TLC, the message goes through
// protobuf marshal/unmarshal (what a peer can actually send) and into the real *FromProto converter and,
// when that returns, into the verifier that consumes the result.

func mutateField(msg interface{}, field, kind, op string) bool {
	v := reflect.ValueOf(msg).Elem().FieldByName(field)
	if !v.IsValid() {
		vh.Fatalf("message %T has no field %s (Wire.tla drifted from the schema)", msg, field)
	}
	switch kind {
	case "msg":
		if v.Kind() != reflect.Ptr {
			vh.Fatalf("%T.%s is not a sub-message", msg, field)
		}
		v.Set(reflect.Zero(v.Type()))
	case "digest":
		b, ok := v.Interface().([]byte)
		if !ok {
			vh.Fatalf("%T.%s is not bytes", msg, field)
		}
		switch op {
		case "nil":
			v.Set(reflect.Zero(v.Type()))
		case "short":
			if len(b) < 1 {
				return false
			}
			v.SetBytes(append([]byte{}, b[:len(b)-1]...))
		case "long":
			v.SetBytes(append(append([]byte{}, b...), 0x5a))
		}
	case "digests", "msgs":
		if v.Kind() != reflect.Slice {
			vh.Fatalf("%T.%s is not repeated", msg, field)
		}
		n := v.Len()
		if op != "nil" && n == 0 {
			return false
		}
		switch op {
		case "nil":
			v.Set(reflect.Zero(v.Type()))
		case "drop-element":
			v.Set(reflect.AppendSlice(v.Slice(0, n/2), v.Slice(n/2+1, n)))
		case "dup-element":
			out := reflect.MakeSlice(v.Type(), 0, n+1)
			out = reflect.AppendSlice(out, v.Slice(0, n/2+1))
			out = reflect.AppendSlice(out, v.Slice(n/2, n))
			v.Set(out)
		case "short-element":
			b := v.Index(n / 2).Bytes()
			v.Index(n / 2).SetBytes(append([]byte{}, b[:len(b)-1]...))
		case "nil-element":
			v.Index(n / 2).Set(reflect.Zero(v.Index(n / 2).Type()))
		}
	}
	return true
}

// wire sends a message through protobuf encoding, as a peer would; nil elements of repeated fields cannot be
// expressed on the wire, those mutants are handed over in memory.
func wire(in proto.Message, out proto.Message, op string) proto.Message {
	if op == "nil-element" {
		return in
	}
	b, err := proto.Marshal(in)
	if err != nil {
		return in
	}
	if err := proto.Unmarshal(b, out); err != nil {
		return in
	}
	return out
}

func runProofs(muts []proofMut, dir string) {
	ctx := context.Background()
	st, err := store.Open(filepath.Join(dir, "proofstore"), store.DefaultOptions().WithSynced(false).WithMaxConcurrency(1).WithMaxIOConcurrency(1))
	vh.Must(err, "open proof store")
	defer st.Close()
	var hdrs []*store.TxHeader
	for i := 0; i < 12; i++ {
		otx, err := st.NewWriteOnlyTx(ctx)
		vh.Must(err, "tx")
		md := store.NewKVMetadata()
		vh.Must(md.ExpiresAt(timeFar()), "ExpiresAt")
		vh.Must(otx.Set([]byte(fmt.Sprintf("k%d", i)), md, vh.Bytes(seed, "pv", i, 10)), "set")
		vh.Must(otx.Set([]byte(fmt.Sprintf("j%d", i)), nil, vh.Bytes(seed, "pw", i, 10)), "set")
		if i%2 == 1 {
			otx.WithMetadata(buildTxMd(txMdP{false, 3}, i))
		}
		h, err := otx.Commit(ctx)
		vh.Must(err, "commit")
		hdrs = append(hdrs, h)
	}
	src, dst := hdrs[2], hdrs[10]
	dp, err := st.DualProof(src, dst)
	vh.Must(err, "DualProof")
	if !store.VerifyDualProof(dp, src.ID, dst.ID, src.Alh(), dst.Alh()) {
		vh.Fatalf("the honest dual proof does not verify")
	}
	tx := store.NewTx(st.MaxTxEntries(), st.MaxKeyLen())
	vh.Must(st.ReadTx(dst.ID, false, tx), "ReadTx")
	iproof, err := tx.Proof([]byte("k10"))
	vh.Must(err, "inclusion proof")

	// fresh valid messages for every mutant
	mkDual := func() *schema.DualProof {
		d := schema.DualProofToProto(dp)
		if d.LinearAdvanceProof == nil {
			d.LinearAdvanceProof = &schema.LinearAdvanceProof{}
		}
		// make sure every list the mutations address has elements
		if len(d.LinearAdvanceProof.LinearProofTerms) == 0 {
			d.LinearAdvanceProof.LinearProofTerms = schema.DigestsToProto([][32]byte{src.Alh(), dst.Alh()})
		}
		if len(d.LinearAdvanceProof.InclusionProofs) == 0 {
			d.LinearAdvanceProof.InclusionProofs = []*schema.InclusionProof{{Terms: schema.DigestsToProto([][32]byte{src.Alh()})}, {Terms: schema.DigestsToProto([][32]byte{dst.Alh()})}}
		}
		return d
	}
	mkTx := func() *schema.Tx { return schema.TxToProto(tx) }
	useDual := func(d *schema.DualProof) error {
		p := schema.DualProofFromProto(d)
		store.VerifyDualProof(p, src.ID, dst.ID, src.Alh(), dst.Alh())
		return nil
	}
	useDualV2 := func(d *schema.DualProofV2) error {
		p := schema.DualProofV2FromProto(d)
		store.VerifyDualProofV2(p, src.ID, dst.ID, src.Alh(), dst.Alh())
		return nil
	}
	useTx := func(t *schema.Tx) error {
		x := schema.TxFromProto(t)
		_ = x.Header().Alh()
		for _, e := range x.Entries() {
			_ = e.HVal()
		}
		return nil
	}

	for _, pm := range muts {
		s := &shape{Fmt: "Proof." + pm.Msg}
		m := mut{Op: pm.Op, Field: pm.Field, How: pm.Kind, Expect: "error-or-value"}
		var o outcome
		entry := ""
		applied := true
		switch pm.Msg {
		case "DualProof":
			entry = "schema.DualProofFromProto+store.VerifyDualProof"
			d := mkDual()
			applied = mutateField(d, pm.Field, pm.Kind, pm.Op)
			o = call(func() error { return useDual(wire(d, &schema.DualProof{}, pm.Op).(*schema.DualProof)) })
		case "DualProofV2":
			entry = "schema.DualProofV2FromProto+store.VerifyDualProofV2"
			full := mkDual()
			d := &schema.DualProofV2{SourceTxHeader: full.SourceTxHeader, TargetTxHeader: full.TargetTxHeader, InclusionProof: full.InclusionProof, ConsistencyProof: full.ConsistencyProof}
			applied = mutateField(d, pm.Field, pm.Kind, pm.Op)
			o = call(func() error { return useDualV2(wire(d, &schema.DualProofV2{}, pm.Op).(*schema.DualProofV2)) })
		case "TxHeader": // standalone and as the source header of a dual proof
			entry = "schema.TxHeaderFromProto"
			h := schema.TxHeaderToProto(dst)
			if h.Metadata == nil {
				h.Metadata = &schema.TxMetadata{}
			}
			applied = mutateField(h, pm.Field, pm.Kind, pm.Op)
			o = call(func() error {
				x := schema.TxHeaderFromProto(wire(h, &schema.TxHeader{}, pm.Op).(*schema.TxHeader))
				_ = x.Alh()
				_, err := x.Bytes()
				return err
			})
			judgeProof(entry, s, m, pm, o, applied)
			entry = "schema.DualProofFromProto+store.VerifyDualProof"
			s = &shape{Fmt: "Proof.DualProof.SourceTxHeader"}
			d := mkDual()
			mutateField(d.SourceTxHeader, pm.Field, pm.Kind, pm.Op)
			o = call(func() error { return useDual(wire(d, &schema.DualProof{}, pm.Op).(*schema.DualProof)) })
		case "LinearProof":
			entry = "schema.DualProofFromProto+store.VerifyDualProof"
			s = &shape{Fmt: "Proof.DualProof.LinearProof"}
			d := mkDual()
			applied = mutateField(d.LinearProof, pm.Field, pm.Kind, pm.Op)
			o = call(func() error { return useDual(wire(d, &schema.DualProof{}, pm.Op).(*schema.DualProof)) })
		case "LinearAdvanceProof":
			entry = "schema.DualProofFromProto+store.VerifyDualProof"
			s = &shape{Fmt: "Proof.DualProof.LinearAdvanceProof"}
			d := mkDual()
			applied = mutateField(d.LinearAdvanceProof, pm.Field, pm.Kind, pm.Op)
			o = call(func() error { return useDual(wire(d, &schema.DualProof{}, pm.Op).(*schema.DualProof)) })
		case "InclusionProof":
			entry = "schema.InclusionProofFromProto+htree.VerifyInclusion"
			ip := schema.InclusionProofToProto(iproof)
			applied = mutateField(ip, pm.Field, pm.Kind, pm.Op)
			o = call(func() error {
				x := schema.InclusionProofFromProto(wire(ip, &schema.InclusionProof{}, pm.Op).(*schema.InclusionProof))
				htree.VerifyInclusion(x, [32]byte{1}, dst.Eh)
				return nil
			})
		case "Tx":
			entry = "schema.TxFromProto"
			t := mkTx()
			applied = mutateField(t, pm.Field, pm.Kind, pm.Op)
			o = call(func() error { return useTx(wire(t, &schema.Tx{}, pm.Op).(*schema.Tx)) })
		case "TxEntry":
			entry = "schema.TxFromProto"
			s = &shape{Fmt: "Proof.Tx.Entries[0]"}
			t := mkTx()
			if t.Entries[0].Metadata == nil {
				t.Entries[0], t.Entries[1] = t.Entries[1], t.Entries[0]
			}
			applied = mutateField(t.Entries[0], pm.Field, pm.Kind, pm.Op)
			o = call(func() error { return useTx(wire(t, &schema.Tx{}, pm.Op).(*schema.Tx)) })
		case "KVMetadata":
			entry = "schema.KVMetadataFromProto"
			k := &schema.KVMetadata{Deleted: true, Expiration: &schema.Expiration{ExpiresAt: 4102444800}}
			applied = mutateField(k, pm.Field, pm.Kind, pm.Op)
			o = call(func() error {
				x := schema.KVMetadataFromProto(wire(k, &schema.KVMetadata{}, pm.Op).(*schema.KVMetadata))
				_ = x.Bytes()
				return nil
			})
		case "VerifiableTx":
			entry = "schema.TxFromProto+DualProofFromProto(VerifiableTx)"
			v := &schema.VerifiableTx{Tx: mkTx(), DualProof: mkDual()}
			applied = mutateField(v, pm.Field, pm.Kind, pm.Op)
			o = call(func() error {
				w := wire(v, &schema.VerifiableTx{}, pm.Op).(*schema.VerifiableTx)
				// what a client does with a VerifiableTx it received
				if err := useTx(w.Tx); err != nil {
					return err
				}
				return useDual(w.DualProof)
			})
		default:
			vh.Fatalf("no converter bound to proof message %q", pm.Msg)
		}
		judgeProof(entry, s, m, pm, o, applied)
	}
}

func judgeProof(entry string, s *shape, m mut, pm proofMut, o outcome, applied bool) {
	if !applied {
		res.Count("proof-mutation-not-applicable", 1)
		return
	}
	in := []byte(fmt.Sprintf("%s.%s:%s", s.Fmt, pm.Field, pm.Op))
	judge(entry, s, m, in, o, "")
}
