package main

import "verifharness/vh"

func runDB(bs []*behaviour, n int, dir string, cls []*class, res *vh.Result) {}
