package main

// The two bindings of the replay: embedded/document.Engine over a store, and the document API of a database
// (pkg/database) with document proofs checked by pkg/verification.VerifyDocument.

import (
	"context"
	"errors"
	"fmt"
	"strings"

	"github.com/codenotary/immudb/embedded/document"
	"github.com/codenotary/immudb/embedded/sql"
	"github.com/codenotary/immudb/embedded/store"
	"github.com/codenotary/immudb/pkg/api/protomodel"
	"github.com/codenotary/immudb/pkg/database"
	"github.com/codenotary/immudb/pkg/verification"
	"google.golang.org/protobuf/proto"
	"google.golang.org/protobuf/types/known/structpb"

	"verifharness/vh"
)

var errNotPageAligned = errors.New("offset is not a multiple of the page size")

type api interface {
	CreateCollection(name string, fields []*protomodel.Field, ixs []*protomodel.Index) error
	AddField(coll string, f *protomodel.Field) error
	RemoveField(coll, f string) error
	CreateIndex(coll string, fs []string, uq bool) error
	DeleteIndex(coll string, fs []string) error
	Insert(coll string, d *structpb.Struct) (string, error)
	Replace(q *protomodel.Query, d *structpb.Struct) ([]*protomodel.DocumentAtRevision, error)
	Delete(q *protomodel.Query) error
	Search(q *protomodel.Query, off int) (document.DocumentReader, error)
	Count(q *protomodel.Query) (int64, error)
	Audit(coll, id string, desc bool, off, lim int) ([]*protomodel.DocumentAtRevision, error)
	Get(coll, id string) (*structpb.Struct, uint64, error) // the stored document and its revision number
	Settle()
	Close() error
}

// ---- embedded/document.Engine

type engineAPI struct {
	st *store.ImmuStore
	e  *document.Engine
}

func openEngine(dir string) (api, error) {
	st, err := store.Open(dir, storeOpts())
	if err != nil {
		return nil, err
	}
	e, err := document.NewEngine(st, document.DefaultOptions().WithPrefix([]byte{3}))
	if err != nil {
		st.Close()
		return nil, err
	}
	return &engineAPI{st: st, e: e}, nil
}

const user = "c19"

func (a *engineAPI) CreateCollection(name string, fields []*protomodel.Field, ixs []*protomodel.Index) error {
	return a.e.CreateCollection(ctx, user, name, "", fields, ixs)
}
func (a *engineAPI) AddField(coll string, f *protomodel.Field) error { return a.e.AddField(ctx, user, coll, f) }
func (a *engineAPI) RemoveField(coll, f string) error              { return a.e.RemoveField(ctx, user, coll, f) }
func (a *engineAPI) CreateIndex(coll string, fs []string, uq bool) error {
	return a.e.CreateIndex(ctx, user, coll, fs, uq)
}
func (a *engineAPI) DeleteIndex(coll string, fs []string) error { return a.e.DeleteIndex(ctx, user, coll, fs) }
func (a *engineAPI) Insert(coll string, d *structpb.Struct) (string, error) {
	_, id, err := a.e.InsertDocument(ctx, user, coll, d)
	if err != nil {
		return "", err
	}
	return id.EncodeToHexString(), nil
}
func (a *engineAPI) Replace(q *protomodel.Query, d *structpb.Struct) ([]*protomodel.DocumentAtRevision, error) {
	return a.e.ReplaceDocuments(ctx, user, q, d)
}
func (a *engineAPI) Delete(q *protomodel.Query) error { return a.e.DeleteDocuments(ctx, user, q) }
func (a *engineAPI) Search(q *protomodel.Query, off int) (document.DocumentReader, error) {
	return a.e.GetDocuments(ctx, q, int64(off))
}
func (a *engineAPI) Count(q *protomodel.Query) (int64, error) { return a.e.CountDocuments(ctx, q, 0) }
func (a *engineAPI) Audit(coll, id string, desc bool, off, lim int) ([]*protomodel.DocumentAtRevision, error) {
	did, err := document.NewDocumentIDFromHexEncodedString(id)
	vh.Must(err, "document id")
	return a.e.AuditDocument(ctx, coll, did, desc, uint64(off), lim, true)
}
func (a *engineAPI) Get(coll, id string) (*structpb.Struct, uint64, error) {
	did, err := document.NewDocumentIDFromHexEncodedString(id)
	vh.Must(err, "document id")
	_, _, enc, err := a.e.GetEncodedDocument(ctx, coll, did, 0)
	if err != nil {
		return nil, 0, err
	}
	d, err := decodeRow(enc.EncodedDocument)
	if err != nil {
		return nil, 0, fmt.Errorf("undecodable row: %w", err)
	}
	return d, enc.Revision, nil
}
func (a *engineAPI) Settle() {
	vh.Must(a.st.WaitForIndexingUpto(ctx, a.st.LastPrecommittedTxID()), "WaitForIndexingUpto")
}
func (a *engineAPI) Close() error { return a.st.Close() }

// ---- pkg/database

type noMultiDB struct{}

func (noMultiDB) ListDatabases(ctx context.Context) ([]string, error) { return nil, sql.ErrNoSupported }
func (noMultiDB) CreateDatabase(ctx context.Context, db string, ifNotExists bool) error {
	return sql.ErrNoSupported
}
func (noMultiDB) UseDatabase(ctx context.Context, db string) error  { return sql.ErrNoSupported }
func (noMultiDB) GetLoggedUser(ctx context.Context) (sql.User, error) { return nil, sql.ErrNoSupported }
func (noMultiDB) ListUsers(ctx context.Context) ([]sql.User, error)   { return nil, sql.ErrNoSupported }
func (noMultiDB) CreateUser(ctx context.Context, username, password string, permission sql.Permission) error {
	return sql.ErrNoSupported
}
func (noMultiDB) AlterUser(ctx context.Context, username, password string, permission sql.Permission) error {
	return sql.ErrNoSupported
}
func (noMultiDB) GrantSQLPrivileges(ctx context.Context, database, username string, privileges []sql.SQLPrivilege) error {
	return sql.ErrNoSupported
}
func (noMultiDB) RevokeSQLPrivileges(ctx context.Context, database, username string, privileges []sql.SQLPrivilege) error {
	return sql.ErrNoSupported
}
func (noMultiDB) DropUser(ctx context.Context, username string) error { return sql.ErrNoSupported }
func (noMultiDB) ExecPreparedStmts(ctx context.Context, opts *sql.TxOptions, stmts []sql.SQLStmt, params map[string]interface{}) (*sql.SQLTx, []*sql.SQLTx, error) {
	return nil, nil, sql.ErrNoSupported
}

type dbAPI struct {
	d database.DB
	r *run
}

func dbOptions(dir string) *database.Options {
	return database.DefaultOptions().WithDBRootPath(dir).WithStoreOptions(storeOpts())
}

func openDB(dir string, r *run) (api, error) {
	var d database.DB
	var err error
	if _, serr := osStat(dir + "/db"); serr == nil {
		d, err = database.OpenDB("db", noMultiDB{}, dbOptions(dir), quiet)
	} else {
		d, err = database.NewDB("db", noMultiDB{}, dbOptions(dir), quiet)
	}
	if err != nil {
		return nil, err
	}
	return &dbAPI{d: d, r: r}, nil
}

func (a *dbAPI) CreateCollection(name string, fields []*protomodel.Field, ixs []*protomodel.Index) error {
	_, err := a.d.CreateCollection(ctx, user, &protomodel.CreateCollectionRequest{Name: name, Fields: fields, Indexes: ixs})
	return err
}
func (a *dbAPI) AddField(coll string, f *protomodel.Field) error {
	_, err := a.d.AddField(ctx, user, &protomodel.AddFieldRequest{CollectionName: coll, Field: f})
	return err
}
func (a *dbAPI) RemoveField(coll, f string) error {
	_, err := a.d.RemoveField(ctx, user, &protomodel.RemoveFieldRequest{CollectionName: coll, FieldName: f})
	return err
}
func (a *dbAPI) CreateIndex(coll string, fs []string, uq bool) error {
	_, err := a.d.CreateIndex(ctx, user, &protomodel.CreateIndexRequest{CollectionName: coll, Fields: fs, IsUnique: uq})
	return err
}
func (a *dbAPI) DeleteIndex(coll string, fs []string) error {
	_, err := a.d.DeleteIndex(ctx, user, &protomodel.DeleteIndexRequest{CollectionName: coll, Fields: fs})
	return err
}
func (a *dbAPI) Insert(coll string, d *structpb.Struct) (string, error) {
	res, err := a.d.InsertDocuments(ctx, user, &protomodel.InsertDocumentsRequest{CollectionName: coll, Documents: []*structpb.Struct{d}})
	if err != nil {
		return "", err
	}
	if len(res.DocumentIds) != 1 {
		return "", fmt.Errorf("%d document ids returned", len(res.DocumentIds))
	}
	return res.DocumentIds[0], nil
}
func (a *dbAPI) Replace(q *protomodel.Query, d *structpb.Struct) ([]*protomodel.DocumentAtRevision, error) {
	res, err := a.d.ReplaceDocuments(ctx, user, &protomodel.ReplaceDocumentsRequest{Query: q, Document: d})
	if err != nil {
		return nil, err
	}
	return res.Revisions, nil
}
func (a *dbAPI) Delete(q *protomodel.Query) error {
	_, err := a.d.DeleteDocuments(ctx, user, &protomodel.DeleteDocumentsRequest{Query: q})
	return err
}
func (a *dbAPI) Search(q *protomodel.Query, off int) (document.DocumentReader, error) {
	return a.d.SearchDocuments(ctx, q, int64(off))
}
func (a *dbAPI) Count(q *protomodel.Query) (int64, error) {
	res, err := a.d.CountDocuments(ctx, &protomodel.CountDocumentsRequest{Query: q})
	if err != nil {
		return 0, err
	}
	return res.Count, nil
}
func (a *dbAPI) Audit(coll, id string, desc bool, off, lim int) ([]*protomodel.DocumentAtRevision, error) {
	if off%lim != 0 {
		return nil, errNotPageAligned
	}
	res, err := a.d.AuditDocument(ctx, &protomodel.AuditDocumentRequest{CollectionName: coll, DocumentId: id, Desc: desc, Page: uint32(off/lim + 1), PageSize: uint32(lim)})
	if err != nil {
		return nil, err
	}
	return res.Revisions, nil
}

// Get through the database: the document comes with a proof; the proof must verify for the document and must not
// verify for an altered document; the revision number is the one the audit trail gives the latest revision
func (a *dbAPI) Get(coll, id string) (*structpb.Struct, uint64, error) {
	proof, err := a.d.ProofDocument(ctx, &protomodel.ProofDocumentRequest{CollectionName: coll, DocumentId: id})
	if err != nil {
		if strings.Contains(err.Error(), document.ErrDocumentNotFound.Error()) {
			return nil, 0, document.ErrDocumentNotFound
		}
		return nil, 0, err
	}
	d, err := decodeRow(proof.EncodedDocument)
	if err != nil {
		return nil, 0, fmt.Errorf("undecodable row in proof: %w", err)
	}
	a.r.count("proof:obtained")
	if _, err := verification.VerifyDocument(ctx, proof, d, nil, nil); err != nil {
		a.r.violate("ProofDocument:proof-of-stored-document-does-not-verify", fmt.Sprintf("collection %s document %s: %v", coll, id, err), nil)
	} else {
		a.r.count("proof:verified")
	}
	// altered documents: a changed payload value, a removed field, another id
	for k, alt := range alterations(d, proof.DocumentIdFieldName) {
		if _, err := verification.VerifyDocument(ctx, proof, alt, nil, nil); err == nil {
			a.r.violate("VerifyDocument:altered-document-accepted", fmt.Sprintf("collection %s document %s: alteration %d verifies", coll, id, k), nil)
		} else {
			a.r.count("proof:altered-rejected")
		}
	}
	// a proof with an altered encoded document
	bad := proto.Clone(proof).(*protomodel.ProofDocumentResponse)
	bad.EncodedDocument = append([]byte{}, proof.EncodedDocument...)
	bad.EncodedDocument[len(bad.EncodedDocument)-1] ^= 1
	if bd, derr := decodeRow(bad.EncodedDocument); derr == nil {
		if _, err := verification.VerifyDocument(ctx, bad, bd, nil, nil); err == nil {
			a.r.violate("VerifyDocument:altered-proof-accepted", fmt.Sprintf("collection %s document %s: proof with a flipped bit in the encoded document verifies", coll, id), nil)
		} else {
			a.r.count("proof:altered-rejected")
		}
	}
	revs, err := a.d.AuditDocument(ctx, &protomodel.AuditDocumentRequest{CollectionName: coll, DocumentId: id, Desc: true, Page: 1, PageSize: 1})
	if err != nil || len(revs.Revisions) != 1 {
		return nil, 0, fmt.Errorf("audit of the latest revision: %v", err)
	}
	return d, revs.Revisions[0].Revision, nil
}

func alterations(d *structpb.Struct, idField string) []*structpb.Struct {
	var out []*structpb.Struct
	a1 := proto.Clone(d).(*structpb.Struct)
	a1.Fields["p_stamp"] = structpb.NewNumberValue(a1.Fields["p_stamp"].GetNumberValue() + 1)
	a2 := proto.Clone(d).(*structpb.Struct)
	delete(a2.Fields, "p_txt")
	a3 := proto.Clone(d).(*structpb.Struct)
	a3.Fields["extra"] = structpb.NewNullValue()
	out = append(out, a1, a2, a3)
	return out
}

func (a *dbAPI) Settle() {
	st, err := a.d.CurrentState()
	vh.Must(err, "CurrentState")
	vh.Must(a.d.WaitForIndexingUpto(ctx, st.TxId), "WaitForIndexingUpto")
}
func (a *dbAPI) Close() error { return a.d.Close() }
